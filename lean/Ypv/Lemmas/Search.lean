import Ypv.Spec.Search
/-!
# Lemmas for C07: the recursive search of the model is the document-order pass of the specification
-/
namespace Ypv.Search
open Ypv.Search.Spec

/-- prepend reported addresses to the result of the rest of a pass -/
def andThen (h : List SAddr) (r : List SAddr × List Str) : List SAddr × List Str := (h ++ r.1, r.2)

@[simp] theorem andThen_nil (r : List SAddr × List Str) : andThen [] r = r := rfl

theorem andThen_append (a b : List SAddr) (r) : andThen (a ++ b) r = andThen a (andThen b r) := by
  simp [andThen, List.append_assoc]

theorem leaves_skip (c : Ctx) (seen : List Str) (l rest : List Pos) :
    leaves c seen l.length (l ++ rest) = leaves c seen 0 rest := by
  induction l with
  | nil => rfl
  | cons p l ih => simpa [leaves] using ih

theorem scan_skip (c : Ctx) (seen : List Str) (l rest : List Pos) :
    scan c seen l.length (l ++ rest) = scan c seen 0 rest := by
  induction l with
  | nil => rfl
  | cons p l ih => simpa [scan] using ih

theorem searchAnchor_none (c : Ctx) (seen : List Str) (b : Bool) :
    searchAnchor c none seen b = (.noAnchor, seen) := rfl

@[simp] theorem noAnchor_unwanted : AM.noAnchor.unwantedAlias = false := rfl
@[simp] theorem noAnchor_hit : AM.noAnchor.hit = false := rfl

theorem kindOf_container {n : SNode} (h : n.isContainer = true) : kindOf n = .container := by
  cases n <;> simp_all [SNode.isContainer, kindOf]

/-- the expansion rule at a sequence element -/
theorem yrule_item (c : Ctx) (e : SNode) (a' : SAddr) (sz : Nat) (seen : List Str) :
    yrule c { addr := a', kind := kindOf e, anchor := e.anchor, size := sz } seen =
      (if (!c.o.inclValueAliases && (searchAnchor c e.anchor seen c.o.inclValueAliases).1.unwantedAlias) = true
        then .pass else if e.isContainer then .enter else .leaf,
       (searchAnchor c e.anchor seen c.o.inclValueAliases).2) := by
  generalize hA : searchAnchor c e.anchor seen c.o.inclValueAliases = A
  cases e <;> simp [yrule, kindOf, searchAnchor_none, SNode.isContainer, SNode.anchor] at hA ⊢ <;>
    simp [hA] <;> split <;> simp_all


/-- the expansion rule at a mapping entry that exists for the search -/
theorem yrule_entry (c : Ctx) (mg : Bool) (k : AKey) (v : SNode) (a' : SAddr) (sz : Nat) (seen : List Str)
    (hp : mg = false ∨ c.pooled = true) :
    yrule c { addr := a', kind := kindOf v, key := some k, merged := mg, anchor := v.anchor, size := sz } seen =
      (if ((!c.o.inclKeyAliases && (searchAnchor c k.anchor seen c.o.inclKeyAliases).1.unwantedAlias) ||
           (!c.o.inclValueAliases && (searchAnchor c v.anchor (searchAnchor c k.anchor seen c.o.inclKeyAliases).2
              c.o.inclValueAliases).1.unwantedAlias)) = true
        then .pass else if v.isContainer then .enter else .leaf,
       (searchAnchor c v.anchor (searchAnchor c k.anchor seen c.o.inclKeyAliases).2 c.o.inclValueAliases).2) := by
  generalize hK : searchAnchor c k.anchor seen c.o.inclKeyAliases = K
  generalize hA : searchAnchor c v.anchor K.2 c.o.inclValueAliases = A
  have hm : (mg && !c.pooled) = false := by rcases hp with h | h <;> simp [h]
  cases v <;> simp [yrule, kindOf, SNode.isContainer, SNode.anchor, hm] at hA ⊢ <;>
    simp [hK, hA] <;> split <;> simp_all

theorem yrule_entry_unpooled (c : Ctx) (k : AKey) (v : SNode) (a' : SAddr) (sz : Nat) (seen : List Str)
    (hp : c.pooled = false) :
    yrule c { addr := a', kind := kindOf v, key := some k, merged := true, anchor := v.anchor, size := sz } seen =
      (.pass, seen) := by
  cases v <;> simp [yrule, kindOf, hp]

theorem yrule_member (c : Ctx) (k : AKey) (a' : SAddr) (seen : List Str) :
    yrule c { addr := a', kind := .member, key := some k } seen =
      (if (!c.o.inclKeyAliases && (searchAnchor c k.anchor seen c.o.inclKeyAliases).1.unwantedAlias) = true
        then .pass else .leaf, (searchAnchor c k.anchor seen c.o.inclKeyAliases).2) := by
  simp [yrule]

theorem leaves_refs (c : Ctx) (seen : List Str) (rest : List Pos) (ad : SAddr) :
    ∀ (refs : List Str) (j : Nat), leaves c seen 0 (flatRefs refs j ad ++ rest) = leaves c seen 0 rest
  | [], _ => rfl
  | _ :: r, j => by
    simp only [flatRefs, List.cons_append, leaves, yrule]
    exact leaves_refs c seen rest ad r (j + 1)

theorem leaves_unpooled (c : Ctx) (hp : c.pooled = false) (ad : SAddr) (rest : List Pos) :
    ∀ (es : List (AKey × SNode)) (seen : List Str),
      leaves c seen 0 (flatEntries true es ad ++ rest) = leaves c seen 0 rest
  | [], _ => rfl
  | (k, v) :: r, seen => by
    simp only [flatEntries, List.cons_append, List.append_assoc, leaves, yrule_entry_unpooled c k v _ _ seen hp]
    rw [leaves_skip]
    exact leaves_unpooled c hp ad rest r seen

theorem yc_members (c : Ctx) (bp1 : Str) (ad : SAddr) (rest : List Pos) :
    ∀ (ms : List AKey) (seen : List Str),
      leaves c seen 0 (flatMembers ms ad ++ rest) =
        andThen ((ycMembers c ms bp1 ad seen).1.map Hit.addr) (leaves c (ycMembers c ms bp1 ad seen).2 0 rest)
  | [], _ => by simp [flatMembers, ycMembers]
  | k :: r, seen => by
    simp only [flatMembers, List.cons_append, leaves, yrule_member, ycMembers]
    have ih := yc_members c bp1 ad rest r (searchAnchor c k.anchor seen c.o.inclKeyAliases).2
    by_cases h : (!c.o.inclKeyAliases && (searchAnchor c k.anchor seen c.o.inclKeyAliases).1.unwantedAlias) = true
    · simp [h, ih, andThen]
    · simp [h, ih, andThen]


theorem flat_scalar (a : Option Str) (v : Scalar) (ad : SAddr) : flat (.scalar a v) ad = [] := by simp [flat]

theorem flat_of_not_container {n : SNode} (h : n.isContainer = false) (ad : SAddr) : flat n ad = [] := by
  cases n <;> simp_all [SNode.isContainer, flat]

mutual
theorem yc_node (c : Ctx) : ∀ (n : SNode) (bp : Str) (ad : SAddr) (seen : List Str) (rest : List Pos),
    n.isContainer = true →
    leaves c seen 0 (flat n ad ++ rest) =
      andThen ((ycNode c n bp ad seen).1.map Hit.addr) (leaves c (ycNode c n bp ad seen).2 0 rest)
  | .scalar _ _, _, _, _, _, h => by simp [SNode.isContainer] at h
  | .seq _ items, bp, ad, seen, rest, _ => by
    simp only [flat, ycNode]
    exact yc_items c items 0 (seqPrefix c bp) ad seen rest
  | .set _ ms, bp, ad, seen, rest, _ => by
    simp only [flat, ycNode]
    exact yc_members c (mapPrefix c bp) ad rest ms seen
  | .map _ own merged refs, bp, ad, seen, rest, _ => by
    simp only [flat, ycNode, List.append_assoc]
    rw [yc_entries c false own (mapPrefix c bp) ad seen _ (Or.inl rfl)]
    by_cases hp : c.pooled = true
    · rw [yc_entries c true merged (mapPrefix c bp) ad _ _ (Or.inr hp), leaves_refs]
      simp [hp, andThen, List.append_assoc]
    · have hp' : c.pooled = false := by simpa using hp
      rw [leaves_unpooled c hp', leaves_refs]
      simp [hp']
theorem yc_items (c : Ctx) : ∀ (items : List SNode) (i : Nat) (bp1 : Str) (ad : SAddr) (seen : List Str)
    (rest : List Pos),
    leaves c seen 0 (flatItems items i ad ++ rest) =
      andThen ((ycItems c items i bp1 ad seen).1.map Hit.addr) (leaves c (ycItems c items i bp1 ad seen).2 0 rest)
  | [], _, _, _, _, _ => by simp [flatItems, ycItems]
  | e :: r, i, bp1, ad, seen, rest => by
    simp only [flatItems, List.cons_append, List.append_assoc, leaves, yrule_item, ycItems]
    by_cases h1 : (!c.o.inclValueAliases && (searchAnchor c e.anchor seen c.o.inclValueAliases).1.unwantedAlias) = true
    · simp only [h1, Bool.false_eq_true, ↓reduceIte]
      rw [leaves_skip, yc_items c r (i + 1) bp1 ad _ rest]
      simp
    · by_cases h2 : e.isContainer = true
      · simp only [h1, h2, Bool.false_eq_true, ↓reduceIte]
        rw [yc_node c e (itemPath c bp1 i e.anchor) (ad ++ [SRef.idx i]) _ _ h2, yc_items c r (i + 1) bp1 ad _ rest]
        simp [andThen, List.append_assoc]
      · have h2' : e.isContainer = false := by simpa using h2
        simp only [h1, h2', Bool.false_eq_true, ↓reduceIte, flat_of_not_container h2']
        simp [yc_items c r (i + 1) bp1 ad _ rest, andThen]
theorem yc_entries (c : Ctx) : ∀ (mg : Bool) (es : List (AKey × SNode)) (bp1 : Str) (ad : SAddr) (seen : List Str)
    (rest : List Pos), (mg = false ∨ c.pooled = true) →
    leaves c seen 0 (flatEntries mg es ad ++ rest) =
      andThen ((ycEntries c es bp1 ad seen).1.map Hit.addr) (leaves c (ycEntries c es bp1 ad seen).2 0 rest)
  | _, [], _, _, _, _, _ => by simp [flatEntries, ycEntries]
  | mg, (k, v) :: r, bp1, ad, seen, rest, hp => by
    simp only [flatEntries, List.cons_append, List.append_assoc, leaves, yrule_entry c mg k v _ _ seen hp, ycEntries]
    generalize searchAnchor c k.anchor seen c.o.inclKeyAliases = K
    generalize hA : searchAnchor c v.anchor K.2 c.o.inclValueAliases = A
    by_cases h1 : ((!c.o.inclKeyAliases && K.1.unwantedAlias) || (!c.o.inclValueAliases && A.1.unwantedAlias)) = true
    · simp only [h1, Bool.false_eq_true, ↓reduceIte]
      rw [leaves_skip, yc_entries c mg r bp1 ad _ rest hp]
      simp
    · by_cases h2 : v.isContainer = true
      · simp only [h1, h2, Bool.false_eq_true, ↓reduceIte]
        rw [yc_node c v (keyPath c bp1 k.key) (ad ++ [SRef.key k.key]) _ _ h2, yc_entries c mg r bp1 ad _ rest hp]
        simp [andThen, List.append_assoc]
      · have h2' : v.isContainer = false := by simpa using h2
        simp only [h1, h2', Bool.false_eq_true, ↓reduceIte, flat_of_not_container h2']
        simp [yc_entries c mg r bp1 ad _ rest hp, andThen]
end


/-! ## `search_for_paths` is the pass `scan` -/

/-- what the model does with a value that is neither matched by name nor an unwanted repeat -/
def descend (c : Ctx) (n : SNode) (tmp : Str) (a' : SAddr) (seen : List Str) : Out :=
  match n with
  | .scalar _ v => (valueHit c v tmp a', seen)
  | n => sNode c n tmp a' seen

/-- the verdict for a value that is neither matched by name nor an unwanted repeat -/
def valueVerdict (c : Ctx) : SNode → Verdict
  | .scalar _ v => .value (c.o.searchValues && c.μ v)
  | _ => .enter

theorem valueVerdict_container (c : Ctx) {n : SNode} (h : n.isContainer = true) : valueVerdict c n = .enter := by
  cases n <;> simp_all [SNode.isContainer, valueVerdict]

theorem rule_item (c : Ctx) (e : SNode) (a' : SAddr) (sz : Nat) (seen : List Str) :
    rule c { addr := a', kind := kindOf e, anchor := e.anchor, size := sz } seen =
      (if valueRepeat c (searchAnchor c e.anchor seen c.o.inclValueAliases).1 then .pass
       else if (searchAnchor c e.anchor seen c.o.inclValueAliases).1.hit then .matched
       else valueVerdict c e,
       (searchAnchor c e.anchor seen c.o.inclValueAliases).2) := by
  generalize hA : searchAnchor c e.anchor seen c.o.inclValueAliases = A
  cases e <;> simp [rule, kindOf, searchAnchor_none, SNode.anchor, valueVerdict] at hA ⊢ <;> simp [hA] <;>
    split <;> simp_all

/-- the key test of the mapping branch -/
def keyHit (c : Ctx) (k : AKey) (kam : AM) : Bool :=
  c.o.searchKeys && (kam.hit || ((c.o.inclKeyAliases || !kam.unwantedAlias) && c.μ (keyScalar k.key)))

/-- the key anchor lookup of the mapping branch (only with key-name search) -/
def keyAnchor (c : Ctx) (k : AKey) (seen1 : List Str) : AM × List Str :=
  if c.o.searchKeys then searchAnchor c k.anchor seen1 c.o.inclKeyAliases else (AM.noAnchor, seen1)

theorem rule_entry (c : Ctx) (mg : Bool) (k : AKey) (v : SNode) (a' : SAddr) (sz : Nat) (seen : List Str)
    (hp : mg = false ∨ c.pooled = true) :
    rule c { addr := a', kind := kindOf v, key := some k, merged := mg, anchor := v.anchor, size := sz } seen =
      (if keyHit c k (keyAnchor c k (searchAnchor c v.anchor seen c.o.inclValueAliases).2).1 then .matched
       else if valueRepeat c (searchAnchor c v.anchor seen c.o.inclValueAliases).1 then .pass
       else if (searchAnchor c v.anchor seen c.o.inclValueAliases).1.hit then .matched
       else valueVerdict c v,
       (keyAnchor c k (searchAnchor c v.anchor seen c.o.inclValueAliases).2).2) := by
  generalize hA : searchAnchor c v.anchor seen c.o.inclValueAliases = A
  have hm : (mg && !c.pooled) = false := by rcases hp with h | h <;> simp [h]
  cases v <;> simp [rule, kindOf, hm, keyHit, keyAnchor, keyCounts, SNode.anchor, valueVerdict] at hA ⊢ <;> simp [hA] <;>
    split <;> simp_all

theorem rule_entry_unpooled (c : Ctx) (k : AKey) (v : SNode) (a' : SAddr) (sz : Nat) (seen : List Str)
    (hp : c.pooled = false) :
    rule c { addr := a', kind := kindOf v, key := some k, merged := true, anchor := v.anchor, size := sz } seen =
      (.pass, seen) := by
  cases v <;> simp [rule, kindOf, hp]

theorem scan_unpooled (c : Ctx) (hp : c.pooled = false) (ad : SAddr) (rest : List Pos) :
    ∀ (es : List (AKey × SNode)) (seen : List Str),
      scan c seen 0 (flatEntries true es ad ++ rest) = scan c seen 0 rest
  | [], _ => rfl
  | (k, v) :: r, seen => by
    simp only [flatEntries, List.cons_append, List.append_assoc, scan, rule_entry_unpooled c k v _ _ seen hp]
    rw [scan_skip]
    exact scan_unpooled c hp ad rest r seen

theorem scan_refs (c : Ctx) (seen : List Str) (rest : List Pos) (bp1 : Str) (ad : SAddr) :
    ∀ (refs : List Str) (j : Nat),
      scan c seen 0 (flatRefs refs j ad ++ rest) =
        (if c.o.inclValueAliases && c.o.searchAnchors then ymk c refs j bp1 ad else []).map Hit.addr
          ++ scan c seen 0 rest
  | [], _ => by simp [flatRefs, ymk]
  | n :: r, j => by
    have ih := scan_refs c seen rest bp1 ad r (j + 1)
    by_cases h : (c.o.inclValueAliases && c.o.searchAnchors) = true
    · by_cases hm : c.μ (.str n) = true
      · simp [flatRefs, scan, rule, ymk, h, hm, ih]
      · simp [flatRefs, scan, rule, ymk, h, hm, ih]
    · simp [flatRefs, scan, rule, ymk, h, ih]

theorem s_members (c : Ctx) (bp1 : Str) (ad : SAddr) (rest : List Pos) :
    ∀ (ms : List AKey) (seen : List Str),
      scan c seen 0 (flatMembers ms ad ++ rest) =
        (sMembers c ms bp1 ad seen).1.map Hit.addr ++ scan c (sMembers c ms bp1 ad seen).2 0 rest
  | [], _ => by simp [flatMembers, sMembers]
  | k :: r, seen => by
    have ih := s_members c bp1 ad rest r (searchAnchor c k.anchor seen c.o.inclKeyAliases).2
    simp only [flatMembers, List.cons_append, scan, rule, sMembers, Option.bind, keyCounts]
    by_cases h1 : (searchAnchor c k.anchor seen c.o.inclKeyAliases).1.hit = true
    · simp [h1, ih]
    · by_cases h2 : ((c.o.inclKeyAliases || !(searchAnchor c k.anchor seen c.o.inclKeyAliases).1.unwantedAlias)
          && c.μ (keyScalar k.key)) = true
      · simp [h1, h2, ih]
      · simp [h1, h2, ih]

/-- "yield the match" is what the pass does at a matched position -/
theorem emit_spec (c : Ctx) (n : SNode) (tmp : Str) (a' : SAddr) (seen : List Str) (rest : List Pos) :
    (if (c.o.expand && decide (kindOf n = Kind.container)) = true then
        (leaves c seen 0 ((flat n a' ++ rest).take (flat n a').length)).1 ++
          scan c (leaves c seen 0 ((flat n a' ++ rest).take (flat n a').length)).2 (flat n a').length
            (flat n a' ++ rest)
      else a' :: scan c seen (flat n a').length (flat n a' ++ rest)) =
      (emit c n tmp a' seen).1.map Hit.addr ++ scan c (emit c n tmp a' seen).2 0 rest := by
  rw [scan_skip, scan_skip, List.take_left']
  · by_cases hx : c.o.expand = true
    · by_cases hk : n.isContainer = true
      · have := yc_node c n tmp a' seen [] hk
        simp only [List.append_nil] at this
        simp [emit, hx, kindOf_container hk, this, andThen, leaves]
      · have hk' : n.isContainer = false := by simpa using hk
        cases n <;> simp_all [SNode.isContainer, kindOf, emit, ycNode]
    · simp [emit, hx]
  · rfl


theorem descend_scalar (c : Ctx) (a : Option Str) (v : Scalar) (tmp : Str) (a' : SAddr) (seen : List Str) :
    descend c (.scalar a v) tmp a' seen = (valueHit c v tmp a', seen) := rfl

theorem descend_container (c : Ctx) {n : SNode} (h : n.isContainer = true) (tmp : Str) (a' : SAddr)
    (seen : List Str) : descend c n tmp a' seen = sNode c n tmp a' seen := by
  cases n <;> simp_all [SNode.isContainer, descend]

theorem valueHit_addr (c : Ctx) (v : Scalar) (tmp : Str) (a' : SAddr) :
    (valueHit c v tmp a').map Hit.addr = if (c.o.searchValues && c.μ v) = true then [a'] else [] := by
  unfold valueHit; split <;> simp

theorem sItems_cons (c : Ctx) (e : SNode) (r : List SNode) (i : Nat) (bp1 : Str) (ad : SAddr) (seen : List Str) :
    sItems c (e :: r) i bp1 ad seen =
      (((if valueRepeat c (searchAnchor c e.anchor seen c.o.inclValueAliases).1 = true
          then ([], (searchAnchor c e.anchor seen c.o.inclValueAliases).2)
          else if (searchAnchor c e.anchor seen c.o.inclValueAliases).1.hit = true
            then emit c e (itemPath c bp1 i e.anchor) (ad ++ [SRef.idx i]) (searchAnchor c e.anchor seen c.o.inclValueAliases).2
          else descend c e (itemPath c bp1 i e.anchor) (ad ++ [SRef.idx i])
            (searchAnchor c e.anchor seen c.o.inclValueAliases).2) : Out).1 ++
        (sItems c r (i + 1) bp1 ad
          ((if valueRepeat c (searchAnchor c e.anchor seen c.o.inclValueAliases).1 = true
            then ([], (searchAnchor c e.anchor seen c.o.inclValueAliases).2)
            else if (searchAnchor c e.anchor seen c.o.inclValueAliases).1.hit = true
              then emit c e (itemPath c bp1 i e.anchor) (ad ++ [SRef.idx i]) (searchAnchor c e.anchor seen c.o.inclValueAliases).2
            else descend c e (itemPath c bp1 i e.anchor) (ad ++ [SRef.idx i])
              (searchAnchor c e.anchor seen c.o.inclValueAliases).2) : Out).2).1,
       (sItems c r (i + 1) bp1 ad
          ((if valueRepeat c (searchAnchor c e.anchor seen c.o.inclValueAliases).1 = true
            then ([], (searchAnchor c e.anchor seen c.o.inclValueAliases).2)
            else if (searchAnchor c e.anchor seen c.o.inclValueAliases).1.hit = true
              then emit c e (itemPath c bp1 i e.anchor) (ad ++ [SRef.idx i]) (searchAnchor c e.anchor seen c.o.inclValueAliases).2
            else descend c e (itemPath c bp1 i e.anchor) (ad ++ [SRef.idx i])
              (searchAnchor c e.anchor seen c.o.inclValueAliases).2) : Out).2).2) := by
  cases e <;> simp [sItems, descend, valueRepeat]

theorem sEntries_cons (c : Ctx) (k : AKey) (v : SNode) (r : List (AKey × SNode)) (bp1 : Str) (ad : SAddr)
    (seen : List Str) :
    sEntries c ((k, v) :: r) bp1 ad seen =
      let A := searchAnchor c v.anchor seen c.o.inclValueAliases
      let K := keyAnchor c k A.2
      let o : Out :=
        if keyHit c k K.1 = true then emit c v (keyPath c bp1 k.key) (ad ++ [SRef.key k.key]) K.2
        else if valueRepeat c A.1 = true then ([], K.2)
        else if A.1.hit = true then emit c v (keyPath c bp1 k.key) (ad ++ [SRef.key k.key]) K.2
        else descend c v (keyPath c bp1 k.key) (ad ++ [SRef.key k.key]) K.2
      (o.1 ++ (sEntries c r bp1 ad o.2).1, (sEntries c r bp1 ad o.2).2) := by
  cases v <;> simp [sEntries, descend, valueRepeat, keyAnchor, keyHit]

mutual
theorem s_node (c : Ctx) : ∀ (n : SNode) (bp : Str) (ad : SAddr) (seen : List Str) (rest : List Pos),
    n.isContainer = true →
    scan c seen 0 (flat n ad ++ rest) =
      (sNode c n bp ad seen).1.map Hit.addr ++ scan c (sNode c n bp ad seen).2 0 rest
  | .scalar _ _, _, _, _, _, h => by simp [SNode.isContainer] at h
  | .seq _ items, bp, ad, seen, rest, _ => by
    simp only [flat, sNode]
    exact s_items c items 0 (seqPrefix c bp) ad seen rest
  | .set _ ms, bp, ad, seen, rest, _ => by
    simp only [flat, sNode]
    exact s_members c (mapPrefix c bp) ad rest ms seen
  | .map _ own merged refs, bp, ad, seen, rest, _ => by
    simp only [flat, sNode, List.append_assoc]
    rw [s_entries c false own (mapPrefix c bp) ad seen _ (Or.inl rfl)]
    by_cases hp : c.pooled = true
    · rw [s_entries c true merged (mapPrefix c bp) ad _ _ (Or.inr hp), scan_refs c _ rest (mapPrefix c bp)]
      simp [hp, List.append_assoc]
    · have hp' : c.pooled = false := by simpa using hp
      rw [scan_unpooled c hp', scan_refs c _ rest (mapPrefix c bp)]
      simp [hp', List.append_assoc]
theorem s_items (c : Ctx) : ∀ (items : List SNode) (i : Nat) (bp1 : Str) (ad : SAddr) (seen : List Str)
    (rest : List Pos),
    scan c seen 0 (flatItems items i ad ++ rest) =
      (sItems c items i bp1 ad seen).1.map Hit.addr ++ scan c (sItems c items i bp1 ad seen).2 0 rest
  | [], _, _, _, _, _ => by simp [flatItems, sItems]
  | e :: r, i, bp1, ad, seen, rest => by
    rw [sItems_cons]
    simp only [flatItems, List.cons_append, List.append_assoc, scan, rule_item]
    generalize searchAnchor c e.anchor seen c.o.inclValueAliases = A
    by_cases h1 : valueRepeat c A.1 = true
    · simp only [h1, ↓reduceIte]
      rw [scan_skip, s_items c r (i + 1) bp1 ad _ rest]
      simp
    · by_cases h2 : A.1.hit = true
      · simp only [h1, h2, Bool.false_eq_true, ↓reduceIte]
        rw [emit_spec c e (itemPath c bp1 i e.anchor) (ad ++ [SRef.idx i]) A.2 (flatItems r (i + 1) ad ++ rest),
          s_items c r (i + 1) bp1 ad _ rest]
        simp [List.append_assoc]
      · simp only [h1, h2, Bool.false_eq_true, ↓reduceIte]
        by_cases h3 : e.isContainer = true
        · simp only [valueVerdict_container c h3, descend_container c h3]
          rw [s_node c e (itemPath c bp1 i e.anchor) (ad ++ [SRef.idx i]) _ _ h3, s_items c r (i + 1) bp1 ad _ rest]
          simp [List.append_assoc]
        · have h3' : e.isContainer = false := by simpa using h3
          have hv : ∃ a v, e = SNode.scalar a v := by cases e <;> simp_all [SNode.isContainer]
          obtain ⟨a, v, rfl⟩ := hv
          simp only [flat_scalar, List.nil_append, descend_scalar, valueVerdict]
          rw [s_items c r (i + 1) bp1 ad _ rest]
          simp [valueHit_addr, List.append_assoc]
theorem s_entries (c : Ctx) : ∀ (mg : Bool) (es : List (AKey × SNode)) (bp1 : Str) (ad : SAddr) (seen : List Str)
    (rest : List Pos), (mg = false ∨ c.pooled = true) →
    scan c seen 0 (flatEntries mg es ad ++ rest) =
      (sEntries c es bp1 ad seen).1.map Hit.addr ++ scan c (sEntries c es bp1 ad seen).2 0 rest
  | _, [], _, _, _, _, _ => by simp [flatEntries, sEntries]
  | mg, (k, v) :: r, bp1, ad, seen, rest, hp => by
    rw [sEntries_cons]
    simp only [flatEntries, List.cons_append, List.append_assoc, scan, rule_entry c mg k v _ _ seen hp]
    generalize searchAnchor c v.anchor seen c.o.inclValueAliases = A
    generalize keyAnchor c k A.2 = K
    by_cases h0 : keyHit c k K.1 = true
    · simp only [h0, ↓reduceIte]
      rw [emit_spec c v (keyPath c bp1 k.key) (ad ++ [SRef.key k.key]) K.2 (flatEntries mg r ad ++ rest),
        s_entries c mg r bp1 ad _ rest hp]
      simp [List.append_assoc]
    · by_cases h1 : valueRepeat c A.1 = true
      · simp only [h0, h1, Bool.false_eq_true, ↓reduceIte]
        rw [scan_skip, s_entries c mg r bp1 ad _ rest hp]
        simp
      · by_cases h2 : A.1.hit = true
        · simp only [h0, h1, h2, Bool.false_eq_true, ↓reduceIte]
          rw [emit_spec c v (keyPath c bp1 k.key) (ad ++ [SRef.key k.key]) K.2 (flatEntries mg r ad ++ rest),
            s_entries c mg r bp1 ad _ rest hp]
          simp [List.append_assoc]
        · simp only [h0, h1, h2, Bool.false_eq_true, ↓reduceIte]
          by_cases h3 : v.isContainer = true
          · simp only [valueVerdict_container c h3, descend_container c h3]
            rw [s_node c v (keyPath c bp1 k.key) (ad ++ [SRef.key k.key]) _ _ h3, s_entries c mg r bp1 ad _ rest hp]
            simp [List.append_assoc]
          · have hv : ∃ a x, v = SNode.scalar a x := by cases v <;> simp_all [SNode.isContainer]
            obtain ⟨a, x, rfl⟩ := hv
            simp only [flat_scalar, List.nil_append, descend_scalar, valueVerdict]
            rw [s_entries c mg r bp1 ad _ rest hp]
            simp [valueHit_addr, List.append_assoc]
end

end Ypv.Search

namespace Ypv.Search
open Ypv.Search.Spec

theorem scan_nil (c : Ctx) (seen : List Str) (k : Nat) : scan c seen k [] = [] := by
  cases k <;> rfl

/-- every address listed by the expansion pass is the address of a position of the list that is
not a container (a scalar or a set member) -/
theorem leaves_sub (c : Ctx) : ∀ (l : List Pos) (seen : List Str) (k : Nat) (a : SAddr),
    a ∈ (leaves c seen k l).1 → ∃ p ∈ l, p.addr = a ∧ p.kind ≠ .container
  | [], _, k, a, h => by cases k <;> simp [leaves] at h
  | p :: rest, seen, k + 1, a, h => by
    simp only [leaves] at h
    obtain ⟨q, hq, h1, h2⟩ := leaves_sub c rest seen k a h
    exact ⟨q, List.mem_cons_of_mem _ hq, h1, h2⟩
  | p :: rest, seen, 0, a, h => by
    simp only [leaves] at h
    have hy : ∀ v s, yrule c p seen = (v, s) → v = .leaf → p.kind ≠ .container := by
      intro v s hv hl
      unfold yrule at hv
      split at hv
      · simp_all
      · simp_all
      · intro hk
        split at hv
        · simp_all
        · simp only [] at hv
          split at hv <;> simp_all
    rcases hr : yrule c p seen with ⟨v, s⟩
    rw [hr] at h
    cases v with
    | leaf =>
      simp only [List.mem_cons] at h
      rcases h with h | h
      · exact ⟨p, List.mem_cons_self, h.symm, hy _ _ hr rfl⟩
      · obtain ⟨q, hq, h1, h2⟩ := leaves_sub c rest s 0 a h
        exact ⟨q, List.mem_cons_of_mem _ hq, h1, h2⟩
    | enter =>
      obtain ⟨q, hq, h1, h2⟩ := leaves_sub c rest s 0 a h
      exact ⟨q, List.mem_cons_of_mem _ hq, h1, h2⟩
    | pass =>
      obtain ⟨q, hq, h1, h2⟩ := leaves_sub c rest s p.size a h
      exact ⟨q, List.mem_cons_of_mem _ hq, h1, h2⟩

/-- every reported address is the address of a position of the list -/
theorem scan_sub (c : Ctx) : ∀ (l : List Pos) (seen : List Str) (k : Nat) (a : SAddr),
    a ∈ scan c seen k l → ∃ p ∈ l, p.addr = a
  | [], _, k, a, h => by simp [scan_nil] at h
  | p :: rest, seen, k + 1, a, h => by
    simp only [scan] at h
    obtain ⟨q, hq, h1⟩ := scan_sub c rest seen k a h
    exact ⟨q, List.mem_cons_of_mem _ hq, h1⟩
  | p :: rest, seen, 0, a, h => by
    simp only [scan] at h
    rcases hr : rule c p seen with ⟨v, s⟩
    rw [hr] at h
    cases v with
    | matched =>
      simp only at h
      split at h
      · rcases List.mem_append.mp h with h | h
        · obtain ⟨q, hq, h1, _⟩ := leaves_sub c _ s 0 a h
          exact ⟨q, List.mem_cons_of_mem _ (List.mem_of_mem_take hq), h1⟩
        · obtain ⟨q, hq, h1⟩ := scan_sub c rest _ p.size a h
          exact ⟨q, List.mem_cons_of_mem _ hq, h1⟩
      · simp only [List.mem_cons] at h
        rcases h with h | h
        · exact ⟨p, List.mem_cons_self, h.symm⟩
        · obtain ⟨q, hq, h1⟩ := scan_sub c rest s p.size a h
          exact ⟨q, List.mem_cons_of_mem _ hq, h1⟩
    | pass =>
      obtain ⟨q, hq, h1⟩ := scan_sub c rest s p.size a h
      exact ⟨q, List.mem_cons_of_mem _ hq, h1⟩
    | value hit =>
      simp only at h
      rcases List.mem_append.mp h with h | h
      · split at h
        · simp only [List.mem_singleton] at h
          exact ⟨p, List.mem_cons_self, h.symm⟩
        · simp at h
      · obtain ⟨q, hq, h1⟩ := scan_sub c rest s 0 a h
        exact ⟨q, List.mem_cons_of_mem _ hq, h1⟩
    | enter =>
      obtain ⟨q, hq, h1⟩ := scan_sub c rest s 0 a h
      exact ⟨q, List.mem_cons_of_mem _ hq, h1⟩

end Ypv.Search
