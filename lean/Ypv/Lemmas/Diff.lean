import Ypv.Spec.Diff
/-!
# Helper lemmas for C06 (list synchronisation, address algebra, Python `==`)
-/
namespace Ypv.Diff
open Ypv

/-! ## `removeFirst` / `syncLoop` -/

theorem removeFirst_perm {f : Node → Bool} : ∀ {rem : List (Nat × Node)} {y rem'},
    removeFirst f rem = some (y, rem') → rem.Perm (y :: rem') ∧ f y.2 = true := by
  intro rem
  induction rem with
  | nil => intro y rem' h; simp [removeFirst] at h
  | cons z zs ih =>
    intro y rem' h
    unfold removeFirst at h
    split at h
    · cases h; exact ⟨List.Perm.refl _, by assumption⟩
    · split at h
      · rename_i w ws heq
        cases h
        have := ih heq
        exact ⟨(List.Perm.cons z this.1).trans (List.Perm.swap _ _ _), this.2⟩
      · cases h

theorem removeFirst_none {f : Node → Bool} : ∀ {rem : List (Nat × Node)},
    removeFirst f rem = none → ∀ y ∈ rem, f y.2 = false := by
  intro rem
  induction rem with
  | nil => intro _ y hy; cases hy
  | cons z zs ih =>
    intro h y hy
    by_cases hz : f z.2 = true
    · simp [removeFirst, hz] at h
    · cases hr : removeFirst f zs with
      | some w => simp [removeFirst, hz, hr] at h
      | none =>
        cases hy with
        | head => simpa using hz
        | tail _ hy' => exact ih hr y hy'

theorem syncLoop_left (m : Node → Node → Bool) : ∀ (xs : List Node) (i : Nat) (rem : List (Nat × Node)),
    (syncLoop m i xs rem).filterMap (fun p => p.l) = enumFrom i xs := by
  intro xs
  induction xs with
  | nil =>
    intro i rem
    simp only [syncLoop, enumFrom]
    induction rem with
    | nil => rfl
    | cons y ys ih => simp [ih]
  | cons x xs ih =>
    intro i rem
    unfold syncLoop
    split <;> simp [enumFrom, ih]

theorem syncLoop_right (m : Node → Node → Bool) : ∀ (xs : List Node) (i : Nat) (rem : List (Nat × Node)),
    ((syncLoop m i xs rem).filterMap (fun p => p.r)).Perm rem := by
  intro xs
  induction xs with
  | nil =>
    intro i rem
    simp only [syncLoop]
    induction rem with
    | nil => exact List.Perm.refl _
    | cons y ys ih => simpa [List.filterMap_cons] using ih
  | cons x xs ih =>
    intro i rem
    unfold syncLoop
    split
    · rename_i y rem' heq
      simp only [List.filterMap_cons]
      exact (List.Perm.cons y (ih (i + 1) rem')).trans (removeFirst_perm heq).1.symm
    · simp only [List.filterMap_cons]
      exact ih (i + 1) rem

/-- what each tuple of `syn_pairs` is: a matched pair (the matcher holds), a left element without
partner (no remaining right element matched), or a left-over right element -/
theorem syncLoop_shape (m : Node → Node → Bool) : ∀ (xs : List Node) (i : Nat) (rem : List (Nat × Node)),
    ∀ p ∈ syncLoop m i xs rem,
      (∃ a b, p = ⟨some a, some b⟩ ∧ m a.2 b.2 = true) ∨ (∃ a, p = ⟨some a, none⟩) ∨ (∃ b, p = ⟨none, some b⟩) := by
  intro xs
  induction xs with
  | nil =>
    intro i rem p hp
    simp only [syncLoop, List.mem_map] at hp
    obtain ⟨y, _, rfl⟩ := hp
    exact Or.inr (Or.inr ⟨y, rfl⟩)
  | cons x xs ih =>
    intro i rem p hp
    unfold syncLoop at hp
    split at hp
    · rename_i y rem' heq
      cases hp with
      | head => exact Or.inl ⟨(i, x), y, rfl, (removeFirst_perm heq).2⟩
      | tail _ h => exact ih _ _ p h
    · cases hp with
      | head => exact Or.inr (Or.inl ⟨(i, x), rfl⟩)
      | tail _ h => exact ih _ _ p h

theorem enumFrom_fst : ∀ (xs : List Node) (i : Nat), (enumFrom i xs).map (fun p => p.1) = List.range' i xs.length := by
  intro xs
  induction xs with
  | nil => intro i; rfl
  | cons x xs ih => intro i; simp [enumFrom, ih, List.range'_succ]

theorem enumFrom_snd : ∀ (xs : List Node) (i : Nat), (enumFrom i xs).map (fun p => p.2) = xs := by
  intro xs
  induction xs with
  | nil => intro i; rfl
  | cons x xs ih => intro i; simp [enumFrom, ih]

end Ypv.Diff
