import Ypv.Spec.Diff
/-!
# Helper lemmas for C06 (list synchronisation, address algebra, Python `==`)
-/
namespace Ypv.Diff
open Ypv

/-! ## `removeFirst` / `syncLoop` -/

theorem removeFirst_perm {f : Node → Bool} : ∀ {rem : List (Nat × Node)} {y rem'},
    removeFirst f rem = some (y, rem') → rem.Perm (y :: rem') ∧ f y.2 = true := by
  intro rem
  induction rem with
  | nil => intro y rem' h; simp [removeFirst] at h
  | cons z zs ih =>
    intro y rem' h
    unfold removeFirst at h
    split at h
    · cases h; exact ⟨List.Perm.refl _, by assumption⟩
    · split at h
      · rename_i w ws heq
        cases h
        have := ih heq
        exact ⟨(List.Perm.cons z this.1).trans (List.Perm.swap _ _ _), this.2⟩
      · cases h

theorem removeFirst_none {f : Node → Bool} : ∀ {rem : List (Nat × Node)},
    removeFirst f rem = none → ∀ y ∈ rem, f y.2 = false := by
  intro rem
  induction rem with
  | nil => intro _ y hy; cases hy
  | cons z zs ih =>
    intro h y hy
    by_cases hz : f z.2 = true
    · simp [removeFirst, hz] at h
    · cases hr : removeFirst f zs with
      | some w => simp [removeFirst, hz, hr] at h
      | none =>
        cases hy with
        | head => simpa using hz
        | tail _ hy' => exact ih hr y hy'

theorem syncLoop_left (m : Node → Node → Bool) : ∀ (xs : List Node) (i : Nat) (rem : List (Nat × Node)),
    (syncLoop m i xs rem).filterMap (fun p => p.l) = enumFrom i xs := by
  intro xs
  induction xs with
  | nil =>
    intro i rem
    simp only [syncLoop, enumFrom]
    induction rem with
    | nil => rfl
    | cons y ys ih => simp [ih]
  | cons x xs ih =>
    intro i rem
    unfold syncLoop
    split <;> simp [enumFrom, ih]

theorem syncLoop_right (m : Node → Node → Bool) : ∀ (xs : List Node) (i : Nat) (rem : List (Nat × Node)),
    ((syncLoop m i xs rem).filterMap (fun p => p.r)).Perm rem := by
  intro xs
  induction xs with
  | nil =>
    intro i rem
    simp only [syncLoop]
    induction rem with
    | nil => exact List.Perm.refl _
    | cons y ys ih => simpa [List.filterMap_cons] using ih
  | cons x xs ih =>
    intro i rem
    unfold syncLoop
    split
    · rename_i y rem' heq
      simp only [List.filterMap_cons]
      exact (List.Perm.cons y (ih (i + 1) rem')).trans (removeFirst_perm heq).1.symm
    · simp only [List.filterMap_cons]
      exact ih (i + 1) rem

/-- what each tuple of `syn_pairs` is: a matched pair (the matcher holds), a left element without
partner (no remaining right element matched), or a left-over right element -/
theorem syncLoop_shape (m : Node → Node → Bool) : ∀ (xs : List Node) (i : Nat) (rem : List (Nat × Node)),
    ∀ p ∈ syncLoop m i xs rem,
      (∃ a b, p = ⟨some a, some b⟩ ∧ m a.2 b.2 = true) ∨ (∃ a, p = ⟨some a, none⟩) ∨ (∃ b, p = ⟨none, some b⟩) := by
  intro xs
  induction xs with
  | nil =>
    intro i rem p hp
    simp only [syncLoop, List.mem_map] at hp
    obtain ⟨y, _, rfl⟩ := hp
    exact Or.inr (Or.inr ⟨y, rfl⟩)
  | cons x xs ih =>
    intro i rem p hp
    unfold syncLoop at hp
    split at hp
    · rename_i y rem' heq
      cases hp with
      | head => exact Or.inl ⟨(i, x), y, rfl, (removeFirst_perm heq).2⟩
      | tail _ h => exact ih _ _ p h
    · cases hp with
      | head => exact Or.inr (Or.inl ⟨(i, x), rfl⟩)
      | tail _ h => exact ih _ _ p h

theorem enumFrom_fst : ∀ (xs : List Node) (i : Nat), (enumFrom i xs).map (fun p => p.1) = List.range' i xs.length := by
  intro xs
  induction xs with
  | nil => intro i; rfl
  | cons x xs ih => intro i; simp [enumFrom, ih, List.range'_succ]

theorem enumFrom_snd : ∀ (xs : List Node) (i : Nat), (enumFrom i xs).map (fun p => p.2) = xs := by
  intro xs
  induction xs with
  | nil => intro i; rfl
  | cons x xs ih => intro i; simp [enumFrom, ih]

/-! ## an induction principle for documents -/

mutual
theorem nodeInduct (P : Node → Prop)
    (hscalar : ∀ a v, P (.scalar a v))
    (hseq : ∀ a xs, (∀ x ∈ xs, P x) → P (.seq a xs))
    (hmap : ∀ a es, (∀ kv ∈ es, P kv.2) → P (.map a es))
    (hset : ∀ a ms, P (.set a ms)) : (n : Node) → P n
  | .scalar a v => hscalar a v
  | .seq a xs => hseq a xs (nodeInductList P hscalar hseq hmap hset xs)
  | .map a es => hmap a es (nodeInductEntries P hscalar hseq hmap hset es)
  | .set a ms => hset a ms
theorem nodeInductList (P : Node → Prop)
    (hscalar : ∀ a v, P (.scalar a v))
    (hseq : ∀ a xs, (∀ x ∈ xs, P x) → P (.seq a xs))
    (hmap : ∀ a es, (∀ kv ∈ es, P kv.2) → P (.map a es))
    (hset : ∀ a ms, P (.set a ms)) : (xs : List Node) → ∀ x ∈ xs, P x
  | [], _, h => by cases h
  | x :: xs, y, h => by
    cases h with
    | head => exact nodeInduct P hscalar hseq hmap hset x
    | tail _ h' => exact nodeInductList P hscalar hseq hmap hset xs y h'
theorem nodeInductEntries (P : Node → Prop)
    (hscalar : ∀ a v, P (.scalar a v))
    (hseq : ∀ a xs, (∀ x ∈ xs, P x) → P (.seq a xs))
    (hmap : ∀ a es, (∀ kv ∈ es, P kv.2) → P (.map a es))
    (hset : ∀ a ms, P (.set a ms)) : (es : List (Key × Node)) → ∀ kv ∈ es, P kv.2
  | [], _, h => by cases h
  | (k, v) :: es, kv, h => by
    cases h with
    | head => exact nodeInduct P hscalar hseq hmap hset v
    | tail _ h' => exact nodeInductEntries P hscalar hseq hmap hset es kv h'
end

/-! ## `clean` -/

@[simp] theorem clean_nil : clean [] = true := rfl
@[simp] theorem clean_append (a b : List Entry) : clean (a ++ b) = (clean a && clean b) := by
  simp [clean, List.all_append]
@[simp] theorem clean_cons (e : Entry) (es : List Entry) : clean (e :: es) = ((e.action == .same) && clean es) := by
  simp [clean]

/-! ## well-formed documents -/

theorem hasKey_of_mem {es : List (Key × Node)} {kv : Key × Node} (h : kv ∈ es) : hasKey es kv.1 = true := by
  simp only [hasKey, List.any_eq_true]
  exact ⟨kv, h, by simp⟩

theorem lookup_of_mem : ∀ {es : List (Key × Node)}, distinctKeys es = true → ∀ kv ∈ es, es.lookup kv.1 = some kv.2 := by
  intro es
  induction es with
  | nil => intro _ kv h; cases h
  | cons e es ih =>
    obtain ⟨k0, v0⟩ := e
    intro hd kv h
    simp only [distinctKeys, Bool.and_eq_true, Bool.not_eq_eq_eq_not, Bool.not_true] at hd
    cases h with
    | head => simp
    | tail _ h' =>
      have hk : hasKey es kv.1 = true := hasKey_of_mem h'
      have hne : (kv.1 == k0) = false := by
        cases hkk : (kv.1 == k0) with
        | false => rfl
        | true =>
          have : kv.1 = k0 := by simpa using hkk
          rw [this] at hk
          rw [hk] at hd
          cases hd.1
      rw [List.lookup_cons, hne]
      exact ih hd.2 kv h'

theorem wf_seq_mem {a : Option Str} : ∀ {xs : List Node}, wf (.seq a xs) = true → ∀ x ∈ xs, wf x = true := by
  intro xs
  induction xs with
  | nil => intro _ x h; cases h
  | cons y ys ih =>
    intro hw x hx
    simp only [wf, wfList, Bool.and_eq_true] at hw
    cases hx with
    | head => exact hw.1
    | tail _ h' => exact ih (by simpa [wf] using hw.2) x h'

theorem wfEntries_mem : ∀ {es : List (Key × Node)}, wfEntries es = true → ∀ kv ∈ es, wf kv.2 = true := by
  intro es
  induction es with
  | nil => intro _ x h; cases h
  | cons y ys ih =>
    obtain ⟨k, v⟩ := y
    intro hw x hx
    simp only [wfEntries, Bool.and_eq_true] at hw
    cases hx with
    | head => exact hw.1
    | tail _ h' => exact ih hw.2 x h'

theorem wf_map {a : Option Str} {es : List (Key × Node)} (h : wf (.map a es) = true) :
    distinctKeys es = true ∧ ∀ kv ∈ es, wf kv.2 = true := by
  simp only [wf, Bool.and_eq_true] at h
  exact ⟨h.1, wfEntries_mem h.2⟩

/-! ## Python `==` is reflexive on well-formed documents -/

theorem eqvList_refl : ∀ (xs : List Node), (∀ x ∈ xs, eqv x x = true) → eqvList xs xs = true := by
  intro xs
  induction xs with
  | nil => intro _; rfl
  | cons x xs ih =>
    intro h
    simp only [eqvList, Bool.and_eq_true]
    exact ⟨h x (List.mem_cons_self ..), ih (fun y hy => h y (List.mem_cons_of_mem _ hy))⟩

theorem eqvEntries_of_lookup : ∀ (es fs : List (Key × Node)),
    (∀ kv ∈ es, ∃ w, fs.lookup kv.1 = some w ∧ eqv kv.2 w = true) → eqvEntries es fs = true := by
  intro es
  induction es with
  | nil => intro fs _; rfl
  | cons e es ih =>
    obtain ⟨k, v⟩ := e
    intro fs h
    obtain ⟨w, hw, hvw⟩ := h (k, v) (List.mem_cons_self ..)
    simp only [eqvEntries, hw, hvw, Bool.true_and]
    exact ih fs (fun kv hkv => h kv (List.mem_cons_of_mem _ hkv))

theorem eqv_refl : ∀ (n : Node), wf n = true → eqv n n = true := by
  intro n
  induction n using nodeInduct with
  | hscalar a v => intro _; simp [eqv]
  | hseq a xs ih =>
    intro hw
    simp only [eqv]
    exact eqvList_refl xs (fun x hx => ih x hx (wf_seq_mem hw x hx))
  | hmap a es ih =>
    intro hw
    obtain ⟨hd, hv⟩ := wf_map hw
    simp only [eqv, Bool.and_eq_true, List.all_eq_true]
    refine ⟨eqvEntries_of_lookup es es (fun kv hkv => ⟨kv.2, lookup_of_mem hd kv hkv, ih kv hkv (hv kv hkv)⟩), ?_⟩
    intro kv hkv
    exact hasKey_of_mem hkv
  | hset a ms =>
    intro _
    simp only [eqv, Bool.and_eq_true, List.all_eq_true]
    exact ⟨fun k hk => by simpa using hk, fun k hk => by simpa using hk⟩

theorem mem_of_lookup : ∀ {es : List (Key × Node)} {k : Key} {v : Node}, es.lookup k = some v → (k, v) ∈ es := by
  intro es
  induction es with
  | nil => intro k v h; simp at h
  | cons e es ih =>
    obtain ⟨k0, v0⟩ := e
    intro k v h
    rw [List.lookup_cons] at h
    cases hk : (k == k0) with
    | true =>
      rw [hk] at h
      have : k = k0 := by simpa using hk
      cases h; rw [this]; exact List.mem_cons_self ..
    | false =>
      rw [hk] at h
      exact List.mem_cons_of_mem _ (ih h)

/-! ## `keyed` -/

theorem keyedList_mem {c : Cfg} : ∀ {xs : List Node}, keyedList c xs = true → ∀ x ∈ xs, keyed c x = true := by
  intro xs
  induction xs with
  | nil => intro _ x h; cases h
  | cons y ys ih =>
    intro hw x hx
    simp only [keyedList, Bool.and_eq_true] at hw
    cases hx with
    | head => exact hw.1
    | tail _ h' => exact ih hw.2 x h'

theorem keyedEntries_mem {c : Cfg} : ∀ {es : List (Key × Node)}, keyedEntries c es = true → ∀ kv ∈ es, keyed c kv.2 = true := by
  intro es
  induction es with
  | nil => intro _ x h; cases h
  | cons y ys ih =>
    obtain ⟨k, v⟩ := y
    intro hw x hx
    simp only [keyedEntries, Bool.and_eq_true] at hw
    cases hx with
    | head => exact hw.1
    | tail _ h' => exact ih hw.2 x h'

theorem keyed_seq {c : Cfg} {a : Option Str} {xs : List Node} (h : keyed c (.seq a xs) = true) :
    (usesKeySync c xs = true → ∀ x ∈ xs, hasIdentity (keyAttr xs) x = true) ∧ ∀ x ∈ xs, keyed c x = true := by
  simp only [keyed, Bool.and_eq_true, Bool.or_eq_true, Bool.not_eq_eq_eq_not, Bool.not_true, List.all_eq_true] at h
  refine ⟨fun hu x hx => ?_, keyedList_mem h.2⟩
  cases h.1 with
  | inl h1 => rw [hu] at h1; cases h1
  | inr h2 => exact h2 x hx

theorem keyMatch_refl {ka : Key} {x : Node} (hw : wf x = true) (hi : hasIdentity ka x = true) :
    keyMatch ka x x = true := by
  unfold hasIdentity at hi
  cases hk : keyVal ka x with
  | none => rw [hk] at hi; cases hi
  | some v =>
    simp only [keyMatch, hk]
    cases x with
    | map a es =>
      simp only [keyVal] at hk
      exact eqv_refl v ((wf_map hw).2 (ka, v) (mem_of_lookup hk))
    | scalar a v' => simp [keyVal] at hk
    | seq a xs => simp [keyVal] at hk
    | set a ms => simp [keyVal] at hk

theorem removeFirst_head {f : Node → Bool} {y : Nat × Node} {ys : List (Nat × Node)} (h : f y.2 = true) :
    removeFirst f (y :: ys) = some (y, ys) := by
  simp [removeFirst, h]

end Ypv.Diff
