import Ypv.Spec.Diff
/-!
# Helper lemmas for C06 (list synchronisation, address algebra, Python `==`)
-/
namespace Ypv.Diff
open Ypv

/-! ## `removeFirst` / `syncLoop` -/

theorem removeFirst_perm {f : Node → Bool} : ∀ {rem : List (Nat × Node)} {y rem'},
    removeFirst f rem = some (y, rem') → rem.Perm (y :: rem') ∧ f y.2 = true := by
  intro rem
  induction rem with
  | nil => intro y rem' h; simp [removeFirst] at h
  | cons z zs ih =>
    intro y rem' h
    unfold removeFirst at h
    split at h
    · cases h; exact ⟨List.Perm.refl _, by assumption⟩
    · split at h
      · rename_i w ws heq
        cases h
        have := ih heq
        exact ⟨(List.Perm.cons z this.1).trans (List.Perm.swap _ _ _), this.2⟩
      · cases h

theorem removeFirst_none {f : Node → Bool} : ∀ {rem : List (Nat × Node)},
    removeFirst f rem = none → ∀ y ∈ rem, f y.2 = false := by
  intro rem
  induction rem with
  | nil => intro _ y hy; cases hy
  | cons z zs ih =>
    intro h y hy
    by_cases hz : f z.2 = true
    · simp [removeFirst, hz] at h
    · cases hr : removeFirst f zs with
      | some w => simp [removeFirst, hz, hr] at h
      | none =>
        cases hy with
        | head => simpa using hz
        | tail _ hy' => exact ih hr y hy'

theorem syncLoop_left (m : Node → Node → Bool) : ∀ (xs : List Node) (i : Nat) (rem : List (Nat × Node)),
    (syncLoop m i xs rem).filterMap (fun p => p.l) = enumFrom i xs := by
  intro xs
  induction xs with
  | nil =>
    intro i rem
    simp only [syncLoop, enumFrom]
    induction rem with
    | nil => rfl
    | cons y ys ih => simp [ih]
  | cons x xs ih =>
    intro i rem
    unfold syncLoop
    split <;> simp [enumFrom, ih]

theorem syncLoop_right (m : Node → Node → Bool) : ∀ (xs : List Node) (i : Nat) (rem : List (Nat × Node)),
    ((syncLoop m i xs rem).filterMap (fun p => p.r)).Perm rem := by
  intro xs
  induction xs with
  | nil =>
    intro i rem
    simp only [syncLoop]
    induction rem with
    | nil => exact List.Perm.refl _
    | cons y ys ih => simpa [List.filterMap_cons] using ih
  | cons x xs ih =>
    intro i rem
    unfold syncLoop
    split
    · rename_i y rem' heq
      simp only [List.filterMap_cons]
      exact (List.Perm.cons y (ih (i + 1) rem')).trans (removeFirst_perm heq).1.symm
    · simp only [List.filterMap_cons]
      exact ih (i + 1) rem

/-- what each tuple of `syn_pairs` is: a matched pair (the matcher holds), a left element without
partner (no remaining right element matched), or a left-over right element -/
theorem syncLoop_shape (m : Node → Node → Bool) : ∀ (xs : List Node) (i : Nat) (rem : List (Nat × Node)),
    ∀ p ∈ syncLoop m i xs rem,
      (∃ a b, p = ⟨some a, some b⟩ ∧ m a.2 b.2 = true) ∨ (∃ a, p = ⟨some a, none⟩) ∨ (∃ b, p = ⟨none, some b⟩) := by
  intro xs
  induction xs with
  | nil =>
    intro i rem p hp
    simp only [syncLoop, List.mem_map] at hp
    obtain ⟨y, _, rfl⟩ := hp
    exact Or.inr (Or.inr ⟨y, rfl⟩)
  | cons x xs ih =>
    intro i rem p hp
    unfold syncLoop at hp
    split at hp
    · rename_i y rem' heq
      cases hp with
      | head => exact Or.inl ⟨(i, x), y, rfl, (removeFirst_perm heq).2⟩
      | tail _ h => exact ih _ _ p h
    · cases hp with
      | head => exact Or.inr (Or.inl ⟨(i, x), rfl⟩)
      | tail _ h => exact ih _ _ p h

theorem enumFrom_fst : ∀ (xs : List Node) (i : Nat), (enumFrom i xs).map (fun p => p.1) = List.range' i xs.length := by
  intro xs
  induction xs with
  | nil => intro i; rfl
  | cons x xs ih => intro i; simp [enumFrom, ih, List.range'_succ]

theorem enumFrom_snd : ∀ (xs : List Node) (i : Nat), (enumFrom i xs).map (fun p => p.2) = xs := by
  intro xs
  induction xs with
  | nil => intro i; rfl
  | cons x xs ih => intro i; simp [enumFrom, ih]

/-! ## an induction principle for documents -/

mutual
theorem nodeInduct (P : Node → Prop)
    (hscalar : ∀ a v, P (.scalar a v))
    (hseq : ∀ a xs, (∀ x ∈ xs, P x) → P (.seq a xs))
    (hmap : ∀ a es, (∀ kv ∈ es, P kv.2) → P (.map a es))
    (hset : ∀ a ms, P (.set a ms)) : (n : Node) → P n
  | .scalar a v => hscalar a v
  | .seq a xs => hseq a xs (nodeInductList P hscalar hseq hmap hset xs)
  | .map a es => hmap a es (nodeInductEntries P hscalar hseq hmap hset es)
  | .set a ms => hset a ms
theorem nodeInductList (P : Node → Prop)
    (hscalar : ∀ a v, P (.scalar a v))
    (hseq : ∀ a xs, (∀ x ∈ xs, P x) → P (.seq a xs))
    (hmap : ∀ a es, (∀ kv ∈ es, P kv.2) → P (.map a es))
    (hset : ∀ a ms, P (.set a ms)) : (xs : List Node) → ∀ x ∈ xs, P x
  | [], _, h => by cases h
  | x :: xs, y, h => by
    cases h with
    | head => exact nodeInduct P hscalar hseq hmap hset x
    | tail _ h' => exact nodeInductList P hscalar hseq hmap hset xs y h'
theorem nodeInductEntries (P : Node → Prop)
    (hscalar : ∀ a v, P (.scalar a v))
    (hseq : ∀ a xs, (∀ x ∈ xs, P x) → P (.seq a xs))
    (hmap : ∀ a es, (∀ kv ∈ es, P kv.2) → P (.map a es))
    (hset : ∀ a ms, P (.set a ms)) : (es : List (Key × Node)) → ∀ kv ∈ es, P kv.2
  | [], _, h => by cases h
  | (k, v) :: es, kv, h => by
    cases h with
    | head => exact nodeInduct P hscalar hseq hmap hset v
    | tail _ h' => exact nodeInductEntries P hscalar hseq hmap hset es kv h'
end

/-! ## `clean` -/

@[simp] theorem clean_nil : clean [] = true := rfl
@[simp] theorem clean_append (a b : List Entry) : clean (a ++ b) = (clean a && clean b) := by
  simp [clean, List.all_append]
@[simp] theorem clean_cons (e : Entry) (es : List Entry) : clean (e :: es) = ((e.action == .same) && clean es) := by
  simp [clean]

/-! ## well-formed documents -/

theorem hasKey_of_mem {es : List (Key × Node)} {kv : Key × Node} (h : kv ∈ es) : hasKey es kv.1 = true := by
  simp only [hasKey, List.any_eq_true]
  exact ⟨kv, h, by simp⟩

theorem lookup_of_mem : ∀ {es : List (Key × Node)}, distinctKeys es = true → ∀ kv ∈ es, es.lookup kv.1 = some kv.2 := by
  intro es
  induction es with
  | nil => intro _ kv h; cases h
  | cons e es ih =>
    obtain ⟨k0, v0⟩ := e
    intro hd kv h
    simp only [distinctKeys, Bool.and_eq_true, Bool.not_eq_eq_eq_not, Bool.not_true] at hd
    cases h with
    | head => simp
    | tail _ h' =>
      have hk : hasKey es kv.1 = true := hasKey_of_mem h'
      have hne : (kv.1 == k0) = false := by
        cases hkk : (kv.1 == k0) with
        | false => rfl
        | true =>
          have : kv.1 = k0 := by simpa using hkk
          rw [this] at hk
          rw [hk] at hd
          cases hd.1
      rw [List.lookup_cons, hne]
      exact ih hd.2 kv h'

theorem wf_seq_mem {a : Option Str} : ∀ {xs : List Node}, wf (.seq a xs) = true → ∀ x ∈ xs, wf x = true := by
  intro xs
  induction xs with
  | nil => intro _ x h; cases h
  | cons y ys ih =>
    intro hw x hx
    simp only [wf, wfList, Bool.and_eq_true] at hw
    cases hx with
    | head => exact hw.1
    | tail _ h' => exact ih (by simpa [wf] using hw.2) x h'

theorem wfEntries_mem : ∀ {es : List (Key × Node)}, wfEntries es = true → ∀ kv ∈ es, wf kv.2 = true := by
  intro es
  induction es with
  | nil => intro _ x h; cases h
  | cons y ys ih =>
    obtain ⟨k, v⟩ := y
    intro hw x hx
    simp only [wfEntries, Bool.and_eq_true] at hw
    cases hx with
    | head => exact hw.1
    | tail _ h' => exact ih hw.2 x h'

theorem wf_map {a : Option Str} {es : List (Key × Node)} (h : wf (.map a es) = true) :
    distinctKeys es = true ∧ ∀ kv ∈ es, wf kv.2 = true := by
  simp only [wf, Bool.and_eq_true] at h
  exact ⟨h.1, wfEntries_mem h.2⟩

/-! ## Python `==` is reflexive on well-formed documents -/

theorem eqvList_refl : ∀ (xs : List Node), (∀ x ∈ xs, eqv x x = true) → eqvList xs xs = true := by
  intro xs
  induction xs with
  | nil => intro _; rfl
  | cons x xs ih =>
    intro h
    simp only [eqvList, Bool.and_eq_true]
    exact ⟨h x (List.mem_cons_self ..), ih (fun y hy => h y (List.mem_cons_of_mem _ hy))⟩

theorem eqvEntries_of_lookup : ∀ (es fs : List (Key × Node)),
    (∀ kv ∈ es, ∃ w, fs.lookup kv.1 = some w ∧ eqv kv.2 w = true) → eqvEntries es fs = true := by
  intro es
  induction es with
  | nil => intro fs _; rfl
  | cons e es ih =>
    obtain ⟨k, v⟩ := e
    intro fs h
    obtain ⟨w, hw, hvw⟩ := h (k, v) (List.mem_cons_self ..)
    simp only [eqvEntries, hw, hvw, Bool.true_and]
    exact ih fs (fun kv hkv => h kv (List.mem_cons_of_mem _ hkv))

theorem eqv_refl : ∀ (n : Node), wf n = true → eqv n n = true := by
  intro n
  induction n using nodeInduct with
  | hscalar a v => intro _; simp [eqv]
  | hseq a xs ih =>
    intro hw
    simp only [eqv]
    exact eqvList_refl xs (fun x hx => ih x hx (wf_seq_mem hw x hx))
  | hmap a es ih =>
    intro hw
    obtain ⟨hd, hv⟩ := wf_map hw
    simp only [eqv, Bool.and_eq_true, List.all_eq_true]
    refine ⟨eqvEntries_of_lookup es es (fun kv hkv => ⟨kv.2, lookup_of_mem hd kv hkv, ih kv hkv (hv kv hkv)⟩), ?_⟩
    intro kv hkv
    exact hasKey_of_mem hkv
  | hset a ms =>
    intro _
    simp only [eqv, Bool.and_eq_true, List.all_eq_true]
    exact ⟨fun k hk => by simpa using hk, fun k hk => by simpa using hk⟩

theorem mem_of_lookup : ∀ {es : List (Key × Node)} {k : Key} {v : Node}, es.lookup k = some v → (k, v) ∈ es := by
  intro es
  induction es with
  | nil => intro k v h; simp at h
  | cons e es ih =>
    obtain ⟨k0, v0⟩ := e
    intro k v h
    rw [List.lookup_cons] at h
    cases hk : (k == k0) with
    | true =>
      rw [hk] at h
      have : k = k0 := by simpa using hk
      cases h; rw [this]; exact List.mem_cons_self ..
    | false =>
      rw [hk] at h
      exact List.mem_cons_of_mem _ (ih h)

/-! ## `keyed` -/

theorem keyedList_mem {c : Cfg} : ∀ {xs : List Node}, keyedList c xs = true → ∀ x ∈ xs, keyed c x = true := by
  intro xs
  induction xs with
  | nil => intro _ x h; cases h
  | cons y ys ih =>
    intro hw x hx
    simp only [keyedList, Bool.and_eq_true] at hw
    cases hx with
    | head => exact hw.1
    | tail _ h' => exact ih hw.2 x h'

theorem keyedEntries_mem {c : Cfg} : ∀ {es : List (Key × Node)}, keyedEntries c es = true → ∀ kv ∈ es, keyed c kv.2 = true := by
  intro es
  induction es with
  | nil => intro _ x h; cases h
  | cons y ys ih =>
    obtain ⟨k, v⟩ := y
    intro hw x hx
    simp only [keyedEntries, Bool.and_eq_true] at hw
    cases hx with
    | head => exact hw.1
    | tail _ h' => exact ih hw.2 x h'

theorem keyed_seq {c : Cfg} {a : Option Str} {xs : List Node} (h : keyed c (.seq a xs) = true) :
    (usesKeySync c xs = true → ∀ x ∈ xs, hasIdentity (keyAttr xs) x = true) ∧ ∀ x ∈ xs, keyed c x = true := by
  simp only [keyed, Bool.and_eq_true, Bool.or_eq_true, Bool.not_eq_eq_eq_not, Bool.not_true, List.all_eq_true] at h
  refine ⟨fun hu x hx => ?_, keyedList_mem h.2⟩
  cases h.1 with
  | inl h1 => rw [hu] at h1; cases h1
  | inr h2 => exact h2 x hx

theorem keyMatch_refl {ka : Key} {x : Node} (hw : wf x = true) (hi : hasIdentity ka x = true) :
    keyMatch ka x x = true := by
  unfold hasIdentity at hi
  cases hk : keyVal ka x with
  | none => rw [hk] at hi; cases hi
  | some v =>
    simp only [keyMatch, hk]
    cases x with
    | map a es =>
      simp only [keyVal] at hk
      exact eqv_refl v ((wf_map hw).2 (ka, v) (mem_of_lookup hk))
    | scalar a v' => simp [keyVal] at hk
    | seq a xs => simp [keyVal] at hk
    | set a ms => simp [keyVal] at hk

theorem removeFirst_head {f : Node → Bool} {y : Nat × Node} {ys : List (Nat × Node)} (h : f y.2 = true) :
    removeFirst f (y :: ys) = some (y, ys) := by
  simp [removeFirst, h]

/-! ## Python `==` is symmetric and transitive on well-formed documents -/

theorem eqvEntries_iff : ∀ (es fs : List (Key × Node)),
    eqvEntries es fs = true ↔ ∀ kv ∈ es, ∃ w, fs.lookup kv.1 = some w ∧ eqv kv.2 w = true := by
  intro es
  induction es with
  | nil => intro fs; simp [eqvEntries]
  | cons e es ih =>
    obtain ⟨k, v⟩ := e
    intro fs
    simp only [eqvEntries, Bool.and_eq_true, ih, List.mem_cons, forall_eq_or_imp]
    constructor
    · rintro ⟨h1, h2⟩
      refine ⟨?_, h2⟩
      cases hf : fs.lookup k with
      | none => rw [hf] at h1; cases h1
      | some w => rw [hf] at h1; exact ⟨w, rfl, h1⟩
    · rintro ⟨⟨w, hw, hvw⟩, h2⟩
      exact ⟨by rw [hw]; exact hvw, h2⟩

theorem hasKey_of_lookup {es : List (Key × Node)} {k : Key} {v : Node} (h : es.lookup k = some v) : hasKey es k = true :=
  hasKey_of_mem (kv := (k, v)) (mem_of_lookup h)

theorem mem_of_hasKey' {es : List (Key × Node)} {k : Key} (h : hasKey es k = true) : ∃ v, (k, v) ∈ es := by
  simp only [hasKey, List.any_eq_true] at h
  obtain ⟨kv, hkv, hk⟩ := h
  have : kv.1 = k := by simpa using hk
  exact ⟨kv.2, by rw [← this]; exact hkv⟩

theorem wf_list_mem : ∀ {xs : List Node}, wfList xs = true → ∀ x ∈ xs, wf x = true := by
  intro xs
  induction xs with
  | nil => intro _ x h; cases h
  | cons y ys ih =>
    intro hw x hx
    simp only [wfList, Bool.and_eq_true] at hw
    cases hx with
    | head => exact hw.1
    | tail _ h' => exact ih hw.2 x h'

theorem eqvList_symm : ∀ (xs ys : List Node),
    (∀ x ∈ xs, ∀ r, wf x = true → wf r = true → eqv x r = true → eqv r x = true) →
    (∀ x ∈ xs, wf x = true) → (∀ y ∈ ys, wf y = true) → eqvList xs ys = true → eqvList ys xs = true := by
  intro xs
  induction xs with
  | nil => intro ys _ _ _ h; cases ys <;> simp_all [eqvList]
  | cons x xs ih =>
    intro ys hih hwx hwy h
    cases ys with
    | nil => simp [eqvList] at h
    | cons y ys =>
      simp only [eqvList, Bool.and_eq_true] at h ⊢
      exact ⟨hih x (List.mem_cons_self ..) y (hwx x (List.mem_cons_self ..)) (hwy y (List.mem_cons_self ..)) h.1,
        ih ys (fun z hz => hih z (List.mem_cons_of_mem _ hz)) (fun z hz => hwx z (List.mem_cons_of_mem _ hz))
          (fun z hz => hwy z (List.mem_cons_of_mem _ hz)) h.2⟩

theorem eqv_symm : ∀ (l r : Node), wf l = true → wf r = true → eqv l r = true → eqv r l = true := by
  intro l
  induction l using nodeInduct with
  | hscalar a v =>
    intro r _ _ h
    cases r <;> simp only [eqv, beq_iff_eq] at h ⊢ <;> first | exact h.symm | cases h
  | hset a ms =>
    intro r _ _ h
    cases r <;> simp only [eqv, Bool.and_eq_true] at h ⊢ <;> first | exact ⟨h.2, h.1⟩ | cases h
  | hseq a xs ih =>
    intro r hl hr h
    cases r with
    | seq b ys => simp only [eqv] at h ⊢; exact eqvList_symm xs ys ih (wf_seq_mem hl) (wf_seq_mem hr) h
    | scalar b w => simp [eqv] at h
    | map b fs => simp [eqv] at h
    | set b ns => simp [eqv] at h
  | hmap a es ih =>
    intro r hl hr h
    cases r with
    | map b fs =>
      obtain ⟨hd, hv⟩ := wf_map hl
      obtain ⟨hd', hv'⟩ := wf_map hr
      simp only [eqv, Bool.and_eq_true, List.all_eq_true] at h ⊢
      obtain ⟨h1, h2⟩ := h
      rw [eqvEntries_iff] at h1 ⊢
      constructor
      · intro kw hkw
        obtain ⟨v, hkv⟩ := mem_of_hasKey' (h2 kw hkw)
        obtain ⟨w', hw', hvw'⟩ := h1 (kw.1, v) hkv
        have : w' = kw.2 := by
          have := lookup_of_mem hd' kw hkw
          rw [hw'] at this; exact Option.some.inj this
        subst this
        exact ⟨v, lookup_of_mem hd (kw.1, v) hkv, ih (kw.1, v) hkv _ (hv _ hkv) (hv' kw hkw) hvw'⟩
      · intro kv hkv
        obtain ⟨w, hw, _⟩ := h1 kv hkv
        exact hasKey_of_lookup hw
    | scalar b w => simp [eqv] at h
    | seq b ys => simp [eqv] at h
    | set b ns => simp [eqv] at h

theorem eqvList_trans : ∀ (xs ys zs : List Node),
    (∀ x ∈ xs, ∀ b c, wf x = true → wf b = true → wf c = true → eqv x b = true → eqv b c = true → eqv x c = true) →
    (∀ x ∈ xs, wf x = true) → (∀ y ∈ ys, wf y = true) → (∀ z ∈ zs, wf z = true) →
    eqvList xs ys = true → eqvList ys zs = true → eqvList xs zs = true := by
  intro xs
  induction xs with
  | nil => intro ys zs _ _ _ _ h1 h2; cases ys <;> cases zs <;> simp_all [eqvList]
  | cons x xs ih =>
    intro ys zs hih hwx hwy hwz h1 h2
    cases ys with
    | nil => simp [eqvList] at h1
    | cons y ys =>
      cases zs with
      | nil => simp [eqvList] at h2
      | cons z zs =>
        simp only [eqvList, Bool.and_eq_true] at h1 h2 ⊢
        exact ⟨hih x (List.mem_cons_self ..) y z (hwx x (List.mem_cons_self ..)) (hwy y (List.mem_cons_self ..))
            (hwz z (List.mem_cons_self ..)) h1.1 h2.1,
          ih ys zs (fun u hu => hih u (List.mem_cons_of_mem _ hu)) (fun u hu => hwx u (List.mem_cons_of_mem _ hu))
            (fun u hu => hwy u (List.mem_cons_of_mem _ hu)) (fun u hu => hwz u (List.mem_cons_of_mem _ hu)) h1.2 h2.2⟩

theorem eqv_trans : ∀ (a b c : Node), wf a = true → wf b = true → wf c = true →
    eqv a b = true → eqv b c = true → eqv a c = true := by
  intro a
  induction a using nodeInduct with
  | hscalar a0 v =>
    intro b c _ _ _ h1 h2
    cases b <;> simp only [eqv, beq_iff_eq] at h1 <;> try cases h1
    cases c <;> simp only [eqv, beq_iff_eq] at h2 ⊢ <;> try cases h2
    rw [h1]; exact h2
  | hset a0 ms =>
    intro b c _ _ _ h1 h2
    cases b with
    | set b0 ns =>
      cases c with
      | set c0 ps =>
        simp only [eqv, Bool.and_eq_true, List.all_eq_true] at h1 h2 ⊢
        constructor
        · intro k hk
          have := h1.1 k hk
          exact h2.1 k (by simpa using this)
        · intro k hk
          have := h2.2 k hk
          exact h1.2 k (by simpa using this)
      | scalar c0 w => simp [eqv] at h2
      | seq c0 zs => simp [eqv] at h2
      | map c0 gs => simp [eqv] at h2
    | scalar b0 w => simp [eqv] at h1
    | seq b0 ys => simp [eqv] at h1
    | map b0 fs => simp [eqv] at h1
  | hseq a0 xs ih =>
    intro b c ha hb hc h1 h2
    cases b with
    | seq b0 ys =>
      cases c with
      | seq c0 zs =>
        simp only [eqv] at h1 h2 ⊢
        exact eqvList_trans xs ys zs ih (wf_seq_mem ha) (wf_seq_mem hb) (wf_seq_mem hc) h1 h2
      | scalar c0 w => simp [eqv] at h2
      | map c0 gs => simp [eqv] at h2
      | set c0 ps => simp [eqv] at h2
    | scalar b0 w => simp [eqv] at h1
    | map b0 fs => simp [eqv] at h1
    | set b0 ns => simp [eqv] at h1
  | hmap a0 es ih =>
    intro b c ha hb hc h1 h2
    cases b with
    | map b0 fs =>
      cases c with
      | map c0 gs =>
        obtain ⟨_, hva⟩ := wf_map ha
        obtain ⟨_, hvb⟩ := wf_map hb
        obtain ⟨_, hvc⟩ := wf_map hc
        simp only [eqv, Bool.and_eq_true, List.all_eq_true] at h1 h2 ⊢
        obtain ⟨h1a, h1b⟩ := h1
        obtain ⟨h2a, h2b⟩ := h2
        rw [eqvEntries_iff] at h1a h2a ⊢
        constructor
        · intro kv hkv
          obtain ⟨w, hw, hvw⟩ := h1a kv hkv
          obtain ⟨u, hu, hwu⟩ := h2a (kv.1, w) (mem_of_lookup hw)
          exact ⟨u, hu, ih kv hkv w u (hva kv hkv) (hvb _ (mem_of_lookup hw)) (hvc _ (mem_of_lookup hu)) hvw hwu⟩
        · intro ku hku
          obtain ⟨w, hkw⟩ := mem_of_hasKey' (h2b ku hku)
          exact h1b (ku.1, w) hkw
      | scalar c0 w => simp [eqv] at h2
      | seq c0 zs => simp [eqv] at h2
      | set c0 ps => simp [eqv] at h2
    | scalar b0 w => simp [eqv] at h1
    | seq b0 ys => simp [eqv] at h1
    | set b0 ns => simp [eqv] at h1

/-! ## greedy first-match pairing is complete for Python `==` -/

/-- how many elements of `xs` equal `z` -/
def cnt (z : Node) (xs : List Node) : Nat := xs.countP (fun x => eqv z x)

/-- the same number of elements of every `==`-class -/
def Balanced (xs ys : List Node) : Prop := ∀ z, wf z = true → cnt z xs = cnt z ys

theorem eqv_congr_right {x y : Node} (hx : wf x = true) (hy : wf y = true) (h : eqv y x = true) :
    ∀ z, wf z = true → eqv z x = eqv z y := by
  intro z hz
  cases h1 : eqv z x with
  | true => exact (eqv_trans z x y hz hx hy h1 (eqv_symm y x hy hx h)).symm
  | false =>
    cases h2 : eqv z y with
    | false => rfl
    | true => rw [eqv_trans z y x hz hy hx h2 h] at h1; cases h1

theorem balanced_exists {x : Node} {xs ys : List Node} (hx : wf x = true) (hy : ∀ y ∈ ys, wf y = true)
    (h : Balanced (x :: xs) ys) : ∃ y ∈ ys, eqv y x = true := by
  have h1 := h x hx
  have : 0 < cnt x ys := by
    rw [← h1]; simp [cnt, eqv_refl x hx]
  obtain ⟨y, hy1, hy2⟩ := List.countP_pos_iff.mp this
  exact ⟨y, hy1, eqv_symm x y hx (hy y hy1) hy2⟩

theorem balanced_step {x y : Node} {xs ys ys' : List Node} (hx : wf x = true) (hy : wf y = true)
    (hp : ys.Perm (y :: ys')) (he : eqv y x = true) (h : Balanced (x :: xs) ys) : Balanced xs ys' := by
  intro z hz
  have h1 := h z hz
  have h2 : cnt z ys = cnt z (y :: ys') := hp.countP_eq _
  rw [h2] at h1
  simp only [cnt, List.countP_cons] at h1 ⊢
  rw [eqv_congr_right hx hy he z hz] at h1
  omega

theorem balanced_nil {ys : List Node} (hy : ∀ y ∈ ys, wf y = true) (h : Balanced [] ys) : ys = [] := by
  cases ys with
  | nil => rfl
  | cons y ys =>
    have h1 := h y (hy y (List.mem_cons_self ..))
    simp [cnt, eqv_refl y (hy y (List.mem_cons_self ..))] at h1

theorem balanced_of_eqvList : ∀ (xs ys : List Node), (∀ x ∈ xs, wf x = true) → (∀ y ∈ ys, wf y = true) →
    eqvList ys xs = true → Balanced xs ys := by
  intro xs
  induction xs with
  | nil => intro ys _ _ h; cases ys <;> simp_all [eqvList, Balanced]
  | cons x xs ih =>
    intro ys hwx hwy h
    cases ys with
    | nil => simp [eqvList] at h
    | cons y ys =>
      simp only [eqvList, Bool.and_eq_true] at h
      intro z hz
      have := ih ys (fun u hu => hwx u (List.mem_cons_of_mem _ hu)) (fun u hu => hwy u (List.mem_cons_of_mem _ hu)) h.2 z hz
      simp only [cnt, List.countP_cons] at this ⊢
      rw [eqv_congr_right (hwx x (List.mem_cons_self ..)) (hwy y (List.mem_cons_self ..)) h.1 z hz, this]

theorem removeFirst_isSome {f : Node → Bool} {rem : List (Nat × Node)} (h : ∃ y ∈ rem, f y.2 = true) :
    ∃ y rem', removeFirst f rem = some (y, rem') := by
  cases hr : removeFirst f rem with
  | some p => exact ⟨p.1, p.2, rfl⟩
  | none =>
    obtain ⟨y, hy, hf⟩ := h
    rw [removeFirst_none hr y hy] at hf; cases hf

/-- when the two lists hold the same number of elements of every `==`-class, the value
synchronisation pairs every element: no lone left, no lone right tuple -/
theorem syncLoop_balanced : ∀ (xs : List Node) (i : Nat) (rem : List (Nat × Node)),
    (∀ x ∈ xs, wf x = true) → (∀ y ∈ rem, wf y.2 = true) → Balanced xs (rem.map (fun p => p.2)) →
    ∀ p ∈ syncLoop (fun x y => eqv y x) i xs rem,
      ∃ a b, p = ⟨some a, some b⟩ ∧ a.2 ∈ xs ∧ b ∈ rem ∧ eqv b.2 a.2 = true := by
  intro xs
  induction xs with
  | nil =>
    intro i rem _ hwr hb p hp
    have : rem.map (fun p => p.2) = [] := balanced_nil (by
      intro y hy
      obtain ⟨q, hq, rfl⟩ := List.mem_map.mp hy
      exact hwr q hq) hb
    have : rem = [] := by simpa using this
    subst this
    simp [syncLoop] at hp
  | cons x xs ih =>
    intro i rem hwx hwr hb p hp
    have hx := hwx x (List.mem_cons_self ..)
    have hwr' : ∀ y ∈ rem.map (fun p => p.2), wf y = true := by
      intro y hy
      obtain ⟨q, hq, rfl⟩ := List.mem_map.mp hy
      exact hwr q hq
    obtain ⟨y0, hy0, he0⟩ := balanced_exists hx hwr' hb
    obtain ⟨q0, hq0, rfl⟩ := List.mem_map.mp hy0
    obtain ⟨y, rem', hrf⟩ := removeFirst_isSome (f := fun y => eqv y x) ⟨q0, hq0, he0⟩
    obtain ⟨hperm, hfy⟩ := removeFirst_perm hrf
    have hyr : y ∈ rem := hperm.symm.subset (List.mem_cons_self ..)
    have hsub : ∀ z ∈ rem', z ∈ rem := fun z hz => hperm.symm.subset (List.mem_cons_of_mem _ hz)
    unfold syncLoop at hp
    simp only [hrf] at hp
    cases hp with
    | head => exact ⟨(i, x), y, rfl, List.mem_cons_self .., hyr, hfy⟩
    | tail _ hp' =>
      have hb' : Balanced xs (rem'.map (fun p => p.2)) :=
        balanced_step hx (hwr y hyr) (by simpa using hperm.map (fun p => p.2)) hfy hb
      obtain ⟨a, b, h1, h2, h3, h4⟩ := ih (i + 1) rem' (fun u hu => hwx u (List.mem_cons_of_mem _ hu))
        (fun z hz => hwr z (hsub z hz)) hb' p hp'
      exact ⟨a, b, h1, List.mem_cons_of_mem _ h2, hsub b h3, h4⟩

theorem mem_enumFrom : ∀ {xs : List Node} {i : Nat} {p : Nat × Node}, p ∈ enumFrom i xs → p.2 ∈ xs := by
  intro xs
  induction xs with
  | nil => intro i p h; simp [enumFrom] at h
  | cons x xs ih =>
    intro i p h
    simp only [enumFrom, List.mem_cons] at h
    cases h with
    | inl h => rw [h]; exact List.mem_cons_self ..
    | inr h => exact List.mem_cons_of_mem _ (ih h)

end Ypv.Diff
