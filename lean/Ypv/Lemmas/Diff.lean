import Ypv.Spec.Diff
/-!
# Helper lemmas for C06 (list synchronisation, address algebra, Python `==`)
-/
namespace Ypv.Diff
open Ypv

/-! ## `removeFirst` / `syncLoop` -/

theorem removeFirst_perm {f : Node → Bool} : ∀ {rem : List (Nat × Node)} {y rem'},
    removeFirst f rem = some (y, rem') → rem.Perm (y :: rem') ∧ f y.2 = true := by
  intro rem
  induction rem with
  | nil => intro y rem' h; simp [removeFirst] at h
  | cons z zs ih =>
    intro y rem' h
    unfold removeFirst at h
    split at h
    · cases h; exact ⟨List.Perm.refl _, by assumption⟩
    · split at h
      · rename_i w ws heq
        cases h
        have := ih heq
        exact ⟨(List.Perm.cons z this.1).trans (List.Perm.swap _ _ _), this.2⟩
      · cases h

theorem removeFirst_none {f : Node → Bool} : ∀ {rem : List (Nat × Node)},
    removeFirst f rem = none → ∀ y ∈ rem, f y.2 = false := by
  intro rem
  induction rem with
  | nil => intro _ y hy; cases hy
  | cons z zs ih =>
    intro h y hy
    by_cases hz : f z.2 = true
    · simp [removeFirst, hz] at h
    · cases hr : removeFirst f zs with
      | some w => simp [removeFirst, hz, hr] at h
      | none =>
        cases hy with
        | head => simpa using hz
        | tail _ hy' => exact ih hr y hy'

theorem syncLoop_left (m : Node → Node → Bool) : ∀ (xs : List Node) (i : Nat) (rem : List (Nat × Node)),
    (syncLoop m i xs rem).filterMap (fun p => p.l) = enumFrom i xs := by
  intro xs
  induction xs with
  | nil =>
    intro i rem
    simp only [syncLoop, enumFrom]
    induction rem with
    | nil => rfl
    | cons y ys ih => simp [ih]
  | cons x xs ih =>
    intro i rem
    unfold syncLoop
    split <;> simp [enumFrom, ih]

theorem syncLoop_right (m : Node → Node → Bool) : ∀ (xs : List Node) (i : Nat) (rem : List (Nat × Node)),
    ((syncLoop m i xs rem).filterMap (fun p => p.r)).Perm rem := by
  intro xs
  induction xs with
  | nil =>
    intro i rem
    simp only [syncLoop]
    induction rem with
    | nil => exact List.Perm.refl _
    | cons y ys ih => simpa [List.filterMap_cons] using ih
  | cons x xs ih =>
    intro i rem
    unfold syncLoop
    split
    · rename_i y rem' heq
      simp only [List.filterMap_cons]
      exact (List.Perm.cons y (ih (i + 1) rem')).trans (removeFirst_perm heq).1.symm
    · simp only [List.filterMap_cons]
      exact ih (i + 1) rem

/-- what each tuple of `syn_pairs` is: a matched pair (the matcher holds), a left element without
partner (no remaining right element matched), or a left-over right element -/
theorem syncLoop_shape (m : Node → Node → Bool) : ∀ (xs : List Node) (i : Nat) (rem : List (Nat × Node)),
    ∀ p ∈ syncLoop m i xs rem,
      (∃ a b, p = ⟨some a, some b⟩ ∧ m a.2 b.2 = true) ∨ (∃ a, p = ⟨some a, none⟩) ∨ (∃ b, p = ⟨none, some b⟩) := by
  intro xs
  induction xs with
  | nil =>
    intro i rem p hp
    simp only [syncLoop, List.mem_map] at hp
    obtain ⟨y, _, rfl⟩ := hp
    exact Or.inr (Or.inr ⟨y, rfl⟩)
  | cons x xs ih =>
    intro i rem p hp
    unfold syncLoop at hp
    split at hp
    · rename_i y rem' heq
      cases hp with
      | head => exact Or.inl ⟨(i, x), y, rfl, (removeFirst_perm heq).2⟩
      | tail _ h => exact ih _ _ p h
    · cases hp with
      | head => exact Or.inr (Or.inl ⟨(i, x), rfl⟩)
      | tail _ h => exact ih _ _ p h

theorem enumFrom_fst : ∀ (xs : List Node) (i : Nat), (enumFrom i xs).map (fun p => p.1) = List.range' i xs.length := by
  intro xs
  induction xs with
  | nil => intro i; rfl
  | cons x xs ih => intro i; simp [enumFrom, ih, List.range'_succ]

theorem enumFrom_snd : ∀ (xs : List Node) (i : Nat), (enumFrom i xs).map (fun p => p.2) = xs := by
  intro xs
  induction xs with
  | nil => intro i; rfl
  | cons x xs ih => intro i; simp [enumFrom, ih]

/-! ## an induction principle for documents -/

mutual
theorem nodeInduct (P : Node → Prop)
    (hscalar : ∀ a v, P (.scalar a v))
    (hseq : ∀ a xs, (∀ x ∈ xs, P x) → P (.seq a xs))
    (hmap : ∀ a es, (∀ kv ∈ es, P kv.2) → P (.map a es))
    (hset : ∀ a ms, P (.set a ms)) : (n : Node) → P n
  | .scalar a v => hscalar a v
  | .seq a xs => hseq a xs (nodeInductList P hscalar hseq hmap hset xs)
  | .map a es => hmap a es (nodeInductEntries P hscalar hseq hmap hset es)
  | .set a ms => hset a ms
theorem nodeInductList (P : Node → Prop)
    (hscalar : ∀ a v, P (.scalar a v))
    (hseq : ∀ a xs, (∀ x ∈ xs, P x) → P (.seq a xs))
    (hmap : ∀ a es, (∀ kv ∈ es, P kv.2) → P (.map a es))
    (hset : ∀ a ms, P (.set a ms)) : (xs : List Node) → ∀ x ∈ xs, P x
  | [], _, h => by cases h
  | x :: xs, y, h => by
    cases h with
    | head => exact nodeInduct P hscalar hseq hmap hset x
    | tail _ h' => exact nodeInductList P hscalar hseq hmap hset xs y h'
theorem nodeInductEntries (P : Node → Prop)
    (hscalar : ∀ a v, P (.scalar a v))
    (hseq : ∀ a xs, (∀ x ∈ xs, P x) → P (.seq a xs))
    (hmap : ∀ a es, (∀ kv ∈ es, P kv.2) → P (.map a es))
    (hset : ∀ a ms, P (.set a ms)) : (es : List (Key × Node)) → ∀ kv ∈ es, P kv.2
  | [], _, h => by cases h
  | (k, v) :: es, kv, h => by
    cases h with
    | head => exact nodeInduct P hscalar hseq hmap hset v
    | tail _ h' => exact nodeInductEntries P hscalar hseq hmap hset es kv h'
end

/-! ## `clean` -/

@[simp] theorem clean_nil : clean [] = true := rfl
@[simp] theorem clean_append (a b : List Entry) : clean (a ++ b) = (clean a && clean b) := by
  simp [clean, List.all_append]
@[simp] theorem clean_cons (e : Entry) (es : List Entry) : clean (e :: es) = ((e.action == .same) && clean es) := by
  simp [clean]

/-! ## well-formed documents -/

theorem hasKey_of_mem {es : List (Key × Node)} {kv : Key × Node} (h : kv ∈ es) : hasKey es kv.1 = true := by
  simp only [hasKey, List.any_eq_true]
  exact ⟨kv, h, by simp⟩

theorem lookup_of_mem : ∀ {es : List (Key × Node)}, distinctKeys es = true → ∀ kv ∈ es, es.lookup kv.1 = some kv.2 := by
  intro es
  induction es with
  | nil => intro _ kv h; cases h
  | cons e es ih =>
    obtain ⟨k0, v0⟩ := e
    intro hd kv h
    simp only [distinctKeys, Bool.and_eq_true, Bool.not_eq_eq_eq_not, Bool.not_true] at hd
    cases h with
    | head => simp
    | tail _ h' =>
      have hk : hasKey es kv.1 = true := hasKey_of_mem h'
      have hne : (kv.1 == k0) = false := by
        cases hkk : (kv.1 == k0) with
        | false => rfl
        | true =>
          have : kv.1 = k0 := by simpa using hkk
          rw [this] at hk
          rw [hk] at hd
          cases hd.1
      rw [List.lookup_cons, hne]
      exact ih hd.2 kv h'

theorem wf_seq_mem {a : Option Str} : ∀ {xs : List Node}, wf (.seq a xs) = true → ∀ x ∈ xs, wf x = true := by
  intro xs
  induction xs with
  | nil => intro _ x h; cases h
  | cons y ys ih =>
    intro hw x hx
    simp only [wf, wfList, Bool.and_eq_true] at hw
    cases hx with
    | head => exact hw.1
    | tail _ h' => exact ih (by simpa [wf] using hw.2) x h'

theorem wfEntries_mem : ∀ {es : List (Key × Node)}, wfEntries es = true → ∀ kv ∈ es, wf kv.2 = true := by
  intro es
  induction es with
  | nil => intro _ x h; cases h
  | cons y ys ih =>
    obtain ⟨k, v⟩ := y
    intro hw x hx
    simp only [wfEntries, Bool.and_eq_true] at hw
    cases hx with
    | head => exact hw.1
    | tail _ h' => exact ih hw.2 x h'

theorem wf_map {a : Option Str} {es : List (Key × Node)} (h : wf (.map a es) = true) :
    distinctKeys es = true ∧ ∀ kv ∈ es, wf kv.2 = true := by
  simp only [wf, Bool.and_eq_true] at h
  exact ⟨h.1, wfEntries_mem h.2⟩

/-! ## Python `==` is reflexive on well-formed documents -/

theorem eqvList_refl : ∀ (xs : List Node), (∀ x ∈ xs, eqv x x = true) → eqvList xs xs = true := by
  intro xs
  induction xs with
  | nil => intro _; rfl
  | cons x xs ih =>
    intro h
    simp only [eqvList, Bool.and_eq_true]
    exact ⟨h x (List.mem_cons_self ..), ih (fun y hy => h y (List.mem_cons_of_mem _ hy))⟩

theorem eqvEntries_of_lookup : ∀ (es fs : List (Key × Node)),
    (∀ kv ∈ es, ∃ w, fs.lookup kv.1 = some w ∧ eqv kv.2 w = true) → eqvEntries es fs = true := by
  intro es
  induction es with
  | nil => intro fs _; rfl
  | cons e es ih =>
    obtain ⟨k, v⟩ := e
    intro fs h
    obtain ⟨w, hw, hvw⟩ := h (k, v) (List.mem_cons_self ..)
    simp only [eqvEntries, hw, hvw, Bool.true_and]
    exact ih fs (fun kv hkv => h kv (List.mem_cons_of_mem _ hkv))

theorem eqv_refl : ∀ (n : Node), wf n = true → eqv n n = true := by
  intro n
  induction n using nodeInduct with
  | hscalar a v => intro _; simp [eqv]
  | hseq a xs ih =>
    intro hw
    simp only [eqv]
    exact eqvList_refl xs (fun x hx => ih x hx (wf_seq_mem hw x hx))
  | hmap a es ih =>
    intro hw
    obtain ⟨hd, hv⟩ := wf_map hw
    simp only [eqv, Bool.and_eq_true, List.all_eq_true]
    refine ⟨eqvEntries_of_lookup es es (fun kv hkv => ⟨kv.2, lookup_of_mem hd kv hkv, ih kv hkv (hv kv hkv)⟩), ?_⟩
    intro kv hkv
    exact hasKey_of_mem hkv
  | hset a ms =>
    intro _
    simp only [eqv, Bool.and_eq_true, List.all_eq_true]
    exact ⟨fun k hk => by simpa using hk, fun k hk => by simpa using hk⟩

theorem mem_of_lookup : ∀ {es : List (Key × Node)} {k : Key} {v : Node}, es.lookup k = some v → (k, v) ∈ es := by
  intro es
  induction es with
  | nil => intro k v h; simp at h
  | cons e es ih =>
    obtain ⟨k0, v0⟩ := e
    intro k v h
    rw [List.lookup_cons] at h
    cases hk : (k == k0) with
    | true =>
      rw [hk] at h
      have : k = k0 := by simpa using hk
      cases h; rw [this]; exact List.mem_cons_self ..
    | false =>
      rw [hk] at h
      exact List.mem_cons_of_mem _ (ih h)

/-! ## `keyed` -/

theorem keyedList_mem {c : Cfg} : ∀ {xs : List Node}, keyedList c xs = true → ∀ x ∈ xs, keyed c x = true := by
  intro xs
  induction xs with
  | nil => intro _ x h; cases h
  | cons y ys ih =>
    intro hw x hx
    simp only [keyedList, Bool.and_eq_true] at hw
    cases hx with
    | head => exact hw.1
    | tail _ h' => exact ih hw.2 x h'

theorem keyedEntries_mem {c : Cfg} : ∀ {es : List (Key × Node)}, keyedEntries c es = true → ∀ kv ∈ es, keyed c kv.2 = true := by
  intro es
  induction es with
  | nil => intro _ x h; cases h
  | cons y ys ih =>
    obtain ⟨k, v⟩ := y
    intro hw x hx
    simp only [keyedEntries, Bool.and_eq_true] at hw
    cases hx with
    | head => exact hw.1
    | tail _ h' => exact ih hw.2 x h'

theorem keyed_seq {c : Cfg} {a : Option Str} {xs : List Node} (h : keyed c (.seq a xs) = true) :
    (usesKeySync c xs = true → ∀ x ∈ xs, hasIdentity (keyAttr xs) x = true) ∧ ∀ x ∈ xs, keyed c x = true := by
  simp only [keyed, Bool.and_eq_true, Bool.or_eq_true, Bool.not_eq_eq_eq_not, Bool.not_true, List.all_eq_true] at h
  refine ⟨fun hu x hx => ?_, keyedList_mem h.2⟩
  cases h.1 with
  | inl h1 => rw [hu] at h1; cases h1
  | inr h2 => exact h2 x hx

theorem keyMatch_refl {ka : Key} {x : Node} (hw : wf x = true) (hi : hasIdentity ka x = true) :
    keyMatch ka x x = true := by
  unfold hasIdentity at hi
  cases hk : keyVal ka x with
  | none => rw [hk] at hi; cases hi
  | some v =>
    simp only [keyMatch, hk]
    cases x with
    | map a es =>
      simp only [keyVal] at hk
      exact eqv_refl v ((wf_map hw).2 (ka, v) (mem_of_lookup hk))
    | scalar a v' => simp [keyVal] at hk
    | seq a xs => simp [keyVal] at hk
    | set a ms => simp [keyVal] at hk

theorem removeFirst_head {f : Node → Bool} {y : Nat × Node} {ys : List (Nat × Node)} (h : f y.2 = true) :
    removeFirst f (y :: ys) = some (y, ys) := by
  simp [removeFirst, h]

/-! ## Python `==` is symmetric and transitive on well-formed documents -/

theorem eqvEntries_iff : ∀ (es fs : List (Key × Node)),
    eqvEntries es fs = true ↔ ∀ kv ∈ es, ∃ w, fs.lookup kv.1 = some w ∧ eqv kv.2 w = true := by
  intro es
  induction es with
  | nil => intro fs; simp [eqvEntries]
  | cons e es ih =>
    obtain ⟨k, v⟩ := e
    intro fs
    simp only [eqvEntries, Bool.and_eq_true, ih, List.mem_cons, forall_eq_or_imp]
    constructor
    · rintro ⟨h1, h2⟩
      refine ⟨?_, h2⟩
      cases hf : fs.lookup k with
      | none => rw [hf] at h1; cases h1
      | some w => rw [hf] at h1; exact ⟨w, rfl, h1⟩
    · rintro ⟨⟨w, hw, hvw⟩, h2⟩
      exact ⟨by rw [hw]; exact hvw, h2⟩

theorem hasKey_of_lookup {es : List (Key × Node)} {k : Key} {v : Node} (h : es.lookup k = some v) : hasKey es k = true :=
  hasKey_of_mem (kv := (k, v)) (mem_of_lookup h)

theorem mem_of_hasKey' {es : List (Key × Node)} {k : Key} (h : hasKey es k = true) : ∃ v, (k, v) ∈ es := by
  simp only [hasKey, List.any_eq_true] at h
  obtain ⟨kv, hkv, hk⟩ := h
  have : kv.1 = k := by simpa using hk
  exact ⟨kv.2, by rw [← this]; exact hkv⟩

theorem wf_list_mem : ∀ {xs : List Node}, wfList xs = true → ∀ x ∈ xs, wf x = true := by
  intro xs
  induction xs with
  | nil => intro _ x h; cases h
  | cons y ys ih =>
    intro hw x hx
    simp only [wfList, Bool.and_eq_true] at hw
    cases hx with
    | head => exact hw.1
    | tail _ h' => exact ih hw.2 x h'

theorem eqvList_symm : ∀ (xs ys : List Node),
    (∀ x ∈ xs, ∀ r, wf x = true → wf r = true → eqv x r = true → eqv r x = true) →
    (∀ x ∈ xs, wf x = true) → (∀ y ∈ ys, wf y = true) → eqvList xs ys = true → eqvList ys xs = true := by
  intro xs
  induction xs with
  | nil => intro ys _ _ _ h; cases ys <;> simp_all [eqvList]
  | cons x xs ih =>
    intro ys hih hwx hwy h
    cases ys with
    | nil => simp [eqvList] at h
    | cons y ys =>
      simp only [eqvList, Bool.and_eq_true] at h ⊢
      exact ⟨hih x (List.mem_cons_self ..) y (hwx x (List.mem_cons_self ..)) (hwy y (List.mem_cons_self ..)) h.1,
        ih ys (fun z hz => hih z (List.mem_cons_of_mem _ hz)) (fun z hz => hwx z (List.mem_cons_of_mem _ hz))
          (fun z hz => hwy z (List.mem_cons_of_mem _ hz)) h.2⟩

theorem eqv_symm : ∀ (l r : Node), wf l = true → wf r = true → eqv l r = true → eqv r l = true := by
  intro l
  induction l using nodeInduct with
  | hscalar a v =>
    intro r _ _ h
    cases r <;> simp only [eqv, beq_iff_eq] at h ⊢ <;> first | exact h.symm | cases h
  | hset a ms =>
    intro r _ _ h
    cases r <;> simp only [eqv, Bool.and_eq_true] at h ⊢ <;> first | exact ⟨h.2, h.1⟩ | cases h
  | hseq a xs ih =>
    intro r hl hr h
    cases r with
    | seq b ys => simp only [eqv] at h ⊢; exact eqvList_symm xs ys ih (wf_seq_mem hl) (wf_seq_mem hr) h
    | scalar b w => simp [eqv] at h
    | map b fs => simp [eqv] at h
    | set b ns => simp [eqv] at h
  | hmap a es ih =>
    intro r hl hr h
    cases r with
    | map b fs =>
      obtain ⟨hd, hv⟩ := wf_map hl
      obtain ⟨hd', hv'⟩ := wf_map hr
      simp only [eqv, Bool.and_eq_true, List.all_eq_true] at h ⊢
      obtain ⟨h1, h2⟩ := h
      rw [eqvEntries_iff] at h1 ⊢
      constructor
      · intro kw hkw
        obtain ⟨v, hkv⟩ := mem_of_hasKey' (h2 kw hkw)
        obtain ⟨w', hw', hvw'⟩ := h1 (kw.1, v) hkv
        have : w' = kw.2 := by
          have := lookup_of_mem hd' kw hkw
          rw [hw'] at this; exact Option.some.inj this
        subst this
        exact ⟨v, lookup_of_mem hd (kw.1, v) hkv, ih (kw.1, v) hkv _ (hv _ hkv) (hv' kw hkw) hvw'⟩
      · intro kv hkv
        obtain ⟨w, hw, _⟩ := h1 kv hkv
        exact hasKey_of_lookup hw
    | scalar b w => simp [eqv] at h
    | seq b ys => simp [eqv] at h
    | set b ns => simp [eqv] at h

theorem eqvList_trans : ∀ (xs ys zs : List Node),
    (∀ x ∈ xs, ∀ b c, wf x = true → wf b = true → wf c = true → eqv x b = true → eqv b c = true → eqv x c = true) →
    (∀ x ∈ xs, wf x = true) → (∀ y ∈ ys, wf y = true) → (∀ z ∈ zs, wf z = true) →
    eqvList xs ys = true → eqvList ys zs = true → eqvList xs zs = true := by
  intro xs
  induction xs with
  | nil => intro ys zs _ _ _ _ h1 h2; cases ys <;> cases zs <;> simp_all [eqvList]
  | cons x xs ih =>
    intro ys zs hih hwx hwy hwz h1 h2
    cases ys with
    | nil => simp [eqvList] at h1
    | cons y ys =>
      cases zs with
      | nil => simp [eqvList] at h2
      | cons z zs =>
        simp only [eqvList, Bool.and_eq_true] at h1 h2 ⊢
        exact ⟨hih x (List.mem_cons_self ..) y z (hwx x (List.mem_cons_self ..)) (hwy y (List.mem_cons_self ..))
            (hwz z (List.mem_cons_self ..)) h1.1 h2.1,
          ih ys zs (fun u hu => hih u (List.mem_cons_of_mem _ hu)) (fun u hu => hwx u (List.mem_cons_of_mem _ hu))
            (fun u hu => hwy u (List.mem_cons_of_mem _ hu)) (fun u hu => hwz u (List.mem_cons_of_mem _ hu)) h1.2 h2.2⟩

theorem eqv_trans : ∀ (a b c : Node), wf a = true → wf b = true → wf c = true →
    eqv a b = true → eqv b c = true → eqv a c = true := by
  intro a
  induction a using nodeInduct with
  | hscalar a0 v =>
    intro b c _ _ _ h1 h2
    cases b <;> simp only [eqv, beq_iff_eq] at h1 <;> try cases h1
    cases c <;> simp only [eqv, beq_iff_eq] at h2 ⊢ <;> try cases h2
    rw [h1]; exact h2
  | hset a0 ms =>
    intro b c _ _ _ h1 h2
    cases b with
    | set b0 ns =>
      cases c with
      | set c0 ps =>
        simp only [eqv, Bool.and_eq_true, List.all_eq_true] at h1 h2 ⊢
        constructor
        · intro k hk
          have := h1.1 k hk
          exact h2.1 k (by simpa using this)
        · intro k hk
          have := h2.2 k hk
          exact h1.2 k (by simpa using this)
      | scalar c0 w => simp [eqv] at h2
      | seq c0 zs => simp [eqv] at h2
      | map c0 gs => simp [eqv] at h2
    | scalar b0 w => simp [eqv] at h1
    | seq b0 ys => simp [eqv] at h1
    | map b0 fs => simp [eqv] at h1
  | hseq a0 xs ih =>
    intro b c ha hb hc h1 h2
    cases b with
    | seq b0 ys =>
      cases c with
      | seq c0 zs =>
        simp only [eqv] at h1 h2 ⊢
        exact eqvList_trans xs ys zs ih (wf_seq_mem ha) (wf_seq_mem hb) (wf_seq_mem hc) h1 h2
      | scalar c0 w => simp [eqv] at h2
      | map c0 gs => simp [eqv] at h2
      | set c0 ps => simp [eqv] at h2
    | scalar b0 w => simp [eqv] at h1
    | map b0 fs => simp [eqv] at h1
    | set b0 ns => simp [eqv] at h1
  | hmap a0 es ih =>
    intro b c ha hb hc h1 h2
    cases b with
    | map b0 fs =>
      cases c with
      | map c0 gs =>
        obtain ⟨_, hva⟩ := wf_map ha
        obtain ⟨_, hvb⟩ := wf_map hb
        obtain ⟨_, hvc⟩ := wf_map hc
        simp only [eqv, Bool.and_eq_true, List.all_eq_true] at h1 h2 ⊢
        obtain ⟨h1a, h1b⟩ := h1
        obtain ⟨h2a, h2b⟩ := h2
        rw [eqvEntries_iff] at h1a h2a ⊢
        constructor
        · intro kv hkv
          obtain ⟨w, hw, hvw⟩ := h1a kv hkv
          obtain ⟨u, hu, hwu⟩ := h2a (kv.1, w) (mem_of_lookup hw)
          exact ⟨u, hu, ih kv hkv w u (hva kv hkv) (hvb _ (mem_of_lookup hw)) (hvc _ (mem_of_lookup hu)) hvw hwu⟩
        · intro ku hku
          obtain ⟨w, hkw⟩ := mem_of_hasKey' (h2b ku hku)
          exact h1b (ku.1, w) hkw
      | scalar c0 w => simp [eqv] at h2
      | seq c0 zs => simp [eqv] at h2
      | set c0 ps => simp [eqv] at h2
    | scalar b0 w => simp [eqv] at h1
    | seq b0 ys => simp [eqv] at h1
    | set b0 ns => simp [eqv] at h1

/-! ## greedy first-match pairing is complete for Python `==` -/

theorem eqv_congr_right {x y : Node} (hx : wf x = true) (hy : wf y = true) (h : eqv y x = true) :
    ∀ z, wf z = true → eqv z x = eqv z y := by
  intro z hz
  cases h1 : eqv z x with
  | true => exact (eqv_trans z x y hz hx hy h1 (eqv_symm y x hy hx h)).symm
  | false =>
    cases h2 : eqv z y with
    | false => rfl
    | true => rw [eqv_trans z y x hz hy hx h2 h] at h1; cases h1

theorem balanced_exists {x : Node} {xs ys : List Node} (hx : wf x = true) (hy : ∀ y ∈ ys, wf y = true)
    (h : Balanced (x :: xs) ys) : ∃ y ∈ ys, eqv y x = true := by
  have h1 := h x hx
  have : 0 < cnt x ys := by
    rw [← h1]; simp [cnt, eqv_refl x hx]
  obtain ⟨y, hy1, hy2⟩ := List.countP_pos_iff.mp this
  exact ⟨y, hy1, eqv_symm x y hx (hy y hy1) hy2⟩

theorem balanced_step {x y : Node} {xs ys ys' : List Node} (hx : wf x = true) (hy : wf y = true)
    (hp : ys.Perm (y :: ys')) (he : eqv y x = true) (h : Balanced (x :: xs) ys) : Balanced xs ys' := by
  intro z hz
  have h1 := h z hz
  have h2 : cnt z ys = cnt z (y :: ys') := hp.countP_eq _
  rw [h2] at h1
  simp only [cnt, List.countP_cons] at h1 ⊢
  rw [eqv_congr_right hx hy he z hz] at h1
  omega

theorem balanced_nil {ys : List Node} (hy : ∀ y ∈ ys, wf y = true) (h : Balanced [] ys) : ys = [] := by
  cases ys with
  | nil => rfl
  | cons y ys =>
    have h1 := h y (hy y (List.mem_cons_self ..))
    simp [cnt, eqv_refl y (hy y (List.mem_cons_self ..))] at h1

theorem balanced_of_eqvList : ∀ (xs ys : List Node), (∀ x ∈ xs, wf x = true) → (∀ y ∈ ys, wf y = true) →
    eqvList ys xs = true → Balanced xs ys := by
  intro xs
  induction xs with
  | nil => intro ys _ _ h; cases ys <;> simp_all [eqvList, Balanced]
  | cons x xs ih =>
    intro ys hwx hwy h
    cases ys with
    | nil => simp [eqvList] at h
    | cons y ys =>
      simp only [eqvList, Bool.and_eq_true] at h
      intro z hz
      have := ih ys (fun u hu => hwx u (List.mem_cons_of_mem _ hu)) (fun u hu => hwy u (List.mem_cons_of_mem _ hu)) h.2 z hz
      simp only [cnt, List.countP_cons] at this ⊢
      rw [eqv_congr_right (hwx x (List.mem_cons_self ..)) (hwy y (List.mem_cons_self ..)) h.1 z hz, this]

theorem removeFirst_isSome {f : Node → Bool} {rem : List (Nat × Node)} (h : ∃ y ∈ rem, f y.2 = true) :
    ∃ y rem', removeFirst f rem = some (y, rem') := by
  cases hr : removeFirst f rem with
  | some p => exact ⟨p.1, p.2, rfl⟩
  | none =>
    obtain ⟨y, hy, hf⟩ := h
    rw [removeFirst_none hr y hy] at hf; cases hf

/-- when the two lists hold the same number of elements of every `==`-class, the value
synchronisation pairs every element: no lone left, no lone right tuple -/
theorem syncLoop_balanced : ∀ (xs : List Node) (i : Nat) (rem : List (Nat × Node)),
    (∀ x ∈ xs, wf x = true) → (∀ y ∈ rem, wf y.2 = true) → Balanced xs (rem.map (fun p => p.2)) →
    ∀ p ∈ syncLoop (fun x y => eqv y x) i xs rem,
      ∃ a b, p = ⟨some a, some b⟩ ∧ a.2 ∈ xs ∧ b ∈ rem ∧ eqv b.2 a.2 = true := by
  intro xs
  induction xs with
  | nil =>
    intro i rem _ hwr hb p hp
    have : rem.map (fun p => p.2) = [] := balanced_nil (by
      intro y hy
      obtain ⟨q, hq, rfl⟩ := List.mem_map.mp hy
      exact hwr q hq) hb
    have : rem = [] := by simpa using this
    subst this
    simp [syncLoop] at hp
  | cons x xs ih =>
    intro i rem hwx hwr hb p hp
    have hx := hwx x (List.mem_cons_self ..)
    have hwr' : ∀ y ∈ rem.map (fun p => p.2), wf y = true := by
      intro y hy
      obtain ⟨q, hq, rfl⟩ := List.mem_map.mp hy
      exact hwr q hq
    obtain ⟨y0, hy0, he0⟩ := balanced_exists hx hwr' hb
    obtain ⟨q0, hq0, rfl⟩ := List.mem_map.mp hy0
    obtain ⟨y, rem', hrf⟩ := removeFirst_isSome (f := fun y => eqv y x) ⟨q0, hq0, he0⟩
    obtain ⟨hperm, hfy⟩ := removeFirst_perm hrf
    have hyr : y ∈ rem := hperm.symm.subset (List.mem_cons_self ..)
    have hsub : ∀ z ∈ rem', z ∈ rem := fun z hz => hperm.symm.subset (List.mem_cons_of_mem _ hz)
    unfold syncLoop at hp
    simp only [hrf] at hp
    cases hp with
    | head => exact ⟨(i, x), y, rfl, List.mem_cons_self .., hyr, hfy⟩
    | tail _ hp' =>
      have hb' : Balanced xs (rem'.map (fun p => p.2)) :=
        balanced_step hx (hwr y hyr) (by simpa using hperm.map (fun p => p.2)) hfy hb
      obtain ⟨a, b, h1, h2, h3, h4⟩ := ih (i + 1) rem' (fun u hu => hwx u (List.mem_cons_of_mem _ hu))
        (fun z hz => hwr z (hsub z hz)) hb' p hp'
      exact ⟨a, b, h1, List.mem_cons_of_mem _ h2, hsub b h3, h4⟩

theorem mem_enumFrom : ∀ {xs : List Node} {i : Nat} {p : Nat × Node}, p ∈ enumFrom i xs → p.2 ∈ xs := by
  intro xs
  induction xs with
  | nil => intro i p h; simp [enumFrom] at h
  | cons x xs ih =>
    intro i p h
    simp only [enumFrom, List.mem_cons] at h
    cases h with
    | inl h => rw [h]; exact List.mem_cons_self ..
    | inr h => exact List.mem_cons_of_mem _ (ih h)

end Ypv.Diff

/-! # Proofs of the C06 theorems (restated with their documentation in `Props/C06.lean`) -/
namespace Ypv.Diff.Proofs
open Ypv Ypv.Diff

/-! ## exit status -/

theorem changesFound_iff (rep : List Entry) : changesFound rep = true ↔ ∃ e ∈ rep, e.action ≠ .same := by
  induction rep with
  | nil => simp [changesFound]
  | cons e es ih =>
    unfold changesFound
    by_cases h : e.action = .same
    · simp [h, ih]
    · simp [h]

/-- `yaml-diff` exits with 0 exactly when the report has no entry other than SAME
(`print_report`'s `changes_found` flag, `exit_state = 1 if … else 0`). -/
theorem exit_zero_iff_clean (rep : List Entry) : exitStatus rep = 0 ↔ clean rep = true := by
  unfold exitStatus clean
  induction rep with
  | nil => simp [changesFound]
  | cons e es ih =>
    unfold changesFound
    by_cases h : e.action = .same
    · simpa [h] using ih
    · simp [h]

example : exitStatus (report ⟨.position, .position⟩ (.seq none [.scalar none (.int 1)]) (.seq none [])) = 1 := by
  decide +kernel

/-! ## accounting of a synchronisation -/

/-- Each left element appears exactly once (in order, with its own index) among the tuples of a
synchronisation, each right element exactly once (the right sides of the tuples are a permutation
of the indexed right list), every tuple is a matched pair for which the matcher holds, a lone left
element, or a lone right element.  Holds for every matcher, hence for
`synchronize_lists_by_value` and `synchronize_lods_by_key`.  Proved by induction over the loop
with the list of remaining right elements (`rhs_reduced`) as the invariant. -/
theorem sync_accounting (m : Node → Node → Bool) (xs ys : List Node) :
    (sync m xs ys).filterMap (fun p => p.l) = enumFrom 0 xs
    ∧ ((sync m xs ys).filterMap (fun p => p.r)).Perm (enumFrom 0 ys)
    ∧ (∀ p ∈ sync m xs ys,
        (∃ a b, p = ⟨some a, some b⟩ ∧ m a.2 b.2 = true) ∨ (∃ a, p = ⟨some a, none⟩) ∨ (∃ b, p = ⟨none, some b⟩)) :=
  ⟨syncLoop_left m xs 0 _, syncLoop_right m xs 0 _, syncLoop_shape m xs 0 _⟩

/-- the indices on the two sides: `0 … len-1`, each once -/
theorem sync_indices (m : Node → Node → Bool) (xs ys : List Node) :
    ((sync m xs ys).filterMap (fun p => p.l)).map (fun a => a.1) = List.range' 0 xs.length
    ∧ (((sync m xs ys).filterMap (fun p => p.r)).map (fun a => a.1)).Perm (List.range' 0 ys.length) := by
  obtain ⟨h1, h2, _⟩ := sync_accounting m xs ys
  refine ⟨by rw [h1, enumFrom_fst], ?_⟩
  have := h2.map (fun a => a.1)
  rwa [enumFrom_fst] at this

example : syncByValue [.scalar none (.int 1), .scalar none (.int 2), .scalar none (.int 3)]
    [.scalar none (.int 3), .scalar none (.int 1), .scalar none (.int 4)]
    = [⟨some (0, .scalar none (.int 1)), some (1, .scalar none (.int 1))⟩,
       ⟨some (1, .scalar none (.int 2)), none⟩,
       ⟨some (2, .scalar none (.int 3)), some (0, .scalar none (.int 3))⟩,
       ⟨none, some (2, .scalar none (.int 4))⟩] := by decide +kernel

/-- The KEY/DEEP report of two record lists is, tuple by tuple, what the synchronisation says:
a matched pair is compared (one SAME/CHANGE entry, or the pair's own diff), a lone left record is
one DELETE, a lone right record one ADD.  With `sync_accounting`: every left record is accounted
for exactly once as same/changed/deleted and every right record exactly once as same/changed/added. -/
theorem key_report_follows_sync (s : Bool) (c : Cfg) (p : Addr) (deep : Bool) (ka : Key) :
    ∀ (xs : List Node) (i : Nat) (rem : List (Nat × Node)),
    diffKey s c p deep ka i xs rem = (syncLoop (keyMatch ka) i xs rem).flatMap (keyPairEntries s c p deep) := by
  intro xs
  induction xs with
  | nil =>
    intro i rem
    simp only [diffKey, syncLoop]
    induction rem with
    | nil => rfl
    | cons y ys ih => simp [List.flatMap_cons, keyPairEntries, ih]
  | cons x xs ih =>
    intro i rem
    unfold diffKey syncLoop
    split
    · rename_i y rem' heq
      simp only [List.flatMap_cons, keyPairEntries, ih]
    · rename_i heq
      simp only [List.flatMap_cons, keyPairEntries, ih, List.singleton_append]

/-- The value-synchronised report, before the pending ADDs are merged with DELETEs at the same
path: the entries of the matched and lone left elements follow the tuples of
`synchronize_lists_by_value`, and the elements still to be added are exactly its lone right elements. -/
theorem value_report_follows_sync (s : Bool) (c : Cfg) (p : Addr) :
    ∀ (xs : List Node) (i : Nat) (rem : List (Nat × Node)),
    (diffValue s c p i xs rem).1 = (syncLoop (fun x y => eqv y x) i xs rem).flatMap (valuePairEntries s c p)
    ∧ (diffValue s c p i xs rem).2
        = (syncLoop (fun x y => eqv y x) i xs rem).filterMap (fun q => match q with | ⟨none, some b⟩ => some b | _ => none) := by
  intro xs
  induction xs with
  | nil =>
    intro i rem
    simp only [diffValue, syncLoop]
    induction rem with
    | nil => exact ⟨rfl, rfl⟩
    | cons y ys ih =>
      obtain ⟨h1, h2⟩ := ih
      refine ⟨?_, ?_⟩
      · simpa [List.flatMap_cons, valuePairEntries] using h1
      · simp only [List.map_cons, List.filterMap_cons]
        rw [← h2]
  | cons x xs ih =>
    intro i rem
    unfold diffValue syncLoop
    split
    · rename_i y rem' heq
      obtain ⟨h1, h2⟩ := ih (i + 1) rem'
      simp only [List.flatMap_cons, valuePairEntries, List.filterMap_cons]
      exact ⟨by rw [h1], h2⟩
    · rename_i heq
      obtain ⟨h1, h2⟩ := ih (i + 1) rem
      simp only [List.flatMap_cons, valuePairEntries, List.filterMap_cons, List.singleton_append]
      exact ⟨by rw [h1], h2⟩

/-! ## a document compared with itself -/

theorem refl_dict (s : Bool) (c : Cfg) (p : Addr) (fs : List (Key × Node)) : ∀ (es : List (Key × Node)),
    (∀ kv ∈ es, fs.lookup kv.1 = some kv.2) →
    (∀ kv ∈ es, ∀ q, clean (diffBetween s c q kv.2 kv.2) = true) →
    clean (diffDict s c p es fs) = true := by
  intro es
  induction es with
  | nil => intro _ _; simp [diffDict]
  | cons e es ih =>
    obtain ⟨k, v⟩ := e
    intro hl hc
    have h1 := hl (k, v) (List.mem_cons_self ..)
    simp only at h1
    simp only [diffDict, h1, clean_append, Bool.and_eq_true]
    exact ⟨hc (k, v) (List.mem_cons_self ..) _,
      ih (fun kv h => hl kv (List.mem_cons_of_mem _ h)) (fun kv h => hc kv (List.mem_cons_of_mem _ h))⟩

theorem refl_pos (s : Bool) (c : Cfg) (p : Addr) : ∀ (xs : List Node) (i : Nat),
    (∀ x ∈ xs, ∀ q, clean (diffBetween s c q x x) = true) → clean (diffPos s c p i xs xs) = true := by
  intro xs
  induction xs with
  | nil => intro i _; simp [diffPos, addSeq]
  | cons x xs ih =>
    intro i h
    simp only [diffPos, clean_append, Bool.and_eq_true]
    exact ⟨h x (List.mem_cons_self ..) _, ih (i + 1) (fun y hy => h y (List.mem_cons_of_mem _ hy))⟩

theorem refl_shallow (p : Addr) : ∀ (xs : List Node) (i : Nat),
    (∀ x ∈ xs, eqv x x = true) → clean (posShallow p i xs xs) = true := by
  intro xs
  induction xs with
  | nil => intro i _; simp [posShallow]
  | cons x xs ih =>
    intro i h
    simp only [posShallow, clean_cons, scalarEntry, h x (List.mem_cons_self ..), Bool.and_eq_true]
    exact ⟨by simp, ih (i + 1) (fun y hy => h y (List.mem_cons_of_mem _ hy))⟩

theorem refl_value (s : Bool) (c : Cfg) (p : Addr) : ∀ (xs : List Node) (i : Nat),
    (∀ x ∈ xs, eqv x x = true) → (∀ x ∈ xs, ∀ q, clean (diffBetween s c q x x) = true) →
    clean (diffValue s c p i xs (enumFrom i xs)).1 = true ∧ (diffValue s c p i xs (enumFrom i xs)).2 = [] := by
  intro xs
  induction xs with
  | nil => intro i _ _; simp [diffValue, enumFrom]
  | cons x xs ih =>
    intro i he hc
    have hx := he x (List.mem_cons_self ..)
    have hrf : removeFirst (fun y => eqv y x) ((i, x) :: enumFrom (i + 1) xs) = some ((i, x), enumFrom (i + 1) xs) :=
      removeFirst_head (by simpa using hx)
    obtain ⟨h1, h2⟩ := ih (i + 1) (fun y hy => he y (List.mem_cons_of_mem _ hy)) (fun y hy => hc y (List.mem_cons_of_mem _ hy))
    simp only [diffValue, enumFrom, hrf, clean_append, Bool.and_eq_true]
    exact ⟨⟨hc x (List.mem_cons_self ..) _, h1⟩, h2⟩

theorem refl_key (s : Bool) (c : Cfg) (p : Addr) (deep : Bool) (ka : Key) : ∀ (xs : List Node) (i : Nat),
    (∀ x ∈ xs, keyMatch ka x x = true) → (∀ x ∈ xs, eqv x x = true) →
    (∀ x ∈ xs, ∀ q, clean (diffBetween s c q x x) = true) →
    clean (diffKey s c p deep ka i xs (enumFrom i xs)) = true := by
  intro xs
  induction xs with
  | nil => intro i _ _ _; simp [diffKey, enumFrom]
  | cons x xs ih =>
    intro i hk he hc
    have hrf : removeFirst (keyMatch ka x) ((i, x) :: enumFrom (i + 1) xs) = some ((i, x), enumFrom (i + 1) xs) :=
      removeFirst_head (hk x (List.mem_cons_self ..))
    have ih' := ih (i + 1) (fun y hy => hk y (List.mem_cons_of_mem _ hy)) (fun y hy => he y (List.mem_cons_of_mem _ hy))
      (fun y hy => hc y (List.mem_cons_of_mem _ hy))
    simp only [diffKey, enumFrom, hrf, clean_append, Bool.and_eq_true]
    refine ⟨?_, ih'⟩
    cases deep with
    | true => simpa using hc x (List.mem_cons_self ..) _
    | false => simp [scalarEntry, he x (List.mem_cons_self ..)]

theorem refl_node (s : Bool) (c : Cfg) : ∀ (l : Node), wf l = true → keyed c l = true →
    ∀ p, clean (diffBetween s c p l l) = true := by
  intro l
  induction l using nodeInduct with
  | hscalar a v => intro _ _ p; simp [diffBetween, scalarEntry, eqv]
  | hset a ms =>
    intro _ _ p
    simp only [diffBetween, clean_append, Bool.and_eq_true]
    constructor
    · simp only [clean, List.all_map, List.all_eq_true]
      intro k hk
      simp [hk]
    · have : ms.filter (fun k => !(ms.contains k)) = [] := by
        rw [List.filter_eq_nil_iff]
        intro k hk
        simp [hk]
      rw [this]
      rfl
  | hmap a es ih =>
    intro hw hk p
    obtain ⟨hd, hv⟩ := wf_map hw
    have hke := keyedEntries_mem (by simpa [keyed] using hk : keyedEntries c es = true)
    simp only [diffBetween, clean_append, Bool.and_eq_true]
    constructor
    · exact refl_dict s c p es es (fun kv h => lookup_of_mem hd kv h) (fun kv h q => ih kv h (hv kv h) (hke kv h) q)
    · have : es.filter (fun kv => !(hasKey es kv.1)) = [] := by
        rw [List.filter_eq_nil_iff]
        intro kv hkv
        simp [hasKey_of_mem hkv]
      simp [this]
  | hseq a xs ih =>
    intro hw hk p
    have hwx := wf_seq_mem hw
    obtain ⟨hid, hkx⟩ := keyed_seq hk
    have hc : ∀ x ∈ xs, ∀ q, clean (diffBetween s c q x x) = true := fun x hx q => ih x hx (hwx x hx) (hkx x hx) q
    have he : ∀ x ∈ xs, eqv x x = true := fun x hx => eqv_refl x (hwx x hx)
    simp only [diffBetween]
    cases hm : listMode c xs xs with
    | nothing => simp
    | posShallow => exact refl_shallow p xs 0 he
    | posDeep => exact refl_pos s c p xs 0 hc
    | value =>
      obtain ⟨h1, h2⟩ := refl_value s c p xs 0 he hc
      simp only [h2, mergeAdds]
      exact h1
    | key =>
      have hu : usesKeySync c xs = true := by simp [usesKeySync, hm]
      exact refl_key s c p false _ xs 0 (fun x hx => keyMatch_refl (hwx x hx) (hid hu x hx)) he hc
    | deep =>
      have hu : usesKeySync c xs = true := by simp [usesKeySync, hm]
      exact refl_key s c p true _ xs 0 (fun x hx => keyMatch_refl (hwx x hx) (hid hu x hx)) he hc

/-- **A document compared with itself shows no difference** — in every array mode and every
Array-of-Hashes mode, for the code as it is (`s = false`) and for the strict variant.
`wf`: mapping keys / set members are distinct (Python guarantees it).  `keyed c l`: under the
identity-key modes (`key`, `deep`) every record of a synchronised list carries the identity key
(no condition in the other modes; without it the code reports the key-less record as deleted and
added: finding C06-K2, witness below). -/
theorem diff_refl (s : Bool) (c : Cfg) (l : Node) (hw : wf l = true) (hk : keyed c l = true) :
    clean (diff s c l l) = true := refl_node s c l hw hk []

/-- in the modes without identity keys `keyed` holds for every document -/
theorem keyed_of_no_key_sync (c : Cfg) (h : c.aoh ≠ .key ∧ c.aoh ≠ .deep) : ∀ (l : Node), keyed c l = true := by
  intro l
  induction l using nodeInduct with
  | hscalar a v => rfl
  | hset a ms => rfl
  | hmap a es ih =>
    simp only [keyed]
    induction es with
    | nil => rfl
    | cons e es ihe =>
      obtain ⟨k, v⟩ := e
      simp only [keyedEntries, Bool.and_eq_true]
      exact ⟨ih (k, v) (List.mem_cons_self ..), ihe (fun kv hkv => ih kv (List.mem_cons_of_mem _ hkv))⟩
  | hseq a xs ih =>
    have hu : usesKeySync c xs = false := by
      obtain ⟨arr, aoh⟩ := c
      cases xs with
      | nil => rfl
      | cons x xs =>
        cases aoh <;> cases arr <;> cases hx : isMap x <;> simp_all [usesKeySync, listMode]
    simp only [keyed, hu, Bool.not_false, Bool.true_or, Bool.true_and]
    clear hu
    induction xs with
    | nil => rfl
    | cons x xs ihx =>
      simp only [keyedList, Bool.and_eq_true]
      exact ⟨ih x (List.mem_cons_self ..), ihx (fun y hy => ih y (List.mem_cons_of_mem _ hy))⟩

/-- the finding C06-K2 on the model: `[{a: 1}, {b: 2}]` compared with itself under `--aoh key` -/
example : clean (report ⟨.position, .key⟩
    (.seq none [.map none [(.str ['a'], .scalar none (.int 1))], .map none [(.str ['b'], .scalar none (.int 2))]])
    (.seq none [.map none [(.str ['a'], .scalar none (.int 1))], .map none [(.str ['b'], .scalar none (.int 2))]])) = false := by
  decide +kernel

example : keyed ⟨.position, .key⟩
    (.seq none [.map none [(.str ['a'], .scalar none (.int 1))], .map none [(.str ['a'], .scalar none (.int 2))]]) = true := by
  decide +kernel

/-! ## truthfulness under positional comparison -/

/-- An entry emitted while comparing `l` with `r` at path `p` is true of them: its path is `p ++ q`,
a SAME/CHANGE/DELETE entry carries what `l` holds at `q`, a SAME/CHANGE/ADD entry what `r` holds
at `q`, SAME values are equal and CHANGE values differ (Python `==`), the absent side is `None`. -/
inductive EntryOk (p : Addr) (l r : Node) : Entry → Prop
  | same (q : Addr) (a b : Node) : l.get? q = some a → r.get? q = some b → eqv a b = true →
      EntryOk p l r ⟨.same, p ++ q, some a, some b⟩
  | change (q : Addr) (a b : Node) : l.get? q = some a → r.get? q = some b → eqv a b = false →
      EntryOk p l r ⟨.change, p ++ q, some a, some b⟩
  | delete (q : Addr) (a : Node) : l.get? q = some a → EntryOk p l r ⟨.delete, p ++ q, some a, none⟩
  | add (q : Addr) (b : Node) : r.get? q = some b → EntryOk p l r ⟨.add, p ++ q, none, some b⟩

theorem get?_cons {n c : Node} {ref : Ref} {q : Addr} (h : n.child? ref = some c) :
    n.get? (ref :: q) = c.get? q := by
  simp [Node.get?, h]

theorem EntryOk.lift {p : Addr} {l r lc rc : Node} {ref : Ref} {e : Entry}
    (hl : l.child? ref = some lc) (hr : r.child? ref = some rc) (h : EntryOk (p ++ [ref]) lc rc e) :
    EntryOk p l r e := by
  cases h with
  | same q a b h1 h2 h3 =>
    have := EntryOk.same (p := p) (l := l) (r := r) (ref :: q) a b (by rw [get?_cons hl]; exact h1) (by rw [get?_cons hr]; exact h2) h3
    simpa using this
  | change q a b h1 h2 h3 =>
    have := EntryOk.change (p := p) (l := l) (r := r) (ref :: q) a b (by rw [get?_cons hl]; exact h1) (by rw [get?_cons hr]; exact h2) h3
    simpa using this
  | delete q a h1 =>
    have := EntryOk.delete (p := p) (l := l) (r := r) (ref :: q) a (by rw [get?_cons hl]; exact h1)
    simpa using this
  | add q b h2 =>
    have := EntryOk.add (p := p) (l := l) (r := r) (ref :: q) b (by rw [get?_cons hr]; exact h2)
    simpa using this

theorem EntryOk.del_child {p : Addr} {l r lc : Node} {ref : Ref} (hl : l.child? ref = some lc) :
    EntryOk p l r (mkDel (p ++ [ref]) lc) :=
  EntryOk.delete [ref] lc (by rw [get?_cons hl]; rfl)

theorem EntryOk.add_child {p : Addr} {l r rc : Node} {ref : Ref} (hr : r.child? ref = some rc) :
    EntryOk p l r (mkAdd (p ++ [ref]) rc) :=
  EntryOk.add [ref] rc (by rw [get?_cons hr]; rfl)

theorem EntryOk.del_self {p : Addr} {l r : Node} : EntryOk p l r (mkDel p l) := by
  unfold mkDel
  simpa using EntryOk.delete (p := p) (l := l) (r := r) [] l rfl

theorem EntryOk.add_self {p : Addr} {l r : Node} : EntryOk p l r (mkAdd p r) := by
  unfold mkAdd
  simpa using EntryOk.add (p := p) (l := l) (r := r) [] r rfl

theorem EntryOk.scalar_self {p : Addr} {l r : Node} : EntryOk p l r (scalarEntry p l r) := by
  unfold scalarEntry
  cases h : eqv l r with
  | true => simpa using EntryOk.same (p := p) (l := l) (r := r) [] l r rfl rfl h
  | false => simpa using EntryOk.change (p := p) (l := l) (r := r) [] l r rfl rfl h

theorem getElem?_pre (pre : List Node) (x : Node) (xs : List Node) : (pre ++ x :: xs)[pre.length]? = some x := by
  simp

theorem child_member {a : Option Str} {ms : List Key} {k : Key} (h : k ∈ ms) :
    (Node.set a ms).child? (.member k) = some (keyNode k) := by
  cases k <;> simp [Node.child?, h, keyNode, Key.toScalar]

theorem delSeq_ok (p : Addr) (a : Option Str) (r : Node) : ∀ (xs pre : List Node),
    ∀ e ∈ delSeq p pre.length xs, EntryOk p (.seq a (pre ++ xs)) r e := by
  intro xs
  induction xs with
  | nil => intro pre e h; simp [delSeq] at h
  | cons x xs ih =>
    intro pre e h
    simp only [delSeq, List.mem_cons] at h
    cases h with
    | inl h => rw [h]; exact EntryOk.del_child (by simp [Node.child?])
    | inr h =>
      have := ih (pre ++ [x]) e (by simpa using h)
      simpa using this

theorem addSeq_ok (p : Addr) (b : Option Str) (l : Node) : ∀ (ys pre : List Node),
    ∀ e ∈ addSeq p pre.length ys, EntryOk p l (.seq b (pre ++ ys)) e := by
  intro ys
  induction ys with
  | nil => intro pre e h; simp [addSeq] at h
  | cons y ys ih =>
    intro pre e h
    simp only [addSeq, List.mem_cons] at h
    cases h with
    | inl h => rw [h]; exact EntryOk.add_child (by simp [Node.child?])
    | inr h =>
      have := ih (pre ++ [y]) e (by simpa using h)
      simpa using this

theorem purge_ok (s : Bool) (p : Addr) (l r : Node) (hw : wf l = true) : ∀ e ∈ purge s p l, EntryOk p l r e := by
  intro e he
  unfold purge at he
  split at he
  · simp only [List.mem_singleton] at he; rw [he]; exact EntryOk.del_self
  · cases l with
    | scalar a v =>
      cases v <;> simp only [purgeCore, List.mem_singleton, List.not_mem_nil] at he <;> (rw [he]; exact EntryOk.del_self)
    | seq a xs => exact delSeq_ok p a r xs [] e (by simpa [purgeCore] using he)
    | map a es =>
      simp only [purgeCore, List.mem_map] at he
      obtain ⟨kv, hkv, rfl⟩ := he
      exact EntryOk.del_child (by simpa [Node.child?] using lookup_of_mem (wf_map hw).1 kv hkv)
    | set a ms =>
      simp only [purgeCore, List.mem_map] at he
      obtain ⟨k, hk, rfl⟩ := he
      exact EntryOk.del_child (child_member hk)

theorem addAll_ok (s : Bool) (p : Addr) (l r : Node) (hw : wf r = true) : ∀ e ∈ addAll s p r, EntryOk p l r e := by
  intro e he
  unfold addAll at he
  split at he
  · simp only [List.mem_singleton] at he; rw [he]; exact EntryOk.add_self
  · cases r with
    | scalar a v =>
      cases v <;> simp only [addAllCore, List.mem_singleton, List.not_mem_nil] at he <;> (rw [he]; exact EntryOk.add_self)
    | seq a xs => exact addSeq_ok p a l xs [] e (by simpa [addAllCore] using he)
    | map a es =>
      simp only [addAllCore, List.mem_map] at he
      obtain ⟨kv, hkv, rfl⟩ := he
      exact EntryOk.add_child (by simpa [Node.child?] using lookup_of_mem (wf_map hw).1 kv hkv)
    | set a ms =>
      simp only [addAllCore, List.mem_map] at he
      obtain ⟨k, hk, rfl⟩ := he
      exact EntryOk.add_child (child_member hk)

theorem clash_ok (s : Bool) (p : Addr) (l r : Node) (hl : wf l = true) (hr : wf r = true) :
    ∀ e ∈ purge s p l ++ addAll s p r, EntryOk p l r e := by
  intro e he
  rw [List.mem_append] at he
  cases he with
  | inl h => exact purge_ok s p l r hl e h
  | inr h => exact addAll_ok s p l r hr e h

theorem posShallow_nil_left (p : Addr) : ∀ (ys : List Node) (i : Nat), posShallow p i [] ys = addSeq p i ys := by
  intro ys
  induction ys with
  | nil => intro i; simp [posShallow, addSeq]
  | cons y ys ih => intro i; simp [posShallow, addSeq, ih]

theorem posShallow_nil_right (p : Addr) : ∀ (xs : List Node) (i : Nat), posShallow p i xs [] = delSeq p i xs := by
  intro xs
  induction xs with
  | nil => intro i; simp [posShallow, delSeq]
  | cons x xs ih => intro i; simp [posShallow, delSeq, ih]

theorem shallow_ok (p : Addr) (a b : Option Str) : ∀ (xs ys pre pre' : List Node), pre.length = pre'.length →
    ∀ e ∈ posShallow p pre.length xs ys, EntryOk p (.seq a (pre ++ xs)) (.seq b (pre' ++ ys)) e := by
  intro xs
  induction xs with
  | nil =>
    intro ys pre pre' hlen e h
    rw [posShallow_nil_left, hlen] at h
    exact addSeq_ok p b _ ys pre' e h
  | cons x xs ih =>
    intro ys pre pre' hlen e h
    cases ys with
    | nil =>
      rw [posShallow_nil_right] at h
      exact delSeq_ok p a _ (x :: xs) pre e h
    | cons y ys =>
      simp only [posShallow, List.mem_cons] at h
      cases h with
      | inl h =>
        rw [h]
        exact EntryOk.lift (lc := x) (rc := y) (by simp [Node.child?]) (by rw [hlen]; simp [Node.child?]) EntryOk.scalar_self
      | inr h =>
        have := ih ys (pre ++ [x]) (pre' ++ [y]) (by simp [hlen]) e (by simpa using h)
        simpa using this

theorem diffPos_nil_right (s : Bool) (c : Cfg) (p : Addr) : ∀ (xs : List Node) (i : Nat),
    diffPos s c p i xs [] = delSeq p i xs := by
  intro xs
  induction xs with
  | nil => intro i; simp [diffPos, delSeq, addSeq]
  | cons x xs ih => intro i; simp [diffPos, delSeq, ih]

theorem listMode_positional {c : Cfg} (hc : Positional c) (xs ys : List Node) :
    listMode c xs ys = .nothing ∨ listMode c xs ys = .posShallow ∨ listMode c xs ys = .posDeep := by
  obtain ⟨arr, aoh⟩ := c
  obtain ⟨h1, h2⟩ := hc
  simp only at h1 h2
  subst h1
  unfold listMode
  cases ys with
  | nil =>
    cases xs with
    | nil => simp
    | cons x xs => cases h2 <;> cases hx : isMap x <;> simp_all
  | cons y ys => cases h2 <;> cases hy : isMap y <;> simp_all

/-- the induction hypothesis handed to the list lemmas -/
def TruthfulAt (s : Bool) (c : Cfg) (x : Node) : Prop :=
  ∀ r q, wf x = true → wf r = true → ∀ e ∈ diffBetween s c q x r, EntryOk q x r e

theorem pos_ok (s : Bool) (c : Cfg) (p : Addr) (a b : Option Str) : ∀ (xs ys pre pre' : List Node),
    pre.length = pre'.length → (∀ x ∈ xs, TruthfulAt s c x) → (∀ x ∈ xs, wf x = true) → (∀ y ∈ ys, wf y = true) →
    ∀ e ∈ diffPos s c p pre.length xs ys, EntryOk p (.seq a (pre ++ xs)) (.seq b (pre' ++ ys)) e := by
  intro xs
  induction xs with
  | nil =>
    intro ys pre pre' hlen _ _ _ e h
    simp only [diffPos] at h
    rw [hlen] at h
    exact addSeq_ok p b _ ys pre' e h
  | cons x xs ih =>
    intro ys pre pre' hlen hih hwx hwy e h
    cases ys with
    | nil =>
      rw [diffPos_nil_right] at h
      exact delSeq_ok p a _ (x :: xs) pre e h
    | cons y ys =>
      simp only [diffPos, List.mem_append] at h
      cases h with
      | inl h =>
        exact EntryOk.lift (lc := x) (rc := y) (by simp [Node.child?]) (by rw [hlen]; simp [Node.child?])
          (hih x (List.mem_cons_self ..) y _ (hwx x (List.mem_cons_self ..)) (hwy y (List.mem_cons_self ..)) e h)
      | inr h =>
        have := ih ys (pre ++ [x]) (pre' ++ [y]) (by simp [hlen]) (fun z hz => hih z (List.mem_cons_of_mem _ hz))
          (fun z hz => hwx z (List.mem_cons_of_mem _ hz)) (fun z hz => hwy z (List.mem_cons_of_mem _ hz)) e (by simpa using h)
        simpa using this

theorem dict_ok (s : Bool) (c : Cfg) (p : Addr) (a b : Option Str) (es0 fs : List (Key × Node))
    (hwf : ∀ kv ∈ fs, wf kv.2 = true) : ∀ (es : List (Key × Node)),
    (∀ kv ∈ es, es0.lookup kv.1 = some kv.2) → (∀ kv ∈ es, TruthfulAt s c kv.2) → (∀ kv ∈ es, wf kv.2 = true) →
    ∀ e ∈ diffDict s c p es fs, EntryOk p (.map a es0) (.map b fs) e := by
  intro es
  induction es with
  | nil => intro _ _ _ e h; simp [diffDict] at h
  | cons kv es ih =>
    obtain ⟨k, v⟩ := kv
    intro hlk hih hw e h
    have hl := hlk (k, v) (List.mem_cons_self ..)
    simp only at hl
    simp only [diffDict, List.mem_append] at h
    cases h with
    | inl h =>
      cases hf : fs.lookup k with
      | some w =>
        rw [hf] at h
        exact EntryOk.lift (lc := v) (rc := w) (by simpa [Node.child?] using hl) (by simpa [Node.child?] using hf)
          (hih (k, v) (List.mem_cons_self ..) w _ (hw (k, v) (List.mem_cons_self ..)) (hwf (k, w) (mem_of_lookup hf)) e h)
      | none =>
        rw [hf] at h
        simp only [List.mem_singleton] at h
        rw [h]
        exact EntryOk.del_child (by simpa [Node.child?] using hl)
    | inr h =>
      exact ih (fun kv hkv => hlk kv (List.mem_cons_of_mem _ hkv)) (fun kv hkv => hih kv (List.mem_cons_of_mem _ hkv))
        (fun kv hkv => hw kv (List.mem_cons_of_mem _ hkv)) e h

theorem skey_eqv_keyNode (k : Key) : eqv (keyNode k) (keyNode k) = true := by simp [keyNode, eqv]

theorem truthful_node (s : Bool) (c : Cfg) (hc : Positional c) : ∀ (l : Node), TruthfulAt s c l := by
  intro l
  induction l using nodeInduct with
  | hscalar a v =>
    intro r q hl hr e he
    cases r with
    | scalar b w =>
      simp only [diffBetween, List.mem_singleton] at he
      rw [he]; exact EntryOk.scalar_self
    | seq b ys => simp only [diffBetween] at he; exact clash_ok s q _ _ hl hr e he
    | map b fs => simp only [diffBetween] at he; exact clash_ok s q _ _ hl hr e he
    | set b ns => simp only [diffBetween] at he; exact clash_ok s q _ _ hl hr e he
  | hset a ms =>
    intro r q hl hr e he
    cases r with
    | set b ns =>
      simp only [diffBetween, List.mem_append, List.mem_map, List.mem_filter] at he
      cases he with
      | inl h =>
        obtain ⟨k, hk, rfl⟩ := h
        cases hn : ns.contains k with
        | true =>
          rw [if_pos rfl]
          have hkn : k ∈ ns := by simpa using hn
          exact EntryOk.same [.member k] (keyNode k) (keyNode k) (by rw [get?_cons (child_member hk)]; rfl)
            (by rw [get?_cons (child_member hkn)]; rfl) (skey_eqv_keyNode k)
        | false =>
          rw [if_neg (by decide)]
          exact EntryOk.del_child (child_member hk)
      | inr h =>
        obtain ⟨k, ⟨hk, _⟩, rfl⟩ := h
        exact EntryOk.add_child (child_member hk)
    | scalar b w => simp only [diffBetween] at he; exact clash_ok s q _ _ hl hr e he
    | seq b ys => simp only [diffBetween] at he; exact clash_ok s q _ _ hl hr e he
    | map b fs => simp only [diffBetween] at he; exact clash_ok s q _ _ hl hr e he
  | hmap a es ih =>
    intro r q hl hr e he
    cases r with
    | map b fs =>
      obtain ⟨hd, hv⟩ := wf_map hl
      obtain ⟨hd', hv'⟩ := wf_map hr
      simp only [diffBetween, List.mem_append, List.mem_map, List.mem_filter] at he
      cases he with
      | inl h => exact dict_ok s c q a b es fs hv' es (fun kv hkv => lookup_of_mem hd kv hkv) ih hv e h
      | inr h =>
        obtain ⟨kv, ⟨hkv, _⟩, rfl⟩ := h
        exact EntryOk.add_child (by simpa [Node.child?] using lookup_of_mem hd' kv hkv)
    | scalar b w => simp only [diffBetween] at he; exact clash_ok s q _ _ hl hr e he
    | seq b ys => simp only [diffBetween] at he; exact clash_ok s q _ _ hl hr e he
    | set b ns => simp only [diffBetween] at he; exact clash_ok s q _ _ hl hr e he
  | hseq a xs ih =>
    intro r q hl hr e he
    cases r with
    | seq b ys =>
      simp only [diffBetween] at he
      rcases listMode_positional hc xs ys with hm | hm | hm
      · rw [hm] at he; simp at he
      · rw [hm] at he
        exact shallow_ok q a b xs ys [] [] rfl e he
      · rw [hm] at he
        exact pos_ok s c q a b xs ys [] [] rfl ih (wf_seq_mem hl) (wf_seq_mem hr) e he
    | scalar b w => simp only [diffBetween] at he; exact clash_ok s q _ _ hl hr e he
    | map b fs => simp only [diffBetween] at he; exact clash_ok s q _ _ hl hr e he
    | set b ns => simp only [diffBetween] at he; exact clash_ok s q _ _ hl hr e he

/-- **Under positional comparison every entry of a diff is true of the two documents.**
For every entry `e` of the report (`s = false`: the code; also for the strict variant):
a SAME/CHANGE/DELETE entry's left value is what the left document holds at `e.path`,
a SAME/CHANGE/ADD entry's right value is what the right document holds there, SAME values are
equal, CHANGE values differ, an ADD has no left and a DELETE no right value. -/
theorem diff_truthful (s : Bool) (c : Cfg) (hc : Positional c) (l r : Node)
    (hl : wf l = true) (hr : wf r = true) (e : Entry) (he : e ∈ diff s c l r) :
    (e.action ≠ .add → e.lhs.isSome ∧ e.lhs = l.get? e.path)
    ∧ (e.action ≠ .delete → e.rhs.isSome ∧ e.rhs = r.get? e.path)
    ∧ (e.action = .add → e.lhs = none) ∧ (e.action = .delete → e.rhs = none)
    ∧ (e.action = .same → ∃ a b, e.lhs = some a ∧ e.rhs = some b ∧ eqv a b = true)
    ∧ (e.action = .change → ∃ a b, e.lhs = some a ∧ e.rhs = some b ∧ eqv a b = false) := by
  have h := truthful_node s c hc l r [] hl hr e he
  cases h with
  | same q a b h1 h2 h3 => simp [h1, h2, h3]
  | change q a b h1 h2 h3 => simp [h1, h2, h3]
  | delete q a h1 => simp [h1]
  | add q b h2 => simp [h2]

example : Positional ⟨.position, .position⟩ := by decide

/-! ## clean ⇔ equal as data -/

theorem purge_strict_not_clean (q : Addr) (l : Node) (rest : List Entry) :
    clean (purge true q l ++ rest) = false := by
  cases l with
  | scalar a v => cases v <;> simp [purge, isVoid, purgeCore, mkDel]
  | seq a xs => cases xs <;> simp [purge, isVoid, purgeCore, delSeq, mkDel]
  | map a es => cases es <;> simp [purge, isVoid, purgeCore, mkDel]
  | set a ms => cases ms <;> simp [purge, isVoid, purgeCore, mkDel]

theorem clean_addSeq (q : Addr) : ∀ (ys : List Node) (i : Nat), clean (addSeq q i ys) = ys.isEmpty := by
  intro ys
  cases ys with
  | nil => intro i; rfl
  | cons y ys => intro i; simp [addSeq, mkAdd]

theorem clean_adds (q : Addr) (es : List (Key × Node)) : ∀ (fs : List (Key × Node)),
    clean ((fs.filter (fun kv => !(hasKey es kv.1))).map (fun kv => mkAdd (q ++ [.key kv.1]) kv.2))
      = fs.all (fun kv => hasKey es kv.1) := by
  intro fs
  induction fs with
  | nil => rfl
  | cons kv fs ih =>
    cases h : hasKey es kv.1 with
    | true => simp only [List.filter_cons, h, Bool.not_true, List.all_cons, Bool.true_and]; exact ih
    | false => simp [h, mkAdd]

theorem clean_set (q : Addr) (ms ns : List Key) :
    clean (ms.map (fun k => if ns.contains k then (⟨.same, q ++ [.member k], some (keyNode k), some (keyNode k)⟩ : Entry)
                     else mkDel (q ++ [.member k]) (keyNode k))
      ++ (ns.filter (fun k => !(ms.contains k))).map (fun k => mkAdd (q ++ [.member k]) (keyNode k)))
    = (ms.all (fun k => ns.contains k) && ns.all (fun k => ms.contains k)) := by
  rw [clean_append]
  congr 1
  · induction ms with
    | nil => rfl
    | cons k ms ih =>
      simp only [List.map_cons, clean_cons, List.all_cons, ih]
      cases h : ns.contains k <;> simp [mkDel]
  · generalize ms.contains = g
    induction ns with
    | nil => rfl
    | cons k ns ih =>
      cases h : g k with
      | true => simp only [List.filter_cons, h, Bool.not_true, List.all_cons, Bool.true_and]; exact ih
      | false => simp [h, mkAdd]

theorem ite_same (b : Bool) : ((if b = true then Action.same else Action.change) == Action.same) = b := by
  cases b <;> rfl

theorem clean_shallow (q : Addr) : ∀ (xs ys : List Node) (i : Nat), clean (posShallow q i xs ys) = eqvList xs ys := by
  intro xs
  induction xs with
  | nil => intro ys i; cases ys <;> simp [posShallow, eqvList, mkAdd]
  | cons x xs ih =>
    intro ys i
    cases ys with
    | nil => simp [posShallow, eqvList, mkDel]
    | cons y ys =>
      simp only [posShallow, clean_cons, eqvList, ih, scalarEntry]
      cases eqv x y <;> simp

/-- the induction hypothesis handed to the list lemmas -/
def CleanIffAt (c : Cfg) (x : Node) : Prop :=
  ∀ r q, wf x = true → wf r = true → clean (diffBetween true c q x r) = dataEq c x r

theorem clean_pos (c : Cfg) (q : Addr) : ∀ (xs ys : List Node) (i : Nat),
    (∀ x ∈ xs, CleanIffAt c x) → (∀ x ∈ xs, wf x = true) → (∀ y ∈ ys, wf y = true) →
    clean (diffPos true c q i xs ys) = dataEqPos c xs ys := by
  intro xs
  induction xs with
  | nil => intro ys i _ _ _; cases ys <;> simp [diffPos, dataEqPos, addSeq, mkAdd]
  | cons x xs ih =>
    intro ys i hih hwx hwy
    cases ys with
    | nil => simp [diffPos, dataEqPos, mkDel]
    | cons y ys =>
      simp only [diffPos, clean_append, dataEqPos]
      rw [hih x (List.mem_cons_self ..) y _ (hwx x (List.mem_cons_self ..)) (hwy y (List.mem_cons_self ..)),
        ih ys (i + 1) (fun z hz => hih z (List.mem_cons_of_mem _ hz)) (fun z hz => hwx z (List.mem_cons_of_mem _ hz))
          (fun z hz => hwy z (List.mem_cons_of_mem _ hz))]

theorem clean_dict (c : Cfg) (q : Addr) (fs : List (Key × Node)) (hwf : ∀ kv ∈ fs, wf kv.2 = true) :
    ∀ (es : List (Key × Node)), (∀ kv ∈ es, CleanIffAt c kv.2) → (∀ kv ∈ es, wf kv.2 = true) →
    clean (diffDict true c q es fs) = dataEqEntries c es fs := by
  intro es
  induction es with
  | nil => intro _ _; simp [diffDict, dataEqEntries]
  | cons kv es ih =>
    obtain ⟨k, v⟩ := kv
    intro hih hw
    simp only [diffDict, clean_append, dataEqEntries]
    rw [ih (fun kv hkv => hih kv (List.mem_cons_of_mem _ hkv)) (fun kv hkv => hw kv (List.mem_cons_of_mem _ hkv))]
    congr 1
    cases hf : fs.lookup k with
    | some w => exact hih (k, v) (List.mem_cons_self ..) w _ (hw (k, v) (List.mem_cons_self ..)) (hwf (k, w) (mem_of_lookup hf))
    | none => simp [mkDel]

theorem clean_iff_node (c : Cfg) (hc : Positional c) : ∀ (l : Node), CleanIffAt c l := by
  intro l
  induction l using nodeInduct with
  | hscalar a v =>
    intro r q hl hr
    cases r with
    | scalar b w =>
      simp only [diffBetween, dataEq, clean_cons, scalarEntry, eqv, clean_nil, Bool.and_true]
      exact ite_same _
    | seq b ys => simp only [diffBetween, dataEq]; exact purge_strict_not_clean ..
    | map b fs => simp only [diffBetween, dataEq]; exact purge_strict_not_clean ..
    | set b ns => simp only [diffBetween, dataEq]; exact purge_strict_not_clean ..
  | hset a ms =>
    intro r q hl hr
    cases r with
    | set b ns => simp only [diffBetween, dataEq]; exact clean_set q ms ns
    | scalar b w => simp only [diffBetween, dataEq]; exact purge_strict_not_clean ..
    | seq b ys => simp only [diffBetween, dataEq]; exact purge_strict_not_clean ..
    | map b fs => simp only [diffBetween, dataEq]; exact purge_strict_not_clean ..
  | hmap a es ih =>
    intro r q hl hr
    cases r with
    | map b fs =>
      simp only [diffBetween, dataEq, clean_append]
      rw [clean_dict c q fs (wf_map hr).2 es ih (wf_map hl).2, clean_adds]
    | scalar b w => simp only [diffBetween, dataEq]; exact purge_strict_not_clean ..
    | seq b ys => simp only [diffBetween, dataEq]; exact purge_strict_not_clean ..
    | set b ns => simp only [diffBetween, dataEq]; exact purge_strict_not_clean ..
  | hseq a xs ih =>
    intro r q hl hr
    cases r with
    | seq b ys =>
      simp only [diffBetween, dataEq]
      rcases listMode_positional hc xs ys with hm | hm | hm
      · rw [hm]; rfl
      · rw [hm]; exact clean_shallow q xs ys 0
      · rw [hm]; exact clean_pos c q xs ys 0 ih (wf_seq_mem hl) (wf_seq_mem hr)
    | scalar b w => simp only [diffBetween, dataEq]; exact purge_strict_not_clean ..
    | map b fs => simp only [diffBetween, dataEq]; exact purge_strict_not_clean ..
    | set b ns => simp only [diffBetween, dataEq]; exact purge_strict_not_clean ..

/-- finding C06-K1 on the model: `{}` against `[]` gives an empty (hence clean) report -/
example : clean (report ⟨.position, .position⟩ (.map none []) (.seq none [])) = true
    ∧ dataEq ⟨.position, .position⟩ (.map none []) (.seq none []) = false
    ∧ report ⟨.position, .position⟩ (.map none []) (.seq none []) ≠ diff true ⟨.position, .position⟩ (.map none []) (.seq none []) := by
  decide +kernel

/-- the hypothesis `report c l r = diff true c l r` of the `…_partial` theorems is met by documents with nulls and empty containers -/
example : report ⟨.position, .position⟩ (.seq none [.scalar none .null, .seq none []]) (.seq none [.scalar none .null, .seq none [], .map none []])
    = diff true ⟨.position, .position⟩ (.seq none [.scalar none .null, .seq none []]) (.seq none [.scalar none .null, .seq none [], .map none []]) := by
  decide +kernel

/-! ## completeness under positional comparison -/

/-- some entry about the left document sits at `a` or above it -/
def CoversL (rep : List Entry) (a : Addr) : Prop := ∃ e ∈ rep, e.action ≠ .add ∧ ∃ t, a = e.path ++ t
/-- some entry about the right document sits at `a` or above it -/
def CoversR (rep : List Entry) (a : Addr) : Prop := ∃ e ∈ rep, e.action ≠ .delete ∧ ∃ t, a = e.path ++ t

theorem CoversL.mono {rep rep' : List Entry} {a : Addr} (hs : ∀ e ∈ rep, e ∈ rep') (h : CoversL rep a) : CoversL rep' a := by
  obtain ⟨e, he, h1, h2⟩ := h; exact ⟨e, hs e he, h1, h2⟩
theorem CoversR.mono {rep rep' : List Entry} {a : Addr} (hs : ∀ e ∈ rep, e ∈ rep') (h : CoversR rep a) : CoversR rep' a := by
  obtain ⟨e, he, h1, h2⟩ := h; exact ⟨e, hs e he, h1, h2⟩

theorem mem_leavesMap : ∀ {es : List (Key × Node)} {a : Addr}, a ∈ leavesMap es →
    ∃ kv ∈ es, ∃ a' ∈ leaves kv.2, a = .key kv.1 :: a' := by
  intro es
  induction es with
  | nil => intro a h; simp [leavesMap] at h
  | cons kv es ih =>
    obtain ⟨k, v⟩ := kv
    intro a h
    simp only [leavesMap, List.mem_append, List.mem_map] at h
    cases h with
    | inl h => obtain ⟨a', ha', rfl⟩ := h; exact ⟨(k, v), List.mem_cons_self .., a', ha', rfl⟩
    | inr h => obtain ⟨kv, hkv, r⟩ := ih h; exact ⟨kv, List.mem_cons_of_mem _ hkv, r⟩

theorem delSeq_covers (q : Addr) : ∀ (xs : List Node) (i : Nat), ∀ a ∈ leavesSeq i xs, CoversL (delSeq q i xs) (q ++ a) := by
  intro xs
  induction xs with
  | nil => intro i a h; simp [leavesSeq] at h
  | cons x xs ih =>
    intro i a h
    simp only [leavesSeq, List.mem_append, List.mem_map] at h
    cases h with
    | inl h =>
      obtain ⟨a', _, rfl⟩ := h
      exact ⟨mkDel (q ++ [.idx i]) x, by simp [delSeq], by simp [mkDel], a', by simp [mkDel]⟩
    | inr h => exact (ih (i + 1) a h).mono (fun e he => by simp [delSeq, he])

theorem addSeq_covers (q : Addr) : ∀ (ys : List Node) (i : Nat), ∀ a ∈ leavesSeq i ys, CoversR (addSeq q i ys) (q ++ a) := by
  intro ys
  induction ys with
  | nil => intro i a h; simp [leavesSeq] at h
  | cons y ys ih =>
    intro i a h
    simp only [leavesSeq, List.mem_append, List.mem_map] at h
    cases h with
    | inl h =>
      obtain ⟨a', _, rfl⟩ := h
      exact ⟨mkAdd (q ++ [.idx i]) y, by simp [addSeq], by simp [mkAdd], a', by simp [mkAdd]⟩
    | inr h => exact (ih (i + 1) a h).mono (fun e he => by simp [addSeq, he])

theorem purge_covers (q : Addr) (l : Node) : ∀ a ∈ leaves l, CoversL (purge true q l) (q ++ a) := by
  intro a ha
  cases l with
  | scalar b v =>
    simp only [leaves, List.mem_singleton] at ha
    subst ha
    refine ⟨mkDel q (.scalar b v), ?_, by simp [mkDel], [], by simp [mkDel]⟩
    cases v <;> simp [purge, isVoid, purgeCore]
  | seq b xs =>
    cases xs with
    | nil => simp [leaves, leavesSeq] at ha
    | cons x xs =>
      have : purge true q (.seq b (x :: xs)) = delSeq q 0 (x :: xs) := by simp [purge, isVoid, purgeCore]
      rw [this]
      exact delSeq_covers q (x :: xs) 0 a (by simpa [leaves] using ha)
  | map b es =>
    cases es with
    | nil => simp [leaves, leavesMap] at ha
    | cons kv es =>
      have : purge true q (.map b (kv :: es)) = (kv :: es).map (fun kv => mkDel (q ++ [.key kv.1]) kv.2) := by
        simp [purge, isVoid, purgeCore]
      rw [this]
      obtain ⟨kv', hkv, a', _, rfl⟩ := mem_leavesMap (by simpa [leaves] using ha)
      exact ⟨mkDel (q ++ [.key kv'.1]) kv'.2, List.mem_map.mpr ⟨kv', hkv, rfl⟩, by simp [mkDel], a', by simp [mkDel]⟩
  | set b ms =>
    cases ms with
    | nil => simp [leaves] at ha
    | cons m ms =>
      have : purge true q (.set b (m :: ms)) = (m :: ms).map (fun k => mkDel (q ++ [.member k]) (keyNode k)) := by
        simp [purge, isVoid, purgeCore]
      rw [this]
      simp only [leaves, List.mem_map] at ha
      obtain ⟨k, hk, rfl⟩ := ha
      exact ⟨mkDel (q ++ [.member k]) (keyNode k), List.mem_map.mpr ⟨k, hk, rfl⟩, by simp [mkDel], [], by simp [mkDel]⟩

theorem addAll_covers (q : Addr) (r : Node) : ∀ a ∈ leaves r, CoversR (addAll true q r) (q ++ a) := by
  intro a ha
  cases r with
  | scalar b v =>
    simp only [leaves, List.mem_singleton] at ha
    subst ha
    refine ⟨mkAdd q (.scalar b v), ?_, by simp [mkAdd], [], by simp [mkAdd]⟩
    cases v <;> simp [addAll, isVoid, addAllCore]
  | seq b xs =>
    cases xs with
    | nil => simp [leaves, leavesSeq] at ha
    | cons x xs =>
      have : addAll true q (.seq b (x :: xs)) = addSeq q 0 (x :: xs) := by simp [addAll, isVoid, addAllCore]
      rw [this]
      exact addSeq_covers q (x :: xs) 0 a (by simpa [leaves] using ha)
  | map b es =>
    cases es with
    | nil => simp [leaves, leavesMap] at ha
    | cons kv es =>
      have : addAll true q (.map b (kv :: es)) = (kv :: es).map (fun kv => mkAdd (q ++ [.key kv.1]) kv.2) := by
        simp [addAll, isVoid, addAllCore]
      rw [this]
      obtain ⟨kv', hkv, a', _, rfl⟩ := mem_leavesMap (by simpa [leaves] using ha)
      exact ⟨mkAdd (q ++ [.key kv'.1]) kv'.2, List.mem_map.mpr ⟨kv', hkv, rfl⟩, by simp [mkAdd], a', by simp [mkAdd]⟩
  | set b ms =>
    cases ms with
    | nil => simp [leaves] at ha
    | cons m ms =>
      have : addAll true q (.set b (m :: ms)) = (m :: ms).map (fun k => mkAdd (q ++ [.member k]) (keyNode k)) := by
        simp [addAll, isVoid, addAllCore]
      rw [this]
      simp only [leaves, List.mem_map] at ha
      obtain ⟨k, hk, rfl⟩ := ha
      exact ⟨mkAdd (q ++ [.member k]) (keyNode k), List.mem_map.mpr ⟨k, hk, rfl⟩, by simp [mkAdd], [], by simp [mkAdd]⟩

theorem clash_covers (q : Addr) (l r : Node) :
    (∀ a ∈ leaves l, CoversL (purge true q l ++ addAll true q r) (q ++ a))
    ∧ (∀ a ∈ leaves r, CoversR (purge true q l ++ addAll true q r) (q ++ a)) :=
  ⟨fun a ha => (purge_covers q l a ha).mono (fun _ he => List.mem_append_left _ he),
   fun a ha => (addAll_covers q r a ha).mono (fun _ he => List.mem_append_right _ he)⟩

theorem scalarEntry_covers (q : Addr) (x y : Node) (a : Addr) :
    CoversL [scalarEntry q x y] (q ++ a) ∧ CoversR [scalarEntry q x y] (q ++ a) := by
  have h1 : (scalarEntry q x y).action ≠ .add := by unfold scalarEntry; cases eqv x y <;> simp
  have h2 : (scalarEntry q x y).action ≠ .delete := by unfold scalarEntry; cases eqv x y <;> simp
  exact ⟨⟨_, List.mem_singleton.mpr rfl, h1, a, by simp [scalarEntry]⟩, ⟨_, List.mem_singleton.mpr rfl, h2, a, by simp [scalarEntry]⟩⟩

theorem shallow_covers (q : Addr) : ∀ (xs ys : List Node) (i : Nat),
    (∀ a ∈ leavesSeq i xs, CoversL (posShallow q i xs ys) (q ++ a))
    ∧ (∀ a ∈ leavesSeq i ys, CoversR (posShallow q i xs ys) (q ++ a)) := by
  intro xs
  induction xs with
  | nil =>
    intro ys i
    rw [posShallow_nil_left]
    exact ⟨fun a h => by simp [leavesSeq] at h, addSeq_covers q ys i⟩
  | cons x xs ih =>
    intro ys i
    cases ys with
    | nil =>
      rw [posShallow_nil_right]
      exact ⟨delSeq_covers q (x :: xs) i, fun a h => by simp [leavesSeq] at h⟩
    | cons y ys =>
      obtain ⟨ihl, ihr⟩ := ih ys (i + 1)
      simp only [posShallow, leavesSeq, List.mem_append, List.mem_map]
      constructor
      · intro a h
        cases h with
        | inl h =>
          obtain ⟨a', _, rfl⟩ := h
          have := (scalarEntry_covers (q ++ [.idx i]) x y a').1
          exact (by simpa using this : CoversL [scalarEntry (q ++ [.idx i]) x y] (q ++ Ref.idx i :: a')).mono (fun e he => by simp_all)
        | inr h => exact (ihl a h).mono (fun e he => List.mem_cons_of_mem _ he)
      · intro a h
        cases h with
        | inl h =>
          obtain ⟨a', _, rfl⟩ := h
          have := (scalarEntry_covers (q ++ [.idx i]) x y a').2
          exact (by simpa using this : CoversR [scalarEntry (q ++ [.idx i]) x y] (q ++ Ref.idx i :: a')).mono (fun e he => by simp_all)
        | inr h => exact (ihr a h).mono (fun e he => List.mem_cons_of_mem _ he)

/-- the induction hypothesis handed to the list lemmas -/
def CompleteAt (c : Cfg) (x : Node) : Prop :=
  ∀ r q, wf x = true → wf r = true →
    (∀ a ∈ leaves x, CoversL (diffBetween true c q x r) (q ++ a)) ∧ (∀ a ∈ leaves r, CoversR (diffBetween true c q x r) (q ++ a))

theorem pos_covers (c : Cfg) (q : Addr) : ∀ (xs ys : List Node) (i : Nat),
    (∀ x ∈ xs, CompleteAt c x) → (∀ x ∈ xs, wf x = true) → (∀ y ∈ ys, wf y = true) →
    (∀ a ∈ leavesSeq i xs, CoversL (diffPos true c q i xs ys) (q ++ a))
    ∧ (∀ a ∈ leavesSeq i ys, CoversR (diffPos true c q i xs ys) (q ++ a)) := by
  intro xs
  induction xs with
  | nil =>
    intro ys i _ _ _
    simp only [diffPos]
    exact ⟨fun a h => by simp [leavesSeq] at h, addSeq_covers q ys i⟩
  | cons x xs ih =>
    intro ys i hih hwx hwy
    cases ys with
    | nil =>
      rw [diffPos_nil_right]
      exact ⟨delSeq_covers q (x :: xs) i, fun a h => by simp [leavesSeq] at h⟩
    | cons y ys =>
      obtain ⟨ihl, ihr⟩ := ih ys (i + 1) (fun z hz => hih z (List.mem_cons_of_mem _ hz))
        (fun z hz => hwx z (List.mem_cons_of_mem _ hz)) (fun z hz => hwy z (List.mem_cons_of_mem _ hz))
      obtain ⟨hl, hr⟩ := hih x (List.mem_cons_self ..) y (q ++ [.idx i]) (hwx x (List.mem_cons_self ..)) (hwy y (List.mem_cons_self ..))
      simp only [diffPos, leavesSeq, List.mem_append, List.mem_map]
      constructor
      · intro a h
        cases h with
        | inl h =>
          obtain ⟨a', ha', rfl⟩ := h
          have := hl a' ha'
          exact (by simpa using this : CoversL _ (q ++ Ref.idx i :: a')).mono (fun e he => List.mem_append_left _ he)
        | inr h => exact (ihl a h).mono (fun e he => List.mem_append_right _ he)
      · intro a h
        cases h with
        | inl h =>
          obtain ⟨a', ha', rfl⟩ := h
          have := hr a' ha'
          exact (by simpa using this : CoversR _ (q ++ Ref.idx i :: a')).mono (fun e he => List.mem_append_left _ he)
        | inr h => exact (ihr a h).mono (fun e he => List.mem_append_right _ he)

theorem dict_sub (c : Cfg) (q : Addr) (fs : List (Key × Node)) : ∀ (es : List (Key × Node)) (k : Key) (v : Node),
    (k, v) ∈ es → ∀ e ∈ (match fs.lookup k with
      | some w => diffBetween true c (q ++ [Ref.key k]) v w
      | none => [mkDel (q ++ [Ref.key k]) v]), e ∈ diffDict true c q es fs := by
  intro es
  induction es with
  | nil => intro k v h; cases h
  | cons kv es ih =>
    obtain ⟨k0, v0⟩ := kv
    intro k v h e he
    simp only [diffDict, List.mem_append]
    cases h with
    | head => exact Or.inl he
    | tail _ h' => exact Or.inr (ih k v h' e he)

theorem mem_of_hasKey {es : List (Key × Node)} {k : Key} (h : hasKey es k = true) : ∃ v, (k, v) ∈ es := by
  simp only [hasKey, List.any_eq_true] at h
  obtain ⟨kv, hkv, hk⟩ := h
  have : kv.1 = k := by simpa using hk
  exact ⟨kv.2, by rw [← this]; exact hkv⟩

theorem complete_node (c : Cfg) (hc : Positional c) : ∀ (l : Node), CompleteAt c l := by
  intro l
  induction l using nodeInduct with
  | hscalar a v =>
    intro r q hl hr
    cases r with
    | scalar b w =>
      simp only [diffBetween, leaves, List.mem_singleton]
      exact ⟨fun x hx => by subst hx; exact (scalarEntry_covers q _ _ []).1, fun x hx => by subst hx; exact (scalarEntry_covers q _ _ []).2⟩
    | seq b ys => simp only [diffBetween]; exact clash_covers q _ _
    | map b fs => simp only [diffBetween]; exact clash_covers q _ _
    | set b ns => simp only [diffBetween]; exact clash_covers q _ _
  | hset a ms =>
    intro r q hl hr
    cases r with
    | set b ns =>
      simp only [diffBetween, leaves, List.mem_map]
      constructor
      · intro x hx
        obtain ⟨k, hk, rfl⟩ := hx
        refine ⟨_, List.mem_append_left _ (List.mem_map.mpr ⟨k, hk, rfl⟩), ?_, [], ?_⟩
        · cases ns.contains k <;> simp [mkDel]
        · cases ns.contains k <;> simp [mkDel]
      · intro x hx
        obtain ⟨k, hk, rfl⟩ := hx
        cases hm : ms.contains k with
        | true =>
          have hkm : k ∈ ms := by simpa using hm
          have hkn : ns.contains k = true := by simpa using hk
          refine ⟨_, List.mem_append_left _ (List.mem_map.mpr ⟨k, hkm, rfl⟩), ?_, [], ?_⟩ <;> simp [hk]
        | false =>
          have hkm : ¬ k ∈ ms := by intro h; have : ms.contains k = true := by simpa using h
                                    rw [hm] at this; cases this
          refine ⟨mkAdd (q ++ [.member k]) (keyNode k), List.mem_append_right _ (List.mem_map.mpr ⟨k, ?_, rfl⟩), by simp [mkAdd], [], by simp [mkAdd]⟩
          simp [List.mem_filter, hk, hkm]
    | scalar b w => simp only [diffBetween]; exact clash_covers q _ _
    | seq b ys => simp only [diffBetween]; exact clash_covers q _ _
    | map b fs => simp only [diffBetween]; exact clash_covers q _ _
  | hmap a es ih =>
    intro r q hl hr
    cases r with
    | map b fs =>
      obtain ⟨hd, hv⟩ := wf_map hl
      obtain ⟨hd', hv'⟩ := wf_map hr
      simp only [diffBetween, leaves]
      constructor
      · intro x hx
        obtain ⟨kv, hkv, a', ha', rfl⟩ := mem_leavesMap hx
        have hsub := dict_sub c q fs es kv.1 kv.2 hkv
        cases hf : fs.lookup kv.1 with
        | some w =>
          rw [hf] at hsub
          have := (ih kv hkv w (q ++ [.key kv.1]) (hv kv hkv) (hv' (kv.1, w) (mem_of_lookup hf))).1 a' ha'
          exact (by simpa using this : CoversL _ (q ++ Ref.key kv.1 :: a')).mono (fun e he => List.mem_append_left _ (hsub e he))
        | none =>
          rw [hf] at hsub
          exact ⟨mkDel (q ++ [.key kv.1]) kv.2, List.mem_append_left _ (hsub _ (List.mem_singleton.mpr rfl)), by simp [mkDel], a', by simp [mkDel]⟩
      · intro x hx
        obtain ⟨kw, hkw, a', ha', rfl⟩ := mem_leavesMap hx
        cases hh : hasKey es kw.1 with
        | true =>
          obtain ⟨v, hkv⟩ := mem_of_hasKey hh
          have hsub := dict_sub c q fs es kw.1 v hkv
          rw [lookup_of_mem hd' kw hkw] at hsub
          have := (ih (kw.1, v) hkv kw.2 (q ++ [.key kw.1]) (hv (kw.1, v) hkv) (hv' kw hkw)).2 a' ha'
          exact (by simpa using this : CoversR _ (q ++ Ref.key kw.1 :: a')).mono (fun e he => List.mem_append_left _ (hsub e he))
        | false =>
          refine ⟨mkAdd (q ++ [.key kw.1]) kw.2, List.mem_append_right _ (List.mem_map.mpr ⟨kw, ?_, rfl⟩), by simp [mkAdd], a', by simp [mkAdd]⟩
          simp [List.mem_filter, hkw, hh]
    | scalar b w => simp only [diffBetween]; exact clash_covers q _ _
    | seq b ys => simp only [diffBetween]; exact clash_covers q _ _
    | set b ns => simp only [diffBetween]; exact clash_covers q _ _
  | hseq a xs ih =>
    intro r q hl hr
    cases r with
    | seq b ys =>
      simp only [diffBetween, leaves]
      rcases listMode_positional hc xs ys with hm | hm | hm
      · rw [hm]
        have hx : xs = [] ∧ ys = [] := by
          unfold listMode at hm
          cases ys with
          | nil =>
            cases xs with
            | nil => exact ⟨rfl, rfl⟩
            | cons x xs => simp only at hm; split at hm <;> (try split at hm) <;> (try split at hm) <;> simp at hm
          | cons y ys => simp only at hm; split at hm <;> (try split at hm) <;> (try split at hm) <;> simp at hm
        rw [hx.1, hx.2]
        exact ⟨fun a h => by simp [leavesSeq] at h, fun a h => by simp [leavesSeq] at h⟩
      · rw [hm]; exact shallow_covers q xs ys 0
      · rw [hm]; exact pos_covers c q xs ys 0 ih (wf_seq_mem hl) (wf_seq_mem hr)
    | scalar b w => simp only [diffBetween]; exact clash_covers q _ _
    | map b fs => simp only [diffBetween]; exact clash_covers q _ _
    | set b ns => simp only [diffBetween]; exact clash_covers q _ _

/-- **Under positional comparison every leaf of either document is covered by an entry at its
path or at an ancestor path** — a left leaf by a SAME/CHANGE/DELETE entry, a right leaf by a
SAME/CHANGE/ADD entry — in the strict report. -/
theorem diff_complete_strict (c : Cfg) (hc : Positional c) (l r : Node) (hl : wf l = true) (hr : wf r = true) :
    (∀ a ∈ leaves l, ∃ e ∈ diff true c l r, e.action ≠ .add ∧ covers e.path a)
    ∧ (∀ a ∈ leaves r, ∃ e ∈ diff true c l r, e.action ≠ .delete ∧ covers e.path a) := by
  obtain ⟨h1, h2⟩ := complete_node c hc l r [] hl hr
  exact ⟨fun a ha => by simpa [CoversL, covers, diff] using h1 a ha, fun a ha => by simpa [CoversR, covers, diff] using h2 a ha⟩

/-- (`_partial`: the class of finding C06-K1 is excluded by the decidable hypothesis `hv`; the full
statement — without `hv` — is false for the code, witness below, and is `diff_complete_strict` for
the strict variant.)
**Completeness of the code's report**, on every pair of documents outside the class of finding
C06-K1 (`report c l r = diff true c l r`, decidable). -/
theorem diff_complete_partial (c : Cfg) (hc : Positional c) (l r : Node) (hl : wf l = true) (hr : wf r = true)
    (hv : report c l r = diff true c l r) :
    (∀ a ∈ leaves l, ∃ e ∈ report c l r, e.action ≠ .add ∧ covers e.path a)
    ∧ (∀ a ∈ leaves r, ∃ e ∈ report c l r, e.action ≠ .delete ∧ covers e.path a) := by
  rw [hv]; exact diff_complete_strict c hc l r hl hr

/-- finding C06-K1 on the model: `null` against `[1]` — the left leaf (the root) has no entry -/
example : report ⟨.position, .position⟩ (.scalar none .null) (.seq none [.scalar none (.int 1)])
    = [mkAdd [.idx 0] (.scalar none (.int 1))] := by decide +kernel

/-! ## documents that are equal under Python `==` give a clean report (no identity-key modes) -/

theorem listMode_nokey {c : Cfg} (hc : NoKeySync c) (xs ys : List Node) :
    listMode c xs ys = .nothing ∨ listMode c xs ys = .posShallow ∨ listMode c xs ys = .posDeep ∨ listMode c xs ys = .value := by
  obtain ⟨arr, aoh⟩ := c
  obtain ⟨h1, h2⟩ := hc
  simp only at h1 h2
  unfold listMode
  cases ys with
  | nil =>
    cases xs with
    | nil => simp
    | cons x xs => cases aoh <;> cases arr <;> cases hx : isMap x <;> simp_all
  | cons y ys => cases aoh <;> cases arr <;> cases hy : isMap y <;> simp_all

theorem clean_flatMap {α : Type} (f : α → List Entry) : ∀ (ps : List α),
    clean (ps.flatMap f) = ps.all (fun p => clean (f p)) := by
  intro ps
  induction ps with
  | nil => rfl
  | cons p ps ih => simp [List.flatMap_cons, ih]

/-- the induction hypothesis handed to the list lemmas -/
def CleanOfEqvAt (s : Bool) (c : Cfg) (x : Node) : Prop :=
  ∀ y q, wf x = true → wf y = true → eqv y x = true → clean (diffBetween s c q x y) = true

theorem eqvClean_pos (s : Bool) (c : Cfg) (q : Addr) : ∀ (xs ys : List Node) (i : Nat),
    (∀ x ∈ xs, CleanOfEqvAt s c x) → (∀ x ∈ xs, wf x = true) → (∀ y ∈ ys, wf y = true) →
    eqvList ys xs = true → clean (diffPos s c q i xs ys) = true := by
  intro xs
  induction xs with
  | nil => intro ys i _ _ _ h; cases ys <;> simp_all [eqvList, diffPos, addSeq]
  | cons x xs ih =>
    intro ys i hih hwx hwy h
    cases ys with
    | nil => simp [eqvList] at h
    | cons y ys =>
      simp only [eqvList, Bool.and_eq_true] at h
      simp only [diffPos, clean_append, Bool.and_eq_true]
      exact ⟨hih x (List.mem_cons_self ..) y _ (hwx x (List.mem_cons_self ..)) (hwy y (List.mem_cons_self ..)) h.1,
        ih ys (i + 1) (fun u hu => hih u (List.mem_cons_of_mem _ hu)) (fun u hu => hwx u (List.mem_cons_of_mem _ hu))
          (fun u hu => hwy u (List.mem_cons_of_mem _ hu)) h.2⟩

theorem eqvClean_value (s : Bool) (c : Cfg) (q : Addr) (xs ys : List Node)
    (hih : ∀ x ∈ xs, CleanOfEqvAt s c x) (hwx : ∀ x ∈ xs, wf x = true) (hwy : ∀ y ∈ ys, wf y = true)
    (hb : Balanced xs ys) :
    clean (diffValue s c q 0 xs (enumFrom 0 ys)).1 = true ∧ (diffValue s c q 0 xs (enumFrom 0 ys)).2 = [] := by
  obtain ⟨h1, h2⟩ := value_report_follows_sync s c q xs 0 (enumFrom 0 ys)
  have hwr : ∀ y ∈ enumFrom 0 ys, wf y.2 = true := fun y hy => hwy y.2 (mem_enumFrom hy)
  have hall := syncLoop_balanced xs 0 (enumFrom 0 ys) hwx hwr (by rw [enumFrom_snd]; exact hb)
  constructor
  · rw [h1, clean_flatMap, List.all_eq_true]
    intro p hp
    obtain ⟨a, b, rfl, ha, hbm, he⟩ := hall p hp
    simp only [valuePairEntries]
    exact hih a.2 ha b.2 _ (hwx a.2 ha) (hwr b hbm) he
  · rw [h2, List.filterMap_eq_nil_iff]
    intro p hp
    obtain ⟨a, b, rfl, _, _, _⟩ := hall p hp
    rfl

theorem eqvClean_shallow (q : Addr) : ∀ (xs ys : List Node) (i : Nat),
    (∀ x ∈ xs, wf x = true) → (∀ y ∈ ys, wf y = true) → eqvList ys xs = true → clean (posShallow q i xs ys) = true := by
  intro xs ys i hwx hwy h
  rw [clean_shallow]
  have hsymm : ∀ (ys xs : List Node), (∀ y ∈ ys, wf y = true) → (∀ x ∈ xs, wf x = true) → eqvList ys xs = true → eqvList xs ys = true :=
    fun ys xs hy hx h => eqvList_symm ys xs (fun y _ r h1 h2 h3 => eqv_symm y r h1 h2 h3) hy hx h
  exact hsymm ys xs hwy hwx h

theorem eqvClean_dict (s : Bool) (c : Cfg) (q : Addr) (fs : List (Key × Node)) :
    ∀ (es : List (Key × Node)),
    (∀ kv ∈ es, ∃ w, fs.lookup kv.1 = some w ∧ wf w = true ∧ eqv w kv.2 = true) →
    (∀ kv ∈ es, CleanOfEqvAt s c kv.2) → (∀ kv ∈ es, wf kv.2 = true) →
    clean (diffDict s c q es fs) = true := by
  intro es
  induction es with
  | nil => intro _ _ _; simp [diffDict]
  | cons e es ih =>
    obtain ⟨k, v⟩ := e
    intro hl hih hw
    obtain ⟨w, hw1, hw2, hw3⟩ := hl (k, v) (List.mem_cons_self ..)
    simp only at hw1 hw3
    simp only [diffDict, hw1, clean_append, Bool.and_eq_true]
    exact ⟨hih (k, v) (List.mem_cons_self ..) w _ (hw (k, v) (List.mem_cons_self ..)) hw2 hw3,
      ih (fun kv h => hl kv (List.mem_cons_of_mem _ h)) (fun kv h => hih kv (List.mem_cons_of_mem _ h))
        (fun kv h => hw kv (List.mem_cons_of_mem _ h))⟩

theorem clean_of_eqv_node (s : Bool) (c : Cfg) (hc : NoKeySync c) : ∀ (x : Node), CleanOfEqvAt s c x := by
  intro x
  induction x using nodeInduct with
  | hscalar a v =>
    intro y q hx hy h
    cases y with
    | scalar b w =>
      have := eqv_symm _ _ hy hx h
      simp [diffBetween, scalarEntry, this]
    | seq b ys => simp [eqv] at h
    | map b fs => simp [eqv] at h
    | set b ns => simp [eqv] at h
  | hset a ms =>
    intro y q hx hy h
    cases y with
    | set b ns =>
      simp only [diffBetween]
      rw [clean_set]
      simp only [eqv, Bool.and_eq_true] at h ⊢
      exact ⟨h.2, h.1⟩
    | scalar b w => simp [eqv] at h
    | seq b ys => simp [eqv] at h
    | map b fs => simp [eqv] at h
  | hmap a es ih =>
    intro y q hx hy h
    cases y with
    | map b fs =>
      obtain ⟨hd, hv⟩ := wf_map hx
      obtain ⟨hd', hv'⟩ := wf_map hy
      simp only [eqv, Bool.and_eq_true, List.all_eq_true] at h
      obtain ⟨h1, h2⟩ := h
      rw [eqvEntries_iff] at h1
      simp only [diffBetween, clean_append, Bool.and_eq_true]
      constructor
      · refine eqvClean_dict s c q fs es ?_ ih hv
        intro kv hkv
        obtain ⟨w, hkw⟩ := mem_of_hasKey' (h2 kv hkv)
        obtain ⟨v', hv1, hv2⟩ := h1 (kv.1, w) hkw
        have : v' = kv.2 := by
          have := lookup_of_mem hd kv hkv
          simp only at hv1
          rw [hv1] at this; exact Option.some.inj this
        subst this
        exact ⟨w, lookup_of_mem hd' (kv.1, w) hkw, hv' _ hkw, hv2⟩
      · rw [clean_adds, List.all_eq_true]
        intro kw hkw
        obtain ⟨v, hv1, _⟩ := h1 kw hkw
        exact hasKey_of_lookup hv1
    | scalar b w => simp [eqv] at h
    | seq b ys => simp [eqv] at h
    | set b ns => simp [eqv] at h
  | hseq a xs ih =>
    intro y q hx hy h
    cases y with
    | seq b ys =>
      have hwx := wf_seq_mem hx
      have hwy := wf_seq_mem hy
      simp only [eqv] at h
      simp only [diffBetween]
      rcases listMode_nokey hc xs ys with hm | hm | hm | hm
      · rw [hm]; rfl
      · rw [hm]; exact eqvClean_shallow q xs ys 0 hwx hwy h
      · rw [hm]; exact eqvClean_pos s c q xs ys 0 ih hwx hwy h
      · rw [hm]
        obtain ⟨h1, h2⟩ := eqvClean_value s c q xs ys ih hwx hwy (balanced_of_eqvList xs ys hwx hwy h)
        simp only [h2, mergeAdds]
        exact h1
    | scalar b w => simp [eqv] at h
    | map b fs => simp [eqv] at h
    | set b ns => simp [eqv] at h

/-- **Documents that are equal under Python `==` give a clean report** in every array mode and the
AoH modes `position`, `dpos`, `value` (for the code and for the strict variant): under value
synchronisation the greedy first-match pairing leaves no element unpaired, because `==` is an
equivalence on well-formed documents (`eqv_symm`, `eqv_trans`, `syncLoop_balanced`). -/
theorem diff_clean_of_eqv (s : Bool) (c : Cfg) (hc : NoKeySync c) (l r : Node)
    (hl : wf l = true) (hr : wf r = true) (h : eqv r l = true) : clean (diff s c l r) = true :=
  clean_of_eqv_node s c hc l r [] hl hr h

/-! ## clean ⇔ equal as data under value synchronisation -/

theorem removeFirstNode_map (f : Node → Bool) : ∀ (rem : List (Nat × Node)),
    removeFirstNode f (rem.map (fun p => p.2)) = (removeFirst f rem).map (fun r => r.2.map (fun p => p.2)) := by
  intro rem
  induction rem with
  | nil => rfl
  | cons y ys ih =>
    simp only [List.map_cons, removeFirstNode, removeFirst]
    cases hf : f y.2 with
    | true => simp
    | false =>
      simp only [Bool.false_eq_true, if_false, ih]
      cases removeFirst f ys with
      | none => rfl
      | some r => rfl

theorem popLast_perm {f : Entry → Bool} : ∀ {es : List Entry} {d : Entry} {es' : List Entry},
    popLast f es = some (d, es') → f d = true ∧ es.Perm (d :: es') := by
  intro es
  induction es with
  | nil => intro d es' h; simp [popLast] at h
  | cons e es ih =>
    intro d es' h
    unfold popLast at h
    cases hp : popLast f es with
    | some r =>
      obtain ⟨d0, es0⟩ := r
      rw [hp] at h
      simp only [Option.some.injEq, Prod.mk.injEq] at h
      obtain ⟨rfl, rfl⟩ := h
      obtain ⟨h1, h2⟩ := ih hp
      exact ⟨h1, (List.Perm.cons e h2).trans (List.Perm.swap _ _ _)⟩
    | none =>
      rw [hp] at h
      simp only at h
      split at h
      · simp only [Option.some.injEq, Prod.mk.injEq] at h
        obtain ⟨rfl, rfl⟩ := h
        exact ⟨by assumption, List.Perm.refl _⟩
      · cases h

/-- an ADD or CHANGE entry is present -/
def HasNew (acc : List Entry) : Prop := ∃ e ∈ acc, e.action = .add ∨ e.action = .change

theorem HasNew.not_clean {acc : List Entry} (h : HasNew acc) : clean acc = false := by
  obtain ⟨e, he, ha⟩ := h
  cases hc : clean acc with
  | false => rfl
  | true =>
    simp only [clean, List.all_eq_true] at hc
    have := hc e he
    cases ha with
    | inl ha => rw [ha] at this; cases this
    | inr ha => rw [ha] at this; cases this

theorem addOrChange_hasNew (acc : List Entry) (q : Addr) (y : Node) : HasNew (addOrChange acc q y) := by
  unfold addOrChange
  split
  · exact ⟨_, List.mem_append_right _ (List.mem_singleton.mpr rfl), Or.inr rfl⟩
  · exact ⟨_, List.mem_append_right _ (List.mem_singleton.mpr rfl), Or.inl rfl⟩

theorem addOrChange_keeps (acc : List Entry) (q : Addr) (y : Node) (_h : HasNew acc) : HasNew (addOrChange acc q y) :=
  addOrChange_hasNew acc q y

theorem mergeAdds_hasNew (p : Addr) : ∀ (adds : List (Nat × Node)) (acc : List Entry), HasNew acc → HasNew (mergeAdds p acc adds) := by
  intro adds
  induction adds with
  | nil => intro acc h; exact h
  | cons a adds ih =>
    obtain ⟨j, y⟩ := a
    intro acc _
    exact ih _ (addOrChange_hasNew acc _ y)

theorem clean_mergeAdds (p : Addr) (acc : List Entry) (adds : List (Nat × Node)) :
    clean (mergeAdds p acc adds) = (clean acc && adds.isEmpty) := by
  cases adds with
  | nil => simp [mergeAdds]
  | cons a adds =>
    obtain ⟨j, y⟩ := a
    simp only [mergeAdds, List.isEmpty_cons, Bool.and_false]
    exact (mergeAdds_hasNew p adds _ (addOrChange_hasNew acc _ y)).not_clean

/-- lockstep: the value-synchronised loop pairs everything and all pair diffs are clean exactly when
the greedy multiset comparison of the specification succeeds -/
theorem clean_value (c : Cfg) (hc : NoKeySync c) (q : Addr) : ∀ (xs : List Node) (i : Nat) (rem : List (Nat × Node)),
    (∀ x ∈ xs, wf x = true) → (∀ y ∈ rem, wf y.2 = true) →
    (clean (diffValue true c q i xs rem).1 && (diffValue true c q i xs rem).2.isEmpty)
      = msEq (fun x y => eqv y x) xs (rem.map (fun p => p.2)) := by
  intro xs
  induction xs with
  | nil => intro i rem _ _; cases rem <;> simp [diffValue, msEq]
  | cons x xs ih =>
    intro i rem hwx hwr
    simp only [diffValue, msEq, removeFirstNode_map]
    cases hrf : removeFirst (fun y => eqv y x) rem with
    | none => simp [mkDel]
    | some r =>
      obtain ⟨y, rem'⟩ := r
      obtain ⟨hperm, hfy⟩ := removeFirst_perm hrf
      have hyr : y ∈ rem := hperm.symm.subset (List.mem_cons_self ..)
      have hsub : ∀ z ∈ rem', z ∈ rem := fun z hz => hperm.symm.subset (List.mem_cons_of_mem _ hz)
      simp only [Option.map_some, clean_append]
      rw [clean_of_eqv_node true c hc x y.2 _ (hwx x (List.mem_cons_self ..)) (hwr y hyr) hfy, Bool.true_and]
      exact ih (i + 1) rem' (fun u hu => hwx u (List.mem_cons_of_mem _ hu)) (fun z hz => hwr z (hsub z hz))

theorem positional_nokey {c : Cfg} (hc : Positional c) : NoKeySync c := by
  obtain ⟨_, h | h⟩ := hc <;> (rw [NoKeySync, h]; exact ⟨by decide, by decide⟩)

theorem clean_iff_nokey_node (c : Cfg) (hc : NoKeySync c) : ∀ (l : Node), CleanIffAt c l := by
  intro l
  induction l using nodeInduct with
  | hscalar a v =>
    intro r q hl hr
    cases r with
    | scalar b w =>
      simp only [diffBetween, dataEq, clean_cons, scalarEntry, eqv, clean_nil, Bool.and_true]
      exact ite_same _
    | seq b ys => simp only [diffBetween, dataEq]; exact purge_strict_not_clean ..
    | map b fs => simp only [diffBetween, dataEq]; exact purge_strict_not_clean ..
    | set b ns => simp only [diffBetween, dataEq]; exact purge_strict_not_clean ..
  | hset a ms =>
    intro r q hl hr
    cases r with
    | set b ns => simp only [diffBetween, dataEq]; exact clean_set q ms ns
    | scalar b w => simp only [diffBetween, dataEq]; exact purge_strict_not_clean ..
    | seq b ys => simp only [diffBetween, dataEq]; exact purge_strict_not_clean ..
    | map b fs => simp only [diffBetween, dataEq]; exact purge_strict_not_clean ..
  | hmap a es ih =>
    intro r q hl hr
    cases r with
    | map b fs =>
      simp only [diffBetween, dataEq, clean_append]
      rw [clean_dict c q fs (wf_map hr).2 es ih (wf_map hl).2, clean_adds]
    | scalar b w => simp only [diffBetween, dataEq]; exact purge_strict_not_clean ..
    | seq b ys => simp only [diffBetween, dataEq]; exact purge_strict_not_clean ..
    | set b ns => simp only [diffBetween, dataEq]; exact purge_strict_not_clean ..
  | hseq a xs ih =>
    intro r q hl hr
    cases r with
    | seq b ys =>
      simp only [diffBetween, dataEq]
      rcases listMode_nokey hc xs ys with hm | hm | hm | hm
      · rw [hm]; rfl
      · rw [hm]; exact clean_shallow q xs ys 0
      · rw [hm]; exact clean_pos c q xs ys 0 ih (wf_seq_mem hl) (wf_seq_mem hr)
      · rw [hm]
        simp only [clean_mergeAdds]
        have := clean_value c hc q xs 0 (enumFrom 0 ys) (wf_seq_mem hl) (fun y hy => wf_seq_mem hr y.2 (mem_enumFrom hy))
        rw [enumFrom_snd] at this
        exact this
    | scalar b w => simp only [diffBetween, dataEq]; exact purge_strict_not_clean ..
    | map b fs => simp only [diffBetween, dataEq]; exact purge_strict_not_clean ..
    | set b ns => simp only [diffBetween, dataEq]; exact purge_strict_not_clean ..

/-- **The strict report is clean exactly when the two documents are equal as data** (`dataEq`), in
every array mode and the AoH modes `position`, `dpos` and `value`: position by position, or — under
value synchronisation — as multisets of `==`-equal elements (`msEq_iff_balanced`). -/
theorem diff_clean_iff_dataEq_strict (c : Cfg) (hc : NoKeySync c) (l r : Node)
    (hl : wf l = true) (hr : wf r = true) : clean (diff true c l r) = true ↔ dataEq c l r = true := by
  unfold diff
  rw [clean_iff_nokey_node c hc l r [] hl hr]

/- FULL STATEMENT (not proved in this generality):
     theorem diff_clean_iff_dataEq (c : Cfg) (l r : Node) (hl : wf l) (hr : wf r)
         (hu : UniqueIdentityKeys c l r)   -- only for c.aoh ∈ {key, deep}
         (hv : report c l r = diff true c l r) :
         clean (report c l r) = true ↔ dataEq c l r = true
   for every array mode and AoH mode.  PROVED: all array modes × the AoH modes position / dpos /
   value (`diff_clean_iff_dataEq_partial`), and one list level of the identity-key mode `key`
   (`key_clean_iff_msEq`).  MISSING: the document-level statement for `key` and `deep` (threading
   the identity hypothesis through the recursion; for `deep` the pairing by identity value has to be
   related to the recursive `dataEqMs`).  For those two modes the document-level facts proved are
   `diff_refl`, `sync_accounting` and `key_report_follows_sync`; the equivalence is checked on the real
   code by the harness against an independent Python oracle. -/

/-- (`_partial`: AoH modes `key`/`deep` not covered; the class of finding C06-K1 is excluded by the
decidable hypothesis `hv`.)  **The report of the code is clean exactly when the documents are
equal as data.** -/
theorem diff_clean_iff_dataEq_partial (c : Cfg) (hc : NoKeySync c) (l r : Node)
    (hl : wf l = true) (hr : wf r = true) (hv : report c l r = diff true c l r) :
    clean (report c l r) = true ↔ dataEq c l r = true := by
  rw [hv]; exact diff_clean_iff_dataEq_strict c hc l r hl hr

example : NoKeySync ⟨.value, .value⟩ := by decide

/-- value synchronisation: `[1, 2, 2]` and `[2, 1, 2]` are equal as data, `[1, 2, 2]` and `[1, 1, 2]` are not -/
example : dataEq ⟨.value, .position⟩ (.seq none [.scalar none (.int 1), .scalar none (.int 2), .scalar none (.int 2)])
      (.seq none [.scalar none (.int 2), .scalar none (.int 1), .scalar none (.int 2)]) = true
    ∧ dataEq ⟨.value, .position⟩ (.seq none [.scalar none (.int 1), .scalar none (.int 2), .scalar none (.int 2)])
      (.seq none [.scalar none (.int 1), .scalar none (.int 1), .scalar none (.int 2)]) = false := by
  decide +kernel

/-! ## what `msEq` means: the same number of elements of every `==`-class -/

theorem removeFirstNode_some {f : Node → Bool} : ∀ {ys ys' : List Node},
    removeFirstNode f ys = some ys' → ∃ y, f y = true ∧ ys.Perm (y :: ys') := by
  intro ys
  induction ys with
  | nil => intro ys' h; simp [removeFirstNode] at h
  | cons z zs ih =>
    intro ys' h
    unfold removeFirstNode at h
    split at h
    · cases h; exact ⟨z, by assumption, List.Perm.refl _⟩
    · cases hr : removeFirstNode f zs with
      | none => rw [hr] at h; cases h
      | some ws =>
        rw [hr] at h
        simp only [Option.map_some, Option.some.injEq] at h
        subst h
        obtain ⟨y, hy, hp⟩ := ih hr
        exact ⟨y, hy, (List.Perm.cons z hp).trans (List.Perm.swap _ _ _)⟩

theorem removeFirstNode_none {f : Node → Bool} : ∀ {ys : List Node},
    removeFirstNode f ys = none → ∀ y ∈ ys, f y = false := by
  intro ys
  induction ys with
  | nil => intro _ y hy; cases hy
  | cons z zs ih =>
    intro h y hy
    by_cases hz : f z = true
    · simp [removeFirstNode, hz] at h
    · cases hr : removeFirstNode f zs with
      | some w => simp [removeFirstNode, hz, hr] at h
      | none =>
        cases hy with
        | head => simpa using hz
        | tail _ hy' => exact ih hr y hy'

/-- **Meaning of the value-synchronised comparison of the specification**: the greedy `msEq` succeeds
exactly when the two lists hold the same number of elements of every `==`-class (multiset equality
up to Python `==`). -/
theorem msEq_iff_balanced : ∀ (xs ys : List Node), (∀ x ∈ xs, wf x = true) → (∀ y ∈ ys, wf y = true) →
    (msEq (fun x y => eqv y x) xs ys = true ↔ Balanced xs ys) := by
  intro xs
  induction xs with
  | nil =>
    intro ys _ hwy
    constructor
    · intro h
      have : ys = [] := by simpa [msEq] using h
      subst this; intro z _; rfl
    · intro h; rw [balanced_nil hwy h]; rfl
  | cons x xs ih =>
    intro ys hwx hwy
    have hx := hwx x (List.mem_cons_self ..)
    have hwx' : ∀ u ∈ xs, wf u = true := fun u hu => hwx u (List.mem_cons_of_mem _ hu)
    constructor
    · intro h
      unfold msEq at h
      cases hr : removeFirstNode (fun y => eqv y x) ys with
      | none => rw [hr] at h; cases h
      | some ys' =>
        rw [hr] at h
        obtain ⟨y, hy, hp⟩ := removeFirstNode_some hr
        have hwy' : ∀ u ∈ ys', wf u = true := fun u hu => hwy u (hp.symm.subset (List.mem_cons_of_mem _ hu))
        have hyw : wf y = true := hwy y (hp.symm.subset (List.mem_cons_self ..))
        have hb := (ih ys' hwx' hwy').mp h
        intro z hz
        have h2 : cnt z ys = cnt z (y :: ys') := hp.countP_eq _
        rw [h2]
        simp only [cnt, List.countP_cons]
        rw [eqv_congr_right hx hyw hy z hz]
        have := hb z hz
        simp only [cnt] at this
        omega
    · intro hb
      obtain ⟨y0, hy0, he0⟩ := balanced_exists hx hwy hb
      unfold msEq
      cases hr : removeFirstNode (fun y => eqv y x) ys with
      | none => rw [removeFirstNode_none hr y0 hy0] at he0; cases he0
      | some ys' =>
        obtain ⟨y, hy, hp⟩ := removeFirstNode_some hr
        have hwy' : ∀ u ∈ ys', wf u = true := fun u hu => hwy u (hp.symm.subset (List.mem_cons_of_mem _ hu))
        have hyw : wf y = true := hwy y (hp.symm.subset (List.mem_cons_self ..))
        exact (ih ys' hwx' hwy').mpr (balanced_step hx hyw hp hy hb)

/-- a reordering of a list is equal to it as data under value synchronisation -/
theorem msEq_of_perm (xs ys : List Node) (hwx : ∀ x ∈ xs, wf x = true) (hp : xs.Perm ys) :
    msEq (fun x y => eqv y x) xs ys = true := by
  have hwy : ∀ y ∈ ys, wf y = true := fun y hy => hwx y (hp.symm.subset hy)
  rw [msEq_iff_balanced xs ys hwx hwy]
  intro z _
  exact hp.countP_eq _

/-! ## identity-key synchronisation (`--aoh key`), one list level -/

theorem removeFirst_split {f : Node → Bool} : ∀ {rem : List (Nat × Node)} {y : Nat × Node} {rem' : List (Nat × Node)},
    removeFirst f rem = some (y, rem') →
    ∃ pre post, rem = pre ++ y :: post ∧ rem' = pre ++ post ∧ (∀ z ∈ pre, f z.2 = false) ∧ f y.2 = true := by
  intro rem
  induction rem with
  | nil => intro y rem' h; simp [removeFirst] at h
  | cons z zs ih =>
    intro y rem' h
    by_cases hz : f z.2 = true
    · simp only [removeFirst, hz, if_true, Option.some.injEq, Prod.mk.injEq] at h
      obtain ⟨rfl, rfl⟩ := h
      exact ⟨[], zs, rfl, rfl, (fun _ h => by cases h), hz⟩
    · cases hr : removeFirst f zs with
      | none => simp [removeFirst, hz, hr] at h
      | some r =>
        obtain ⟨w, ws⟩ := r
        simp only [removeFirst, hz, hr] at h
        simp only [Bool.false_eq_true, if_false, Option.some.injEq, Prod.mk.injEq] at h
        obtain ⟨rfl, rfl⟩ := h
        obtain ⟨pre, post, h1, h2, h3, h4⟩ := ih hr
        refine ⟨z :: pre, post, by simp [h1], by simp [h2], ?_, h4⟩
        intro u hu
        cases hu with
        | head => simpa using hz
        | tail _ hu' => exact h3 u hu'

theorem removeFirstNode_split {g : Node → Bool} : ∀ (pre : List Node) (y : Node) (post : List Node),
    (∀ z ∈ pre, g z = false) → g y = true → removeFirstNode g (pre ++ y :: post) = some (pre ++ post) := by
  intro pre
  induction pre with
  | nil => intro y post _ hy; simp [removeFirstNode, hy]
  | cons z zs ih =>
    intro y post hpre hy
    have hz := hpre z (List.mem_cons_self ..)
    simp only [List.cons_append, removeFirstNode, hz, Bool.false_eq_true, if_false,
      ih y post (fun u hu => hpre u (List.mem_cons_of_mem _ hu)) hy, Option.map_some]

theorem removeFirstNode_eq_none {g : Node → Bool} : ∀ (l : List Node), (∀ z ∈ l, g z = false) → removeFirstNode g l = none := by
  intro l
  induction l with
  | nil => intro _; rfl
  | cons z zs ih =>
    intro h
    simp only [removeFirstNode, h z (List.mem_cons_self ..), Bool.false_eq_true, if_false,
      ih (fun u hu => h u (List.mem_cons_of_mem _ hu)), Option.map_none]

theorem wf_keyVal {ka : Key} {x v : Node} (hw : wf x = true) (h : keyVal ka x = some v) : wf v = true := by
  cases x with
  | map a es => exact (wf_map hw).2 (ka, v) (mem_of_lookup (by simpa [keyVal] using h))
  | scalar a w => simp [keyVal] at h
  | seq a xs => simp [keyVal] at h
  | set a ms => simp [keyVal] at h

/-- records that are equal under `==` carry equal identity values -/
theorem keyMatch_of_eqv {ka : Key} {x y : Node} (hx : wf x = true) (hy : wf y = true)
    (he : eqv x y = true) (hi : hasIdentity ka x = true) : keyMatch ka x y = true := by
  unfold hasIdentity at hi
  cases hk : keyVal ka x with
  | none => rw [hk] at hi; cases hi
  | some v =>
    cases x with
    | map a es =>
      cases y with
      | map b fs =>
        simp only [keyVal] at hk
        simp only [eqv, Bool.and_eq_true] at he
        obtain ⟨w, hw, hvw⟩ := (eqvEntries_iff es fs).mp he.1 (ka, v) (mem_of_lookup hk)
        have hwv : wf v = true := (wf_map hx).2 _ (mem_of_lookup hk)
        have hww : wf w = true := (wf_map hy).2 _ (mem_of_lookup hw)
        simp only [keyMatch, keyVal, hk, hw]
        exact eqv_symm v w hwv hww hvw
      | scalar b w => simp [eqv] at he
      | seq b ys => simp [eqv] at he
      | set b ns => simp [eqv] at he
    | scalar a w => simp [keyVal] at hk
    | seq a xs => simp [keyVal] at hk
    | set a ms => simp [keyVal] at hk

/-- two records matching the same record match each other -/
theorem keyMatch_common {ka : Key} {x y y' : Node} (hx : wf x = true) (hy : wf y = true) (hy' : wf y' = true)
    (h1 : keyMatch ka x y = true) (h2 : keyMatch ka x y' = true) : keyMatch ka y y' = true := by
  unfold keyMatch at h1 h2 ⊢
  cases hvx : keyVal ka x with
  | none => simp [hvx] at h1
  | some vx =>
    cases hvy : keyVal ka y with
    | none => simp [hvx, hvy] at h1
    | some vy =>
      cases hvy' : keyVal ka y' with
      | none => simp [hvx, hvy'] at h2
      | some vy' =>
        simp only [hvx, hvy, hvy'] at h1 h2 ⊢
        have wx := wf_keyVal hx hvx
        have wy := wf_keyVal hy hvy
        have wy' := wf_keyVal hy' hvy'
        exact eqv_trans vy' vx vy wy' wx wy h2 (eqv_symm vy vx wy wx h1)

/-- **One list level of `--aoh key`**: when every left record carries the identity key and no two
right records share an identity value, the KEY report of the two record lists is clean exactly when
the lists are equal as multisets of `==`-equal records (the specification's `dataEq` for this mode).
Without the hypotheses the statement fails on the code (finding C06-K2). -/
theorem key_clean_iff_msEq (s : Bool) (c : Cfg) (q : Addr) (ka : Key) : ∀ (xs : List Node) (i : Nat) (rem : List (Nat × Node)),
    (∀ x ∈ xs, wf x = true) → (∀ y ∈ rem, wf y.2 = true) → (∀ x ∈ xs, hasIdentity ka x = true) →
    (rem.map (fun p => p.2)).Pairwise (fun a b => keyMatch ka a b = false) →
    clean (diffKey s c q false ka i xs rem) = msEq (fun x y => eqv x y) xs (rem.map (fun p => p.2)) := by
  intro xs
  induction xs with
  | nil => intro i rem _ _ _ _; cases rem <;> simp [diffKey, msEq, mkAdd]
  | cons x xs ih =>
    intro i rem hwx hwr hid hpw
    have hx := hwx x (List.mem_cons_self ..)
    have hix := hid x (List.mem_cons_self ..)
    simp only [diffKey, msEq]
    cases hrf : removeFirst (keyMatch ka x) rem with
    | none =>
      have hnone := removeFirst_none hrf
      rw [removeFirstNode_eq_none]
      · simp [mkDel]
      · intro z hz
        obtain ⟨p, hp, rfl⟩ := List.mem_map.mp hz
        cases he : eqv x p.2 with
        | false => rfl
        | true => have := hnone p hp; rw [keyMatch_of_eqv hx (hwr p hp) he hix] at this; cases this
    | some r =>
      obtain ⟨y, rem'⟩ := r
      obtain ⟨pre, post, h1, h2, h3, h4⟩ := removeFirst_split hrf
      subst h1 h2
      have hwy : wf y.2 = true := hwr y (by simp)
      simp only [List.map_append, List.map_cons] at hpw ⊢
      have hpost : ∀ z ∈ post, keyMatch ka x z.2 = false := by
        intro z hz
        cases hm : keyMatch ka x z.2 with
        | false => rfl
        | true =>
          have hyz := keyMatch_common hx hwy (hwr z (by simp [hz])) h4 hm
          have := (List.pairwise_append.mp hpw).2.1
          have := (List.pairwise_cons.mp this).1 z.2 (List.mem_map.mpr ⟨z, hz, rfl⟩)
          rw [hyz] at this; cases this
      have hpw' : ((pre ++ post).map (fun p => p.2)).Pairwise (fun a b => keyMatch ka a b = false) := by
        rw [List.map_append]
        exact hpw.sublist (List.Sublist.append_left (List.sublist_cons_self _ _) _)
      have hrec := ih (i + 1) (pre ++ post) (fun u hu => hwx u (List.mem_cons_of_mem _ hu))
        (fun z hz => hwr z (by
          rcases List.mem_append.mp hz with h | h
          · exact List.mem_append_left _ h
          · exact List.mem_append_right _ (List.mem_cons_of_mem _ h)))
        (fun u hu => hid u (List.mem_cons_of_mem _ hu)) hpw'
      have hpre' : ∀ z ∈ pre.map (fun p => p.2), eqv x z = false := by
        intro z hz
        obtain ⟨p, hp, rfl⟩ := List.mem_map.mp hz
        cases he : eqv x p.2 with
        | false => rfl
        | true => have := h3 p hp; rw [keyMatch_of_eqv hx (hwr p (by simp [hp])) he hix] at this; cases this
      cases hexy : eqv x y.2 with
      | true =>
        rw [removeFirstNode_split _ _ _ hpre' hexy]
        simp only [Bool.false_eq_true, if_false, clean_append, scalarEntry, hexy, if_true, clean_cons, clean_nil]
        rw [hrec, List.map_append]
        simp
      | false =>
        rw [removeFirstNode_eq_none]
        · simp [scalarEntry, hexy]
        · intro z hz
          rcases List.mem_append.mp hz with h | h
          · exact hpre' z h
          · cases h with
            | head => exact hexy
            | tail _ h' =>
              obtain ⟨p, hp, rfl⟩ := List.mem_map.mp h'
              cases he : eqv x p.2 with
              | false => rfl
              | true => have := hpost p hp; rw [keyMatch_of_eqv hx (hwr p (by simp [hp])) he hix] at this; cases this

/-- `key_clean_iff_msEq` at the root of two documents that are record lists compared under
`--aoh key`: the report (of the code and of the strict variant) is clean exactly when the two
lists are equal as data. -/
theorem diff_clean_iff_dataEq_key_root (s : Bool) (c : Cfg) (a b : Option Str) (xs ys : List Node)
    (hm : listMode c xs ys = .key) (hl : wf (.seq a xs) = true) (hr : wf (.seq b ys) = true)
    (hid : ∀ x ∈ xs, hasIdentity (keyAttr ys) x = true)
    (hpw : ys.Pairwise (fun u v => keyMatch (keyAttr ys) u v = false)) :
    clean (diff s c (.seq a xs) (.seq b ys)) = dataEq c (.seq a xs) (.seq b ys) := by
  simp only [diff, diffBetween, dataEq, hm]
  have := key_clean_iff_msEq s c [] (keyAttr ys) xs 0 (enumFrom 0 ys) (wf_seq_mem hl)
    (fun y hy => wf_seq_mem hr y.2 (mem_enumFrom hy)) hid (by rw [enumFrom_snd]; exact hpw)
  rw [enumFrom_snd] at this
  exact this

/-- the hypotheses of `diff_clean_iff_dataEq_key_root` on `[{a: 1, b: x}, {a: 2}]` vs `[{a: 2}, {a: 1, b: y}]` -/
example :
    let xs := [Node.map none [(.str ['a'], .scalar none (.int 1)), (.str ['b'], .scalar none (.str ['x']))],
               Node.map none [(.str ['a'], .scalar none (.int 2))]]
    let ys := [Node.map none [(.str ['a'], .scalar none (.int 2))],
               Node.map none [(.str ['a'], .scalar none (.int 1)), (.str ['b'], .scalar none (.str ['y']))]]
    listMode ⟨.position, .key⟩ xs ys = .key ∧ xs.all (hasIdentity (keyAttr ys)) = true
      ∧ keyMatch (keyAttr ys) ys[0]! ys[1]! = false
      ∧ clean (report ⟨.position, .key⟩ (.seq none xs) (.seq none ys)) = false
      ∧ dataEq ⟨.position, .key⟩ (.seq none xs) (.seq none ys) = false := by
  decide +kernel

/-- (`_partial`: same restrictions as `diff_clean_iff_dataEq_partial`.)  **`yaml-diff` exits with 0
exactly when the two documents are equal as data** (used by C16). -/
theorem diff_exit_zero_iff_dataEq_partial (c : Cfg) (hc : NoKeySync c) (l r : Node)
    (hl : wf l = true) (hr : wf r = true) (hv : report c l r = diff true c l r) :
    exitStatus (report c l r) = 0 ↔ dataEq c l r = true :=
  (exit_zero_iff_clean _).trans (diff_clean_iff_dataEq_partial c hc l r hl hr hv)

end Ypv.Diff.Proofs
