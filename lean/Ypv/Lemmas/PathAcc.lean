import Ypv.Lemmas.PathJoin
import Ypv.Lemmas.SearchPath
import Ypv.Model.PathAcc
/-!
# The reported path: accumulated text, its `str()`, and what that parses to

1. `accObj_eq`: the object built by `YAMLPath("") + s₀ + s₁ + …` holds the text `s₀.s₁.…`
   (sections joined by the dot) when the first section does not start with `/`.
2. The sections the handlers produce (`Sec`: escaped key text, `[i]`, `[&name]`) are loosely written
   segments (`Sec.lseg`); the evaluator model's `escSection` IS the library's `escape_path_section`
   for every text without two adjacent backslashes (`escSection_real`; with them: finding C07-K6).
3. `roundtrip_join`: unescaped parse of the joined text → `render` in either notation → parse again
   gives the segments of the sections (`parseWith_texts_join`, `render_eq`, `remarkFrom_wf`).
4. `reported_steps` / `reportedAs_steps`: `str(result.path)` (and the same after
   `path.separator = …`) succeeds and parses, separator inferred, to the segments of the steps.
-/
namespace Ypv.Acc
open Ypv Ypv.Sim Ypv.Search Ypv.Search.Rr

/-! ## 1. The accumulated object -/

theorem new_nil : PathObj.new [] = { original := [], sep := .auto, unesc := [], esc := [], strd := [] } := by
  rfl

theorem add_nil (s : Str) : (PathObj.new []).add s = PathObj.new s := by
  simp [PathObj.add, PathObj.append, PathObj.new, PathObj.setOriginal, PathObj.getSep, normOriginal, inferSep]

theorem add_dot {t : Str} (s : Str) (hn : normOriginal t = t) {ch : Char} {k : Str} (ht : t = ch :: k)
    (hc : ch ≠ '/') : (PathObj.new t).add s = PathObj.new (t ++ '.' :: s) := by
  subst ht
  simp [PathObj.add, PathObj.append, PathObj.new, PathObj.setOriginal, PathObj.getSep, hn, inferSep, hc]

/-- the sections joined by the dot -/
def joinText : List Str → Str
  | [] => []
  | s :: r => s ++ r.flatMap (fun x => '.' :: x)

theorem foldl_add (rest : List Str) : ∀ (t : Str), normOriginal t = t → (∃ ch k, t = ch :: k ∧ ch ≠ '/') →
    rest.foldl PathObj.add (PathObj.new t) = PathObj.new (t ++ rest.flatMap (fun x => '.' :: x)) := by
  induction rest with
  | nil => intro t _ _; simp
  | cons s r ih =>
    intro t hn ⟨ch, k, ht, hc⟩
    simp only [List.foldl_cons, add_dot s hn ht hc]
    rw [ih (t ++ '.' :: s) (normOriginal_append _ hn (by simp [ht])) ⟨ch, k ++ '.' :: s, by simp [ht], hc⟩]
    simp

/-- **The accumulated object holds the sections joined by the dot.** -/
theorem accObj_eq (s : Str) (rest : List Str) (hn : normOriginal s = s)
    (hh : ∃ ch k, s = ch :: k ∧ ch ≠ '/') :
    accObj (s :: rest) = PathObj.new (joinText (s :: rest)) := by
  simp only [accObj, List.foldl_cons, add_nil, joinText]
  exact foldl_add rest s hn hh

theorem accObj_nil : accObj [] = PathObj.new [] := rfl

/-! ## 2. The sections the handlers produce -/

/-- one step of a reported path, as the evaluator writes it -/
inductive Sec
  | key (t : Str)    -- a dict key / set member, by the text `t`: `escape_path_section(t)`
  | idx (i : Int)    -- a list element: `[i]`
  | anc (a : Str)    -- an anchor match: `[&a]`
  deriving DecidableEq, Repr

/-- the section text in the evaluator model (`Model/Eval.lean`) -/
def Sec.mtext : Sec → Str
  | .key t => escSection t
  | .idx i => idxSection i
  | .anc a => Eval.anchorSection a

/-- the section text as the library writes it (`escape_path_section` of `Model/Render.lean`, the
C08 model of the real function, with the separator of the empty path: DOT) -/
def Sec.text : Sec → Str
  | .key t => escapePathSection '.' t
  | .idx i => '[' :: (pyStrInt i ++ [']'])
  | .anc a => '[' :: '&' :: (escapePathSection '.' a ++ [']'])

/-- what the notation can express, and `escape_path_section` escapes faithfully: key text not empty,
no `*`, not starting `&`, not only control white space (C08 `wfKeyText`), anchor names not empty, no
`*`, no operator character; no two adjacent backslashes (C07-K6) -/
def Sec.ok : Sec → Bool
  | .key t => okKeyText t
  | .idx _ => true
  | .anc a => okName a

def Sec.isAnc : Sec → Bool
  | .anc _ => true
  | _ => false

def Sec.lseg : Sec → LSeg
  | .key t => .key (secToks '.' t)
  | .idx i => .index i
  | .anc a => .anchor false (secToks '.' a)

/-- the segment a step is read back as -/
def Sec.seg : Sec → Seg
  | .key t => (.key, .str t)
  | .idx i => (.index, .int i)
  | .anc a => (.anchor, .str a)

theorem lseg_seg (s : Sec) : s.lseg.seg true = s.seg := by
  cases s <;> simp [Sec.lseg, Sec.seg, LSeg.seg, tokView, tokChars_secToks]

/-- the evaluator model's escaper writes the token text of `secToks` — for every text -/
theorem escSection_toks (t : Str) : escSection t = tokText (secToks '.' t) := by
  have hraw : ∀ r : Str, escSectionRaw r = tokText (tokenize '.' r) := by
    intro r
    rw [tokText_tokenize]
    simp only [escSectionRaw, escText]
    congr 1
  cases t with
  | nil => rfl
  | cons c r =>
    have e1 : escSectionRaw (c :: r) = (if escSpecial c then ['\\', c] else [c]) ++ escSectionRaw r := by
      simp [escSectionRaw]
    have hsp : special '.' c = escSpecial c := by simp [special, escSpecial]
    simp only [escSection, e1, hraw r, secToks, tokText, List.flatMap_cons, Tok.text, hsp]
    by_cases hs : escSpecial c = true
    · simp [hs]
    · have hs' : escSpecial c = false := by simpa using hs
      by_cases hc : c = '/'
      · subst hc; simp [hs']
      · simp only [hs', Bool.false_eq_true, ↓reduceIte, List.cons_append, List.nil_append, Bool.false_or,
          Bool.and_eq_true, beq_iff_eq, hc, false_and]
        split
        · rename_i r' heq
          simp only [List.cons.injEq] at heq
          exact absurd heq.1 hc
        · rfl

/-- **The evaluator model's section text is the library's `escape_path_section`** whenever the text
has no two adjacent backslashes. -/
theorem escSection_real (t : Str) (h : noDbl t = true) : escSection t = escapePathSection '.' t := by
  rw [escSection_toks, escapePathSection_eq (Or.inl rfl) t h]

theorem mtext_eq (s : Sec) (h : s.ok = true) : s.mtext = s.text := by
  cases s with
  | key t =>
    simp only [Sec.ok, okKeyText, Bool.and_eq_true] at h
    simp [Sec.mtext, Sec.text, escSection_real t h.2]
  | idx i => rfl
  | anc a =>
    simp only [Sec.ok, okName, Bool.and_eq_true] at h
    simp [Sec.mtext, Sec.text, Eval.anchorSection, escSection_real a h.2]

theorem mtext_lseg (s : Sec) : s.mtext = s.lseg.text '.' false := by
  cases s with
  | key t => simp [Sec.mtext, Sec.lseg, LSeg.text, sepIf, escSection_toks]
  | idx i => simp [Sec.mtext, Sec.lseg, LSeg.text, idxSection]
  | anc a => simp [Sec.mtext, Sec.lseg, LSeg.text, Eval.anchorSection, escSection_toks]

theorem plain_sec (s : Sec) (hs : s.ok = true) : Plain '.' s.lseg := by
  cases s with
  | key t => exact plain_step (Or.inl rfl) (.key (.str t)) hs
  | idx i => exact ⟨trivial, rfl, rfl, trivial, trivial, '[', _, rfl, by decide⟩
  | anc a => exact plain_step (Or.inl rfl) (.anc a) hs

theorem joinText_lsegs (s : Sec) (r : List Sec) :
    joinText ((s :: r).map Sec.mtext) = textAll false [s.lseg] ++ joinFrom '.' (r.map Sec.lseg) := by
  have : ∀ r : List Sec, (r.map Sec.mtext).flatMap (fun x => '.' :: x) = joinFrom '.' (r.map Sec.lseg) := by
    intro r
    induction r with
    | nil => rfl
    | cons x xs ih => simp [joinFrom, ih, mtext_lseg]
  simp [joinText, textAll, textFrom, this, mtext_lseg]

/-! ## 3. parse → `render` → parse -/

theorem plain_wf_all : ∀ (L : List LSeg), (∀ l ∈ L, Plain '.' l) → wfFromL '.' false L :=
  fun L h => (plain_wfFrom L h).1

/-- the first character of the rendering of a plain first segment in dot notation is not `/` -/
theorem remark1_hd (l : LSeg) (h : Plain '.' l) :
    ∃ ch k, (remark1 '.' false l).text '.' false = ch :: k ∧ ch ≠ '/' := by
  obtain ⟨ch, k, ht, hc⟩ := h.hd
  cases l with
  | key ts =>
    cases ts with
    | nil => simp [LSeg.text, sepIf, tokText] at ht
    | cons t ts =>
      obtain ⟨e, c⟩ := t
      have e1 : (remark1 '.' false (.key ((e, c) :: ts))).text '.' false =
          Tok.text (e || (keySyms '.').contains c, c) ++ tokText (remarkT '.' ts) := by
        simp [remark1, remarkT, markAll, LSeg.text, sepIf, tokText]
      rw [e1]
      cases he : (e || (keySyms '.').contains c)
      · have he' : e = false := by cases e <;> simp_all
        subst he'
        simp only [LSeg.text, sepIf, Bool.false_eq_true, ↓reduceIte, List.nil_append, tokText,
          List.flatMap_cons, Tok.text, List.cons_append, List.cons.injEq] at ht
        exact ⟨c, tokText (remarkT '.' ts), by simp [Tok.text], by rw [ht.1]; exact hc⟩
      · exact ⟨'\\', c :: tokText (remarkT '.' ts), by simp [Tok.text], by decide⟩
  | anchor top ts => exact ⟨'&', _, by simp [remark1, LSeg.text, sepIf]; rfl, by decide⟩
  | matchAll => exact ⟨'*', _, by simp [remark1, LSeg.text, sepIf]; rfl, by decide⟩
  | traverse => exact ⟨'*', _, by simp [remark1, LSeg.text, sepIf]; rfl, by decide⟩
  | index i => exact ⟨'[', _, by simp [remark1, LSeg.text]; rfl, by decide⟩
  | slice sl => exact ⟨'[', _, by simp [remark1, LSeg.text]; rfl, by decide⟩
  | search inv m attr term => exact ⟨'[', _, by simp [remark1, LSeg.text]; rfl, by decide⟩
  | regex inv attr d term => exact ⟨'[', _, by simp [remark1, LSeg.text]; rfl, by decide⟩
  | keyword inv kw ps => exact ⟨'[', _, by simp [remark1, LSeg.text]; rfl, by decide⟩
  | collector e op => have := h.nc; simp [LSeg.isColl] at this

/-- **The stringifier's text of the unescaped segments of plain sections, in either notation, parses
back — separator inferred — to their segments.** -/
theorem render_plain (f' : Bool) (L : List LSeg) (hp : ∀ l ∈ L, Plain '.' l) :
    let S := render f' (L.map (LSeg.seg false))
    parseWith f' true S = .ok (L.map (LSeg.seg true)) ∧ inferFslash S = (f' && true) ∧ S ≠ [] ∨ L = [] := by
  intro S
  by_cases hL : L = []
  · exact Or.inr hL
  left
  have hW := plain_wf_all L hp
  have hok : ∀ l ∈ L, RenderOK l := fun l hl => (hp l hl).ok
  have hnb : ∀ l ∈ L, l.NB := fun l hl => (hp l hl).nb
  have hS : S = textAll f' (remarkFrom (sepOf f') false L) := render_eq f' L false hW hok
  have hW1 : wfFromL (sepOf f') false (remarkFrom (sepOf f') false L) :=
    remarkFrom_wf L false false hW hok (fun _ => rfl)
      (fun l hl => (hp l (by
        simp only [Bool.false_eq_true, ↓reduceIte] at hl
        exact List.mem_of_mem_tail hl)).nt)
  have hn1 : normOriginal S = S := by
    rw [hS]
    cases f' with
    | true => exact normOriginal_of_nonblank ⟨'/', by simp [textAll], by decide⟩
    | false =>
      cases hL' : L with
      | nil => exact absurd hL' hL
      | cons l r =>
        apply normOriginal_of_nonblank
        obtain ⟨ch, hc, hw⟩ := text_nonblank (sep := '.') (remark1 '.' false l)
          (remark1_nb _ _ l (hnb l (by simp [hL'])))
        exact ⟨ch, by simp [remarkFrom, textAll, textFrom, sepOf, hc], hw⟩
  refine ⟨?_, ?_, ?_⟩
  · rw [hS, parseWith_texts f' true _ (by exact hW1) (by rw [← hS]; exact hn1), remarkFrom_seg_true]
  rotate_left
  · rw [hS]
    apply textAll_ne f' _ hW1
    intro h0
    have := remarkFrom_length (sepOf f') L false
    rw [h0] at this
    exact hL (List.length_eq_zero_iff.mp this.symm)
  · unfold inferFslash
    rw [hn1, hS]
    cases f' with
    | true => simp [textAll]
    | false =>
      cases hL' : L with
      | nil => exact absurd hL' hL
      | cons l r =>
        obtain ⟨ch, k, ht, hc⟩ := remark1_hd l (hp l (by simp [hL']))
        simp [remarkFrom, textAll, textFrom, sepOf, ht, hc]

/-! ## 4. `str(result.path)` -/

theorem strOf_new (f : Bool) (t : Str) (u : List Seg) (hn : normOriginal t = t)
    (hs : (inferSep t).isFslash = f) (hu : parseWith f false t = .ok u) :
    strOf (PathObj.new t) = .ok (render f u) := printed_of f t u hn hs hu

/-- the raw text of a non-empty list of good steps: normal form, dot notation, and its unescaped
segments -/
theorem raw_steps (s : Sec) (r : List Sec) (hok : ∀ x ∈ s :: r, x.ok = true) :
    let t := joinText ((s :: r).map Sec.mtext)
    accObj ((s :: r).map Sec.mtext) = PathObj.new t ∧ normOriginal t = t ∧
    inferSep t = .dot ∧
    parseWith false false t = .ok (((s :: r).map Sec.lseg).map (LSeg.seg false)) := by
  intro t
  have hps : Plain '.' s.lseg := plain_sec s (hok s (by simp))
  have hpl : ∀ l ∈ (s :: r).map Sec.lseg, Plain '.' l := by
    intro l hl
    simp only [List.mem_map] at hl
    obtain ⟨x, hx, rfl⟩ := hl
    exact plain_sec x (hok x hx)
  obtain ⟨ch, k, hch, hc⟩ := hps.hd
  have hsn : normOriginal s.mtext = s.mtext := by
    rw [mtext_lseg]
    exact normOriginal_of_nonblank (text_nonblank _ hps.nb)
  have hacc := accObj_eq s.mtext (r.map Sec.mtext) hsn ⟨ch, k, by rw [mtext_lseg]; exact hch, hc⟩
  have ht : t = textAll false [s.lseg] ++ joinFrom '.' (r.map Sec.lseg) := joinText_lsegs s r
  have ht0 : textAll false [s.lseg] = ch :: k := by simp [textAll, textFrom, hch]
  have hn : normOriginal t = t := by
    rw [ht]
    apply normOriginal_append
    · simpa [textAll, textFrom, ← mtext_lseg] using hsn
    · simp [ht0]
  refine ⟨hacc, hn, by rw [ht, ht0]; simp [inferSep, hc], ?_⟩
  have := parseWith_texts_join false false [s.lseg] (r.map Sec.lseg)
    (by simpa using plain_wf_all _ hpl) (by simp)
    (fun l hl => by
      have := (hpl l (by simp [hl])).nc
      cases l <;> simp_all [LSeg.isInter, LSeg.isColl]) t (by simpa using ht) hn
  simpa using this

/-- **`str(result.path)` parses to the segments of the steps.**  For a path whose sections are those
of the steps `ss` (all expressible): `str()` succeeds, and its text — separator inferred, as
`YAMLPath(text)` does — parses to one segment per step: KEY `t`, INDEX `i`, ANCHOR `a`. -/
theorem reported_steps (c : Ctx) (ss : List Sec) (hpath : c.path = ss.map Sec.mtext)
    (hok : ∀ x ∈ ss, x.ok = true) :
    c.path = ss.map Sec.text ∧
    ∃ S, reported c = .ok S ∧ parse true S = .ok (ss.map Sec.seg) := by
  refine ⟨by rw [hpath]; exact List.map_congr_left (fun x hx => mtext_eq x (hok x hx)), ?_⟩
  cases ss with
  | nil =>
    refine ⟨[], ?_, by decide⟩
    simp only [reported, hpath, List.map_nil, accObj_nil]
    decide
  | cons s r =>
    obtain ⟨hacc, hn, hs, hu⟩ := raw_steps s r hok
    have hpl : ∀ l ∈ (s :: r).map Sec.lseg, Plain '.' l := by
      intro l hl
      simp only [List.mem_map] at hl
      obtain ⟨x, hx, rfl⟩ := hl
      exact plain_sec x (hok x hx)
    refine ⟨_, by rw [reported, hpath, hacc]; exact strOf_new false _ _ hn (by rw [hs]; rfl) hu, ?_⟩
    rcases render_plain false _ hpl with ⟨h1, h2, _⟩ | h
    · simp only [parse]
      rw [h2, Bool.false_and, h1, List.map_map]
      congr 1
      apply List.map_congr_left
      intro x _
      exact lseg_seg x
    · simp at h

/-- **The same after `result.path.separator = FSLASH` (or `DOT`)**: the text `str()` then returns —
the stringifier's rendering in the chosen notation — parses, separator inferred, to the segments of
the steps. -/
theorem reportedAs_steps (f' : Bool) (c : Ctx) (ss : List Sec) (hpath : c.path = ss.map Sec.mtext)
    (hok : ∀ x ∈ ss, x.ok = true) :
    ∃ S, reportedAs f' c = .ok S ∧ parse true S = .ok (ss.map Sec.seg) := by
  cases ss with
  | nil =>
    simp only [reportedAs, hpath, List.map_nil, accObj_nil]
    cases f'
    · exact ⟨[], by decide, by decide⟩
    · exact ⟨['/'], by decide, by decide⟩
  | cons s r =>
    obtain ⟨hacc, hn, hs, hu⟩ := raw_steps s r hok
    have hpl : ∀ l ∈ (s :: r).map Sec.lseg, Plain '.' l := by
      intro l hl
      simp only [List.mem_map] at hl
      obtain ⟨x, hx, rfl⟩ := hl
      exact plain_sec x (hok x hx)
    rcases render_plain f' _ hpl with ⟨h1, h2, h3⟩ | h
    · refine ⟨render f' (((s :: r).map Sec.lseg).map (LSeg.seg false)), ?_, ?_⟩
      · rw [reportedAs, hpath, hacc]
        cases f'
        · have h3' : ¬ render false (((s :: r).map Sec.lseg).map (LSeg.seg false)) = [] := h3
          simp only [PathObj.setSep, PathObj.new, PathObj.setOriginal, hn, PathObj.unescaped,
            PathObj.parseObj, PathObj.getSep, hs, SepOpt.isFslash, ne_eq, not_true_eq_false,
            ↓reduceIte, Bool.false_eq_true, reduceCtorEq, hu, strOf, PathObj.str, decide_false, h3',
            not_false_eq_true]
        · have h3' : ¬ render true (((s :: r).map Sec.lseg).map (LSeg.seg false)) = [] := h3
          simp only [PathObj.setSep, PathObj.new, PathObj.setOriginal, hn, PathObj.unescaped,
            PathObj.parseObj, PathObj.getSep, hs, SepOpt.isFslash, ne_eq, not_true_eq_false,
            ↓reduceIte, reduceCtorEq, decide_false, hu, strOf, PathObj.str, decide_true, h3',
            not_false_eq_true]
      · simp only [parse]
        rw [h2, Bool.and_true, h1, List.map_map]
        congr 1
        apply List.map_congr_left
        intro x _
        exact lseg_seg x
    · simp at h

end Ypv.Acc
