import Ypv.Model.Parser
import Ypv.Spec.Write
/-!
# Simulation lemmas for the parser model (used by C08; reusable by C02)

From a parser state "between segments", consuming the written form of one segment returns to a
state "between segments" with exactly that segment appended.
-/
namespace Ypv

/-! ## Python `int(str(i))` -/

theorem isDigit_of_core {c : Char} (h : c.isDigit = true) : isDigit c = true := by
  simp only [Char.isDigit, Bool.and_eq_true, decide_eq_true_eq] at h
  simp only [isDigit, Bool.and_eq_true, decide_eq_true_eq]
  exact ⟨by
    show (48 : UInt32) ≤ c.val
    exact h.1, h.2⟩

theorem digitsUS_digits (l : Str) (hl : ∀ c ∈ l, c.isDigit = true) (acc : Nat) (prev : Bool)
    (hne : l ≠ [] ∨ prev = true) :
    digitsUS l acc prev = some (Nat.ofDigitChars 10 l acc) := by
  induction l generalizing acc prev with
  | nil => simp_all [digitsUS]
  | cons c cs ih =>
    have hc := isDigit_of_core (hl c (by simp))
    simp only [digitsUS, hc, ↓reduceIte]
    rw [ih (fun d hd => hl d (by simp [hd])) _ true (Or.inr rfl)]
    simp [Nat.ofDigitChars_cons, digitVal, Nat.mul_comm]

theorem not_ws_of_digit {c : Char} (h : c.isDigit = true) : isPyWs c = false := by
  simp only [Char.isDigit, Bool.and_eq_true, decide_eq_true_eq] at h
  simp only [isPyWs, Bool.or_eq_false_iff, decide_eq_false_iff_not]
  refine ⟨⟨⟨⟨⟨⟨⟨⟨⟨?_, ?_⟩, ?_⟩, ?_⟩, ?_⟩, ?_⟩, ?_⟩, ?_⟩, ?_⟩, ?_⟩ <;>
    (rintro rfl; revert h; decide)

theorem dropWhile_self {p : Char → Bool} : ∀ {l : Str}, (∀ c ∈ l, p c = false) → l.dropWhile p = l
  | [], _ => rfl
  | c :: cs, h => by simp [List.dropWhile, h c (by simp)]

theorem stripWs_self {l : Str} (h : ∀ c ∈ l, isPyWs c = false) : stripWs l = l := by
  unfold stripWs
  rw [dropWhile_self h, dropWhile_self (by simpa using h)]
  simp

theorem natDigits_digit (n : Nat) : ∀ c ∈ natDigits n, c.isDigit = true :=
  fun _ hc => Nat.isDigit_of_mem_toDigits (by decide) (by decide) hc

theorem pyInt_pyStrInt (i : Int) : pyInt? (pyStrInt i) = some i := by
  have hd := natDigits_digit i.natAbs
  have hne : natDigits i.natAbs ≠ [] := Nat.toDigits_ne_nil
  have hval : digitsUS (natDigits i.natAbs) 0 false = some i.natAbs := by
    rw [digitsUS_digits _ hd 0 false (Or.inl hne)]
    simp [natDigits]
  unfold pyStrInt
  split
  · rename_i hneg
    have hws : ∀ c ∈ '-' :: natDigits i.natAbs, isPyWs c = false := by
      intro c hc
      rcases List.mem_cons.mp hc with rfl | hc
      · decide
      · exact not_ws_of_digit (hd c hc)
    simp only [pyInt?, stripWs_self hws, hval]
    simp; omega
  · rename_i hneg
    have hws : ∀ c ∈ natDigits i.natAbs, isPyWs c = false := fun c hc => not_ws_of_digit (hd c hc)
    unfold pyInt?
    rw [stripWs_self hws]
    cases hx : natDigits i.natAbs with
    | nil => exact absurd hx hne
    | cons c cs =>
      have hcd : c.isDigit = true := hd c (by simp [hx])
      have h1 : c ≠ '-' := by rintro rfl; revert hcd; decide
      have h2 : c ≠ '+' := by rintro rfl; revert hcd; decide
      rw [hx] at hval
      split
      · rename_i heq; simp at heq; exact absurd heq.1 h1
      · rename_i heq; simp at heq; exact absurd heq.1 h2
      · simp only [hval]; simp; omega
/-! ## The parser loop -/

theorem run_append (sep : Char) (strip : Bool) (st : PState) (xs ys : List Char) :
    run sep strip st (xs ++ ys) = (match run sep strip st xs with
      | .ok st' => run sep strip st' ys
      | .error e => .error e) := by
  induction xs generalizing st with
  | nil => simp [run]
  | cons x xs ih =>
    simp only [List.cons_append, run]
    cases step sep strip st x with
    | error e => simp
    | ok st' => simpa using ih st'

theorem run_append_ok {sep : Char} {strip : Bool} {st st' : PState} {xs : List Char}
    (h : run sep strip st xs = .ok st') (ys : List Char) :
    run sep strip st (xs ++ ys) = run sep strip st' ys := by
  rw [run_append, h]

/-- no flag of the state machine is pending: the next character is read on its own merits -/
structure LitOK (st : PState) : Prop where
  esc : st.escapeNext = false
  rx : st.capturingRegex = false
  srd : st.seekingRegexDelim = false
  ncm : st.nextCharMustBe = none

/-- the state after a character has been taken literally into the pending text -/
def PState.lit (st : PState) (c : Char) : PState :=
  { st with count := st.stack.length, segId := st.segId ++ [c],
            seekingAnchorMark := false, seekingCollectorOp := false }

/-- a character with no special meaning, in a position where it is not taken for an anchor mark,
a collector operator or a search operator -/
structure Inert (sep : Char) (st : PState) (c : Char) : Prop where
  ns : special sep c = false
  am : ¬ (st.seekingAnchorMark = true ∧ c = '&')
  co : ¬ (st.seekingCollectorOp = true ∧ (c = '+' ∨ c = '-' ∨ c = '&'))
  op : ¬ (st.stack.length = 1 ∧ st.stack.head? = some '[' ∧ isOp c = true)

theorem step_inert (sep : Char) (st : PState) (c : Char) (h : LitOK st) (hc : Inert sep st c) :
    step sep true st c = .ok (st.lit c) := by
  obtain ⟨e, r, s, n⟩ := h
  obtain ⟨ns, am, co, op⟩ := hc
  simp [special] at ns
  obtain ⟨⟨⟨⟨⟨⟨⟨⟨⟨⟨⟨h1, h2⟩, h3⟩, h4⟩, h5⟩, h6⟩, h7⟩, h8⟩, h9⟩, h10⟩, h11⟩, h12⟩ := ns
  have hpre : pre0 st c = { st with count := st.stack.length } := by simp [pre0, n]
  simp only [step, stepCore, hpre, dispatch]
  simp [*, PState.lit, PState.append]

theorem lit_ok {st : PState} (c : Char) (h : LitOK st) : LitOK (st.lit c) := by
  obtain ⟨e, r, s, n⟩ := h
  constructor <;> simp [PState.lit, *]

theorem run_escaped (sep : Char) (st : PState) (c : Char) (h : LitOK st) :
    run sep true st ['\\', c] = .ok (st.lit c) := by
  obtain ⟨e, r, s, n⟩ := h
  have hpre : pre0 st '\\' = { st with count := st.stack.length } := by simp [pre0, n]
  cases st
  simp_all [run, step, stepCore, dispatch, pre0, hBackslash, hEscaped, PState.lit, PState.append]

/-- later characters of a text: the anchor-mark and collector-operator positions are over -/
structure InertIn (sep : Char) (st : PState) (c : Char) : Prop where
  ok : special sep c = true ∨
    (¬ (st.stack.length = 1 ∧ st.stack.head? = some '[' ∧ isOp c = true))

theorem run_escChar (sep : Char) (st : PState) (c : Char) (h : LitOK st)
    (hc : special sep c = true ∨ Inert sep st c) :
    run sep true st (escChar sep c) = .ok (st.lit c) := by
  unfold escChar
  split
  · exact run_escaped sep st c h
  · rename_i hs
    rcases hc with hc | hc
    · exact absurd hc hs
    · simp [run, step_inert sep st c h hc]

/-- the state after a whole text has been taken literally -/
def PState.lits (st : PState) (k : Str) : PState := k.foldl PState.lit st

/-- what the text may contain, given where it stands: `inBr` = directly inside `[ ]` -/
def textOK (sep : Char) (inBr : Bool) (k : Str) : Prop :=
  ∀ c ∈ k, special sep c = true ∨ (inBr = true → isOp c = false)

theorem lit_stack (st : PState) (c : Char) : (st.lit c).stack = st.stack := rfl

theorem inert_after_lit {sep : Char} {st : PState} {c d : Char}
    (hd : special sep d = true ∨ ((st.stack.length = 1 ∧ st.stack.head? = some '[') → isOp d = false)) :
    special sep d = true ∨ Inert sep (st.lit c) d := by
  rcases hd with hd | hd
  · exact Or.inl hd
  · by_cases hs : special sep d = true
    · exact Or.inl hs
    · refine Or.inr ⟨by simpa using hs, by simp [PState.lit], by simp [PState.lit], ?_⟩
      rintro ⟨h1, h2, h3⟩
      have := hd ⟨h1, h2⟩
      simp [this] at h3

theorem run_escText_tail (sep : Char) (k : Str) : ∀ (st : PState) (c0 : Char), LitOK st →
    (∀ d ∈ k, special sep d = true ∨ ((st.stack.length = 1 ∧ st.stack.head? = some '[') → isOp d = false)) →
    run sep true (st.lit c0) (escText sep k) = .ok ((st.lit c0).lits k) := by
  induction k with
  | nil => intro st c0 _ _; simp [escText, run, PState.lits]
  | cons d ds ih =>
    intro st c0 h hk
    have hd := hk d (by simp)
    have h1 : run sep true (st.lit c0) (escChar sep d) = .ok ((st.lit c0).lit d) :=
      run_escChar sep _ d (lit_ok c0 h) (inert_after_lit hd)
    have : escText sep (d :: ds) = escChar sep d ++ escText sep ds := by simp [escText]
    rw [this, run_append_ok h1]
    have := ih (st.lit c0) d (lit_ok c0 h) (fun e he => by
      simpa [lit_stack] using hk e (by simp [he]))
    simpa [PState.lits] using this

/-- consuming the written form of a non-empty text appends exactly the text to the pending
segment text -/
theorem run_escText (sep : Char) (st : PState) (c : Char) (k : Str) (h : LitOK st)
    (hc : special sep c = true ∨ Inert sep st c)
    (hk : ∀ d ∈ k, special sep d = true ∨ ((st.stack.length = 1 ∧ st.stack.head? = some '[') → isOp d = false)) :
    run sep true st (escText sep (c :: k)) = .ok (st.lits (c :: k)) := by
  have : escText sep (c :: k) = escChar sep c ++ escText sep k := by simp [escText]
  rw [this, run_append_ok (run_escChar sep st c h hc)]
  simpa [PState.lits] using run_escText_tail sep k st c h hk

theorem lits_eq (st : PState) (c : Char) (k : Str) :
    st.lits (c :: k) = { st with count := st.stack.length, segId := st.segId ++ c :: k,
                                 seekingAnchorMark := false, seekingCollectorOp := false } := by
  induction k generalizing st c with
  | nil => simp [PState.lits, PState.lit]
  | cons d ds ih =>
    have : st.lits (c :: d :: ds) = (st.lit c).lits (d :: ds) := by simp [PState.lits]
    rw [this, ih]
    simp [PState.lit]

/-! ## Between segments -/

structure Quiet (st : PState) : Prop where
  lit : LitOK st
  stack : st.stack = []
  lvl : st.collectorLevel = 0
  cop : st.collectorOp = .none
  cnt : st.count = 0

/-- the segments recorded so far, the pending key-like text (if any) included -/
def flushedSegs (st : PState) : Except PErr (List Seg) :=
  if st.segId ≠ [] then
    match expandSplats st.segId (keyType st.segType) with
    | .ok sg => .ok (sg :: st.segs).reverse
    | .error e => .error e
  else .ok st.segs.reverse

/-- "between segments": nothing is open, and the segments read so far are `ss`.
`ac` = the last segment was a collector (an operator may follow). -/
structure Inv (ac : Bool) (st : PState) (ss : List Seg) : Prop where
  q : Quiet st
  sco : st.seekingCollectorOp = ac
  fl : flushedSegs st = .ok ss

theorem finish_of_inv {ac : Bool} {st : PState} {ss : List Seg} (h : Inv ac st ss) :
    finish st = .ok ss := by
  obtain ⟨⟨⟨e, r, s, n⟩, hs, hl, ho, hc⟩, _, hf⟩ := h
  unfold finish
  unfold flushedSegs at hf
  simp only [hl, r, hc]
  by_cases hid : st.segId = []
  · simp [hid] at hf ⊢; exact hf
  · simp [hid] at hf ⊢
    cases hx : expandSplats st.segId (keyType st.segType) with
    | error e => simp [hx] at hf
    | ok sg => simp [hx] at hf ⊢; exact hf

theorem flushSeg_of {st : PState} {ss : List Seg} (h : flushedSegs st = .ok ss) :
    flushSeg st = .ok { st with segs := ss.reverse, segId := [] } := by
  unfold flushedSegs at h
  unfold flushSeg
  by_cases hid : st.segId = []
  · simp [hid] at h ⊢
    subst h
    cases st
    simp_all
  · simp [hid] at h ⊢
    cases hx : expandSplats st.segId (keyType st.segType) with
    | error e => simp [hx] at h
    | ok sg =>
      simp [hx] at h ⊢
      subst h
      simp

theorem dispatch_sep {sep : Char} (hsep : sep = '.' ∨ sep = '/') {st : PState} (h : LitOK st)
    (hs : st.stack = []) (hc : st.count = 0) : dispatch sep true st sep = hSep st := by
  obtain ⟨e, r, s, n⟩ := h
  rcases hsep with rfl | rfl <;> simp [dispatch, *]

theorem pre0_id {st : PState} (c : Char) (hn : st.nextCharMustBe = none)
    (hc : st.count = st.stack.length) : pre0 st c = st := by
  cases st
  simp_all [pre0]

theorem step_sep {sep : Char} (hsep : sep = '.' ∨ sep = '/') {ac : Bool} {st : PState}
    {ss : List Seg} (h : Inv ac st ss) :
    ∃ st1, step sep true st sep = .ok st1 ∧ Inv ac st1 ss ∧ st1.segId = [] ∧ st1.segType = none := by
  obtain ⟨⟨⟨e, r, s, n⟩, hs, hl, ho, hc⟩, hsc, hf⟩ := h
  have hpre : pre0 st sep = st := pre0_id sep n (by simp [hs, hc])
  refine ⟨{ st with segs := ss.reverse, segId := [], segType := none,
                     seekingAnchorMark := true }, ?_, ?_, rfl, rfl⟩
  · simp only [step, stepCore, hpre]
    rw [dispatch_sep hsep ⟨e, r, s, n⟩ hs hc]
    simp only [hSep, flushSeg_of hf]
  · refine ⟨⟨⟨e, r, s, n⟩, hs, hl, ho, hc⟩, hsc, ?_⟩
    simp [flushedSegs]

theorem keylike {sep : Char} {ac : Bool} {st : PState} {ss : List Seg} (h : Inv ac st ss)
    (hid : st.segId = []) (hty : st.segType = none) (c : Char) (k : Str) (sg : Seg)
    (hc : special sep c = true ∨ (c ≠ '&' ∧ (ac = true → c ≠ '+' ∧ c ≠ '-')))
    (hx : expandSplats (c :: k) .key = .ok sg) :
    ∃ st', run sep true st (escText sep (c :: k)) = .ok st' ∧ Inv false st' (ss ++ [sg]) := by
  obtain ⟨⟨hl, hs, hlv, ho, hcn⟩, hsc, hf⟩ := h
  refine ⟨st.lits (c :: k), ?_, ?_⟩
  · apply run_escText sep st c k hl
    · rcases hc with hc | ⟨h1, h2⟩
      · exact Or.inl hc
      · by_cases hsp : special sep c = true
        · exact Or.inl hsp
        · refine Or.inr ⟨by simpa using hsp, by simp [h1], ?_, by simp [hs]⟩
          rintro ⟨hco, h3⟩
          have := h2 (by rw [← hsc]; exact hco)
          rcases h3 with h3 | h3 | h3 <;> simp_all
    · intro d _; right; simp [hs]
  · rw [lits_eq]
    obtain ⟨e, r, s, n⟩ := hl
    refine ⟨⟨⟨e, r, s, n⟩, hs, hlv, ho, by simp [hs]⟩, rfl, ?_⟩
    unfold flushedSegs at hf ⊢
    simp [hid] at hf
    simp [hid, hty, keyType, hx, ← hf]

/-! ## Bracketed segments -/

/-- the state right after a top-level `[` -/
def opened (st : PState) (ss : List Seg) : PState :=
  { st with segs := ss.reverse, segId := [], segType := some .index, seekingCollectorOp := false,
            seekingAnchorMark := true, searchInverted := false, searchMethod := none,
            searchAttr := [], stack := ['['], count := 1 }

theorem dispatch_open {sep : Char} {st : PState} (h : LitOK st)
    (hs : st.stack = []) (hc : st.count = 0) : dispatch sep true st '[' = hOpenBracket st '[' := by
  obtain ⟨e, r, s, n⟩ := h
  simp [dispatch, *]

theorem step_open {sep : Char} {ac : Bool} {st : PState} {ss : List Seg} (h : Inv ac st ss) :
    step sep true st '[' = .ok (opened st ss) := by
  obtain ⟨⟨⟨e, r, s, n⟩, hs, hl, ho, hc⟩, hsc, hf⟩ := h
  have hpre : pre0 st '[' = st := pre0_id _ n (by simp [hs, hc])
  simp only [step, stepCore, hpre]
  rw [dispatch_open ⟨e, r, s, n⟩ hs hc]
  simp only [hOpenBracket, flushSeg_of hf, PState.push, opened, hs, hc]

/-- directly inside a top-level `[ ]` -/
structure InBr (st : PState) (ss : List Seg) : Prop where
  esc : st.escapeNext = false
  rx : st.capturingRegex = false
  srd : st.seekingRegexDelim = false
  ncm : st.nextCharMustBe = none ∨ st.nextCharMustBe = some ']'
  stack : st.stack = ['[']
  segs : st.segs = ss.reverse
  lvl : st.collectorLevel = 0
  cop : st.collectorOp = .none
  sco : st.seekingCollectorOp = false

theorem opened_inBr {ac : Bool} {st : PState} {ss : List Seg} (h : Inv ac st ss) :
    InBr (opened st ss) ss ∧ LitOK (opened st ss) := by
  obtain ⟨⟨⟨e, r, s, n⟩, hs, hl, ho, hc⟩, hsc, hf⟩ := h
  exact ⟨⟨e, r, s, Or.inl n, rfl, rfl, hl, ho, rfl⟩, ⟨e, r, s, n⟩⟩

/-- the closing `]`: the segment `closeSeg` builds is appended and the parser is between segments -/
theorem step_close {sep : Char} {st : PState} {ss : List Seg} {sg : Seg} (h : InBr st ss)
    (hcs : closeSeg st = .ok sg) :
    ∃ st', step sep true st ']' = .ok st' ∧ Inv false st' (ss ++ [sg]) := by
  obtain ⟨e, r, s, n, hs, hsg, hl, ho, hsc⟩ := h
  have hpre : pre0 st ']' = { st with count := 1, nextCharMustBe := none } := by
    rcases n with n | n <;> simp [pre0, n, hs]
  have hcs' : closeSeg { st with count := 1, nextCharMustBe := none } = .ok sg := hcs
  refine ⟨{ ({ st with count := 1, nextCharMustBe := none } : PState).pop with
      segs := sg :: st.segs, segId := [], segType := none, searchMethod := none,
      searchInverted := false, searchKeyword := none }, ?_, ?_⟩
  · simp only [step, stepCore, hpre]
    have : dispatch sep true { st with count := 1, nextCharMustBe := none } ']'
        = hCloseBracket { st with count := 1, nextCharMustBe := none } := by
      simp [dispatch, *, isOp]
    rw [this]
    simp only [hCloseBracket, hcs']
  · refine ⟨⟨⟨by simp [PState.pop, e], by simp [PState.pop, r], by simp [PState.pop, s],
        by simp [PState.pop]⟩, by simp [PState.pop, hs], by simp [PState.pop, hl],
        by simp [PState.pop, ho], by simp [PState.pop]⟩, by simp [PState.pop, hsc], ?_⟩
    simp [flushedSegs, PState.pop, hsg]

theorem escText_raw {sep : Char} {k : Str} (h : ∀ c ∈ k, special sep c = false) :
    escText sep k = k := by
  induction k with
  | nil => simp [escText]
  | cons c cs ih =>
    have hc := h c (by simp)
    have := ih (fun d hd => h d (by simp [hd]))
    simp [escText, escChar, hc] at this ⊢
    exact this

/-! ## One segment at a time -/

/-- the conclusion of every per-kind lemma -/
def Simulates (sep : Char) (lead : Bool) (ac : Bool) (st : PState) (ss : List Seg) (seg : Seg) : Prop :=
  ∃ st', run sep true st (writeSeg sep lead seg) = .ok st' ∧ Inv (isColl seg) st' (ss ++ [seg])

theorem expandSplats_plain {k : Str} (h : k.contains '*' = false) (t : SegType) :
    expandSplats k t = .ok (t, .str k) := by
  have : k.count '*' = 0 := by
    rw [List.count_eq_zero]
    simpa using h
  simp [expandSplats, this]

/-- key-like text after an optional separator -/
theorem keylike_lead {sep : Char} (hsep : sep = '.' ∨ sep = '/') {ac : Bool} {st : PState}
    {ss : List Seg} (h : Inv ac st ss) (lead : Bool)
    (hlead : lead = false → st.segId = [] ∧ st.segType = none) (c : Char) (k : Str) (sg : Seg)
    (hc : special sep c = true ∨ (c ≠ '&' ∧ (ac = true → c ≠ '+' ∧ c ≠ '-')))
    (hx : expandSplats (c :: k) .key = .ok sg) :
    ∃ st', run sep true st ((if lead then [sep] else []) ++ escText sep (c :: k)) = .ok st' ∧
      Inv false st' (ss ++ [sg]) := by
  cases lead with
  | false =>
    obtain ⟨h1, h2⟩ := hlead rfl
    simpa using keylike h h1 h2 c k sg hc hx
  | true =>
    obtain ⟨st1, hs1, hi1, h1, h2⟩ := step_sep hsep h
    obtain ⟨st', hr, hi⟩ := keylike (sep := sep) hi1 h1 h2 c k sg hc hx
    refine ⟨st', ?_, hi⟩
    simp only [↓reduceIte, List.cons_append, List.nil_append, run, hs1]
    exact hr

theorem seg_key {sep : Char} (hsep : sep = '.' ∨ sep = '/') {ac : Bool} {st : PState}
    {ss : List Seg} (h : Inv ac st ss) (lead : Bool)
    (hlead : lead = false → st.segId = [] ∧ st.segType = none) (k : Str)
    (hwf : wfSeg ac (.key, .str k) = true) : Simulates sep lead ac st ss (.key, .str k) := by
  simp only [wfSeg, wfKeyText, Bool.and_eq_true, Bool.not_eq_true', decide_eq_true_eq,
    Bool.or_eq_true, Bool.and_eq_false_imp] at hwf
  obtain ⟨⟨⟨⟨hne, hstar⟩, hamp⟩, _⟩, hpm⟩ := hwf
  cases k with
  | nil => simp at hne
  | cons c k =>
    have := keylike_lead hsep h lead hlead c k (.key, .str (c :: k))
      (Or.inr ⟨by simpa using hamp, fun hac => by simpa [hac] using hpm⟩)
      (expandSplats_plain hstar _)
    simpa [Simulates, writeSeg, isColl] using this

theorem special_star {sep : Char} (hsep : sep = '.' ∨ sep = '/') : special sep '*' = false := by
  rcases hsep with rfl | rfl <;> decide

theorem seg_matchAll {sep : Char} (hsep : sep = '.' ∨ sep = '/') {ac : Bool} {st : PState}
    {ss : List Seg} (h : Inv ac st ss) (lead : Bool)
    (hlead : lead = false → st.segId = [] ∧ st.segType = none) :
    Simulates sep lead ac st ss (.matchAll, .none) := by
  have := keylike_lead hsep h lead hlead '*' [] (.matchAll, .none)
    (Or.inr ⟨by decide, fun _ => by decide⟩) (by decide)
  simpa [Simulates, writeSeg, isColl, escText, escChar, special_star hsep] using this

theorem seg_traverse {sep : Char} (hsep : sep = '.' ∨ sep = '/') {ac : Bool} {st : PState}
    {ss : List Seg} (h : Inv ac st ss) (lead : Bool)
    (hlead : lead = false → st.segId = [] ∧ st.segType = none) :
    Simulates sep lead ac st ss (.traverse, .none) := by
  have := keylike_lead hsep h lead hlead '*' ['*'] (.traverse, .none)
    (Or.inr ⟨by decide, fun _ => by decide⟩) (by decide)
  simpa [Simulates, writeSeg, isColl, escText, escChar, special_star hsep] using this

/-- a bracketed segment: `[`, a body that leaves the parser inside the bracket with `closeSeg`
yielding `sg`, `]` -/
theorem bracketed {sep : Char} {ac : Bool} {st : PState} {ss : List Seg} (h : Inv ac st ss)
    (body : Str) (sg : Seg)
    (hb : ∃ b', run sep true (opened st ss) body = .ok b' ∧ InBr b' ss ∧ closeSeg b' = .ok sg) :
    ∃ st', run sep true st ('[' :: (body ++ [']'])) = .ok st' ∧ Inv false st' (ss ++ [sg]) := by
  obtain ⟨b', hr, hib, hcs⟩ := hb
  obtain ⟨st', hs, hi⟩ := step_close (sep := sep) hib hcs
  refine ⟨st', ?_, hi⟩
  simp only [run, step_open h]
  rw [run_append_ok hr]
  simp [run, hs]

theorem inBr_lits {st : PState} {ss : List Seg} (h : InBr st ss) (hn : st.nextCharMustBe = none)
    (c : Char) (k : Str) : InBr (st.lits (c :: k)) ss := by
  obtain ⟨e, r, s, n, hs, hsg, hl, ho, hsc⟩ := h
  rw [lits_eq]
  exact ⟨e, r, s, Or.inl hn, hs, hsg, hl, ho, rfl⟩

theorem seg_slice {sep : Char} (hsep : sep = '.' ∨ sep = '/') {ac : Bool} {st : PState}
    {ss : List Seg} (h : Inv ac st ss) (lead : Bool) (sl : Str)
    (hwf : wfSeg ac (.index, .str sl) = true) : Simulates sep lead ac st ss (.index, .str sl) := by
  simp only [wfSeg, wfSlice, Bool.and_eq_true, List.all_eq_true] at hwf
  obtain ⟨hcol, hall⟩ := hwf
  have hns : ∀ c ∈ sl, special sep c = false ∧ isOp c = false ∧ c ≠ '&' := by
    intro c hc
    have := hall c hc
    simp only [sliceChar, isDigit, Bool.or_eq_true, Bool.and_eq_true, decide_eq_true_eq] at this
    rcases hsep with rfl | rfl <;> rcases this with (⟨h1, h2⟩ | rfl) | rfl
    all_goals first | decide | skip
    all_goals
      refine ⟨?_, ?_, ?_⟩
      · simp only [special, Bool.or_eq_false_iff, decide_eq_false_iff_not]
        refine ⟨⟨⟨⟨⟨⟨⟨⟨⟨⟨⟨?_, ?_⟩, ?_⟩, ?_⟩, ?_⟩, ?_⟩, ?_⟩, ?_⟩, ?_⟩, ?_⟩, ?_⟩, ?_⟩ <;>
          (rintro rfl; revert h1 h2; decide)
      · simp only [isOp, Bool.or_eq_false_iff, decide_eq_false_iff_not]
        refine ⟨⟨⟨⟨⟨⟨⟨?_, ?_⟩, ?_⟩, ?_⟩, ?_⟩, ?_⟩, ?_⟩, ?_⟩ <;> (rintro rfl; revert h1 h2; decide)
      · rintro rfl; revert h1 h2; decide
  cases sl with
  | nil => simp at hcol
  | cons c k =>
    obtain ⟨hib, hlo⟩ := opened_inBr h
    have hrun : run sep true (opened st ss) (c :: k) = .ok ((opened st ss).lits (c :: k)) := by
      have := run_escText sep (opened st ss) c k hlo
        (Or.inr ⟨(hns c (by simp)).1, by simp [(hns c (by simp)).2.2], by simp [opened],
          by simp [(hns c (by simp)).2.1]⟩)
        (fun d hd => Or.inr (fun _ => (hns d (by simp [hd])).2.1))
      rwa [escText_raw (fun d hd => (hns d hd).1)] at this
    have := bracketed (sep := sep) h (c :: k) (.index, .str (c :: k))
      ⟨_, hrun, inBr_lits hib hlo.ncm c k, by
        rw [lits_eq]
        have hm : ':' = c ∨ ':' ∈ k := by simpa using hcol
        simp only [closeSeg, opened, List.nil_append, List.contains_eq_mem, List.mem_cons,
          decide_eq_true_eq, true_and]
        simp [hm]⟩
    simpa [Simulates, writeSeg, isColl] using this

theorem isOp_of {sep c : Char} (h1 : special sep c = false) (h2 : opChar c = false) :
    isOp c = false := by
  simp only [special, Bool.or_eq_false_iff, decide_eq_false_iff_not] at h1
  simp only [opChar, Bool.or_eq_false_iff, decide_eq_false_iff_not] at h2
  simp only [isOp, Bool.or_eq_false_iff, decide_eq_false_iff_not]
  simp_all

/-- hypotheses of `run_escText` for a text directly inside `[ ]` that holds no operator character -/
theorem textOK_inBr {sep : Char} {k : Str} (h : k.any opChar = false) (st : PState) :
    ∀ d ∈ k, special sep d = true ∨
      ((st.stack.length = 1 ∧ st.stack.head? = some '[') → isOp d = false) := by
  intro d hd
  by_cases hs : special sep d = true
  · exact Or.inl hs
  · right
    intro _
    apply isOp_of (by simpa using hs)
    simp only [List.any_eq_false] at h
    simpa using h d hd

theorem step_amp {sep : Char} {ac : Bool} {st : PState} {ss : List Seg} (h : Inv ac st ss) :
    step sep true (opened st ss) '&' =
      .ok { opened st ss with seekingAnchorMark := false, segType := some .anchor } := by
  obtain ⟨⟨⟨e, r, s, n⟩, hs, hl, ho, hc⟩, hsc, hf⟩ := h
  have hpre : pre0 (opened st ss) '&' = opened st ss := pre0_id _ n rfl
  simp only [step, stepCore, hpre]
  simp [dispatch, opened, hAnchorMark, *]

theorem seg_anchor {sep : Char} {ac : Bool} {st : PState}
    {ss : List Seg} (h : Inv ac st ss) (lead : Bool) (a : Str)
    (hwf : wfSeg ac (.anchor, .str a) = true) : Simulates sep lead ac st ss (.anchor, .str a) := by
  simp only [wfSeg, Bool.and_eq_true, Bool.not_eq_true', decide_eq_true_eq] at hwf
  obtain ⟨⟨hne, _⟩, hop⟩ := hwf
  obtain ⟨hib, hlo⟩ := opened_inBr h
  cases a with
  | nil => simp at hne
  | cons c k =>
    let b1 : PState := { opened st ss with seekingAnchorMark := false, segType := some .anchor }
    have hlo1 : LitOK b1 := ⟨hlo.esc, hlo.rx, hlo.srd, hlo.ncm⟩
    have hib1 : InBr b1 ss := ⟨hib.esc, hib.rx, hib.srd, hib.ncm, hib.stack, hib.segs, hib.lvl, hib.cop, hib.sco⟩
    have hrun : run sep true b1 (escText sep (c :: k)) = .ok (b1.lits (c :: k)) := by
      apply run_escText sep b1 c k hlo1
      · by_cases hsp : special sep c = true
        · exact Or.inl hsp
        · refine Or.inr ⟨by simpa using hsp, by simp [b1], by simp [b1, opened], ?_⟩
          have : opChar c = false := by
            simp only [List.any_cons, Bool.or_eq_false_iff] at hop; exact hop.1
          simp [isOp_of (by simpa using hsp) this]
      · apply textOK_inBr
        simp only [List.any_cons, Bool.or_eq_false_iff] at hop; exact hop.2
    have := bracketed (sep := sep) h ('&' :: escText sep (c :: k)) (.anchor, .str (c :: k))
      ⟨_, by simp only [run, step_amp h]; exact hrun, inBr_lits hib1 hlo1.ncm c k, by
        rw [lits_eq]
        simp [closeSeg, b1, opened]⟩
    simpa [Simulates, writeSeg, isColl] using this

theorem pyStrInt_chars (i : Int) : ∀ c ∈ pyStrInt i, c = '-' ∨ c.isDigit = true := by
  intro c hc
  unfold pyStrInt at hc
  split at hc
  · rcases List.mem_cons.mp hc with rfl | hc
    · exact Or.inl rfl
    · exact Or.inr (natDigits_digit _ c hc)
  · exact Or.inr (natDigits_digit _ c hc)

theorem pyStrInt_ne_nil (i : Int) : pyStrInt i ≠ [] := by
  unfold pyStrInt
  split
  · simp
  · exact Nat.toDigits_ne_nil

theorem seg_int {sep : Char} (hsep : sep = '.' ∨ sep = '/') {ac : Bool} {st : PState}
    {ss : List Seg} (h : Inv ac st ss) (lead : Bool) (i : Int) :
    Simulates sep lead ac st ss (.index, .int i) := by
  have hns : ∀ c ∈ pyStrInt i, special sep c = false ∧ isOp c = false ∧ c ≠ '&' ∧ c ≠ ':' := by
    intro c hc
    rcases pyStrInt_chars i c hc with rfl | hd
    · rcases hsep with rfl | rfl <;> decide
    · simp only [Char.isDigit, Bool.and_eq_true, decide_eq_true_eq] at hd
      refine ⟨?_, ?_, ?_, ?_⟩
      · simp only [special, Bool.or_eq_false_iff, decide_eq_false_iff_not]
        rcases hsep with rfl | rfl <;>
        refine ⟨⟨⟨⟨⟨⟨⟨⟨⟨⟨⟨?_, ?_⟩, ?_⟩, ?_⟩, ?_⟩, ?_⟩, ?_⟩, ?_⟩, ?_⟩, ?_⟩, ?_⟩, ?_⟩ <;>
          (rintro rfl; revert hd; decide)
      · simp only [isOp, Bool.or_eq_false_iff, decide_eq_false_iff_not]
        refine ⟨⟨⟨⟨⟨⟨⟨?_, ?_⟩, ?_⟩, ?_⟩, ?_⟩, ?_⟩, ?_⟩, ?_⟩ <;> (rintro rfl; revert hd; decide)
      · rintro rfl; revert hd; decide
      · rintro rfl; revert hd; decide
  obtain ⟨hib, hlo⟩ := opened_inBr h
  cases hx : pyStrInt i with
  | nil => exact absurd hx (pyStrInt_ne_nil i)
  | cons c k =>
    rw [hx] at hns
    have hrun : run sep true (opened st ss) (c :: k) = .ok ((opened st ss).lits (c :: k)) := by
      have := run_escText sep (opened st ss) c k hlo
        (Or.inr ⟨(hns c (by simp)).1, by simp [(hns c (by simp)).2.2.1], by simp [opened],
          by simp [(hns c (by simp)).2.1]⟩)
        (fun d hd => Or.inr (fun _ => (hns d (by simp [hd])).2.1))
      rwa [escText_raw (fun d hd => (hns d hd).1)] at this
    have := bracketed (sep := sep) h (c :: k) (.index, .int i)
      ⟨_, hrun, inBr_lits hib hlo.ncm c k, by
        rw [lits_eq]
        have hnc : ¬ (':' = c ∨ ':' ∈ k) := by
          rintro (rfl | hm)
          · exact (hns ':' (by simp)).2.2.2 rfl
          · exact (hns ':' (by simp [hm])).2.2.2 rfl
        have hpi : pyInt? (c :: k) = some i := by rw [← hx]; exact pyInt_pyStrInt i
        simp only [closeSeg, opened, List.nil_append, List.contains_eq_mem, List.mem_cons,
          decide_eq_true_eq, true_and]
        simp [hnc, hpi]⟩
    simpa [Simulates, writeSeg, isColl, hx] using this

/-! ## Composition over a segment list -/

/-- segment kinds for which the simulation lemma is available -/
def SimOK (sep : Char) (P : Seg → Prop) : Prop :=
  ∀ (seg : Seg), P seg → ∀ (ac : Bool) (st : PState) (ss : List Seg) (lead : Bool),
    Inv ac st ss → (lead = false → st.segId = [] ∧ st.segType = none) → wfSeg ac seg = true →
    Simulates sep lead ac st ss seg

theorem run_writeFrom {sep : Char} {P : Seg → Prop} (hsim : SimOK sep P) :
    ∀ (segs : List Seg) (ac : Bool) (st : PState) (ss : List Seg) (lead : Bool),
    (∀ s ∈ segs, P s) → Inv ac st ss → (lead = false → st.segId = [] ∧ st.segType = none) →
    wfFrom ac segs = true →
    ∃ st' ac', run sep true st (writeFrom sep lead segs) = .ok st' ∧ Inv ac' st' (ss ++ segs) := by
  intro segs
  induction segs with
  | nil => intro ac st ss lead _ h _ _; exact ⟨st, ac, by simp [writeFrom, run], by simpa using h⟩
  | cons s r ih =>
    intro ac st ss lead hP h hlead hwf
    simp only [wfFrom, Bool.and_eq_true] at hwf
    obtain ⟨st1, hr1, hi1⟩ := hsim s (hP s (by simp)) ac st ss lead h hlead hwf.1
    obtain ⟨st2, ac2, hr2, hi2⟩ := ih (isColl s) st1 (ss ++ [s]) true
      (fun x hx => hP x (by simp [hx])) hi1 (by simp) hwf.2
    refine ⟨st2, ac2, ?_, by simpa using hi2⟩
    simp only [writeFrom]
    rw [run_append_ok hr1]
    exact hr2

theorem normOriginal_of_nonblank {t : Str} (h : ∃ c ∈ t, isPyWs c = false) : normOriginal t = t := by
  obtain ⟨c, hc, hw⟩ := h
  unfold normOriginal
  have : t.all isPyWs = false := by
    simp only [List.all_eq_false]
    exact ⟨c, hc, by simp [hw]⟩
  simp [this]

theorem init_inv (b : Bool) : Inv false ({ seekingAnchorMark := b } : PState) [] :=
  ⟨⟨⟨rfl, rfl, rfl, rfl⟩, rfl, rfl, rfl, rfl⟩, rfl, rfl⟩

/-- the written text of a well-formed first segment holds a character that is not white space -/
theorem writeSeg_nonblank {sep : Char} (seg : Seg) (hwf : wfSeg false seg = true) :
    ∃ c ∈ writeSeg sep false seg, isPyWs c = false := by
  obtain ⟨t, a⟩ := seg
  cases t <;> cases a <;> simp only [wfSeg, Bool.false_eq_true] at hwf
  case key.str k =>
    simp only [wfKeyText, Bool.and_eq_true, Bool.not_eq_true', List.all_eq_false] at hwf
    obtain ⟨⟨_, c, hc, hcw⟩, _⟩ := hwf
    by_cases hs : special sep c = true
    · refine ⟨'\\', ?_, by decide⟩
      simp only [writeSeg, Bool.false_eq_true, ↓reduceIte, List.nil_append, escText,
        List.mem_flatMap]
      exact ⟨c, hc, by simp [escChar, hs]⟩
    · refine ⟨c, ?_, ?_⟩
      · simp only [writeSeg, Bool.false_eq_true, ↓reduceIte, List.nil_append, escText,
          List.mem_flatMap]
        exact ⟨c, hc, by simp [escChar, hs]⟩
      · simp only [isCtlWs, Bool.and_eq_true, not_and, Bool.not_eq_true, decide_eq_true_eq] at hcw
        by_cases hw : isPyWs c = true
        · have := hcw hw
          simp only [ne_eq, Decidable.not_not] at this
          subst this
          simp [special] at hs
        · simpa using hw
  case matchAll.none => exact ⟨'*', by simp [writeSeg], by decide⟩
  case traverse.none => exact ⟨'*', by simp [writeSeg], by decide⟩
  case index.int i => exact ⟨'[', by simp [writeSeg], by decide⟩
  case index.str s => exact ⟨'[', by simp [writeSeg], by decide⟩
  case anchor.str s => exact ⟨'[', by simp [writeSeg], by decide⟩
  case search.search inv m attr term => exact ⟨'[', by simp [writeSeg], by decide⟩
  case keywordSearch.keyword inv kw p => exact ⟨'[', by simp [writeSeg], by decide⟩
  case collector.collector e op =>
    simp only [Bool.false_or, Bool.and_eq_true, decide_eq_true_eq] at hwf
    exact ⟨'(', by simp [writeSeg, hwf.1, CollOp.text], by decide⟩

/-- `parse_write`, for every segment kind whose simulation lemma is available -/
theorem parse_write_of {P : Seg → Prop} (hd : SimOK '.' P) (hf : SimOK '/' P) (fslash : Bool)
    (segs : List Seg) (hP : ∀ s ∈ segs, P s) (hwf : wfSegs segs = true) :
    parseWith fslash true (write fslash segs) = .ok segs := by
  cases fslash with
  | true =>
    have hn : normOriginal (write true segs) = write true segs :=
      normOriginal_of_nonblank ⟨'/', by simp [write], by decide⟩
    have key : ∀ b : Bool, ∃ st2 ac2, run '/' true { seekingAnchorMark := b } (write true segs)
        = .ok st2 ∧ Inv ac2 st2 segs := by
      intro b
      obtain ⟨st1, hs1, hi1, h1, h2⟩ := step_sep (sep := '/') (Or.inr rfl) (init_inv b)
      obtain ⟨st2, ac2, hr2, hi2⟩ := run_writeFrom hf segs false st1 [] false hP hi1
        (fun _ => ⟨h1, h2⟩) hwf
      refine ⟨st2, ac2, ?_, by simpa using hi2⟩
      simp only [write, ↓reduceIte, run, hs1]
      exact hr2
    unfold parseWith
    simp only [hn]
    have hne : write true segs ≠ [] := by simp [write]
    simp only [hne, ↓reduceIte]
    have fin : ∀ b : Bool, (match run '/' true { seekingAnchorMark := b } (write true segs) with
        | .error e => (Except.error e : Except PErr (List Seg))
        | .ok st => finish st) = .ok segs := by
      intro b
      obtain ⟨st2, ac2, hr2, hi2⟩ := key b
      simp only [hr2]
      exact finish_of_inv hi2
    exact fin _
  | false =>
    cases segs with
    | nil => simp [write, writeFrom, parseWith, normOriginal]
    | cons s r =>
      simp only [wfSegs, wfFrom, Bool.and_eq_true] at hwf
      have hn : normOriginal (write false (s :: r)) = write false (s :: r) := by
        apply normOriginal_of_nonblank
        obtain ⟨c, hc, hw⟩ := writeSeg_nonblank (sep := '.') s hwf.1
        exact ⟨c, by simp [write, writeFrom, hc], hw⟩
      obtain ⟨st2, ac2, hr2, hi2⟩ := run_writeFrom hd (s :: r) false
        { seekingAnchorMark := (write false (s :: r))[0]? = some '&' } [] false hP (init_inv _)
        (fun _ => ⟨rfl, rfl⟩) (by simp [wfFrom, hwf])
      unfold parseWith
      simp only [hn]
      have hne : write false (s :: r) ≠ [] := by
        obtain ⟨c, hc, _⟩ := writeSeg_nonblank (sep := '.') s hwf.1
        intro h0
        simp [write, writeFrom] at h0
        simp [h0.1] at hc
      simp only [hne, ↓reduceIte]
      have : run '.' true { seekingAnchorMark := (write false (s :: r))[0]? = some '&' }
          (write false (s :: r)) = .ok st2 := by
        simpa [write] using hr2
      simp only [Bool.false_eq_true, false_and, ↓reduceIte] at this ⊢
      simp only [this]
      simpa using finish_of_inv hi2
