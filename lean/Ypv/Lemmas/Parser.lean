import Ypv.Model.Parser
import Ypv.Spec.Write
/-!
# Basic facts about the parser model (used by C08; the simulation itself is in ParserSim.lean)

From a parser state "between segments", consuming the written form of one segment returns to a
state "between segments" with exactly that segment appended.
-/
namespace Ypv

/-! ## Python `int(str(i))` -/

theorem isDigit_of_core {c : Char} (h : c.isDigit = true) : isDigit c = true := by
  simp only [Char.isDigit, Bool.and_eq_true, decide_eq_true_eq] at h
  simp only [isDigit, Bool.and_eq_true, decide_eq_true_eq]
  exact ⟨by
    show (48 : UInt32) ≤ c.val
    exact h.1, h.2⟩

theorem digitsUS_digits (l : Str) (hl : ∀ c ∈ l, c.isDigit = true) (acc : Nat) (prev : Bool)
    (hne : l ≠ [] ∨ prev = true) :
    digitsUS l acc prev = some (Nat.ofDigitChars 10 l acc) := by
  induction l generalizing acc prev with
  | nil => simp_all [digitsUS]
  | cons c cs ih =>
    have hc := isDigit_of_core (hl c (by simp))
    simp only [digitsUS, hc, ↓reduceIte]
    rw [ih (fun d hd => hl d (by simp [hd])) _ true (Or.inr rfl)]
    simp [Nat.ofDigitChars_cons, digitVal, Nat.mul_comm]

theorem not_ws_of_digit {c : Char} (h : c.isDigit = true) : isPyWs c = false := by
  simp only [Char.isDigit, Bool.and_eq_true, decide_eq_true_eq] at h
  simp only [isPyWs, Bool.or_eq_false_iff, decide_eq_false_iff_not]
  refine ⟨⟨⟨⟨⟨⟨⟨⟨⟨?_, ?_⟩, ?_⟩, ?_⟩, ?_⟩, ?_⟩, ?_⟩, ?_⟩, ?_⟩, ?_⟩ <;>
    (rintro rfl; revert h; decide)

theorem dropWhile_self {p : Char → Bool} : ∀ {l : Str}, (∀ c ∈ l, p c = false) → l.dropWhile p = l
  | [], _ => rfl
  | c :: cs, h => by simp [List.dropWhile, h c (by simp)]

theorem stripWs_self {l : Str} (h : ∀ c ∈ l, isPyWs c = false) : stripWs l = l := by
  unfold stripWs
  rw [dropWhile_self h, dropWhile_self (by simpa using h)]
  simp

theorem natDigits_digit (n : Nat) : ∀ c ∈ natDigits n, c.isDigit = true :=
  fun _ hc => Nat.isDigit_of_mem_toDigits (by decide) (by decide) hc

theorem pyInt_pyStrInt (i : Int) : pyInt? (pyStrInt i) = some i := by
  have hd := natDigits_digit i.natAbs
  have hne : natDigits i.natAbs ≠ [] := Nat.toDigits_ne_nil
  have hval : digitsUS (natDigits i.natAbs) 0 false = some i.natAbs := by
    rw [digitsUS_digits _ hd 0 false (Or.inl hne)]
    simp [natDigits]
  unfold pyStrInt
  split
  · rename_i hneg
    have hws : ∀ c ∈ '-' :: natDigits i.natAbs, isPyWs c = false := by
      intro c hc
      rcases List.mem_cons.mp hc with rfl | hc
      · decide
      · exact not_ws_of_digit (hd c hc)
    simp only [pyInt?, stripWs_self hws, hval]
    simp; omega
  · rename_i hneg
    have hws : ∀ c ∈ natDigits i.natAbs, isPyWs c = false := fun c hc => not_ws_of_digit (hd c hc)
    unfold pyInt?
    rw [stripWs_self hws]
    cases hx : natDigits i.natAbs with
    | nil => exact absurd hx hne
    | cons c cs =>
      have hcd : c.isDigit = true := hd c (by simp [hx])
      have h1 : c ≠ '-' := by rintro rfl; revert hcd; decide
      have h2 : c ≠ '+' := by rintro rfl; revert hcd; decide
      rw [hx] at hval
      split
      · rename_i heq; simp at heq; exact absurd heq.1 h1
      · rename_i heq; simp at heq; exact absurd heq.1 h2
      · simp only [hval]; simp; omega
/-! ## The parser loop -/

theorem run_append (sep : Char) (strip : Bool) (st : PState) (xs ys : List Char) :
    run sep strip st (xs ++ ys) = (match run sep strip st xs with
      | .ok st' => run sep strip st' ys
      | .error e => .error e) := by
  induction xs generalizing st with
  | nil => simp [run]
  | cons x xs ih =>
    simp only [List.cons_append, run]
    cases step sep strip st x with
    | error e => simp
    | ok st' => simpa using ih st'

theorem run_append_ok {sep : Char} {strip : Bool} {st st' : PState} {xs : List Char}
    (h : run sep strip st xs = .ok st') (ys : List Char) :
    run sep strip st (xs ++ ys) = run sep strip st' ys := by
  rw [run_append, h]

/-- no flag of the state machine is pending: the next character is read on its own merits -/
structure LitOK (st : PState) : Prop where
  esc : st.escapeNext = false
  rx : st.capturingRegex = false
  srd : st.seekingRegexDelim = false
  ncm : st.nextCharMustBe = none

/-- the state after a character has been taken literally into the pending text -/
def PState.lit (st : PState) (c : Char) : PState :=
  { st with count := st.stack.length, segId := st.segId ++ [c],
            seekingAnchorMark := false, seekingCollectorOp := false }

theorem lit_ok {st : PState} (c : Char) (h : LitOK st) : LitOK (st.lit c) := by
  obtain ⟨e, r, s, n⟩ := h
  constructor <;> simp [PState.lit, *]

/-- the state after a whole text has been taken literally -/
def PState.lits (st : PState) (k : Str) : PState := k.foldl PState.lit st

theorem lits_eq (st : PState) (c : Char) (k : Str) :
    st.lits (c :: k) = { st with count := st.stack.length, segId := st.segId ++ c :: k,
                                 seekingAnchorMark := false, seekingCollectorOp := false } := by
  induction k generalizing st c with
  | nil => simp [PState.lits, PState.lit]
  | cons d ds ih =>
    have : st.lits (c :: d :: ds) = (st.lit c).lits (d :: ds) := by simp [PState.lits]
    rw [this, ih]
    simp [PState.lit]

/-! ## Between segments -/

structure Quiet (st : PState) : Prop where
  lit : LitOK st
  stack : st.stack = []
  lvl : st.collectorLevel = 0
  cop : st.collectorOp = .none
  cnt : st.count = 0

/-- the segments recorded so far, the pending key-like text (if any) included -/
def flushedSegs (st : PState) : Except PErr (List Seg) :=
  if st.segId ≠ [] then
    match expandSplats st.segId (keyType st.segType) with
    | .ok sg => .ok (sg :: st.segs).reverse
    | .error e => .error e
  else .ok st.segs.reverse

/-- "between segments": nothing is open, and the segments read so far are `ss`.
`ac` = the last segment was a collector (an operator may follow). -/
structure Inv (ac : Bool) (st : PState) (ss : List Seg) : Prop where
  q : Quiet st
  sco : st.seekingCollectorOp = ac
  fl : flushedSegs st = .ok ss

theorem finish_of_inv {ac : Bool} {st : PState} {ss : List Seg} (h : Inv ac st ss) :
    finish st = .ok ss := by
  obtain ⟨⟨⟨e, r, s, n⟩, hs, hl, ho, hc⟩, _, hf⟩ := h
  unfold finish
  unfold flushedSegs at hf
  simp only [hl, r, hc]
  by_cases hid : st.segId = []
  · simp [hid] at hf ⊢; exact hf
  · simp [hid] at hf ⊢
    cases hx : expandSplats st.segId (keyType st.segType) with
    | error e => simp [hx] at hf
    | ok sg => simp [hx] at hf ⊢; exact hf

theorem flushSeg_of {st : PState} {ss : List Seg} (h : flushedSegs st = .ok ss) :
    flushSeg st = .ok { st with segs := ss.reverse, segId := [] } := by
  unfold flushedSegs at h
  unfold flushSeg
  by_cases hid : st.segId = []
  · simp [hid] at h ⊢
    subst h
    cases st
    simp_all
  · simp [hid] at h ⊢
    cases hx : expandSplats st.segId (keyType st.segType) with
    | error e => simp [hx] at h
    | ok sg =>
      simp [hx] at h ⊢
      subst h
      simp

theorem pre0_id {st : PState} (c : Char) (hn : st.nextCharMustBe = none)
    (hc : st.count = st.stack.length) : pre0 st c = st := by
  cases st
  simp_all [pre0]

/-! ## Bracketed segments -/

/-- the state right after a top-level `[` -/
def opened (st : PState) (ss : List Seg) : PState :=
  { st with segs := ss.reverse, segId := [], segType := some .index, seekingCollectorOp := false,
            seekingAnchorMark := true, searchInverted := false, searchMethod := none,
            searchAttr := [], stack := ['['], count := 1 }

/-- directly inside a top-level `[ ]` -/
structure InBr (st : PState) (ss : List Seg) : Prop where
  esc : st.escapeNext = false
  rx : st.capturingRegex = false
  srd : st.seekingRegexDelim = false
  ncm : st.nextCharMustBe = none ∨ st.nextCharMustBe = some ']'
  stack : st.stack = ['[']
  segs : st.segs = ss.reverse
  lvl : st.collectorLevel = 0
  cop : st.collectorOp = .none
  sco : st.seekingCollectorOp = false

theorem opened_inBr {ac : Bool} {st : PState} {ss : List Seg} (h : Inv ac st ss) :
    InBr (opened st ss) ss ∧ LitOK (opened st ss) := by
  obtain ⟨⟨⟨e, r, s, n⟩, hs, hl, ho, hc⟩, hsc, hf⟩ := h
  exact ⟨⟨e, r, s, Or.inl n, rfl, rfl, hl, ho, rfl⟩, ⟨e, r, s, n⟩⟩

/-! ## One segment at a time -/

theorem expandSplats_plain {k : Str} (h : k.contains '*' = false) (t : SegType) :
    expandSplats k t = .ok (t, .str k) := by
  have : k.count '*' = 0 := by
    rw [List.count_eq_zero]
    simpa using h
  simp [expandSplats, this]

theorem isOp_of {sep c : Char} (h1 : special sep c = false) (h2 : opChar c = false) :
    isOp c = false := by
  simp only [special, Bool.or_eq_false_iff, decide_eq_false_iff_not] at h1
  simp only [opChar, Bool.or_eq_false_iff, decide_eq_false_iff_not] at h2
  simp only [isOp, Bool.or_eq_false_iff, decide_eq_false_iff_not]
  simp_all

theorem pyStrInt_chars (i : Int) : ∀ c ∈ pyStrInt i, c = '-' ∨ c.isDigit = true := by
  intro c hc
  unfold pyStrInt at hc
  split at hc
  · rcases List.mem_cons.mp hc with rfl | hc
    · exact Or.inl rfl
    · exact Or.inr (natDigits_digit _ c hc)
  · exact Or.inr (natDigits_digit _ c hc)

theorem pyStrInt_ne_nil (i : Int) : pyStrInt i ≠ [] := by
  unfold pyStrInt
  split
  · simp
  · exact Nat.toDigits_ne_nil

/-! ## Composition over a segment list -/

theorem normOriginal_of_nonblank {t : Str} (h : ∃ c ∈ t, isPyWs c = false) : normOriginal t = t := by
  obtain ⟨c, hc, hw⟩ := h
  unfold normOriginal
  have : t.all isPyWs = false := by
    simp only [List.all_eq_false]
    exact ⟨c, hc, by simp [hw]⟩
  simp [this]

theorem init_inv (b : Bool) : Inv false ({ seekingAnchorMark := b } : PState) [] :=
  ⟨⟨⟨rfl, rfl, rfl, rfl⟩, rfl, rfl, rfl, rfl⟩, rfl, rfl⟩

/-- the written text of a well-formed first segment holds a character that is not white space -/
theorem writeSeg_nonblank {sep : Char} (seg : Seg) (hwf : wfSeg false seg = true) :
    ∃ c ∈ writeSeg sep false seg, isPyWs c = false := by
  obtain ⟨t, a⟩ := seg
  cases t <;> cases a <;> simp only [wfSeg, Bool.false_eq_true] at hwf
  case key.str k =>
    simp only [wfKeyText, Bool.and_eq_true, Bool.not_eq_true', List.all_eq_false] at hwf
    obtain ⟨⟨_, c, hc, hcw⟩, _⟩ := hwf
    by_cases hs : special sep c = true
    · refine ⟨'\\', ?_, by decide⟩
      simp only [writeSeg, Bool.false_eq_true, ↓reduceIte, List.nil_append, escText,
        List.mem_flatMap]
      exact ⟨c, hc, by simp [escChar, hs]⟩
    · refine ⟨c, ?_, ?_⟩
      · simp only [writeSeg, Bool.false_eq_true, ↓reduceIte, List.nil_append, escText,
          List.mem_flatMap]
        exact ⟨c, hc, by simp [escChar, hs]⟩
      · simp only [isCtlWs, Bool.and_eq_true, not_and, Bool.not_eq_true, decide_eq_true_eq] at hcw
        by_cases hw : isPyWs c = true
        · have := hcw hw
          simp only [ne_eq, Decidable.not_not] at this
          subst this
          simp [special] at hs
        · simpa using hw
  case matchAll.none => exact ⟨'*', by simp [writeSeg], by decide⟩
  case traverse.none => exact ⟨'*', by simp [writeSeg], by decide⟩
  case index.int i => exact ⟨'[', by simp [writeSeg], by decide⟩
  case index.str s => exact ⟨'[', by simp [writeSeg], by decide⟩
  case anchor.str s => exact ⟨'[', by simp [writeSeg], by decide⟩
  case search.search inv m attr term => exact ⟨'[', by simp [writeSeg], by decide⟩
  case keywordSearch.keyword inv kw p => exact ⟨'[', by simp [writeSeg], by decide⟩
  case collector.collector e op =>
    simp only [Bool.false_or, decide_eq_true_eq] at hwf
    exact ⟨'(', by simp [writeSeg, hwf, CollOp.text], by decide⟩
