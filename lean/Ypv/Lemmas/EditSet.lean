import Ypv.Spec.Edit
/-!
# Lemmas about the replacement walk `Node.mapAt` (C03)
-/
namespace Ypv

theorem putScalar_anchor (s : Scalar) (n : Node) : (putScalar s n).anchor = n.anchor := by
  simp [putScalar, Node.anchor]

theorem putScalar_idem (s : Scalar) (n : Node) : putScalar s (putScalar s n) = putScalar s n := by
  simp [putScalar, Node.anchor]

theorem mapAt_anchor (p : Addr → Node → Bool) (f : Node → Node) (n : Node) :
    (n.mapAt p f).anchor = n.anchor := by
  cases n <;> simp [Node.mapAt, Node.anchor]

theorem mapAt_putScalar (p : Addr → Node → Bool) (s : Scalar) (n : Node) :
    (putScalar s n).mapAt p (putScalar s) = putScalar s n := by
  simp [putScalar, Node.mapAt]

mutual
/-- nothing is a target ⇒ nothing changes -/
theorem mapAt_none : (d : Node) → (p : Addr → Node → Bool) → (f : Node → Node) →
    (∀ y n, p y n = false) → d.mapAt p f = d
  | .scalar _ _, _, _, _ => by simp [Node.mapAt]
  | .set _ _, _, _, _ => by simp [Node.mapAt]
  | .seq _ items, p, f, h => by simp [Node.mapAt, mapAtList_none items p f 0 h]
  | .map _ es, p, f, h => by simp [Node.mapAt, mapAtEntries_none es p f h]
theorem mapAtList_none : (cs : List Node) → (p : Addr → Node → Bool) → (f : Node → Node) → (i : Nat) →
    (∀ y n, p y n = false) → mapAtList p f i cs = cs
  | [], _, _, _, _ => by simp [mapAtList]
  | c :: cs, p, f, i, h => by
    have h1 := mapAt_none c (fun y => p (.idx i :: y)) f (fun y n => h _ n)
    have h2 := mapAtList_none cs p f (i + 1) h
    simp [mapAtList, h, h1, h2]
theorem mapAtEntries_none : (es : List (Key × Node)) → (p : Addr → Node → Bool) → (f : Node → Node) →
    (∀ y n, p y n = false) → mapAtEntries p f es = es
  | [], _, _, _ => by simp [mapAtEntries]
  | (k, c) :: es, p, f, h => by
    have h1 := mapAt_none c (fun y => p (.key k :: y)) f (fun y n => h _ n)
    have h2 := mapAtEntries_none es p f h
    simp [mapAtEntries, h, h1, h2]
end

/-- the walk keeps every key, in order -/
theorem mapAtEntries_keys (p : Addr → Node → Bool) (f : Node → Node) (es : List (Key × Node)) :
    (mapAtEntries p f es).map Prod.fst = es.map Prod.fst := by
  induction es with
  | nil => simp [mapAtEntries]
  | cons e es ih => obtain ⟨k, c⟩ := e; simp [mapAtEntries, ih]

/-- the walk keeps the number (and positions) of elements -/
theorem mapAtList_length (p : Addr → Node → Bool) (f : Node → Node) (i : Nat) (cs : List Node) :
    (mapAtList p f i cs).length = cs.length := by
  induction cs generalizing i with
  | nil => simp [mapAtList]
  | cons c cs ih => simp [mapAtList, ih]

mutual
/-- Two passes are one pass with the disjunction, when the second predicate looks at a node only
through its anchor and the replacement is `putScalar s`. -/
theorem mapAt_mapAt : (d : Node) → (p q : Addr → Node → Bool) → (s : Scalar) →
    (∀ y n n', n.anchor = n'.anchor → q y n = q y n') →
    (d.mapAt p (putScalar s)).mapAt q (putScalar s) = d.mapAt (fun y n => p y n || q y n) (putScalar s)
  | .scalar _ _, _, _, _, _ => by simp [Node.mapAt]
  | .set _ _, _, _, _, _ => by simp [Node.mapAt]
  | .seq _ items, p, q, s, hq => by simp [Node.mapAt, mapAtList_mapAtList items p q s 0 hq]
  | .map _ es, p, q, s, hq => by simp [Node.mapAt, mapAtEntries_mapAtEntries es p q s hq]
theorem mapAtList_mapAtList : (cs : List Node) → (p q : Addr → Node → Bool) → (s : Scalar) → (i : Nat) →
    (∀ y n n', n.anchor = n'.anchor → q y n = q y n') →
    mapAtList q (putScalar s) i (mapAtList p (putScalar s) i cs)
      = mapAtList (fun y n => p y n || q y n) (putScalar s) i cs
  | [], _, _, _, _, _ => by simp [mapAtList]
  | c :: cs, p, q, s, i, hq => by
    have h2 := mapAtList_mapAtList cs p q s (i + 1) hq
    have h1 := mapAt_mapAt c (fun y => p (.idx i :: y)) (fun y => q (.idx i :: y)) s (fun y n n' h => hq _ n n' h)
    simp only [mapAtList, h2]
    congr 1
    by_cases hp : p [.idx i] c = true
    · simp only [hp, if_true, Bool.true_or]
      rw [hq _ (putScalar s c) c (putScalar_anchor s c)]
      by_cases hqc : q [.idx i] c = true
      · simp [hqc, putScalar_idem]
      · simp [hqc, mapAt_putScalar]
    · have hp' : p [.idx i] c = false := by simpa using hp
      simp only [hp', Bool.false_or, Bool.false_eq_true, if_false]
      rw [hq _ (c.mapAt (fun y => p (.idx i :: y)) (putScalar s)) c (mapAt_anchor _ _ c)]
      by_cases hqc : q [.idx i] c = true
      · simp [hqc, putScalar, mapAt_anchor]
      · simp [hqc, h1]
theorem mapAtEntries_mapAtEntries : (es : List (Key × Node)) → (p q : Addr → Node → Bool) → (s : Scalar) →
    (∀ y n n', n.anchor = n'.anchor → q y n = q y n') →
    mapAtEntries q (putScalar s) (mapAtEntries p (putScalar s) es)
      = mapAtEntries (fun y n => p y n || q y n) (putScalar s) es
  | [], _, _, _, _ => by simp [mapAtEntries]
  | (k, c) :: es, p, q, s, hq => by
    have h2 := mapAtEntries_mapAtEntries es p q s hq
    have h1 := mapAt_mapAt c (fun y => p (.key k :: y)) (fun y => q (.key k :: y)) s (fun y n n' h => hq _ n n' h)
    simp only [mapAtEntries, h2]
    congr 2
    by_cases hp : p [.key k] c = true
    · simp only [hp, if_true, Bool.true_or]
      rw [hq _ (putScalar s c) c (putScalar_anchor s c)]
      by_cases hqc : q [.key k] c = true
      · simp [hqc, putScalar_idem]
      · simp [hqc, mapAt_putScalar]
    · have hp' : p [.key k] c = false := by simpa using hp
      simp only [hp', Bool.false_or, Bool.false_eq_true, if_false]
      rw [hq _ (c.mapAt (fun y => p (.key k :: y)) (putScalar s)) c (mapAt_anchor _ _ c)]
      by_cases hqc : q [.key k] c = true
      · simp [hqc, putScalar, mapAt_anchor]
      · simp [hqc, h1]
end

end Ypv
