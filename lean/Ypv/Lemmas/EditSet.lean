import Ypv.Spec.Edit
/-!
# Lemmas about the replacement walk `Node.mapAt` (C03)
-/
namespace Ypv

theorem putScalar_anchor (s : Scalar) (n : Node) : (putScalar s n).anchor = n.anchor := by
  simp [putScalar, Node.anchor]

theorem putScalar_idem (s : Scalar) (n : Node) : putScalar s (putScalar s n) = putScalar s n := by
  simp [putScalar, Node.anchor]

theorem mapAt_anchor (p : Addr → Node → Bool) (f : Node → Node) (n : Node) :
    (n.mapAt p f).anchor = n.anchor := by
  cases n <;> simp [Node.mapAt, Node.anchor]

theorem mapAt_putScalar (p : Addr → Node → Bool) (s : Scalar) (n : Node) :
    (putScalar s n).mapAt p (putScalar s) = putScalar s n := by
  simp [putScalar, Node.mapAt]

mutual
/-- nothing is a target ⇒ nothing changes -/
theorem mapAt_none : (d : Node) → (p : Addr → Node → Bool) → (f : Node → Node) →
    (∀ y n, p y n = false) → d.mapAt p f = d
  | .scalar _ _, _, _, _ => by simp [Node.mapAt]
  | .set _ _, _, _, _ => by simp [Node.mapAt]
  | .seq _ items, p, f, h => by simp [Node.mapAt, mapAtList_none items p f 0 h]
  | .map _ es, p, f, h => by simp [Node.mapAt, mapAtEntries_none es p f h]
theorem mapAtList_none : (cs : List Node) → (p : Addr → Node → Bool) → (f : Node → Node) → (i : Nat) →
    (∀ y n, p y n = false) → mapAtList p f i cs = cs
  | [], _, _, _, _ => by simp [mapAtList]
  | c :: cs, p, f, i, h => by
    have h1 := mapAt_none c (fun y => p (.idx i :: y)) f (fun y n => h _ n)
    have h2 := mapAtList_none cs p f (i + 1) h
    simp [mapAtList, h, h1, h2]
theorem mapAtEntries_none : (es : List (Key × Node)) → (p : Addr → Node → Bool) → (f : Node → Node) →
    (∀ y n, p y n = false) → mapAtEntries p f es = es
  | [], _, _, _ => by simp [mapAtEntries]
  | (k, c) :: es, p, f, h => by
    have h1 := mapAt_none c (fun y => p (.key k :: y)) f (fun y n => h _ n)
    have h2 := mapAtEntries_none es p f h
    simp [mapAtEntries, h, h1, h2]
end

/-- the walk keeps every key, in order -/
theorem mapAtEntries_keys (p : Addr → Node → Bool) (f : Node → Node) (es : List (Key × Node)) :
    (mapAtEntries p f es).map Prod.fst = es.map Prod.fst := by
  induction es with
  | nil => simp [mapAtEntries]
  | cons e es ih => obtain ⟨k, c⟩ := e; simp [mapAtEntries, ih]

/-- the walk keeps the number (and positions) of elements -/
theorem mapAtList_length (p : Addr → Node → Bool) (f : Node → Node) (i : Nat) (cs : List Node) :
    (mapAtList p f i cs).length = cs.length := by
  induction cs generalizing i with
  | nil => simp [mapAtList]
  | cons c cs ih => simp [mapAtList, ih]

mutual
/-- Two passes are one pass with the disjunction, when the second predicate looks at a node only
through its anchor and the replacement is `putScalar s`. -/
theorem mapAt_mapAt : (d : Node) → (p q : Addr → Node → Bool) → (s : Scalar) →
    (∀ y n n', n.anchor = n'.anchor → q y n = q y n') →
    (d.mapAt p (putScalar s)).mapAt q (putScalar s) = d.mapAt (fun y n => p y n || q y n) (putScalar s)
  | .scalar _ _, _, _, _, _ => by simp [Node.mapAt]
  | .set _ _, _, _, _, _ => by simp [Node.mapAt]
  | .seq _ items, p, q, s, hq => by simp [Node.mapAt, mapAtList_mapAtList items p q s 0 hq]
  | .map _ es, p, q, s, hq => by simp [Node.mapAt, mapAtEntries_mapAtEntries es p q s hq]
theorem mapAtList_mapAtList : (cs : List Node) → (p q : Addr → Node → Bool) → (s : Scalar) → (i : Nat) →
    (∀ y n n', n.anchor = n'.anchor → q y n = q y n') →
    mapAtList q (putScalar s) i (mapAtList p (putScalar s) i cs)
      = mapAtList (fun y n => p y n || q y n) (putScalar s) i cs
  | [], _, _, _, _, _ => by simp [mapAtList]
  | c :: cs, p, q, s, i, hq => by
    have h2 := mapAtList_mapAtList cs p q s (i + 1) hq
    have h1 := mapAt_mapAt c (fun y => p (.idx i :: y)) (fun y => q (.idx i :: y)) s (fun y n n' h => hq _ n n' h)
    simp only [mapAtList, h2]
    congr 1
    by_cases hp : p [.idx i] c = true
    · simp only [hp, if_true, Bool.true_or]
      rw [hq _ (putScalar s c) c (putScalar_anchor s c)]
      by_cases hqc : q [.idx i] c = true
      · simp [hqc, putScalar_idem]
      · simp [hqc, mapAt_putScalar]
    · have hp' : p [.idx i] c = false := by simpa using hp
      simp only [hp', Bool.false_or, Bool.false_eq_true, if_false]
      rw [hq _ (c.mapAt (fun y => p (.idx i :: y)) (putScalar s)) c (mapAt_anchor _ _ c)]
      by_cases hqc : q [.idx i] c = true
      · simp [hqc, putScalar, mapAt_anchor]
      · simp [hqc, h1]
theorem mapAtEntries_mapAtEntries : (es : List (Key × Node)) → (p q : Addr → Node → Bool) → (s : Scalar) →
    (∀ y n n', n.anchor = n'.anchor → q y n = q y n') →
    mapAtEntries q (putScalar s) (mapAtEntries p (putScalar s) es)
      = mapAtEntries (fun y n => p y n || q y n) (putScalar s) es
  | [], _, _, _, _ => by simp [mapAtEntries]
  | (k, c) :: es, p, q, s, hq => by
    have h2 := mapAtEntries_mapAtEntries es p q s hq
    have h1 := mapAt_mapAt c (fun y => p (.key k :: y)) (fun y => q (.key k :: y)) s (fun y n n' h => hq _ n n' h)
    simp only [mapAtEntries, h2]
    congr 2
    by_cases hp : p [.key k] c = true
    · simp only [hp, if_true, Bool.true_or]
      rw [hq _ (putScalar s c) c (putScalar_anchor s c)]
      by_cases hqc : q [.key k] c = true
      · simp [hqc, putScalar_idem]
      · simp [hqc, mapAt_putScalar]
    · have hp' : p [.key k] c = false := by simpa using hp
      simp only [hp', Bool.false_or, Bool.false_eq_true, if_false]
      rw [hq _ (c.mapAt (fun y => p (.key k :: y)) (putScalar s)) c (mapAt_anchor _ _ c)]
      by_cases hqc : q [.key k] c = true
      · simp [hqc, putScalar, mapAt_anchor]
      · simp [hqc, h1]
end

/-! ### Looking a node up after the walk (`get?` through `mapAt`) -/

theorem isScalar_get?_cons {n : Node} (h : n.isScalar = true) (r : Ref) (rs : Addr) :
    n.get? (r :: rs) = none := by
  cases n <;> simp [Node.isScalar] at h
  simp [Node.get?, Node.child?]

theorem putScalar_isScalar (s : Scalar) (n : Node) : (putScalar s n).isScalar = true := by
  simp [putScalar, Node.isScalar]

theorem mapAt_isScalar (p : Addr → Node → Bool) (f : Node → Node) (n : Node) :
    (n.mapAt p f).isScalar = n.isScalar := by
  cases n <;> simp [Node.mapAt, Node.isScalar]

theorem mapAt_of_isScalar (p : Addr → Node → Bool) (f : Node → Node) {n : Node} (h : n.isScalar = true) :
    n.mapAt p f = n := by
  cases n <;> simp [Node.isScalar] at h
  simp [Node.mapAt]

theorem mapAtList_getElem? (p : Addr → Node → Bool) (f : Node → Node) : ∀ (cs : List Node) (i j : Nat),
    (mapAtList p f i cs)[j]? = (cs[j]?).map (fun c =>
      if p [.idx (i + j)] c then f c else c.mapAt (fun y => p (.idx (i + j) :: y)) f)
  | [], i, j => by simp [mapAtList]
  | c :: cs, i, 0 => by simp [mapAtList]
  | c :: cs, i, j + 1 => by
    have h := mapAtList_getElem? p f cs (i + 1) j
    have e : i + 1 + j = i + (j + 1) := by omega
    rw [e] at h
    simp [mapAtList, h]

theorem mapAtEntries_lookup (p : Addr → Node → Bool) (f : Node → Node) (k : Key) : ∀ (es : List (Key × Node)),
    (mapAtEntries p f es).lookup k = (es.lookup k).map (fun c =>
      if p [.key k] c then f c else c.mapAt (fun y => p (.key k :: y)) f)
  | [] => by simp [mapAtEntries]
  | (k', c) :: es => by
    have ih := mapAtEntries_lookup p f k es
    by_cases hk : k = k'
    · subst hk; simp [mapAtEntries, List.lookup]
    · have : (k == k') = false := by simpa using hk
      simp [mapAtEntries, List.lookup, this, ih]

theorem child?_mapAt (p : Addr → Node → Bool) (f : Node → Node) (d : Node) (r : Ref)
    (hr : ∀ k, r ≠ .member k) :
    (d.mapAt p f).child? r = (d.child? r).map (fun c =>
      if p [r] c then f c else c.mapAt (fun y => p (r :: y)) f) := by
  cases d <;> cases r <;>
    simp [Node.mapAt, Node.child?, mapAtList_getElem?, mapAtEntries_lookup] at hr ⊢

theorem child?_mapAt_member (p : Addr → Node → Bool) (f : Node → Node) (d : Node) (k : Key) :
    (d.mapAt p f).child? (.member k) = d.child? (.member k) := by
  cases d <;> simp [Node.mapAt, Node.child?]

theorem child?_member_get?_cons (d : Node) (k : Key) (r : Ref) (t : Addr) :
    (match d.child? (.member k) with | some c => c.get? (r :: t) | none => none) = none := by
  cases d with
  | set a ms => by_cases h : k ∈ ms <;> simp [Node.child?, h, Node.get?]
  | _ => simp [Node.child?]

/-- What the walk makes of the node at address `b`. -/
def imageAt (p : Addr → Node → Bool) (s : Scalar) (b : Addr) (n : Node) : Node :=
  if lastIsMember b then n
  else if p b n then putScalar s n else n.mapAt (fun y => p (b ++ y)) (putScalar s)

theorem imageAt_anchor (p : Addr → Node → Bool) (s : Scalar) (b : Addr) (n : Node) :
    (imageAt p s b n).anchor = n.anchor := by
  unfold imageAt; split
  · rfl
  · split
    · exact putScalar_anchor s n
    · exact mapAt_anchor _ _ n

theorem imageAt_isScalar (p : Addr → Node → Bool) (s : Scalar) (b : Addr) (n : Node)
    (h : p b n = true → n.isScalar = true) : (imageAt p s b n).isScalar = n.isScalar := by
  unfold imageAt; split
  · rfl
  · split
    · next hp => rw [putScalar_isScalar, h hp]
    · exact mapAt_isScalar _ _ n

theorem imageAt_cons (p : Addr → Node → Bool) (s : Scalar) (r r' : Ref) (t : Addr) :
    imageAt (fun y => p (r :: y)) s (r' :: t) = imageAt p s (r :: r' :: t) := by
  funext n; simp [imageAt, lastIsMember]

/-- **`get?` through the walk.**  When every target is a scalar, the walk keeps the shape of the
document: the node at any address `b` afterwards is the image of the node that was there. -/
theorem get?_mapAt (s : Scalar) : ∀ (b : Addr) (d : Node) (p : Addr → Node → Bool), b ≠ [] →
    (∀ y n, y ≠ [] → d.get? y = some n → p y n = true → n.isScalar = true) →
    (d.mapAt p (putScalar s)).get? b = (d.get? b).map (imageAt p s b)
  | [], _, _, h, _ => absurd rfl h
  | [r], d, p, _, _ => by
    cases r with
    | member k =>
      simp only [Node.get?, child?_mapAt_member]
      cases d.child? (.member k) <;> simp [imageAt, lastIsMember]
    | idx i =>
      simp only [Node.get?, child?_mapAt p _ d (.idx i) (by intro k h; cases h)]
      cases d.child? (.idx i) <;> simp [imageAt, lastIsMember]
    | key k =>
      simp only [Node.get?, child?_mapAt p _ d (.key k) (by intro k' h; cases h)]
      cases d.child? (.key k) <;> simp [imageAt, lastIsMember]
  | r :: r' :: t, d, p, _, hts => by
    by_cases hr : ∃ k, r = .member k
    · obtain ⟨k, rfl⟩ := hr
      have h1 := child?_member_get?_cons d k r' t
      have h2 := child?_member_get?_cons (d.mapAt p (putScalar s)) k r' t
      have hL : (d.mapAt p (putScalar s)).get? (.member k :: r' :: t) = none := h2
      have hR : d.get? (.member k :: r' :: t) = none := h1
      rw [hL, hR]; rfl
    · have hr' : ∀ k, r ≠ .member k := fun k h => hr ⟨k, h⟩
      have hL : (d.mapAt p (putScalar s)).get? (r :: r' :: t)
          = match (d.mapAt p (putScalar s)).child? r with
            | some c => c.get? (r' :: t) | none => none := rfl
      have hR : d.get? (r :: r' :: t) = match d.child? r with
            | some c => c.get? (r' :: t) | none => none := rfl
      rw [hL, hR, child?_mapAt p _ d r hr']
      cases hc : d.child? r with
      | none => simp
      | some c =>
        have hgc : ∀ y, d.get? (r :: y) = c.get? y := by
          intro y; show (match d.child? r with | some c => c.get? y | none => none) = _; rw [hc]
        by_cases hp : p [r] c = true
        · have hsc : c.isScalar = true := hts [r] c (by simp) (by rw [hgc]; rfl) hp
          simp [hp, isScalar_get?_cons hsc, isScalar_get?_cons (putScalar_isScalar s c)]
        · have ih := get?_mapAt s (r' :: t) c (fun y => p (r :: y)) (by simp)
            (fun y n hy hg hpy => hts (r :: y) n (by simp) (by rw [hgc]; exact hg) hpy)
          simp only [Option.map_some, hp, Bool.false_eq_true, if_false]
          rw [ih, imageAt_cons]

/-! ### The one-shot specification and the sequence of steps -/

/-- the predicate of one model step is the target predicate of the one-address specification -/
theorem isRef_eq_isTarget (d : Node) (a : Addr) (n : Node) (h : d.get? a = some n) :
    isRef a n.anchor = isTarget d [a] := by
  funext y m
  simp only [isRef, isTarget, matchedAnchors, List.filterMap_cons, List.filterMap_nil, h, Option.bind_some]
  cases hn : n.anchor <;> cases hm : m.anchor <;> simp [List.contains_cons, hn]
  all_goals (rw [Bool.eq_iff_iff]; simp)

theorem isTarget_anchor_only (d : Node) (addrs : List Addr) (y : Addr) (n n' : Node)
    (h : n.anchor = n'.anchor) : isTarget d addrs y n = isTarget d addrs y n' := by
  simp [isTarget, h]

theorem isTarget_cons (d : Node) (a : Addr) (rest : List Addr) :
    (fun y n => isTarget d [a] y n || isTarget d rest y n) = isTarget d (a :: rest) := by
  funext y n
  simp only [isTarget, matchedAnchors, List.filterMap_cons, List.filterMap_nil, List.contains_cons]
  cases hn : n.anchor with
  | none => simp [List.contains_cons]
  | some x =>
    cases hg : (d.get? a).bind Node.anchor <;> simp [List.contains_cons, Bool.or_assoc, Bool.or_comm, Bool.or_left_comm]

theorem setSpec_nil (d : Node) (s : Scalar) : setSpec d [] s = d := by
  simp only [setSpec]
  exact mapAt_none d _ _ (by intro y n; simp [isTarget, matchedAnchors]; cases n.anchor <;> simp)

/-- a matched node's anchor name is among the matched anchors -/
theorem mem_matchedAnchors {d : Node} {addrs : List Addr} {a : Addr} {n : Node} {x : Str}
    (ha : a ∈ addrs) (hg : d.get? a = some n) (hx : n.anchor = some x) : x ∈ matchedAnchors d addrs := by
  unfold matchedAnchors
  rw [List.mem_filterMap]
  exact ⟨a, ha, by simp [hg, hx]⟩

/-- every target of the specification is a scalar in the model class -/
theorem targets_scalar {d : Node} {addrs : List Addr} (hm : MatchedScalars d addrs) (hs : ScalarAnchors d)
    (y : Addr) (n : Node) (hy : y ≠ []) (hg : d.get? y = some n) (ht : isTarget d addrs y n = true) :
    n.isScalar = true := by
  simp only [isTarget, Bool.or_eq_true] at ht
  rcases ht with ht | ht
  · have hmem : y ∈ addrs := by simpa using ht
    obtain ⟨_, _, n', hg', hsc⟩ := hm y hmem
    rw [hg] at hg'; cases hg'; exact hsc
  · cases hn : n.anchor with
    | none => simp [hn] at ht
    | some x => exact hs y n hy hg (by simp [hn])

/-- the node found at `b` after the one-shot specification -/
theorem get?_setSpec {d : Node} {addrs : List Addr} (hm : MatchedScalars d addrs) (hs : ScalarAnchors d)
    (s : Scalar) (b : Addr) (hb : b ≠ []) :
    (setSpec d addrs s).get? b = (d.get? b).map (imageAt (isTarget d addrs) s b) :=
  get?_mapAt s b d _ hb (targets_scalar hm hs)

theorem get?_setSpec_anchor {d : Node} {addrs : List Addr} (hm : MatchedScalars d addrs) (hs : ScalarAnchors d)
    (s : Scalar) (b : Addr) :
    ((setSpec d addrs s).get? b).bind Node.anchor = (d.get? b).bind Node.anchor := by
  cases b with
  | nil => simp [Node.get?, setSpec, mapAt_anchor]
  | cons r t =>
    rw [get?_setSpec hm hs s (r :: t) (by simp)]
    cases d.get? (r :: t) <;> simp [imageAt_anchor]

theorem matchedAnchors_setSpec {d : Node} {addrs : List Addr} (hm : MatchedScalars d addrs) (hs : ScalarAnchors d)
    (s : Scalar) (rest : List Addr) :
    matchedAnchors (setSpec d addrs s) rest = matchedAnchors d rest := by
  unfold matchedAnchors
  induction rest with
  | nil => rfl
  | cons b bs ih => simp only [List.filterMap_cons, get?_setSpec_anchor hm hs s b, ih]

theorem isTarget_setSpec {d : Node} {addrs : List Addr} (hm : MatchedScalars d addrs) (hs : ScalarAnchors d)
    (s : Scalar) (rest : List Addr) :
    isTarget (setSpec d addrs s) rest = isTarget d rest := by
  funext y n
  simp only [isTarget, matchedAnchors_setSpec hm hs]

/-- what `get?` finds after the specification, read backwards -/
theorem get?_setSpec_inv {d : Node} {addrs : List Addr} (hm : MatchedScalars d addrs) (hs : ScalarAnchors d)
    (s : Scalar) (b : Addr) (hb : b ≠ []) (n' : Node) (h : (setSpec d addrs s).get? b = some n') :
    ∃ n, d.get? b = some n ∧ n' = imageAt (isTarget d addrs) s b n ∧ n'.anchor = n.anchor
      ∧ n'.isScalar = n.isScalar := by
  rw [get?_setSpec hm hs s b hb] at h
  cases hg : d.get? b with
  | none => simp [hg] at h
  | some n =>
    simp [hg] at h
    refine ⟨n, rfl, h.symm, ?_, ?_⟩
    · rw [← h, imageAt_anchor]
    · rw [← h, imageAt_isScalar]
      exact targets_scalar hm hs b n hb hg

/-- the model class is closed under the specification -/
theorem scalarAnchors_setSpec {d : Node} {addrs : List Addr} (hm : MatchedScalars d addrs) (hs : ScalarAnchors d)
    (s : Scalar) : ScalarAnchors (setSpec d addrs s) := by
  intro y n' hy hg ha
  obtain ⟨n, hgn, _, hanc, hsc⟩ := get?_setSpec_inv hm hs s y hy n' hg
  rw [hsc]; exact hs y n hy hgn (by rw [← hanc]; exact ha)

theorem matchedScalars_setSpec {d : Node} {addrs : List Addr} (hm : MatchedScalars d addrs) (hs : ScalarAnchors d)
    (s : Scalar) {rest : List Addr} (hr : MatchedScalars d rest) : MatchedScalars (setSpec d addrs s) rest := by
  intro a ha
  obtain ⟨h1, h2, n, hg, hsc⟩ := hr a ha
  refine ⟨h1, h2, imageAt (isTarget d addrs) s a n, ?_, ?_⟩
  · rw [get?_setSpec hm hs s a h1, hg]; rfl
  · rw [imageAt_isScalar]; exact hsc
    exact targets_scalar hm hs a n h1 hg

theorem matchedScalars_tail {d : Node} {a : Addr} {rest : List Addr} (h : MatchedScalars d (a :: rest)) :
    MatchedScalars d [a] ∧ MatchedScalars d rest :=
  ⟨fun b hb => h b (by simp at hb; simp [hb]), fun b hb => h b (by simp [hb])⟩

/-- Two consecutive specifications are one (the composition step of `set_eq_spec`). -/
theorem setSpec_setSpec {d : Node} {a : Addr} {rest : List Addr} (hm : MatchedScalars d (a :: rest))
    (hs : ScalarAnchors d) (s : Scalar) :
    setSpec (setSpec d [a] s) rest s = setSpec d (a :: rest) s := by
  have h1 := (matchedScalars_tail hm).1
  show (setSpec d [a] s).mapAt (isTarget (setSpec d [a] s) rest) (putScalar s) = _
  rw [isTarget_setSpec h1 hs]
  unfold setSpec
  rw [mapAt_mapAt d _ _ s (fun y n n' hh => isTarget_anchor_only d rest y n n' hh), isTarget_cons]

/-! ### Anchors after the specification -/

/-- a set member is never anchored -/
theorem get?_member_anchor : ∀ (y : Addr) (d n : Node), lastIsMember y = true → d.get? y = some n →
    n.anchor = none
  | [], _, _, h, _ => by simp [lastIsMember] at h
  | [r], d, n, h, hg => by
    cases r <;> simp [lastIsMember] at h
    cases d <;> simp [Node.get?, Node.child?] at hg
    split at hg
    · next hc => split at hc <;> simp at hc; subst hc; simp at hg; subst hg; rfl
    · cases hg
  | r :: r' :: t, d, n, h, hg => by
    have hR : d.get? (r :: r' :: t) = match d.child? r with
          | some c => c.get? (r' :: t) | none => none := rfl
    rw [hR] at hg
    cases hc : d.child? r with
    | none => simp [hc] at hg
    | some c =>
      simp only [hc] at hg
      exact get?_member_anchor (r' :: t) c n (by simpa [lastIsMember] using h) hg

/-- an anchored node of the model class is replaced iff its anchor name is matched -/
theorem imageAt_anchored {d : Node} {addrs : List Addr} (hs : ScalarAnchors d) (s : Scalar)
    {y : Addr} {n : Node} {x : Str} (hy : y ≠ []) (hg : d.get? y = some n) (hx : n.anchor = some x) :
    imageAt (isTarget d addrs) s y n = if (matchedAnchors d addrs).contains x then putScalar s n else n := by
  have hmem : lastIsMember y = false := by
    cases h : lastIsMember y with
    | false => rfl
    | true => rw [get?_member_anchor y d n h hg] at hx; cases hx
  have hsc : n.isScalar = true := hs y n hy hg (by simp [hx])
  have ht : isTarget d addrs y n = (matchedAnchors d addrs).contains x := by
    simp only [isTarget, hx]
    cases hc : addrs.contains y with
    | false => simp
    | true =>
      have : x ∈ matchedAnchors d addrs := mem_matchedAnchors (by simpa using hc) hg hx
      simp [this]
  simp only [imageAt, hmem, ht, Bool.false_eq_true, if_false, mapAt_of_isScalar _ _ hsc]

/-! ### A checkable form of the model-class predicates (for concrete documents) -/

mutual
/-- all nodes strictly below the root, in document order -/
def Node.subnodes : Node → List Node
  | .seq _ items => subnodesList items
  | .map _ es => subnodesEntries es
  | .set _ _ => []
  | .scalar _ _ => []
def subnodesList : List Node → List Node
  | [] => []
  | c :: cs => c :: (c.subnodes ++ subnodesList cs)
def subnodesEntries : List (Key × Node) → List Node
  | [] => []
  | (_, c) :: es => c :: (c.subnodes ++ subnodesEntries es)
end

theorem mem_subnodesList {c : Node} : ∀ {cs : List Node}, c ∈ cs → c ∈ subnodesList cs ∧ ∀ n ∈ c.subnodes, n ∈ subnodesList cs
  | [], h => by cases h
  | c' :: cs, h => by
    rcases List.mem_cons.mp h with rfl | h
    · exact ⟨by simp [subnodesList], fun n hn => by simp [subnodesList, hn]⟩
    · have := mem_subnodesList h
      exact ⟨by simp [subnodesList, this.1], fun n hn => by simp [subnodesList, this.2 n hn]⟩

theorem mem_subnodesEntries {k : Key} {c : Node} : ∀ {es : List (Key × Node)}, es.lookup k = some c →
    c ∈ subnodesEntries es ∧ ∀ n ∈ c.subnodes, n ∈ subnodesEntries es
  | [], h => by simp at h
  | (k', c') :: es, h => by
    by_cases hk : k = k'
    · subst hk
      simp [List.lookup] at h; subst h
      exact ⟨by simp [subnodesEntries], fun n hn => by simp [subnodesEntries, hn]⟩
    · have hk' : (k == k') = false := by simpa using hk
      simp [List.lookup, hk'] at h
      have := mem_subnodesEntries h
      exact ⟨by simp [subnodesEntries, this.1], fun n hn => by simp [subnodesEntries, this.2 n hn]⟩

theorem child?_mem_below {d c : Node} {r : Ref} (hr : ∀ k, r ≠ .member k) (h : d.child? r = some c) :
    c ∈ d.subnodes ∧ ∀ n ∈ c.subnodes, n ∈ d.subnodes := by
  cases d <;> cases r <;> simp [Node.child?] at h hr
  · rename_i a items i
    have : c ∈ items := List.mem_of_getElem? h
    simpa [Node.subnodes] using mem_subnodesList this
  · simpa [Node.subnodes] using mem_subnodesEntries h

/-- every node `get?` finds below the root (set members aside) is listed by `below` -/
theorem get?_mem_below : ∀ (y : Addr) (d n : Node), y ≠ [] → lastIsMember y = false → d.get? y = some n →
    n ∈ d.subnodes
  | [], _, _, h, _, _ => absurd rfl h
  | [r], d, n, _, hm, hg => by
    have hr : ∀ k, r ≠ .member k := by intro k hk; subst hk; simp [lastIsMember] at hm
    have hR : d.get? [r] = match d.child? r with | some c => c.get? [] | none => none := rfl
    rw [hR] at hg
    cases hc : d.child? r with
    | none => simp [hc] at hg
    | some c =>
      simp [hc, Node.get?] at hg; subst hg
      exact (child?_mem_below hr hc).1
  | r :: r' :: t, d, n, _, hm, hg => by
    have hR : d.get? (r :: r' :: t) = match d.child? r with
          | some c => c.get? (r' :: t) | none => none := rfl
    rw [hR] at hg
    cases hc : d.child? r with
    | none => simp [hc] at hg
    | some c =>
      simp only [hc] at hg
      by_cases hr : ∃ k, r = .member k
      · obtain ⟨k, rfl⟩ := hr
        have := child?_member_get?_cons d k r' t
        rw [hc] at this; simp only at this; rw [this] at hg; cases hg
      · have hr' : ∀ k, r ≠ .member k := fun k h => hr ⟨k, h⟩
        have ih := get?_mem_below (r' :: t) c n (by simp) (by simpa [lastIsMember] using hm) hg
        exact (child?_mem_below hr' hc).2 n ih

theorem scalarAnchors_of_below (d : Node)
    (h : d.subnodes.all (fun n => !n.anchor.isSome || n.isScalar) = true) : ScalarAnchors d := by
  intro y n hy hg ha
  have hm : lastIsMember y = false := by
    cases hl : lastIsMember y with
    | false => rfl
    | true => rw [get?_member_anchor y d n hl hg] at ha; cases ha
  have := List.all_eq_true.mp h n (get?_mem_below y d n hy hm hg)
  simpa [ha] using this

theorem anchorWF_of_below (d : Node)
    (h : d.subnodes.all (fun n => d.subnodes.all (fun n' =>
      !n.anchor.isSome || !(n.anchor == n'.anchor) || n == n')) = true) : AnchorWF d := by
  intro y y' n n' hy hy' hg hg' ha he
  have hm : lastIsMember y = false := by
    cases hl : lastIsMember y with
    | false => rfl
    | true => rw [get?_member_anchor y d n hl hg] at ha; cases ha
  have hm' : lastIsMember y' = false := by
    cases hl : lastIsMember y' with
    | false => rfl
    | true => rw [he, get?_member_anchor y' d n' hl hg'] at ha; cases ha
  have h1 := List.all_eq_true.mp h n (get?_mem_below y d n hy hm hg)
  have h2 := List.all_eq_true.mp h1 n' (get?_mem_below y' d n' hy' hm' hg')
  have ha' : n'.anchor.isSome = true := by rw [← he]; exact ha
  have h3 : n'.anchor = none ∨ n = n' := by simpa [ha, he] using h2
  rcases h3 with h3 | h3
  · rw [h3] at ha'; cases ha'
  · exact h3

end Ypv
