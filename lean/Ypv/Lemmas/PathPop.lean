import Ypv.Lemmas.PathAcc
import Ypv.Props.C08
/-!
# `YAMLPath.pop()` on an accumulated path (what `[parent()]` does to `translated_path`)

The evaluator model's `ctxUp` drops the last path section.  `pop_section`: the library's `pop()`
(C08 object model) restores exactly the accumulated text of the steps before, when the popped section
is a key or an index section.  For an anchor section (`pop()` looks for the stand-alone rendering `&name`
of the segment, the section is `[&name]`) it did not before /repo 8d0a378 (finding C02-K5); since that
repair it leaves the canonical string of the steps before (`pop_section_anc`).
-/
namespace Ypv.Acc
open Ypv Ypv.Sim Ypv.Search Ypv.Search.Rr

theorem remarkT_secToks (t : Str) : remarkT '.' (secToks '.' t) = secToks '.' t := by
  cases t with
  | nil => rfl
  | cons c r =>
    have h := remarkT_tokenize '.' r
    simp only [remarkT] at h ⊢
    simp only [secToks, List.map_cons, h, List.cons.injEq, and_true]
    simp only [markAll, Prod.mk.injEq, and_true]
    by_cases hs : special '.' c = true
    · simp [hs]
    · have hs' : special '.' c = false := by simpa using hs
      rw [hs', Bool.false_or]
      simp only [special, Bool.or_eq_false_iff, decide_eq_false_iff_not] at hs'
      obtain ⟨⟨⟨⟨⟨⟨⟨⟨⟨⟨⟨h1, h2⟩, h3⟩, h4⟩, h5⟩, h6⟩, h7⟩, h8⟩, h9⟩, h10⟩, h11⟩, h12⟩ := hs'
      simp [keySyms, *]

/-- the library's rendering of a popped key / index segment is the section that was appended -/
theorem render_last (s : Sec) (hs : s.ok = true) (hna : ∀ a, s ≠ .anc a) :
    render false [s.lseg.seg false] = s.mtext := by
  have hp := plain_sec s hs
  have h1 : renderSeg '.' false (s.lseg.seg false) = (remark1 '.' false s.lseg).text '.' false :=
    render_seg (Or.inl rfl) false s.lseg hp.wf hp.ok
  simp only [render, Bool.false_eq_true, ↓reduceIte, renderFrom, List.append_nil, h1]
  cases s with
  | key t => simp [Sec.lseg, remark1, remarkT_secToks, mtext_lseg]
  | idx i => simp [Sec.lseg, remark1, mtext_lseg]
  | anc a => exact absurd rfl (hna a)

theorem joinText_snoc (s0 : Str) (r : List Str) (s : Str) :
    joinText (s0 :: (r ++ [s])) = joinText (s0 :: r) ++ '.' :: s := by
  simp [joinText, List.flatMap_append]

/-- **`pop()` undoes the last `+ section`** for key and index sections: it returns the section's
(unescaped) segment and leaves exactly the text accumulated for the steps before. -/
theorem pop_section (s0 : Sec) (r : List Sec) (s : Sec) (hok : ∀ x ∈ s0 :: (r ++ [s]), x.ok = true)
    (hna : ∀ a, s ≠ .anc a) :
    C08.popView (accObj ((s0 :: (r ++ [s])).map Sec.mtext)) =
      .ok (s.lseg.seg false, joinText ((s0 :: r).map Sec.mtext)) := by
  obtain ⟨hacc, hn, hs, hu⟩ := raw_steps s0 (r ++ [s]) hok
  obtain ⟨_, hnt, _, _⟩ := raw_steps s0 r (fun x hx => hok x (by
    simp only [List.mem_cons, List.mem_append] at hx ⊢
    rcases hx with h | h
    · exact Or.inl h
    · exact Or.inr (Or.inl h)))
  have hsok : s.ok = true := hok s (by simp)
  rw [hacc]
  have ht : joinText ((s0 :: (r ++ [s])).map Sec.mtext) =
      joinText ((s0 :: r).map Sec.mtext) ++ '.' :: s.mtext := by
    simpa using joinText_snoc s0.mtext (r.map Sec.mtext) s.mtext
  apply C08.pop_of_rendered (joinText ((s0 :: r).map Sec.mtext)) s.mtext _ hn hnt
    (by rw [hs]; exact ht) _ (s.lseg.seg false) (by rw [hs]; exact hu)
  · have : List.map (LSeg.seg false) (List.map Sec.lseg (s0 :: (r ++ [s]))) =
        List.map (LSeg.seg false) (List.map Sec.lseg (s0 :: r)) ++ [s.lseg.seg false] := by simp
    rw [this, List.getLast?_concat]
  · rw [hs]
    simpa [SepOpt.isFslash] using render_last s hsok hna

/-! ### An anchor section (`[&name]`): finding C02-K5, repaired by /repo 8d0a378

`pop()` looks for the stand-alone rendering `&name` (or `.&name`) of the popped segment at the end of
the text; the section the evaluator appended is `[&name]`, so none of its three `endswith` tests
succeeds.  Before the repair the text was then left as it was (the reported path of a `[parent()]`
result still named the anchor); since the repair `pop()` rebuilds the text from the other segments
(`C08.pop_respelled`). -/

theorem cons_ne_concat {α : Type} (a b : α) (hab : a ≠ b) : ∀ E : List α, a :: E ≠ E ++ [b]
  | [] => by simpa using hab
  | e :: E => by
    intro h
    simp only [List.cons_append, List.cons.injEq] at h
    obtain ⟨rfl, h⟩ := h
    exact cons_ne_concat a b hab E h

theorem suffix_of_endsWith {s suf : Str} (h : endsWith s suf = true) : suf <:+ s := by
  simp only [endsWith, Bool.decide_and, Bool.and_eq_true, decide_eq_true_eq] at h
  exact List.suffix_iff_eq_drop.mpr h.2.symm

/-- `&E` is not at the end of `…[&E]` -/
theorem not_endsWith_anc (X E : Str) : endsWith (X ++ '[' :: '&' :: (E ++ [']'])) ('&' :: E) = false := by
  cases h : endsWith (X ++ '[' :: '&' :: (E ++ [']'])) ('&' :: E) with
  | false => rfl
  | true =>
    obtain ⟨p, hp⟩ := suffix_of_endsWith h
    have h2 : p ++ '&' :: E = (X ++ ['[', '&']) ++ (E ++ [']']) := by simpa using hp
    have := List.append_inj_right' h2 (by simp)
    exact absurd this (cons_ne_concat '&' ']' (by decide) E)

/-- nor is `.&E` -/
theorem not_endsWith_dot_anc (X E : Str) :
    endsWith (X ++ '[' :: '&' :: (E ++ [']'])) ('.' :: '&' :: E) = false := by
  cases h : endsWith (X ++ '[' :: '&' :: (E ++ [']'])) ('.' :: '&' :: E) with
  | false => rfl
  | true =>
    obtain ⟨p, hp⟩ := suffix_of_endsWith h
    have h2 : p ++ '.' :: '&' :: E = (X ++ ['[']) ++ ('&' :: (E ++ [']'])) := by simpa using hp
    have := List.append_inj_right' h2 (by simp)
    simp at this

/-- the library's rendering of a popped anchor segment: `&name` (escaped as in the section) -/
theorem render_last_anc (a : Str) (hs : (Sec.anc a).ok = true) :
    render false [(Sec.anc a).lseg.seg false] = '&' :: tokText (secToks '.' a) := by
  have hp := plain_sec (.anc a) hs
  have h1 : renderSeg '.' false ((Sec.anc a).lseg.seg false) = (remark1 '.' false (Sec.anc a).lseg).text '.' false :=
    render_seg (Or.inl rfl) false (Sec.anc a).lseg hp.wf hp.ok
  simp only [render, Bool.false_eq_true, ↓reduceIte, renderFrom, List.append_nil, h1]
  simp [Sec.lseg, remark1, remarkT_secToks, LSeg.text, sepIf]

theorem mtext_anc (a : Str) : (Sec.anc a).mtext = '[' :: '&' :: (tokText (secToks '.' a) ++ [']']) := by
  rw [mtext_lseg]; simp [Sec.lseg, LSeg.text]

/-- **`pop()` past an anchor section** (after 8d0a378): it returns the anchor segment and leaves the
rendering of the steps before — their canonical string, what `str()` of the path accumulated for
those steps is. -/
theorem pop_section_anc (s0 : Sec) (r : List Sec) (a : Str)
    (hok : ∀ x ∈ s0 :: (r ++ [Sec.anc a]), x.ok = true) :
    C08.popView (accObj ((s0 :: (r ++ [Sec.anc a])).map Sec.mtext)) =
      .ok ((Sec.anc a).lseg.seg false,
        normOriginal (render false (((s0 :: r).map Sec.lseg).map (LSeg.seg false)))) := by
  obtain ⟨hacc, hn, hs, hu⟩ := raw_steps s0 (r ++ [Sec.anc a]) hok
  have hsok : (Sec.anc a).ok = true := hok _ (by simp)
  rw [hacc]
  have ht : joinText ((s0 :: (r ++ [Sec.anc a])).map Sec.mtext) =
      (joinText ((s0 :: r).map Sec.mtext) ++ ['.']) ++ '[' :: '&' :: (tokText (secToks '.' a) ++ [']']) := by
    have := joinText_snoc s0.mtext (r.map Sec.mtext) (Sec.anc a).mtext
    simp only [List.map_cons, List.map_append, List.map_nil]
    rw [this, mtext_anc]
    simp
  have hlist : List.map (LSeg.seg false) (List.map Sec.lseg (s0 :: (r ++ [Sec.anc a]))) =
      List.map (LSeg.seg false) (List.map Sec.lseg (s0 :: r)) ++ [(Sec.anc a).lseg.seg false] := by simp
  have hd : (List.map (LSeg.seg false) (List.map Sec.lseg (s0 :: (r ++ [Sec.anc a])))).dropLast =
      List.map (LSeg.seg false) (List.map Sec.lseg (s0 :: r)) := by
    rw [hlist, List.dropLast_concat]
  rw [← hd]
  apply C08.pop_respelled false _ hn (by simpa using hs) _ _ hu
  · rw [hlist, List.getLast?_concat]
  · rw [render_last_anc a hsok, ht]; exact not_endsWith_dot_anc _ _
  · rw [render_last_anc a hsok, ht]; exact not_endsWith_anc _ _
  · intro h; cases h

/-- `str()` of the path accumulated for a non-empty list of good steps is the rendering of its
unescaped segments -/
theorem reported_render (c : Ctx) (s : Sec) (r : List Sec) (hpath : c.path = (s :: r).map Sec.mtext)
    (hok : ∀ x ∈ s :: r, x.ok = true) :
    reported c = .ok (render false (((s :: r).map Sec.lseg).map (LSeg.seg false))) := by
  obtain ⟨hacc, hn, hs, hu⟩ := raw_steps s r hok
  obtain ⟨p, hp⟩ := C08.str_new false _ _ hn (by simpa using hs) hu (by simp)
  unfold reported strOf
  rw [hpath, hacc, hp]

/-- the repaired behaviour on the former C02-K5 witnesses: `YAMLPath("a") + "[&x]"`, then `pop()`: the
text is `a` again; the very first section `[&x]` alone leaves the empty path.  (Before 8d0a378 the
texts stayed `a.[&x]` and `[&x]`.) -/
example : C08.popView (accObj [['a'], "[&x]".toList]) = .ok ((.anchor, .str ['x']), "a".toList) := by
  decide +kernel
example : C08.popView (accObj ["[&x]".toList]) = .ok ((.anchor, .str ['x']), []) := by
  decide +kernel
/-- … while key and index sections are (instances of `pop_section`, and the first-section case) -/
example : C08.popView (accObj [['a'], "[0]".toList]) = .ok ((.index, .int 0), ['a']) := by decide +kernel
example : C08.popView (accObj [['a']]) = .ok ((.key, .str ['a']), []) := by decide +kernel

end Ypv.Acc
