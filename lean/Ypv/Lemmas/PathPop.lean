import Ypv.Lemmas.PathAcc
import Ypv.Props.C08
/-!
# `YAMLPath.pop()` on an accumulated path (what `[parent()]` does to `translated_path`)

The evaluator model's `ctxUp` drops the last path section.  `pop_section`: the library's `pop()`
(C08 object model) restores exactly the accumulated text of the steps before, when the popped section
is a key or an index section.  It does NOT for an anchor section (`pop()` looks for the stand-alone
rendering `&name` of the segment, the section is `[&name]`): finding C02-K5, kernel-checked below.
-/
namespace Ypv.Acc
open Ypv Ypv.Sim Ypv.Search Ypv.Search.Rr

theorem remarkT_secToks (t : Str) : remarkT '.' (secToks '.' t) = secToks '.' t := by
  cases t with
  | nil => rfl
  | cons c r =>
    have h := remarkT_tokenize '.' r
    simp only [remarkT] at h ⊢
    simp only [secToks, List.map_cons, h, List.cons.injEq, and_true]
    simp only [markAll, Prod.mk.injEq, and_true]
    by_cases hs : special '.' c = true
    · simp [hs]
    · have hs' : special '.' c = false := by simpa using hs
      rw [hs', Bool.false_or]
      simp only [special, Bool.or_eq_false_iff, decide_eq_false_iff_not] at hs'
      obtain ⟨⟨⟨⟨⟨⟨⟨⟨⟨⟨⟨h1, h2⟩, h3⟩, h4⟩, h5⟩, h6⟩, h7⟩, h8⟩, h9⟩, h10⟩, h11⟩, h12⟩ := hs'
      simp [keySyms, *]

/-- the library's rendering of a popped key / index segment is the section that was appended -/
theorem render_last (s : Sec) (hs : s.ok = true) (hna : ∀ a, s ≠ .anc a) :
    render false [s.lseg.seg false] = s.mtext := by
  have hp := plain_sec s hs
  have h1 : renderSeg '.' false (s.lseg.seg false) = (remark1 '.' false s.lseg).text '.' false :=
    render_seg (Or.inl rfl) false s.lseg hp.wf hp.ok
  simp only [render, Bool.false_eq_true, ↓reduceIte, renderFrom, List.append_nil, h1]
  cases s with
  | key t => simp [Sec.lseg, remark1, remarkT_secToks, mtext_lseg]
  | idx i => simp [Sec.lseg, remark1, mtext_lseg]
  | anc a => exact absurd rfl (hna a)

theorem joinText_snoc (s0 : Str) (r : List Str) (s : Str) :
    joinText (s0 :: (r ++ [s])) = joinText (s0 :: r) ++ '.' :: s := by
  simp [joinText, List.flatMap_append]

/-- **`pop()` undoes the last `+ section`** for key and index sections: it returns the section's
(unescaped) segment and leaves exactly the text accumulated for the steps before. -/
theorem pop_section (s0 : Sec) (r : List Sec) (s : Sec) (hok : ∀ x ∈ s0 :: (r ++ [s]), x.ok = true)
    (hna : ∀ a, s ≠ .anc a) :
    C08.popView (accObj ((s0 :: (r ++ [s])).map Sec.mtext)) =
      .ok (s.lseg.seg false, joinText ((s0 :: r).map Sec.mtext)) := by
  obtain ⟨hacc, hn, hs, hu⟩ := raw_steps s0 (r ++ [s]) hok
  obtain ⟨_, hnt, _, _⟩ := raw_steps s0 r (fun x hx => hok x (by
    simp only [List.mem_cons, List.mem_append] at hx ⊢
    rcases hx with h | h
    · exact Or.inl h
    · exact Or.inr (Or.inl h)))
  have hsok : s.ok = true := hok s (by simp)
  rw [hacc]
  have ht : joinText ((s0 :: (r ++ [s])).map Sec.mtext) =
      joinText ((s0 :: r).map Sec.mtext) ++ '.' :: s.mtext := by
    simpa using joinText_snoc s0.mtext (r.map Sec.mtext) s.mtext
  apply C08.pop_of_rendered (joinText ((s0 :: r).map Sec.mtext)) s.mtext _ hn hnt
    (by rw [hs]; exact ht) _ (s.lseg.seg false) (by rw [hs]; exact hu)
  · have : List.map (LSeg.seg false) (List.map Sec.lseg (s0 :: (r ++ [s]))) =
        List.map (LSeg.seg false) (List.map Sec.lseg (s0 :: r)) ++ [s.lseg.seg false] := by simp
    rw [this, List.getLast?_concat]
  · rw [hs]
    simpa [SepOpt.isFslash] using render_last s hsok hna

/-- **C02-K5**: an anchor section is not stripped — `YAMLPath("a") + "[&x]"`, then `pop()`: the text
stays `a.[&x]`; and the very first section `[&x]` alone stays too. -/
example : C08.popView (accObj [['a'], "[&x]".toList]) = .ok ((.anchor, .str ['x']), "a.[&x]".toList) := by
  decide +kernel
example : C08.popView (accObj ["[&x]".toList]) = .ok ((.anchor, .str ['x']), "[&x]".toList) := by
  decide +kernel
/-- … while key and index sections are (instances of `pop_section`, and the first-section case) -/
example : C08.popView (accObj [['a'], "[0]".toList]) = .ok ((.index, .int 0), ['a']) := by decide +kernel
example : C08.popView (accObj [['a']]) = .ok ((.key, .str ['a']), []) := by decide +kernel

end Ypv.Acc
