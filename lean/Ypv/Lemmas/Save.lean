import Ypv.Model.Save
/-!
# Lemmas about the abstract file system and the save sequences (C17)
-/
namespace Ypv.Save
open Ypv

theorem FS.set_same (fs : FS) (p : Str) (v : Option Bytes) : fs.set p v p = v := by
  simp [FS.set]

theorem FS.set_other (fs : FS) {p q : Str} (v : Option Bytes) (h : q ≠ p) : fs.set p v q = fs q := by
  simp [FS.set, h]

theorem run_nil (fs : FS) : run fs [] = fs := rfl

theorem run_cons (fs : FS) (s : Step) (l : List Step) : run fs (s :: l) = run (apply fs s) l := rfl

theorem run_append (fs : FS) (a b : List Step) : run fs (a ++ b) = run (run fs a) b := by
  simp [run, List.foldl_append]

/-- A step that does not write `p` leaves `p` alone. -/
theorem apply_frame (fs : FS) (s : Step) (p : Str) (h : s.writes ≠ some p) : apply fs s p = fs p := by
  cases s <;> simp [apply, Step.writes] at * <;> exact FS.set_other _ _ (by intro e; exact h e.symm)

/-- Steps none of which writes `p` leave `p` alone. -/
theorem run_frame (p : Str) : ∀ (l : List Step) (fs : FS), (∀ s ∈ l, s.writes ≠ some p) → run fs l p = fs p := by
  intro l
  induction l with
  | nil => intro fs _; rfl
  | cons s r ih =>
    intro fs h
    rw [run_cons, ih _ (fun s' hs' => h s' (List.mem_cons_of_mem _ hs')), apply_frame _ _ _ (h s (List.mem_cons_self ..))]

/-- Read-only steps change nothing at all. -/
theorem run_readOnly : ∀ (l : List Step) (fs : FS), (∀ s ∈ l, s.writes = none) → run fs l = fs := by
  intro l
  induction l with
  | nil => intro fs _; rfl
  | cons s r ih =>
    intro fs h
    rw [run_cons, ih _ (fun s' hs' => h s' (List.mem_cons_of_mem _ hs'))]
    have := h s (List.mem_cons_self ..)
    cases s <;> simp [Step.writes] at this <;> rfl

/-- Writing chunks one after the other appends their concatenation. -/
theorem run_appends (p : Str) : ∀ (cs : List Bytes) (fs : FS) (x : Bytes), fs p = some x →
    run fs (cs.map (.append p)) p = some (x ++ cs.flatten) := by
  intro cs
  induction cs with
  | nil => intro fs x h; simp [run_nil, h]
  | cons c r ih =>
    intro fs x h
    rw [List.map_cons, run_cons, ih (apply fs (.append p c)) (x ++ c)]
    · simp [List.append_assoc]
    · simp [apply, FS.set_same, h]

theorem appends_writes (p : Str) (cs : List Bytes) : ∀ s ∈ cs.map (Step.append p), s.writes = some p := by
  intro s hs
  obtain ⟨c, _, rfl⟩ := List.mem_map.mp hs
  rfl

/-! ### open handles -/

theorem openWFrom_append : ∀ (a b : List Step) (st : List Str),
    openWFrom st (a ++ b) = openWFrom (openWFrom st a) b := by
  intro a
  induction a with
  | nil => intro b st; rfl
  | cons s r ih => intro b st; cases s <;> simp [openWFrom, ih]

theorem openWFrom_appends (p : Str) : ∀ (cs : List Bytes) (st : List Str),
    openWFrom st (cs.map (.append p)) = st := by
  intro cs
  induction cs with
  | nil => intro st; rfl
  | cons c r ih => intro st; simp [openWFrom, ih]

/-- A handle open at the end was open at the start or was opened by a `creatTrunc` of the list. -/
theorem mem_openWFrom : ∀ (l : List Step) (st : List Str) (q : Str),
    q ∈ openWFrom st l → q ∈ st ∨ Step.creatTrunc q ∈ l := by
  intro l
  induction l with
  | nil => intro st q h; exact Or.inl h
  | cons s r ih =>
    intro st q h
    cases s with
    | creatTrunc p =>
      rcases ih _ _ h with h' | h'
      · rcases List.mem_cons.mp h' with rfl | h''
        · exact Or.inr (List.mem_cons_self ..)
        · exact Or.inl h''
      · exact Or.inr (List.mem_cons_of_mem _ h')
    | close p =>
      rcases ih _ _ h with h' | h'
      · exact Or.inl (List.mem_filter.mp h').1
      · exact Or.inr (List.mem_cons_of_mem _ h')
    | stat p | openRead p | unlink p | append p c | setMeta p =>
      rcases ih _ _ h with h' | h'
      · exact Or.inl h'
      · exact Or.inr (List.mem_cons_of_mem _ h')

/-- Cleanup after a fault touches only files that were open for writing. -/
theorem cleanup_frame (done cl : List Step) (p : Str) (hc : Cleanup done cl)
    (hp : p ∉ openW done) (fs : FS) : run fs cl p = fs p := by
  apply run_frame
  intro s hs
  obtain ⟨q, hq, h⟩ := hc s hs
  rcases h with ⟨c, rfl⟩ | rfl
  · simp only [Step.writes]; intro e; cases e; exact hp hq
  · simp [Step.writes]

theorem cleanup_nil_of_closed (done cl : List Step) (hc : Cleanup done cl) (h : openW done = []) : cl = [] := by
  cases cl with
  | nil => rfl
  | cons s r =>
    obtain ⟨q, hq, _⟩ := hc s (List.mem_cons_self ..)
    rw [h] at hq; cases hq

/-! ### the backup block -/

theorem bakOf_ne (t : Str) : t ≠ bakOf t := by
  intro h
  have := congrArg List.length h
  simp [bakOf] at this

theorem copy2_writes (src dst : Str) (cs : List Bytes) :
    ∀ s ∈ copy2 src dst cs, s.writes = none ∨ s.writes = some dst := by
  intro s hs
  simp only [copy2, List.mem_append, List.mem_cons, List.mem_map, List.not_mem_nil, or_false] at hs
  rcases hs with ((rfl | rfl) | ⟨c, _, rfl⟩) | (rfl | rfl | rfl) <;> simp [Step.writes]

theorem backupSteps_writes (saw : Bool) (t : Str) (oc : List Bytes) :
    ∀ s ∈ backupSteps saw t oc, s.writes = none ∨ s.writes = some (bakOf t) := by
  intro s hs
  simp only [backupSteps, List.mem_append, List.mem_cons, List.not_mem_nil, or_false] at hs
  rcases hs with (rfl | h) | h
  · simp [Step.writes]
  · split at h
    · simp at h; subst h; simp [Step.writes]
    · cases h
  · exact copy2_writes _ _ _ s h

theorem writeSteps_writes (t : Str) (nc : List Bytes) :
    ∀ s ∈ writeSteps t nc, s.writes = none ∨ s.writes = some t := by
  intro s hs
  simp only [writeSteps, List.mem_append, List.mem_cons, List.mem_map, List.not_mem_nil, or_false] at hs
  rcases hs with (rfl | ⟨c, _, rfl⟩) | rfl <;> simp [Step.writes]

theorem writePart_writes (w : Writer) (t : Str) (nc : List Bytes) :
    ∀ s ∈ writePart w t nc, s.writes = none ∨ s.writes = some t := by
  intro s hs
  cases w <;> simp only [writePart, List.mem_cons] at hs
  · rcases hs with rfl | hs
    · simp [Step.writes]
    · exact writeSteps_writes _ _ _ hs
  all_goals exact writeSteps_writes _ _ _ hs

theorem openW_copy2 (src dst : Str) (cs : List Bytes) (st : List Str) :
    openWFrom st (copy2 src dst cs) = st.filter (fun q => q ≠ dst) := by
  simp [copy2, openWFrom, openWFrom_append, openWFrom_appends]

theorem openW_backupSteps (saw : Bool) (t : Str) (oc : List Bytes) : openW (backupSteps saw t oc) = [] := by
  unfold openW backupSteps
  rw [openWFrom_append, openWFrom_append, openW_copy2]
  split <;> simp [openWFrom]

theorem openW_writeSteps (t : Str) (nc : List Bytes) (st : List Str) :
    openWFrom st (writeSteps t nc) = st.filter (fun q => q ≠ t) := by
  simp [writeSteps, openWFrom, openWFrom_append, openWFrom_appends]

/-- After `copy2 src dst` whose chunks are the content of `src`, `dst` holds that content. -/
theorem run_copy2 (fs : FS) (src dst : Str) (cs : List Bytes) :
    run fs (copy2 src dst cs) dst = some cs.flatten := by
  unfold copy2
  rw [run_append, run_append]
  rw [run_frame dst [.close dst, .setMeta dst, .setMeta dst] _ (by intro s hs; simp at hs; rcases hs with rfl | rfl <;> simp [Step.writes])]
  rw [run_appends dst cs _ []]
  · simp
  · simp [run, apply, FS.set_same]

/-- The backup block leaves a complete copy of the pre-image in the backup file, whatever the
backup path held before. -/
theorem run_backupSteps (fs : FS) (saw : Bool) (t : Str) (oc : List Bytes) :
    run fs (backupSteps saw t oc) (bakOf t) = some oc.flatten := by
  unfold backupSteps
  rw [run_append]
  exact run_copy2 _ _ _ _

/-- The write block leaves the new text in the target. -/
theorem run_writeSteps (fs : FS) (t : Str) (nc : List Bytes) :
    run fs (writeSteps t nc) t = some nc.flatten := by
  unfold writeSteps
  rw [run_append, run_append]
  rw [run_frame t [.close t] _ (by intro s hs; simp at hs; subst hs; simp [Step.writes])]
  rw [run_appends t nc _ []]
  · simp
  · simp [run, apply, FS.set_same]

theorem run_writePart (fs : FS) (w : Writer) (t : Str) (nc : List Bytes) :
    run fs (writePart w t nc) t = some nc.flatten := by
  cases w <;> simp only [writePart]
  · rw [run_cons]; exact run_writeSteps _ _ _
  all_goals exact run_writeSteps _ _ _

/-! ### the two-phase argument -/

/-- `A` only touches `b` and ends with every handle closed and `b` holding `orig`; `C` only
touches `t`.  Then wherever `A ++ C` is cut, and whatever the unwinding flushes afterwards, `t`
or `b` holds `orig`. -/
theorem two_phase (fs : FS) (t b : Str) (orig : Bytes) (A C : List Step)
    (htb : t ≠ b) (ht : fs t = some orig)
    (hA : ∀ s ∈ A, s.writes = none ∨ s.writes = some b)
    (hC : ∀ s ∈ C, s.writes = none ∨ s.writes = some t)
    (hAo : openW A = []) (hAb : run fs A b = some orig)
    (k : Nat) (cl : List Step) (hcl : Cleanup ((A ++ C).take k) cl) :
    runFault fs (A ++ C) k cl t = some orig ∨ runFault fs (A ++ C) k cl b = some orig := by
  unfold runFault
  by_cases hk : k ≤ A.length
  · -- the fault is inside the backup block (or at the first step after it)
    left
    have hpre : (A ++ C).take k = A.take k := by
      rw [List.take_append]
      have h0 : k - A.length = 0 := by omega
      rw [h0]; simp
    rw [hpre] at hcl ⊢
    have hnot : t ∉ openW (A.take k) := by
      intro hin
      rcases mem_openWFrom _ _ _ hin with h | h
      · cases h
      · have := hA _ (List.mem_of_mem_take h)
        simp [Step.writes] at this
        exact htb this
    rw [cleanup_frame _ _ _ hcl hnot]
    rw [run_frame t _ _ (fun s hs => by
      rcases hA s (List.mem_of_mem_take hs) with h | h
      · rw [h]; simp
      · rw [h]; intro e; cases e; exact htb rfl)]
    exact ht
  · -- the backup block is complete
    right
    have hpre : (A ++ C).take k = A ++ C.take (k - A.length) := by
      rw [List.take_append, List.take_of_length_le (by omega)]
    rw [hpre] at hcl ⊢
    have hnot : b ∉ openW (A ++ C.take (k - A.length)) := by
      intro hin
      unfold openW at hin
      rw [openWFrom_append] at hin
      have hAo' : openWFrom [] A = [] := hAo
      rw [hAo'] at hin
      rcases mem_openWFrom _ _ _ hin with h | h
      · cases h
      · have := hC _ (List.mem_of_mem_take h)
        simp [Step.writes] at this
        exact htb this.symm
    rw [cleanup_frame _ _ _ hcl hnot, run_append]
    rw [run_frame b _ _ (fun s hs => by
      rcases hC s (List.mem_of_mem_take hs) with h | h
      · rw [h]; simp
      · rw [h]; intro e; cases e; exact htb rfl)]
    exact hAb

end Ypv.Save
