import Ypv.Model.Collector
import Ypv.Lemmas.EvalKw
import Ypv.Props.C14
/-!
# Lemmas about the collector evaluator (`Model/Collector.lean`)

* `Pres st st'` — the flag `hashSub` only rises, and while it is down the document and the deletion
  log are untouched; every function of the evaluator relates its input and output state by `Pres`.
* `Flagged out` — a crash outcome implies the flag: `_collector_subtraction` is the only place where
  a collector adds a crash outcome, and only when its left operand holds a hash.
-/
namespace Ypv.W3
open Ypv Ypv.Eval Gen

/-! ## `Pres` -/

def Pres (st st' : St) : Prop :=
  (st.hashSub = true → st'.hashSub = true) ∧
  (st'.hashSub = false → st'.doc = st.doc ∧ st'.dels = st.dels)

theorem Pres.refl (st : St) : Pres st st := ⟨id, fun _ => ⟨rfl, rfl⟩⟩

theorem Pres.trans {a b c : St} (h1 : Pres a b) (h2 : Pres b c) : Pres a c := by
  refine ⟨fun h => h2.1 (h1.1 h), fun h => ?_⟩
  have hb : b.hashSub = false := by
    cases hb : b.hashSub with
    | false => rfl
    | true => rw [h2.1 hb] at h; cases h
  obtain ⟨d2, l2⟩ := h2.2 h
  obtain ⟨d1, l1⟩ := h1.2 hb
  exact ⟨d2.trans d1, l2.trans l1⟩

/-- An outcome in the class `Q` (the crash outcomes, or no outcome at all) implies the flag. -/
def Flagged {α : Type} (Q : Err → Prop) (out : Gen α × St) : Prop :=
  ∀ e, out.1.2 = some e → Q e → out.2.hashSub = true

def Good (Q : Err → Prop) (st : St) (out : Gen CRes × St) : Prop := Pres st out.2 ∧ Flagged Q out

/-! ## The subtraction loops -/

theorem subLoop_noMap (rem : List RemEl) : ∀ (lhs upd : List CRes) (ds : List (Nat × Key)),
    (∀ l ∈ lhs, l.unwrap.isMap = false) →
    ∃ upd', subLoop rem lhs upd ds = .ok (upd', ds) := by
  intro lhs
  induction lhs with
  | nil => intro upd ds _; exact ⟨upd, rfl⟩
  | cons l more ih =>
    intro upd ds h
    have hl := h l (by simp)
    have hm : ∀ l ∈ more, l.unwrap.isMap = false := fun x hx => h x (by simp [hx])
    unfold subLoop
    split
    · rename_i a es heq
      rw [heq] at hl
      simp [Node.isMap] at hl
    · split
      · exact ih _ _ hm
      · exact ih _ _ hm
    · split
      · exact ih _ _ hm
      · exact ih _ _ hm

theorem delLoop_hashSub (amb : Ctx) : ∀ (ds : List (Nat × Key)) (upd : List CRes) (st : St),
    (delLoop amb ds upd st).2.2.hashSub = st.hashSub := by
  intro ds
  induction ds with
  | nil => intro upd st; rfl
  | cons d more ih =>
    intro upd st
    obtain ⟨i, k⟩ := d
    unfold delLoop
    split
    · rfl
    · split
      · rfl
      · rw [ih]

theorem any_false_of {l : List CRes} (h : (l.any (fun l => l.unwrap.isMap)) = false) :
    ∀ x ∈ l, x.unwrap.isMap = false := by
  intro x hx
  rw [List.any_eq_false] at h
  simpa using h x hx

/-! ## Parsing never crashes (C14) -/

theorem segsOf_noCrash (t : Str) (e : Err) (h : segsOf t = .error e) : e.isCrash = false := by
  unfold segsOf at h
  rcases C14.parse_total true t with ⟨es, he⟩ | ⟨c, he⟩
  · rw [he] at h
    simp only at h
    rcases C14.parse_total false t with ⟨us, hu⟩ | ⟨c, hu⟩
    · rw [hu] at h
      simp only at h
      split at h
      · cases h
      · cases h; rfl
    · rw [hu] at h
      simp only [errOfPErr] at h
      cases h; rfl
  · rw [he] at h
    simp only [errOfPErr] at h
    cases h; rfl

/-! ## The operators -/

section
variable {inner : Inner} {Q : Err → Prop} (hQ : ∀ e, Q e → e.isCrash = true)
include hQ

theorem evalExpr_good (hin : ∀ segs r st, segsOf expr = .ok segs → Good Q st (inner segs r st)) (r : CRes) (st : St) :
    Good Q st (evalExpr inner expr r st) := by
  unfold evalExpr
  split
  · rename_i e he
    refine ⟨Pres.refl _, ?_⟩
    intro e' h1 h2
    simp only [Gen.fail, Option.some.injEq] at h1
    subst h1
    have h3 := hQ _ h2
    rw [segsOf_noCrash _ _ he] at h3
    cases h3
  · rename_i segs he
    exact hin segs r st he

/-- What `foldOps` guarantees: the state relation, and a crash outcome implies the flag. -/
def FoldGood (Q : Err → Prop) (st : St) (out : Except Err (List CRes) × St) : Prop :=
  Pres st out.2 ∧ ∀ e, out.1 = .error e → Q e → out.2.hashSub = true

/-- The operands a fold will evaluate are all well-behaved. -/
def OperandsGood (Q : Err → Prop) (inner : Inner) (segs : List ESeg) : Prop :=
  ∀ expr op, ESeg.collector expr op ∈ segs → ∀ ss r st, segsOf expr = .ok ss → Good Q st (inner ss r st)

theorem foldOps_good (amb : Ctx) : ∀ (segs : List ESeg), OperandsGood Q inner segs →
    ∀ (r : CRes) (acc : List CRes) (st : St), FoldGood Q st (foldOps inner amb segs r acc st) := by
  intro segs
  induction segs with
  | nil => intro _ r acc st; unfold foldOps; exact ⟨Pres.refl _, fun e h => by cases h⟩
  | cons s rest ih =>
    intro hop r acc st
    have hrest : OperandsGood Q inner rest := fun expr op hm => hop expr op (by simp [hm])
    cases s with
    | collector expr op =>
      have hev := fun r st => evalExpr_good hQ (inner := inner) (expr := expr)
        (fun ss r st h => hop expr op (by simp) ss r st h) r st
      cases op with
      | none => unfold foldOps; exact ⟨Pres.refl _, fun e h hc => by cases h; cases hQ _ hc⟩
      | add =>
        unfold foldOps
        simp only
        have h := hev r st
        rcases hq : evalExpr inner expr r st with ⟨⟨res, _ | e⟩, st1⟩
        · rw [hq] at h
          simp only
          have h' := ih hrest (r.applyDels (newDels st st1)) (syncAll st st1 acc ++ res.flatMap (addExpand amb)) st1
          exact ⟨h.1.trans h'.1, h'.2⟩
        · rw [hq] at h
          simp only
          exact ⟨h.1, fun e' he' hc => by cases he'; exact h.2 e rfl hc⟩
      | inter =>
        unfold foldOps
        simp only
        have h := hev r st
        rcases hq : evalExpr inner expr r st with ⟨⟨res, _ | e⟩, st1⟩
        · rw [hq] at h
          simp only
          have h' := ih hrest (r.applyDels (newDels st st1)) (interStep (syncAll st st1 acc) res) st1
          exact ⟨h.1.trans h'.1, h'.2⟩
        · rw [hq] at h
          simp only
          exact ⟨h.1, fun e' he' hc => by cases he'; exact h.2 e rfl hc⟩
      | sub =>
        unfold foldOps
        simp only
        have h := hev r st
        rcases hq : evalExpr inner expr r st with ⟨⟨res, _ | e⟩, st1⟩
        · rw [hq] at h
          simp only
          cases hany : (syncAll st st1 acc).any (fun l => l.unwrap.isMap) with
          | false =>
            -- no hash on the left: nothing recorded for deletion, nothing raised
            obtain ⟨upd', hs⟩ := subLoop_noMap (res.flatMap (getDel st1.doc)) (syncAll st st1 acc) [] []
              (any_false_of hany)
            rw [hs]
            simp only [delLoop, Bool.or_false]
            have h' := ih hrest (r.applyDels (newDels st st1)) upd' st1
            have e1 : ({ st1 with hashSub := st1.hashSub } : St) = st1 := rfl
            rw [e1]
            exact ⟨h.1.trans h'.1, h'.2⟩
          | true =>
            simp only [Bool.or_true]
            have hp2 : Pres st1 { st1 with hashSub := true } := ⟨fun _ => rfl, fun hc => by cases hc⟩
            split
            · exact ⟨h.1.trans hp2, fun _ _ _ => rfl⟩
            · rename_i upd ds _
              have hk := delLoop_hashSub amb ds upd { st1 with hashSub := true }
              split
              · rename_i e _ st3 hd
                rw [hd] at hk
                have hp3 : Pres st1 st3 := ⟨fun _ => hk, fun hc => by rw [hk] at hc; cases hc⟩
                exact ⟨h.1.trans hp3, fun _ _ _ => hk⟩
              · rename_i upd' st3 hd
                rw [hd] at hk
                have hp3 : Pres st1 st3 := ⟨fun _ => hk, fun hc => by rw [hk] at hc; cases hc⟩
                have h' := ih hrest (r.applyDels (newDels st st3)) upd' st3
                exact ⟨(h.1.trans hp3).trans h'.1, h'.2⟩
        · rw [hq] at h
          simp only
          exact ⟨h.1, fun e' he' hc => by cases he'; exact h.2 e rfl hc⟩
    | _ => unfold foldOps; exact ⟨Pres.refl _, fun e h => by cases h⟩


theorem collectStep_good (hop : OperandsGood Q inner (.collector expr .none :: rest)) (r : CRes) (st : St) :
    Good Q st (collectStep inner expr rest r st) := by
  have hrest : OperandsGood Q inner rest := fun e op hm => hop e op (by simp [hm])
  have h := evalExpr_good hQ (inner := inner) (expr := expr) (fun ss r st h => hop expr .none (by simp) ss r st h) r st
  unfold collectStep
  rcases hq : evalExpr inner expr r st with ⟨⟨res, _ | e⟩, st1⟩
  · rw [hq] at h
    simp only
    have h' := foldOps_good hQ (inner := inner) r.ctx rest hrest (r.applyDels (newDels st st1)) (gatherFirst res) st1
    rcases hf : foldOps inner r.ctx rest (r.applyDels (newDels st st1)) (gatherFirst res) st1 with ⟨_ | _ | _, st2⟩
    · rw [hf] at h'
      rename_i e
      exact ⟨h.1.trans h'.1, fun e' he' hc => by
        simp only [Gen.fail, Option.some.injEq] at he'
        subst he'
        exact h'.2 e rfl hc⟩
    · rw [hf] at h'
      exact ⟨h.1.trans h'.1, fun e' he' _ => by simp [Gen.nil] at he'⟩
    · rw [hf] at h'
      exact ⟨h.1.trans h'.1, fun e' he' _ => by simp [Gen.one] at he'⟩
  · rw [hq] at h
    simp only
    exact ⟨h.1, fun e' he' hc => by
      simp only [Gen.fail, Option.some.injEq] at he'
      subst he'
      exact h.2 e rfl hc⟩

end

/-! ## Non-collector segments never crash -/

mutual
theorem noCrash_keyThrough (k : Str) : (r : CRes) → (keyThrough k r).NoCrash
  | .real n c => by unfold keyThrough; exact noCrash_map _ (noCrash_keyStep _ _ _ _)
  | .virt items _ => by unfold keyThrough; exact noCrash_keyThroughList k items
  | .wrap _ _ => by unfold keyThrough; exact noCrash_nil
theorem noCrash_keyThroughList (k : Str) : (l : List CRes) → (keyThroughList k l).NoCrash
  | [] => by unfold keyThroughList; exact noCrash_nil
  | x :: xs => by
    unfold keyThroughList
    exact noCrash_append (noCrash_keyThrough k x) (noCrash_keyThroughList k xs)
end

theorem noCrash_virtElemAt (items : List CRes) (i : Int) (c : Ctx) : (virtElemAt items i c).NoCrash := by
  unfold virtElemAt
  split
  · rename_i h
    obtain ⟨x, hx⟩ := pyGetItem_inRange items i h
    rw [hx]
    exact noCrash_one _
  · exact noCrash_nil

theorem noCrash_virtSlice (lo hi : Str) (items : List CRes) (c : Ctx) : (virtSlice lo hi items c).NoCrash := by
  unfold virtSlice
  split
  · split
    · rename_i h
      obtain ⟨x, hx⟩ := pyGetItem_inRange items _ h.2
      rw [hx]
      exact noCrash_one _
    · exact noCrash_one _
  · exact noCrash_fail rfl

theorem noCrash_stepVirtC (s : ESeg) (items : List CRes) (c : Ctx) : (stepVirtC s items c).NoCrash := by
  unfold stepVirtC
  split
  · split
    · exact noCrash_virtElemAt _ _ _
    · exact noCrash_keyThroughList _ _
  · exact noCrash_virtElemAt _ _ _
  · exact noCrash_virtSlice _ _ _ _
  · exact noCrash_fail rfl

theorem noCrash_stepOnNC (s : ESeg) : (stepOnNC s).NoCrash := by
  unfold stepOnNC
  split
  · exact noCrash_nil
  · exact noCrash_nil
  · exact noCrash_nil
  · exact noCrash_fail rfl

section
variable {mt : Matcher} {dsc : Node → Desc}

theorem noCrash_stepPlain (hmt : MtSafe mt) (hd : ∀ rt, DscSafe (dsc rt)) (rt : Node) (s : ESeg) (rest : List ESeg)
    (hk : ∀ s' ∈ s :: rest, s'.grouping = false) (r : CRes) : (stepPlain mt dsc rt s rest r).NoCrash := by
  unfold stepPlain
  split
  · exact noCrash_map _ (noCrash_stepSeg hmt (hd rt) rest s true _ _ (W1.kwOk_of_not_grouping rt s (hk s (by simp)))
      (fun s' hs' => W1.kwOk_of_not_grouping rt s' (hk s' (by simp [hs']))))
  · exact noCrash_stepVirtC _ _ _
  · exact noCrash_stepOnNC _

/-- A segment the evaluation may meet: no `unique`/`distinct` keyword (class of C15-K1), and the
operand of a collector evaluates well. -/
def SegOk (Q : Err → Prop) (inner : Inner) (s : ESeg) : Prop :=
  (s.grouping = false ∨ ∀ e, ¬ Q e) ∧
  ∀ expr op, s = .collector expr op → ∀ ss r st, segsOf expr = .ok ss → Good Q st (inner ss r st)

/-- Either nothing is to be shown about errors, or the matcher and the attribute evaluation are safe. -/
def Safe (Q : Err → Prop) (mt : Matcher) (dsc : Node → Desc) : Prop :=
  (∀ e, ¬ Q e) ∨ (MtSafe mt ∧ ∀ rt, DscSafe (dsc rt))

variable {Q : Err → Prop} (hQ : ∀ e, Q e → e.isCrash = true)

theorem operandsGood_of_segOk {inner : Inner} {segs : List ESeg} (h : ∀ s ∈ segs, SegOk Q inner s) :
    OperandsGood Q inner segs :=
  fun expr op hm ss r st hs => (h _ hm).2 expr op rfl ss r st hs

include hQ

theorem good_of_noCrash {g : Gen CRes} (st : St) (h : g.NoCrash) : Good Q st (g, st) :=
  ⟨Pres.refl _, fun e he hc => by have h3 := hQ _ hc; rw [h e he] at h3; cases h3⟩

omit hQ in
theorem good_of_noQ {g : Gen CRes} (st : St) (h : ∀ e, ¬ Q e) : Good Q st (g, st) :=
  ⟨Pres.refl _, fun e _ hc => absurd hc (h e)⟩

theorem stepM_good {inner : Inner} (hsafe : Safe Q mt dsc) (s : ESeg) (rest : List ESeg)
    (hs : ∀ s' ∈ s :: rest, SegOk Q inner s') (r : CRes) (st : St) : Good Q st (stepM mt dsc inner s rest r st) := by
  have hop : OperandsGood Q inner (s :: rest) := operandsGood_of_segOk hs
  cases s with
  | collector expr op =>
    cases op with
    | none =>
      unfold stepM
      simp only
      split
      · exact good_of_noCrash hQ st (noCrash_fail rfl)
      · exact collectStep_good hQ hop _ st
    | add | sub | inter =>
      unfold stepM
      simp only
      split
      · exact good_of_noCrash hQ st (noCrash_one _)
      · exact good_of_noCrash hQ st (noCrash_fail rfl)
  | key _ | index _ | slice _ _ | anchor _ | search _ _ _ _ | matchAll | traverse | keyword _ _ _ | unknown =>
    unfold stepM
    by_cases hq : ∀ e, ¬ Q e
    · exact good_of_noQ st hq
    · have hk : ∀ s' ∈ _ :: rest, s'.grouping = false := fun s' h => (hs s' h).1.resolve_right hq
      have hsf := hsafe.resolve_left hq
      exact good_of_noCrash hQ st (noCrash_stepPlain hsf.1 hsf.2 _ _ _ hk r)

theorem bindS_good {f : CRes → St → Gen CRes × St} (hf : ∀ x st, Good Q st (f x st)) (st0 : St) :
    ∀ (l : List CRes) (st : St), Good Q st (bindS f st0 l st) := by
  intro l
  induction l with
  | nil => intro st; unfold bindS; exact good_of_noCrash hQ st noCrash_nil
  | cons x xs ih =>
    intro st
    unfold bindS
    have h := hf (x.applyDels (newDels st0 st)) st
    rcases hq : f (x.applyDels (newDels st0 st)) st with ⟨⟨res, _ | e⟩, st1⟩
    · rw [hq] at h
      simp only
      have h' := ih st1
      exact ⟨h.1.trans h'.1, fun e' he' hc => h'.2 e' he' hc⟩
    · rw [hq] at h
      simp only
      exact h

theorem requiredW_good {inner : Inner} (hsafe : Safe Q mt dsc) :
    ∀ (segs : List ESeg), (∀ s ∈ segs, SegOk Q inner s) → ∀ (r : CRes) (st : St),
      Good Q st (requiredW mt dsc inner segs r st) := by
  intro segs
  induction segs with
  | nil => intro _ r st; unfold requiredW; exact good_of_noCrash hQ st (noCrash_one _)
  | cons s rest ih =>
    intro hs r st
    have hrest : ∀ s' ∈ rest, SegOk Q inner s' := fun s' h => hs s' (by simp [h])
    unfold requiredW
    have h := stepM_good hQ (mt := mt) (dsc := dsc) hsafe s rest hs r st
    rcases hq : stepM mt dsc inner s rest r st with ⟨g, st1⟩
    rw [hq] at h
    simp only
    have h' := bindS_good hQ (f := requiredW mt dsc inner rest) (fun x st => ih hrest x st) st1 g.1 st1
    rcases hb : bindS (requiredW mt dsc inner rest) st1 g.1 st1 with ⟨⟨res, _ | e⟩, st2⟩
    · rw [hb] at h'
      simp only
      refine ⟨h.1.trans h'.1, fun e' he' hc => ?_⟩
      exact h'.1.1 (h.2 e' he' hc)
    · rw [hb] at h'
      simp only
      exact ⟨h.1.trans h'.1, h'.2⟩

omit hQ in
/-- **State relation of the whole evaluator**, no hypothesis: the flag only rises; while it is down
the document and the deletion log are untouched. -/
theorem requiredM_pres : ∀ (fuel : Nat) (segs : List ESeg) (r : CRes) (st : St),
    Pres st (requiredM mt dsc fuel segs r st).2 := by
  have hQ0 : ∀ e : Err, (fun _ : Err => False) e → e.isCrash = true := fun _ h => h.elim
  suffices h : ∀ (fuel : Nat) (segs : List ESeg) (r : CRes) (st : St),
      Good (fun _ => False) st (requiredM mt dsc fuel segs r st) from fun f s r st => (h f s r st).1
  intro fuel
  induction fuel with
  | zero => intro segs r st; unfold requiredM; exact good_of_noQ st (fun _ h => h)
  | succ f ih =>
    intro segs r st
    unfold requiredM
    exact requiredW_good hQ0 (Or.inl (fun _ h => h)) segs
      (fun s _ => ⟨Or.inr (fun _ h => h), fun _ _ _ ss r st _ => ih ss r st⟩) r st

/-! ## The decidable path class of the crash theorem -/

/-- No `unique` / `distinct` keyword segment (class of C15-K1) at any nesting level of the collector
texts the evaluation parses with `fuel`. -/
def okDeep : Nat → List ESeg → Bool
  | 0, _ => true
  | f + 1, segs => segs.all (fun s => !s.grouping &&
      (match s with
       | .collector e _ =>
         (match segsOf e with
          | .ok ss => okDeep f ss
          | .error _ => true)
       | _ => true))

omit hQ in
theorem requiredM_good (hmt : MtSafe mt) (hd : ∀ rt, DscSafe (dsc rt)) :
    ∀ (fuel : Nat) (segs : List ESeg), okDeep fuel segs = true → ∀ (r : CRes) (st : St),
      Good (fun e => e.isCrash = true) st (requiredM mt dsc fuel segs r st) := by
  have hQ1 : ∀ e : Err, (fun e : Err => e.isCrash = true) e → e.isCrash = true := fun _ h => h
  intro fuel
  induction fuel with
  | zero => intro segs _ r st; unfold requiredM; exact good_of_noCrash hQ1 st (noCrash_fail rfl)
  | succ f ih =>
    intro segs hok r st
    unfold requiredM
    refine requiredW_good hQ1 (Or.inr ⟨hmt, hd⟩) segs ?_ r st
    intro s hs
    unfold okDeep at hok
    rw [List.all_eq_true] at hok
    have h := hok s hs
    simp only [Bool.and_eq_true, Bool.not_eq_true'] at h
    refine ⟨Or.inl h.1, ?_⟩
    intro expr op he ss r st hss
    subst he
    have h2 := h.2
    simp only [hss] at h2
    exact ih ss h2 r st

end

end Ypv.W3
