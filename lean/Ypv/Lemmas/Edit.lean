import Ypv.Spec.Edit
/-!
# Lemmas about the edit model (C04, C03, C09)
-/
namespace Ypv

/-- `disturbs b a`: deleting the node at `b` first changes what the address `a` refers to —
`b` is an elder sibling (or the same element, or an elder sibling of an ancestor) in a sequence. -/
def disturbs : Addr → Addr → Bool
  | r :: b', r' :: a' =>
    match b' with
    | [] => (match r, r' with
      | .idx m, .idx n => decide (m ≤ n)
      | _, _ => false)
    | _ :: _ => r == r' && disturbs b' a'
  | _, _ => false

theorem disturbs_nil_left (a : Addr) : disturbs [] a = false := by
  unfold disturbs; rfl

theorem mem_subAddrs {r : Ref} {S : List Addr} {t : Addr} : t ∈ subAddrs r S ↔ (r :: t) ∈ S := by
  unfold subAddrs
  rw [List.mem_filterMap]
  constructor
  · rintro ⟨a, ha, h⟩
    cases a with
    | nil => simp at h
    | cons r' t' =>
      simp only at h
      split at h
      · next heq => cases h; subst heq; exact ha
      · cases h
  · intro h
    exact ⟨r :: t, h, by simp⟩

theorem subAddrs_cons_same (r : Ref) (t : Addr) (S : List Addr) :
    subAddrs r ((r :: t) :: S) = t :: subAddrs r S := by
  simp [subAddrs, List.filterMap_cons]

theorem subAddrs_cons_ne {r r' : Ref} (h : r' ≠ r) (t : Addr) (S : List Addr) :
    subAddrs r ((r' :: t) :: S) = subAddrs r S := by
  simp [subAddrs, List.filterMap_cons, h]

theorem subAddrs_cons_nil (r : Ref) (S : List Addr) : subAddrs r ([] :: S) = subAddrs r S := by
  simp [subAddrs, List.filterMap_cons]

/-- sub-addresses inherit non-disturbance -/
theorem disturbs_sub {r : Ref} {S : List Addr} {rest : Addr}
    (h : ∀ b ∈ S, disturbs b (r :: rest) = false) : ∀ b' ∈ subAddrs r S, disturbs b' rest = false := by
  intro b' hb'
  have hb := h (r :: b') (mem_subAddrs.mp hb')
  cases b' with
  | nil => exact disturbs_nil_left _
  | cons x xs =>
    unfold disturbs at hb
    simpa using hb

/-! ### Addresses that do not concern a child list -/

theorem removeAllList_cons_irrel (cs : List Node) (i : Nat) (r : Ref) (t : Addr) (S : List Addr)
    (h : ∀ k, i ≤ k → r ≠ .idx k) : removeAllList cs i ((r :: t) :: S) = removeAllList cs i S := by
  induction cs generalizing i with
  | nil => simp [removeAllList]
  | cons c cs ih =>
    have hne : r ≠ .idx i := h i (Nat.le_refl _)
    have h1 : ((r :: t) :: S).contains [Ref.idx i] = S.contains [Ref.idx i] := by
      simp [List.contains_cons]
      intro h'; exact absurd h'.symm hne
    simp only [removeAllList, h1, subAddrs_cons_ne hne]
    rw [ih (i + 1) (fun k hk => h k (by omega))]

theorem removeAllList_cons_nil (cs : List Node) (i : Nat) (S : List Addr) :
    removeAllList cs i ([] :: S) = removeAllList cs i S := by
  induction cs generalizing i with
  | nil => simp [removeAllList]
  | cons c cs ih =>
    have h1 : (([] : Addr) :: S).contains [Ref.idx i] = S.contains [Ref.idx i] := by
      simp [List.contains_cons]
    simp only [removeAllList, h1, subAddrs_cons_nil, ih]

theorem removeAllEntries_cons_irrel (es : List (Key × Node)) (r : Ref) (t : Addr) (S : List Addr)
    (h : ∀ k, r ≠ .key k) : removeAllEntries es ((r :: t) :: S) = removeAllEntries es S := by
  induction es with
  | nil => simp [removeAllEntries]
  | cons e es ih =>
    obtain ⟨k, c⟩ := e
    have h1 : ((r :: t) :: S).contains [Ref.key k] = S.contains [Ref.key k] := by
      simp [List.contains_cons]
      intro h'; exact absurd h'.symm (h k)
    simp only [removeAllEntries, h1, subAddrs_cons_ne (h k), ih]

theorem removeAllEntries_cons_nil (es : List (Key × Node)) (S : List Addr) :
    removeAllEntries es ([] :: S) = removeAllEntries es S := by
  induction es with
  | nil => simp [removeAllEntries]
  | cons e es ih =>
    obtain ⟨k, c⟩ := e
    have h1 : (([] : Addr) :: S).contains [Ref.key k] = S.contains [Ref.key k] := by
      simp [List.contains_cons]
    simp only [removeAllEntries, h1, subAddrs_cons_nil, ih]

/-! ### One positional deletion after a set removal is a set removal -/

theorem not_mem_of_disturbs_idx {S : List Addr} {m n : Nat} {rest : Addr} (hmn : m ≤ n)
    (h : ∀ b ∈ S, disturbs b (.idx n :: rest) = false) : S.contains [Ref.idx m] = false := by
  cases hc : S.contains [Ref.idx m] with
  | false => rfl
  | true =>
    have hm : [Ref.idx m] ∈ S := by simpa using hc
    have := h _ hm
    simp [disturbs, hmn] at this

mutual
theorem removeAt_removeAll : (d : Node) → (S : List Addr) → (a : Addr) →
    (∀ b ∈ S, disturbs b a = false) → (d.removeAll S).removeAt a = d.removeAll (a :: S)
  | .scalar an v, S, a, _ => by
    cases a <;> simp [Node.removeAll, Node.removeAt]
  | .set an ms, S, [], _ => by
    simp [Node.removeAll, Node.removeAt, List.contains_cons]
  | .set an ms, S, r :: rest, _ => by
    cases r with
    | member k =>
      cases rest with
      | nil =>
        simp only [Node.removeAll, Node.removeAt, List.filter_filter]
        congr 1
        apply List.filter_congr
        intro m _
        simp [List.contains_cons, Bool.and_comm]
        by_cases hmk : m = k <;> simp [hmk]
      | cons r' t =>
        simp [Node.removeAll, Node.removeAt, List.contains_cons]
    | idx i => simp [Node.removeAll, Node.removeAt, List.contains_cons]
    | key k => simp [Node.removeAll, Node.removeAt, List.contains_cons]
  | .seq an items, S, [], _ => by
    simp [Node.removeAll, Node.removeAt, removeAllList_cons_nil]
  | .seq an items, S, r :: rest, h => by
    cases r with
    | idx n =>
      have := removeAtList_removeAllList items 0 n S rest (by simpa using h)
      simp only [Node.removeAll, Node.removeAt]
      rw [this]; simp
    | key k =>
      simp only [Node.removeAll, Node.removeAt]
      rw [removeAllList_cons_irrel _ _ _ _ _ (by intro k' _ hk; cases hk)]
    | member k =>
      simp only [Node.removeAll, Node.removeAt]
      rw [removeAllList_cons_irrel _ _ _ _ _ (by intro k' _ hk; cases hk)]
  | .map an es, S, [], _ => by
    simp [Node.removeAll, Node.removeAt, removeAllEntries_cons_nil]
  | .map an es, S, r :: rest, h => by
    cases r with
    | key k =>
      have := removeAtEntries_removeAllEntries es k S rest h
      simp only [Node.removeAll, Node.removeAt]
      rw [this]
    | idx i =>
      simp only [Node.removeAll, Node.removeAt]
      rw [removeAllEntries_cons_irrel _ _ _ _ (by intro k' hk; cases hk)]
    | member k =>
      simp only [Node.removeAll, Node.removeAt]
      rw [removeAllEntries_cons_irrel _ _ _ _ (by intro k' hk; cases hk)]
theorem removeAtList_removeAllList : (cs : List Node) → (i n : Nat) → (S : List Addr) → (rest : Addr) →
    (∀ b ∈ S, disturbs b (.idx (i + n) :: rest) = false) →
    removeAtList (removeAllList cs i S) n rest = removeAllList cs i ((.idx (i + n) :: rest) :: S)
  | [], i, n, S, rest, _ => by
    simp [removeAllList, removeAtList]
  | c :: cs, i, 0, S, rest, h => by
    have hni : S.contains [Ref.idx i] = false := not_mem_of_disturbs_idx (Nat.le_refl _) (by simpa using h)
    have hni' : [Ref.idx i] ∉ S := by simpa using hni
    have htail : removeAllList cs (i + 1) ((Ref.idx (i + 0) :: rest) :: S) = removeAllList cs (i + 1) S :=
      removeAllList_cons_irrel _ _ _ _ _ (by intro k hk hke; cases hke; omega)
    cases rest with
    | nil =>
      simp only [removeAllList, hni, htail]
      simp [List.contains_cons, removeAtList]
    | cons r t =>
      have hsub := removeAt_removeAll c (subAddrs (.idx i) S) (r :: t) (disturbs_sub (by simpa using h))
      simp only [removeAllList, hni, htail]
      simp [List.contains_cons, hni', subAddrs_cons_same, hsub, removeAtList]
  | c :: cs, i, n + 1, S, rest, h => by
    have hni : S.contains [Ref.idx i] = false := not_mem_of_disturbs_idx (by omega) h
    have hni' : [Ref.idx i] ∉ S := by simpa using hni
    have ih := removeAtList_removeAllList cs (i + 1) n S rest (by
      have : i + 1 + n = i + (n + 1) := by omega
      rw [this]; exact h)
    have hne : Ref.idx (i + (n + 1)) ≠ Ref.idx i := by intro hk; injection hk with hk; omega
    have e1 : i + 1 + n = i + (n + 1) := by omega
    rw [e1] at ih
    have hc2 : ((Ref.idx (i + (n + 1)) :: rest) :: S).contains [Ref.idx i] = false := by
      simp [List.contains_cons, hni']
    simp only [removeAllList, hni, hc2, subAddrs_cons_ne hne]
    simp [removeAtList, ih]
theorem removeAtEntries_removeAllEntries : (es : List (Key × Node)) → (k : Key) → (S : List Addr) →
    (rest : Addr) → (∀ b ∈ S, disturbs b (.key k :: rest) = false) →
    removeAtEntries (removeAllEntries es S) k rest = removeAllEntries es ((.key k :: rest) :: S)
  | [], k, S, rest, _ => by
    simp [removeAllEntries, removeAtEntries]
  | (k', c) :: es, k, S, rest, h => by
    have ih := removeAtEntries_removeAllEntries es k S rest h
    by_cases hk : k' = k
    · subst hk
      cases rest with
      | nil =>
        by_cases hc : [Ref.key k'] ∈ S
        · simp [removeAllEntries, hc, List.contains_cons, ih]
        · simp [removeAllEntries, hc, List.contains_cons, removeAtEntries, ih]
      | cons r t =>
        have hsub := removeAt_removeAll c (subAddrs (.key k') S) (r :: t) (disturbs_sub h)
        by_cases hc : [Ref.key k'] ∈ S
        · simp [removeAllEntries, hc, List.contains_cons, ih]
        · simp [removeAllEntries, hc, List.contains_cons, removeAtEntries, ih, subAddrs_cons_same, hsub]
    · have hne : Ref.key k ≠ Ref.key k' := by intro h'; cases h'; exact hk rfl
      have hk' : ¬ k = k' := fun h' => hk h'.symm
      by_cases hc : [Ref.key k'] ∈ S
      · simp [removeAllEntries, hc, List.contains_cons, ih]
      · simp [removeAllEntries, hc, List.contains_cons, removeAtEntries, hk, hk', ih, subAddrs_cons_ne hne]
end

/-! ### Removing nothing; removal depends on the address set only -/

mutual
theorem removeAll_nil : (d : Node) → d.removeAll [] = d
  | .scalar _ _ => by simp [Node.removeAll]
  | .set _ ms => by simp [Node.removeAll]
  | .seq _ items => by simp [Node.removeAll, removeAllList_nil items 0]
  | .map _ es => by simp [Node.removeAll, removeAllEntries_nil es]
theorem removeAllList_nil : (cs : List Node) → (i : Nat) → removeAllList cs i [] = cs
  | [], _ => by simp [removeAllList]
  | c :: cs, i => by
    have h1 := removeAll_nil c
    have h2 := removeAllList_nil cs (i + 1)
    simp [removeAllList, subAddrs, h1, h2]
theorem removeAllEntries_nil : (es : List (Key × Node)) → removeAllEntries es [] = es
  | [] => by simp [removeAllEntries]
  | (k, c) :: es => by
    have h1 := removeAll_nil c
    have h2 := removeAllEntries_nil es
    simp [removeAllEntries, subAddrs, h1, h2]
end

theorem subAddrs_mem_congr {S S' : List Addr} (h : ∀ x, x ∈ S ↔ x ∈ S') (r : Ref) :
    ∀ x, x ∈ subAddrs r S ↔ x ∈ subAddrs r S' := by
  intro x; rw [mem_subAddrs, mem_subAddrs]; exact h _

theorem contains_congr {S S' : List Addr} (h : ∀ x, x ∈ S ↔ x ∈ S') (y : Addr) :
    S.contains y = S'.contains y := by
  cases h1 : S.contains y <;> cases h2 : S'.contains y <;> simp_all

mutual
theorem removeAll_congr : (d : Node) → (S S' : List Addr) → (∀ x, x ∈ S ↔ x ∈ S') →
    d.removeAll S = d.removeAll S'
  | .scalar _ _, _, _, _ => by simp [Node.removeAll]
  | .set _ ms, S, S', h => by
    simp only [Node.removeAll]
    congr 1
    apply List.filter_congr
    intro m _
    rw [contains_congr h]
  | .seq _ items, S, S', h => by
    simp only [Node.removeAll]; rw [removeAllList_congr items 0 S S' h]
  | .map _ es, S, S', h => by
    simp only [Node.removeAll]; rw [removeAllEntries_congr es S S' h]
theorem removeAllList_congr : (cs : List Node) → (i : Nat) → (S S' : List Addr) → (∀ x, x ∈ S ↔ x ∈ S') →
    removeAllList cs i S = removeAllList cs i S'
  | [], _, _, _, _ => by simp [removeAllList]
  | c :: cs, i, S, S', h => by
    have h1 := removeAll_congr c _ _ (subAddrs_mem_congr h (.idx i))
    have h2 := removeAllList_congr cs (i + 1) S S' h
    simp only [removeAllList, contains_congr h, h1, h2]
theorem removeAllEntries_congr : (es : List (Key × Node)) → (S S' : List Addr) → (∀ x, x ∈ S ↔ x ∈ S') →
    removeAllEntries es S = removeAllEntries es S'
  | [], _, _, _ => by simp [removeAllEntries]
  | (k, c) :: es, S, S', h => by
    have h1 := removeAll_congr c _ _ (subAddrs_mem_congr h (.key k))
    have h2 := removeAllEntries_congr es S S' h
    simp only [removeAllEntries, contains_congr h, h1, h2]
end

/-! ### Survivors, level by level -/

theorem removeAllList_eq_filterMap (cs : List Node) (i : Nat) (S : List Addr) :
    removeAllList cs i S = (cs.zipIdx i).filterMap (fun ci =>
      if S.contains [.idx ci.2] then none else some (ci.1.removeAll (subAddrs (.idx ci.2) S))) := by
  induction cs generalizing i with
  | nil => simp [removeAllList]
  | cons c cs ih =>
    simp only [removeAllList, List.zipIdx_cons, List.filterMap_cons]
    split <;> simp_all

theorem removeAllEntries_eq_filterMap (es : List (Key × Node)) (S : List Addr) :
    removeAllEntries es S = es.filterMap (fun e =>
      if S.contains [.key e.1] then none else some (e.1, e.2.removeAll (subAddrs (.key e.1) S))) := by
  induction es with
  | nil => simp [removeAllEntries]
  | cons e es ih =>
    obtain ⟨k, c⟩ := e
    simp only [removeAllEntries, List.filterMap_cons]
    split <;> simp_all

theorem removeAll_root_only (d : Node) : d.removeAll [[]] = d := by
  cases d with
  | scalar a v => simp [Node.removeAll]
  | set a ms => simp [Node.removeAll, List.contains_cons]
  | seq a items => simp [Node.removeAll, removeAllList_cons_nil, removeAllList_nil]
  | map a es => simp [Node.removeAll, removeAllEntries_cons_nil, removeAllEntries_nil]

theorem removeAll_only_root (d : Node) (S : List Addr) (h : ∀ p ∈ S, p = []) : d.removeAll S = d := by
  by_cases hr : [] ∈ S
  · rw [removeAll_congr d S [[]] ?_, removeAll_root_only]
    intro x
    constructor
    · intro hx; simp [h x hx]
    · intro hx
      have : x = [] := by simpa using hx
      rw [this]; exact hr
  · rw [removeAll_congr d S [] ?_, removeAll_nil]
    intro x
    constructor
    · intro hx; exact absurd (h x hx ▸ hx) hr
    · intro hx; cases hx

/-! ### The reverse positional loop -/

/-- No address is disturbed by an address that is processed before it (= stands later in the list). -/
def NoDisturb (addrs : List Addr) : Prop := addrs.Pairwise (fun a b => disturbs b a = false)

theorem deletePositional_eq_removeAll (d : Node) (addrs : List Addr) (h : NoDisturb addrs) :
    deletePositional d addrs = d.removeAll addrs := by
  induction addrs with
  | nil => simp [deletePositional, removeAll_nil]
  | cons a rest ih =>
    have hp := List.pairwise_cons.mp h
    have ih' := ih hp.2
    unfold deletePositional at ih' ⊢
    simp only [List.foldr_cons]
    rw [ih']
    exact removeAt_removeAll d rest a hp.1

/-! ### Normalisation: distinct, deeper parents first, higher indexes first -/

theorem lastIdx_cons_cons (r x : Ref) (xs : Addr) : lastIdx (r :: x :: xs) = lastIdx (x :: xs) := by
  cases r <;> simp [lastIdx]

theorem disturbs_key (b a : Addr) (h : disturbs b a = true) : keyLt b a = true ∨ a = b := by
  induction b generalizing a with
  | nil => simp [disturbs] at h
  | cons r b' ih =>
    cases a with
    | nil => simp [disturbs] at h
    | cons r' a' =>
      cases b' with
      | nil =>
        cases r <;> cases r' <;> simp [disturbs] at h
        rename_i m n
        cases a' with
        | nil =>
          by_cases hmn : m = n
          · right; rw [hmn]
          · left; simp [keyLt, lastIdx]; apply decide_eq_true; omega
        | cons y ys => left; simp [keyLt]
      | cons x xs =>
        simp [disturbs] at h
        obtain ⟨hr, hd⟩ := h
        cases a' with
        | nil => simp [disturbs] at hd
        | cons y ys =>
          rcases ih _ hd with hk | he
          · left
            simp only [keyLt, lastIdx_cons_cons, List.length_cons] at hk ⊢
            simp at hk ⊢
            omega
          · right; rw [hr, he]

def KeyOrd (a b : Addr) : Prop := keyLt b a = false ∧ a ≠ b

theorem keyLt_asymm {a b : Addr} (h : keyLt a b = true) : keyLt b a = false := by
  simp [keyLt] at h ⊢; omega

theorem keyLt_trans_false {x a b : Addr} (h1 : keyLt a b = true) (h2 : keyLt x b = false) : keyLt x a = false := by
  simp [keyLt] at h1 h2 ⊢; omega

theorem mem_insertAddr {a x : Addr} {l : List Addr} : x ∈ insertAddr a l ↔ x = a ∨ x ∈ l := by
  induction l with
  | nil => simp [insertAddr]
  | cons b bs ih =>
    unfold insertAddr
    split
    · simp
    · simp [ih]; constructor
      · rintro (h | h | h) <;> simp [h]
      · rintro (h | h | h) <;> simp [h]

theorem mem_sortAddrs {x : Addr} {l : List Addr} : x ∈ sortAddrs l ↔ x ∈ l := by
  induction l with
  | nil => simp [sortAddrs]
  | cons a as ih => simp [sortAddrs, mem_insertAddr, ih]

theorem mem_dedupAddrs {x : Addr} {l : List Addr} : x ∈ dedupAddrs l ↔ x ∈ l := by
  induction l with
  | nil => simp [dedupAddrs]
  | cons a as ih =>
    unfold dedupAddrs
    split
    · next hc =>
      have : a ∈ as := by simpa using hc
      simp [ih]; intro hx; rw [hx]; exact this
    · simp [ih]

theorem nodup_dedupAddrs (l : List Addr) : (dedupAddrs l).Pairwise (· ≠ ·) := by
  induction l with
  | nil => simp [dedupAddrs]
  | cons a as ih =>
    unfold dedupAddrs
    split
    · exact ih
    · next hc =>
      have hn : a ∉ as := by simpa using hc
      rw [List.pairwise_cons]
      refine ⟨?_, ih⟩
      intro x hx heq
      exact hn (heq ▸ mem_dedupAddrs.mp hx)

theorem keyOrd_insertAddr (a : Addr) (l : List Addr) (hn : a ∉ l) (h : l.Pairwise KeyOrd) :
    (insertAddr a l).Pairwise KeyOrd := by
  induction l with
  | nil => simp [insertAddr]
  | cons b bs ih =>
    have hp := List.pairwise_cons.mp h
    have hab : a ≠ b := fun e => hn (by simp [e])
    have hnb : a ∉ bs := fun e => hn (by simp [e])
    unfold insertAddr
    split
    · next hlt =>
      rw [List.pairwise_cons]
      refine ⟨?_, h⟩
      intro x hx
      rcases List.mem_cons.mp hx with hx | hx
      · subst hx; exact ⟨keyLt_asymm hlt, hab⟩
      · exact ⟨keyLt_trans_false hlt (hp.1 x hx).1, fun e => hnb (e ▸ hx)⟩
    · next hlt =>
      rw [List.pairwise_cons]
      refine ⟨?_, ih hnb hp.2⟩
      intro x hx
      rcases mem_insertAddr.mp hx with hx | hx
      · subst hx; exact ⟨by simpa using hlt, fun e => hab e.symm⟩
      · exact hp.1 x hx

theorem keyOrd_sortAddrs (l : List Addr) (h : l.Pairwise (· ≠ ·)) : (sortAddrs l).Pairwise KeyOrd := by
  induction l with
  | nil => simp [sortAddrs]
  | cons a as ih =>
    have hp := List.pairwise_cons.mp h
    simp only [sortAddrs]
    apply keyOrd_insertAddr
    · intro hm; exact hp.1 a (mem_sortAddrs.mp hm) rfl
    · exact ih hp.2

theorem noDisturb_normalize (addrs : List Addr) : NoDisturb (normalizeAddrs addrs) := by
  unfold NoDisturb normalizeAddrs
  refine List.Pairwise.imp ?_ (keyOrd_sortAddrs _ (nodup_dedupAddrs addrs))
  intro a b ⟨hk, hne⟩
  cases hd : disturbs b a with
  | false => rfl
  | true =>
    rcases disturbs_key b a hd with h | h
    · rw [h] at hk; cases hk
    · exact absurd h hne

theorem mem_normalizeAddrs {x : Addr} {l : List Addr} : x ∈ normalizeAddrs l ↔ x ∈ l := by
  simp [normalizeAddrs, mem_sortAddrs, mem_dedupAddrs]

end Ypv
