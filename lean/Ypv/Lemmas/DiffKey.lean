import Ypv.Lemmas.Diff
/-!
# C06: `clean ⇔ data-equal` at DOCUMENT level for the identity-key mode `--aoh key`

The list-level theorem `key_clean_iff_msEq` threaded through the document recursion: the hypothesis
`idOk c l r` (Spec/Diff.lean) states, pair by pair along the recursion of `_diff_between`, that every
left record of a synchronised list carries the identity key and no two right records share an identity
value.  Array mode `position` (under `--arrays value` a matched pair of `==`-equal elements is compared
again, and that nested comparison is clean only under a further identity condition — not covered).
-/
namespace Ypv.Diff.KeyDoc
open Ypv Ypv.Diff Ypv.Diff.Proofs

/-- positional arrays, records synchronised by identity key -/
def KeyPos (c : Cfg) : Prop := c.arr = .position ∧ c.aoh = .key

instance (c : Cfg) : Decidable (KeyPos c) := by unfold KeyPos; exact inferInstance

theorem listMode_keypos {c : Cfg} (hc : KeyPos c) (xs ys : List Node) :
    listMode c xs ys = .nothing ∨ listMode c xs ys = .posDeep ∨ listMode c xs ys = .key := by
  obtain ⟨arr, aoh⟩ := c
  obtain ⟨h1, h2⟩ := hc
  simp only at h1 h2
  subst h1; subst h2
  unfold listMode
  cases ys with
  | nil =>
    cases xs with
    | nil => simp
    | cons x xs => cases hx : isMap x <;> simp_all
  | cons y ys => cases hy : isMap y <;> simp_all

theorem pairwise_of_noIdClash (ka : Key) : ∀ (ys : List Node), noIdClash ka ys = true →
    ys.Pairwise (fun u v => keyMatch ka u v = false)
  | [], _ => List.Pairwise.nil
  | y :: ys, h => by
    simp only [noIdClash, Bool.and_eq_true, List.all_eq_true, Bool.not_eq_true'] at h
    exact List.Pairwise.cons (fun z hz => h.1 z hz) (pairwise_of_noIdClash ka ys h.2)

/-- the induction hypothesis handed to the list lemmas -/
def CleanIffAtK (c : Cfg) (x : Node) : Prop :=
  ∀ r q, wf x = true → wf r = true → idOk c x r = true → clean (diffBetween true c q x r) = dataEq c x r

theorem clean_posK (c : Cfg) (q : Addr) : ∀ (xs ys : List Node) (i : Nat),
    (∀ x ∈ xs, CleanIffAtK c x) → (∀ x ∈ xs, wf x = true) → (∀ y ∈ ys, wf y = true) →
    idOkPos c xs ys = true →
    clean (diffPos true c q i xs ys) = dataEqPos c xs ys := by
  intro xs
  induction xs with
  | nil => intro ys i _ _ _ _; cases ys <;> simp [diffPos, dataEqPos, addSeq, mkAdd]
  | cons x xs ih =>
    intro ys i hih hwx hwy hid
    cases ys with
    | nil => simp [diffPos, dataEqPos, mkDel]
    | cons y ys =>
      simp only [idOkPos, Bool.and_eq_true] at hid
      simp only [diffPos, clean_append, dataEqPos]
      rw [hih x (List.mem_cons_self ..) y _ (hwx x (List.mem_cons_self ..)) (hwy y (List.mem_cons_self ..)) hid.1,
        ih ys (i + 1) (fun z hz => hih z (List.mem_cons_of_mem _ hz)) (fun z hz => hwx z (List.mem_cons_of_mem _ hz))
          (fun z hz => hwy z (List.mem_cons_of_mem _ hz)) hid.2]

theorem clean_dictK (c : Cfg) (q : Addr) (fs : List (Key × Node)) (hwf : ∀ kv ∈ fs, wf kv.2 = true) :
    ∀ (es : List (Key × Node)), (∀ kv ∈ es, CleanIffAtK c kv.2) → (∀ kv ∈ es, wf kv.2 = true) →
    idOkEntries c es fs = true →
    clean (diffDict true c q es fs) = dataEqEntries c es fs := by
  intro es
  induction es with
  | nil => intro _ _ _; simp [diffDict, dataEqEntries]
  | cons kv es ih =>
    obtain ⟨k, v⟩ := kv
    intro hih hw hid
    simp only [idOkEntries, Bool.and_eq_true] at hid
    simp only [diffDict, clean_append, dataEqEntries]
    rw [ih (fun kv hkv => hih kv (List.mem_cons_of_mem _ hkv)) (fun kv hkv => hw kv (List.mem_cons_of_mem _ hkv)) hid.2]
    congr 1
    cases hf : fs.lookup k with
    | some w =>
      have h1 := hid.1
      rw [hf] at h1
      exact hih (k, v) (List.mem_cons_self ..) w _ (hw (k, v) (List.mem_cons_self ..)) (hwf (k, w) (mem_of_lookup hf)) h1
    | none => simp [mkDel]

theorem clean_iff_key_node (c : Cfg) (hc : KeyPos c) : ∀ (l : Node), CleanIffAtK c l := by
  intro l
  induction l using nodeInduct with
  | hscalar a v =>
    intro r q hl hr _
    cases r with
    | scalar b w =>
      simp only [diffBetween, dataEq, clean_cons, scalarEntry, eqv, clean_nil, Bool.and_true]
      exact ite_same _
    | seq b ys => simp only [diffBetween, dataEq]; exact purge_strict_not_clean ..
    | map b fs => simp only [diffBetween, dataEq]; exact purge_strict_not_clean ..
    | set b ns => simp only [diffBetween, dataEq]; exact purge_strict_not_clean ..
  | hset a ms =>
    intro r q hl hr _
    cases r with
    | set b ns => simp only [diffBetween, dataEq]; exact clean_set q ms ns
    | scalar b w => simp only [diffBetween, dataEq]; exact purge_strict_not_clean ..
    | seq b ys => simp only [diffBetween, dataEq]; exact purge_strict_not_clean ..
    | map b fs => simp only [diffBetween, dataEq]; exact purge_strict_not_clean ..
  | hmap a es ih =>
    intro r q hl hr hid
    cases r with
    | map b fs =>
      simp only [idOk] at hid
      simp only [diffBetween, dataEq, clean_append]
      rw [clean_dictK c q fs (wf_map hr).2 es ih (wf_map hl).2 hid, clean_adds]
    | scalar b w => simp only [diffBetween, dataEq]; exact purge_strict_not_clean ..
    | seq b ys => simp only [diffBetween, dataEq]; exact purge_strict_not_clean ..
    | set b ns => simp only [diffBetween, dataEq]; exact purge_strict_not_clean ..
  | hseq a xs ih =>
    intro r q hl hr hid
    cases r with
    | seq b ys =>
      simp only [idOk] at hid
      simp only [diffBetween, dataEq]
      rcases listMode_keypos hc xs ys with hm | hm | hm
      · rw [hm]; rfl
      · rw [hm] at hid ⊢
        exact clean_posK c q xs ys 0 ih (wf_seq_mem hl) (wf_seq_mem hr) hid
      · rw [hm] at hid ⊢
        simp only [Bool.and_eq_true, List.all_eq_true] at hid
        have := key_clean_iff_msEq true c q (keyAttr ys) xs 0 (enumFrom 0 ys) (wf_seq_mem hl)
          (fun y hy => wf_seq_mem hr y.2 (mem_enumFrom hy)) hid.1
          (by rw [enumFrom_snd]; exact pairwise_of_noIdClash _ ys hid.2)
        rw [enumFrom_snd] at this
        exact this
    | scalar b w => simp only [diffBetween, dataEq]; exact purge_strict_not_clean ..
    | map b fs => simp only [diffBetween, dataEq]; exact purge_strict_not_clean ..
    | set b ns => simp only [diffBetween, dataEq]; exact purge_strict_not_clean ..

theorem diff_clean_iff_dataEq_key_strict (c : Cfg) (hc : KeyPos c) (l r : Node)
    (hl : wf l = true) (hr : wf r = true) (hid : idOk c l r = true) :
    clean (diff true c l r) = true ↔ dataEq c l r = true := by
  unfold diff
  rw [clean_iff_key_node c hc l r [] hl hr hid]

end Ypv.Diff.KeyDoc
