import Ypv.Model.Compare
/-!
# Lemmas about the text primitives of `Model/Compare.lean`

The recursive Python-style primitives (`strLt`, `isPrefix`, `pyEndsWith`, `pyContains`) coincide with
the declarative notions the C12 specification is written in (core `List` order on code points,
`take`/`drop`).
-/
namespace Ypv

theorem char_lt_iff (a b : Char) : a < b ↔ a.toNat < b.toNat := by
  rw [Char.lt_def, UInt32.lt_iff_toNat_lt]; rfl

theorem char_toNat_inj {a b : Char} (h : a.toNat = b.toNat) : a = b := by
  apply Char.ext
  apply UInt32.toNat_inj.mp
  exact h

/-- `strLt` is the lexicographic order of core Lean on lists of code points. -/
theorem strLt_iff : ∀ (a b : Str), strLt a b = true ↔ a < b
  | [], [] => by simp [strLt]
  | [], _ :: _ => by simp [strLt]
  | _ :: _, [] => by simp [strLt]
  | a :: as, b :: bs => by
    unfold strLt
    rw [List.cons_lt_cons_iff, char_lt_iff]
    by_cases h1 : a.toNat < b.toNat
    · simp [h1]
    · by_cases h2 : b.toNat < a.toNat
      · have hne : a ≠ b := by intro e; subst e; omega
        simp [h1, h2, hne]
      · have heq : a = b := char_toNat_inj (by omega)
        simp [heq, strLt_iff as bs]

theorem strLt_irrefl : ∀ (a : Str), strLt a a = false
  | [] => rfl
  | a :: as => by unfold strLt; simp [strLt_irrefl as]

/-- Trichotomy of `strLt`. -/
theorem strLt_total : ∀ (a b : Str), strLt a b = true ∨ a = b ∨ strLt b a = true
  | [], [] => by simp
  | [], _ :: _ => by simp [strLt]
  | _ :: _, [] => by simp [strLt]
  | a :: as, b :: bs => by
    unfold strLt
    by_cases h1 : a.toNat < b.toNat
    · simp [h1]
    · by_cases h2 : b.toNat < a.toNat
      · simp [h1, h2]
      · have heq : a = b := char_toNat_inj (by omega)
        subst heq
        simp only [h1, if_false]
        rcases strLt_total as bs with h | h | h
        · exact .inl h
        · exact .inr (.inl (by rw [h]))
        · exact .inr (.inr h)

theorem strLt_asymm : ∀ (a b : Str), strLt a b = true → strLt b a = false
  | [], [] => by simp [strLt]
  | [], _ :: _ => by simp [strLt]
  | _ :: _, [] => by simp [strLt]
  | a :: as, b :: bs => by
    unfold strLt
    by_cases h1 : a.toNat < b.toNat
    · have : ¬ b.toNat < a.toNat := by omega
      simp [h1, this]
    · by_cases h2 : b.toNat < a.toNat
      · simp [h1, h2]
      · simp only [h1, h2, if_false]
        exact strLt_asymm as bs

/-- `!strLt b a` is "less than or equal". -/
theorem strLe_iff (a b : Str) : strLe a b = true ↔ (a < b ∨ a = b) := by
  unfold strLe
  constructor
  · intro h
    rcases strLt_total a b with h' | h' | h'
    · exact .inl ((strLt_iff a b).mp h')
    · exact .inr h'
    · simp [h'] at h
  · rintro (h | h)
    · have := strLt_asymm a b ((strLt_iff a b).mpr h)
      simp [this]
    · subst h; simp [strLt_irrefl]

theorem isPrefix_iff_take : ∀ (p text : Str), isPrefix p text = (text.take p.length == p)
  | [], _ => by simp [isPrefix]
  | _ :: _, [] => by simp [isPrefix]
  | a :: as, b :: bs => by
    unfold isPrefix
    simp only [List.length_cons, List.take_succ_cons]
    rw [isPrefix_iff_take as bs]
    by_cases h : a = b
    · subst h; simp
    · have : ¬ b = a := fun e => h e.symm
      simp [h, this]

theorem isPrefix_iff_exists (p text : Str) : isPrefix p text = true ↔ ∃ rest, text = p ++ rest := by
  rw [isPrefix_iff_take]
  constructor
  · intro h
    refine ⟨text.drop p.length, ?_⟩
    have hp : text.take p.length = p := beq_iff_eq.mp h
    calc text = text.take p.length ++ text.drop p.length := (List.take_append_drop p.length text).symm
      _ = p ++ text.drop p.length := by rw [hp]
  · rintro ⟨rest, rfl⟩
    simp

/-- `text.endswith(p)` says: `text = front ++ p`. -/
theorem pyEndsWith_iff (text p : Str) : pyEndsWith text p = true ↔ ∃ front, text = front ++ p := by
  unfold pyEndsWith
  rw [isPrefix_iff_exists]
  constructor
  · rintro ⟨rest, h⟩
    refine ⟨rest.reverse, ?_⟩
    have := congrArg List.reverse h
    simpa using this
  · rintro ⟨front, rfl⟩
    exact ⟨front.reverse, by simp⟩

/-- `p in text` says: `text = front ++ p ++ back`. -/
theorem pyContains_iff : ∀ (text p : Str), pyContains text p = true ↔ ∃ front back, text = front ++ p ++ back
  | [], p => by
    unfold pyContains
    constructor
    · intro h
      have : p = [] := by simpa using h
      exact ⟨[], [], by simp [this]⟩
    · rintro ⟨f, b, h⟩
      have : p = [] := by
        have h' := congrArg List.length h
        simp at h'
        exact List.eq_nil_of_length_eq_zero (by omega)
      simp [this]
  | c :: cs, p => by
    unfold pyContains
    rw [Bool.or_eq_true, isPrefix_iff_exists, pyContains_iff cs p]
    constructor
    · rintro (⟨rest, h⟩ | ⟨f, b, h⟩)
      · exact ⟨[], rest, by simpa using h⟩
      · exact ⟨c :: f, b, by simp [h]⟩
    · rintro ⟨f, b, h⟩
      cases f with
      | nil => exact .inl ⟨b, by simpa using h⟩
      | cons d f' =>
        right
        simp only [List.cons_append, List.cons.injEq] at h
        exact ⟨f', b, by simpa using h.2⟩

/-! ## The declarative text tests of the specification -/

theorem hasPrefix_iff (text p : Str) : Spec.hasPrefix text p = true ↔ ∃ rest, text = p ++ rest := by
  unfold Spec.hasPrefix
  rw [← isPrefix_iff_take, isPrefix_iff_exists]

theorem hasSuffix_iff (text p : Str) : Spec.hasSuffix text p = true ↔ ∃ front, text = front ++ p := by
  unfold Spec.hasSuffix
  constructor
  · intro h
    simp only [Bool.and_eq_true, decide_eq_true_eq, beq_iff_eq] at h
    refine ⟨text.take (text.length - p.length), ?_⟩
    calc text = text.take (text.length - p.length) ++ text.drop (text.length - p.length) :=
          (List.take_append_drop _ text).symm
      _ = _ := by rw [h.2]
  · rintro ⟨front, rfl⟩
    simp

theorem hasSubstring_iff (text p : Str) :
    Spec.hasSubstring text p = true ↔ ∃ front back, text = front ++ p ++ back := by
  unfold Spec.hasSubstring
  rw [List.any_eq_true]
  constructor
  · rintro ⟨i, _, h⟩
    have hp : (text.drop i).take p.length = p := beq_iff_eq.mp h
    refine ⟨text.take i, (text.drop i).drop p.length, ?_⟩
    have e1 : text = text.take i ++ text.drop i := (List.take_append_drop i text).symm
    have e2 : text.drop i = (text.drop i).take p.length ++ (text.drop i).drop p.length :=
      (List.take_append_drop p.length (text.drop i)).symm
    rw [hp] at e2
    calc text = text.take i ++ text.drop i := e1
      _ = text.take i ++ (p ++ (text.drop i).drop p.length) := by rw [← e2]
      _ = _ := by rw [List.append_assoc]
  · rintro ⟨front, back, rfl⟩
    refine ⟨front.length, ?_, ?_⟩
    · simp only [List.mem_range, List.length_append]; omega
    · simp

theorem pyStartsWith_eq_spec (text p : Str) : pyStartsWith text p = Spec.hasPrefix text p := by
  rw [Bool.eq_iff_iff, hasPrefix_iff]; exact isPrefix_iff_exists p text

theorem pyEndsWith_eq_spec (text p : Str) : pyEndsWith text p = Spec.hasSuffix text p := by
  rw [Bool.eq_iff_iff, hasSuffix_iff, pyEndsWith_iff]

theorem pyContains_eq_spec (text p : Str) : pyContains text p = Spec.hasSubstring text p := by
  rw [Bool.eq_iff_iff, hasSubstring_iff, pyContains_iff]

/-- The four text orderings of the model against the three-way comparison of the specification. -/
theorem textCmp_gt (a b : Str) : strLt b a = (Spec.textCmp a b == .gt) := by
  unfold Spec.textCmp
  rw [Bool.eq_iff_iff]
  rcases strLt_total a b with h | h | h
  · have h1 := (strLt_iff a b).mp h
    simp [h1, strLt_asymm a b h]
  · subst h; simp [strLt_irrefl, List.lt_irrefl]
  · have h1 : ¬ a < b := fun h' => by
      have := strLt_asymm a b ((strLt_iff a b).mpr h'); simp [this] at h
    have h2 : a ≠ b := by intro e; subst e; simp [strLt_irrefl] at h
    simp [h, h1, h2]

theorem textCmp_lt (a b : Str) : strLt a b = (Spec.textCmp a b == .lt) := by
  unfold Spec.textCmp
  rw [Bool.eq_iff_iff]
  by_cases h : a < b
  · simp [h, (strLt_iff a b).mpr h]
  · have : strLt a b = false := by
      cases hs : strLt a b with
      | false => rfl
      | true => exact absurd ((strLt_iff a b).mp hs) h
    by_cases e : a = b
    · subst e; simp [h, strLt_irrefl]
    · simp [h, this, e]

theorem textCmp_ge (a b : Str) : strLe b a = (Spec.textCmp a b != .lt) := by
  unfold strLe; rw [textCmp_lt]; cases Spec.textCmp a b <;> rfl

theorem textCmp_le (a b : Str) : strLe a b = (Spec.textCmp a b != .gt) := by
  unfold strLe; rw [textCmp_gt]; cases Spec.textCmp a b <;> rfl

/-! ## `decCmp` compares the denoted decimals: a total preorder, `.eq` an equivalence -/

theorem compare_mul_pos (a b c : Int) (hc : 0 < c) : compare (a * c) (b * c) = compare a b := by
  rcases Int.lt_trichotomy a b with h | h | h
  · have : a * c < b * c := Int.mul_lt_mul_of_pos_right h hc
    rw [Int.compare_eq_lt.mpr this, Int.compare_eq_lt.mpr h]
  · subst h; simp
  · have : b * c < a * c := Int.mul_lt_mul_of_pos_right h hc
    rw [Int.compare_eq_gt.mpr this, Int.compare_eq_gt.mpr h]

/-- The scaled integer `m × 10^(e - L)` (for `L ≤ e`). -/
def scaled (m e L : Int) : Int := m * (10 : Int) ^ (e - L).toNat

/-- `decCmp` may be computed at any common exponent below both. -/
theorem decCmp_common (m1 e1 m2 e2 L : Int) (h1 : L ≤ e1) (h2 : L ≤ e2) :
    decCmp m1 e1 m2 e2 = compare (scaled m1 e1 L) (scaled m2 e2 L) := by
  unfold decCmp scaled
  simp only []
  have a1 : (e1 - L).toNat = (e1 - min e1 e2).toNat + (min e1 e2 - L).toNat := by omega
  have a2 : (e2 - L).toNat = (e2 - min e1 e2).toNat + (min e1 e2 - L).toNat := by omega
  rw [a1, a2, Int.pow_add, Int.pow_add, ← Int.mul_assoc, ← Int.mul_assoc]
  exact (compare_mul_pos _ _ _ (Int.pow_pos (by decide))).symm

theorem decCmp_refl (m e : Int) : decCmp m e m e = .eq := by
  rw [decCmp_common m e m e e (Int.le_refl _) (Int.le_refl _)]; simp

theorem decCmp_eq_iff (m1 e1 m2 e2 L : Int) (h1 : L ≤ e1) (h2 : L ≤ e2) :
    decCmp m1 e1 m2 e2 = .eq ↔ scaled m1 e1 L = scaled m2 e2 L := by
  rw [decCmp_common m1 e1 m2 e2 L h1 h2, Int.compare_eq_eq]

theorem decCmp_gt_iff (m1 e1 m2 e2 L : Int) (h1 : L ≤ e1) (h2 : L ≤ e2) :
    decCmp m1 e1 m2 e2 = .gt ↔ scaled m2 e2 L < scaled m1 e1 L := by
  rw [decCmp_common m1 e1 m2 e2 L h1 h2, Int.compare_eq_gt]

theorem decCmp_lt_iff (m1 e1 m2 e2 L : Int) (h1 : L ≤ e1) (h2 : L ≤ e2) :
    decCmp m1 e1 m2 e2 = .lt ↔ scaled m1 e1 L < scaled m2 e2 L := by
  rw [decCmp_common m1 e1 m2 e2 L h1 h2, Int.compare_eq_lt]

/-- `≤` on decimals. -/
def decLe (m1 e1 m2 e2 : Int) : Bool := decCmp m1 e1 m2 e2 != .gt

theorem decLe_iff (m1 e1 m2 e2 L : Int) (h1 : L ≤ e1) (h2 : L ≤ e2) :
    decLe m1 e1 m2 e2 = true ↔ scaled m1 e1 L ≤ scaled m2 e2 L := by
  unfold decLe
  rw [bne_iff_ne, Ne, decCmp_gt_iff m1 e1 m2 e2 L h1 h2]; omega

theorem decLe_total (m1 e1 m2 e2 : Int) : decLe m1 e1 m2 e2 = true ∨ decLe m2 e2 m1 e1 = true := by
  rw [decLe_iff m1 e1 m2 e2 (min e1 e2) (by omega) (by omega),
      decLe_iff m2 e2 m1 e1 (min e1 e2) (by omega) (by omega)]; omega

theorem decLe_trans (m1 e1 m2 e2 m3 e3 : Int) (h12 : decLe m1 e1 m2 e2 = true) (h23 : decLe m2 e2 m3 e3 = true) :
    decLe m1 e1 m3 e3 = true := by
  have L1 : min e1 (min e2 e3) ≤ e1 := by omega
  have L2 : min e1 (min e2 e3) ≤ e2 := by omega
  have L3 : min e1 (min e2 e3) ≤ e3 := by omega
  rw [decLe_iff _ _ _ _ _ L1 L2] at h12
  rw [decLe_iff _ _ _ _ _ L2 L3] at h23
  rw [decLe_iff _ _ _ _ _ L1 L3]; omega

/-- the loop's strict test is the negation of `≤` … -/
theorem decCmp_gt_eq (m1 e1 m2 e2 : Int) : (decCmp m1 e1 m2 e2 == .gt) = !decLe m1 e1 m2 e2 := by
  unfold decLe; cases decCmp m1 e1 m2 e2 <;> rfl

theorem decCmp_lt_eq (m1 e1 m2 e2 : Int) : (decCmp m1 e1 m2 e2 == .lt) = !decLe m2 e2 m1 e1 := by
  have L1 : min e1 e2 ≤ e1 := by omega
  have L2 : min e1 e2 ≤ e2 := by omega
  rw [Bool.eq_iff_iff, beq_iff_eq, decCmp_lt_iff _ _ _ _ _ L1 L2, Bool.not_eq_true', ← Bool.not_eq_true,
    decLe_iff _ _ _ _ _ L2 L1]; omega

/-- … and its equality test is `≤` both ways. -/
theorem decCmp_eq_eq (m1 e1 m2 e2 : Int) :
    (decCmp m1 e1 m2 e2 == .eq) = (decLe m1 e1 m2 e2 && decLe m2 e2 m1 e1) := by
  have L1 : min e1 e2 ≤ e1 := by omega
  have L2 : min e1 e2 ≤ e2 := by omega
  rw [Bool.eq_iff_iff, beq_iff_eq, decCmp_eq_iff _ _ _ _ _ L1 L2, Bool.and_eq_true,
    decLe_iff _ _ _ _ _ L1 L2, decLe_iff _ _ _ _ _ L2 L1]; omega

theorem decCmp_eq_symm (m1 e1 m2 e2 : Int) (h : decCmp m1 e1 m2 e2 = .eq) : decCmp m2 e2 m1 e1 = .eq := by
  have L1 : min e1 e2 ≤ e1 := by omega
  have L2 : min e1 e2 ≤ e2 := by omega
  rw [decCmp_eq_iff _ _ _ _ _ L1 L2] at h
  rw [decCmp_eq_iff _ _ _ _ _ L2 L1]; exact h.symm

theorem decCmp_eq_trans (m1 e1 m2 e2 m3 e3 : Int) (h12 : decCmp m1 e1 m2 e2 = .eq)
    (h23 : decCmp m2 e2 m3 e3 = .eq) : decCmp m1 e1 m3 e3 = .eq := by
  have L1 : min e1 (min e2 e3) ≤ e1 := by omega
  have L2 : min e1 (min e2 e3) ≤ e2 := by omega
  have L3 : min e1 (min e2 e3) ≤ e3 := by omega
  rw [decCmp_eq_iff _ _ _ _ _ L1 L2] at h12
  rw [decCmp_eq_iff _ _ _ _ _ L2 L3] at h23
  rw [decCmp_eq_iff _ _ _ _ _ L1 L3]; exact h12.trans h23

/-! ## `strLt` is a strict total order -/

theorem strLt_trans : ∀ (a b c : Str), strLt a b = true → strLt b c = true → strLt a c = true
  | [], [], _, h, _ => by simp [strLt] at h
  | [], _ :: _, [], _, h => by simp [strLt] at h
  | [], _ :: _, _ :: _, _, _ => by simp [strLt]
  | _ :: _, [], _, h, _ => by simp [strLt] at h
  | _ :: _, _ :: _, [], _, h => by simp [strLt] at h
  | a :: as, b :: bs, c :: cs, h1, h2 => by
    unfold strLt at h1 h2 ⊢
    by_cases ab : a.toNat < b.toNat
    · by_cases bc : b.toNat < c.toNat
      · have : a.toNat < c.toNat := by omega
        simp [this]
      · by_cases cb : c.toNat < b.toNat
        · simp [bc, cb] at h2
        · have : a.toNat < c.toNat := by omega
          simp [this]
    · by_cases ba : b.toNat < a.toNat
      · simp [ab, ba] at h1
      · simp only [ab, ba, if_false] at h1
        by_cases bc : b.toNat < c.toNat
        · have : a.toNat < c.toNat := by omega
          simp [this]
        · by_cases cb : c.toNat < b.toNat
          · simp [bc, cb] at h2
          · simp only [bc, cb, if_false] at h2
            have x1 : ¬ a.toNat < c.toNat := by omega
            have x2 : ¬ c.toNat < a.toNat := by omega
            simp only [x1, x2, if_false]
            exact strLt_trans as bs cs h1 h2

theorem strLe_refl (a : Str) : strLe a a = true := by simp [strLe, strLt_irrefl]

theorem strLe_total (a b : Str) : strLe a b = true ∨ strLe b a = true := by
  unfold strLe
  rcases strLt_total a b with h | h | h
  · left; simp [strLt_asymm a b h]
  · subst h; simp [strLt_irrefl]
  · right; simp [strLt_asymm b a h]

theorem strLe_trans (a b c : Str) (h1 : strLe a b = true) (h2 : strLe b c = true) : strLe a c = true := by
  unfold strLe at *
  cases hca : strLt c a with
  | false => rfl
  | true =>
    exfalso
    rcases strLt_total a b with h | h | h
    · have := strLt_trans c a b hca h; simp [this] at h2
    · subst h; simp [hca] at h2
    · simp [h] at h1

/-- `≤` both ways is equality. -/
theorem strLe_antisymm_iff (a b : Str) : (a == b) = (strLe a b && strLe b a) := by
  rw [Bool.eq_iff_iff, beq_iff_eq, Bool.and_eq_true]
  unfold strLe
  constructor
  · intro h; subst h; simp [strLt_irrefl]
  · intro ⟨h1, h2⟩
    rcases strLt_total a b with h | h | h
    · simp [h] at h2
    · exact h
    · simp [h] at h1

end Ypv
