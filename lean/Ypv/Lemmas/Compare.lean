import Ypv.Model.Compare
/-!
# Lemmas about the text primitives of `Model/Compare.lean`

The recursive Python-style primitives (`strLt`, `isPrefix`, `pyEndsWith`, `pyContains`) coincide with
the declarative notions the C12 specification is written in (core `List` order on code points,
`take`/`drop`).
-/
namespace Ypv

theorem char_lt_iff (a b : Char) : a < b ↔ a.toNat < b.toNat := by
  rw [Char.lt_def, UInt32.lt_iff_toNat_lt]; rfl

theorem char_toNat_inj {a b : Char} (h : a.toNat = b.toNat) : a = b := by
  apply Char.ext
  apply UInt32.toNat_inj.mp
  exact h

/-- `strLt` is the lexicographic order of core Lean on lists of code points. -/
theorem strLt_iff : ∀ (a b : Str), strLt a b = true ↔ a < b
  | [], [] => by simp [strLt]
  | [], _ :: _ => by simp [strLt]
  | _ :: _, [] => by simp [strLt]
  | a :: as, b :: bs => by
    unfold strLt
    rw [List.cons_lt_cons_iff, char_lt_iff]
    by_cases h1 : a.toNat < b.toNat
    · simp [h1]
    · by_cases h2 : b.toNat < a.toNat
      · have hne : a ≠ b := by intro e; subst e; omega
        simp [h1, h2, hne]
      · have heq : a = b := char_toNat_inj (by omega)
        simp [heq, strLt_iff as bs]

theorem strLt_irrefl : ∀ (a : Str), strLt a a = false
  | [] => rfl
  | a :: as => by unfold strLt; simp [strLt_irrefl as]

/-- Trichotomy of `strLt`. -/
theorem strLt_total : ∀ (a b : Str), strLt a b = true ∨ a = b ∨ strLt b a = true
  | [], [] => by simp
  | [], _ :: _ => by simp [strLt]
  | _ :: _, [] => by simp [strLt]
  | a :: as, b :: bs => by
    unfold strLt
    by_cases h1 : a.toNat < b.toNat
    · simp [h1]
    · by_cases h2 : b.toNat < a.toNat
      · simp [h1, h2]
      · have heq : a = b := char_toNat_inj (by omega)
        subst heq
        simp only [h1, if_false]
        rcases strLt_total as bs with h | h | h
        · exact .inl h
        · exact .inr (.inl (by rw [h]))
        · exact .inr (.inr h)

theorem strLt_asymm : ∀ (a b : Str), strLt a b = true → strLt b a = false
  | [], [] => by simp [strLt]
  | [], _ :: _ => by simp [strLt]
  | _ :: _, [] => by simp [strLt]
  | a :: as, b :: bs => by
    unfold strLt
    by_cases h1 : a.toNat < b.toNat
    · have : ¬ b.toNat < a.toNat := by omega
      simp [h1, this]
    · by_cases h2 : b.toNat < a.toNat
      · simp [h1, h2]
      · simp only [h1, h2, if_false]
        exact strLt_asymm as bs

/-- `!strLt b a` is "less than or equal". -/
theorem strLe_iff (a b : Str) : strLe a b = true ↔ (a < b ∨ a = b) := by
  unfold strLe
  constructor
  · intro h
    rcases strLt_total a b with h' | h' | h'
    · exact .inl ((strLt_iff a b).mp h')
    · exact .inr h'
    · simp [h'] at h
  · rintro (h | h)
    · have := strLt_asymm a b ((strLt_iff a b).mpr h)
      simp [this]
    · subst h; simp [strLt_irrefl]

theorem isPrefix_iff_take : ∀ (p text : Str), isPrefix p text = (text.take p.length == p)
  | [], _ => by simp [isPrefix]
  | _ :: _, [] => by simp [isPrefix]
  | a :: as, b :: bs => by
    unfold isPrefix
    simp only [List.length_cons, List.take_succ_cons]
    rw [isPrefix_iff_take as bs]
    by_cases h : a = b
    · subst h; simp
    · have : ¬ b = a := fun e => h e.symm
      simp [h, this]

theorem isPrefix_iff_exists (p text : Str) : isPrefix p text = true ↔ ∃ rest, text = p ++ rest := by
  rw [isPrefix_iff_take]
  constructor
  · intro h
    refine ⟨text.drop p.length, ?_⟩
    have hp : text.take p.length = p := beq_iff_eq.mp h
    calc text = text.take p.length ++ text.drop p.length := (List.take_append_drop p.length text).symm
      _ = p ++ text.drop p.length := by rw [hp]
  · rintro ⟨rest, rfl⟩
    simp

/-- `text.endswith(p)` says: `text = front ++ p`. -/
theorem pyEndsWith_iff (text p : Str) : pyEndsWith text p = true ↔ ∃ front, text = front ++ p := by
  unfold pyEndsWith
  rw [isPrefix_iff_exists]
  constructor
  · rintro ⟨rest, h⟩
    refine ⟨rest.reverse, ?_⟩
    have := congrArg List.reverse h
    simpa using this
  · rintro ⟨front, rfl⟩
    exact ⟨front.reverse, by simp⟩

/-- `p in text` says: `text = front ++ p ++ back`. -/
theorem pyContains_iff : ∀ (text p : Str), pyContains text p = true ↔ ∃ front back, text = front ++ p ++ back
  | [], p => by
    unfold pyContains
    constructor
    · intro h
      have : p = [] := by simpa using h
      exact ⟨[], [], by simp [this]⟩
    · rintro ⟨f, b, h⟩
      have : p = [] := by
        have h' := congrArg List.length h
        simp at h'
        exact List.eq_nil_of_length_eq_zero (by omega)
      simp [this]
  | c :: cs, p => by
    unfold pyContains
    rw [Bool.or_eq_true, isPrefix_iff_exists, pyContains_iff cs p]
    constructor
    · rintro (⟨rest, h⟩ | ⟨f, b, h⟩)
      · exact ⟨[], rest, by simpa using h⟩
      · exact ⟨c :: f, b, by simp [h]⟩
    · rintro ⟨f, b, h⟩
      cases f with
      | nil => exact .inl ⟨b, by simpa using h⟩
      | cons d f' =>
        right
        simp only [List.cons_append, List.cons.injEq] at h
        exact ⟨f', b, by simpa using h.2⟩

/-! ## The declarative text tests of the specification -/

theorem hasPrefix_iff (text p : Str) : Spec.hasPrefix text p = true ↔ ∃ rest, text = p ++ rest := by
  unfold Spec.hasPrefix
  rw [← isPrefix_iff_take, isPrefix_iff_exists]

theorem hasSuffix_iff (text p : Str) : Spec.hasSuffix text p = true ↔ ∃ front, text = front ++ p := by
  unfold Spec.hasSuffix
  constructor
  · intro h
    simp only [Bool.and_eq_true, decide_eq_true_eq, beq_iff_eq] at h
    refine ⟨text.take (text.length - p.length), ?_⟩
    calc text = text.take (text.length - p.length) ++ text.drop (text.length - p.length) :=
          (List.take_append_drop _ text).symm
      _ = _ := by rw [h.2]
  · rintro ⟨front, rfl⟩
    simp

theorem hasSubstring_iff (text p : Str) :
    Spec.hasSubstring text p = true ↔ ∃ front back, text = front ++ p ++ back := by
  unfold Spec.hasSubstring
  rw [List.any_eq_true]
  constructor
  · rintro ⟨i, _, h⟩
    have hp : (text.drop i).take p.length = p := beq_iff_eq.mp h
    refine ⟨text.take i, (text.drop i).drop p.length, ?_⟩
    have e1 : text = text.take i ++ text.drop i := (List.take_append_drop i text).symm
    have e2 : text.drop i = (text.drop i).take p.length ++ (text.drop i).drop p.length :=
      (List.take_append_drop p.length (text.drop i)).symm
    rw [hp] at e2
    calc text = text.take i ++ text.drop i := e1
      _ = text.take i ++ (p ++ (text.drop i).drop p.length) := by rw [← e2]
      _ = _ := by rw [List.append_assoc]
  · rintro ⟨front, back, rfl⟩
    refine ⟨front.length, ?_, ?_⟩
    · simp only [List.mem_range, List.length_append]; omega
    · simp

theorem pyStartsWith_eq_spec (text p : Str) : pyStartsWith text p = Spec.hasPrefix text p := by
  rw [Bool.eq_iff_iff, hasPrefix_iff]; exact isPrefix_iff_exists p text

theorem pyEndsWith_eq_spec (text p : Str) : pyEndsWith text p = Spec.hasSuffix text p := by
  rw [Bool.eq_iff_iff, hasSuffix_iff, pyEndsWith_iff]

theorem pyContains_eq_spec (text p : Str) : pyContains text p = Spec.hasSubstring text p := by
  rw [Bool.eq_iff_iff, hasSubstring_iff, pyContains_iff]

/-- The four text orderings of the model against the three-way comparison of the specification. -/
theorem textCmp_gt (a b : Str) : strLt b a = (Spec.textCmp a b == .gt) := by
  unfold Spec.textCmp
  rw [Bool.eq_iff_iff]
  rcases strLt_total a b with h | h | h
  · have h1 := (strLt_iff a b).mp h
    simp [h1, strLt_asymm a b h]
  · subst h; simp [strLt_irrefl, List.lt_irrefl]
  · have h1 : ¬ a < b := fun h' => by
      have := strLt_asymm a b ((strLt_iff a b).mpr h'); simp [this] at h
    have h2 : a ≠ b := by intro e; subst e; simp [strLt_irrefl] at h
    simp [h, h1, h2]

theorem textCmp_lt (a b : Str) : strLt a b = (Spec.textCmp a b == .lt) := by
  unfold Spec.textCmp
  rw [Bool.eq_iff_iff]
  by_cases h : a < b
  · simp [h, (strLt_iff a b).mpr h]
  · have : strLt a b = false := by
      cases hs : strLt a b with
      | false => rfl
      | true => exact absurd ((strLt_iff a b).mp hs) h
    by_cases e : a = b
    · subst e; simp [h, strLt_irrefl]
    · simp [h, this, e]

theorem textCmp_ge (a b : Str) : strLe b a = (Spec.textCmp a b != .lt) := by
  unfold strLe; rw [textCmp_lt]; cases Spec.textCmp a b <;> rfl

theorem textCmp_le (a b : Str) : strLe a b = (Spec.textCmp a b != .gt) := by
  unfold strLe; rw [textCmp_gt]; cases Spec.textCmp a b <;> rfl

end Ypv
