import Ypv.Lemmas.PathSim
import Ypv.Lemmas.Search
import Ypv.Spec.SearchResolve
/-!
# The path texts the search builds (C07 `search_paths_reresolve`)

1. `escape_path_section` (the 12-pass `ensure_escaped` fold plus the leading-slash rule of e9c869e)
   is the C08 writer's escaping `escText` — a token text (`secToks`) — for every text without two
   adjacent backslashes (`noDbl`; with them the first pass takes the pair for an escaped backslash:
   finding C07-K6).
2. Every hit of the search carries the text `pathText c [] ps` of a walk `ps` from the root to its
   address (`hits_walk`, unconditional; mutual induction over the six search functions).
3. That text is `textAll` of loosely written segments (or, for a merge reference below the root,
   that followed by a separator and `[&name]`), which the C08 engine parses, renders and parses again
   (`printed_parse`).
4. The simple resolver `resolve` follows the re-parsed segments to exactly the walked address
   (`resolve_walk`).
-/
namespace Ypv.Search.Rr
open Ypv Ypv.Sim Ypv.Search

/-! ## 1. `escape_path_section` as a token text -/

theorem noDbl_tail {a : Char} {t : Str} (h : noDbl (a :: t) = true) : noDbl t = true := by
  cases t with
  | nil => rfl
  | cons b r => simp only [noDbl, Bool.and_eq_true] at h; exact h.2

/-- the first `ensure_escaped` pass (symbol `\`) doubles every backslash -/
theorem esc1_bs (t : Str) (h : noDbl t = true) :
    esc1 '\\' t = tokText (t.map (fun c => (c == '\\', c))) := by
  induction t with
  | nil => simp [esc1, tokText]
  | cons a t ih =>
    have ih' := ih (noDbl_tail h)
    cases t with
    | nil =>
      by_cases ha : a = '\\' <;> simp [esc1, tokText, Tok.text, ha]
    | cons b r =>
      simp only [noDbl, Bool.and_eq_true, Bool.not_eq_true', Bool.and_eq_false_iff,
        decide_eq_false_iff_not] at h
      by_cases ha : a = '\\'
      · have hb : b ≠ '\\' := by
          rcases h.1 with h1 | h1
          · exact absurd ha h1
          · exact h1
        subst ha
        rw [esc1]
        simp only [hb, ne_eq, not_true_eq_false, or_self, and_false, ↓reduceIte]
        rw [ih']
        simp [tokText, Tok.text]
      · rw [esc1]
        simp only [ha, false_and, ↓reduceIte]
        rw [ih']
        simp [tokText, Tok.text, ha]

theorem ensureEscaped_cons (s : Char) (r : List Char) (v : Str) :
    ensureEscaped (s :: r) v = ensureEscaped r (esc1 s v) := by simp [ensureEscaped]

theorem markAll_keySyms (sep c : Char) :
    markAll (keySyms sep) (c == '\\', c) = (special sep c, c) := by
  simp only [markAll, keySyms, special, List.contains_cons, List.contains_nil, Bool.or_false,
    Prod.mk.injEq, and_true]
  have e : ∀ x : Char, (c == x) = decide (c = x) := fun x => by
    by_cases hx : c = x <;> simp [hx]
  simp only [e, Bool.or_assoc]

/-- **`escapePathSection = escText`** up to the leading-slash rule: the twelve passes escape exactly
the special characters. -/
theorem ensureEscaped_section {sep : Char} (hsep : sep = '.' ∨ sep = '/') (t : Str)
    (h : noDbl t = true) : ensureEscaped (sectionSyms sep) t = escText sep t := by
  rw [sectionSyms, ensureEscaped_cons, esc1_bs t h,
    ensureEscaped_tokText _ (keySyms_nobs hsep), List.map_map, ← tokText_tokenize]
  · congr 1
    simp only [tokenize]
    apply List.map_congr_left
    intro c _
    exact markAll_keySyms sep c
  · intro u hu
    simp only [List.mem_map] at hu
    obtain ⟨c, _, rfl⟩ := hu
    by_cases hc : c = '\\' <;> simp [hc]

/-- the tokens of `escape_path_section(t, sep)`: the special characters escaped, and a leading `/`
in dot notation -/
def secToks (sep : Char) : Str → List Tok
  | [] => []
  | c :: r => (special sep c || (c == '/' && sep != '/'), c) :: tokenize sep r

theorem tokChars_secToks (sep : Char) (t : Str) : tokChars (secToks sep t) = t := by
  cases t with
  | nil => rfl
  | cons c r =>
    have := tokChars_tokenize sep r
    simp only [tokChars] at this ⊢
    simp [secToks, this]

theorem secToks_ne {sep : Char} {t : Str} (h : t ≠ []) : secToks sep t ≠ [] := by
  cases t with
  | nil => exact absurd rfl h
  | cons c r => simp [secToks]

theorem escapePathSection_eq {sep : Char} (hsep : sep = '.' ∨ sep = '/') (t : Str)
    (h : noDbl t = true) : escapePathSection sep t = tokText (secToks sep t) := by
  unfold escapePathSection
  simp only [ensureEscaped_section hsep t h]
  cases t with
  | nil => simp [escText, secToks, tokText]
  | cons c r =>
    have e1 : escText sep (c :: r) = escChar sep c ++ escText sep r := by simp [escText]
    have e2 : tokText (secToks sep (c :: r)) =
        Tok.text (special sep c || (c == '/' && sep != '/'), c) ++ escText sep r := by
      simp [secToks, tokText, ← tokText_tokenize]
    rw [e1, e2]
    by_cases hs : special sep c = true
    · simp [escChar, hs, Tok.text]
    · have hs' : special sep c = false := by simpa using hs
      by_cases hc : c = '/'
      · subst hc
        rcases hsep with rfl | rfl
        · simp [escChar, Tok.text, special]
        · simp [special] at hs'
      · simp [escChar, hs', Tok.text, hc]

/-- every token of `secToks` that `tokenize` escapes stays escaped -/
theorem secToks_allBare {sep : Char} {stk : List Char} {t : Str}
    (h : allBare sep stk (tokenize sep t)) : allBare sep stk (secToks sep t) := by
  cases t with
  | nil => intro u hu; simp [secToks] at hu
  | cons c r =>
    intro u hu
    simp only [secToks, List.mem_cons] at hu
    rcases hu with rfl | hu
    · rcases h (special sep c, c) (by simp [tokenize]) with h1 | h1
      · left; simp only at h1; simp [h1]
      · right; exact h1
    · exact h u (by simp only [tokenize, List.map_cons, List.mem_cons]; right; exact hu)

/-! ## 2. Every hit carries the text of a walk to its address -/

/-- one step of a walk, as the search writes it -/
inductive PStep
  | key (k : Key)      -- a mapping entry or a set member, by its key text
  | idx (i : Nat)      -- a sequence element without anchor: `[i]`
  | anc (a : Str)      -- an anchored sequence element: `[&a]`
  | mref (name : Str)  -- a merge reference: separator, `[&name]`
  deriving DecidableEq, Repr

/-- the build path after one more step -/
def PStep.app (c : Ctx) (bp : Str) : PStep → Str
  | .key k => keyPath c (mapPrefix c bp) k
  | .idx i => itemPath c (seqPrefix c bp) i none
  | .anc a => itemPath c (seqPrefix c bp) 0 (some a)
  | .mref n => mrefPath c (mapPrefix c bp) n

def itemStep (i : Nat) : Option Str → PStep
  | none => .idx i
  | some a => .anc a

theorem itemStep_app (c : Ctx) (bp : Str) (i : Nat) (a : Option Str) :
    (itemStep i a).app c bp = itemPath c (seqPrefix c bp) i a := by
  cases a <;> rfl

/-- the path text of a walk that starts with build path `bp` -/
def pathText (c : Ctx) : Str → List PStep → Str
  | bp, [] => rootFix c bp
  | bp, s :: r => pathText c (s.app c bp) r

/-- `Walk n r ps`: the address `r` leads from node `n` along existing children, and `ps` is how the
search writes it -/
inductive Walk : SNode → SAddr → List PStep → Prop
  | nil (n : SNode) : Walk n [] []
  | idx {a : Option Str} {items : List SNode} {i : Nat} {e : SNode} {r : SAddr} {ps : List PStep} :
      items[i]? = some e → Walk e r ps → Walk (.seq a items) (.idx i :: r) (itemStep i e.anchor :: ps)
  | key {a : Option Str} {own merged : List (AKey × SNode)} {refs : List Str} {k : AKey} {v : SNode}
      {r : SAddr} {ps : List PStep} :
      (k, v) ∈ own ++ merged → Walk v r ps →
      Walk (.map a own merged refs) (.key k.key :: r) (.key k.key :: ps)
  | mref {a : Option Str} {own merged : List (AKey × SNode)} {refs : List Str} {j : Nat} {name : Str} :
      refs[j]? = some name → Walk (.map a own merged refs) [.mref j] [.mref name]
  | member {a : Option Str} {ms : List AKey} {k : AKey} :
      k ∈ ms → Walk (.set a ms) [.member k.key] [.key k.key]

/-- what is claimed of a hit found below node `n` reached with build path `bp` at address `ad` -/
def Good (c : Ctx) (n : SNode) (bp : Str) (ad : SAddr) (h : Hit) : Prop :=
  ∃ r ps, h.addr = ad ++ r ∧ Walk n r ps ∧ h.path = pathText c bp ps

/-- of a hit found at or below element `i'` of a sequence -/
def GoodItem (c : Ctx) (full : List SNode) (bp1 : Str) (ad : SAddr) (h : Hit) : Prop :=
  ∃ i' e r ps, full[i']? = some e ∧ h.addr = ad ++ (.idx i' :: r) ∧ Walk e r ps ∧
    h.path = pathText c (itemPath c bp1 i' e.anchor) ps

/-- of a hit found at or below an entry of a mapping -/
def GoodEntry (c : Ctx) (es : List (AKey × SNode)) (bp1 : Str) (ad : SAddr) (h : Hit) : Prop :=
  ∃ k v r ps, (k, v) ∈ es ∧ h.addr = ad ++ (.key k.key :: r) ∧ Walk v r ps ∧
    h.path = pathText c (keyPath c bp1 k.key) ps

theorem rootFix_of_ne (c : Ctx) {t : Str} (h : c.o.fslash = true → t ≠ []) : rootFix c t = t := by
  unfold rootFix
  split
  · rename_i hh; exact absurd hh.1 (h hh.2)
  · rfl

theorem itemPath_ne (c : Ctx) (bp1 : Str) (i : Nat) (a : Option Str) : itemPath c bp1 i a ≠ [] := by
  cases a <;> simp [itemPath]

theorem keyPath_ne (c : Ctx) {bp1 : Str} (h : bp1 ≠ []) (k : Key) : keyPath c bp1 k ≠ [] := by
  simp [keyPath, h]

theorem mapPrefix_ne (c : Ctx) (bp : Str) (hf : c.o.fslash = true) : mapPrefix c bp ≠ [] := by
  unfold mapPrefix
  split
  · simp
  · simp [hf]

theorem good_self_item (c : Ctx) {full : List SNode} {i : Nat} {e : SNode} (he : full[i]? = some e)
    (bp1 : Str) (ad : SAddr) :
    GoodItem c full bp1 ad ⟨itemPath c bp1 i e.anchor, ad ++ [.idx i]⟩ :=
  ⟨i, e, [], [], he, rfl, .nil e, by
    simp only [pathText]; exact (rootFix_of_ne c (fun _ => itemPath_ne c _ _ _)).symm⟩

theorem good_self_entry (c : Ctx) {es : List (AKey × SNode)} {k : AKey} {v : SNode} (he : (k, v) ∈ es)
    {bp1 : Str} (hb : c.o.fslash = true → bp1 ≠ []) (ad : SAddr) :
    GoodEntry c es bp1 ad ⟨keyPath c bp1 k.key, ad ++ [.key k.key]⟩ :=
  ⟨k, v, [], [], he, rfl, .nil v, by
    simp only [pathText]; exact (rootFix_of_ne c (fun hf => keyPath_ne c (hb hf) _)).symm⟩

theorem good_item_of (c : Ctx) {full : List SNode} {i : Nat} {e : SNode} (he : full[i]? = some e)
    (bp1 : Str) (ad : SAddr) {h : Hit} (hg : Good c e (itemPath c bp1 i e.anchor) (ad ++ [.idx i]) h) :
    GoodItem c full bp1 ad h := by
  obtain ⟨r, ps, h1, h2, h3⟩ := hg
  exact ⟨i, e, r, ps, he, by simp [h1], h2, h3⟩

theorem good_entry_of (c : Ctx) {es : List (AKey × SNode)} {k : AKey} {v : SNode} (he : (k, v) ∈ es)
    (bp1 : Str) (ad : SAddr) {h : Hit} (hg : Good c v (keyPath c bp1 k.key) (ad ++ [.key k.key]) h) :
    GoodEntry c es bp1 ad h := by
  obtain ⟨r, ps, h1, h2, h3⟩ := hg
  exact ⟨k, v, r, ps, he, by simp [h1], h2, h3⟩

theorem mem_valueHit {c : Ctx} {v : Scalar} {tmp : Str} {a' : SAddr} {h : Hit}
    (hh : h ∈ valueHit c v tmp a') : h = ⟨tmp, a'⟩ := by
  unfold valueHit at hh
  split at hh <;> simp_all

theorem getElem?_of_drop {α : Type} {full : List α} {i : Nat} {e : α} {r : List α}
    (h : full.drop i = e :: r) : full[i]? = some e ∧ full.drop (i + 1) = r := by
  have h1 : full[i]? = some e := by
    have := congrArg List.head? h
    simpa [List.head?_drop] using this
  refine ⟨h1, ?_⟩
  have := congrArg List.tail h
  simpa [List.tail_drop] using this

theorem good_members (c : Ctx) (bp1 : Str) (hb : c.o.fslash = true → bp1 ≠ []) (ad : SAddr)
    (a : Option Str) (full : List AKey) (P : List AKey → List Str → Out)
    (hP : ∀ ms seen, ∀ h ∈ (P ms seen).1, ∃ k ∈ ms, h = ⟨keyPath c bp1 k.key, ad ++ [.member k.key]⟩)
    (seen : List Str) (bp : Str) (hbp : bp1 = mapPrefix c bp) :
    ∀ h ∈ (P full seen).1, Good c (.set a full) bp ad h := by
  intro h hh
  obtain ⟨k, hk, rfl⟩ := hP full seen h hh
  refine ⟨[.member k.key], [.key k.key], rfl, .member hk, ?_⟩
  simp only [pathText, PStep.app, ← hbp]
  exact (rootFix_of_ne c (fun hf => keyPath_ne c (hb hf) _)).symm

theorem ycMembers_mem (c : Ctx) (bp1 : Str) (ad : SAddr) : ∀ (ms : List AKey) (seen : List Str),
    ∀ h ∈ (ycMembers c ms bp1 ad seen).1, ∃ k ∈ ms, h = ⟨keyPath c bp1 k.key, ad ++ [.member k.key]⟩
  | [], _, h, hh => by simp [ycMembers] at hh
  | k :: rest, seen, h, hh => by
    simp only [ycMembers, List.mem_append] at hh
    rcases hh with hh | hh
    · split at hh
      · simp at hh
      · simp only [List.mem_singleton] at hh
        exact ⟨k, by simp, hh⟩
    · obtain ⟨k', hk', e⟩ := ycMembers_mem c bp1 ad rest _ h hh
      exact ⟨k', by simp [hk'], e⟩

theorem sMembers_mem (c : Ctx) (bp1 : Str) (ad : SAddr) : ∀ (ms : List AKey) (seen : List Str),
    ∀ h ∈ (sMembers c ms bp1 ad seen).1, ∃ k ∈ ms, h = ⟨keyPath c bp1 k.key, ad ++ [.member k.key]⟩
  | [], _, h, hh => by simp [sMembers] at hh
  | k :: rest, seen, h, hh => by
    simp only [sMembers, List.mem_append] at hh
    rcases hh with hh | hh
    · split at hh
      · simp only [List.mem_singleton] at hh
        exact ⟨k, by simp, hh⟩
      · split at hh
        · simp only [List.mem_singleton] at hh
          exact ⟨k, by simp, hh⟩
        · simp at hh
    · obtain ⟨k', hk', e⟩ := sMembers_mem c bp1 ad rest _ h hh
      exact ⟨k', by simp [hk'], e⟩

theorem ymk_mem (c : Ctx) (bp1 : Str) (ad : SAddr) : ∀ (names : List Str) (j : Nat) (full : List Str),
    full.drop j = names →
    ∀ h ∈ ymk c names j bp1 ad, ∃ j' name, full[j']? = some name ∧
      h = ⟨mrefPath c bp1 name, ad ++ [.mref j']⟩
  | [], _, _, _, h, hh => by simp [ymk] at hh
  | name :: rest, j, full, hd, h, hh => by
    obtain ⟨h1, h2⟩ := getElem?_of_drop hd
    simp only [ymk, List.mem_append] at hh
    rcases hh with hh | hh
    · split at hh
      · simp only [List.mem_singleton] at hh
        exact ⟨j, name, h1, hh⟩
      · simp at hh
    · exact ymk_mem c bp1 ad rest (j + 1) full h2 h hh

theorem good_of_entry (c : Ctx) {a : Option Str} {own merged es : List (AKey × SNode)} {refs : List Str}
    {bp : Str} {ad : SAddr} {h : Hit} (hsub : ∀ x ∈ es, x ∈ own ++ merged)
    (hg : GoodEntry c es (mapPrefix c bp) ad h) : Good c (.map a own merged refs) bp ad h := by
  obtain ⟨k, v, r, ps, h1, h2, h3, h4⟩ := hg
  exact ⟨.key k.key :: r, .key k.key :: ps, h2, .key (hsub _ h1) h3, by
    simp only [pathText, PStep.app]; exact h4⟩

mutual
theorem yc_good (c : Ctx) : ∀ (n : SNode) (bp : Str) (ad : SAddr) (seen : List Str),
    ∀ h ∈ (ycNode c n bp ad seen).1, Good c n bp ad h
  | .scalar a v, bp, ad, seen, h, hh => by
    simp only [ycNode, List.mem_singleton] at hh
    subst hh
    exact ⟨[], [], by simp, .nil _, rfl⟩
  | .seq a items, bp, ad, seen, h, hh => by
    simp only [ycNode] at hh
    obtain ⟨i', e, r, ps, h1, h2, h3, h4⟩ := yc_items_good c items 0 (seqPrefix c bp) ad seen items rfl h hh
    exact ⟨.idx i' :: r, itemStep i' e.anchor :: ps, h2, .idx h1 h3, by
      simp only [pathText, itemStep_app]; exact h4⟩
  | .set a ms, bp, ad, seen, h, hh => by
    simp only [ycNode] at hh
    exact good_members c (mapPrefix c bp) (fun hf => mapPrefix_ne c bp hf) ad a ms
      (fun ms seen => ycMembers c ms (mapPrefix c bp) ad seen) (ycMembers_mem c _ ad) seen bp rfl h hh
  | .map a own merged refs, bp, ad, seen, h, hh => by
    simp only [ycNode] at hh
    split at hh
    · simp only [List.mem_append] at hh
      rcases hh with hh | hh
      · exact good_of_entry c (fun x hx => by simp [hx])
          (yc_entries_good c own (mapPrefix c bp) (fun hf => mapPrefix_ne c bp hf) ad _ h hh)
      · exact good_of_entry c (fun x hx => by simp [hx])
          (yc_entries_good c merged (mapPrefix c bp) (fun hf => mapPrefix_ne c bp hf) ad _ h hh)
    · exact good_of_entry c (fun x hx => by simp [hx])
        (yc_entries_good c own (mapPrefix c bp) (fun hf => mapPrefix_ne c bp hf) ad _ h hh)
theorem yc_items_good (c : Ctx) : ∀ (items : List SNode) (i : Nat) (bp1 : Str) (ad : SAddr)
    (seen : List Str) (full : List SNode), full.drop i = items →
    ∀ h ∈ (ycItems c items i bp1 ad seen).1, GoodItem c full bp1 ad h
  | [], _, _, _, _, _, _, h, hh => by simp [ycItems] at hh
  | e :: rest, i, bp1, ad, seen, full, hd, h, hh => by
    obtain ⟨he, hd'⟩ := getElem?_of_drop hd
    simp only [ycItems, List.mem_append] at hh
    rcases hh with hh | hh
    · split at hh
      · simp at hh
      · split at hh
        · exact good_item_of c he bp1 ad (yc_good c e _ _ _ h hh)
        · simp only [List.mem_singleton] at hh
          subst hh
          exact good_self_item c he bp1 ad
    · exact yc_items_good c rest (i + 1) bp1 ad _ full hd' h hh
theorem yc_entries_good (c : Ctx) : ∀ (es : List (AKey × SNode)) (bp1 : Str)
    (_ : c.o.fslash = true → bp1 ≠ []) (ad : SAddr) (seen : List Str),
    ∀ h ∈ (ycEntries c es bp1 ad seen).1, GoodEntry c es bp1 ad h
  | [], _, _, _, _, h, hh => by simp [ycEntries] at hh
  | (k, v) :: rest, bp1, hb, ad, seen, h, hh => by
    simp only [ycEntries, List.mem_append] at hh
    rcases hh with hh | hh
    · split at hh
      · simp at hh
      · split at hh
        · exact good_entry_of c (by simp) bp1 ad (yc_good c v _ _ _ h hh)
        · simp only [List.mem_singleton] at hh
          subst hh
          exact good_self_entry c (v := v) (by simp) hb ad
    · obtain ⟨k', v', r, ps, h1, h2⟩ := yc_entries_good c rest bp1 hb ad _ h hh
      exact ⟨k', v', r, ps, by simp [h1], h2⟩
end

theorem good_self (c : Ctx) (n : SNode) {tmp : Str} (ht : c.o.fslash = true → tmp ≠ []) (a' : SAddr) :
    Good c n tmp a' ⟨tmp, a'⟩ :=
  ⟨[], [], by simp, .nil n, by simp only [pathText]; exact (rootFix_of_ne c ht).symm⟩

theorem emit_good (c : Ctx) (n : SNode) {tmp : Str} (ht : c.o.fslash = true → tmp ≠ []) (a' : SAddr)
    (seen : List Str) : ∀ h ∈ (emit c n tmp a' seen).1, Good c n tmp a' h := by
  intro h hh
  unfold emit at hh
  split at hh
  · exact yc_good c n tmp a' seen h hh
  · simp only [List.mem_singleton] at hh
    subst hh
    exact good_self c n ht a'

theorem descend_good (c : Ctx) (n : SNode) {tmp : Str} (ht : c.o.fslash = true → tmp ≠ []) (a' : SAddr)
    (seen : List Str) (ih : ∀ h ∈ (sNode c n tmp a' seen).1, Good c n tmp a' h) :
    ∀ h ∈ (descend c n tmp a' seen).1, Good c n tmp a' h := by
  intro h hh
  cases n with
  | scalar a v =>
    simp only [descend] at hh
    rw [mem_valueHit hh]
    exact good_self c _ ht a'
  | seq a items => exact ih h (by simpa [descend] using hh)
  | map a o m r => exact ih h (by simpa [descend] using hh)
  | set a ms => exact ih h (by simpa [descend] using hh)

mutual
theorem s_good (c : Ctx) : ∀ (n : SNode) (bp : Str) (ad : SAddr) (seen : List Str),
    ∀ h ∈ (sNode c n bp ad seen).1, Good c n bp ad h
  | .scalar a v, bp, ad, seen, h, hh => by
    simp only [sNode] at hh
    split at hh
    · rw [mem_valueHit hh]
      exact ⟨[], [], by simp, .nil _, rfl⟩
    · simp at hh
  | .seq a items, bp, ad, seen, h, hh => by
    simp only [sNode] at hh
    obtain ⟨i', e, r, ps, h1, h2, h3, h4⟩ := s_items_good c items 0 (seqPrefix c bp) ad seen items rfl h hh
    exact ⟨.idx i' :: r, itemStep i' e.anchor :: ps, h2, .idx h1 h3, by
      simp only [pathText, itemStep_app]; exact h4⟩
  | .set a ms, bp, ad, seen, h, hh => by
    simp only [sNode] at hh
    exact good_members c (mapPrefix c bp) (fun hf => mapPrefix_ne c bp hf) ad a ms
      (fun ms seen => sMembers c ms (mapPrefix c bp) ad seen) (sMembers_mem c _ ad) seen bp rfl h hh
  | .map a own merged refs, bp, ad, seen, h, hh => by
    simp only [sNode, List.mem_append] at hh
    rcases hh with (hh | hh) | hh
    · exact good_of_entry c (fun x hx => by simp [hx])
        (s_entries_good c own (mapPrefix c bp) (fun hf => mapPrefix_ne c bp hf) ad _ h hh)
    · split at hh
      · exact good_of_entry c (fun x hx => by simp [hx])
          (s_entries_good c merged (mapPrefix c bp) (fun hf => mapPrefix_ne c bp hf) ad _ h hh)
      · simp at hh
    · split at hh
      · obtain ⟨j, name, h1, rfl⟩ := ymk_mem c (mapPrefix c bp) ad refs 0 refs rfl h hh
        exact ⟨[.mref j], [.mref name], rfl, .mref h1, by
          simp only [pathText, PStep.app]
          exact (rootFix_of_ne c (fun _ => by simp [mrefPath])).symm⟩
      · simp at hh
theorem s_items_good (c : Ctx) : ∀ (items : List SNode) (i : Nat) (bp1 : Str) (ad : SAddr)
    (seen : List Str) (full : List SNode), full.drop i = items →
    ∀ h ∈ (sItems c items i bp1 ad seen).1, GoodItem c full bp1 ad h
  | [], _, _, _, _, _, _, h, hh => by simp [sItems] at hh
  | e :: rest, i, bp1, ad, seen, full, hd, h, hh => by
    obtain ⟨he, hd'⟩ := getElem?_of_drop hd
    rw [sItems_cons] at hh
    simp only [List.mem_append] at hh
    rcases hh with hh | hh
    · apply good_item_of c he bp1 ad
      split at hh
      · simp at hh
      · split at hh
        · exact emit_good c e (fun _ => itemPath_ne c _ _ _) _ _ h hh
        · exact descend_good c e (fun _ => itemPath_ne c _ _ _) _ _ (s_good c e _ _ _) h hh
    · exact s_items_good c rest (i + 1) bp1 ad _ full hd' h hh
theorem s_entries_good (c : Ctx) : ∀ (es : List (AKey × SNode)) (bp1 : Str)
    (_ : c.o.fslash = true → bp1 ≠ []) (ad : SAddr) (seen : List Str),
    ∀ h ∈ (sEntries c es bp1 ad seen).1, GoodEntry c es bp1 ad h
  | [], _, _, _, _, h, hh => by simp [sEntries] at hh
  | (k, v) :: rest, bp1, hb, ad, seen, h, hh => by
    rw [sEntries_cons] at hh
    simp only [List.mem_append] at hh
    have ht : c.o.fslash = true → keyPath c bp1 k.key ≠ [] := fun hf => keyPath_ne c (hb hf) _
    rcases hh with hh | hh
    · apply good_entry_of c (k := k) (v := v) (by simp) bp1 ad
      split at hh
      · exact emit_good c v ht _ _ h hh
      · split at hh
        · simp at hh
        · split at hh
          · exact emit_good c v ht _ _ h hh
          · exact descend_good c v ht _ _ (s_good c v _ _ _) h hh
    · obtain ⟨k', v', r, ps, h1, h2⟩ := s_entries_good c rest bp1 hb ad _ h hh
      exact ⟨k', v', r, ps, by simp [h1], h2⟩
end

/-- **Every hit of the search carries the text of a walk from the root to its address.** -/
theorem hits_walk (c : Ctx) (d : SNode) (h : Hit) (hh : h ∈ search c d) :
    ∃ ps, Walk d h.addr ps ∧ h.path = pathText c [] ps := by
  obtain ⟨r, ps, h1, h2, h3⟩ := s_good c d [] [] [] h hh
  simp only [List.nil_append] at h1
  exact ⟨ps, h1 ▸ h2, h3⟩

/-! ## 3. The text of a walk is a loosely written segment list; printing and re-parsing it -/

/-- what the chain parse → render → parse needs of one loosely written segment (no collectors, no
first-position anchors) -/
structure Plain (sep : Char) (l : LSeg) : Prop where
  wf : l.WF sep false
  nc : l.isColl = false
  nt : l.isTop = false
  ok : RenderOK l
  nb : l.NB
  hd : ∃ ch k, l.text '.' false = ch :: k ∧ ch ≠ '/'

theorem plain_wfFrom {sep : Char} : ∀ (L : List LSeg), (∀ l ∈ L, Plain sep l) →
    wfFromL sep false L ∧ lastAc false L = false
  | [], _ => ⟨trivial, rfl⟩
  | l :: r, h => by
    have h1 := h l (by simp)
    have ih := plain_wfFrom r (fun x hx => h x (by simp [hx]))
    simp only [wfFromL, lastAc, h1.nc]
    exact ⟨⟨h1.wf, ih.1⟩, ih.2⟩

theorem textFrom_snoc (sep : Char) (l : LSeg) : ∀ (L : List LSeg) (lead : Bool),
    textFrom sep lead (L ++ [l]) = textFrom sep lead L ++ l.text sep (lead || !L.isEmpty)
  | [], lead => by simp [textFrom]
  | x :: r, lead => by simp [textFrom, textFrom_snoc sep l r true]

theorem textAll_snoc (f : Bool) (l : LSeg) (L : List LSeg) :
    textAll f (L ++ [l]) = textAll f L ++ l.text (sepOf f) (!L.isEmpty) := by
  cases f <;> simp [textAll, textFrom_snoc, sepOf]

theorem nonblank_textAll (f : Bool) (L : List LSeg) (h : ∀ l ∈ L, l.NB) (x : Str) :
    normOriginal (textAll f L ++ x) = textAll f L ++ x ∨ (f = false ∧ L = []) := by
  cases f with
  | true => left; exact normOriginal_of_nonblank ⟨'/', by simp [textAll], by decide⟩
  | false =>
    cases L with
    | nil => right; exact ⟨rfl, rfl⟩
    | cons l r =>
      left
      obtain ⟨ch, hc, hw⟩ := text_nonblank (sep := '.') l (h l (by simp))
      exact normOriginal_of_nonblank ⟨ch, by simp [textAll, textFrom, hc], hw⟩

theorem printed_of (f : Bool) (t : Str) (u : List Seg) (hn : normOriginal t = t)
    (hs : (inferSep t).isFslash = f) (hu : parseWith f false t = .ok u) :
    printed t = .ok (render f u) := by
  subst hs
  cases h : inferSep t <;>
    simp [printed, PathObj.str, PathObj.new, PathObj.setOriginal, PathObj.unescaped, PathObj.parseObj,
      PathObj.getSep, hn, h, SepOpt.isFslash] at hu ⊢ <;>
    simp [hu, h]

theorem inferSep_textAll (f : Bool) (L : List LSeg)
    (h : ∀ l ∈ L, ∃ ch k, l.text '.' false = ch :: k ∧ ch ≠ '/')
    (x : Str) (hx : L = [] → x = []) : (inferSep (textAll f L ++ x)).isFslash = f := by
  cases f with
  | true => simp [textAll, inferSep, SepOpt.isFslash]
  | false =>
    cases L with
    | nil => simp [hx rfl, textAll, textFrom, inferSep, SepOpt.isFslash]
    | cons l r =>
      obtain ⟨ch, k, ht, hc⟩ := h l (by simp)
      simp [textAll, textFrom, ht, inferSep, hc, SepOpt.isFslash]

/-- **parse → `str()` → parse** for a text that is a loosely written list of plain segments, or such a
list followed by a separator and one more bracketed segment (the form of a merge reference). -/
theorem roundtrip_texts (f : Bool) (L : List LSeg) (hp : ∀ l ∈ L, Plain (sepOf f) l) (t : Str)
    (ht : t = textAll f L ∨ ∃ L0 l, L = L0 ++ [l] ∧ L0 ≠ [] ∧
      t = textAll f L0 ++ sepOf f :: l.text (sepOf f) false) :
    ∃ S, printed t = .ok S ∧ parseWith f true S = .ok (L.map (LSeg.seg true)) := by
  have hsep : (if f then '/' else '.') = sepOf f := rfl
  obtain ⟨hW, _⟩ := plain_wfFrom L hp
  have hnb : ∀ l ∈ L, l.NB := fun l hl => (hp l hl).nb
  have hhd : ∀ l ∈ L, ∃ ch k, l.text '.' false = ch :: k ∧ ch ≠ '/' := fun l hl => (hp l hl).hd
  -- the raw text: its unescaped segments, its separator
  have hraw : normOriginal t = t ∧ (inferSep t).isFslash = f ∧
      parseWith f false t = .ok (L.map (LSeg.seg false)) := by
    rcases ht with rfl | ⟨L0, l, rfl, hne, rfl⟩
    · have hn : normOriginal (textAll f L) = textAll f L := by
        rcases nonblank_textAll f L hnb [] with h | ⟨rfl, rfl⟩
        · simpa using h
        · simp [textAll, textFrom, normOriginal]
      refine ⟨hn, by simpa using inferSep_textAll f L hhd [] (fun _ => rfl), ?_⟩
      exact parseWith_texts f false L (by rw [hsep]; exact hW) hn
    · have hp0 : ∀ x ∈ L0, Plain (sepOf f) x := fun x hx => hp x (by simp [hx])
      obtain ⟨hW0, hac⟩ := plain_wfFrom L0 hp0
      have hl := hp l (by simp)
      have hn : normOriginal (textAll f L0 ++ sepOf f :: l.text (sepOf f) false) =
          textAll f L0 ++ sepOf f :: l.text (sepOf f) false := by
        rcases nonblank_textAll f L0 (fun x hx => (hp0 x hx).nb) (sepOf f :: l.text (sepOf f) false)
          with h | ⟨_, h⟩
        · exact h
        · exact absurd h hne
      refine ⟨hn, inferSep_textAll f L0 (fun x hx => (hp0 x hx).hd) _ (fun h => absurd h hne), ?_⟩
      have hni : l.isInter = false := by
        have := hl.nc
        cases l <;> simp_all [LSeg.isInter, LSeg.isColl]
      have := parseWith_texts_snoc f false L0 l (by rw [hsep]; exact hW0) hne
        (by rw [hsep, hac]; exact hl.wf) hni _ rfl (by rw [hsep]; exact hn)
      rw [hsep] at this
      simpa using this
  obtain ⟨hn, hs, hu⟩ := hraw
  refine ⟨_, printed_of f t _ hn hs hu, ?_⟩
  -- the printed text
  have hok : ∀ l ∈ L, RenderOK l := fun l hl => (hp l hl).ok
  rw [render_eq f L false hW hok, hsep]
  have hW1 : wfFromL (sepOf f) false (remarkFrom (sepOf f) false L) :=
    remarkFrom_wf L false false hW hok (fun _ => rfl)
      (fun l hl => (hp l (by
        simp only [Bool.false_eq_true, ↓reduceIte] at hl
        exact List.mem_of_mem_tail hl)).nt)
  have hn1 : normOriginal (textAll f (remarkFrom (sepOf f) false L)) =
      textAll f (remarkFrom (sepOf f) false L) := by
    cases f with
    | true => exact normOriginal_of_nonblank ⟨'/', by simp [textAll], by decide⟩
    | false =>
      cases hL : L with
      | nil => simp [remarkFrom, textAll, textFrom, normOriginal]
      | cons l r =>
        apply normOriginal_of_nonblank
        obtain ⟨ch, hc, hw⟩ := text_nonblank (sep := '.') (remark1 '.' false l)
          (remark1_nb _ _ l (hnb l (by simp [hL])))
        exact ⟨ch, by simp [remarkFrom, textAll, textFrom, sepOf, hc], hw⟩
  rw [parseWith_texts f true _ (by rw [hsep]; exact hW1) hn1, remarkFrom_seg_true]

/-! ### the steps of a walk as plain segments -/

def PStep.ok : PStep → Bool
  | .key k => okKeyText (keyText k)
  | .idx _ => true
  | .anc a => okName a
  | .mref n => okName n

def PStep.isMref : PStep → Bool
  | .mref _ => true
  | _ => false

def PStep.lseg (sep : Char) : PStep → LSeg
  | .key k => .key (secToks sep (keyText k))
  | .idx i => .index i
  | .anc a => .anchor false (secToks sep a)
  | .mref n => .anchor false (secToks sep n)

/-- the segment a step is read back as -/
def PStep.seg : PStep → Seg
  | .key k => (.key, .str (keyText k))
  | .idx i => (.index, .int i)
  | .anc a => (.anchor, .str a)
  | .mref n => (.anchor, .str n)

theorem lseg_seg (sep : Char) (s : PStep) : (s.lseg sep).seg true = s.seg := by
  cases s <;> simp [PStep.lseg, PStep.seg, LSeg.seg, tokView, tokChars_secToks]

theorem secToks_head {sep : Char} (hsep : sep = '.' ∨ sep = '/') {t : Str} (ht : t ≠ []) :
    ∃ ch k, tokText (secToks sep t) = ch :: k ∧ ch ≠ '/' ∧ (ch = '&' → t.head? = some '&') := by
  cases t with
  | nil => exact absurd rfl ht
  | cons c r =>
    by_cases he : (special sep c || (c == '/' && sep != '/')) = true
    · exact ⟨'\\', c :: tokText (tokenize sep r), by simp [secToks, tokText, Tok.text, he], by decide,
        fun h => absurd h (by decide)⟩
    · refine ⟨c, tokText (tokenize sep r), by simp [secToks, tokText, Tok.text, he], ?_,
        fun h => by simp [h]⟩
      rintro rfl
      rcases hsep with rfl | rfl <;> simp [special] at he

theorem plain_step {sep : Char} (hsep : sep = '.' ∨ sep = '/') (s : PStep) (hs : s.ok = true) :
    Plain sep (s.lseg sep) := by
  cases s with
  | idx i =>
    exact ⟨trivial, rfl, rfl, trivial, trivial, '[', _, rfl, by decide⟩
  | key k =>
    simp only [PStep.ok, okKeyText, wfKeyText, Bool.and_eq_true, decide_eq_true_eq,
      Bool.not_eq_true', ne_eq] at hs
    obtain ⟨⟨⟨⟨hne, hstar⟩, hamp⟩, hws⟩, _⟩ := hs
    obtain ⟨ch, k', h1, h2, h3⟩ := secToks_head hsep hne
    have hamp' : headNotAmp (secToks sep (keyText k)) := by
      intro t ht
      cases hk : keyText k with
      | nil => exact absurd hk hne
      | cons c r =>
        rw [hk] at hamp
        simp only [hk, secToks, List.head?_cons, Option.mem_def, Option.some.injEq] at ht
        subst ht
        right
        simpa using hamp
    have hstar' : '*' ∉ tokChars (secToks sep (keyText k)) := by
      rw [tokChars_secToks]
      simpa using hstar
    refine ⟨⟨secToks_ne hne, hamp', (fun h => by cases h), secToks_allBare (allBare_top sep _), hstar'⟩,
      rfl, rfl, trivial, ?_, ch, k', by simpa [PStep.lseg, LSeg.text, sepIf] using h1, h2⟩
    · -- a character that is not bare white space
      simp only [List.all_eq_false] at hws
      obtain ⟨c, hc, hcw⟩ := hws
      have hmem : ∃ t ∈ secToks sep (keyText k), t.2 = c ∧ (special sep c = true → t.1 = true) := by
        cases hk : keyText k with
        | nil => rw [hk] at hc; simp at hc
        | cons c0 r =>
          rw [hk] at hc
          simp only [List.mem_cons] at hc
          rcases hc with rfl | hc
          · exact ⟨(special sep c || (c == '/' && sep != '/'), c), by simp [secToks], rfl,
              fun h => by simp [h]⟩
          · refine ⟨(special sep c, c), ?_, rfl, id⟩
            simp only [secToks, tokenize, List.mem_cons, List.mem_map]
            right; exact ⟨c, hc, rfl⟩
      obtain ⟨t, ht, htc, hte⟩ := hmem
      refine ⟨t, ht, ?_⟩
      by_cases hsp : special sep c = true
      · exact Or.inl (hte hsp)
      · right
        rw [htc]
        simp only [isCtlWs, Bool.and_eq_true, not_and, Bool.not_eq_true, decide_eq_true_eq] at hcw
        by_cases hw : isPyWs c = true
        · have := hcw hw
          simp only [ne_eq, Decidable.not_not] at this
          subst this
          simp [special] at hsp
        · simpa using hw
  | anc a =>
    simp only [PStep.ok, okName, Bool.and_eq_true, decide_eq_true_eq, Bool.not_eq_true', ne_eq] at hs
    obtain ⟨⟨⟨hne, hstar⟩, hop⟩, _⟩ := hs
    refine ⟨⟨secToks_ne hne, secToks_allBare (allBare_br sep hop)⟩, rfl, rfl, ?_, trivial,
      '[', _, rfl, by decide⟩
    show '*' ∉ tokChars (secToks sep a)
    rw [tokChars_secToks]; simpa using hstar
  | mref a =>
    simp only [PStep.ok, okName, Bool.and_eq_true, decide_eq_true_eq, Bool.not_eq_true', ne_eq] at hs
    obtain ⟨⟨⟨hne, hstar⟩, hop⟩, _⟩ := hs
    refine ⟨⟨secToks_ne hne, secToks_allBare (allBare_br sep hop)⟩, rfl, rfl, ?_, trivial,
      '[', _, rfl, by decide⟩
    show '*' ∉ tokChars (secToks sep a)
    rw [tokChars_secToks]; simpa using hstar

/-- a merge reference is only ever the last step -/
def noInnerMref : List PStep → Bool
  | [] => true
  | s :: r => (r.isEmpty || !s.isMref) && noInnerMref r

theorem itemStep_notMref (i : Nat) (a : Option Str) : (itemStep i a).isMref = false := by
  cases a <;> rfl

theorem walk_noInner {n : SNode} {r : SAddr} {ps : List PStep} (h : Walk n r ps) :
    noInnerMref ps = true := by
  induction h with
  | nil => rfl
  | idx _ _ ih => simp [noInnerMref, itemStep_notMref, ih]
  | key _ _ ih => simp [noInnerMref, PStep.isMref, ih]
  | mref _ => rfl
  | member _ => rfl

/-- the build path `bp` is the text of the loosely written list `L` (the empty build path stands for
the empty list in both notations) -/
def Rep (c : Ctx) (bp : Str) (L : List LSeg) : Prop :=
  (L = [] ∧ bp = []) ∨ (L ≠ [] ∧ bp ≠ [] ∧ bp = textAll c.o.fslash L)

theorem sep_ok (c : Ctx) : c.sep = '.' ∨ c.sep = '/' := by
  unfold Ctx.sep; split <;> simp

theorem esc_eq (c : Ctx) (t : Str) (h : noDbl t = true) : esc c t = tokText (secToks c.sep t) :=
  escapePathSection_eq (sep_ok c) t h

theorem natDigits_eq (i : Nat) : pyStrInt (i : Int) = natDigits i := by
  simp [pyStrInt]

theorem step_text (c : Ctx) (s : PStep) (hs : s.ok = true) (bp : Str) :
    s.app c bp = (match s with
      | .key _ => mapPrefix c bp
      | .mref _ => mapPrefix c bp
      | _ => rootFix c bp) ++ (s.lseg c.sep).text c.sep false := by
  cases s with
  | key k =>
    simp only [PStep.ok, okKeyText, Bool.and_eq_true] at hs
    simp [PStep.app, keyPath, esc_eq c _ hs.2, PStep.lseg, LSeg.text, sepIf]
  | idx i => simp [PStep.app, itemPath, seqPrefix, PStep.lseg, LSeg.text, natDigits_eq]
  | anc a =>
    simp only [PStep.ok, okName, Bool.and_eq_true] at hs
    simp [PStep.app, itemPath, seqPrefix, esc_eq c _ hs.2, PStep.lseg, LSeg.text]
  | mref a =>
    simp only [PStep.ok, okName, Bool.and_eq_true] at hs
    simp [PStep.app, mrefPath, esc_eq c _ hs.2, PStep.lseg, LSeg.text]

theorem lseg_text_ne (c : Ctx) (s : PStep) (hs : s.ok = true) :
    (s.lseg c.sep).text c.sep false ≠ [] := text_ne (plain_step (sep_ok c) s hs).wf

theorem prefix_nil (c : Ctx) : mapPrefix c [] = textAll c.o.fslash [] ∧ rootFix c [] = textAll c.o.fslash [] := by
  cases hf : c.o.fslash <;> simp [mapPrefix, rootFix, textAll, textFrom, hf, Ctx.sep]

theorem rep_step (c : Ctx) {bp : Str} {L : List LSeg} (hr : Rep c bp L) (s : PStep) (hs : s.ok = true)
    (hm : s.isMref = false) : Rep c (s.app c bp) (L ++ [s.lseg c.sep]) := by
  have hne := lseg_text_ne c s hs
  have hsep : c.sep = sepOf c.o.fslash := rfl
  refine Or.inr ⟨by simp, ?_, ?_⟩
  · rw [step_text c s hs]; simp [hne]
  · rw [step_text c s hs, textAll_snoc, ← hsep]
    rcases hr with ⟨rfl, rfl⟩ | ⟨hL, hb, rfl⟩
    · cases s <;> simp_all [prefix_nil, PStep.isMref]
    · have h1 : mapPrefix c (textAll c.o.fslash L) = textAll c.o.fslash L ++ [c.sep] := by
        simp [mapPrefix, hb]
      have h2 : rootFix c (textAll c.o.fslash L) = textAll c.o.fslash L :=
        rootFix_of_ne c (fun _ => hb)
      have h3 : (!L.isEmpty) = true := by cases L <;> simp_all
      cases s with
      | key k => simp [h1, h3, PStep.lseg, LSeg.text, sepIf]
      | idx i => simp [h2, PStep.lseg, LSeg.text]
      | anc a => simp [h2, PStep.lseg, LSeg.text]
      | mref a => simp [PStep.isMref] at hm

/-- the text of a walk: the loosely written list of its steps, or — when it ends in a merge
reference below the root — the list without the last step, a separator, and `[&name]` -/
theorem pathText_form (c : Ctx) : ∀ (ps : List PStep) (bp : Str) (L : List LSeg), Rep c bp L →
    (∀ s ∈ ps, s.ok = true) → noInnerMref ps = true →
    pathText c bp ps = textAll c.o.fslash (L ++ ps.map (PStep.lseg c.sep)) ∨
    ∃ L0 l, L ++ ps.map (PStep.lseg c.sep) = L0 ++ [l] ∧ L0 ≠ [] ∧
      pathText c bp ps = textAll c.o.fslash L0 ++ c.sep :: l.text c.sep false
  | [], bp, L, hr, _, _ => by
    left
    simp only [pathText, List.map_nil, List.append_nil]
    rcases hr with ⟨rfl, rfl⟩ | ⟨_, hb, rfl⟩
    · exact (prefix_nil c).2
    · exact rootFix_of_ne c (fun _ => hb)
  | s :: r, bp, L, hr, hok, hni => by
    have hs := hok s (by simp)
    simp only [noInnerMref, Bool.and_eq_true, Bool.or_eq_true, List.isEmpty_iff,
      Bool.not_eq_true'] at hni
    by_cases hm : s.isMref = true
    · have hr0 : r = [] := by
        rcases hni.1 with h | h
        · exact h
        · rw [h] at hm; cases hm
      subst hr0
      have hne := lseg_text_ne c s hs
      have happ : pathText c bp [s] = s.app c bp := by
        simp only [pathText]
        apply rootFix_of_ne
        intro _
        rw [step_text c s hs]; simp [hne]
      rw [happ, step_text c s hs]
      cases s with
      | mref a =>
        rcases hr with ⟨rfl, rfl⟩ | ⟨hL, hb, rfl⟩
        · left
          have hsep : c.sep = sepOf c.o.fslash := rfl
          simp only [List.map_cons, List.map_nil, List.nil_append]
          rw [← List.nil_append [PStep.lseg c.sep (PStep.mref a)], textAll_snoc, ← hsep]
          simp [prefix_nil]
        · right
          refine ⟨L, PStep.lseg c.sep (.mref a), by simp, hL, ?_⟩
          simp [mapPrefix, hb]
      | key k => cases hm
      | idx i => cases hm
      | anc a => cases hm
    · have hm' : s.isMref = false := by simpa using hm
      have := pathText_form c r (s.app c bp) (L ++ [s.lseg c.sep]) (rep_step c hr s hs hm')
        (fun x hx => hok x (by simp [hx])) hni.2
      simpa [pathText, List.append_assoc] using this

/-- **Printing and re-parsing the text of a walk**: `str(YAMLPath(text))` succeeds and the printed text,
parsed in the notation it was printed in, is the list of the walk's segments. -/
theorem printed_parse (c : Ctx) (ps : List PStep) (hok : ∀ s ∈ ps, s.ok = true)
    (hni : noInnerMref ps = true) :
    ∃ S, printed (pathText c [] ps) = .ok S ∧ parseWith c.o.fslash true S = .ok (ps.map PStep.seg) := by
  have hsep : c.sep = sepOf c.o.fslash := rfl
  have hpl : ∀ l ∈ ps.map (PStep.lseg c.sep), Plain (sepOf c.o.fslash) l := by
    intro l hl
    simp only [List.mem_map] at hl
    obtain ⟨s, hs, rfl⟩ := hl
    rw [← hsep]
    exact plain_step (sep_ok c) s (hok s hs)
  have hform := pathText_form c ps [] [] (Or.inl ⟨rfl, rfl⟩) hok hni
  simp only [List.nil_append] at hform
  obtain ⟨S, h1, h2⟩ := roundtrip_texts c.o.fslash (ps.map (PStep.lseg c.sep)) hpl (pathText c [] ps)
    (by rw [← hsep]; exact hform)
  refine ⟨S, h1, ?_⟩
  rw [h2, List.map_map]
  congr 1
  apply List.map_congr_left
  intro s _
  exact lseg_seg c.sep s

/-! ## 4. The resolver follows the segments of a walk to its address -/

theorem filterMap_none {α β : Type} (p : α → Bool) (g : α → β) : ∀ (es : List α), es.countP p = 0 →
    es.filterMap (fun e => if p e then some (g e) else none) = []
  | [], _ => rfl
  | y :: ys, h => by
    by_cases hy : p y = true
    · simp [List.countP_cons, hy] at h
    · simp only [List.countP_cons, hy, Bool.false_eq_true, ↓reduceIte, Nat.add_zero] at h
      simp [List.filterMap_cons, hy, filterMap_none p g ys h]

theorem filterMap_unique {α β : Type} (p : α → Bool) (g : α → β) (x : α) : ∀ (es : List α), x ∈ es →
    p x = true → es.countP p = 1 → es.filterMap (fun e => if p e then some (g e) else none) = [g x]
  | [], hx, _, _ => by simp at hx
  | y :: ys, hx, hp, h => by
    by_cases hy : p y = true
    · simp only [List.countP_cons, hy, ↓reduceIte, Nat.add_eq_right] at h
      have hxy : x = y := by
        simp only [List.mem_cons] at hx
        rcases hx with rfl | hx
        · rfl
        · have := List.countP_pos_iff.mpr ⟨x, hx, hp⟩
          omega
      subst hxy
      simp [List.filterMap_cons, hp, filterMap_none p g ys h]
    · simp only [List.countP_cons, hy, Bool.false_eq_true, ↓reduceIte, Nat.add_zero] at h
      have hx' : x ∈ ys := by
        simp only [List.mem_cons] at hx
        rcases hx with rfl | hx
        · exact absurd hp hy
        · exact hx
      simp [List.filterMap_cons, hy, filterMap_unique p g x ys hx' hp h]

theorem unique_of_countP {α : Type} (p : α → Bool) : ∀ (es : List α) (x y : α), x ∈ es → y ∈ es →
    p x = true → p y = true → es.countP p = 1 → x = y
  | [], _, _, hx, _, _, _, _ => by simp at hx
  | z :: zs, x, y, hx, hy, px, py, h => by
    simp only [List.mem_cons] at hx hy
    by_cases hz : p z = true
    · simp only [List.countP_cons, hz, ↓reduceIte, Nat.add_eq_right] at h
      have hnone : ∀ w ∈ zs, p w = true → False := fun w hw pw => by
        have := List.countP_pos_iff.mpr ⟨w, hw, pw⟩
        omega
      rcases hx with rfl | hx
      · rcases hy with rfl | hy
        · rfl
        · exact (hnone y hy py).elim
      · exact (hnone x hx px).elim
    · simp only [List.countP_cons, hz, Bool.false_eq_true, ↓reduceIte, Nat.add_zero] at h
      rcases hx with rfl | hx
      · exact absurd px hz
      · rcases hy with rfl | hy
        · exact absurd py hz
        · exact unique_of_countP p zs x y hx hy px py h

theorem ancItems_none (a : Str) : ∀ (items : List SNode) (i0 : Nat),
    items.countP (fun x => x.anchor == some a) = 0 → ancItems a items i0 = []
  | [], _, _ => rfl
  | x :: xs, i0, h => by
    by_cases hx : (x.anchor == some a) = true
    · simp [List.countP_cons, hx] at h
    · simp only [List.countP_cons, hx, Bool.false_eq_true, ↓reduceIte, Nat.add_zero] at h
      simp [ancItems, hx, ancItems_none a xs (i0 + 1) h]

theorem ancItems_unique (a : Str) : ∀ (items : List SNode) (i0 i : Nat) (e : SNode),
    items[i]? = some e → e.anchor = some a → items.countP (fun x => x.anchor == some a) = 1 →
    ancItems a items i0 = [(.idx (i0 + i), some e)]
  | [], _, _, _, h, _, _ => by simp at h
  | x :: xs, i0, i, e, he, ha, h => by
    by_cases hx : (x.anchor == some a) = true
    · simp only [List.countP_cons, hx, ↓reduceIte, Nat.add_eq_right] at h
      cases i with
      | zero =>
        simp only [List.getElem?_cons_zero, Option.some.injEq] at he
        subst he
        simp [ancItems, hx, ancItems_none a xs (i0 + 1) h]
      | succ i' =>
        simp only [List.getElem?_cons_succ] at he
        have : 0 < xs.countP (fun x => x.anchor == some a) :=
          List.countP_pos_iff.mpr ⟨e, List.mem_of_getElem? he, by simp [ha]⟩
        omega
    · simp only [List.countP_cons, hx, Bool.false_eq_true, ↓reduceIte, Nat.add_zero] at h
      cases i with
      | zero =>
        simp only [List.getElem?_cons_zero, Option.some.injEq] at he
        subst he
        simp [ha] at hx
      | succ i' =>
        simp only [List.getElem?_cons_succ] at he
        have := ancItems_unique a xs (i0 + 1) i' e he ha h
        simp only [ancItems, hx, Bool.false_eq_true, ↓reduceIte, List.nil_append, this]
        congr 3; omega

theorem refIdx_unique (a : Str) : ∀ (refs : List Str) (j0 j : Nat),
    refs[j]? = some a → refs.countP (fun x => x == a) = 1 → refIdx a refs j0 = [(.mref (j0 + j), none)]
  | [], _, _, h, _ => by simp at h
  | n :: r, j0, j, hj, h => by
    by_cases hn : (n == a) = true
    · simp only [List.countP_cons, hn, ↓reduceIte, Nat.add_eq_right] at h
      cases j with
      | zero => simp [refIdx, hn]
      | succ j' =>
        simp only [List.getElem?_cons_succ] at hj
        have : 0 < r.countP (fun x => x == a) :=
          List.countP_pos_iff.mpr ⟨a, List.mem_of_getElem? hj, by simp⟩
        omega
    · simp only [List.countP_cons, hn, Bool.false_eq_true, ↓reduceIte, Nat.add_zero] at h
      cases j with
      | zero => simp at hj; simp [hj] at hn
      | succ j' =>
        simp only [List.getElem?_cons_succ] at hj
        have := refIdx_unique a r (j0 + 1) j' hj h
        simp only [refIdx, hn, Bool.false_eq_true, ↓reduceIte, this]
        congr 3; omega

/-- **The resolver follows the segments of a walk to exactly its address**, and every step of the walk
is expressible, whenever none of the excluded classes lies on the way (`okAddr`). -/
theorem resolve_walk (live : Str → Bool) {n : SNode} {r : SAddr} {ps : List PStep} (hw : Walk n r ps) :
    okAddr live n r = true → resolve live n (ps.map PStep.seg) = [r] ∧ ∀ s ∈ ps, s.ok = true := by
  induction hw with
  | nil n => intro _; exact ⟨rfl, by simp⟩
  | @idx a items i e r ps he _ ih =>
    intro hok
    simp only [okAddr, he, Bool.and_eq_true] at hok
    obtain ⟨h1, h2⟩ := hok
    obtain ⟨ihr, iho⟩ := ih h2
    cases ha : e.anchor with
    | none =>
      refine ⟨?_, by simpa [itemStep, PStep.ok] using iho⟩
      have hneg : ¬ ((i : Int) < 0) := by omega
      simp [itemStep, PStep.seg, resolve, children, hneg, he, ihr]
    | some an =>
      rw [ha] at h1
      simp only [Bool.and_eq_true, beq_iff_eq] at h1
      refine ⟨?_, by simpa [itemStep, PStep.ok, h1.1] using iho⟩
      have := ancItems_unique an items 0 i e he ha h1.2
      simp [itemStep, PStep.seg, resolve, children, this, ihr]
  | @key a own merged refs k v r ps hm _ ih =>
    intro hok
    simp only [okAddr, Bool.and_eq_true, beq_iff_eq] at hok
    obtain ⟨⟨h1, h2⟩, h3⟩ := hok
    cases hf : (own ++ merged).find? (fun e => e.1.key == k.key) with
    | none => simp [hf] at h3
    | some e =>
      rw [hf] at h3
      simp only at h3
      have he := List.find?_some hf
      have hem := List.mem_of_find?_eq_some hf
      simp only [beq_iff_eq] at he
      have : e = (k, v) :=
        unique_of_countP (fun e => keyText e.1.key == keyText k.key) (own ++ merged) e (k, v) hem hm
          (by simp [he]) (by simp) h2
      subst this
      obtain ⟨ihr, iho⟩ := ih h3
      refine ⟨?_, by simpa [PStep.ok, h1] using iho⟩
      have := filterMap_unique (fun e : AKey × SNode => keyText e.1.key == keyText k.key)
        (fun e => ((.key e.1.key, some e.2) : Cand)) (k, v) (own ++ merged) hm (by simp) h2
      simp only [List.map_cons, PStep.seg, resolve, children, keyEntries]
      rw [this]
      simp [ihr]
  | @mref a own merged refs j name hj =>
    intro hok
    simp only [okAddr, hj, Bool.and_eq_true, beq_iff_eq] at hok
    obtain ⟨⟨⟨h1, h2⟩, h3⟩, h4⟩ := hok
    refine ⟨?_, by simp [PStep.ok, h1]⟩
    have hr := refIdx_unique name refs 0 j hj h3
    have ha : ancEntries name (own ++ merged) = [] := by
      unfold ancEntries
      apply filterMap_none (fun e : AKey × SNode => e.1.anchor == some name || e.2.anchor == some name)
      rw [List.countP_eq_zero]
      intro e he
      have := List.all_eq_true.mp h4 e he
      simpa using this
    simp [PStep.seg, resolve, children, h2, hr, ha]
  | @member a ms k hk =>
    intro hok
    simp only [okAddr, Bool.and_eq_true, beq_iff_eq] at hok
    refine ⟨?_, by simp [PStep.ok, hok.1]⟩
    have := filterMap_unique (fun m : AKey => keyText m.key == keyText k.key)
      (fun m => ((.member m.key, none) : Cand)) k ms hk (by simp) hok.2
    simp only [List.map_cons, List.map_nil, PStep.seg, resolve, children, memberCands]
    rw [this]
    simp

end Ypv.Search.Rr
