import Ypv.Lemmas.PathSim
import Ypv.Lemmas.Search
/-!
# The path texts the search builds (C07 `search_paths_reresolve`)

1. `escape_path_section` (the 12-pass `ensure_escaped` fold plus the leading-slash rule of e9c869e)
   is the C08 writer's escaping `escText` — a token text (`secToks`) — for every text without two
   adjacent backslashes (`noDbl`; with them the first pass takes the pair for an escaped backslash:
   finding C07-K6).
2. Every hit of the search carries the text `pathText c [] ps` of a walk `ps` from the root to its
   address (`hits_walk`, unconditional; mutual induction over the six search functions).
3. That text is `textAll` of loosely written segments (or, for a merge reference below the root,
   that followed by a separator and `[&name]`), which the C08 engine parses, renders and parses again
   (`printed_parse`).
4. The simple resolver `resolve` follows the re-parsed segments to exactly the walked address
   (`resolve_walk`).
-/
namespace Ypv.Search.Rr
open Ypv Ypv.Sim Ypv.Search

/-! ## 1. `escape_path_section` as a token text -/

/-- no two adjacent backslashes -/
def noDbl : Str → Bool
  | a :: b :: r => !(a = '\\' && b = '\\') && noDbl (b :: r)
  | _ => true

theorem noDbl_tail {a : Char} {t : Str} (h : noDbl (a :: t) = true) : noDbl t = true := by
  cases t with
  | nil => rfl
  | cons b r => simp only [noDbl, Bool.and_eq_true] at h; exact h.2

/-- the first `ensure_escaped` pass (symbol `\`) doubles every backslash -/
theorem esc1_bs (t : Str) (h : noDbl t = true) :
    esc1 '\\' t = tokText (t.map (fun c => (c == '\\', c))) := by
  induction t with
  | nil => simp [esc1, tokText]
  | cons a t ih =>
    have ih' := ih (noDbl_tail h)
    cases t with
    | nil =>
      by_cases ha : a = '\\' <;> simp [esc1, tokText, Tok.text, ha]
    | cons b r =>
      simp only [noDbl, Bool.and_eq_true, Bool.not_eq_true', Bool.and_eq_false_iff,
        decide_eq_false_iff_not] at h
      by_cases ha : a = '\\'
      · have hb : b ≠ '\\' := by
          rcases h.1 with h1 | h1
          · exact absurd ha h1
          · exact h1
        subst ha
        rw [esc1]
        simp only [hb, ne_eq, not_true_eq_false, or_self, and_false, ↓reduceIte]
        rw [ih']
        simp [tokText, Tok.text]
      · rw [esc1]
        simp only [ha, false_and, ↓reduceIte]
        rw [ih']
        simp [tokText, Tok.text, ha]

theorem ensureEscaped_cons (s : Char) (r : List Char) (v : Str) :
    ensureEscaped (s :: r) v = ensureEscaped r (esc1 s v) := by simp [ensureEscaped]

theorem markAll_keySyms (sep c : Char) :
    markAll (keySyms sep) (c == '\\', c) = (special sep c, c) := by
  simp only [markAll, keySyms, special, List.contains_cons, List.contains_nil, Bool.or_false,
    Prod.mk.injEq, and_true]
  have e : ∀ x : Char, (c == x) = decide (c = x) := fun x => by
    by_cases hx : c = x <;> simp [hx]
  simp only [e, Bool.or_assoc]

/-- **`escapePathSection = escText`** up to the leading-slash rule: the twelve passes escape exactly
the special characters. -/
theorem ensureEscaped_section {sep : Char} (hsep : sep = '.' ∨ sep = '/') (t : Str)
    (h : noDbl t = true) : ensureEscaped (sectionSyms sep) t = escText sep t := by
  rw [sectionSyms, ensureEscaped_cons, esc1_bs t h,
    ensureEscaped_tokText _ (keySyms_nobs hsep), List.map_map, ← tokText_tokenize]
  · congr 1
    simp only [tokenize]
    apply List.map_congr_left
    intro c _
    exact markAll_keySyms sep c
  · intro u hu
    simp only [List.mem_map] at hu
    obtain ⟨c, _, rfl⟩ := hu
    by_cases hc : c = '\\' <;> simp [hc]

/-- the tokens of `escape_path_section(t, sep)`: the special characters escaped, and a leading `/`
in dot notation -/
def secToks (sep : Char) : Str → List Tok
  | [] => []
  | c :: r => (special sep c || (c == '/' && sep != '/'), c) :: tokenize sep r

theorem tokChars_secToks (sep : Char) (t : Str) : tokChars (secToks sep t) = t := by
  cases t with
  | nil => rfl
  | cons c r =>
    have := tokChars_tokenize sep r
    simp only [tokChars] at this ⊢
    simp [secToks, this]

theorem secToks_ne {sep : Char} {t : Str} (h : t ≠ []) : secToks sep t ≠ [] := by
  cases t with
  | nil => exact absurd rfl h
  | cons c r => simp [secToks]

theorem escapePathSection_eq {sep : Char} (hsep : sep = '.' ∨ sep = '/') (t : Str)
    (h : noDbl t = true) : escapePathSection sep t = tokText (secToks sep t) := by
  unfold escapePathSection
  simp only [ensureEscaped_section hsep t h]
  cases t with
  | nil => simp [escText, secToks, tokText]
  | cons c r =>
    have e1 : escText sep (c :: r) = escChar sep c ++ escText sep r := by simp [escText]
    have e2 : tokText (secToks sep (c :: r)) =
        Tok.text (special sep c || (c == '/' && sep != '/'), c) ++ escText sep r := by
      simp [secToks, tokText, ← tokText_tokenize]
    rw [e1, e2]
    by_cases hs : special sep c = true
    · simp [escChar, hs, Tok.text]
    · have hs' : special sep c = false := by simpa using hs
      by_cases hc : c = '/'
      · subst hc
        rcases hsep with rfl | rfl
        · simp [escChar, Tok.text, special]
        · simp [special] at hs'
      · simp [escChar, hs', Tok.text, hc]

/-- every token of `secToks` that `tokenize` escapes stays escaped -/
theorem secToks_allBare {sep : Char} {stk : List Char} {t : Str}
    (h : allBare sep stk (tokenize sep t)) : allBare sep stk (secToks sep t) := by
  cases t with
  | nil => intro u hu; simp [secToks] at hu
  | cons c r =>
    intro u hu
    simp only [secToks, List.mem_cons] at hu
    rcases hu with rfl | hu
    · rcases h (special sep c, c) (by simp [tokenize]) with h1 | h1
      · left; simp only at h1; simp [h1]
      · right; exact h1
    · exact h u (by simp only [tokenize, List.map_cons, List.mem_cons]; right; exact hu)

/-! ## 2. Every hit carries the text of a walk to its address -/

/-- one step of a walk, as the search writes it -/
inductive PStep
  | key (k : Key)      -- a mapping entry or a set member, by its key text
  | idx (i : Nat)      -- a sequence element without anchor: `[i]`
  | anc (a : Str)      -- an anchored sequence element: `[&a]`
  | mref (name : Str)  -- a merge reference: separator, `[&name]`
  deriving DecidableEq, Repr

/-- the build path after one more step -/
def PStep.app (c : Ctx) (bp : Str) : PStep → Str
  | .key k => keyPath c (mapPrefix c bp) k
  | .idx i => itemPath c (seqPrefix c bp) i none
  | .anc a => itemPath c (seqPrefix c bp) 0 (some a)
  | .mref n => mrefPath c (mapPrefix c bp) n

def itemStep (i : Nat) : Option Str → PStep
  | none => .idx i
  | some a => .anc a

theorem itemStep_app (c : Ctx) (bp : Str) (i : Nat) (a : Option Str) :
    (itemStep i a).app c bp = itemPath c (seqPrefix c bp) i a := by
  cases a <;> rfl

/-- the path text of a walk that starts with build path `bp` -/
def pathText (c : Ctx) : Str → List PStep → Str
  | bp, [] => rootFix c bp
  | bp, s :: r => pathText c (s.app c bp) r

/-- `Walk n r ps`: the address `r` leads from node `n` along existing children, and `ps` is how the
search writes it -/
inductive Walk : SNode → SAddr → List PStep → Prop
  | nil (n : SNode) : Walk n [] []
  | idx {a : Option Str} {items : List SNode} {i : Nat} {e : SNode} {r : SAddr} {ps : List PStep} :
      items[i]? = some e → Walk e r ps → Walk (.seq a items) (.idx i :: r) (itemStep i e.anchor :: ps)
  | key {a : Option Str} {own merged : List (AKey × SNode)} {refs : List Str} {k : AKey} {v : SNode}
      {r : SAddr} {ps : List PStep} :
      (k, v) ∈ own ++ merged → Walk v r ps →
      Walk (.map a own merged refs) (.key k.key :: r) (.key k.key :: ps)
  | mref {a : Option Str} {own merged : List (AKey × SNode)} {refs : List Str} {j : Nat} {name : Str} :
      refs[j]? = some name → Walk (.map a own merged refs) [.mref j] [.mref name]
  | member {a : Option Str} {ms : List AKey} {k : AKey} :
      k ∈ ms → Walk (.set a ms) [.member k.key] [.key k.key]

/-- what is claimed of a hit found below node `n` reached with build path `bp` at address `ad` -/
def Good (c : Ctx) (n : SNode) (bp : Str) (ad : SAddr) (h : Hit) : Prop :=
  ∃ r ps, h.addr = ad ++ r ∧ Walk n r ps ∧ h.path = pathText c bp ps

/-- of a hit found at or below element `i'` of a sequence -/
def GoodItem (c : Ctx) (full : List SNode) (bp1 : Str) (ad : SAddr) (h : Hit) : Prop :=
  ∃ i' e r ps, full[i']? = some e ∧ h.addr = ad ++ (.idx i' :: r) ∧ Walk e r ps ∧
    h.path = pathText c (itemPath c bp1 i' e.anchor) ps

/-- of a hit found at or below an entry of a mapping -/
def GoodEntry (c : Ctx) (es : List (AKey × SNode)) (bp1 : Str) (ad : SAddr) (h : Hit) : Prop :=
  ∃ k v r ps, (k, v) ∈ es ∧ h.addr = ad ++ (.key k.key :: r) ∧ Walk v r ps ∧
    h.path = pathText c (keyPath c bp1 k.key) ps

theorem rootFix_of_ne (c : Ctx) {t : Str} (h : c.o.fslash = true → t ≠ []) : rootFix c t = t := by
  unfold rootFix
  split
  · rename_i hh; exact absurd hh.1 (h hh.2)
  · rfl

theorem itemPath_ne (c : Ctx) (bp1 : Str) (i : Nat) (a : Option Str) : itemPath c bp1 i a ≠ [] := by
  cases a <;> simp [itemPath]

theorem keyPath_ne (c : Ctx) {bp1 : Str} (h : bp1 ≠ []) (k : Key) : keyPath c bp1 k ≠ [] := by
  simp [keyPath, h]

theorem mapPrefix_ne (c : Ctx) (bp : Str) (hf : c.o.fslash = true) : mapPrefix c bp ≠ [] := by
  unfold mapPrefix
  split
  · simp
  · simp [hf]

theorem good_self_item (c : Ctx) {full : List SNode} {i : Nat} {e : SNode} (he : full[i]? = some e)
    (bp1 : Str) (ad : SAddr) :
    GoodItem c full bp1 ad ⟨itemPath c bp1 i e.anchor, ad ++ [.idx i]⟩ :=
  ⟨i, e, [], [], he, rfl, .nil e, by
    simp only [pathText]; exact (rootFix_of_ne c (fun _ => itemPath_ne c _ _ _)).symm⟩

theorem good_self_entry (c : Ctx) {es : List (AKey × SNode)} {k : AKey} {v : SNode} (he : (k, v) ∈ es)
    {bp1 : Str} (hb : c.o.fslash = true → bp1 ≠ []) (ad : SAddr) :
    GoodEntry c es bp1 ad ⟨keyPath c bp1 k.key, ad ++ [.key k.key]⟩ :=
  ⟨k, v, [], [], he, rfl, .nil v, by
    simp only [pathText]; exact (rootFix_of_ne c (fun hf => keyPath_ne c (hb hf) _)).symm⟩

theorem good_item_of (c : Ctx) {full : List SNode} {i : Nat} {e : SNode} (he : full[i]? = some e)
    (bp1 : Str) (ad : SAddr) {h : Hit} (hg : Good c e (itemPath c bp1 i e.anchor) (ad ++ [.idx i]) h) :
    GoodItem c full bp1 ad h := by
  obtain ⟨r, ps, h1, h2, h3⟩ := hg
  exact ⟨i, e, r, ps, he, by simp [h1], h2, h3⟩

theorem good_entry_of (c : Ctx) {es : List (AKey × SNode)} {k : AKey} {v : SNode} (he : (k, v) ∈ es)
    (bp1 : Str) (ad : SAddr) {h : Hit} (hg : Good c v (keyPath c bp1 k.key) (ad ++ [.key k.key]) h) :
    GoodEntry c es bp1 ad h := by
  obtain ⟨r, ps, h1, h2, h3⟩ := hg
  exact ⟨k, v, r, ps, he, by simp [h1], h2, h3⟩

theorem mem_valueHit {c : Ctx} {v : Scalar} {tmp : Str} {a' : SAddr} {h : Hit}
    (hh : h ∈ valueHit c v tmp a') : h = ⟨tmp, a'⟩ := by
  unfold valueHit at hh
  split at hh <;> simp_all

theorem getElem?_of_drop {α : Type} {full : List α} {i : Nat} {e : α} {r : List α}
    (h : full.drop i = e :: r) : full[i]? = some e ∧ full.drop (i + 1) = r := by
  have h1 : full[i]? = some e := by
    have := congrArg List.head? h
    simpa [List.head?_drop] using this
  refine ⟨h1, ?_⟩
  have := congrArg List.tail h
  simpa [List.tail_drop] using this

theorem good_members (c : Ctx) (bp1 : Str) (hb : c.o.fslash = true → bp1 ≠ []) (ad : SAddr)
    (a : Option Str) (full : List AKey) (P : List AKey → List Str → Out)
    (hP : ∀ ms seen, ∀ h ∈ (P ms seen).1, ∃ k ∈ ms, h = ⟨keyPath c bp1 k.key, ad ++ [.member k.key]⟩)
    (seen : List Str) (bp : Str) (hbp : bp1 = mapPrefix c bp) :
    ∀ h ∈ (P full seen).1, Good c (.set a full) bp ad h := by
  intro h hh
  obtain ⟨k, hk, rfl⟩ := hP full seen h hh
  refine ⟨[.member k.key], [.key k.key], rfl, .member hk, ?_⟩
  simp only [pathText, PStep.app, ← hbp]
  exact (rootFix_of_ne c (fun hf => keyPath_ne c (hb hf) _)).symm

theorem ycMembers_mem (c : Ctx) (bp1 : Str) (ad : SAddr) : ∀ (ms : List AKey) (seen : List Str),
    ∀ h ∈ (ycMembers c ms bp1 ad seen).1, ∃ k ∈ ms, h = ⟨keyPath c bp1 k.key, ad ++ [.member k.key]⟩
  | [], _, h, hh => by simp [ycMembers] at hh
  | k :: rest, seen, h, hh => by
    simp only [ycMembers, List.mem_append] at hh
    rcases hh with hh | hh
    · split at hh
      · simp at hh
      · simp only [List.mem_singleton] at hh
        exact ⟨k, by simp, hh⟩
    · obtain ⟨k', hk', e⟩ := ycMembers_mem c bp1 ad rest _ h hh
      exact ⟨k', by simp [hk'], e⟩

theorem sMembers_mem (c : Ctx) (bp1 : Str) (ad : SAddr) : ∀ (ms : List AKey) (seen : List Str),
    ∀ h ∈ (sMembers c ms bp1 ad seen).1, ∃ k ∈ ms, h = ⟨keyPath c bp1 k.key, ad ++ [.member k.key]⟩
  | [], _, h, hh => by simp [sMembers] at hh
  | k :: rest, seen, h, hh => by
    simp only [sMembers, List.mem_append] at hh
    rcases hh with hh | hh
    · split at hh
      · simp only [List.mem_singleton] at hh
        exact ⟨k, by simp, hh⟩
      · split at hh
        · simp only [List.mem_singleton] at hh
          exact ⟨k, by simp, hh⟩
        · simp at hh
    · obtain ⟨k', hk', e⟩ := sMembers_mem c bp1 ad rest _ h hh
      exact ⟨k', by simp [hk'], e⟩

theorem ymk_mem (c : Ctx) (bp1 : Str) (ad : SAddr) : ∀ (names : List Str) (j : Nat) (full : List Str),
    full.drop j = names →
    ∀ h ∈ ymk c names j bp1 ad, ∃ j' name, full[j']? = some name ∧
      h = ⟨mrefPath c bp1 name, ad ++ [.mref j']⟩
  | [], _, _, _, h, hh => by simp [ymk] at hh
  | name :: rest, j, full, hd, h, hh => by
    obtain ⟨h1, h2⟩ := getElem?_of_drop hd
    simp only [ymk, List.mem_append] at hh
    rcases hh with hh | hh
    · split at hh
      · simp only [List.mem_singleton] at hh
        exact ⟨j, name, h1, hh⟩
      · simp at hh
    · exact ymk_mem c bp1 ad rest (j + 1) full h2 h hh

theorem good_of_entry (c : Ctx) {a : Option Str} {own merged es : List (AKey × SNode)} {refs : List Str}
    {bp : Str} {ad : SAddr} {h : Hit} (hsub : ∀ x ∈ es, x ∈ own ++ merged)
    (hg : GoodEntry c es (mapPrefix c bp) ad h) : Good c (.map a own merged refs) bp ad h := by
  obtain ⟨k, v, r, ps, h1, h2, h3, h4⟩ := hg
  exact ⟨.key k.key :: r, .key k.key :: ps, h2, .key (hsub _ h1) h3, by
    simp only [pathText, PStep.app]; exact h4⟩

mutual
theorem yc_good (c : Ctx) : ∀ (n : SNode) (bp : Str) (ad : SAddr) (seen : List Str),
    ∀ h ∈ (ycNode c n bp ad seen).1, Good c n bp ad h
  | .scalar a v, bp, ad, seen, h, hh => by
    simp only [ycNode, List.mem_singleton] at hh
    subst hh
    exact ⟨[], [], by simp, .nil _, rfl⟩
  | .seq a items, bp, ad, seen, h, hh => by
    simp only [ycNode] at hh
    obtain ⟨i', e, r, ps, h1, h2, h3, h4⟩ := yc_items_good c items 0 (seqPrefix c bp) ad seen items rfl h hh
    exact ⟨.idx i' :: r, itemStep i' e.anchor :: ps, h2, .idx h1 h3, by
      simp only [pathText, itemStep_app]; exact h4⟩
  | .set a ms, bp, ad, seen, h, hh => by
    simp only [ycNode] at hh
    exact good_members c (mapPrefix c bp) (fun hf => mapPrefix_ne c bp hf) ad a ms
      (fun ms seen => ycMembers c ms (mapPrefix c bp) ad seen) (ycMembers_mem c _ ad) seen bp rfl h hh
  | .map a own merged refs, bp, ad, seen, h, hh => by
    simp only [ycNode] at hh
    split at hh
    · simp only [List.mem_append] at hh
      rcases hh with hh | hh
      · exact good_of_entry c (fun x hx => by simp [hx])
          (yc_entries_good c own (mapPrefix c bp) (fun hf => mapPrefix_ne c bp hf) ad _ h hh)
      · exact good_of_entry c (fun x hx => by simp [hx])
          (yc_entries_good c merged (mapPrefix c bp) (fun hf => mapPrefix_ne c bp hf) ad _ h hh)
    · exact good_of_entry c (fun x hx => by simp [hx])
        (yc_entries_good c own (mapPrefix c bp) (fun hf => mapPrefix_ne c bp hf) ad _ h hh)
theorem yc_items_good (c : Ctx) : ∀ (items : List SNode) (i : Nat) (bp1 : Str) (ad : SAddr)
    (seen : List Str) (full : List SNode), full.drop i = items →
    ∀ h ∈ (ycItems c items i bp1 ad seen).1, GoodItem c full bp1 ad h
  | [], _, _, _, _, _, _, h, hh => by simp [ycItems] at hh
  | e :: rest, i, bp1, ad, seen, full, hd, h, hh => by
    obtain ⟨he, hd'⟩ := getElem?_of_drop hd
    simp only [ycItems, List.mem_append] at hh
    rcases hh with hh | hh
    · split at hh
      · simp at hh
      · split at hh
        · exact good_item_of c he bp1 ad (yc_good c e _ _ _ h hh)
        · simp only [List.mem_singleton] at hh
          subst hh
          exact good_self_item c he bp1 ad
    · exact yc_items_good c rest (i + 1) bp1 ad _ full hd' h hh
theorem yc_entries_good (c : Ctx) : ∀ (es : List (AKey × SNode)) (bp1 : Str)
    (_ : c.o.fslash = true → bp1 ≠ []) (ad : SAddr) (seen : List Str),
    ∀ h ∈ (ycEntries c es bp1 ad seen).1, GoodEntry c es bp1 ad h
  | [], _, _, _, _, h, hh => by simp [ycEntries] at hh
  | (k, v) :: rest, bp1, hb, ad, seen, h, hh => by
    simp only [ycEntries, List.mem_append] at hh
    rcases hh with hh | hh
    · split at hh
      · simp at hh
      · split at hh
        · exact good_entry_of c (by simp) bp1 ad (yc_good c v _ _ _ h hh)
        · simp only [List.mem_singleton] at hh
          subst hh
          exact good_self_entry c (v := v) (by simp) hb ad
    · obtain ⟨k', v', r, ps, h1, h2⟩ := yc_entries_good c rest bp1 hb ad _ h hh
      exact ⟨k', v', r, ps, by simp [h1], h2⟩
end

theorem good_self (c : Ctx) (n : SNode) {tmp : Str} (ht : c.o.fslash = true → tmp ≠ []) (a' : SAddr) :
    Good c n tmp a' ⟨tmp, a'⟩ :=
  ⟨[], [], by simp, .nil n, by simp only [pathText]; exact (rootFix_of_ne c ht).symm⟩

theorem emit_good (c : Ctx) (n : SNode) {tmp : Str} (ht : c.o.fslash = true → tmp ≠ []) (a' : SAddr)
    (seen : List Str) : ∀ h ∈ (emit c n tmp a' seen).1, Good c n tmp a' h := by
  intro h hh
  unfold emit at hh
  split at hh
  · exact yc_good c n tmp a' seen h hh
  · simp only [List.mem_singleton] at hh
    subst hh
    exact good_self c n ht a'

theorem descend_good (c : Ctx) (n : SNode) {tmp : Str} (ht : c.o.fslash = true → tmp ≠ []) (a' : SAddr)
    (seen : List Str) (ih : ∀ h ∈ (sNode c n tmp a' seen).1, Good c n tmp a' h) :
    ∀ h ∈ (descend c n tmp a' seen).1, Good c n tmp a' h := by
  intro h hh
  cases n with
  | scalar a v =>
    simp only [descend] at hh
    rw [mem_valueHit hh]
    exact good_self c _ ht a'
  | seq a items => exact ih h (by simpa [descend] using hh)
  | map a o m r => exact ih h (by simpa [descend] using hh)
  | set a ms => exact ih h (by simpa [descend] using hh)

mutual
theorem s_good (c : Ctx) : ∀ (n : SNode) (bp : Str) (ad : SAddr) (seen : List Str),
    ∀ h ∈ (sNode c n bp ad seen).1, Good c n bp ad h
  | .scalar a v, bp, ad, seen, h, hh => by
    simp only [sNode] at hh
    split at hh
    · rw [mem_valueHit hh]
      exact ⟨[], [], by simp, .nil _, rfl⟩
    · simp at hh
  | .seq a items, bp, ad, seen, h, hh => by
    simp only [sNode] at hh
    obtain ⟨i', e, r, ps, h1, h2, h3, h4⟩ := s_items_good c items 0 (seqPrefix c bp) ad seen items rfl h hh
    exact ⟨.idx i' :: r, itemStep i' e.anchor :: ps, h2, .idx h1 h3, by
      simp only [pathText, itemStep_app]; exact h4⟩
  | .set a ms, bp, ad, seen, h, hh => by
    simp only [sNode] at hh
    exact good_members c (mapPrefix c bp) (fun hf => mapPrefix_ne c bp hf) ad a ms
      (fun ms seen => sMembers c ms (mapPrefix c bp) ad seen) (sMembers_mem c _ ad) seen bp rfl h hh
  | .map a own merged refs, bp, ad, seen, h, hh => by
    simp only [sNode, List.mem_append] at hh
    rcases hh with (hh | hh) | hh
    · exact good_of_entry c (fun x hx => by simp [hx])
        (s_entries_good c own (mapPrefix c bp) (fun hf => mapPrefix_ne c bp hf) ad _ h hh)
    · split at hh
      · exact good_of_entry c (fun x hx => by simp [hx])
          (s_entries_good c merged (mapPrefix c bp) (fun hf => mapPrefix_ne c bp hf) ad _ h hh)
      · simp at hh
    · split at hh
      · obtain ⟨j, name, h1, rfl⟩ := ymk_mem c (mapPrefix c bp) ad refs 0 refs rfl h hh
        exact ⟨[.mref j], [.mref name], rfl, .mref h1, by
          simp only [pathText, PStep.app]
          exact (rootFix_of_ne c (fun _ => by simp [mrefPath])).symm⟩
      · simp at hh
theorem s_items_good (c : Ctx) : ∀ (items : List SNode) (i : Nat) (bp1 : Str) (ad : SAddr)
    (seen : List Str) (full : List SNode), full.drop i = items →
    ∀ h ∈ (sItems c items i bp1 ad seen).1, GoodItem c full bp1 ad h
  | [], _, _, _, _, _, _, h, hh => by simp [sItems] at hh
  | e :: rest, i, bp1, ad, seen, full, hd, h, hh => by
    obtain ⟨he, hd'⟩ := getElem?_of_drop hd
    rw [sItems_cons] at hh
    simp only [List.mem_append] at hh
    rcases hh with hh | hh
    · apply good_item_of c he bp1 ad
      split at hh
      · simp at hh
      · split at hh
        · exact emit_good c e (fun _ => itemPath_ne c _ _ _) _ _ h hh
        · exact descend_good c e (fun _ => itemPath_ne c _ _ _) _ _ (s_good c e _ _ _) h hh
    · exact s_items_good c rest (i + 1) bp1 ad _ full hd' h hh
theorem s_entries_good (c : Ctx) : ∀ (es : List (AKey × SNode)) (bp1 : Str)
    (_ : c.o.fslash = true → bp1 ≠ []) (ad : SAddr) (seen : List Str),
    ∀ h ∈ (sEntries c es bp1 ad seen).1, GoodEntry c es bp1 ad h
  | [], _, _, _, _, h, hh => by simp [sEntries] at hh
  | (k, v) :: rest, bp1, hb, ad, seen, h, hh => by
    rw [sEntries_cons] at hh
    simp only [List.mem_append] at hh
    have ht : c.o.fslash = true → keyPath c bp1 k.key ≠ [] := fun hf => keyPath_ne c (hb hf) _
    rcases hh with hh | hh
    · apply good_entry_of c (k := k) (v := v) (by simp) bp1 ad
      split at hh
      · exact emit_good c v ht _ _ h hh
      · split at hh
        · simp at hh
        · split at hh
          · exact emit_good c v ht _ _ h hh
          · exact descend_good c v ht _ _ (s_good c v _ _ _) h hh
    · obtain ⟨k', v', r, ps, h1, h2⟩ := s_entries_good c rest bp1 hb ad _ h hh
      exact ⟨k', v', r, ps, by simp [h1], h2⟩
end

/-- **Every hit of the search carries the text of a walk from the root to its address.** -/
theorem hits_walk (c : Ctx) (d : SNode) (h : Hit) (hh : h ∈ search c d) :
    ∃ ps, Walk d h.addr ps ∧ h.path = pathText c [] ps := by
  obtain ⟨r, ps, h1, h2, h3⟩ := s_good c d [] [] [] h hh
  simp only [List.nil_append] at h1
  exact ⟨ps, h1 ▸ h2, h3⟩

end Ypv.Search.Rr
