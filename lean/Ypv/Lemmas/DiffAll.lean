import Ypv.Lemmas.DiffKey
/-!
# C06: `clean ⇔ data-equal` at DOCUMENT level for every array mode × every AoH mode

`idOk c l r` (Spec/Diff.lean) is threaded through the recursion of `_diff_between`; new against
`Lemmas/DiffKey.lean` (array mode `position` with AoH mode `key`):

* value-synchronised lists inside the identity-key modes (`--arrays value` with `--aoh key|deep`): a matched
  pair of `==`-equal elements is compared again; that comparison is clean because `==`-equal documents are
  equal as data (`dataEq_of_eqv_node`, the key-mode version of `clean_of_eqv_node`) and clean ⇔ data-equal
  holds for the pair by induction (`clean_valueK`);
* `--aoh deep`: `keysync_clean_iff` is the lockstep induction of `key_clean_iff_msEq` for an arbitrary
  pair relation `R` that implies `keyMatch` (for `deep`: `dataEq c`, by `keyMatch_of_dataEq` — identity
  values are scalars), the pair's diff in place of `scalarEntry`; `dataEqMs_eq_msEq` reads the recursive
  `dataEqMs` as the greedy `msEq (dataEq c)`.
-/
namespace Ypv.Diff.AllModes
open Ypv Ypv.Diff Ypv.Diff.Proofs Ypv.Diff.KeyDoc

/-! ## the greedy multiset comparison -/

theorem removeFirstNode_split' {f : Node → Bool} : ∀ {ys ys' : List Node}, removeFirstNode f ys = some ys' →
    ∃ pre y post, ys = pre ++ y :: post ∧ ys' = pre ++ post ∧ (∀ z ∈ pre, f z = false) ∧ f y = true := by
  intro ys
  induction ys with
  | nil => intro ys' h; simp [removeFirstNode] at h
  | cons z zs ih =>
    intro ys' h
    by_cases hz : f z = true
    · simp only [removeFirstNode, hz, if_true, Option.some.injEq] at h
      subst h
      exact ⟨[], z, zs, rfl, rfl, (fun _ h => by cases h), hz⟩
    · cases hr : removeFirstNode f zs with
      | none => simp [removeFirstNode, hz, hr] at h
      | some ws =>
        simp only [removeFirstNode, hz, hr, Bool.false_eq_true, if_false, Option.map_some, Option.some.injEq] at h
        subst h
        obtain ⟨pre, y, post, h1, h2, h3, h4⟩ := ih hr
        refine ⟨z :: pre, y, post, by simp [h1], by simp [h2], ?_, h4⟩
        intro u hu
        cases hu with
        | head => simpa using hz
        | tail _ hu' => exact h3 u hu'

theorem dataEqMs_eq_msEq (c : Cfg) : ∀ (xs ys : List Node),
    dataEqMs c xs ys = msEq (fun x y => dataEq c x y) xs ys
  | [], ys => by simp [dataEqMs, msEq]
  | x :: xs, ys => by
    simp only [dataEqMs, msEq]
    cases removeFirstNode (fun y => dataEq c x y) ys with
    | none => rfl
    | some ys' => exact dataEqMs_eq_msEq c xs ys'

theorem removeFirstNode_congr {f g : Node → Bool} : ∀ (ys : List Node), (∀ y ∈ ys, f y = g y) →
    removeFirstNode f ys = removeFirstNode g ys
  | [], _ => rfl
  | y :: ys, h => by
    simp only [removeFirstNode, h y (List.mem_cons_self ..),
      removeFirstNode_congr ys (fun z hz => h z (List.mem_cons_of_mem _ hz))]

theorem msEq_congr {R1 R2 : Node → Node → Bool} : ∀ (xs ys : List Node),
    (∀ x ∈ xs, ∀ y ∈ ys, R1 x y = R2 x y) → msEq R1 xs ys = msEq R2 xs ys
  | [], _, _ => rfl
  | x :: xs, ys, h => by
    simp only [msEq]
    rw [removeFirstNode_congr (f := R1 x) (g := R2 x) ys (fun y hy => h x (List.mem_cons_self ..) y hy)]
    cases hr : removeFirstNode (R2 x) ys with
    | none => rfl
    | some ys' =>
      obtain ⟨y, _, hp⟩ := removeFirstNode_some hr
      exact msEq_congr xs ys' (fun u hu v hv =>
        h u (List.mem_cons_of_mem _ hu) v (hp.symm.subset (List.mem_cons_of_mem _ hv)))

/-- a relation implied by `R1` that still implies "same identity value" finds the same partners when no
two right records share an identity value -/
theorem msEq_mono_unique (ka : Key) (R1 R2 : Node → Node → Bool) : ∀ (xs ys : List Node),
    (∀ x ∈ xs, wf x = true) → (∀ y ∈ ys, wf y = true) →
    (∀ x ∈ xs, ∀ y ∈ ys, R1 x y = true → R2 x y = true) →
    (∀ x ∈ xs, ∀ y ∈ ys, R2 x y = true → keyMatch ka x y = true) →
    ys.Pairwise (fun a b => keyMatch ka a b = false) →
    msEq R1 xs ys = true → msEq R2 xs ys = true
  | [], _, _, _, _, _, _, h => h
  | x :: xs, ys, hwx, hwy, h12, h2k, hpw, h => by
    simp only [msEq] at h ⊢
    cases hr : removeFirstNode (R1 x) ys with
    | none => rw [hr] at h; cases h
    | some ys' =>
      rw [hr] at h
      simp only at h
      obtain ⟨pre, y, post, rfl, rfl, hpre, hy⟩ := removeFirstNode_split' hr
      have hx := hwx x (List.mem_cons_self ..)
      have hym : y ∈ pre ++ y :: post := by simp
      have h2y := h12 x (List.mem_cons_self ..) y hym hy
      have hky := h2k x (List.mem_cons_self ..) y hym h2y
      have hpre2 : ∀ z ∈ pre, R2 x z = false := by
        intro z hz
        cases h2 : R2 x z with
        | false => rfl
        | true =>
          have hzm : z ∈ pre ++ y :: post := List.mem_append_left _ hz
          have hkz := h2k x (List.mem_cons_self ..) z hzm h2
          have hzy := keyMatch_common hx (hwy z hzm) (hwy y hym) hkz hky
          have := (List.pairwise_append.mp hpw).2.2 z hz y (List.mem_cons_self ..)
          rw [hzy] at this; cases this
      rw [removeFirstNode_split pre y post hpre2 h2y]
      have hsub : ∀ z ∈ pre ++ post, z ∈ pre ++ y :: post := by
        intro z hz
        rcases List.mem_append.mp hz with h' | h'
        · exact List.mem_append_left _ h'
        · exact List.mem_append_right _ (List.mem_cons_of_mem _ h')
      exact msEq_mono_unique ka R1 R2 xs (pre ++ post) (fun u hu => hwx u (List.mem_cons_of_mem _ hu))
        (fun z hz => hwy z (hsub z hz))
        (fun u hu v hv => h12 u (List.mem_cons_of_mem _ hu) v (hsub v hv))
        (fun u hu v hv => h2k u (List.mem_cons_of_mem _ hu) v (hsub v hv))
        (hpw.sublist (List.Sublist.append_left (List.sublist_cons_self _ _) _)) h

/-! ## the lockstep induction of the identity-key synchroniser, for any pair relation -/

/-- **One list level of `--aoh key` / `--aoh deep`**: if the pair relation `R` of the specification implies
"same identity value", the entries of an identity-matched pair are clean exactly when `R` holds of it, and
no two right records share an identity value, then the report of the synchronised lists is clean exactly
when the greedy multiset comparison under `R` succeeds. -/
theorem keysync_clean_iff (s : Bool) (c : Cfg) (q : Addr) (deep : Bool) (ka : Key) (R : Node → Node → Bool) :
    ∀ (xs : List Node) (i : Nat) (rem : List (Nat × Node)),
    (∀ x ∈ xs, wf x = true) → (∀ y ∈ rem, wf y.2 = true) →
    (∀ x ∈ xs, ∀ y ∈ rem, R x y.2 = true → keyMatch ka x y.2 = true) →
    (∀ x ∈ xs, ∀ y ∈ rem, keyMatch ka x y.2 = true → ∀ i : Nat,
      clean (if deep then diffBetween s c (q ++ [.idx y.1]) x y.2 else [scalarEntry (q ++ [.idx i]) x y.2]) = R x y.2) →
    (rem.map (fun p => p.2)).Pairwise (fun a b => keyMatch ka a b = false) →
    clean (diffKey s c q deep ka i xs rem) = msEq R xs (rem.map (fun p => p.2)) := by
  intro xs
  induction xs with
  | nil => intro i rem _ _ _ _ _; cases rem <;> simp [diffKey, msEq, mkAdd]
  | cons x xs ih =>
    intro i rem hwx hwr hR hE hpw
    have hx := hwx x (List.mem_cons_self ..)
    have hRx : ∀ p ∈ rem, keyMatch ka x p.2 = false → R x p.2 = false := by
      intro p hp hk
      cases he : R x p.2 with
      | false => rfl
      | true => rw [hR x (List.mem_cons_self ..) p hp he] at hk; cases hk
    simp only [diffKey, msEq]
    cases hrf : removeFirst (keyMatch ka x) rem with
    | none =>
      have hnone := removeFirst_none hrf
      rw [removeFirstNode_eq_none]
      · simp [mkDel]
      · intro z hz
        obtain ⟨p, hp, rfl⟩ := List.mem_map.mp hz
        exact hRx p hp (hnone p hp)
    | some r =>
      obtain ⟨y, rem'⟩ := r
      obtain ⟨pre, post, h1, h2, h3, h4⟩ := removeFirst_split hrf
      subst h1 h2
      have hym : y ∈ pre ++ y :: post := by simp
      have hwy : wf y.2 = true := hwr y hym
      simp only [List.map_append, List.map_cons] at hpw ⊢
      have hpost : ∀ z ∈ post, keyMatch ka x z.2 = false := by
        intro z hz
        cases hm : keyMatch ka x z.2 with
        | false => rfl
        | true =>
          have hyz := keyMatch_common hx hwy (hwr z (by simp [hz])) h4 hm
          have := (List.pairwise_append.mp hpw).2.1
          have := (List.pairwise_cons.mp this).1 z.2 (List.mem_map.mpr ⟨z, hz, rfl⟩)
          rw [hyz] at this; cases this
      have hsub : ∀ z ∈ pre ++ post, z ∈ pre ++ y :: post := by
        intro z hz
        rcases List.mem_append.mp hz with h | h
        · exact List.mem_append_left _ h
        · exact List.mem_append_right _ (List.mem_cons_of_mem _ h)
      have hpw' : ((pre ++ post).map (fun p => p.2)).Pairwise (fun a b => keyMatch ka a b = false) := by
        rw [List.map_append]
        exact hpw.sublist (List.Sublist.append_left (List.sublist_cons_self _ _) _)
      have hrec := ih (i + 1) (pre ++ post) (fun u hu => hwx u (List.mem_cons_of_mem _ hu))
        (fun z hz => hwr z (hsub z hz))
        (fun u hu v hv => hR u (List.mem_cons_of_mem _ hu) v (hsub v hv))
        (fun u hu v hv => hE u (List.mem_cons_of_mem _ hu) v (hsub v hv)) hpw'
      have hpre' : ∀ z ∈ pre.map (fun p => p.2), R x z = false := by
        intro z hz
        obtain ⟨p, hp, rfl⟩ := List.mem_map.mp hz
        exact hRx p (List.mem_append_left _ hp) (h3 p hp)
      rw [clean_append, hE x (List.mem_cons_self ..) y hym h4 i]
      cases hexy : R x y.2 with
      | true =>
        rw [removeFirstNode_split _ _ _ hpre' hexy, hrec, List.map_append]
        simp
      | false =>
        rw [removeFirstNode_eq_none]
        · simp
        · intro z hz
          rcases List.mem_append.mp hz with h | h
          · exact hpre' z h
          · cases h with
            | head => exact hexy
            | tail _ h' =>
              obtain ⟨p, hp, rfl⟩ := List.mem_map.mp h'
              exact hRx p (by simp [hp]) (hpost p hp)

/-! ## `idOk` handed down to the pairs -/

theorem idOkVal_mem {c : Cfg} : ∀ {xs ys : List Node}, idOkVal c xs ys = true →
    ∀ x ∈ xs, ∀ y ∈ ys, eqv y x = true → idOk c x y = true := by
  intro xs
  induction xs with
  | nil => intro _ _ x hx; cases hx
  | cons u us ih =>
    intro ys h x hx y hy he
    simp only [idOkVal, Bool.and_eq_true, List.all_eq_true] at h
    cases hx with
    | head => simpa [he] using h.1 y hy
    | tail _ hx' => exact ih h.2 x hx' y hy he

theorem idOkDeep_mem {c : Cfg} {ka : Key} : ∀ {xs ys : List Node}, idOkDeep c ka xs ys = true →
    ∀ x ∈ xs, ∀ y ∈ ys, keyMatch ka x y = true → idOk c x y = true := by
  intro xs
  induction xs with
  | nil => intro _ _ x hx; cases hx
  | cons u us ih =>
    intro ys h x hx y hy he
    simp only [idOkDeep, Bool.and_eq_true, List.all_eq_true] at h
    cases hx with
    | head => simpa [he] using h.1 y hy
    | tail _ hx' => exact ih h.2 x hx' y hy he

theorem hasIdentity_of_scalar {ka : Key} {x : Node} (h : hasScalarIdentity ka x = true) : hasIdentity ka x = true := by
  unfold hasScalarIdentity at h
  unfold hasIdentity
  cases hk : keyVal ka x with
  | none => rw [hk] at h; cases h
  | some v => rfl

theorem dataEqEntries_mem {c : Cfg} : ∀ {es fs : List (Key × Node)}, dataEqEntries c es fs = true →
    ∀ kv ∈ es, ∃ w, fs.lookup kv.1 = some w ∧ dataEq c kv.2 w = true := by
  intro es
  induction es with
  | nil => intro _ _ kv h; cases h
  | cons e es ih =>
    obtain ⟨k, v⟩ := e
    intro fs h kv hkv
    simp only [dataEqEntries, Bool.and_eq_true] at h
    cases hkv with
    | head =>
      cases hf : fs.lookup k with
      | none => rw [hf] at h; cases h.1
      | some w => rw [hf] at h; exact ⟨w, rfl, h.1⟩
    | tail _ hkv' => exact ih h.2 kv hkv'

/-- records that are equal as data carry equal identity values — when the identity value is a scalar
(a container identity value may be equal as data without being `==`: finding C06-K2's class) -/
theorem keyMatch_of_dataEq {c : Cfg} {ka : Key} {x y : Node} (hs : hasScalarIdentity ka x = true)
    (hd : dataEq c x y = true) : keyMatch ka x y = true := by
  cases x with
  | map a es =>
    cases y with
    | map b fs =>
      simp only [dataEq, Bool.and_eq_true] at hd
      simp only [hasScalarIdentity, keyVal] at hs
      cases hk : es.lookup ka with
      | none => rw [hk] at hs; cases hs
      | some v =>
        rw [hk] at hs
        cases v with
        | scalar a' sv =>
          obtain ⟨w, hw, hvw⟩ := dataEqEntries_mem hd.1 (ka, .scalar a' sv) (mem_of_lookup hk)
          simp only at hw hvw
          cases w with
          | scalar b' sw =>
            simp only [dataEq, beq_iff_eq] at hvw
            simp only [keyMatch, keyVal, hk, hw, eqv, beq_iff_eq]
            exact hvw.symm
          | seq _ _ => simp [dataEq] at hvw
          | map _ _ => simp [dataEq] at hvw
          | set _ _ => simp [dataEq] at hvw
        | seq _ _ => cases hs
        | map _ _ => cases hs
        | set _ _ => cases hs
    | scalar _ _ => simp [dataEq] at hd
    | seq _ _ => simp [dataEq] at hd
    | set _ _ => simp [dataEq] at hd
  | scalar _ _ => simp [hasScalarIdentity, keyVal] at hs
  | seq _ _ => simp [hasScalarIdentity, keyVal] at hs
  | set _ _ => simp [hasScalarIdentity, keyVal] at hs

theorem eqv_comm {x y : Node} (hx : wf x = true) (hy : wf y = true) : eqv x y = eqv y x := by
  cases h1 : eqv x y with
  | true => exact (eqv_symm x y hx hy h1).symm
  | false =>
    cases h2 : eqv y x with
    | false => rfl
    | true => rw [eqv_symm y x hy hx h2] at h1; cases h1

/-! ## documents equal under `==` are equal as data (every mode, under `idOk`) -/

def DataEqOfEqvAt (c : Cfg) (x : Node) : Prop :=
  ∀ y, wf x = true → wf y = true → eqv y x = true → idOk c x y = true → dataEq c x y = true

theorem dataEqPos_of_eqv (c : Cfg) : ∀ (xs ys : List Node), (∀ x ∈ xs, DataEqOfEqvAt c x) →
    (∀ x ∈ xs, wf x = true) → (∀ y ∈ ys, wf y = true) → eqvList ys xs = true → idOkPos c xs ys = true →
    dataEqPos c xs ys = true := by
  intro xs
  induction xs with
  | nil => intro ys _ _ _ h _; cases ys <;> simp_all [eqvList, dataEqPos]
  | cons x xs ih =>
    intro ys hih hwx hwy h hid
    cases ys with
    | nil => simp [eqvList] at h
    | cons y ys =>
      simp only [eqvList, Bool.and_eq_true] at h
      simp only [idOkPos, Bool.and_eq_true] at hid
      simp only [dataEqPos, Bool.and_eq_true]
      exact ⟨hih x (List.mem_cons_self ..) y (hwx x (List.mem_cons_self ..)) (hwy y (List.mem_cons_self ..)) h.1 hid.1,
        ih ys (fun u hu => hih u (List.mem_cons_of_mem _ hu)) (fun u hu => hwx u (List.mem_cons_of_mem _ hu))
          (fun u hu => hwy u (List.mem_cons_of_mem _ hu)) h.2 hid.2⟩

theorem dataEqEntries_of_eqv (c : Cfg) (fs : List (Key × Node)) : ∀ (es : List (Key × Node)),
    (∀ kv ∈ es, ∃ w, fs.lookup kv.1 = some w ∧ wf w = true ∧ eqv w kv.2 = true) →
    (∀ kv ∈ es, DataEqOfEqvAt c kv.2) → (∀ kv ∈ es, wf kv.2 = true) → idOkEntries c es fs = true →
    dataEqEntries c es fs = true := by
  intro es
  induction es with
  | nil => intro _ _ _ _; simp [dataEqEntries]
  | cons e es ih =>
    obtain ⟨k, v⟩ := e
    intro hl hih hw hid
    obtain ⟨w, hw1, hw2, hw3⟩ := hl (k, v) (List.mem_cons_self ..)
    simp only at hw1 hw3
    simp only [idOkEntries, hw1, Bool.and_eq_true] at hid
    simp only [dataEqEntries, hw1, Bool.and_eq_true]
    exact ⟨hih (k, v) (List.mem_cons_self ..) w (hw (k, v) (List.mem_cons_self ..)) hw2 hw3 hid.1,
      ih (fun kv h => hl kv (List.mem_cons_of_mem _ h)) (fun kv h => hih kv (List.mem_cons_of_mem _ h))
        (fun kv h => hw kv (List.mem_cons_of_mem _ h)) hid.2⟩

theorem dataEq_of_eqv_node (c : Cfg) : ∀ (x : Node), DataEqOfEqvAt c x := by
  intro x
  induction x using nodeInduct with
  | hscalar a v =>
    intro y hx hy h _
    cases y with
    | scalar b w =>
      simp only [eqv, beq_iff_eq] at h
      simp only [dataEq, beq_iff_eq]
      exact h.symm
    | seq b ys => simp [eqv] at h
    | map b fs => simp [eqv] at h
    | set b ns => simp [eqv] at h
  | hset a ms =>
    intro y hx hy h _
    cases y with
    | set b ns =>
      simp only [eqv, Bool.and_eq_true] at h
      simp only [dataEq, Bool.and_eq_true]
      exact ⟨h.2, h.1⟩
    | scalar b w => simp [eqv] at h
    | seq b ys => simp [eqv] at h
    | map b fs => simp [eqv] at h
  | hmap a es ih =>
    intro y hx hy h hid
    cases y with
    | map b fs =>
      obtain ⟨hd, hv⟩ := wf_map hx
      obtain ⟨hd', hv'⟩ := wf_map hy
      simp only [eqv, Bool.and_eq_true, List.all_eq_true] at h
      obtain ⟨h1, h2⟩ := h
      rw [eqvEntries_iff] at h1
      simp only [idOk] at hid
      simp only [dataEq, Bool.and_eq_true]
      constructor
      · refine dataEqEntries_of_eqv c fs es ?_ ih hv hid
        intro kv hkv
        obtain ⟨w, hkw⟩ := mem_of_hasKey' (h2 kv hkv)
        obtain ⟨v', hv1, hv2⟩ := h1 (kv.1, w) hkw
        have : v' = kv.2 := by
          have := lookup_of_mem hd kv hkv
          simp only at hv1
          rw [hv1] at this; exact Option.some.inj this
        subst this
        exact ⟨w, lookup_of_mem hd' (kv.1, w) hkw, hv' _ hkw, hv2⟩
      · rw [List.all_eq_true]
        intro kw hkw
        obtain ⟨v, hv1, _⟩ := h1 kw hkw
        exact hasKey_of_lookup hv1
    | scalar b w => simp [eqv] at h
    | seq b ys => simp [eqv] at h
    | set b ns => simp [eqv] at h
  | hseq a xs ih =>
    intro y hx hy h hid
    cases y with
    | seq b ys =>
      have hwx := wf_seq_mem hx
      have hwy := wf_seq_mem hy
      simp only [eqv] at h
      simp only [idOk] at hid
      simp only [dataEq]
      have hbal := (msEq_iff_balanced xs ys hwx hwy).mpr (balanced_of_eqvList xs ys hwx hwy h)
      cases hm : listMode c xs ys with
      | nothing => rfl
      | posShallow =>
        exact eqvList_symm ys xs (fun y _ r h1 h2 h3 => eqv_symm y r h1 h2 h3) hwy hwx h
      | posDeep =>
        rw [hm] at hid
        exact dataEqPos_of_eqv c xs ys ih hwx hwy h hid
      | value => exact hbal
      | key =>
        rw [msEq_congr (R2 := fun x y => eqv y x) xs ys (fun u hu v hv => eqv_comm (hwx u hu) (hwy v hv))]
        exact hbal
      | deep =>
        rw [hm] at hid
        simp only [Bool.and_eq_true, List.all_eq_true] at hid
        obtain ⟨⟨hsc, hcl⟩, hdp⟩ := hid
        show dataEqMs c xs ys = true
        rw [dataEqMs_eq_msEq]
        refine msEq_mono_unique (keyAttr ys) (fun x y => eqv y x) (fun x y => dataEq c x y) xs ys hwx hwy ?_ ?_
          (pairwise_of_noIdClash _ ys hcl) hbal
        · intro u hu v hv he
          exact ih u hu v (hwx u hu) (hwy v hv) he (idOkDeep_mem hdp u hu v hv
            (keyMatch_of_eqv (hwx u hu) (hwy v hv) (eqv_symm v u (hwy v hv) (hwx u hu) he)
              (hasIdentity_of_scalar (hsc u hu))))
        · intro u hu v _ hd
          exact keyMatch_of_dataEq (hsc u hu) hd
    | scalar b w => simp [eqv] at h
    | map b fs => simp [eqv] at h
    | set b ns => simp [eqv] at h

/-! ## clean ⇔ equal as data, every mode -/

/-- the value-synchronised loop inside any mode: a matched pair of `==`-equal elements is compared again
and that comparison is clean (`dataEq_of_eqv_node` + the induction hypothesis for the pair) -/
theorem clean_valueK (c : Cfg) (q : Addr) : ∀ (xs : List Node) (i : Nat) (rem : List (Nat × Node)),
    (∀ x ∈ xs, CleanIffAtK c x) → (∀ x ∈ xs, wf x = true) → (∀ y ∈ rem, wf y.2 = true) →
    (∀ x ∈ xs, ∀ y ∈ rem, eqv y.2 x = true → idOk c x y.2 = true) →
    (clean (diffValue true c q i xs rem).1 && (diffValue true c q i xs rem).2.isEmpty)
      = msEq (fun x y => eqv y x) xs (rem.map (fun p => p.2)) := by
  intro xs
  induction xs with
  | nil => intro i rem _ _ _ _; cases rem <;> simp [diffValue, msEq]
  | cons x xs ih =>
    intro i rem hih hwx hwr hid
    simp only [diffValue, msEq, removeFirstNode_map]
    cases hrf : removeFirst (fun y => eqv y x) rem with
    | none => simp [mkDel]
    | some r =>
      obtain ⟨y, rem'⟩ := r
      obtain ⟨hperm, hfy⟩ := removeFirst_perm hrf
      have hyr : y ∈ rem := hperm.symm.subset (List.mem_cons_self ..)
      have hsub : ∀ z ∈ rem', z ∈ rem := fun z hz => hperm.symm.subset (List.mem_cons_of_mem _ hz)
      have hx := hwx x (List.mem_cons_self ..)
      have hok := hid x (List.mem_cons_self ..) y hyr hfy
      simp only [Option.map_some, clean_append]
      rw [hih x (List.mem_cons_self ..) y.2 _ hx (hwr y hyr) hok,
        dataEq_of_eqv_node c x y.2 hx (hwr y hyr) hfy hok, Bool.true_and]
      exact ih (i + 1) rem' (fun u hu => hih u (List.mem_cons_of_mem _ hu))
        (fun u hu => hwx u (List.mem_cons_of_mem _ hu)) (fun z hz => hwr z (hsub z hz))
        (fun u hu v hv => hid u (List.mem_cons_of_mem _ hu) v (hsub v hv))

theorem clean_iff_all_node (c : Cfg) : ∀ (l : Node), CleanIffAtK c l := by
  intro l
  induction l using nodeInduct with
  | hscalar a v =>
    intro r q hl hr _
    cases r with
    | scalar b w =>
      simp only [diffBetween, dataEq, clean_cons, scalarEntry, eqv, clean_nil, Bool.and_true]
      exact ite_same _
    | seq b ys => simp only [diffBetween, dataEq]; exact purge_strict_not_clean ..
    | map b fs => simp only [diffBetween, dataEq]; exact purge_strict_not_clean ..
    | set b ns => simp only [diffBetween, dataEq]; exact purge_strict_not_clean ..
  | hset a ms =>
    intro r q hl hr _
    cases r with
    | set b ns => simp only [diffBetween, dataEq]; exact clean_set q ms ns
    | scalar b w => simp only [diffBetween, dataEq]; exact purge_strict_not_clean ..
    | seq b ys => simp only [diffBetween, dataEq]; exact purge_strict_not_clean ..
    | map b fs => simp only [diffBetween, dataEq]; exact purge_strict_not_clean ..
  | hmap a es ih =>
    intro r q hl hr hid
    cases r with
    | map b fs =>
      simp only [idOk] at hid
      simp only [diffBetween, dataEq, clean_append]
      rw [clean_dictK c q fs (wf_map hr).2 es ih (wf_map hl).2 hid, clean_adds]
    | scalar b w => simp only [diffBetween, dataEq]; exact purge_strict_not_clean ..
    | seq b ys => simp only [diffBetween, dataEq]; exact purge_strict_not_clean ..
    | set b ns => simp only [diffBetween, dataEq]; exact purge_strict_not_clean ..
  | hseq a xs ih =>
    intro r q hl hr hid
    cases r with
    | seq b ys =>
      have hwx := wf_seq_mem hl
      have hwy := wf_seq_mem hr
      have hwe : ∀ y ∈ enumFrom 0 ys, wf y.2 = true := fun y hy => hwy y.2 (mem_enumFrom hy)
      simp only [idOk] at hid
      simp only [diffBetween, dataEq]
      cases hm : listMode c xs ys with
      | nothing => rfl
      | posShallow => exact clean_shallow q xs ys 0
      | posDeep =>
        rw [hm] at hid
        exact clean_posK c q xs ys 0 ih hwx hwy hid
      | value =>
        rw [hm] at hid
        simp only [clean_mergeAdds]
        have := clean_valueK c q xs 0 (enumFrom 0 ys) ih hwx hwe
          (fun u hu v hv he => idOkVal_mem hid u hu v.2 (mem_enumFrom hv) he)
        rw [enumFrom_snd] at this
        exact this
      | key =>
        rw [hm] at hid
        simp only [Bool.and_eq_true, List.all_eq_true] at hid
        have := key_clean_iff_msEq true c q (keyAttr ys) xs 0 (enumFrom 0 ys) hwx hwe hid.1
          (by rw [enumFrom_snd]; exact pairwise_of_noIdClash _ ys hid.2)
        rw [enumFrom_snd] at this
        exact this
      | deep =>
        rw [hm] at hid
        simp only [Bool.and_eq_true, List.all_eq_true] at hid
        obtain ⟨⟨hsc, hcl⟩, hdp⟩ := hid
        have := keysync_clean_iff true c q true (keyAttr ys) (fun x y => dataEq c x y) xs 0 (enumFrom 0 ys) hwx hwe
          (fun u hu v _ hd => keyMatch_of_dataEq (hsc u hu) hd)
          (fun u hu v hv hk i => by
            simp only [↓reduceIte]
            exact ih u hu v.2 _ (hwx u hu) (hwe v hv) (idOkDeep_mem hdp u hu v.2 (mem_enumFrom hv) hk))
          (by rw [enumFrom_snd]; exact pairwise_of_noIdClash _ ys hcl)
        rw [enumFrom_snd] at this
        show _ = dataEqMs c xs ys
        rw [dataEqMs_eq_msEq]
        exact this
    | scalar b w => simp only [diffBetween, dataEq]; exact purge_strict_not_clean ..
    | map b fs => simp only [diffBetween, dataEq]; exact purge_strict_not_clean ..
    | set b ns => simp only [diffBetween, dataEq]; exact purge_strict_not_clean ..

/-- **clean ⇔ equal as data, every array mode × every AoH mode** (strict report) -/
theorem diff_clean_iff_dataEq_all_strict (c : Cfg) (l r : Node)
    (hl : wf l = true) (hr : wf r = true) (hid : idOk c l r = true) :
    clean (diff true c l r) = true ↔ dataEq c l r = true := by
  unfold diff
  rw [clean_iff_all_node c l r [] hl hr hid]

/-! ## `idOk` is no condition when no list is synchronised by identity key -/

theorem idOk_of_noKeySync (c : Cfg) (hc : NoKeySync c) : ∀ (l r : Node), idOk c l r = true := by
  intro l
  induction l using nodeInduct with
  | hscalar a v => intro r; cases r <;> simp [idOk]
  | hset a ms => intro r; cases r <;> simp [idOk]
  | hmap a es ih =>
    intro r
    cases r with
    | map b fs =>
      simp only [idOk]
      induction es with
      | nil => simp [idOkEntries]
      | cons e es ihe =>
        obtain ⟨k, v⟩ := e
        simp only [idOkEntries, Bool.and_eq_true]
        refine ⟨?_, ihe (fun kv hkv => ih kv (List.mem_cons_of_mem _ hkv))⟩
        cases fs.lookup k with
        | none => rfl
        | some w => exact ih (k, v) (List.mem_cons_self ..) w
    | scalar _ _ => simp [idOk]
    | seq _ _ => simp [idOk]
    | set _ _ => simp [idOk]
  | hseq a xs ih =>
    intro r
    cases r with
    | seq b ys =>
      simp only [idOk]
      rcases listMode_nokey hc xs ys with hm | hm | hm | hm
      · rw [hm]
      · rw [hm]
      · rw [hm]
        simp only
        clear hm
        induction xs generalizing ys with
        | nil => simp [idOkPos]
        | cons x xs ihx =>
          cases ys with
          | nil => simp [idOkPos]
          | cons y ys =>
            simp only [idOkPos, Bool.and_eq_true]
            exact ⟨ih x (List.mem_cons_self ..) y, ihx (fun u hu => ih u (List.mem_cons_of_mem _ hu)) ys⟩
      · rw [hm]
        simp only
        clear hm
        induction xs with
        | nil => simp [idOkVal]
        | cons x xs ihx =>
          simp only [idOkVal, Bool.and_eq_true, List.all_eq_true]
          exact ⟨fun y _ => by simp [ih x (List.mem_cons_self ..) y],
            ihx (fun u hu => ih u (List.mem_cons_of_mem _ hu))⟩
    | scalar _ _ => simp [idOk]
    | map _ _ => simp [idOk]
    | set _ _ => simp [idOk]

end Ypv.Diff.AllModes
