import Ypv.Model.Eval
import Ypv.Spec.Select
/-!
# Lemmas about generators and the evaluator (helpers of `Props/C01`, `C15`, `C02`)
-/
namespace Ypv
namespace Gen
variable {α β γ : Type}

@[simp] theorem nil_append (g : Gen α) : append nil g = g := by
  simp [append, nil]

@[simp] theorem append_nil (g : Gen α) : append g nil = g := by
  obtain ⟨l, e⟩ := g
  cases e <;> simp [append, nil]

theorem append_assoc (g h k : Gen α) : append (append g h) k = append g (append h k) := by
  obtain ⟨l, e⟩ := g
  obtain ⟨l2, e2⟩ := h
  cases e <;> cases e2 <;> simp [append]

@[simp] theorem fail_append (e : Err) (g : Gen α) : append (fail e) g = fail e := by
  simp [append, fail]

@[simp] theorem bindList_nil (f : α → Gen β) : bindList f [] = nil := rfl

@[simp] theorem bindList_cons (f : α → Gen β) (x : α) (xs : List α) :
    bindList f (x :: xs) = append (f x) (bindList f xs) := rfl

theorem bindList_append (f : α → Gen β) (l₁ l₂ : List α) :
    bindList f (l₁ ++ l₂) = append (bindList f l₁) (bindList f l₂) := by
  induction l₁ with
  | nil => simp
  | cons x xs ih => simp [ih, append_assoc]

theorem bind_def (g : Gen α) (f : α → Gen β) : bind g f = append (bindList f g.1) ([], g.2) := rfl

@[simp] theorem bind_nil (f : α → Gen β) : bind nil f = nil := by
  simp [bind_def, nil, append]

@[simp] theorem bind_fail (e : Err) (f : α → Gen β) : bind (fail e) f = fail e := by
  simp [bind_def, fail, append, nil]

@[simp] theorem bind_empty (e : Option Err) (f : α → Gen β) : bind (([], e) : Gen α) f = ([], e) := by
  simp [bind_def, append, nil]

@[simp] theorem bind_ofList (l : List α) (f : α → Gen β) : bind (ofList l) f = bindList f l := by
  have : (([], none) : Gen β) = nil := rfl
  simp [bind_def, ofList, this]

@[simp] theorem bind_one (x : α) (f : α → Gen β) : bind (one x) f = f x := by
  have : (([], none) : Gen β) = nil := rfl
  simp [bind_def, one, this]

theorem append_of_err {g : Gen α} {e : Err} (h : g.2 = some e) (k : Gen α) : append g k = g := by
  simp [append, h]

theorem append_err_snd (a : Gen α) (x : Err) : ∃ e, (append a ([], some x)).2 = some e := by
  obtain ⟨l, e⟩ := a
  cases e <;> simp [append]

theorem bind_append (g h : Gen α) (f : α → Gen β) :
    bind (append g h) f = append (bind g f) (bind h f) := by
  obtain ⟨l, e⟩ := g
  cases e with
  | none =>
    have h0 : (([], none) : Gen β) = nil := rfl
    have : append ((l, none) : Gen α) h = (l ++ h.1, h.2) := by simp [append]
    rw [this]
    simp only [bind_def, bindList_append, append_assoc, h0, append_nil]
  | some x =>
    rw [append_of_err (g := ((l, some x) : Gen α)) rfl]
    obtain ⟨e', he'⟩ := append_err_snd (bindList f l) x
    rw [append_of_err (g := bind ((l, some x) : Gen α) f) (by simpa [bind_def] using he')]

theorem bindList_bind (f : α → Gen β) (k : β → Gen γ) (l : List α) :
    bind (bindList f l) k = bindList (fun x => bind (f x) k) l := by
  induction l with
  | nil => simp
  | cons x xs ih => simp [bind_append, ih]

theorem bind_assoc (g : Gen α) (f : α → Gen β) (k : β → Gen γ) :
    bind (bind g f) k = bind g (fun x => bind (f x) k) := by
  obtain ⟨l, e⟩ := g
  have h1 : bind ((l, e) : Gen α) f = append (bindList f l) ([], e) := rfl
  have h2 : bind ((l, e) : Gen α) (fun x => bind (f x) k) = append (bindList (fun x => bind (f x) k) l) ([], e) := rfl
  rw [h1, h2, bind_append, bindList_bind, bind_empty]

theorem bindList_congr {f g : α → Gen β} (l : List α) (h : ∀ x, f x = g x) : bindList f l = bindList g l := by
  have : f = g := funext h
  rw [this]

theorem bind_congr {f g : α → Gen β} (a : Gen α) (h : ∀ x, f x = g x) : bind a f = bind a g := by
  have : f = g := funext h
  rw [this]

@[simp] theorem map_nil (f : α → β) : map f (nil : Gen α) = nil := rfl
@[simp] theorem map_fail (f : α → β) (e : Err) : map f (fail e : Gen α) = fail e := rfl
@[simp] theorem map_one (f : α → β) (x : α) : map f (one x) = one (f x) := rfl

theorem map_append (f : α → β) (g h : Gen α) : map f (append g h) = append (map f g) (map f h) := by
  obtain ⟨l, e⟩ := g
  cases e <;> simp [append, map]

theorem bind_map (f : α → β) (g : Gen α) (k : β → Gen γ) : bind (map f g) k = bind g (fun x => k (f x)) := by
  obtain ⟨l, e⟩ := g
  simp only [bind_def, map]
  congr 1
  induction l with
  | nil => rfl
  | cons x xs ih => simp [ih]

theorem map_bindList (f : β → γ) (k : α → Gen β) (l : List α) :
    map f (bindList k l) = bindList (fun x => map f (k x)) l := by
  induction l with
  | nil => rfl
  | cons x xs ih => simp [map_append, ih]

theorem bindList_congr_mem {f g : α → Gen β} (l : List α) (h : ∀ x ∈ l, f x = g x) :
    bindList f l = bindList g l := by
  induction l with
  | nil => rfl
  | cons x xs ih =>
    simp only [bindList_cons]
    rw [h x (by simp), ih (fun y hy => h y (by simp [hy]))]

theorem bind_congr_mem {f g : α → Gen β} (a : Gen α) (h : ∀ x ∈ a.1, f x = g x) : bind a f = bind a g := by
  simp only [bind_def]
  rw [bindList_congr_mem a.1 h]

theorem bindList_map (f : α → β) (k : β → Gen γ) (l : List α) :
    bindList k (l.map f) = bindList (fun x => k (f x)) l := by
  induction l with
  | nil => rfl
  | cons x xs ih => simp [ih]

@[simp] theorem bind_one_right (g : Gen α) : bind g one = g := by
  obtain ⟨l, e⟩ := g
  simp only [bind_def]
  have : bindList one l = ((l, none) : Gen α) := by
    induction l with
    | nil => rfl
    | cons x xs ih => simp [ih, append, one]
  rw [this]
  simp [append]

/-- A filter by probes followed by a continuation that re-runs the probe is the plain iteration. -/
theorem filterFirst_bind (p : α → Gen β) (k : α → Gen γ) (l : List α)
    (h : ∀ x e, p x = ([], e) → k x = ([], e)) :
    bind (filterFirst p l) k = bindList k l := by
  induction l with
  | nil => simp [filterFirst]
  | cons x xs ih =>
    simp only [filterFirst, bindList_cons]
    match hp : p x with
    | (y :: ys, e) => simp [bind_append, ih]
    | ([], some e) =>
      have := h x (some e) hp
      simp [this]
      rfl
    | ([], none) =>
      have := h x none hp
      simp only [ih, this]
      exact (nil_append _).symm

@[simp] theorem ifAny_fail (e : Err) (x : α) : ifAny (fail e : Gen β) x = fail e := rfl
@[simp] theorem ifAny_nil (x : α) : ifAny (nil : Gen β) x = nil := rfl

theorem ifAny_bind (g : Gen β) (x : α) (k : α → Gen γ) (h : ∀ e, g = ([], e) → k x = ([], e)) :
    bind (ifAny g x) k = k x := by
  match g, h with
  | (y :: ys, e), _ => simp [ifAny]
  | ([], some e), h => simp [ifAny, h (some e) rfl]; rfl
  | ([], none), h => simp [ifAny, h none rfl]; rfl

end Gen

namespace Eval
open Ypv.Spec Gen

mutual
theorem walk_eq (f : Node → Ctx → Gen NC) :
    (n : Node) → (c : Ctx) → walk f n c = Gen.bindList (fun x => f x.1 x.2) (preorder n c)
  | .scalar a v, c => by simp [walk, preorder]
  | .set a ms, c => by simp [walk, preorder]
  | .seq a items, c => by
      simp only [walk, preorder, bindList_cons]
      rw [walkSeq_eq f c items 0]
  | .map a es, c => by
      simp only [walk, preorder, bindList_cons]
      rw [walkMap_eq f c es]
theorem walkSeq_eq (f : Node → Ctx → Gen NC) (c : Ctx) :
    (items : List Node) → (i : Nat) →
      walk.walkSeq f c items i = Gen.bindList (fun x => f x.1 x.2) (preorder.preSeq c items i)
  | [], _ => rfl
  | n :: ns, i => by
      simp only [walk.walkSeq, preorder.preSeq, bindList_append]
      rw [walk_eq f n, walkSeq_eq f c ns]
theorem walkMap_eq (f : Node → Ctx → Gen NC) (c : Ctx) :
    (es : List (Key × Node)) →
      walk.walkMap f c es = Gen.bindList (fun x => f x.1 x.2) (preorder.preMap c es)
  | [] => rfl
  | (k, n) :: es => by
      simp only [walk.walkMap, preorder.preMap, bindList_append]
      rw [walk_eq f n, walkMap_eq f c es]
end

/-- The subtree's pre-order starts with the node itself. -/
theorem preorder_head (n : Node) (c : Ctx) : ∃ t, preorder n c = (n, c) :: t := by
  cases n <;> simp [preorder]

variable (mt : Matcher) (dsc : Desc) (rt : Node)

/-- A step segment does not look at the following segments. -/
theorem stepSeg_children (s : ESeg) (rest : List ESeg) (n : Node) (c : Ctx)
    (h1 : s ≠ .matchAll) (h2 : s ≠ .traverse) :
    stepSeg mt dsc rt s rest true n c = children mt dsc rt s n c := by
  cases s <;> simp_all [stepSeg, children]

/-- `traverse_lists=False` only switches off the two ways of entering a list. -/
theorem stepSeg_tl_false (s : ESeg) (rest : List ESeg) (n : Node) (c : Ctx) :
    stepSeg mt dsc rt s rest false n c
      = if direct s n then stepSeg mt dsc rt s rest true n c else Gen.nil := by
  cases s with
  | key k =>
    cases n with
    | seq a items =>
      cases hk : pyInt? k <;> simp [stepSeg, keyStep, direct, hk]
    | _ => simp [stepSeg, keyStep, direct]
  | search inv m attr term =>
    cases n <;> simp [stepSeg, searchStep, direct]
  | matchAll => cases rest <;> cases n <;> simp [stepSeg, direct]
  | traverse => cases rest <;> cases n <;> simp [stepSeg, direct]
  | _ => cases n <;> simp [stepSeg, direct]

end Eval

/-! ## No crash outcome is reachable (C15) -/

/-- The generator does not end in a Python exception outside the YAML Path family. -/
def Gen.NoCrash {α : Type} (g : Gen α) : Prop := ∀ e, g.2 = some e → e.isCrash = false

/-- The matcher raises only non-crash outcomes. -/
def MtSafe (mt : Matcher) : Prop := ∀ m n t e, mt m n t = .error e → e.isCrash = false

/-- The evaluation of attribute paths raises only non-crash outcomes. -/
def DscSafe (dsc : Desc) : Prop := ∀ a n c, (dsc a n c).NoCrash

namespace Gen
variable {α β γ : Type}

theorem noCrash_nil : (nil : Gen α).NoCrash := by intro e h; simp [nil] at h
theorem noCrash_one (x : α) : (one x).NoCrash := by intro e h; simp [one] at h
theorem noCrash_ofList (l : List α) : (ofList l).NoCrash := by intro e h; simp [ofList] at h
theorem noCrash_fail {e : Err} (h : e.isCrash = false) : (fail e : Gen α).NoCrash := by
  intro e' h'; simp [fail] at h'; subst h'; exact h

theorem noCrash_append {g h : Gen α} (hg : g.NoCrash) (hh : h.NoCrash) : (append g h).NoCrash := by
  obtain ⟨l, e⟩ := g
  cases e with
  | none => intro e he; simp [append] at he; exact hh e he
  | some x => simpa [append] using hg

theorem noCrash_bindList {f : α → Gen β} (l : List α) (h : ∀ x ∈ l, (f x).NoCrash) : (bindList f l).NoCrash := by
  induction l with
  | nil => exact noCrash_nil
  | cons x xs ih =>
    exact noCrash_append (h x (by simp)) (ih (fun y hy => h y (by simp [hy])))

theorem noCrash_bind {g : Gen α} {f : α → Gen β} (hg : g.NoCrash) (h : ∀ x, (f x).NoCrash) : (bind g f).NoCrash := by
  refine noCrash_append (noCrash_bindList _ (fun x _ => h x)) ?_
  intro e he
  exact hg e he

theorem noCrash_map {g : Gen α} (f : α → β) (hg : g.NoCrash) : (map f g).NoCrash := hg

theorem noCrash_filterFirst {p : α → Gen β} (l : List α) (h : ∀ x ∈ l, (p x).NoCrash) : (filterFirst p l).NoCrash := by
  induction l with
  | nil => exact noCrash_nil
  | cons x xs ih =>
    have ih' := ih (fun y hy => h y (by simp [hy]))
    simp only [filterFirst]
    match hp : p x with
    | (y :: ys, e) => exact noCrash_append (noCrash_one x) ih'
    | ([], some e) =>
      have := h x (by simp) e (by simp [hp])
      exact noCrash_fail this
    | ([], none) => exact ih'

theorem noCrash_ifAny {g : Gen β} (x : α) (hg : g.NoCrash) : (ifAny g x).NoCrash := by
  match g, hg with
  | (y :: ys, e), _ => exact noCrash_one x
  | ([], some e), hg => exact noCrash_fail (hg e rfl)
  | ([], none), _ => exact noCrash_nil

end Gen

namespace Eval
open Gen

/-- Behind the guard `-len(data) <= i < len(data)` Python's `data[i]` cannot raise. -/
theorem pyGetItem_inRange {α : Type} (l : List α) (i : Int) (h : inRange l.length i = true) :
    ∃ x, pyGetItem l i = .ok x := by
  simp only [inRange, Bool.and_eq_true, decide_eq_true_eq] at h
  unfold pyGetItem
  simp only []
  by_cases hi : i < 0
  · simp only [hi, if_true]
    have h1 : ¬ (i + (l.length : Int) < 0) := by omega
    simp only [h1, if_false]
    have h2 : (i + (l.length : Int)).toNat < l.length := by omega
    simp [List.getElem?_eq_getElem h2]
  · simp only [hi, if_false]
    have h2 : i.toNat < l.length := by omega
    simp [List.getElem?_eq_getElem h2]

theorem noCrash_elemAt (items : List Node) (i : Int) (c : Ctx) : (elemAt items i c).NoCrash := by
  unfold elemAt
  by_cases h : inRange items.length i = true
  · obtain ⟨x, hx⟩ := pyGetItem_inRange items i h
    simp only [h, if_true, hx]
    exact noCrash_one _
  · simp only [h]
    exact noCrash_nil

theorem noCrash_keyOnMap (k : Str) (es : List (Key × Node)) (c : Ctx) : (keyOnMap k es c).NoCrash := by
  unfold keyOnMap
  split
  · exact noCrash_one _
  · split
    · split
      · exact noCrash_one _
      · exact noCrash_nil
    · exact noCrash_nil

theorem noCrash_keyOnSet (k : Str) (ms : List Key) (c : Ctx) : (keyOnSet k ms c).NoCrash := by
  unfold keyOnSet
  split
  · exact noCrash_one _
  · exact noCrash_nil

mutual
theorem noCrash_keyStep (k : Str) (tl : Bool) : (n : Node) → (c : Ctx) → (keyStep k tl n c).NoCrash
  | .map _ es, c => by simp only [keyStep]; exact noCrash_keyOnMap k es c
  | .set _ ms, c => by simp only [keyStep]; exact noCrash_keyOnSet k ms c
  | .scalar .., c => by simp only [keyStep]; exact noCrash_nil
  | .seq _ items, c => by
      simp only [keyStep]
      split
      · exact noCrash_elemAt _ _ _
      · split
        · exact noCrash_passThrough k tl c items 0
        · exact noCrash_nil
theorem noCrash_passThrough (k : Str) (tl : Bool) (c : Ctx) :
    (items : List Node) → (i : Nat) → (keyStep.passThrough k tl c items i).NoCrash
  | [], _ => by simp only [keyStep.passThrough]; exact noCrash_nil
  | n :: ns, i => by
      simp only [keyStep.passThrough]
      exact noCrash_append (noCrash_keyStep k tl n _) (noCrash_passThrough k tl c ns (i + 1))
end

theorem noCrash_indexStep (i : Int) (n : Node) (c : Ctx) : (indexStep i n c).NoCrash := by
  cases n <;> simp only [indexStep]
  · exact noCrash_nil
  · exact noCrash_elemAt _ _ _
  · exact noCrash_nil
  · exact noCrash_fail rfl

theorem sliceStart_le (len : Nat) (i : Int) : sliceStart len i ≤ len := by
  unfold sliceStart
  split
  · split
    · omega
    · omega
  · split
    · omega
    · omega

theorem sliceIndices_lt (len : Nat) (lo hi : Int) : ∀ j ∈ sliceIndices len lo hi, j < len := by
  intro j hj
  simp only [sliceIndices, List.mem_map, List.mem_range] at hj
  obtain ⟨k, hk, rfl⟩ := hj
  have := sliceStart_le len hi
  omega

theorem sliceItems_ok (items : List Node) (c : Ctx) :
    ∀ (ixs : List Nat), (∀ j ∈ ixs, j < items.length) → ∃ l, sliceItems items c ixs = .ok l := by
  intro ixs
  induction ixs with
  | nil => intro _; exact ⟨[], rfl⟩
  | cons j js ih =>
    intro h
    obtain ⟨l, hl⟩ := ih (fun k hk => h k (by simp [hk]))
    have hj : j < items.length := h j (by simp)
    obtain ⟨x, hx⟩ := pyGetItem_inRange items (Int.ofNat j) (by
      simp only [inRange, Bool.and_eq_true, decide_eq_true_eq, Int.ofNat_eq_natCast]
      constructor <;> omega)
    refine ⟨(x, c.child (.idx j) (.idx (Int.ofNat j)) (idxSection (Int.ofNat j))) :: l, ?_⟩
    unfold sliceItems at hl ⊢
    rw [List.mapM_cons, hl, hx]
    rfl

theorem noCrash_sliceOnSeq (lo hi : Str) (items : List Node) (c : Ctx) : (sliceOnSeq lo hi items c).NoCrash := by
  unfold sliceOnSeq
  split
  · rename_i a b _ _
    split
    · rename_i h
      obtain ⟨x, hx⟩ := pyGetItem_inRange items a h.2
      simp only [hx]
      exact noCrash_one _
    · obtain ⟨l, hl⟩ := sliceItems_ok items c _ (sliceIndices_lt items.length a b)
      simp only [hl]
      exact noCrash_one _
  · exact noCrash_fail rfl

theorem noCrash_sliceOnMap (lo hi : Str) (c : Ctx) : (es : List (Key × Node)) → (sliceOnMap lo hi c es).NoCrash
  | [] => noCrash_nil
  | (k, v) :: es => by
    simp only [sliceOnMap, pyKeyBetween]
    split
    · exact noCrash_append (noCrash_one _) (noCrash_sliceOnMap lo hi c es)
    · exact noCrash_sliceOnMap lo hi c es
    · rename_i h; simp at h

theorem noCrash_sliceOnSet (lo hi : Str) (c : Ctx) : (ms : List Key) → (sliceOnSet lo hi c ms).NoCrash
  | [] => noCrash_nil
  | k :: ks => by
    simp only [sliceOnSet, pyKeyBetween]
    split
    · exact noCrash_append (noCrash_one _) (noCrash_sliceOnSet lo hi c ks)
    · exact noCrash_sliceOnSet lo hi c ks
    · rename_i h; simp at h

theorem noCrash_sliceStep (lo hi : Str) (n : Node) (c : Ctx) : (sliceStep lo hi n c).NoCrash := by
  cases n <;> simp only [sliceStep]
  · exact noCrash_nil
  · exact noCrash_sliceOnSeq _ _ _ _
  · exact noCrash_map _ (noCrash_sliceOnMap _ _ _ _)
  · exact noCrash_map _ (noCrash_sliceOnSet _ _ _ _)

theorem noCrash_anchorStep (a : Str) (n : Node) (c : Ctx) : (anchorStep a n c).NoCrash :=
  noCrash_ofList _

variable {mt : Matcher} {dsc : Desc} {rt : Node}

theorem noCrash_yieldIf (hmt : MtSafe mt) (inv : Bool) (m : Method) (n : Node) (t : Str) (x : NC) :
    (yieldIf inv (mt m n t) x).NoCrash := by
  unfold yieldIf
  split
  · split
    · exact noCrash_one _
    · exact noCrash_nil
  · rename_i e he
    exact noCrash_fail (hmt _ _ _ _ he)

/-- An outcome that is a value or a non-crash error. -/
def SafeR (r : Except Err Bool) : Prop := ∀ e, r = .error e → e.isCrash = false

theorem noCrash_yieldIf' (inv : Bool) (r : Except Err Bool) (x : NC) (h : SafeR r) : (yieldIf inv r x).NoCrash := by
  unfold yieldIf
  split
  · split
    · exact noCrash_one _
    · exact noCrash_nil
  · rename_i e
    exact noCrash_fail (h e rfl)

theorem safe_descFirst (hmt : MtSafe mt) (m : Method) (t : Str) (g : Gen Res) (hg : g.NoCrash) :
    SafeR (descFirst mt m t g) := by
  intro e he
  unfold descFirst at he
  split at he
  · exact hmt _ _ _ _ he
  · cases he; rfl
  · rename_i e'
    cases he
    exact hg _ rfl
  · cases he

/-- In an Array-of-Hashes (nulls accepted) every element is a dict or null. -/
def AohOk (aoh : Bool) (l : List NC) : Prop :=
  aoh = true → ∀ x ∈ l, x.1.evIsNull = true ∨ ∃ a es, x.1 = .map a es

theorem aohOk_seqKids (c : Ctx) : ∀ (items : List Node) (i : Nat), AohOk (ev_isAoh items) (seqKidsFrom c items i) := by
  intro items
  induction items with
  | nil => intro i _ x hx; simp [seqKidsFrom] at hx
  | cons n ns ih =>
    intro i h x hx
    simp only [ev_isAoh, List.all_cons, Bool.and_eq_true] at h
    simp only [seqKidsFrom, List.mem_cons] at hx
    cases hx with
    | inl hx =>
      subst hx
      cases n with
      | map a es => exact Or.inr ⟨a, es, rfl⟩
      | scalar a v => cases v <;> simp_all [Node.evIsNull]
      | seq => simp at h
      | set => simp at h
    | inr hx => exact ih (i + 1) (by simpa [ev_isAoh] using h.2) x hx

theorem safe_searchElem (hmt : MtSafe mt) (hd : DscSafe dsc) (m : Method) (attr term : Str) (aoh : Bool) (x : NC)
    (hx : aoh = true → x.1.evIsNull = true ∨ ∃ a es, x.1 = .map a es) :
    SafeR (searchElem mt dsc m attr term aoh x) := by
  intro e he
  unfold searchElem at he
  split at he
  · split at he
    · rename_i hcond
      simp only [Bool.and_eq_true, Bool.not_eq_true'] at hcond
      cases hx hcond.1 with
      | inl hn => simp [hn] at hcond
      | inr hm =>
        obtain ⟨a, es, hxe⟩ := hm
        rw [hxe] at he
        simp only [pyIn] at he
        split at he
        · cases he
        · exact hmt _ _ _ _ he
        · rename_i h; cases h
    · exact hmt _ _ _ _ he
  · split at he
    · split at he
      · exact hmt _ _ _ _ he
      · exact safe_descFirst hmt m term _ (hd _ _ _) e he
    · exact safe_descFirst hmt m term _ (hd _ _ _) e he

theorem noCrash_searchList (hmt : MtSafe mt) (hd : DscSafe dsc) (inv : Bool) (m : Method) (attr term : Str) (aoh : Bool) :
    ∀ (l : List NC), AohOk aoh l → (searchList mt dsc inv m attr term aoh l).NoCrash := by
  intro l
  induction l with
  | nil => intro _; exact noCrash_nil
  | cons x xs ih =>
    intro h
    simp only [searchList]
    refine noCrash_append (noCrash_yieldIf' _ _ _ (safe_searchElem hmt hd m attr term aoh x (fun ha => h ha x (by simp)))) ?_
    exact ih (fun ha y hy => h ha y (by simp [hy]))

theorem noCrash_searchNames (hmt : MtSafe mt) (inv : Bool) (m : Method) (term : Str) :
    ∀ (l : List (Key × NC)), (searchNames mt inv m term l).NoCrash := by
  intro l
  induction l with
  | nil => exact noCrash_nil
  | cons x xs ih =>
    obtain ⟨k, y⟩ := x
    simp only [searchNames]
    exact noCrash_append (noCrash_yieldIf hmt _ _ _ _ _) ih

theorem safe_descAny (hmt : MtSafe mt) (inv : Bool) (m : Method) (term : Str) :
    ∀ (l : List Res) (e : Option Err) (seen : Bool), (∀ x, e = some x → x.isCrash = false) →
      SafeR (descAny mt inv m term l e seen) := by
  intro l
  induction l with
  | nil =>
    intro e seen he x hx
    cases e with
    | none => simp [descAny] at hx
    | some y => simp only [descAny] at hx; cases hx; exact he _ rfl
  | cons r rs ih =>
    intro e seen he x hx
    cases r with
    | virt items => simp only [descAny] at hx; cases hx; rfl
    | real nc =>
      obtain ⟨n, c⟩ := nc
      simp only [descAny] at hx
      split at hx
      · split at hx
        · cases hx
        · exact ih e true he x hx
      · rename_i e' he'
        cases hx
        exact hmt _ _ _ _ he'

theorem noCrash_searchMap (hmt : MtSafe mt) (hd : DscSafe dsc) (inv : Bool) (m : Method) (attr term : Str)
    (a : Option Str) (es : List (Key × Node)) (c : Ctx) : (searchMap mt dsc inv m attr term a es c).NoCrash := by
  unfold searchMap
  split
  · exact noCrash_searchNames hmt _ _ _ _
  · split
    · exact noCrash_yieldIf hmt _ _ _ _ _
    · simp only []
      have := safe_descAny hmt inv m term (dsc attr (.map a es) c).1 (dsc attr (.map a es) c).2 false (hd _ _ _)
      split
      · exact noCrash_one _
      · exact noCrash_nil
      · rename_i e he
        exact noCrash_fail (this e he)

theorem noCrash_searchStep (hmt : MtSafe mt) (hd : DscSafe dsc) (inv : Bool) (m : Method) (attr term : Str) (tl : Bool)
    (n : Node) (c : Ctx) : (searchStep mt dsc inv m attr term tl n c).NoCrash := by
  cases n with
  | scalar a v => simp only [searchStep]; exact noCrash_yieldIf hmt _ _ _ _ _
  | seq a items =>
    simp only [searchStep]
    split
    · exact noCrash_searchList hmt hd _ _ _ _ _ _ (aohOk_seqKids c items 0)
    · exact noCrash_nil
  | map a es => simp only [searchStep]; exact noCrash_searchMap hmt hd _ _ _ _ _ _ _
  | set a ms => simp only [searchStep]; exact noCrash_searchNames hmt _ _ _ _

theorem noCrash_leafAt (n : Node) (c : Ctx) : (leafAt n c).NoCrash := by
  cases n <;> simp only [leafAt]
  · exact noCrash_one _
  · exact noCrash_nil
  · exact noCrash_nil
  · exact noCrash_ofList _

theorem noCrash_walk {f : Node → Ctx → Gen NC} (hf : ∀ n c, (f n c).NoCrash) (n : Node) (c : Ctx) :
    (walk f n c).NoCrash := by
  rw [walk_eq]
  exact noCrash_bindList _ (fun x _ => hf x.1 x.2)

/-- The keyword segment `s` (if it is one) never ends in a crash outcome, at any node. -/
def KwOk (rt : Node) (s : ESeg) : Prop :=
  ∀ inv k p, s = .keyword inv k p → ∀ n c, (kwStep rt inv k p n c).NoCrash

/-- Every handler of the dispatcher ends without a crash outcome. -/
theorem noCrash_stepSeg (hmt : MtSafe mt) (hd : DscSafe dsc) :
    ∀ (rest : List ESeg) (s : ESeg) (tl : Bool) (n : Node) (c : Ctx), KwOk rt s → (∀ s' ∈ rest, KwOk rt s') →
      (stepSeg mt dsc rt s rest tl n c).NoCrash := by
  intro rest
  induction rest with
  | nil =>
    intro s tl n c hk _
    cases s <;> simp only [stepSeg]
    · exact noCrash_map _ (noCrash_keyStep _ _ _ _)
    · exact noCrash_map _ (noCrash_indexStep _ _ _)
    · exact noCrash_sliceStep _ _ _ _
    · exact noCrash_map _ (noCrash_anchorStep _ _ _)
    · exact noCrash_map _ (noCrash_searchStep hmt hd _ _ _ _ _ _ _)
    · exact noCrash_ofList _
    · exact noCrash_map _ (noCrash_walk noCrash_leafAt _ _)
    · exact noCrash_map _ (hk _ _ _ rfl _ _)
    · exact noCrash_fail rfl
    · exact noCrash_fail rfl
  | cons nxt rest' ih =>
    intro s tl n c hk hr
    have hn : KwOk rt nxt := hr nxt (by simp)
    have hr' : ∀ s' ∈ rest', KwOk rt s' := fun s' hs' => hr s' (by simp [hs'])
    cases s <;> simp only [stepSeg]
    · exact noCrash_map _ (noCrash_keyStep _ _ _ _)
    · exact noCrash_map _ (noCrash_indexStep _ _ _)
    · exact noCrash_sliceStep _ _ _ _
    · exact noCrash_map _ (noCrash_anchorStep _ _ _)
    · exact noCrash_map _ (noCrash_searchStep hmt hd _ _ _ _ _ _ _)
    · exact noCrash_map _ (noCrash_filterFirst _ (fun x _ => ih nxt true x.1 x.2 hn hr'))
    · refine noCrash_map _ (noCrash_walk (fun m cm => noCrash_ifAny _ ?_) _ _)
      unfold recursionGuard
      split
      · exact noCrash_fail rfl
      · exact ih nxt false m cm hn hr'
    · exact noCrash_map _ (hk _ _ _ rfl _ _)
    · exact noCrash_fail rfl
    · exact noCrash_fail rfl

theorem noCrash_stepVirt (seg : ESeg) (items : List NC) : (stepVirt seg items).NoCrash := by
  unfold stepVirt
  split
  · split
    · exact noCrash_map _ (noCrash_bindList _ (fun x _ => noCrash_keyStep _ _ _ _))
    · exact noCrash_fail rfl
  · exact noCrash_fail rfl

theorem noCrash_stepRes (hmt : MtSafe mt) (hd : DscSafe dsc) (s : ESeg) (rest : List ESeg) (r : Res)
    (hk : ∀ s' ∈ s :: rest, KwOk rt s') : (stepRes mt dsc rt s rest r).NoCrash := by
  cases r with
  | real nc => exact noCrash_stepSeg hmt hd rest s true nc.1 nc.2 (hk s (by simp)) (fun s' hs' => hk s' (by simp [hs']))
  | virt items => exact noCrash_stepVirt s items

theorem noCrash_required (hmt : MtSafe mt) (hd : DscSafe dsc) :
    ∀ (segs : List ESeg), (∀ s ∈ segs, KwOk rt s) → ∀ (r : Res), (required mt dsc rt segs r).NoCrash := by
  intro segs
  induction segs with
  | nil => intro _ r; exact noCrash_one r
  | cons s rest ih =>
    intro hk r
    exact noCrash_bind (noCrash_stepRes hmt hd s rest r hk) (ih (fun s' hs' => hk s' (by simp [hs'])))

theorem noCrash_optional (hmt : MtSafe mt) (hd : DscSafe dsc) :
    ∀ (segs : List ESeg), (∀ s ∈ segs, KwOk rt s) → ∀ (r : Res), (Eval.optional mt dsc rt segs r).NoCrash := by
  intro segs
  induction segs with
  | nil => intro _ r; exact noCrash_one r
  | cons s rest ih =>
    intro hk r
    simp only [Eval.optional]
    refine noCrash_append (noCrash_bind (noCrash_stepRes hmt hd s rest r hk) (fun x => ?_)) ?_
    · split
      · exact noCrash_one _
      · exact ih (fun s' hs' => hk s' (by simp [hs'])) x
    · split
      · exact noCrash_fail rfl
      · exact noCrash_nil

end Eval

theorem dscSafe_none : DscSafe Desc.none := fun _ _ _ => Gen.noCrash_fail rfl

theorem dscSafe_ofParser {mt : Matcher} {rt : Node} (hmt : MtSafe mt) (pa : Str → Except Err (List ESeg))
    (hpa : ∀ a e, pa a = .error e → e.isCrash = false)
    (hk : ∀ a segs, pa a = .ok segs → ∀ s ∈ segs, Eval.KwOk rt s) : DscSafe (Desc.ofParser mt rt pa) := by
  intro a n c
  unfold Desc.ofParser
  split
  · rename_i segs hs
    exact Eval.noCrash_required hmt dscSafe_none _ (hk a segs hs) _
  · rename_i e he
    exact Gen.noCrash_fail (hpa a e he)

end Ypv
