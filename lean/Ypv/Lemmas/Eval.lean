import Ypv.Model.Eval
import Ypv.Spec.Select
/-!
# Lemmas about generators and the evaluator (helpers of `Props/C01`, `C15`, `C02`)
-/
namespace Ypv
namespace Gen
variable {α β γ : Type}

@[simp] theorem nil_append (g : Gen α) : append nil g = g := by
  simp [append, nil]

@[simp] theorem append_nil (g : Gen α) : append g nil = g := by
  obtain ⟨l, e⟩ := g
  cases e <;> simp [append, nil]

theorem append_assoc (g h k : Gen α) : append (append g h) k = append g (append h k) := by
  obtain ⟨l, e⟩ := g
  obtain ⟨l2, e2⟩ := h
  cases e <;> cases e2 <;> simp [append]

@[simp] theorem fail_append (e : Err) (g : Gen α) : append (fail e) g = fail e := by
  simp [append, fail]

@[simp] theorem bindList_nil (f : α → Gen β) : bindList f [] = nil := rfl

@[simp] theorem bindList_cons (f : α → Gen β) (x : α) (xs : List α) :
    bindList f (x :: xs) = append (f x) (bindList f xs) := rfl

theorem bindList_append (f : α → Gen β) (l₁ l₂ : List α) :
    bindList f (l₁ ++ l₂) = append (bindList f l₁) (bindList f l₂) := by
  induction l₁ with
  | nil => simp
  | cons x xs ih => simp [ih, append_assoc]

theorem bind_def (g : Gen α) (f : α → Gen β) : bind g f = append (bindList f g.1) ([], g.2) := rfl

@[simp] theorem bind_nil (f : α → Gen β) : bind nil f = nil := by
  simp [bind_def, nil, append]

@[simp] theorem bind_fail (e : Err) (f : α → Gen β) : bind (fail e) f = fail e := by
  simp [bind_def, fail, append, nil]

@[simp] theorem bind_empty (e : Option Err) (f : α → Gen β) : bind (([], e) : Gen α) f = ([], e) := by
  simp [bind_def, append, nil]

@[simp] theorem bind_ofList (l : List α) (f : α → Gen β) : bind (ofList l) f = bindList f l := by
  have : (([], none) : Gen β) = nil := rfl
  simp [bind_def, ofList, this]

@[simp] theorem bind_one (x : α) (f : α → Gen β) : bind (one x) f = f x := by
  have : (([], none) : Gen β) = nil := rfl
  simp [bind_def, one, this]

theorem append_of_err {g : Gen α} {e : Err} (h : g.2 = some e) (k : Gen α) : append g k = g := by
  simp [append, h]

theorem append_err_snd (a : Gen α) (x : Err) : ∃ e, (append a ([], some x)).2 = some e := by
  obtain ⟨l, e⟩ := a
  cases e <;> simp [append]

theorem bind_append (g h : Gen α) (f : α → Gen β) :
    bind (append g h) f = append (bind g f) (bind h f) := by
  obtain ⟨l, e⟩ := g
  cases e with
  | none =>
    have h0 : (([], none) : Gen β) = nil := rfl
    have : append ((l, none) : Gen α) h = (l ++ h.1, h.2) := by simp [append]
    rw [this]
    simp only [bind_def, bindList_append, append_assoc, h0, append_nil]
  | some x =>
    rw [append_of_err (g := ((l, some x) : Gen α)) rfl]
    obtain ⟨e', he'⟩ := append_err_snd (bindList f l) x
    rw [append_of_err (g := bind ((l, some x) : Gen α) f) (by simpa [bind_def] using he')]

theorem bindList_bind (f : α → Gen β) (k : β → Gen γ) (l : List α) :
    bind (bindList f l) k = bindList (fun x => bind (f x) k) l := by
  induction l with
  | nil => simp
  | cons x xs ih => simp [bind_append, ih]

theorem bind_assoc (g : Gen α) (f : α → Gen β) (k : β → Gen γ) :
    bind (bind g f) k = bind g (fun x => bind (f x) k) := by
  obtain ⟨l, e⟩ := g
  have h1 : bind ((l, e) : Gen α) f = append (bindList f l) ([], e) := rfl
  have h2 : bind ((l, e) : Gen α) (fun x => bind (f x) k) = append (bindList (fun x => bind (f x) k) l) ([], e) := rfl
  rw [h1, h2, bind_append, bindList_bind, bind_empty]

theorem bindList_congr {f g : α → Gen β} (l : List α) (h : ∀ x, f x = g x) : bindList f l = bindList g l := by
  have : f = g := funext h
  rw [this]

theorem bind_congr {f g : α → Gen β} (a : Gen α) (h : ∀ x, f x = g x) : bind a f = bind a g := by
  have : f = g := funext h
  rw [this]

@[simp] theorem map_nil (f : α → β) : map f (nil : Gen α) = nil := rfl
@[simp] theorem map_fail (f : α → β) (e : Err) : map f (fail e : Gen α) = fail e := rfl
@[simp] theorem map_one (f : α → β) (x : α) : map f (one x) = one (f x) := rfl

theorem map_append (f : α → β) (g h : Gen α) : map f (append g h) = append (map f g) (map f h) := by
  obtain ⟨l, e⟩ := g
  cases e <;> simp [append, map]

theorem bind_map (f : α → β) (g : Gen α) (k : β → Gen γ) : bind (map f g) k = bind g (fun x => k (f x)) := by
  obtain ⟨l, e⟩ := g
  simp only [bind_def, map]
  congr 1
  induction l with
  | nil => rfl
  | cons x xs ih => simp [ih]

theorem map_bindList (f : β → γ) (k : α → Gen β) (l : List α) :
    map f (bindList k l) = bindList (fun x => map f (k x)) l := by
  induction l with
  | nil => rfl
  | cons x xs ih => simp [map_append, ih]

theorem bindList_congr_mem {f g : α → Gen β} (l : List α) (h : ∀ x ∈ l, f x = g x) :
    bindList f l = bindList g l := by
  induction l with
  | nil => rfl
  | cons x xs ih =>
    simp only [bindList_cons]
    rw [h x (by simp), ih (fun y hy => h y (by simp [hy]))]

theorem bind_congr_mem {f g : α → Gen β} (a : Gen α) (h : ∀ x ∈ a.1, f x = g x) : bind a f = bind a g := by
  simp only [bind_def]
  rw [bindList_congr_mem a.1 h]

theorem bindList_map (f : α → β) (k : β → Gen γ) (l : List α) :
    bindList k (l.map f) = bindList (fun x => k (f x)) l := by
  induction l with
  | nil => rfl
  | cons x xs ih => simp [ih]

@[simp] theorem bind_one_right (g : Gen α) : bind g one = g := by
  obtain ⟨l, e⟩ := g
  simp only [bind_def]
  have : bindList one l = ((l, none) : Gen α) := by
    induction l with
    | nil => rfl
    | cons x xs ih => simp [ih, append, one]
  rw [this]
  simp [append]

/-- A filter by probes followed by a continuation that re-runs the probe is the plain iteration. -/
theorem filterFirst_bind (p : α → Gen β) (k : α → Gen γ) (l : List α)
    (h : ∀ x e, p x = ([], e) → k x = ([], e)) :
    bind (filterFirst p l) k = bindList k l := by
  induction l with
  | nil => simp [filterFirst]
  | cons x xs ih =>
    simp only [filterFirst, bindList_cons]
    match hp : p x with
    | (y :: ys, e) => simp [bind_append, ih]
    | ([], some e) =>
      have := h x (some e) hp
      simp [this]
      rfl
    | ([], none) =>
      have := h x none hp
      simp only [ih, this]
      exact (nil_append _).symm

@[simp] theorem ifAny_fail (e : Err) (x : α) : ifAny (fail e : Gen β) x = fail e := rfl
@[simp] theorem ifAny_nil (x : α) : ifAny (nil : Gen β) x = nil := rfl

theorem ifAny_bind (g : Gen β) (x : α) (k : α → Gen γ) (h : ∀ e, g = ([], e) → k x = ([], e)) :
    bind (ifAny g x) k = k x := by
  match g, h with
  | (y :: ys, e), _ => simp [ifAny]
  | ([], some e), h => simp [ifAny, h (some e) rfl]; rfl
  | ([], none), h => simp [ifAny, h none rfl]; rfl

end Gen

namespace Eval
open Ypv.Spec Gen

mutual
theorem walk_eq (f : Node → Ctx → Gen NC) :
    (n : Node) → (c : Ctx) → walk f n c = Gen.bindList (fun x => f x.1 x.2) (preorder n c)
  | .scalar a v, c => by simp [walk, preorder]
  | .set a ms, c => by simp [walk, preorder]
  | .seq a items, c => by
      simp only [walk, preorder, bindList_cons]
      rw [walkSeq_eq f c items 0]
  | .map a es, c => by
      simp only [walk, preorder, bindList_cons]
      rw [walkMap_eq f c es]
theorem walkSeq_eq (f : Node → Ctx → Gen NC) (c : Ctx) :
    (items : List Node) → (i : Nat) →
      walk.walkSeq f c items i = Gen.bindList (fun x => f x.1 x.2) (preorder.preSeq c items i)
  | [], _ => rfl
  | n :: ns, i => by
      simp only [walk.walkSeq, preorder.preSeq, bindList_append]
      rw [walk_eq f n, walkSeq_eq f c ns]
theorem walkMap_eq (f : Node → Ctx → Gen NC) (c : Ctx) :
    (es : List (Key × Node)) →
      walk.walkMap f c es = Gen.bindList (fun x => f x.1 x.2) (preorder.preMap c es)
  | [] => rfl
  | (k, n) :: es => by
      simp only [walk.walkMap, preorder.preMap, bindList_append]
      rw [walk_eq f n, walkMap_eq f c es]
end

/-- The subtree's pre-order starts with the node itself. -/
theorem preorder_head (n : Node) (c : Ctx) : ∃ t, preorder n c = (n, c) :: t := by
  cases n <;> simp [preorder]

variable (mt : Matcher) (dsc : Desc)

/-- A step segment does not look at the following segments. -/
theorem stepSeg_children (s : ESeg) (rest : List ESeg) (n : Node) (c : Ctx)
    (h1 : s ≠ .matchAll) (h2 : s ≠ .traverse) :
    stepSeg mt dsc s rest true n c = children mt dsc s n c := by
  cases s <;> simp_all [stepSeg, children]

/-- `traverse_lists=False` only switches off the two ways of entering a list. -/
theorem stepSeg_tl_false (s : ESeg) (rest : List ESeg) (n : Node) (c : Ctx) :
    stepSeg mt dsc s rest false n c
      = if direct s n then stepSeg mt dsc s rest true n c else Gen.nil := by
  cases s with
  | key k =>
    cases n with
    | seq a items =>
      cases hk : pyInt? k <;> simp [stepSeg, keyStep, direct, hk]
    | _ => simp [stepSeg, keyStep, direct]
  | search inv m attr term =>
    cases n <;> simp [stepSeg, searchStep, direct]
  | matchAll => cases rest <;> cases n <;> simp [stepSeg, direct]
  | traverse => cases rest <;> cases n <;> simp [stepSeg, direct]
  | _ => cases n <;> simp [stepSeg, direct]

end Eval
end Ypv
