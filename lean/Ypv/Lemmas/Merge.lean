import Ypv.Model.Merge
import Ypv.Spec.Merge
/-!
# Lemmas about the merge model (helpers for `Props/C05.lean`)
-/
namespace Ypv.Merge

/-- No Python exception outside the library's own families. -/
def NoCrash {α : Type} (x : Except MErr α) : Prop := ∀ k, x ≠ .error (.crash k)

theorem NoCrash.ok {α : Type} (a : α) : NoCrash (.ok a : Except MErr α) := by
  intro k h; cases h
theorem NoCrash.merge {α : Type} : NoCrash (.error .merge : Except MErr α) := by
  intro k h; cases h
theorem NoCrash.config {α : Type} : NoCrash (.error .config : Except MErr α) := by
  intro k h; cases h
theorem NoCrash.oom {α : Type} : NoCrash (.error .outOfModel : Except MErr α) := by
  intro k h; cases h

/-- The only failure of a `from_str` conversion is the configuration error. -/
def ConfOnly {α : Type} (x : Except MErr α) : Prop := ∀ e, x = .error e → e = .config

theorem toHash_conf (n : RuleName) : ConfOnly n.toHash := by
  intro e h; cases n <;> simp [RuleName.toHash] at h <;> exact h.symm
theorem toArray_conf (n : RuleName) : ConfOnly n.toArray := by
  intro e h; cases n <;> simp [RuleName.toArray] at h <;> exact h.symm
theorem toAoh_conf (n : RuleName) : ConfOnly n.toAoh := by
  intro e h; cases n <;> simp [RuleName.toAoh] at h <;> exact h.symm
theorem toSet_conf (n : RuleName) : ConfOnly n.toSet := by
  intro e h; cases n <;> simp [RuleName.toSet] at h <;> exact h.symm

theorem pick_conf {α : Type} (rule : Option RuleName) (conv : RuleName → Except MErr α)
    (hc : ∀ n, ConfOnly (conv n)) (cli dflt : Option α) (b : α) : ConfOnly (pick rule conv cli dflt b) := by
  intro e h
  unfold pick at h
  cases rule with
  | some n => exact hc n e h
  | none =>
    cases cli with
    | some v => cases h
    | none => cases dflt <;> cases h

theorem hashMode_conf (env : Env) (c : Coords) : ConfOnly (hashMode env c) :=
  pick_conf _ _ toHash_conf _ _ _
theorem arrayMode_conf (env : Env) (c : Coords) : ConfOnly (arrayMode env c) :=
  pick_conf _ _ toArray_conf _ _ _
theorem aohMode_conf (env : Env) (c : Coords) : ConfOnly (aohMode env c) :=
  pick_conf _ _ toAoh_conf _ _ _
theorem setMode_conf (env : Env) (c : Coords) : ConfOnly (setMode env c) :=
  pick_conf _ _ toSet_conf _ _ _

theorem ConfOnly.map {α β : Type} {x : Except MErr α} (f : α → β) (h : ConfOnly x) : ConfOnly (x.map f) := by
  intro e he
  cases x with
  | ok a => cases he
  | error e' => cases he; exact h _ rfl

theorem nodeRule_conf (env : Env) (c : Coords) : ConfOnly (nodeRule env c) := by
  intro e h
  unfold nodeRule at h
  cases hr : ruleFor env c with
  | none => rw [hr] at h; cases h
  | some n =>
    rw [hr] at h
    simp only at h
    exact ConfOnly.map some (toAoh_conf n) e h

theorem shortCircuit_conf (env : Env) (c : Coords) : ConfOnly (shortCircuit env c) := by
  unfold shortCircuit
  split
  · exact (hashMode_conf env c).map _
  · split
    · exact (setMode_conf env c).map _
    · split
      · exact (aohMode_conf env c).map _
      · exact (nodeRule_conf env c).map _

theorem mergeSets_ok (env : Env) (lv : Node) (ra : Option Str) (rms : List Key) (c : Coords) :
    NoCrash (mergeSets env lv ra rms c) ∧ ∀ m, mergeSets env lv ra rms c = .ok m → isSet m = true := by
  unfold mergeSets
  cases lv with
  | set la lms =>
    cases hm : setMode env c with
    | error e =>
      have := setMode_conf env c e hm; subst this
      exact ⟨NoCrash.config, by intro m h; cases h⟩
    | ok mode =>
      cases mode <;> exact ⟨NoCrash.ok _, by intro m h; cases h; rfl⟩
  | scalar a v => exact ⟨NoCrash.merge, by intro m h; cases h⟩
  | seq a xs => exact ⟨NoCrash.merge, by intro m h; cases h⟩
  | map a xs => exact ⟨NoCrash.merge, by intro m h; cases h⟩

theorem mergeSimple_ok (env : Env) (lv : Node) (ra : Option Str) (ritems : List Node) (c : Coords) :
    NoCrash (mergeSimple env lv ra ritems c) ∧
      ∀ m, mergeSimple env lv ra ritems c = .ok m → isSeq m = true := by
  unfold mergeSimple
  cases lv with
  | seq la litems =>
    cases hm : arrayMode env c with
    | error e =>
      have := arrayMode_conf env c e hm; subst this
      exact ⟨NoCrash.config, by intro m h; cases h⟩
    | ok mode =>
      cases mode <;> exact ⟨NoCrash.ok _, by intro m h; cases h; rfl⟩
  | scalar a v => exact ⟨NoCrash.merge, by intro m h; cases h⟩
  | set a xs => exact ⟨NoCrash.merge, by intro m h; cases h⟩
  | map a xs => exact ⟨NoCrash.merge, by intro m h; cases h⟩

theorem tagOf_ok_of_container {m : Node} (h : isSeq m = true ∨ isMap m = true ∨ isSet m = true) :
    tagOf m = .ok () := by
  cases m <;> simp_all [tagOf, isSeq, isMap, isSet]

/-- `dictWrap` never crashes when its loop does not, and yields a mapping. -/
theorem dictWrap_ok (lv : Node) (loop : DState → Except MErr DState)
    (h : ∀ st, NoCrash (loop st)) :
    NoCrash (dictWrap lv loop) ∧ ∀ m, dictWrap lv loop = .ok m → isMap m = true := by
  unfold dictWrap
  cases lv with
  | map la les =>
    simp only
    cases hl : loop ⟨les, [], 0⟩ with
    | error e =>
      refine ⟨?_, by intro m hm; cases hm⟩
      intro k hk; cases hk; exact h _ k hl
    | ok st => exact ⟨NoCrash.ok _, by intro m hm; cases hm; rfl⟩
  | scalar a v => exact ⟨NoCrash.merge, by intro m h; cases h⟩
  | set a xs => exact ⟨NoCrash.merge, by intro m h; cases h⟩
  | seq a xs => exact ⟨NoCrash.merge, by intro m h; cases h⟩

theorem syncTag_nc (x : Except MErr Node) (h : NoCrash x)
    (hk : ∀ m, x = .ok m → isSeq m = true ∨ isMap m = true ∨ isSet m = true) : NoCrash (syncTag x) := by
  unfold syncTag
  cases x with
  | error e => exact h
  | ok m => simp only [tagOf_ok_of_container (hk m rfl)]; exact NoCrash.ok _

theorem NoCrash.of_conf {α β : Type} {x : Except MErr α} {e : MErr} (hc : ConfOnly x) (h : x = .error e) :
    NoCrash (.error e : Except MErr β) := by
  have := hc e h; subst this; exact NoCrash.config

mutual
theorem mergeVal_nc (env : Env) (lv : Node) (c : Coords) : (val : Node) → NoCrash (mergeVal env lv c val)
  | .map a res => by
    simp only [mergeVal]
    have h := dictWrap_ok lv (dictLoop env (.map none res) res) (dictLoop_nc env (.map none res) res)
    exact syncTag_nc _ h.1 (fun m hm => .inr (.inl (h.2 m hm)))
  | .seq ra ritems => by
    simp only [mergeVal]
    have h := mergeLists_nc env lv ra ritems c
    exact syncTag_nc _ h.1 (fun m hm => .inl (h.2 m hm))
  | .set ra rms => by
    simp only [mergeVal]
    have h := mergeSets_ok env lv ra rms c
    exact syncTag_nc _ h.1 (fun m hm => .inr (.inr (h.2 m hm)))
  | .scalar a v => by simp only [mergeVal]; exact NoCrash.ok _

theorem dictLoop_nc (env : Env) (par : Node) : (res : List (Key × Node)) → ∀ st, NoCrash (dictLoop env par res st)
  | [] => by intro st; simp only [dictLoop]; exact NoCrash.ok _
  | (k, val) :: rest => by
    intro st
    simp only [dictLoop]
    cases hl : lookupKey k st.entries with
    | none => exact dictLoop_nc env par rest _
    | some lv =>
      simp only
      cases hs : shortCircuit env ⟨val, some par, some (.key k)⟩ with
      | error e => exact NoCrash.of_conf (shortCircuit_conf env _) hs
      | ok sc =>
        cases sc with
        | keepLeft => exact dictLoop_nc env par rest _
        | takeRight => exact dictLoop_nc env par rest _
        | goDeep =>
          simp only
          cases hm : mergeVal env lv ⟨val, some par, some (.key k)⟩ val with
          | error e => intro k' hk'; cases hk'; exact mergeVal_nc env lv _ val k' hm
          | ok m => exact dictLoop_nc env par rest _

theorem mergeLists_nc (env : Env) (lv : Node) (ra : Option Str) : (ritems : List Node) → ∀ c,
    NoCrash (mergeLists env lv ra ritems c) ∧ ∀ m, mergeLists env lv ra ritems c = .ok m → isSeq m = true
  | [] => by
    intro c
    simp only [mergeLists]
    split
    · rename_i h; exact ⟨NoCrash.ok _, by intro m hm; cases hm; exact h⟩
    · exact ⟨NoCrash.merge, by intro m hm; cases hm⟩
  | .map fa fes :: rrest => by
    intro c
    simp only [mergeLists]
    cases lv with
    | seq la litems =>
      simp only
      cases hm : aohMode env c with
      | error e => exact ⟨NoCrash.of_conf (aohMode_conf env c) hm, by intro m h; cases h⟩
      | ok mode =>
        cases mode with
        | deep =>
          simp only
          cases h1 : aohDeepStep env _ litems (.map fa fes) with
          | error e =>
            refine ⟨?_, by intro m h; cases h⟩
            intro k hk; cases hk; exact aohDeepStep_nc env _ (.map fa fes) litems k h1
          | ok l1 =>
            simp only
            cases h2 : aohDeepLoop env _ rrest l1 with
            | error e =>
              refine ⟨?_, by intro m h; cases h⟩
              intro k hk; cases hk; exact aohDeepLoop_nc env _ rrest l1 k h2
            | ok l2 => exact ⟨NoCrash.ok _, by intro m h; cases h; rfl⟩
        | all => exact ⟨NoCrash.ok _, by intro m h; cases h; rfl⟩
        | left => exact ⟨NoCrash.ok _, by intro m h; cases h; rfl⟩
        | right => exact ⟨NoCrash.ok _, by intro m h; cases h; rfl⟩
        | unique => exact ⟨NoCrash.ok _, by intro m h; cases h; rfl⟩
    | scalar a v => exact ⟨NoCrash.merge, by intro m h; cases h⟩
    | set a xs => exact ⟨NoCrash.merge, by intro m h; cases h⟩
    | map a xs => exact ⟨NoCrash.merge, by intro m h; cases h⟩
  | .scalar a v :: rrest => by intro c; simp only [mergeLists]; exact mergeSimple_ok env lv ra _ c
  | .seq a xs :: rrest => by intro c; simp only [mergeLists]; exact mergeSimple_ok env lv ra _ c
  | .set a xs :: rrest => by intro c; simp only [mergeLists]; exact mergeSimple_ok env lv ra _ c

theorem aohDeepLoop_nc (env : Env) (idKey : Key) : (eles : List Node) → ∀ litems,
    NoCrash (aohDeepLoop env idKey eles litems)
  | [] => by intro litems; simp only [aohDeepLoop]; exact NoCrash.ok _
  | ele :: rest => by
    intro litems
    simp only [aohDeepLoop]
    cases h1 : aohDeepStep env idKey litems ele with
    | error e => intro k hk; cases hk; exact aohDeepStep_nc env idKey ele litems k h1
    | ok l1 => exact aohDeepLoop_nc env idKey rest l1

theorem aohDeepStep_nc (env : Env) (idKey : Key) : (ele : Node) → ∀ litems,
    NoCrash (aohDeepStep env idKey litems ele)
  | .map a es => by
    intro litems
    simp only [aohDeepStep, recordGet]
    cases lookupKey idKey es with
    | none => exact NoCrash.merge
    | some idv =>
      simp only
      cases litems.find? (recordMatches env idKey (typedNode env idv)) with
      | none => exact NoCrash.ok _
      | some lh =>
        simp only
        have h := dictWrap_ok lh (dictLoop env (.map a es) es) (dictLoop_nc env (.map a es) es)
        cases hd : dictWrap lh (dictLoop env (.map a es) es) with
        | error e => intro k hk; cases hk; exact h.1 k hd
        | ok m => exact NoCrash.ok _
  | .scalar a v => by intro litems; simp only [aohDeepStep]; exact NoCrash.merge
  | .seq a xs => by intro litems; simp only [aohDeepStep]; exact NoCrash.merge
  | .set a xs => by intro litems; simp only [aohDeepStep]; exact NoCrash.merge
end

open Spec

theorem keys_setKey (k : Key) (v : Node) (es : List (Key × Node)) : keys (setKey k v es) = keys es := by
  induction es with
  | nil => rfl
  | cons kv rest ih =>
    obtain ⟨k', v'⟩ := kv
    simp only [setKey]
    split
    · simp [keys]
    · simp only [keys, List.map_cons] at ih ⊢; rw [ih]

theorem lookupKey_none_iff (k : Key) (es : List (Key × Node)) : lookupKey k es = none ↔ k ∉ keys es := by
  induction es with
  | nil => simp [lookupKey, keys]
  | cons kv rest ih =>
    obtain ⟨k', v'⟩ := kv
    simp only [lookupKey, keys, List.map_cons, List.mem_cons, not_or] at ih ⊢
    split
    · rename_i h; subst h; simp
    · rename_i h; rw [ih]; constructor
      · intro h2; exact ⟨fun e => h e.symm, h2⟩
      · intro h2; exact h2.2

theorem filter_insertAt (p : Key → Bool) (pos : Nat) (kv : Key × Node) (es : List (Key × Node))
    (hp : p kv.1 = false) : (keys (insertAt pos kv es)).filter p = (keys es).filter p := by
  simp only [insertAt, keys, List.map_append, List.map_cons, List.filter_append, List.filter_cons, hp]
  simp only [Bool.false_eq_true, ↓reduceIte]
  rw [← List.filter_append, ← List.map_append, List.take_append_drop]

theorem filter_foldl_insert (p : Key → Bool) (buf : List (Key × Node)) (hb : ∀ kv ∈ buf, p kv.1 = false) :
    ∀ (es : List (Key × Node)) (pos : Nat),
      (keys (buf.foldl (fun (acc : List (Key × Node) × Nat) kv => (insertAt acc.2 kv acc.1, acc.2 + 1)) (es, pos)).1).filter p
        = (keys es).filter p := by
  induction buf with
  | nil => intro es pos; rfl
  | cons kv rest ih =>
    intro es pos
    simp only [List.foldl_cons]
    rw [ih (fun kv' h' => hb kv' (List.mem_cons_of_mem _ h'))]
    exact filter_insertAt p pos kv es (hb kv (List.mem_cons_self))

theorem filter_flush (p : Key → Bool) (st : DState) (hb : ∀ kv ∈ st.buffer, p kv.1 = false) :
    (keys (flush st).entries).filter p = (keys st.entries).filter p := by
  unfold flush
  exact filter_foldl_insert p st.buffer hb st.entries st.pos

/-- Invariant of the `_merge_dicts` loop for the left-hand keys `L`. -/
def InvL (L : List Key) (st : DState) : Prop :=
  (keys st.entries).filter (fun k => L.contains k) = L ∧ ∀ kv ∈ st.buffer, L.contains kv.1 = false

theorem InvL_flush (L : List Key) (st : DState) (h : InvL L st) : InvL L (flush st) := by
  refine ⟨?_, ?_⟩
  · rw [filter_flush _ st h.2]; exact h.1
  · intro kv hkv; simp [flush] at hkv

theorem dictLoop_InvL (env : Env) (par : Node) (L : List Key) :
    ∀ (res : List (Key × Node)) (st st' : DState), dictLoop env par res st = .ok st' → InvL L st → InvL L st' := by
  intro res
  induction res with
  | nil => intro st st' h hi; simp only [dictLoop] at h; cases h; exact hi
  | cons kv rest ih =>
    obtain ⟨k, val⟩ := kv
    intro st st' h hi
    simp only [dictLoop] at h
    cases hl : lookupKey k st.entries with
    | none =>
      rw [hl] at h
      refine ih _ _ h ⟨hi.1, ?_⟩
      intro kv hkv
      simp only [List.mem_append, List.mem_singleton] at hkv
      rcases hkv with hkv | hkv
      · exact hi.2 kv hkv
      · subst hkv
        simp only
        cases hc : L.contains k with
        | false => rfl
        | true =>
          exfalso
          have hk : k ∈ L := by simpa using hc
          rw [← hi.1] at hk
          have := (List.mem_filter.mp hk).1
          exact (lookupKey_none_iff k st.entries).mp hl this
    | some lv =>
      rw [hl] at h
      simp only at h
      have hf := InvL_flush L st hi
      cases hs : shortCircuit env ⟨val, some par, some (.key k)⟩ with
      | error e => rw [hs] at h; cases h
      | ok sc =>
        rw [hs] at h
        cases sc with
        | keepLeft => exact ih _ _ h hf
        | takeRight =>
          refine ih _ _ h ⟨?_, hf.2⟩
          simp only [keys_setKey]; exact hf.1
        | goDeep =>
          simp only at h
          cases hm : mergeVal env lv ⟨val, some par, some (.key k)⟩ val with
          | error e => rw [hm] at h; cases h
          | ok m =>
            rw [hm] at h
            refine ih _ _ h ⟨?_, hf.2⟩
            simp only [keys_setKey]; exact hf.1


end Ypv.Merge
