import Ypv.Model.Merge
import Ypv.Spec.Merge
/-!
# Lemmas about the merge model (helpers for `Props/C05.lean`)
-/
namespace Ypv.Merge

/-- No Python exception outside the library's own families. -/
def NoCrash {α : Type} (x : Except MErr α) : Prop := ∀ k, x ≠ .error (.crash k)

theorem NoCrash.ok {α : Type} (a : α) : NoCrash (.ok a : Except MErr α) := by
  intro k h; cases h
theorem NoCrash.merge {α : Type} : NoCrash (.error .merge : Except MErr α) := by
  intro k h; cases h
theorem NoCrash.config {α : Type} : NoCrash (.error .config : Except MErr α) := by
  intro k h; cases h
theorem NoCrash.oom {α : Type} : NoCrash (.error .outOfModel : Except MErr α) := by
  intro k h; cases h

/-- The only failure of a `from_str` conversion is the configuration error. -/
def ConfOnly {α : Type} (x : Except MErr α) : Prop := ∀ e, x = .error e → e = .config

theorem toHash_conf (n : RuleName) : ConfOnly n.toHash := by
  intro e h; cases n <;> simp [RuleName.toHash] at h <;> exact h.symm
theorem toArray_conf (n : RuleName) : ConfOnly n.toArray := by
  intro e h; cases n <;> simp [RuleName.toArray] at h <;> exact h.symm
theorem toAoh_conf (n : RuleName) : ConfOnly n.toAoh := by
  intro e h; cases n <;> simp [RuleName.toAoh] at h <;> exact h.symm
theorem toSet_conf (n : RuleName) : ConfOnly n.toSet := by
  intro e h; cases n <;> simp [RuleName.toSet] at h <;> exact h.symm

theorem pick_conf {α : Type} (rule : Option RuleName) (conv : RuleName → Except MErr α)
    (hc : ∀ n, ConfOnly (conv n)) (cli dflt : Option α) (b : α) : ConfOnly (pick rule conv cli dflt b) := by
  intro e h
  unfold pick at h
  cases rule with
  | some n => exact hc n e h
  | none =>
    cases cli with
    | some v => cases h
    | none => cases dflt <;> cases h

theorem hashMode_conf (env : Env) (c : Coords) : ConfOnly (hashMode env c) :=
  pick_conf _ _ toHash_conf _ _ _
theorem arrayMode_conf (env : Env) (c : Coords) : ConfOnly (arrayMode env c) :=
  pick_conf _ _ toArray_conf _ _ _
theorem aohMode_conf (env : Env) (c : Coords) : ConfOnly (aohMode env c) :=
  pick_conf _ _ toAoh_conf _ _ _
theorem setMode_conf (env : Env) (c : Coords) : ConfOnly (setMode env c) :=
  pick_conf _ _ toSet_conf _ _ _

theorem ConfOnly.map {α β : Type} {x : Except MErr α} (f : α → β) (h : ConfOnly x) : ConfOnly (x.map f) := by
  intro e he
  cases x with
  | ok a => cases he
  | error e' => cases he; exact h _ rfl

theorem nodeRule_conf (env : Env) (c : Coords) : ConfOnly (nodeRule env c) := by
  intro e h
  unfold nodeRule at h
  cases hr : ruleFor env c with
  | none => rw [hr] at h; cases h
  | some n =>
    rw [hr] at h
    simp only at h
    exact ConfOnly.map some (toAoh_conf n) e h

theorem shortCircuit_conf (env : Env) (c : Coords) : ConfOnly (shortCircuit env c) := by
  unfold shortCircuit
  split
  · exact (hashMode_conf env c).map _
  · split
    · exact (setMode_conf env c).map _
    · split
      · exact (aohMode_conf env c).map _
      · exact (nodeRule_conf env c).map _

theorem mergeSets_ok (env : Env) (lv : Node) (ra : Option Str) (rms : List Key) (c : Coords) :
    NoCrash (mergeSets env lv ra rms c) ∧ ∀ m, mergeSets env lv ra rms c = .ok m → isSet m = true := by
  unfold mergeSets
  cases lv with
  | set la lms =>
    cases hm : setMode env c with
    | error e =>
      have := setMode_conf env c e hm; subst this
      exact ⟨NoCrash.config, by intro m h; cases h⟩
    | ok mode =>
      cases mode <;> exact ⟨NoCrash.ok _, by intro m h; cases h; rfl⟩
  | scalar a v => exact ⟨NoCrash.merge, by intro m h; cases h⟩
  | seq a xs => exact ⟨NoCrash.merge, by intro m h; cases h⟩
  | map a xs => exact ⟨NoCrash.merge, by intro m h; cases h⟩

theorem mergeSimple_ok (env : Env) (lv : Node) (ra : Option Str) (ritems : List Node) (c : Coords) :
    NoCrash (mergeSimple env lv ra ritems c) ∧
      ∀ m, mergeSimple env lv ra ritems c = .ok m → isSeq m = true := by
  unfold mergeSimple
  cases lv with
  | seq la litems =>
    cases hm : arrayMode env c with
    | error e =>
      have := arrayMode_conf env c e hm; subst this
      exact ⟨NoCrash.config, by intro m h; cases h⟩
    | ok mode =>
      cases mode <;> exact ⟨NoCrash.ok _, by intro m h; cases h; rfl⟩
  | scalar a v => exact ⟨NoCrash.merge, by intro m h; cases h⟩
  | set a xs => exact ⟨NoCrash.merge, by intro m h; cases h⟩
  | map a xs => exact ⟨NoCrash.merge, by intro m h; cases h⟩

theorem tagOf_ok_of_container {m : Node} (h : isSeq m = true ∨ isMap m = true ∨ isSet m = true) :
    tagOf m = .ok () := by
  cases m <;> simp_all [tagOf, isSeq, isMap, isSet]

/-- `dictWrap` never crashes when its loop does not, and yields a mapping. -/
theorem dictWrap_ok (lv : Node) (loop : DState → Except MErr DState)
    (h : ∀ st, NoCrash (loop st)) :
    NoCrash (dictWrap lv loop) ∧ ∀ m, dictWrap lv loop = .ok m → isMap m = true := by
  unfold dictWrap
  cases lv with
  | map la les =>
    simp only
    cases hl : loop ⟨les, [], 0⟩ with
    | error e =>
      refine ⟨?_, by intro m hm; cases hm⟩
      intro k hk; cases hk; exact h _ k hl
    | ok st => exact ⟨NoCrash.ok _, by intro m hm; cases hm; rfl⟩
  | scalar a v => exact ⟨NoCrash.merge, by intro m h; cases h⟩
  | set a xs => exact ⟨NoCrash.merge, by intro m h; cases h⟩
  | seq a xs => exact ⟨NoCrash.merge, by intro m h; cases h⟩

theorem syncTag_nc (x : Except MErr Node) (h : NoCrash x)
    (hk : ∀ m, x = .ok m → isSeq m = true ∨ isMap m = true ∨ isSet m = true) : NoCrash (syncTag x) := by
  unfold syncTag
  cases x with
  | error e => exact h
  | ok m => simp only [tagOf_ok_of_container (hk m rfl)]; exact NoCrash.ok _

theorem NoCrash.of_conf {α β : Type} {x : Except MErr α} {e : MErr} (hc : ConfOnly x) (h : x = .error e) :
    NoCrash (.error e : Except MErr β) := by
  have := hc e h; subst this; exact NoCrash.config

mutual
theorem mergeVal_nc (env : Env) (lv : Node) (c : Coords) : (val : Node) → NoCrash (mergeVal env lv c val)
  | .map a res => by
    simp only [mergeVal]
    have h := dictWrap_ok lv (dictLoop env (.map none res) res) (dictLoop_nc env (.map none res) res)
    exact syncTag_nc _ h.1 (fun m hm => .inr (.inl (h.2 m hm)))
  | .seq ra ritems => by
    simp only [mergeVal]
    have h := mergeLists_nc env lv ra ritems c
    exact syncTag_nc _ h.1 (fun m hm => .inl (h.2 m hm))
  | .set ra rms => by
    simp only [mergeVal]
    have h := mergeSets_ok env lv ra rms c
    exact syncTag_nc _ h.1 (fun m hm => .inr (.inr (h.2 m hm)))
  | .scalar a v => by simp only [mergeVal]; exact NoCrash.ok _

theorem dictLoop_nc (env : Env) (par : Node) : (res : List (Key × Node)) → ∀ st, NoCrash (dictLoop env par res st)
  | [] => by intro st; simp only [dictLoop]; exact NoCrash.ok _
  | (k, val) :: rest => by
    intro st
    simp only [dictLoop]
    cases hl : lookupKey k st.entries with
    | none => exact dictLoop_nc env par rest _
    | some lv =>
      simp only
      cases hs : shortCircuit env ⟨val, some par, some (.key k)⟩ with
      | error e => exact NoCrash.of_conf (shortCircuit_conf env _) hs
      | ok sc =>
        cases sc with
        | keepLeft => exact dictLoop_nc env par rest _
        | takeRight => exact dictLoop_nc env par rest _
        | goDeep =>
          simp only
          cases hm : mergeVal env lv ⟨val, some par, some (.key k)⟩ val with
          | error e => intro k' hk'; cases hk'; exact mergeVal_nc env lv _ val k' hm
          | ok m => exact dictLoop_nc env par rest _

theorem mergeLists_nc (env : Env) (lv : Node) (ra : Option Str) : (ritems : List Node) → ∀ c,
    NoCrash (mergeLists env lv ra ritems c) ∧ ∀ m, mergeLists env lv ra ritems c = .ok m → isSeq m = true
  | [] => by
    intro c
    simp only [mergeLists]
    split
    · rename_i h; exact ⟨NoCrash.ok _, by intro m hm; cases hm; exact h⟩
    · exact ⟨NoCrash.merge, by intro m hm; cases hm⟩
  | .map fa fes :: rrest => by
    intro c
    simp only [mergeLists]
    cases lv with
    | seq la litems =>
      simp only
      cases hm : aohMode env c with
      | error e => exact ⟨NoCrash.of_conf (aohMode_conf env c) hm, by intro m h; cases h⟩
      | ok mode =>
        cases mode with
        | deep =>
          simp only
          cases h1 : aohDeepStep env _ litems (.map fa fes) with
          | error e =>
            refine ⟨?_, by intro m h; cases h⟩
            intro k hk; cases hk; exact aohDeepStep_nc env _ (.map fa fes) litems k h1
          | ok l1 =>
            simp only
            cases h2 : aohDeepLoop env _ rrest l1 with
            | error e =>
              refine ⟨?_, by intro m h; cases h⟩
              intro k hk; cases hk; exact aohDeepLoop_nc env _ rrest l1 k h2
            | ok l2 => exact ⟨NoCrash.ok _, by intro m h; cases h; rfl⟩
        | all => exact ⟨NoCrash.ok _, by intro m h; cases h; rfl⟩
        | left => exact ⟨NoCrash.ok _, by intro m h; cases h; rfl⟩
        | right => exact ⟨NoCrash.ok _, by intro m h; cases h; rfl⟩
        | unique => exact ⟨NoCrash.ok _, by intro m h; cases h; rfl⟩
    | scalar a v => exact ⟨NoCrash.merge, by intro m h; cases h⟩
    | set a xs => exact ⟨NoCrash.merge, by intro m h; cases h⟩
    | map a xs => exact ⟨NoCrash.merge, by intro m h; cases h⟩
  | .scalar a v :: rrest => by intro c; simp only [mergeLists]; exact mergeSimple_ok env lv ra _ c
  | .seq a xs :: rrest => by intro c; simp only [mergeLists]; exact mergeSimple_ok env lv ra _ c
  | .set a xs :: rrest => by intro c; simp only [mergeLists]; exact mergeSimple_ok env lv ra _ c

theorem aohDeepLoop_nc (env : Env) (idKey : Key) : (eles : List Node) → ∀ litems,
    NoCrash (aohDeepLoop env idKey eles litems)
  | [] => by intro litems; simp only [aohDeepLoop]; exact NoCrash.ok _
  | ele :: rest => by
    intro litems
    simp only [aohDeepLoop]
    cases h1 : aohDeepStep env idKey litems ele with
    | error e => intro k hk; cases hk; exact aohDeepStep_nc env idKey ele litems k h1
    | ok l1 => exact aohDeepLoop_nc env idKey rest l1

theorem aohDeepStep_nc (env : Env) (idKey : Key) : (ele : Node) → ∀ litems,
    NoCrash (aohDeepStep env idKey litems ele)
  | .map a es => by
    intro litems
    simp only [aohDeepStep, recordGet]
    cases lookupKey idKey es with
    | none => exact NoCrash.merge
    | some idv =>
      simp only
      cases litems.find? (recordMatches env idKey (typedNode env idv)) with
      | none => exact NoCrash.ok _
      | some lh =>
        simp only
        have h := dictWrap_ok lh (dictLoop env (.map a es) es) (dictLoop_nc env (.map a es) es)
        cases hd : dictWrap lh (dictLoop env (.map a es) es) with
        | error e => intro k hk; cases hk; exact h.1 k hd
        | ok m => exact NoCrash.ok _
  | .scalar a v => by intro litems; simp only [aohDeepStep]; exact NoCrash.merge
  | .seq a xs => by intro litems; simp only [aohDeepStep]; exact NoCrash.merge
  | .set a xs => by intro litems; simp only [aohDeepStep]; exact NoCrash.merge
end

open Spec

theorem keys_setKey (k : Key) (v : Node) (es : List (Key × Node)) : keys (setKey k v es) = keys es := by
  induction es with
  | nil => rfl
  | cons kv rest ih =>
    obtain ⟨k', v'⟩ := kv
    simp only [setKey]
    split
    · simp [keys]
    · simp only [keys, List.map_cons] at ih ⊢; rw [ih]

theorem lookupKey_none_iff (k : Key) (es : List (Key × Node)) : lookupKey k es = none ↔ k ∉ keys es := by
  induction es with
  | nil => simp [lookupKey, keys]
  | cons kv rest ih =>
    obtain ⟨k', v'⟩ := kv
    simp only [lookupKey, keys, List.map_cons, List.mem_cons, not_or] at ih ⊢
    split
    · rename_i h; subst h; simp
    · rename_i h; rw [ih]; constructor
      · intro h2; exact ⟨fun e => h e.symm, h2⟩
      · intro h2; exact h2.2

theorem filter_insertAt (p : Key → Bool) (pos : Nat) (kv : Key × Node) (es : List (Key × Node))
    (hp : p kv.1 = false) : (keys (insertAt pos kv es)).filter p = (keys es).filter p := by
  simp only [insertAt, keys, List.map_append, List.map_cons, List.filter_append, List.filter_cons, hp]
  simp only [Bool.false_eq_true, ↓reduceIte]
  rw [← List.filter_append, ← List.map_append, List.take_append_drop]

theorem filter_foldl_insert (p : Key → Bool) (buf : List (Key × Node)) (hb : ∀ kv ∈ buf, p kv.1 = false) :
    ∀ (es : List (Key × Node)) (pos : Nat),
      (keys (buf.foldl (fun (acc : List (Key × Node) × Nat) kv => (insertAt acc.2 kv acc.1, acc.2 + 1)) (es, pos)).1).filter p
        = (keys es).filter p := by
  induction buf with
  | nil => intro es pos; rfl
  | cons kv rest ih =>
    intro es pos
    simp only [List.foldl_cons]
    rw [ih (fun kv' h' => hb kv' (List.mem_cons_of_mem _ h'))]
    exact filter_insertAt p pos kv es (hb kv (List.mem_cons_self))

theorem filter_flush (p : Key → Bool) (st : DState) (hb : ∀ kv ∈ st.buffer, p kv.1 = false) :
    (keys (flush st).entries).filter p = (keys st.entries).filter p := by
  unfold flush
  exact filter_foldl_insert p st.buffer hb st.entries st.pos

/-- Invariant of the `_merge_dicts` loop for the left-hand keys `L`. -/
def InvL (L : List Key) (st : DState) : Prop :=
  (keys st.entries).filter (fun k => L.contains k) = L ∧ ∀ kv ∈ st.buffer, L.contains kv.1 = false

theorem InvL_flush (L : List Key) (st : DState) (h : InvL L st) : InvL L (flush st) := by
  refine ⟨?_, ?_⟩
  · rw [filter_flush _ st h.2]; exact h.1
  · intro kv hkv; simp [flush] at hkv

theorem dictLoop_InvL (env : Env) (par : Node) (L : List Key) :
    ∀ (res : List (Key × Node)) (st st' : DState), dictLoop env par res st = .ok st' → InvL L st → InvL L st' := by
  intro res
  induction res with
  | nil => intro st st' h hi; simp only [dictLoop] at h; cases h; exact hi
  | cons kv rest ih =>
    obtain ⟨k, val⟩ := kv
    intro st st' h hi
    simp only [dictLoop] at h
    cases hl : lookupKey k st.entries with
    | none =>
      rw [hl] at h
      refine ih _ _ h ⟨hi.1, ?_⟩
      intro kv hkv
      simp only [List.mem_append, List.mem_singleton] at hkv
      rcases hkv with hkv | hkv
      · exact hi.2 kv hkv
      · subst hkv
        simp only
        cases hc : L.contains k with
        | false => rfl
        | true =>
          exfalso
          have hk : k ∈ L := by simpa using hc
          rw [← hi.1] at hk
          have := (List.mem_filter.mp hk).1
          exact (lookupKey_none_iff k st.entries).mp hl this
    | some lv =>
      rw [hl] at h
      simp only at h
      have hf := InvL_flush L st hi
      cases hs : shortCircuit env ⟨val, some par, some (.key k)⟩ with
      | error e => rw [hs] at h; cases h
      | ok sc =>
        rw [hs] at h
        cases sc with
        | keepLeft => exact ih _ _ h hf
        | takeRight =>
          refine ih _ _ h ⟨?_, hf.2⟩
          simp only [keys_setKey]; exact hf.1
        | goDeep =>
          simp only at h
          cases hm : mergeVal env lv ⟨val, some par, some (.key k)⟩ val with
          | error e => rw [hm] at h; cases h
          | ok m =>
            rw [hm] at h
            refine ih _ _ h ⟨?_, hf.2⟩
            simp only [keys_setKey]; exact hf.1

/-! ## `flush` exactly, and the right-only half of `OrderOK` -/

theorem foldl_insert_eq (buf : List (Key × Node)) : ∀ (es : List (Key × Node)) (pos : Nat),
    (buf.foldl (fun (acc : List (Key × Node) × Nat) kv => (insertAt acc.2 kv acc.1, acc.2 + 1)) (es, pos)).1
      = es.take pos ++ buf ++ es.drop pos := by
  induction buf with
  | nil => intro es pos; simp
  | cons kv rest ih =>
    intro es pos
    simp only [List.foldl_cons]
    rw [ih]
    simp only [insertAt]
    by_cases hp : pos ≤ es.length
    · have h1 : (es.take pos).length = pos := by simp [List.length_take]; omega
      have : (List.take pos es ++ kv :: List.drop pos es) = (List.take pos es ++ [kv]) ++ List.drop pos es := by simp
      rw [this]
      have h2 : (es.take pos ++ [kv]).length = pos + 1 := by simp [h1]
      rw [List.take_append_of_le_length (by omega), List.drop_append_of_le_length (by omega)]
      rw [List.take_of_length_le (by omega), List.drop_of_length_le (by omega)]
      simp
    · have h1 : es.take pos = es := List.take_of_length_le (by omega)
      have h2 : es.drop pos = [] := List.drop_of_length_le (by omega)
      rw [h1, h2]
      rw [List.take_of_length_le (by simp; omega), List.drop_of_length_le (by simp; omega)]
      simp

theorem flush_entries (st : DState) :
    (flush st).entries = st.entries.take st.pos ++ st.buffer ++ st.entries.drop st.pos := by
  unfold flush; exact foldl_insert_eq _ _ _



theorem keys_append (a b : List (Key × Node)) : keys (a ++ b) = keys a ++ keys b := by
  simp [keys]

theorem keys_flush (st : DState) :
    keys (flush st).entries = (keys st.entries).take st.pos ++ keys st.buffer ++ (keys st.entries).drop st.pos := by
  rw [flush_entries]; simp [keys, List.map_take, List.map_drop]

theorem mem_keys_flush (st : DState) (k : Key) :
    k ∈ keys (flush st).entries ↔ k ∈ keys st.entries ∨ k ∈ keys st.buffer := by
  rw [keys_flush]
  simp only [List.mem_append]
  constructor
  · rintro ((h | h) | h)
    · exact .inl (List.mem_of_mem_take h)
    · exact .inr h
    · exact .inl (List.mem_of_mem_drop h)
  · rintro (h | h)
    · rw [← List.take_append_drop st.pos (keys st.entries)] at h
      rcases List.mem_append.mp h with h | h
      · exact .inl (.inl h)
      · exact .inr h
    · exact .inl (.inr h)

theorem mem_of_mem_drop_append {α : Type} (X C : List α) (n : Nat) (a : α) (hn : X.length ≤ n)
    (h : a ∈ (X ++ C).drop n) : a ∈ C := by
  rw [List.drop_append] at h
  rw [List.drop_of_length_le hn] at h
  exact List.mem_of_mem_drop h

/-- Invariant of the `_merge_dicts` loop for the right-only keys: the left-hand keys `L` are all
still present, buffered keys are not left-hand keys, and **no right-only key sits at or after
`buffer_pos`**. -/
structure InvR (L : List Key) (st : DState) : Prop where
  left : InvL L st
  tail : ∀ k ∈ (keys st.entries).drop st.pos, L.contains k = true

theorem InvR_flush (L : List Key) (st : DState) (h : InvR L st) : InvR L (flush st) := by
  refine ⟨InvL_flush L st h.left, ?_⟩
  intro k hk
  rw [keys_flush] at hk
  have hp : (flush st).pos = st.pos + st.buffer.length := rfl
  rw [hp] at hk
  apply h.tail
  refine mem_of_mem_drop_append _ _ _ k ?_ hk
  simp [keys, List.length_take]; omega

theorem filter_flush_R (L : List Key) (st : DState) (h : InvR L st) :
    (keys (flush st).entries).filter (fun k => !L.contains k)
      = (keys st.entries).filter (fun k => !L.contains k) ++ keys st.buffer := by
  have hd : ((keys st.entries).drop st.pos).filter (fun k => !L.contains k) = [] := by
    apply List.filter_eq_nil_iff.mpr
    intro k hk; simpa using h.tail k hk
  have hb : (keys st.buffer).filter (fun k => !L.contains k) = keys st.buffer := by
    apply List.filter_eq_self.mpr
    intro k hk
    obtain ⟨kv, hkv, rfl⟩ := List.mem_map.mp hk
    simpa using h.left.2 kv hkv
  rw [keys_flush]
  conv => rhs; rw [← List.take_append_drop st.pos (keys st.entries)]
  simp only [List.filter_append, hd, hb, List.append_nil]

theorem dictLoop_InvR (env : Env) (par : Node) (L : List Key) :
    ∀ (res : List (Key × Node)) (st st' : DState), dictLoop env par res st = .ok st' → InvR L st →
      (keys res).Nodup →
      (∀ k ∈ keys res, L.contains k = false → k ∉ keys st.entries ∧ k ∉ keys st.buffer) →
      (keys (st'.entries ++ st'.buffer)).filter (fun k => !L.contains k)
        = (keys st.entries).filter (fun k => !L.contains k) ++ keys st.buffer
            ++ (keys res).filter (fun k => !L.contains k) := by
  intro res
  induction res with
  | nil =>
    intro st st' h hi _ _
    simp only [dictLoop] at h; cases h
    have hb : (keys st.buffer).filter (fun k => !L.contains k) = keys st.buffer := by
      apply List.filter_eq_self.mpr
      intro k hk
      obtain ⟨kv, hkv, rfl⟩ := List.mem_map.mp hk
      simpa using hi.left.2 kv hkv
    rw [keys_append, List.filter_append, hb]; simp [keys]
  | cons kv rest ih =>
    obtain ⟨k, val⟩ := kv
    intro st st' h hi hnd hfresh
    have hnd' : (keys rest).Nodup := by
      simp only [keys, List.map_cons, List.nodup_cons] at hnd ⊢; exact hnd.2
    have hk_rest : k ∉ keys rest := by
      simp only [keys, List.map_cons, List.nodup_cons] at hnd ⊢; exact hnd.1
    simp only [dictLoop] at h
    cases hl : lookupKey k st.entries with
    | none =>
      rw [hl] at h
      have hkE : k ∉ keys st.entries := (lookupKey_none_iff k st.entries).mp hl
      have hkL : L.contains k = false := by
        cases hc : L.contains k with
        | false => rfl
        | true =>
          exfalso
          have hk : k ∈ L := by simpa using hc
          rw [← hi.left.1] at hk
          exact hkE (List.mem_filter.mp hk).1
      have hi2 : InvR L { st with buffer := st.buffer ++ [(k, val)], pos := st.pos + 1 } := by
        refine ⟨⟨hi.left.1, ?_⟩, ?_⟩
        · intro kv hkv
          simp only [List.mem_append, List.mem_singleton] at hkv
          rcases hkv with hkv | hkv
          · exact hi.left.2 kv hkv
          · subst hkv; exact hkL
        · intro k' hk'
          apply hi.tail
          simp only at hk'
          rw [← List.drop_drop] at hk'
          exact List.mem_of_mem_drop hk'
      have := ih _ _ h hi2 hnd' (by
        intro k' hk' hL
        have := hfresh k' (by simp [keys] at hk' ⊢; exact .inr hk') hL
        refine ⟨this.1, ?_⟩
        simp only [keys_append, List.mem_append, not_or]
        refine ⟨this.2, ?_⟩
        simp [keys]; rintro rfl; exact hk_rest hk')
      rw [this]
      have hkL' : k ∉ L := by simpa using hkL
      simp [keys, hkL']
    | some lv =>
      rw [hl] at h
      simp only at h
      have hkE : k ∈ keys st.entries := Classical.byContradiction (fun hc => by
        rw [(lookupKey_none_iff k st.entries).mpr hc] at hl; cases hl)
      have hkL : L.contains k = true := by
        cases hc : L.contains k with
        | true => rfl
        | false => exact absurd hkE (hfresh k (by simp [keys]) hc).1
      have hf := InvR_flush L st hi
      have hff := filter_flush_R L st hi
      have hfresh1 : ∀ E, keys E = keys (flush st).entries → ∀ p,
          ∀ k' ∈ keys rest, L.contains k' = false →
            k' ∉ keys ({ entries := E, buffer := [], pos := p } : DState).entries ∧
            k' ∉ keys ({ entries := E, buffer := [], pos := p } : DState).buffer := by
        intro E hE p k' hk' hL
        have := hfresh k' (by simp [keys] at hk' ⊢; exact .inr hk') hL
        refine ⟨?_, by simp [keys]⟩
        simp only [hE, mem_keys_flush]
        exact fun h => h.elim this.1 this.2
      have goal_of : ∀ E p, keys E = keys (flush st).entries →
          InvR L ⟨E, [], p⟩ →
          dictLoop env par rest ⟨E, [], p⟩ = .ok st' →
          (keys (st'.entries ++ st'.buffer)).filter (fun k => !L.contains k)
            = (keys st.entries).filter (fun k => !L.contains k) ++ keys st.buffer
              ++ (keys ((k, val) :: rest)).filter (fun k => !L.contains k) := by
        intro E p hE hI hd
        rw [ih _ _ hd hI hnd' (hfresh1 E hE p)]
        simp only [hE, hff]
        have hkL' : k ∈ L := by simpa using hkL
        simp [keys, hkL']
      cases hs : shortCircuit env ⟨val, some par, some (.key k)⟩ with
      | error e => rw [hs] at h; cases h
      | ok sc =>
        rw [hs] at h
        cases sc with
        | keepLeft => exact goal_of _ _ rfl hf h
        | takeRight =>
          refine goal_of _ _ (keys_setKey _ _ _) ?_ h
          refine ⟨⟨?_, hf.left.2⟩, ?_⟩
          · simp only [keys_setKey]; exact hf.left.1
          · simp only [keys_setKey]; exact hf.tail
        | goDeep =>
          simp only at h
          cases hm : mergeVal env lv ⟨val, some par, some (.key k)⟩ val with
          | error e => rw [hm] at h; cases h
          | ok m =>
            rw [hm] at h
            refine goal_of _ _ (keys_setKey _ _ _) ?_ h
            refine ⟨⟨?_, hf.left.2⟩, ?_⟩
            · simp only [keys_setKey]; exact hf.left.1
            · simp only [keys_setKey]
              intro k' hk'
              apply hf.tail
              rw [← List.drop_drop] at hk'
              exact List.mem_of_mem_drop hk'


/-! ## Per-key content of a deep hash merge -/

theorem lookupKey_append (k : Key) (xs ys : List (Key × Node)) :
    lookupKey k (xs ++ ys) = (lookupKey k xs).or (lookupKey k ys) := by
  induction xs with
  | nil => simp [lookupKey]
  | cons kv rest ih =>
    obtain ⟨k', v⟩ := kv
    simp only [List.cons_append, lookupKey]
    split
    · simp
    · exact ih

theorem lookupKey_setKey (k k' : Key) (v : Node) (es : List (Key × Node)) :
    lookupKey k' (setKey k v es) = if k' = k then (lookupKey k es).map (fun _ => v) else lookupKey k' es := by
  induction es with
  | nil => simp [setKey, lookupKey]
  | cons kv rest ih =>
    obtain ⟨k0, v0⟩ := kv
    simp only [setKey]
    by_cases h0 : k0 = k
    · subst h0
      simp only [↓reduceIte, lookupKey]
      by_cases h1 : k0 = k'
      · subst h1; simp
      · have h1' : ¬ k' = k0 := fun h => h1 h.symm
        simp [h1, h1']
    · simp only [h0, ↓reduceIte, lookupKey, ih]
      by_cases h1 : k0 = k'
      · subst h1; simp [h0]
      · simp [h1]

/-- `lhs[k]` as the loop sees the mapping it is building: the entries, then what is buffered. -/
def look (k : Key) (st : DState) : Option Node := lookupKey k (st.entries ++ st.buffer)

theorem lookupKey_isSome_iff (k : Key) (es : List (Key × Node)) : (lookupKey k es).isSome ↔ k ∈ keys es := by
  cases h : lookupKey k es with
  | none => simp [(lookupKey_none_iff k es).mp h]
  | some v =>
    simp only [Option.isSome_some, true_iff]
    exact Classical.byContradiction (fun hc => by rw [(lookupKey_none_iff k es).mpr hc] at h; cases h)

/-- Buffered keys are not keys of the entries. -/
def Disj (st : DState) : Prop := ∀ k ∈ keys st.buffer, k ∉ keys st.entries

theorem look_flush (k : Key) (st : DState) (hd : Disj st) : look k (flush st) = look k st := by
  have hb : (flush st).buffer = [] := rfl
  simp only [look, hb, List.append_nil, flush_entries, lookupKey_append]
  cases hB : lookupKey k st.buffer with
  | none =>
    simp only [Option.or_none]
    rw [← lookupKey_append, List.take_append_drop]
  | some v =>
    have hkB : k ∈ keys st.buffer := (lookupKey_isSome_iff k _).mp (by simp [hB])
    have hkE := hd k hkB
    have h1 : lookupKey k (st.entries.take st.pos) = none := by
      apply (lookupKey_none_iff _ _).mpr
      intro h; apply hkE
      simp only [keys, List.map_take] at h ⊢; exact List.mem_of_mem_take h
    have h2 : lookupKey k st.entries = none := (lookupKey_none_iff _ _).mpr hkE
    simp [h1, h2]

theorem Disj_nil (E : List (Key × Node)) (p : Nat) : Disj ⟨E, [], p⟩ := by
  intro k hk; simp [keys] at hk

theorem dictLoop_look_notin (env : Env) (par : Node) (k' : Key) :
    ∀ (res : List (Key × Node)) (st st' : DState), dictLoop env par res st = .ok st' → Disj st →
      k' ∉ keys res → look k' st' = look k' st := by
  intro res
  induction res with
  | nil => intro st st' h _ _; simp only [dictLoop] at h; cases h; rfl
  | cons kv rest ih =>
    obtain ⟨k, val⟩ := kv
    intro st st' h hd hk'
    have hne : k ≠ k' := by intro e; apply hk'; simp [keys, e]
    have hk'r : k' ∉ keys rest := by intro e; apply hk'; simp only [keys, List.map_cons, List.mem_cons] at e ⊢; exact .inr e
    simp only [dictLoop] at h
    cases hl : lookupKey k st.entries with
    | none =>
      rw [hl] at h
      have hkE : k ∉ keys st.entries := (lookupKey_none_iff k st.entries).mp hl
      rw [ih _ _ h ?_ hk'r]
      · simp only [look, ← List.append_assoc]
        rw [lookupKey_append]
        simp [lookupKey, hne]
      · intro k2 hk2
        simp only [keys_append, List.mem_append] at hk2
        rcases hk2 with hk2 | hk2
        · exact hd k2 hk2
        · simp [keys] at hk2; subst hk2; exact hkE
    | some lv =>
      rw [hl] at h
      simp only at h
      have hfl := look_flush k' st hd
      have key : ∀ v p, look k' ⟨setKey k v (flush st).entries, [], p⟩ = look k' st := by
        intro v p
        rw [← hfl]
        have hb : (flush st).buffer = [] := rfl
        have hne' : ¬ k' = k := fun e => hne e.symm
        simp only [look, hb, List.append_nil, lookupKey_setKey, hne', ↓reduceIte]
      cases hs : shortCircuit env ⟨val, some par, some (.key k)⟩ with
      | error e => rw [hs] at h; cases h
      | ok sc =>
        rw [hs] at h
        cases sc with
        | keepLeft => rw [ih _ _ h (Disj_nil _ _) hk'r]; exact hfl
        | takeRight => rw [ih _ _ h (Disj_nil _ _) hk'r]; exact key _ _
        | goDeep =>
          simp only at h
          cases hm : mergeVal env lv ⟨val, some par, some (.key k)⟩ val with
          | error e => rw [hm] at h; cases h
          | ok m => rw [hm] at h; rw [ih _ _ h (Disj_nil _ _) hk'r]; exact key _ _


theorem look_entries_of_notin_buffer (k : Key) (st : DState) (h : k ∉ keys st.buffer) :
    look k st = lookupKey k st.entries := by
  simp only [look, lookupKey_append, (lookupKey_none_iff k st.buffer).mpr h, Option.or_none]

theorem lookupKey_cons_ne {k k' : Key} (v : Node) (rest : List (Key × Node)) (h : k ≠ k') :
    lookupKey k' ((k, v) :: rest) = lookupKey k' rest := by
  simp [lookupKey, h]

theorem lookupKey_mem_keys {k : Key} {es : List (Key × Node)} {v : Node} (h : lookupKey k es = some v) :
    k ∈ keys es := (lookupKey_isSome_iff k es).mp (by simp [h])

/-- The per-key content of the `_merge_dicts` loop. -/
theorem dictLoop_look (env : Env) (par : Node) :
    ∀ (res : List (Key × Node)) (st st' : DState), dictLoop env par res st = .ok st' → Disj st →
      (keys res).Nodup → (∀ k ∈ keys res, k ∉ keys st.buffer) →
      ∀ k' rv, lookupKey k' res = some rv →
        Merged env par k' (lookupKey k' st.entries) rv (look k' st') := by
  intro res
  induction res with
  | nil => intro st st' _ _ _ _ k' rv hrv; simp [lookupKey] at hrv
  | cons kv rest ih =>
    obtain ⟨k, val⟩ := kv
    intro st st' h hd hnd hfresh k' rv hrv
    have hnd' : (keys rest).Nodup := by
      simp only [keys, List.map_cons, List.nodup_cons] at hnd ⊢; exact hnd.2
    have hk_rest : k ∉ keys rest := by
      simp only [keys, List.map_cons, List.nodup_cons] at hnd ⊢; exact hnd.1
    have hkB : k ∉ keys st.buffer := hfresh k (by simp [keys])
    have hfr : ∀ k2 ∈ keys rest, k2 ∉ keys st.buffer := fun k2 h2 =>
      hfresh k2 (by simp only [keys, List.map_cons, List.mem_cons] at h2 ⊢; exact .inr h2)
    simp only [dictLoop] at h
    cases hl : lookupKey k st.entries with
    | none =>
      rw [hl] at h
      have hkE : k ∉ keys st.entries := (lookupKey_none_iff k st.entries).mp hl
      have hd2 : Disj { st with buffer := st.buffer ++ [(k, val)], pos := st.pos + 1 } := by
        intro k2 hk2
        simp only [keys_append, List.mem_append] at hk2
        rcases hk2 with hk2 | hk2
        · exact hd k2 hk2
        · simp [keys] at hk2; subst hk2; exact hkE
      by_cases hkk : k = k'
      · subst hkk
        simp only [lookupKey, ↓reduceIte, Option.some.injEq] at hrv
        subst hrv
        rw [hl, dictLoop_look_notin env par k rest _ _ h hd2 hk_rest]
        have : look k { st with buffer := st.buffer ++ [(k, val)], pos := st.pos + 1 } = some val := by
          simp only [look, ← List.append_assoc]
          rw [lookupKey_append]
          have : lookupKey k (st.entries ++ st.buffer) = none := by
            apply (lookupKey_none_iff _ _).mpr
            simp only [keys_append, List.mem_append, not_or]; exact ⟨hkE, hkB⟩
          simp [this, lookupKey]
        rw [this]; exact Merged.rightOnly _
      · rw [lookupKey_cons_ne _ _ hkk] at hrv
        refine ih _ _ h hd2 hnd' ?_ k' rv hrv
        intro k2 hk2
        simp only [keys_append, List.mem_append, not_or]
        refine ⟨hfr k2 hk2, ?_⟩
        simp [keys]; rintro rfl; exact hk_rest hk2
    | some lv =>
      rw [hl] at h
      simp only at h
      have hb : (flush st).buffer = [] := rfl
      have hkE1 : lookupKey k (flush st).entries = some lv := by
        have := look_flush k st hd
        rw [look_entries_of_notin_buffer k st hkB] at this
        rw [← hl, ← this]; simp [look, hb]
      have hfr1 : ∀ E p, ∀ k2 ∈ keys rest, k2 ∉ keys ({ entries := E, buffer := [], pos := p } : DState).buffer := by
        intro E p k2 _; simp [keys]
      -- what the three continuations have in common
      have fin : ∀ (E : List (Key × Node)) (p : Nat) (out : Node),
          dictLoop env par rest ⟨E, [], p⟩ = .ok st' →
          lookupKey k E = some out →
          (∀ k2, k2 ≠ k → lookupKey k2 E = lookupKey k2 (flush st).entries) →
          Merged env par k (some lv) val (some out) →
          Merged env par k' (lookupKey k' st.entries) rv (look k' st') := by
        intro E p out hdl hout hoth hM
        by_cases hkk : k = k'
        · subst hkk
          simp only [lookupKey, ↓reduceIte, Option.some.injEq] at hrv
          subst hrv
          rw [hl, dictLoop_look_notin env par k rest _ _ hdl (Disj_nil _ _) hk_rest]
          simp only [look, List.append_nil, hout]; exact hM
        · rw [lookupKey_cons_ne _ _ hkk] at hrv
          have := ih _ _ hdl (Disj_nil _ _) hnd' (hfr1 E p) k' rv hrv
          have hk'B : k' ∉ keys st.buffer := hfr k' (lookupKey_mem_keys hrv)
          have e1 : lookupKey k' E = lookupKey k' st.entries := by
            rw [hoth k' (fun e => hkk e.symm)]
            have := look_flush k' st hd
            rw [look_entries_of_notin_buffer k' st hk'B] at this
            rw [← this]; simp [look, hb]
          simpa only [e1] using this
      have hset : ∀ v, lookupKey k (setKey k v (flush st).entries) = some v := by
        intro v; simp [lookupKey_setKey, hkE1]
      have hoth : ∀ v, ∀ k2, k2 ≠ k → lookupKey k2 (setKey k v (flush st).entries) = lookupKey k2 (flush st).entries := by
        intro v k2 h2; simp [lookupKey_setKey, h2]
      cases hs : shortCircuit env ⟨val, some par, some (.key k)⟩ with
      | error e => rw [hs] at h; cases h
      | ok sc =>
        rw [hs] at h
        cases sc with
        | keepLeft => exact fin _ _ lv h hkE1 (fun _ _ => rfl) (Merged.keepLeft _ _ hs)
        | takeRight => exact fin _ _ val h (hset _) (hoth _) (Merged.takeRight _ _ hs)
        | goDeep =>
          simp only at h
          cases hm : mergeVal env lv ⟨val, some par, some (.key k)⟩ val with
          | error e => rw [hm] at h; cases h
          | ok m =>
            rw [hm] at h
            exact fin _ _ m h (hset _) (hoth _) (Merged.deep _ _ _ hs hm)

/-- The key set of the mapping under construction only grows, by exactly the right-hand keys. -/
theorem dictLoop_mem_keys (env : Env) (par : Node) (k' : Key) :
    ∀ (res : List (Key × Node)) (st st' : DState), dictLoop env par res st = .ok st' →
      (k' ∈ keys (st'.entries ++ st'.buffer) ↔ k' ∈ keys (st.entries ++ st.buffer) ∨ k' ∈ keys res) := by
  intro res
  induction res with
  | nil => intro st st' h; simp only [dictLoop] at h; cases h; simp [keys]
  | cons kv rest ih =>
    obtain ⟨k, val⟩ := kv
    intro st st' h
    simp only [dictLoop] at h
    cases hl : lookupKey k st.entries with
    | none =>
      rw [hl] at h
      rw [ih _ _ h]
      show (k' ∈ keys (st.entries ++ (st.buffer ++ [(k, val)])) ∨ k' ∈ keys rest) ↔ _
      have e1 : keys [(k, val)] = [k] := rfl
      have e2 : keys ((k, val) :: rest) = k :: keys rest := rfl
      simp only [keys_append, List.mem_append, e1, e2, List.mem_cons]
      grind
    | some lv =>
      rw [hl] at h
      simp only at h
      have hkE : k ∈ keys st.entries := lookupKey_mem_keys hl
      have fin : ∀ E p, keys E = keys (flush st).entries → dictLoop env par rest ⟨E, [], p⟩ = .ok st' →
          (k' ∈ keys (st'.entries ++ st'.buffer) ↔ k' ∈ keys (st.entries ++ st.buffer) ∨ k' ∈ keys ((k, val) :: rest)) := by
        intro E p hE hdl
        rw [ih _ _ hdl]
        simp only [List.append_nil, hE, mem_keys_flush, keys_append, List.mem_append]
        simp only [keys, List.map_cons, List.mem_cons]
        constructor
        · rintro (h1 | h1)
          · exact .inl h1
          · exact .inr (.inr h1)
        · rintro (h1 | h1 | h1)
          · exact .inl h1
          · subst h1; exact .inl (.inl hkE)
          · exact .inr h1
      cases hs : shortCircuit env ⟨val, some par, some (.key k)⟩ with
      | error e => rw [hs] at h; cases h
      | ok sc =>
        rw [hs] at h
        cases sc with
        | keepLeft => exact fin _ _ rfl h
        | takeRight => exact fin _ _ (keys_setKey _ _ _) h
        | goDeep =>
          simp only at h
          cases hm : mergeVal env lv ⟨val, some par, some (.key k)⟩ val with
          | error e => rw [hm] at h; cases h
          | ok m => rw [hm] at h; exact fin _ _ (keys_setKey _ _ _) h

/-! ## Array-of-Hashes DEEP merges by identity key -/

theorem find?_decomp (p : Node → Bool) (new : Node) : ∀ (xs : List Node) (lh : Node), xs.find? p = some lh →
    ∃ pre post, xs = pre ++ lh :: post ∧ (∀ x ∈ pre, p x = false) ∧ p lh = true ∧
      replaceFirst p new xs = pre ++ new :: post := by
  intro xs
  induction xs with
  | nil => intro lh h; cases h
  | cons x rest ih =>
    intro lh h
    simp only [List.find?_cons] at h
    cases hp : p x with
    | true =>
      rw [hp] at h; cases h
      exact ⟨[], rest, rfl, (by intro y hy; cases hy), hp, (by simp [replaceFirst, hp])⟩
    | false =>
      rw [hp] at h
      obtain ⟨pre, post, e, hpre, hlh, hrep⟩ := ih lh h
      refine ⟨x :: pre, post, by rw [e]; rfl, ?_, hlh, ?_⟩
      · intro y hy
        rcases List.mem_cons.mp hy with rfl | hy
        · exact hp
        · exact hpre y hy
      · simp [replaceFirst, hp, hrep]

theorem find?_of_decomp (p : Node → Bool) (pre : List Node) (lh : Node) (post : List Node)
    (hpre : ∀ x ∈ pre, p x = false) (hlh : p lh = true) : (pre ++ lh :: post).find? p = some lh := by
  induction pre with
  | nil => simp [hlh]
  | cons x rest ih =>
    simp only [List.cons_append, List.find?_cons, hpre x (List.mem_cons_self)]
    exact ih (fun y hy => hpre y (List.mem_cons_of_mem _ hy))

/-- `aohDeepStep` on a record is exactly `Spec.AohStep`. -/
theorem aohDeepStep_iff (env : Env) (idKey : Key) (litems : List Node) (a : Option Str)
    (es : List (Key × Node)) (out : List Node) :
    aohDeepStep env idKey litems (.map a es) = .ok out ↔ AohStep env idKey litems a es out := by
  simp only [aohDeepStep, recordGet]
  constructor
  · intro h
    cases hid : lookupKey idKey es with
    | none => rw [hid] at h; cases h
    | some idv =>
      rw [hid] at h
      simp only at h
      cases hf : litems.find? (recordMatches env idKey (typedNode env idv)) with
      | none =>
        rw [hf] at h; cases h
        refine AohStep.append idv hid ?_
        intro x hx
        have := List.find?_eq_none.mp hf x hx
        simpa using this
      | some lh =>
        rw [hf] at h
        simp only at h
        have hmd : dictWrap lh (dictLoop env (.map a es) es) = mergeDicts env lh (.map a es) es := rfl
        rw [hmd] at h
        cases hm : mergeDicts env lh (.map a es) es with
        | error e => rw [hm] at h; cases h
        | ok m =>
          rw [hm] at h
          obtain ⟨pre, post, e, hpre, hlh, hrep⟩ := find?_decomp _ m litems lh hf
          simp only [hrep] at h; cases h
          exact AohStep.merge idv pre lh post m hid e hpre hlh hm
  · intro h
    cases h with
    | append idv hid hall =>
      rw [hid]
      simp only
      have : litems.find? (recordMatches env idKey (typedNode env idv)) = none := by
        apply List.find?_eq_none.mpr
        intro x hx; simp [hall x hx]
      rw [this]
    | merge idv pre lh post m hid e hpre hlh hm =>
      rw [hid]
      simp only
      have hf := find?_of_decomp _ pre lh post hpre hlh
      rw [← e] at hf
      rw [hf]
      simp only
      have hmd : dictWrap lh (dictLoop env (.map a es) es) = mergeDicts env lh (.map a es) es := rfl
      rw [hmd, hm]
      obtain ⟨pre', post', e', hpre', hlh', hrep'⟩ := find?_decomp _ m litems lh hf
      simp only [hrep']
      -- the decomposition at the first match is unique
      have : pre' = pre ∧ post' = post := by
        rw [e] at e'
        clear hf hrep' hm e
        induction pre generalizing pre' with
        | nil =>
          cases pre' with
          | nil => simp at e'; exact ⟨rfl, e'.symm⟩
          | cons y ys =>
            simp only [List.nil_append, List.cons_append, List.cons.injEq] at e'
            have := hpre' y (List.mem_cons_self)
            rw [← e'.1, hlh] at this; cases this
        | cons x xs ih =>
          cases pre' with
          | nil =>
            simp only [List.nil_append, List.cons_append, List.cons.injEq] at e'
            have := hpre x (List.mem_cons_self)
            rw [e'.1, hlh'] at this; cases this
          | cons y ys =>
            simp only [List.cons_append, List.cons.injEq] at e'
            obtain ⟨h1, h2⟩ := ih (fun z hz => hpre z (List.mem_cons_of_mem _ hz)) ys e'.2
              (fun z hz => hpre' z (List.mem_cons_of_mem _ hz))
            exact ⟨by rw [e'.1, h1], h2⟩
      rw [this.1, this.2]

theorem aohDeepStep_nonmap (env : Env) (idKey : Key) (litems : List Node) (ele : Node)
    (h : isMap ele = false) : aohDeepStep env idKey litems ele = .error .merge := by
  cases ele <;> simp_all [aohDeepStep, isMap]

/-- `aohDeepLoop` is exactly `Spec.AohDeep`. -/
theorem aohDeepLoop_iff (env : Env) (idKey : Key) : ∀ (eles litems out : List Node),
    aohDeepLoop env idKey eles litems = .ok out ↔ AohDeep env idKey litems eles out := by
  intro eles
  induction eles with
  | nil =>
    intro litems out
    simp only [aohDeepLoop]
    constructor
    · intro h; cases h; exact AohDeep.nil _
    · intro h; cases h; rfl
  | cons ele rest ih =>
    intro litems out
    simp only [aohDeepLoop]
    constructor
    · intro h
      cases hs : aohDeepStep env idKey litems ele with
      | error e => rw [hs] at h; cases h
      | ok l1 =>
        rw [hs] at h
        simp only at h
        cases ele with
        | map a es => exact AohDeep.cons _ l1 _ a es rest ((aohDeepStep_iff ..).mp hs) ((ih _ _).mp h)
        | scalar a v => simp [aohDeepStep] at hs
        | seq a v => simp [aohDeepStep] at hs
        | set a v => simp [aohDeepStep] at hs
    · intro h
      cases h with
      | cons _ l1 _ a es _ hstep hrest =>
        rw [(aohDeepStep_iff ..).mpr hstep]
        exact (ih _ _).mpr hrest


theorem getElem?_replace_ne {α : Type} (pre post : List α) (a b : α) (i : Nat) (h : i ≠ pre.length) :
    (pre ++ b :: post)[i]? = (pre ++ a :: post)[i]? := by
  simp only [List.getElem?_append]
  split
  · rfl
  · have : i - pre.length = (i - pre.length - 1) + 1 := by omega
    rw [this]; simp

theorem AohStep_length {env : Env} {idKey : Key} {litems : List Node} {a : Option Str}
    {es : List (Key × Node)} {out : List Node} (h : AohStep env idKey litems a es out) :
    litems.length ≤ out.length ∧ out.length ≤ litems.length + 1 := by
  cases h with
  | append idv _ _ => simp
  | merge idv pre lh post m _ e _ _ _ => subst e; simp

/-- A left-hand element that does not carry the record's identity stays where it is. -/
theorem AohStep_keeps {env : Env} {idKey : Key} {litems : List Node} {a : Option Str}
    {es : List (Key × Node)} {out : List Node} (h : AohStep env idKey litems a es out)
    (i : Nat) (x : Node) (hx : litems[i]? = some x)
    (hno : ∀ idv, lookupKey idKey es = some idv → recordMatches env idKey (typedNode env idv) x = false) :
    out[i]? = some x := by
  cases h with
  | append idv _ _ =>
    have hi : i < litems.length := by
      cases Nat.lt_or_ge i litems.length with
      | inl h => exact h
      | inr h => rw [List.getElem?_eq_none h] at hx; cases hx
    rw [List.getElem?_append_left hi]; exact hx
  | merge idv pre lh post m hid e _ hlh _ =>
    subst e
    have hne : i ≠ pre.length := by
      intro hi
      subst hi
      simp at hx
      subst hx
      rw [hno idv hid] at hlh; cases hlh
    rw [getElem?_replace_ne pre post lh m i hne]; exact hx

theorem AohDeep_length {env : Env} {idKey : Key} {litems ritems out : List Node}
    (h : AohDeep env idKey litems ritems out) :
    litems.length ≤ out.length ∧ out.length ≤ litems.length + ritems.length := by
  induction h with
  | nil l => simp
  | cons l l1 out a es rest hstep _ ih =>
    have := AohStep_length hstep
    simp only [List.length_cons]; omega

theorem AohDeep_keeps {env : Env} {idKey : Key} {litems ritems out : List Node}
    (h : AohDeep env idKey litems ritems out) (i : Nat) (x : Node) (hx : litems[i]? = some x)
    (hno : ∀ a es idv, Node.map a es ∈ ritems → lookupKey idKey es = some idv →
      recordMatches env idKey (typedNode env idv) x = false) :
    out[i]? = some x := by
  induction h with
  | nil l => exact hx
  | cons l l1 out a es rest hstep _ ih =>
    apply ih (AohStep_keeps hstep i x hx (fun idv hid => hno a es idv (List.mem_cons_self) hid))
    intro a' es' idv hmem hid
    exact hno a' es' idv (List.mem_cons_of_mem _ hmem) hid

/-- A successful `_merge_dicts` into a mapping is the loop's final state: entries, then what is still
buffered. -/
theorem mergeDicts_shape (env : Env) (la : Option Str) (l : List (Key × Node)) (par : Node)
    (r : List (Key × Node)) (m : Node) (h : mergeDicts env (.map la l) par r = .ok m) :
    ∃ st, dictLoop env par r ⟨l, [], 0⟩ = .ok st ∧ m = .map la (st.entries ++ st.buffer) := by
  unfold mergeDicts dictWrap at h
  simp only at h
  cases hl : dictLoop env par r ⟨l, [], 0⟩ with
  | error e => rw [hl] at h; cases h
  | ok st => rw [hl] at h; cases h; exact ⟨st, rfl, rfl⟩

/-- A list is duplicate-free when its two halves under a predicate are. -/
theorem nodup_of_filter {α : Type} [DecidableEq α] (p : α → Bool) : ∀ (xs : List α),
    (xs.filter p).Nodup → (xs.filter (fun x => !p x)).Nodup → xs.Nodup := by
  intro xs
  induction xs with
  | nil => intro _ _; exact List.nodup_nil
  | cons x rest ih =>
    intro h1 h2
    simp only [List.filter_cons] at h1 h2
    cases hp : p x with
    | true =>
      simp only [hp, ↓reduceIte, Bool.not_true, Bool.false_eq_true, List.nodup_cons] at h1 h2
      refine List.nodup_cons.mpr ⟨?_, ih h1.2 h2⟩
      intro hx; exact h1.1 (List.mem_filter.mpr ⟨hx, hp⟩)
    | false =>
      simp only [hp, Bool.false_eq_true, ↓reduceIte, Bool.not_false, List.nodup_cons] at h1 h2
      refine List.nodup_cons.mpr ⟨?_, ih h1 h2.2⟩
      intro hx; exact h2.1 (List.mem_filter.mpr ⟨hx, by simp [hp]⟩)

/-! ## Nothing is lost in an AoH DEEP merge (key level) -/

theorem KeysGrow_trans {x y z : Node} (h1 : KeysGrow x y) (h2 : KeysGrow y z) : KeysGrow x z := by
  cases h1 with
  | same => exact h2
  | grown a es es' h =>
    cases h2 with
    | same => exact KeysGrow.grown a es es' h
    | grown _ _ es'' h' => exact KeysGrow.grown a es es'' (fun k hk => h' k (h k hk))

/-- `y` is a Hash with at least the keys `K`. -/
def HasKeys (K : List Key) (y : Node) : Prop := ∃ a es, y = .map a es ∧ ∀ k ∈ K, k ∈ keys es

theorem HasKeys.grow {K : List Key} {y z : Node} (h : HasKeys K y) (hg : KeysGrow y z) : HasKeys K z := by
  cases hg with
  | same => exact h
  | grown a es es' hsub =>
    obtain ⟨a0, es0, e, hk⟩ := h
    cases e
    exact ⟨a, es', rfl, fun k hk' => hsub k (hk k hk')⟩

theorem getElem?_replace_eq {α : Type} (pre post : List α) (b : α) :
    (pre ++ b :: post)[pre.length]? = some b := by
  simp

theorem mergeDicts_KeysGrow (env : Env) (lh par : Node) (es : List (Key × Node)) (m : Node)
    (h : mergeDicts env lh par es = .ok m) : KeysGrow lh m ∧ HasKeys (keys es) m := by
  cases lh with
  | map la les =>
    obtain ⟨st, hl, rfl⟩ := mergeDicts_shape env la les par es m h
    have hk := fun k => dictLoop_mem_keys env par k es _ _ hl
    refine ⟨KeysGrow.grown la les _ (fun k hkl => (hk k).mpr (.inl (by simpa [keys] using hkl))),
      la, _, rfl, fun k hkr => (hk k).mpr (.inr hkr)⟩
  | scalar _ _ => simp [mergeDicts, dictWrap] at h
  | seq _ _ => simp [mergeDicts, dictWrap] at h
  | set _ _ => simp [mergeDicts, dictWrap] at h

theorem AohStep_grows {env : Env} {idKey : Key} {litems : List Node} {a : Option Str}
    {es : List (Key × Node)} {out : List Node} (h : AohStep env idKey litems a es out) :
    (∀ (i : Nat) (x : Node), litems[i]? = some x → ∃ y, out[i]? = some y ∧ KeysGrow x y) ∧
    ∃ (j : Nat) (y : Node), out[j]? = some y ∧ HasKeys (keys es) y := by
  cases h with
  | append idv _ _ =>
    refine ⟨?_, litems.length, .map a es, by simp, a, es, rfl, fun _ h => h⟩
    intro i x hx
    have hi : i < litems.length := by
      cases Nat.lt_or_ge i litems.length with
      | inl h => exact h
      | inr h => rw [List.getElem?_eq_none h] at hx; cases hx
    exact ⟨x, by rw [List.getElem?_append_left hi]; exact hx, KeysGrow.same x⟩
  | merge idv pre lh post m hid e _ hlh hm =>
    subst e
    have hg := mergeDicts_KeysGrow env lh _ es m hm
    refine ⟨?_, pre.length, m, getElem?_replace_eq pre post m, hg.2⟩
    intro i x hx
    by_cases hi : i = pre.length
    · subst hi
      rw [getElem?_replace_eq] at hx; cases hx
      exact ⟨m, getElem?_replace_eq pre post m, hg.1⟩
    · exact ⟨x, by rw [getElem?_replace_ne pre post lh m i hi]; exact hx, KeysGrow.same x⟩

theorem AohDeep_grows {env : Env} {idKey : Key} {litems ritems out : List Node}
    (h : AohDeep env idKey litems ritems out) :
    (∀ (i : Nat) (x : Node), litems[i]? = some x → ∃ y, out[i]? = some y ∧ KeysGrow x y) ∧
    (∀ a es, Node.map a es ∈ ritems → ∃ y ∈ out, HasKeys (keys es) y) := by
  induction h with
  | nil l => exact ⟨fun i x hx => ⟨x, hx, KeysGrow.same x⟩, by intro a es h; cases h⟩
  | cons l l1 out a es rest hstep _ ih =>
    obtain ⟨hs1, j, y, hj, hy⟩ := AohStep_grows hstep
    refine ⟨?_, ?_⟩
    · intro i x hx
      obtain ⟨y1, h1, g1⟩ := hs1 i x hx
      obtain ⟨y2, h2, g2⟩ := ih.1 i y1 h1
      exact ⟨y2, h2, KeysGrow_trans g1 g2⟩
    · intro a' es' hmem
      rcases List.mem_cons.mp hmem with e | hmem
      · cases e
        obtain ⟨y2, h2, g2⟩ := ih.1 j y hj
        exact ⟨y2, List.mem_of_getElem? h2, hy.grow g2⟩
      · exact ih.2 a' es' hmem

end Ypv.Merge
