import Ypv.Model.Keyword
/-!
# Lemmas for the keyword searches: the best-so-far invariant of the `max`/`min` scan

The scan of `KeywordSearches.max/min` keeps a best value, the members equal to it (`hits`) and
everything else (`discards`).  Against an order `le` on the comparable values that the two
comparisons of the loop decide (`better x b = ¬ le x b`, `equals x b = le x b ∧ le b x`), total and
transitive, the scan ends with `hits` = the members whose value is `≥` every comparable member's,
in document order, and `discards` = a permutation of all other members.
-/
namespace Ypv

/-- The comparable values of a list of members. -/
def candVals (cs : List Cand) : List Scalar := cs.filterMap (·.2)

/-- What the loop's two comparisons must decide for `le` to describe them. -/
structure ScanOrder (better : Method) (le : Scalar → Scalar → Bool) (vals : List Scalar) : Prop where
  total : ∀ x ∈ vals, ∀ y ∈ vals, le x y = true ∨ le y x = true
  trans : ∀ x ∈ vals, ∀ y ∈ vals, ∀ z ∈ vals, le x y = true → le y z = true → le x z = true
  better_iff : ∀ x ∈ vals, ∀ b ∈ vals, searchMatchesScalar noRx better x b = .ok (!le x b)
  equals_iff : ∀ x ∈ vals, ∀ b ∈ vals, searchMatchesScalar noRx .equals x b = .ok (le x b && le b x)

/-- `c` is at least as good as `b`. -/
def good (le : Scalar → Scalar → Bool) (b : Scalar) (c : Cand) : Bool :=
  match c.2 with
  | some x => le b x
  | none => false

/-- The loop invariant after the members `P`. -/
def ScanInv (le : Scalar → Scalar → Bool) (P : List Cand) (st : MM) : Prop :=
  (st.best = none ∧ candVals P = [] ∧ st.hits = [] ∧ st.discards = P.map (·.1)) ∨
  (∃ b, st.best = some b ∧ b ∈ candVals P ∧ (∀ y ∈ candVals P, le y b = true) ∧
        st.hits = (P.filter (good le b)).map (·.1) ∧
        List.Perm st.discards ((P.filter (fun c => !good le b c)).map (·.1)))

theorem candVals_append (a b : List Cand) : candVals (a ++ b) = candVals a ++ candVals b := by
  simp [candVals, List.filterMap_append]

theorem candVals_nil_filter (le : Scalar → Scalar → Bool) (b : Scalar) (P : List Cand) (h : candVals P = []) :
    P.filter (good le b) = [] := by
  rw [List.filter_eq_nil_iff]
  intro c hc
  cases hv : c.2 with
  | none => simp [good, hv]
  | some x =>
    have : x ∈ candVals P := by
      simp only [candVals, List.mem_filterMap]; exact ⟨c, hc, hv⟩
    rw [h] at this; cases this

theorem mem_candVals {c : Cand} {P : List Cand} {x : Scalar} (hc : c ∈ P) (hv : c.2 = some x) : x ∈ candVals P := by
  simp only [candVals, List.mem_filterMap]; exact ⟨c, hc, hv⟩

theorem filter_not_good_of_nil (le : Scalar → Scalar → Bool) (b : Scalar) (P : List Cand)
    (h : P.filter (good le b) = []) : P.filter (fun c => !good le b c) = P := by
  rw [List.filter_eq_self]
  intro c hc
  have := (List.filter_eq_nil_iff.mp h) c hc
  simp [this]

theorem perm_split (p : Cand → Bool) (P : List Cand) :
    List.Perm ((P.filter (fun c => !p c)).map (·.1) ++ (P.filter p).map (·.1)) (P.map (·.1)) := by
  rw [← List.map_append]
  apply List.Perm.map
  have := List.filter_append_perm p P
  exact (List.perm_append_comm).trans this

/-- One step of the scan preserves the invariant. -/
theorem mmStep_inv (better : Method) (le : Scalar → Scalar → Bool) (P : List Cand) (c : Cand) (st : MM)
    (ho : ScanOrder better le (candVals (P ++ [c]))) (hi : ScanInv le P st) :
    ∃ st', mmStep better st c = .ok st' ∧ ScanInv le (P ++ [c]) st' := by
  have hv_app : candVals (P ++ [c]) = candVals P ++ candVals [c] := candVals_append P [c]
  cases hv : c.2 with
  | none =>
    have hvc : candVals [c] = [] := by simp [candVals, hv]
    refine ⟨{ st with discards := st.discards ++ [c.1] }, by simp [mmStep, hv], ?_⟩
    rcases hi with ⟨h1, h2, h3, h4⟩ | ⟨b, h1, h2, h3, h4, h5⟩
    · left
      refine ⟨h1, by rw [hv_app, h2, hvc]; rfl, h3, by simp [h4]⟩
    · right
      refine ⟨b, h1, by rw [hv_app, hvc]; simpa using h2, by rw [hv_app, hvc]; simpa using h3, ?_, ?_⟩
      · simp [List.filter_append, good, hv, h4]
      · have : (List.filter (fun c => !good le b c) (P ++ [c])).map (·.1)
            = (P.filter (fun c => !good le b c)).map (·.1) ++ [c.1] := by
          simp [List.filter_append, good, hv]
        rw [this]
        exact List.Perm.append_right _ h5
  | some x =>
    have hvc : candVals [c] = [x] := by simp [candVals, hv]
    have hx : x ∈ candVals (P ++ [c]) := by rw [hv_app, hvc]; simp
    have hsub : ∀ y ∈ candVals P, y ∈ candVals (P ++ [c]) := by
      intro y hy; rw [hv_app]; exact List.mem_append_left _ hy
    have hxx : le x x = true := by rcases ho.total x hx x hx with h | h <;> exact h
    rcases hi with ⟨h1, h2, h3, h4⟩ | ⟨b, h1, h2, h3, h4, h5⟩
    · -- first comparable member
      refine ⟨{ best := some x, hits := [c.1], discards := st.discards ++ st.hits }, by simp [mmStep, hv, h1], ?_⟩
      right
      refine ⟨x, rfl, hx, ?_, ?_, ?_⟩
      · intro y hy
        rw [hv_app, h2, hvc] at hy
        have : y = x := by simpa using hy
        rw [this]; exact hxx
      · simp [List.filter_append, candVals_nil_filter le x P h2, good, hv, hxx]
      · have e1 : (List.filter (fun c => !good le x c) (P ++ [c])) = P := by
          simp only [List.filter_append]
          rw [filter_not_good_of_nil le x P (candVals_nil_filter le x P h2)]
          simp [good, hv, hxx]
        rw [e1, h3, h4]; simp
    · have hb : b ∈ candVals (P ++ [c]) := hsub b h2
      have hbetter := ho.better_iff x hx b hb
      have hequals := ho.equals_iff x hx b hb
      cases hxb : le x b with
      | false =>
        -- strictly better: new best
        refine ⟨{ best := some x, hits := [c.1], discards := st.discards ++ st.hits },
                by simp [mmStep, hv, h1, hbetter, hxb], ?_⟩
        right
        have hnone : P.filter (good le x) = [] := by
          rw [List.filter_eq_nil_iff]
          intro c' hc'
          cases hv' : c'.2 with
          | none => simp [good, hv']
          | some y =>
            have hy : y ∈ candVals P := mem_candVals hc' hv'
            have hyb := h3 y hy
            simp only [good, hv']
            intro hxy
            have := ho.trans x hx y (hsub y hy) b hb hxy hyb
            rw [hxb] at this; cases this
        have hbx : le b x = true := by
          rcases ho.total x hx b hb with h | h
          · rw [hxb] at h; cases h
          · exact h
        refine ⟨x, rfl, hx, ?_, ?_, ?_⟩
        · intro y hy
          rw [hv_app, hvc] at hy
          rcases List.mem_append.mp hy with hy | hy
          · exact ho.trans y (hsub y hy) b hb x hx (h3 y hy) hbx
          · have : y = x := by simpa using hy
            rw [this]; exact hxx
        · simp [List.filter_append, hnone, good, hv, hxx]
        · have e1 : (List.filter (fun c => !good le x c) (P ++ [c])) = P := by
            simp only [List.filter_append]
            rw [filter_not_good_of_nil le x P hnone]
            simp [good, hv, hxx]
          rw [e1, h4]
          exact (List.Perm.append_right _ h5).trans (perm_split (good le b) P)
      | true =>
        cases hbx : le b x with
        | true =>
          -- equal to the best: one more hit
          refine ⟨{ st with hits := st.hits ++ [c.1] }, by simp [mmStep, hv, h1, hbetter, hequals, hxb, hbx], ?_⟩
          right
          refine ⟨b, h1, hb, ?_, ?_, ?_⟩
          · intro y hy
            rw [hv_app, hvc] at hy
            rcases List.mem_append.mp hy with hy | hy
            · exact h3 y hy
            · have : y = x := by simpa using hy
              rw [this]; exact hxb
          · simp [List.filter_append, good, hv, hbx, h4]
          · have : (List.filter (fun c => !good le b c) (P ++ [c])) = P.filter (fun c => !good le b c) := by
              simp [List.filter_append, good, hv, hbx]
            rw [this]; exact h5
        | false =>
          -- worse: discarded
          refine ⟨{ st with discards := st.discards ++ [c.1] }, by simp [mmStep, hv, h1, hbetter, hequals, hxb, hbx], ?_⟩
          right
          refine ⟨b, h1, hb, ?_, ?_, ?_⟩
          · intro y hy
            rw [hv_app, hvc] at hy
            rcases List.mem_append.mp hy with hy | hy
            · exact h3 y hy
            · have : y = x := by simpa using hy
              rw [this]; exact hxb
          · simp [List.filter_append, good, hv, hbx, h4]
          · have : (List.filter (fun c => !good le b c) (P ++ [c])).map (·.1)
                = (P.filter (fun c => !good le b c)).map (·.1) ++ [c.1] := by
              simp [List.filter_append, good, hv, hbx]
            rw [this]
            exact List.Perm.append_right _ h5

/-- The whole scan preserves the invariant. -/
theorem mmScan_inv (better : Method) (le : Scalar → Scalar → Bool) :
    ∀ (R P : List Cand) (st : MM), ScanOrder better le (candVals (P ++ R)) → ScanInv le P st →
      ∃ st', mmScan better st R = .ok st' ∧ ScanInv le (P ++ R) st'
  | [], P, st, _, hi => ⟨st, rfl, by simpa using hi⟩
  | c :: R, P, st, ho, hi => by
    have hsplit : P ++ c :: R = (P ++ [c]) ++ R := by simp
    have ho1 : ScanOrder better le (candVals (P ++ [c])) := by
      have hsub : ∀ y ∈ candVals (P ++ [c]), y ∈ candVals (P ++ c :: R) := by
        intro y hy; rw [hsplit, candVals_append]; exact List.mem_append_left _ hy
      exact ⟨fun x hx y hy => ho.total x (hsub x hx) y (hsub y hy),
             fun x hx y hy z hz => ho.trans x (hsub x hx) y (hsub y hy) z (hsub z hz),
             fun x hx b hb => ho.better_iff x (hsub x hx) b (hsub b hb),
             fun x hx b hb => ho.equals_iff x (hsub x hx) b (hsub b hb)⟩
    obtain ⟨st1, hs1, hi1⟩ := mmStep_inv better le P c st ho1 hi
    obtain ⟨st2, hs2, hi2⟩ := mmScan_inv better le R (P ++ [c]) st1 (by rw [← hsplit]; exact ho) hi1
    refine ⟨st2, ?_, by rw [hsplit]; exact hi2⟩
    unfold mmScan; rw [hs1]; exact hs2

end Ypv
