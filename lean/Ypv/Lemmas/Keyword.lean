import Ypv.Model.Keyword
import Ypv.Lemmas.Compare
/-!
# Lemmas for the keyword searches: the best-so-far invariant of the `max`/`min` scan

The scan of `KeywordSearches.max/min` keeps a best value, the members equal to it (`hits`) and
everything else (`discards`).  Against an order `le` on the comparable values that the two
comparisons of the loop decide (`better x b = ¬ le x b`, `equals x b = le x b ∧ le b x`), total and
transitive, the scan ends with `hits` = the members whose value is `≥` every comparable member's,
in document order, and `discards` = a permutation of all other members.
-/
namespace Ypv

/-- The comparable values of a list of members. -/
def candVals (cs : List Cand) : List Scalar := cs.filterMap (·.2)

/-- What the loop's two comparisons must decide for `le` to describe them. -/
structure ScanOrder (better : Method) (le : Scalar → Scalar → Bool) (vals : List Scalar) : Prop where
  total : ∀ x ∈ vals, ∀ y ∈ vals, le x y = true ∨ le y x = true
  trans : ∀ x ∈ vals, ∀ y ∈ vals, ∀ z ∈ vals, le x y = true → le y z = true → le x z = true
  better_iff : ∀ x ∈ vals, ∀ b ∈ vals, searchMatchesScalar noRx better x b = .ok (!le x b)
  equals_iff : ∀ x ∈ vals, ∀ b ∈ vals, searchMatchesScalar noRx .equals x b = .ok (le x b && le b x)

/-- `c` is at least as good as `b`. -/
def good (le : Scalar → Scalar → Bool) (b : Scalar) (c : Cand) : Bool :=
  match c.2 with
  | some x => le b x
  | none => false

/-- The loop invariant after the members `P`. -/
def ScanInv (le : Scalar → Scalar → Bool) (P : List Cand) (st : MM) : Prop :=
  (st.best = none ∧ candVals P = [] ∧ st.hits = [] ∧ st.discards = P.map (·.1)) ∨
  (∃ b, st.best = some b ∧ b ∈ candVals P ∧ (∀ y ∈ candVals P, le y b = true) ∧
        st.hits = (P.filter (good le b)).map (·.1) ∧
        List.Perm st.discards ((P.filter (fun c => !good le b c)).map (·.1)))

theorem candVals_append (a b : List Cand) : candVals (a ++ b) = candVals a ++ candVals b := by
  simp [candVals, List.filterMap_append]

theorem candVals_nil_filter (le : Scalar → Scalar → Bool) (b : Scalar) (P : List Cand) (h : candVals P = []) :
    P.filter (good le b) = [] := by
  rw [List.filter_eq_nil_iff]
  intro c hc
  cases hv : c.2 with
  | none => simp [good, hv]
  | some x =>
    have : x ∈ candVals P := by
      simp only [candVals, List.mem_filterMap]; exact ⟨c, hc, hv⟩
    rw [h] at this; cases this

theorem mem_candVals {c : Cand} {P : List Cand} {x : Scalar} (hc : c ∈ P) (hv : c.2 = some x) : x ∈ candVals P := by
  simp only [candVals, List.mem_filterMap]; exact ⟨c, hc, hv⟩

theorem filter_not_good_of_nil (le : Scalar → Scalar → Bool) (b : Scalar) (P : List Cand)
    (h : P.filter (good le b) = []) : P.filter (fun c => !good le b c) = P := by
  rw [List.filter_eq_self]
  intro c hc
  have := (List.filter_eq_nil_iff.mp h) c hc
  simp [this]

theorem perm_split (p : Cand → Bool) (P : List Cand) :
    List.Perm ((P.filter (fun c => !p c)).map (·.1) ++ (P.filter p).map (·.1)) (P.map (·.1)) := by
  rw [← List.map_append]
  apply List.Perm.map
  have := List.filter_append_perm p P
  exact (List.perm_append_comm).trans this

/-- One step of the scan preserves the invariant. -/
theorem mmStep_inv (better : Method) (le : Scalar → Scalar → Bool) (P : List Cand) (c : Cand) (st : MM)
    (ho : ScanOrder better le (candVals (P ++ [c]))) (hi : ScanInv le P st) :
    ∃ st', mmStep better st c = .ok st' ∧ ScanInv le (P ++ [c]) st' := by
  have hv_app : candVals (P ++ [c]) = candVals P ++ candVals [c] := candVals_append P [c]
  cases hv : c.2 with
  | none =>
    have hvc : candVals [c] = [] := by simp [candVals, hv]
    refine ⟨{ st with discards := st.discards ++ [c.1] }, by simp [mmStep, hv], ?_⟩
    rcases hi with ⟨h1, h2, h3, h4⟩ | ⟨b, h1, h2, h3, h4, h5⟩
    · left
      refine ⟨h1, by rw [hv_app, h2, hvc]; rfl, h3, by simp [h4]⟩
    · right
      refine ⟨b, h1, by rw [hv_app, hvc]; simpa using h2, by rw [hv_app, hvc]; simpa using h3, ?_, ?_⟩
      · simp [List.filter_append, good, hv, h4]
      · have : (List.filter (fun c => !good le b c) (P ++ [c])).map (·.1)
            = (P.filter (fun c => !good le b c)).map (·.1) ++ [c.1] := by
          simp [List.filter_append, good, hv]
        rw [this]
        exact List.Perm.append_right _ h5
  | some x =>
    have hvc : candVals [c] = [x] := by simp [candVals, hv]
    have hx : x ∈ candVals (P ++ [c]) := by rw [hv_app, hvc]; simp
    have hsub : ∀ y ∈ candVals P, y ∈ candVals (P ++ [c]) := by
      intro y hy; rw [hv_app]; exact List.mem_append_left _ hy
    have hxx : le x x = true := by rcases ho.total x hx x hx with h | h <;> exact h
    rcases hi with ⟨h1, h2, h3, h4⟩ | ⟨b, h1, h2, h3, h4, h5⟩
    · -- first comparable member
      refine ⟨{ best := some x, hits := [c.1], discards := st.discards ++ st.hits }, by simp [mmStep, hv, h1], ?_⟩
      right
      refine ⟨x, rfl, hx, ?_, ?_, ?_⟩
      · intro y hy
        rw [hv_app, h2, hvc] at hy
        have : y = x := by simpa using hy
        rw [this]; exact hxx
      · simp [List.filter_append, candVals_nil_filter le x P h2, good, hv, hxx]
      · have e1 : (List.filter (fun c => !good le x c) (P ++ [c])) = P := by
          simp only [List.filter_append]
          rw [filter_not_good_of_nil le x P (candVals_nil_filter le x P h2)]
          simp [good, hv, hxx]
        rw [e1, h3, h4]; simp
    · have hb : b ∈ candVals (P ++ [c]) := hsub b h2
      have hbetter := ho.better_iff x hx b hb
      have hequals := ho.equals_iff x hx b hb
      cases hxb : le x b with
      | false =>
        -- strictly better: new best
        refine ⟨{ best := some x, hits := [c.1], discards := st.discards ++ st.hits },
                by simp [mmStep, hv, h1, hbetter, hxb], ?_⟩
        right
        have hnone : P.filter (good le x) = [] := by
          rw [List.filter_eq_nil_iff]
          intro c' hc'
          cases hv' : c'.2 with
          | none => simp [good, hv']
          | some y =>
            have hy : y ∈ candVals P := mem_candVals hc' hv'
            have hyb := h3 y hy
            simp only [good, hv']
            intro hxy
            have := ho.trans x hx y (hsub y hy) b hb hxy hyb
            rw [hxb] at this; cases this
        have hbx : le b x = true := by
          rcases ho.total x hx b hb with h | h
          · rw [hxb] at h; cases h
          · exact h
        refine ⟨x, rfl, hx, ?_, ?_, ?_⟩
        · intro y hy
          rw [hv_app, hvc] at hy
          rcases List.mem_append.mp hy with hy | hy
          · exact ho.trans y (hsub y hy) b hb x hx (h3 y hy) hbx
          · have : y = x := by simpa using hy
            rw [this]; exact hxx
        · simp [List.filter_append, hnone, good, hv, hxx]
        · have e1 : (List.filter (fun c => !good le x c) (P ++ [c])) = P := by
            simp only [List.filter_append]
            rw [filter_not_good_of_nil le x P hnone]
            simp [good, hv, hxx]
          rw [e1, h4]
          exact (List.Perm.append_right _ h5).trans (perm_split (good le b) P)
      | true =>
        cases hbx : le b x with
        | true =>
          -- equal to the best: one more hit
          refine ⟨{ st with hits := st.hits ++ [c.1] }, by simp [mmStep, hv, h1, hbetter, hequals, hxb, hbx], ?_⟩
          right
          refine ⟨b, h1, hb, ?_, ?_, ?_⟩
          · intro y hy
            rw [hv_app, hvc] at hy
            rcases List.mem_append.mp hy with hy | hy
            · exact h3 y hy
            · have : y = x := by simpa using hy
              rw [this]; exact hxb
          · simp [List.filter_append, good, hv, hbx, h4]
          · have : (List.filter (fun c => !good le b c) (P ++ [c])) = P.filter (fun c => !good le b c) := by
              simp [List.filter_append, good, hv, hbx]
            rw [this]; exact h5
        | false =>
          -- worse: discarded
          refine ⟨{ st with discards := st.discards ++ [c.1] }, by simp [mmStep, hv, h1, hbetter, hequals, hxb, hbx], ?_⟩
          right
          refine ⟨b, h1, hb, ?_, ?_, ?_⟩
          · intro y hy
            rw [hv_app, hvc] at hy
            rcases List.mem_append.mp hy with hy | hy
            · exact h3 y hy
            · have : y = x := by simpa using hy
              rw [this]; exact hxb
          · simp [List.filter_append, good, hv, hbx, h4]
          · have : (List.filter (fun c => !good le b c) (P ++ [c])).map (·.1)
                = (P.filter (fun c => !good le b c)).map (·.1) ++ [c.1] := by
              simp [List.filter_append, good, hv, hbx]
            rw [this]
            exact List.Perm.append_right _ h5

/-- The whole scan preserves the invariant. -/
theorem mmScan_inv (better : Method) (le : Scalar → Scalar → Bool) :
    ∀ (R P : List Cand) (st : MM), ScanOrder better le (candVals (P ++ R)) → ScanInv le P st →
      ∃ st', mmScan better st R = .ok st' ∧ ScanInv le (P ++ R) st'
  | [], P, st, _, hi => ⟨st, rfl, by simpa using hi⟩
  | c :: R, P, st, ho, hi => by
    have hsplit : P ++ c :: R = (P ++ [c]) ++ R := by simp
    have ho1 : ScanOrder better le (candVals (P ++ [c])) := by
      have hsub : ∀ y ∈ candVals (P ++ [c]), y ∈ candVals (P ++ c :: R) := by
        intro y hy; rw [hsplit, candVals_append]; exact List.mem_append_left _ hy
      exact ⟨fun x hx y hy => ho.total x (hsub x hx) y (hsub y hy),
             fun x hx y hy z hz => ho.trans x (hsub x hx) y (hsub y hy) z (hsub z hz),
             fun x hx b hb => ho.better_iff x (hsub x hx) b (hsub b hb),
             fun x hx b hb => ho.equals_iff x (hsub x hx) b (hsub b hb)⟩
    obtain ⟨st1, hs1, hi1⟩ := mmStep_inv better le P c st ho1 hi
    obtain ⟨st2, hs2, hi2⟩ := mmScan_inv better le R (P ++ [c]) st1 (by rw [← hsplit]; exact ho) hi1
    refine ⟨st2, ?_, by rw [hsplit]; exact hi2⟩
    unfold mmScan; rw [hs1]; exact hs2

/-! ## Python `==` on scalars (`pyEq`) is an equivalence relation -/

theorem pyEq_num {a b : Scalar} {m1 e1 m2 e2 : Int} (ha : pyEq.typedKey a = some (m1, e1))
    (hb : pyEq.typedKey b = some (m2, e2)) : pyEq a b = (decCmp m1 e1 m2 e2 == .eq) := by
  unfold pyEq; rw [ha, hb]

theorem pyEq_plain {a b : Scalar} (ha : pyEq.typedKey a = none) (hb : pyEq.typedKey b = none) :
    pyEq a b = (a == b) := by
  unfold pyEq; rw [ha, hb]

theorem pyEq_num_plain {a b : Scalar} {p : Int × Int} (ha : pyEq.typedKey a = some p)
    (hb : pyEq.typedKey b = none) : pyEq a b = false := by
  unfold pyEq; rw [ha, hb]

theorem pyEq_plain_num {a b : Scalar} {p : Int × Int} (ha : pyEq.typedKey a = none)
    (hb : pyEq.typedKey b = some p) : pyEq a b = false := by
  unfold pyEq; rw [ha, hb]

theorem pyEq_refl (a : Scalar) : pyEq a a = true := by
  cases h : pyEq.typedKey a with
  | none => rw [pyEq_plain h h]; simp
  | some p => obtain ⟨m, e⟩ := p; rw [pyEq_num h h, decCmp_refl]; rfl

theorem pyEq_symm (a b : Scalar) : pyEq a b = pyEq b a := by
  cases ha : pyEq.typedKey a with
  | none =>
    cases hb : pyEq.typedKey b with
    | none => rw [pyEq_plain ha hb, pyEq_plain hb ha, Bool.eq_iff_iff, beq_iff_eq, beq_iff_eq]; exact eq_comm
    | some q => rw [pyEq_plain_num ha hb, pyEq_num_plain hb ha]
  | some p =>
    obtain ⟨m1, e1⟩ := p
    cases hb : pyEq.typedKey b with
    | none => rw [pyEq_num_plain ha hb, pyEq_plain_num hb ha]
    | some q =>
      obtain ⟨m2, e2⟩ := q
      rw [pyEq_num ha hb, pyEq_num hb ha, decCmp_eq_eq, decCmp_eq_eq, Bool.and_comm]

theorem pyEq_trans (a b c : Scalar) (h1 : pyEq a b = true) (h2 : pyEq b c = true) : pyEq a c = true := by
  cases hb : pyEq.typedKey b with
  | none =>
    cases ha : pyEq.typedKey a with
    | some p => rw [pyEq_num_plain ha hb] at h1; cases h1
    | none =>
      cases hc : pyEq.typedKey c with
      | some p => rw [pyEq_plain_num hb hc] at h2; cases h2
      | none =>
        rw [pyEq_plain ha hb] at h1; rw [pyEq_plain hb hc] at h2; rw [pyEq_plain ha hc]
        have e1 : a = b := by simpa using h1
        have e2 : b = c := by simpa using h2
        simp [e1, e2]
  | some q =>
    obtain ⟨m2, e2⟩ := q
    cases ha : pyEq.typedKey a with
    | none => rw [pyEq_plain_num ha hb] at h1; cases h1
    | some p =>
      obtain ⟨m1, e1⟩ := p
      cases hc : pyEq.typedKey c with
      | none => rw [pyEq_num_plain hb hc] at h2; cases h2
      | some r =>
        obtain ⟨m3, e3⟩ := r
        rw [pyEq_num ha hb, beq_iff_eq] at h1; rw [pyEq_num hb hc, beq_iff_eq] at h2
        rw [pyEq_num ha hc, beq_iff_eq]
        exact decCmp_eq_trans _ _ _ _ _ _ h1 h2

/-- Equal values have the same equal values. -/
theorem pyEq_congr_left {a b : Scalar} (h : pyEq a b = true) (c : Scalar) : pyEq a c = pyEq b c := by
  rw [Bool.eq_iff_iff]
  constructor
  · intro h'; exact pyEq_trans b a c (by rw [pyEq_symm]; exact h) h'
  · intro h'; exact pyEq_trans a b c h h'


/-! ## `unique` / `distinct`: the groups built by `groupInsert` -/

/-- A member that takes part in `unique`/`distinct`: its address and its value. -/
abbrev Keyed := Addr × Scalar

/-- The `seen_values` table after the members `ms`, starting from `g`. -/
def groupsOf (g : Groups) (ms : List Keyed) : Groups := ms.foldl (fun g m => groupInsert g m.2 m.1) g

theorem groupsOf_nil (g : Groups) : groupsOf g [] = g := rfl

theorem groupsOf_cons (g : Groups) (m : Keyed) (ms : List Keyed) :
    groupsOf g (m :: ms) = groupsOf (groupInsert g m.2 m.1) ms := rfl

/-- The first group collects every later member equal to its key; the others never see them. -/
theorem groupsOf_cons_group (k : Scalar) : ∀ (ms : List Keyed) (as : List Addr) (g : Groups),
    groupsOf ((k, as) :: g) ms =
      (k, as ++ (ms.filter (fun m => pyEq k m.2)).map (·.1)) :: groupsOf g (ms.filter (fun m => !pyEq k m.2))
  | [], as, g => by simp [groupsOf]
  | m :: ms, as, g => by
    rw [groupsOf_cons]
    cases h : pyEq k m.2
    · have : groupInsert ((k, as) :: g) m.2 m.1 = (k, as) :: groupInsert g m.2 m.1 := by
        simp [groupInsert, h]
      rw [this, groupsOf_cons_group k ms as (groupInsert g m.2 m.1)]
      simp [h, groupsOf_cons]
    · have : groupInsert ((k, as) :: g) m.2 m.1 = (k, as ++ [m.1]) :: g := by
        simp [groupInsert, h]
      rw [this, groupsOf_cons_group k ms (as ++ [m.1]) g]
      simp [h]

/-- "Nub" form of the table: the first member opens the first group, which takes all members equal
to it; the remaining groups are those of the remaining members. -/
theorem groupsOf_nil_cons (m : Keyed) (ms : List Keyed) :
    groupsOf [] (m :: ms) =
      (m.2, m.1 :: (ms.filter (fun x => pyEq m.2 x.2)).map (·.1)) :: groupsOf [] (ms.filter (fun x => !pyEq m.2 x.2)) := by
  rw [groupsOf_cons]
  have : groupInsert [] m.2 m.1 = [(m.2, [m.1])] := rfl
  rw [this, groupsOf_cons_group]; rfl

/-- How often (under Python `==`) the value `v` occurs among the members. -/
def occurrences (ms : List Keyed) (v : Scalar) : Nat := (ms.filter (fun m => pyEq v m.2)).length

theorem occ_head (m : Keyed) (rest : List Keyed) :
    occurrences (m :: rest) m.2 = 1 + (rest.filter (fun x => pyEq m.2 x.2)).length := by
  simp [occurrences, pyEq_refl]; omega

theorem occ_of_eq {v w : Scalar} (h : pyEq v w = true) (ms : List Keyed) : occurrences ms w = occurrences ms v := by
  unfold occurrences
  congr 1
  apply List.filter_congr
  intro x _
  exact (pyEq_congr_left h x.2).symm

theorem occ_rest (m : Keyed) (rest : List Keyed) (y : Keyed) (hy : pyEq m.2 y.2 = false) :
    occurrences (m :: rest) y.2 = occurrences (rest.filter (fun x => !pyEq m.2 x.2)) y.2 := by
  have hym : pyEq y.2 m.2 = false := by rw [pyEq_symm]; exact hy
  simp only [occurrences, List.filter_cons, hym, Bool.false_eq_true, if_false, List.filter_filter]
  congr 1
  apply List.filter_congr
  intro x _
  cases hx : pyEq y.2 x.2
  · simp
  · have : pyEq m.2 x.2 = false := by
      cases hmx : pyEq m.2 x.2
      · rfl
      · have := pyEq_trans m.2 x.2 y.2 hmx (by rw [pyEq_symm]; exact hx)
        rw [hy] at this; cases this
    simp [this]

/-- The members of the groups whose size satisfies `p`, group by group. -/
def groupSel (p : Nat → Bool) (g : Groups) : List Addr := (g.filter (fun grp => p grp.2.length)).flatMap (·.2)

theorem groupSel_cons (p : Nat → Bool) (k : Scalar) (as : List Addr) (g : Groups) :
    groupSel p ((k, as) :: g) = (if p as.length then as else []) ++ groupSel p g := by
  unfold groupSel
  cases h : p as.length <;> simp [h]

/-- **unique, inverted or not** — the members of the groups of a size satisfying `p` are, up to
order, the members whose value occurs a number of times satisfying `p`. -/
theorem groupSel_perm (p : Nat → Bool) : ∀ (n : Nat) (ms : List Keyed), ms.length ≤ n →
    List.Perm (groupSel p (groupsOf [] ms)) ((ms.filter (fun m => p (occurrences ms m.2))).map (·.1))
  | _, [], _ => by simp [groupSel, groupsOf]
  | 0, _ :: _, h => by simp at h
  | n + 1, m :: rest, hlen => by
    have hR : (rest.filter (fun x => !pyEq m.2 x.2)).length ≤ n := by
      have := List.length_filter_le (fun x : Keyed => !pyEq m.2 x.2) rest
      simp only [List.length_cons] at hlen; omega
    have ih := groupSel_perm p n _ hR
    rw [groupsOf_nil_cons, groupSel_cons]
    -- the right-hand side, split into the class of `m` and the rest
    have hq_rest : ∀ y ∈ rest.filter (fun x => !pyEq m.2 x.2),
        p (occurrences (m :: rest) y.2) = p (occurrences (rest.filter (fun x => !pyEq m.2 x.2)) y.2) := by
      intro y hy
      have : pyEq m.2 y.2 = false := by simpa using (List.mem_filter.mp hy).2
      rw [occ_rest m rest y this]
    have hq_E : ∀ y ∈ rest.filter (fun x => pyEq m.2 x.2),
        p (occurrences (m :: rest) y.2) = p (1 + (rest.filter (fun x => pyEq m.2 x.2)).length) := by
      intro y hy
      have : pyEq m.2 y.2 = true := (List.mem_filter.mp hy).2
      rw [occ_of_eq this, occ_head]
    have hsplit : List.Perm (rest.filter (fun x => p (occurrences (m :: rest) x.2)))
        ((rest.filter (fun x => pyEq m.2 x.2)).filter (fun x => p (occurrences (m :: rest) x.2)) ++
         (rest.filter (fun x => !pyEq m.2 x.2)).filter (fun x => p (occurrences (m :: rest) x.2))) := by
      have := List.filter_append_perm (fun x : Keyed => pyEq m.2 x.2)
        (rest.filter (fun x => p (occurrences (m :: rest) x.2)))
      refine this.symm.trans ?_
      simp only [List.filter_filter]
      apply List.Perm.of_eq
      congr 1 <;> (apply List.filter_congr; intro x _; simp [Bool.and_comm])
    rw [List.filter_congr hq_rest] at hsplit
    rw [List.filter_congr hq_E] at hsplit
    have hl : (m.1 :: (rest.filter (fun x => pyEq m.2 x.2)).map (·.1)).length
        = 1 + (rest.filter (fun x => pyEq m.2 x.2)).length := by
      simp only [List.length_cons, List.length_map]; omega
    rw [hl]
    simp only [List.filter_cons, occ_head]
    cases hp : p (1 + (rest.filter (fun x => pyEq m.2 x.2)).length)
    · simp only [hp, Bool.false_eq_true, if_false, List.nil_append] at hsplit ⊢
      have e : ∀ l : List Keyed, l.filter (fun _ => false) = [] := fun l => by simp
      rw [e, List.nil_append] at hsplit
      exact ih.trans ((hsplit.map (·.1)).symm)
    · simp only [hp, if_true, List.map_cons, List.cons_append] at hsplit ⊢
      have e : ∀ l : List Keyed, l.filter (fun _ => true) = l := fun l => by simp
      rw [e] at hsplit
      refine List.Perm.cons _ ?_
      refine (List.Perm.append_left _ ih).trans ?_
      rw [← List.map_append]
      exact (hsplit.map (·.1)).symm
/-- **unique** — the members of the singleton groups are exactly the members whose value occurs
once, in document order. -/
theorem groupSel_once : ∀ (n : Nat) (ms : List Keyed), ms.length ≤ n →
    groupSel (fun k => k == 1) (groupsOf [] ms) = (ms.filter (fun m => occurrences ms m.2 == 1)).map (·.1)
  | _, [], _ => by simp [groupSel, groupsOf]
  | 0, _ :: _, h => by simp at h
  | n + 1, m :: rest, hlen => by
    have hR : (rest.filter (fun x => !pyEq m.2 x.2)).length ≤ n := by
      have := List.length_filter_le (fun x : Keyed => !pyEq m.2 x.2) rest
      simp only [List.length_cons] at hlen; omega
    have ih := groupSel_once n _ hR
    rw [groupsOf_nil_cons, groupSel_cons, ih]
    have hq_rest : ∀ y ∈ rest.filter (fun x => !pyEq m.2 x.2),
        (occurrences (rest.filter (fun x => !pyEq m.2 x.2)) y.2 == 1) = (occurrences (m :: rest) y.2 == 1) := by
      intro y hy
      have : pyEq m.2 y.2 = false := by simpa using (List.mem_filter.mp hy).2
      rw [occ_rest m rest y this]
    have hq : ∀ y ∈ rest, (occurrences (m :: rest) y.2 == 1) =
        ((occurrences (m :: rest) y.2 == 1) && !pyEq m.2 y.2) := by
      intro y hy
      cases hmy : pyEq m.2 y.2
      · simp
      · have hyE : y ∈ rest.filter (fun x => pyEq m.2 x.2) := List.mem_filter.mpr ⟨hy, hmy⟩
        have hpos : 0 < (rest.filter (fun x => pyEq m.2 x.2)).length := List.length_pos_of_mem hyE
        rw [occ_of_eq hmy, occ_head]
        have : (1 + (rest.filter (fun x => pyEq m.2 x.2)).length == 1) = false := by
          rw [beq_eq_false_iff_ne]; omega
        rw [this]; rfl
    rw [List.filter_congr hq_rest, List.filter_filter]
    have hl : (m.1 :: (rest.filter (fun x => pyEq m.2 x.2)).map (·.1)).length
        = 1 + (rest.filter (fun x => pyEq m.2 x.2)).length := by
      simp only [List.length_cons, List.length_map]; omega
    rw [hl]
    simp only [List.filter_cons, occ_head]
    rw [← List.filter_congr hq]
    cases hE : rest.filter (fun x => pyEq m.2 x.2) with
    | nil => simp
    | cons y ys =>
      have : ¬ (1 + (y :: ys).length = 1) := by simp
      simp

/-- The members none of whose predecessors (nor any of the values `pre`) has an equal value. -/
def firstsFrom (pre : List Scalar) : List Keyed → List Addr
  | [] => []
  | m :: rest =>
    if pre.any (fun v => pyEq v m.2) then firstsFrom (pre ++ [m.2]) rest
    else m.1 :: firstsFrom (pre ++ [m.2]) rest

/-- **distinct** — the heads of the groups are the members without an equal predecessor, in
document order. -/
theorem group_heads : ∀ (ms : List Keyed) (pre : List Scalar),
    (groupsOf [] (ms.filter (fun m => !pre.any (fun v => pyEq v m.2)))).filterMap (fun grp => grp.2.head?)
      = firstsFrom pre ms
  | [], _ => by simp [groupsOf, firstsFrom]
  | m :: rest, pre => by
    have ih := group_heads rest (pre ++ [m.2])
    unfold firstsFrom
    cases hm : pre.any (fun v => pyEq v m.2)
    · simp only [List.filter_cons, hm, Bool.not_false, if_true, Bool.false_eq_true, if_false]
      rw [groupsOf_nil_cons, List.filterMap_cons]
      simp only [List.head?_cons, List.filter_filter]
      have e : rest.filter (fun a => !pyEq m.2 a.2 && !pre.any fun v => pyEq v a.2)
          = rest.filter (fun x => !(pre ++ [m.2]).any fun v => pyEq v x.2) := by
        apply List.filter_congr
        intro x _
        simp [List.any_append, Bool.and_comm]
      rw [e, ih]
    · simp only [List.filter_cons, hm, Bool.not_true, Bool.false_eq_true, if_false, if_true]
      have e : rest.filter (fun x => !pre.any fun v => pyEq v x.2)
          = rest.filter (fun x => !(pre ++ [m.2]).any fun v => pyEq v x.2) := by
        apply List.filter_congr
        intro x _
        have : pyEq m.2 x.2 = true → pre.any (fun v => pyEq v x.2) = true := by
          intro hx
          obtain ⟨v, hv, hvm⟩ := List.any_eq_true.mp hm
          exact List.any_eq_true.mpr ⟨v, hv, pyEq_trans v m.2 x.2 hvm hx⟩
        cases hx : pyEq m.2 x.2
        · simp [List.any_append, hx]
        · simp [List.any_append, hx, this hx]
      rw [e, ih]

theorem group_heads_nil (ms : List Keyed) :
    (groupsOf [] ms).filterMap (fun grp => grp.2.head?) = firstsFrom [] ms := by
  have := group_heads ms []
  have e : ms.filter (fun m => !([] : List Scalar).any fun v => pyEq v m.2) = ms := by simp
  rw [e] at this; exact this

/-! ## The members `unique`/`distinct` see, by the shape of the collection -/

/-- The scalar value of the attribute `name` of a member, if the member is a hash having it. -/
def attrScalar (name : Str) (n : Node) : Option Scalar :=
  match n with
  | .map _ es => (attrOf es name).bind Node.scalar?
  | _ => none

/-- Members of a plain list: every position with its (scalar) value. -/
def keyedList (a : Addr) (items : List Node) (i : Nat) : List Keyed :=
  (items.zipIdx i).filterMap (fun (n, j) => n.scalar?.map (fun v => (a ++ [.idx j], v)))

/-- Members of an Array-of-Hashes: the positions of the hashes having the attribute. -/
def keyedAoh (name : Str) (a : Addr) (items : List Node) (i : Nat) : List Keyed :=
  (items.zipIdx i).filterMap (fun (n, j) => (attrScalar name n).map (fun v => (a ++ [.idx j], v)))

/-- Members of a hash of hashes: the keys of the child hashes having the attribute. -/
def keyedMap (name : Str) (a : Addr) (es : List (Key × Node)) : List Keyed :=
  es.filterMap (fun (k, n) => (attrScalar name n).map (fun v => (a ++ [.key k], v)))

theorem groupKey_ok {n : Node} {v : Scalar} (h : groupKey n = .ok v) : n.scalar? = some v := by
  cases n <;> simp [groupKey] at h
  subst h; rfl

theorem groupList_eq (a : Addr) : ∀ (items : List Node) (i : Nat) (g g' : Groups),
    groupList a g items i = .ok g' → g' = groupsOf g (keyedList a items i)
  | [], _, g, g', h => by
    simp only [groupList, Except.ok.injEq] at h; subst h; simp [keyedList, groupsOf]
  | n :: rest, i, g, g', h => by
    unfold groupList at h
    cases hk : groupKey n with
    | error e => simp [hk] at h
    | ok v =>
      simp only [hk] at h
      have := groupList_eq a rest (i + 1) _ g' h
      rw [this]
      simp [keyedList, List.zipIdx_cons, groupKey_ok hk, groupsOf]

theorem groupAoh_eq (name : Str) (a : Addr) : ∀ (items : List Node) (i : Nat) (g g' : Groups),
    groupAoh name a g items i = .ok g' → g' = groupsOf g (keyedAoh name a items i)
  | [], _, g, g', h => by
    simp only [groupAoh, Except.ok.injEq] at h; subst h; simp [keyedAoh, groupsOf]
  | n :: rest, i, g, g', h => by
    unfold groupAoh at h
    cases n with
    | map anc es =>
      simp only [] at h
      cases ha : attrOf es name with
      | none =>
        simp only [ha] at h
        rw [groupAoh_eq name a rest (i + 1) _ g' h]
        simp [keyedAoh, List.zipIdx_cons, attrScalar, ha]
      | some x =>
        simp only [ha] at h
        cases hk : groupKey x with
        | error e => simp [hk] at h
        | ok v =>
          simp only [hk] at h
          rw [groupAoh_eq name a rest (i + 1) _ g' h]
          simp [keyedAoh, List.zipIdx_cons, attrScalar, ha, groupKey_ok hk, groupsOf]
    | scalar _ _ =>
      simp only [] at h
      rw [groupAoh_eq name a rest (i + 1) _ g' h]; simp [keyedAoh, List.zipIdx_cons, attrScalar]
    | seq _ _ =>
      simp only [] at h
      rw [groupAoh_eq name a rest (i + 1) _ g' h]; simp [keyedAoh, List.zipIdx_cons, attrScalar]
    | set _ _ =>
      simp only [] at h
      rw [groupAoh_eq name a rest (i + 1) _ g' h]; simp [keyedAoh, List.zipIdx_cons, attrScalar]

theorem groupMap_eq (name : Str) (inData : Bool) (a : Addr) : ∀ (es : List (Key × Node)) (g g' : Groups),
    groupMap name inData a g es = .ok g' → g' = groupsOf g (keyedMap name a es)
  | [], g, g', h => by
    simp only [groupMap, Except.ok.injEq] at h; subst h; simp [keyedMap, groupsOf]
  | (k, n) :: rest, g, g', h => by
    unfold groupMap at h
    cases n with
    | map anc es =>
      simp only [] at h
      cases ha : attrOf es name with
      | none =>
        simp only [ha] at h
        rw [groupMap_eq name inData a rest _ g' h]
        simp [keyedMap, attrScalar, ha]
      | some x =>
        simp only [ha] at h
        cases hk : groupKey x with
        | error e => simp [hk] at h
        | ok v =>
          simp only [hk] at h
          rw [groupMap_eq name inData a rest _ g' h]
          simp [keyedMap, attrScalar, ha, groupKey_ok hk, groupsOf]
    | scalar _ _ =>
      simp only [] at h
      cases inData <;> simp at h
      rw [groupMap_eq name false a rest _ g' h]; simp [keyedMap, attrScalar]
    | seq _ _ =>
      simp only [] at h
      cases inData <;> simp at h
      rw [groupMap_eq name false a rest _ g' h]; simp [keyedMap, attrScalar]
    | set _ _ =>
      simp only [] at h
      cases inData <;> simp at h
      rw [groupMap_eq name false a rest _ g' h]; simp [keyedMap, attrScalar]

/-- A plain list of scalars is always grouped (no unhashable member). -/
theorem groupList_scalars (a : Addr) : ∀ (items : List Node) (i : Nat) (g : Groups),
    (∀ n ∈ items, n.isScalar = true) → groupList a g items i = .ok (groupsOf g (keyedList a items i))
  | [], _, g, _ => by simp [groupList, keyedList, groupsOf]
  | n :: rest, i, g, h => by
    have hn := h n (by simp)
    cases n with
    | scalar anc v =>
      unfold groupList
      simp only [groupKey]
      rw [groupList_scalars a rest (i + 1) _ (fun n' hn' => h n' (by simp [hn']))]
      simp [keyedList, List.zipIdx_cons, Node.scalar?, groupsOf]
    | seq _ _ => simp [Node.isScalar] at hn
    | map _ _ => simp [Node.isScalar] at hn
    | set _ _ => simp [Node.isScalar] at hn

/-! ## The order the `max`/`min` loops decide on values of one kind -/

/-- `≤` on scalars of the same kind: numeric on ints, on floats (exact decimals), `False ≤ True` on
Booleans, by code point on everything else (`str()` of the value). -/
def valLe : Scalar → Scalar → Bool
  | .int i, .int j => i ≤ j
  | .float m1 e1, .float m2 e2 => decLe m1 e1 m2 e2
  | .bool a, .bool b => !a || b
  | x, y => strLe (pyStr x) (pyStr y)

def valGe (x y : Scalar) : Bool := valLe y x

/-- A value that `typed_value` leaves as text: a string that is not a Python literal. -/
def IsText (v : Scalar) : Prop := typedOfScalar v = .text (pyStr v)

/-- All values are ints, or all floats, or all Booleans, or all non-literal text. -/
inductive SameKind (vals : List Scalar) : Prop
  | ints (h : ∀ v ∈ vals, ∃ i, v = .int i)
  | floats (h : ∀ v ∈ vals, ∃ m e, v = .float m e)
  | bools (h : ∀ v ∈ vals, ∃ b, v = .bool b)
  | texts (h : ∀ v ∈ vals, IsText v)

/-- What the two loops need of `valLe` on the values satisfying `P`. -/
structure KindOrder (P : Scalar → Prop) : Prop where
  total : ∀ x y, P x → P y → valLe x y = true ∨ valLe y x = true
  trans : ∀ x y z, P x → P y → P z → valLe x y = true → valLe y z = true → valLe x z = true
  gt : ∀ x b, P x → P b → searchMatchesScalar noRx .gt x b = .ok (!valLe x b)
  lt : ∀ x b, P x → P b → searchMatchesScalar noRx .lt x b = .ok (!valLe b x)
  eq : ∀ x b, P x → P b → searchMatchesScalar noRx .equals x b = .ok (valLe x b && valLe b x)

theorem gt_int (i j : Int) : searchMatchesScalar noRx .gt (.int i) (.int j) = .ok (!decide (i ≤ j)) := by
  have : (compare i j == Ordering.gt) = !decide (i ≤ j) := by
    rw [Bool.eq_iff_iff]; simp [Int.compare_eq_gt]
  simp [searchMatchesScalar, searchTyped, typedOfScalar, orderLadder, Typed.ordNum?, decCmp, this]

theorem lt_int (i j : Int) : searchMatchesScalar noRx .lt (.int i) (.int j) = .ok (!decide (j ≤ i)) := by
  have : (compare i j == Ordering.lt) = !decide (j ≤ i) := by
    rw [Bool.eq_iff_iff]; simp [Int.compare_eq_lt]
  simp [searchMatchesScalar, searchTyped, typedOfScalar, orderLadder, Typed.ordNum?, decCmp, this]

theorem eq_int (i j : Int) :
    searchMatchesScalar noRx .equals (.int i) (.int j) = .ok (decide (i ≤ j) && decide (j ≤ i)) := by
  have : (i == j) = (decide (i ≤ j) && decide (j ≤ i)) := by
    rw [Bool.eq_iff_iff]; simp; omega
  simp [searchMatchesScalar, searchTyped, typedOfScalar, this]

theorem kindOrder_int : KindOrder (fun v => ∃ i, v = .int i) := by
  refine ⟨?_, ?_, ?_, ?_, ?_⟩
  · rintro _ _ ⟨i, rfl⟩ ⟨j, rfl⟩; simp only [valLe, decide_eq_true_eq]; omega
  · rintro _ _ _ ⟨i, rfl⟩ ⟨j, rfl⟩ ⟨k, rfl⟩; simp only [valLe, decide_eq_true_eq]; omega
  · rintro _ _ ⟨i, rfl⟩ ⟨j, rfl⟩; simp [gt_int, valLe]
  · rintro _ _ ⟨i, rfl⟩ ⟨j, rfl⟩; simp [lt_int, valLe]
  · rintro _ _ ⟨i, rfl⟩ ⟨j, rfl⟩; simp [eq_int, valLe]

theorem kindOrder_float : KindOrder (fun v => ∃ m e, v = .float m e) := by
  refine ⟨?_, ?_, ?_, ?_, ?_⟩
  · rintro _ _ ⟨m1, e1, rfl⟩ ⟨m2, e2, rfl⟩; exact decLe_total m1 e1 m2 e2
  · rintro _ _ _ ⟨m1, e1, rfl⟩ ⟨m2, e2, rfl⟩ ⟨m3, e3, rfl⟩; exact decLe_trans m1 e1 m2 e2 m3 e3
  · rintro _ _ ⟨m1, e1, rfl⟩ ⟨m2, e2, rfl⟩
    simp [searchMatchesScalar, searchTyped, typedOfScalar, orderLadder, Typed.ordNum?, valLe, decCmp_gt_eq]
  · rintro _ _ ⟨m1, e1, rfl⟩ ⟨m2, e2, rfl⟩
    simp [searchMatchesScalar, searchTyped, typedOfScalar, orderLadder, Typed.ordNum?, valLe, decCmp_lt_eq]
  · rintro _ _ ⟨m1, e1, rfl⟩ ⟨m2, e2, rfl⟩
    simp [searchMatchesScalar, searchTyped, typedOfScalar, valLe, decCmp_eq_eq]

theorem kindOrder_bool : KindOrder (fun v => ∃ b, v = .bool b) := by
  refine ⟨?_, ?_, ?_, ?_, ?_⟩
  · rintro _ _ ⟨a, rfl⟩ ⟨b, rfl⟩; cases a <;> cases b <;> simp [valLe]
  · rintro _ _ _ ⟨a, rfl⟩ ⟨b, rfl⟩ ⟨c, rfl⟩; cases a <;> cases b <;> cases c <;> simp [valLe]
  · rintro _ _ ⟨a, rfl⟩ ⟨b, rfl⟩; cases a <;> cases b <;> decide
  · rintro _ _ ⟨a, rfl⟩ ⟨b, rfl⟩; cases a <;> cases b <;> decide
  · rintro _ _ ⟨a, rfl⟩ ⟨b, rfl⟩; cases a <;> cases b <;> decide

theorem valLe_text {x y : Scalar} (hx : IsText x) (hy : IsText y) : valLe x y = strLe (pyStr x) (pyStr y) := by
  cases x <;> cases y <;> first | rfl | (simp [IsText, typedOfScalar] at hx hy)

theorem kindOrder_text : KindOrder IsText := by
  refine ⟨?_, ?_, ?_, ?_, ?_⟩
  · intro x y hx hy; rw [valLe_text hx hy, valLe_text hy hx]; exact strLe_total _ _
  · intro x y z hx hy hz; rw [valLe_text hx hy, valLe_text hy hz, valLe_text hx hz]; exact strLe_trans _ _ _
  · intro x b hx hb
    rw [valLe_text hx hb]
    unfold IsText at hx hb
    simp [searchMatchesScalar, searchTyped, hx, hb, orderLadder, strLe]
  · intro x b hx hb
    rw [valLe_text hb hx]
    unfold IsText at hx hb
    simp [searchMatchesScalar, searchTyped, hx, hb, orderLadder, strLe]
  · intro x b hx hb
    rw [valLe_text hx hb, valLe_text hb hx, ← strLe_antisymm_iff]
    unfold IsText at hx hb
    simp [searchMatchesScalar, searchTyped, hx, hb]

theorem sameKind_order {vals : List Scalar} (h : SameKind vals) :
    ∃ P : Scalar → Prop, KindOrder P ∧ ∀ v ∈ vals, P v := by
  cases h with
  | ints h => exact ⟨_, kindOrder_int, h⟩
  | floats h => exact ⟨_, kindOrder_float, h⟩
  | bools h => exact ⟨_, kindOrder_bool, h⟩
  | texts h => exact ⟨_, kindOrder_text, h⟩

/-- Values of one kind meet the hypothesis of the `max` scan with `valLe` … -/
theorem scanOrder_max_of_sameKind {vals : List Scalar} (h : SameKind vals) : ScanOrder .gt valLe vals := by
  obtain ⟨P, ko, hP⟩ := sameKind_order h
  exact ⟨fun x hx y hy => ko.total x y (hP x hx) (hP y hy),
         fun x hx y hy z hz => ko.trans x y z (hP x hx) (hP y hy) (hP z hz),
         fun x hx b hb => ko.gt x b (hP x hx) (hP b hb),
         fun x hx b hb => ko.eq x b (hP x hx) (hP b hb)⟩

/-- … and of the `min` scan with the reversed order. -/
theorem scanOrder_min_of_sameKind {vals : List Scalar} (h : SameKind vals) : ScanOrder .lt valGe vals := by
  obtain ⟨P, ko, hP⟩ := sameKind_order h
  refine ⟨fun x hx y hy => ?_, fun x hx y hy z hz h1 h2 => ?_, fun x hx b hb => ?_, fun x hx b hb => ?_⟩
  · exact (ko.total x y (hP x hx) (hP y hy)).symm
  · exact ko.trans z y x (hP z hz) (hP y hy) (hP x hx) h2 h1
  · exact ko.lt x b (hP x hx) (hP b hb)
  · unfold valGe; rw [Bool.and_comm]; exact ko.eq x b (hP x hx) (hP b hb)

end Ypv
