import Ypv.Lemmas.Search
import Ypv.Spec.SearchWf
/-!
# C07 "each at most once": the reported addresses are pairwise different

`scan` / `leaves` list a `List.Sublist` of the addresses of the positions they pass over
(`scan_sublist`, `leaves_sublist`: the skip count is `List.drop`), and the addresses of `flat d`
are pairwise different for a document whose mappings have pairwise different keys
(`flat_nodup`: addresses below different children differ in the step after the common prefix).
-/
namespace Ypv.Search.Nd
open Ypv Ypv.Search Ypv.Search.Spec

/-! ## the passes list a sublist of the position addresses -/

theorem drop_map_sublist (k : Nat) (l : List Pos) : ((l.drop k).map Pos.addr).Sublist (l.map Pos.addr) :=
  (List.drop_sublist k l).map _

theorem leaves_sublist (c : Ctx) : ∀ (l : List Pos) (seen : List Str) (k : Nat),
    (leaves c seen k l).1.Sublist ((l.drop k).map Pos.addr)
  | [], _, k => by cases k <;> simp [leaves]
  | p :: rest, seen, k + 1 => by
    simp only [leaves, List.drop_succ_cons]
    exact leaves_sublist c rest seen k
  | p :: rest, seen, 0 => by
    simp only [leaves, List.drop_zero, List.map_cons]
    rcases hr : yrule c p seen with ⟨v, s⟩
    cases v with
    | leaf =>
      simp only
      have := leaves_sublist c rest s 0
      simp only [List.drop_zero] at this
      exact this.cons_cons _
    | enter =>
      simp only
      have := leaves_sublist c rest s 0
      simp only [List.drop_zero] at this
      exact this.cons _
    | pass =>
      simp only
      exact ((leaves_sublist c rest s p.size).trans (drop_map_sublist _ _)).cons _

theorem scan_sublist (c : Ctx) : ∀ (l : List Pos) (seen : List Str) (k : Nat),
    (scan c seen k l).Sublist ((l.drop k).map Pos.addr)
  | [], _, k => by simp [scan_nil]
  | p :: rest, seen, k + 1 => by
    simp only [scan, List.drop_succ_cons]
    exact scan_sublist c rest seen k
  | p :: rest, seen, 0 => by
    simp only [scan, List.drop_zero, List.map_cons]
    have h0 : ∀ s, (scan c s 0 rest).Sublist (rest.map Pos.addr) := by
      intro s
      have := scan_sublist c rest s 0
      simpa only [List.drop_zero] using this
    have hk : ∀ s, (scan c s p.size rest).Sublist (rest.map Pos.addr) := fun s =>
      (scan_sublist c rest s p.size).trans (drop_map_sublist _ _)
    rcases hr : rule c p seen with ⟨v, s⟩
    cases v with
    | matched =>
      simp only
      split
      · have h1 := leaves_sublist c (rest.take p.size) s 0
        simp only [List.drop_zero] at h1
        have h2 := scan_sublist c rest (leaves c s 0 (rest.take p.size)).2 p.size
        have := h1.append h2
        rw [← List.map_append, List.take_append_drop] at this
        exact this.cons _
      · exact (hk s).cons_cons _
    | pass => exact (hk s).cons _
    | value hit =>
      simp only
      cases hit
      · simpa using (h0 s).cons p.addr
      · simpa using (h0 s).cons_cons p.addr
    | enter => exact (h0 s).cons _

/-! ## the position addresses of a well-formed document are pairwise different -/

theorem distinctKeys_nodup : ∀ (l : List Key), distinctKeys l = true → l.Nodup
  | [], _ => List.nodup_nil
  | k :: r, h => by
    simp only [distinctKeys, Bool.and_eq_true, Bool.not_eq_eq_eq_not, Bool.not_true,
      List.contains_eq_mem, decide_eq_false_iff_not] at h
    exact List.nodup_cons.mpr ⟨h.1, distinctKeys_nodup r h.2⟩

theorem flatMembers_addr : ∀ (ms : List AKey) (ad : SAddr) (p : Pos), p ∈ flatMembers ms ad →
    ∃ k, k ∈ ms.map (·.key) ∧ p.addr = ad ++ [.member k]
  | [], _, _, h => by simp [flatMembers] at h
  | m :: r, ad, p, h => by
    simp only [flatMembers, List.mem_cons] at h
    rcases h with h | h
    · exact ⟨m.key, by simp, by rw [h]⟩
    · obtain ⟨k, hk, e⟩ := flatMembers_addr r ad p h
      exact ⟨k, by simp only [List.map_cons, List.mem_cons]; exact Or.inr hk, e⟩

theorem flatRefs_addr : ∀ (rs : List Str) (j : Nat) (ad : SAddr) (p : Pos), p ∈ flatRefs rs j ad →
    ∃ i, j ≤ i ∧ p.addr = ad ++ [.mref i]
  | [], _, _, _, h => by simp [flatRefs] at h
  | n :: r, j, ad, p, h => by
    simp only [flatRefs, List.mem_cons] at h
    rcases h with h | h
    · exact ⟨j, Nat.le_refl _, by rw [h]⟩
    · obtain ⟨i, hi, e⟩ := flatRefs_addr r (j + 1) ad p h
      exact ⟨i, by omega, e⟩

mutual
theorem flat_addr : ∀ (n : SNode) (ad : SAddr) (p : Pos), p ∈ flat n ad → ∃ r t, p.addr = ad ++ r :: t
  | .scalar _ _, _, _, h => by simp [flat] at h
  | .seq _ items, ad, p, h => by
    simp only [flat] at h
    obtain ⟨j, t, _, e⟩ := flatItems_addr items 0 ad p h
    exact ⟨_, _, e⟩
  | .map _ own merged refs, ad, p, h => by
    simp only [flat, List.mem_append] at h
    rcases h with h | h | h
    · obtain ⟨k, t, _, e⟩ := flatEntries_addr false own ad p h
      exact ⟨_, _, e⟩
    · obtain ⟨k, t, _, e⟩ := flatEntries_addr true merged ad p h
      exact ⟨_, _, e⟩
    · obtain ⟨i, _, e⟩ := flatRefs_addr refs 0 ad p h
      exact ⟨_, _, e⟩
  | .set _ ms, ad, p, h => by
    simp only [flat] at h
    obtain ⟨k, _, e⟩ := flatMembers_addr ms ad p h
    exact ⟨_, _, e⟩
theorem flatItems_addr : ∀ (items : List SNode) (i : Nat) (ad : SAddr) (p : Pos), p ∈ flatItems items i ad →
    ∃ j t, i ≤ j ∧ p.addr = ad ++ .idx j :: t
  | [], _, _, _, h => by simp [flatItems] at h
  | e :: r, i, ad, p, h => by
    simp only [flatItems, List.mem_cons, List.mem_append] at h
    rcases h with h | h | h
    · exact ⟨i, [], Nat.le_refl _, by rw [h]⟩
    · obtain ⟨x, t, e⟩ := flat_addr e (ad ++ [.idx i]) p h
      exact ⟨i, x :: t, Nat.le_refl _, by rw [e]; simp⟩
    · obtain ⟨j, t, hj, e⟩ := flatItems_addr r (i + 1) ad p h
      exact ⟨j, t, by omega, e⟩
theorem flatEntries_addr : ∀ (mg : Bool) (es : List (AKey × SNode)) (ad : SAddr) (p : Pos),
    p ∈ flatEntries mg es ad → ∃ k t, k ∈ es.map (·.1.key) ∧ p.addr = ad ++ .key k :: t
  | _, [], _, _, h => by simp [flatEntries] at h
  | mg, (k, v) :: r, ad, p, h => by
    simp only [flatEntries, List.mem_cons, List.mem_append] at h
    rcases h with h | h | h
    · exact ⟨k.key, [], by simp, by rw [h]⟩
    · obtain ⟨x, t, e⟩ := flat_addr v (ad ++ [.key k.key]) p h
      exact ⟨k.key, x :: t, by simp, by rw [e]; simp⟩
    · obtain ⟨k', t, hk, e⟩ := flatEntries_addr mg r ad p h
      exact ⟨k', t, by simp only [List.map_cons, List.mem_cons]; exact Or.inr hk, e⟩
end

theorem flatMembers_nodup : ∀ (ms : List AKey) (ad : SAddr), (ms.map (·.key)).Nodup →
    ((flatMembers ms ad).map Pos.addr).Nodup
  | [], _, _ => by simp [flatMembers]
  | m :: r, ad, h => by
    simp only [List.map_cons, List.nodup_cons] at h
    simp only [flatMembers, List.map_cons, List.nodup_cons]
    refine ⟨?_, flatMembers_nodup r ad h.2⟩
    intro hm
    obtain ⟨p, hp, e⟩ := List.mem_map.mp hm
    obtain ⟨k, hk, e'⟩ := flatMembers_addr r ad p hp
    rw [e'] at e
    have := List.append_cancel_left e
    simp only [List.cons.injEq, SRef.member.injEq, and_true] at this
    exact h.1 (this ▸ hk)

theorem flatRefs_nodup : ∀ (rs : List Str) (j : Nat) (ad : SAddr), ((flatRefs rs j ad).map Pos.addr).Nodup
  | [], _, _ => by simp [flatRefs]
  | n :: r, j, ad => by
    simp only [flatRefs, List.map_cons, List.nodup_cons]
    refine ⟨?_, flatRefs_nodup r (j + 1) ad⟩
    intro hm
    obtain ⟨p, hp, e⟩ := List.mem_map.mp hm
    obtain ⟨i, hi, e'⟩ := flatRefs_addr r (j + 1) ad p hp
    rw [e'] at e
    have := List.append_cancel_left e
    simp only [List.cons.injEq, SRef.mref.injEq, and_true] at this
    omega

mutual
theorem flat_nodup : ∀ (n : SNode) (ad : SAddr), wfKeys n = true → ((flat n ad).map Pos.addr).Nodup
  | .scalar _ _, _, _ => by simp [flat]
  | .seq _ items, ad, h => by
    simp only [wfKeys] at h
    simp only [flat]
    exact flatItems_nodup items 0 ad h
  | .map _ own merged refs, ad, h => by
    simp only [wfKeys, Bool.and_eq_true] at h
    obtain ⟨hd, ho, hm⟩ := h
    have hd := List.nodup_append.mp (distinctKeys_nodup _ hd)
    simp only [flat, List.map_append]
    refine List.nodup_append.mpr ⟨flatEntries_nodup false own ad hd.1 ho, ?_, ?_⟩
    · refine List.nodup_append.mpr ⟨flatEntries_nodup true merged ad hd.2.1 hm, flatRefs_nodup refs 0 ad, ?_⟩
      intro a ha b hb hab
      obtain ⟨p, hp, e⟩ := List.mem_map.mp ha
      obtain ⟨q, hq, e'⟩ := List.mem_map.mp hb
      obtain ⟨k, t, _, e1⟩ := flatEntries_addr true merged ad p hp
      obtain ⟨i, _, e2⟩ := flatRefs_addr refs 0 ad q hq
      rw [← e, ← e', e1, e2] at hab
      have := List.append_cancel_left hab
      simp at this
    · intro a ha b hb hab
      obtain ⟨p, hp, e⟩ := List.mem_map.mp ha
      obtain ⟨k, t, hk, e1⟩ := flatEntries_addr false own ad p hp
      rcases List.mem_append.mp hb with hb | hb
      · obtain ⟨q, hq, e'⟩ := List.mem_map.mp hb
        obtain ⟨k', t', hk', e2⟩ := flatEntries_addr true merged ad q hq
        rw [← e, ← e', e1, e2] at hab
        have := List.append_cancel_left hab
        simp only [List.cons.injEq, SRef.key.injEq] at this
        exact hd.2.2 k hk k' hk' this.1
      · obtain ⟨q, hq, e'⟩ := List.mem_map.mp hb
        obtain ⟨i, _, e2⟩ := flatRefs_addr refs 0 ad q hq
        rw [← e, ← e', e1, e2] at hab
        have := List.append_cancel_left hab
        simp at this
  | .set _ ms, ad, h => by
    simp only [wfKeys] at h
    simp only [flat]
    exact flatMembers_nodup ms ad (distinctKeys_nodup _ h)
theorem flatItems_nodup : ∀ (items : List SNode) (i : Nat) (ad : SAddr), wfKeysItems items = true →
    ((flatItems items i ad).map Pos.addr).Nodup
  | [], _, _, _ => by simp [flatItems]
  | e :: r, i, ad, h => by
    simp only [wfKeysItems, Bool.and_eq_true] at h
    simp only [flatItems, List.map_cons, List.map_append, List.nodup_cons]
    refine ⟨?_, List.nodup_append.mpr ⟨flat_nodup e _ h.1, flatItems_nodup r (i + 1) ad h.2, ?_⟩⟩
    · intro hm
      rcases List.mem_append.mp hm with hm | hm
      · obtain ⟨p, hp, e'⟩ := List.mem_map.mp hm
        obtain ⟨x, t, e1⟩ := flat_addr e _ p hp
        rw [e1] at e'
        have := congrArg List.length e'
        simp at this
      · obtain ⟨p, hp, e'⟩ := List.mem_map.mp hm
        obtain ⟨j, t, hj, e1⟩ := flatItems_addr r (i + 1) ad p hp
        rw [e1] at e'
        have := List.append_cancel_left e'
        simp only [List.cons.injEq, SRef.idx.injEq] at this
        omega
    · intro a ha b hb hab
      obtain ⟨p, hp, e'⟩ := List.mem_map.mp ha
      obtain ⟨q, hq, e''⟩ := List.mem_map.mp hb
      obtain ⟨x, t, e1⟩ := flat_addr e _ p hp
      obtain ⟨j, t', hj, e2⟩ := flatItems_addr r (i + 1) ad q hq
      rw [← e', ← e'', e1, e2, List.append_assoc] at hab
      have := List.append_cancel_left hab
      simp only [List.cons_append, List.nil_append, List.cons.injEq, SRef.idx.injEq] at this
      omega
theorem flatEntries_nodup : ∀ (mg : Bool) (es : List (AKey × SNode)) (ad : SAddr),
    (es.map (·.1.key)).Nodup → wfKeysEntries es = true → ((flatEntries mg es ad).map Pos.addr).Nodup
  | _, [], _, _, _ => by simp [flatEntries]
  | mg, (k, v) :: r, ad, hd, h => by
    simp only [wfKeysEntries, Bool.and_eq_true] at h
    simp only [List.map_cons, List.nodup_cons] at hd
    simp only [flatEntries, List.map_cons, List.map_append, List.nodup_cons]
    refine ⟨?_, List.nodup_append.mpr ⟨flat_nodup v _ h.1, flatEntries_nodup mg r ad hd.2 h.2, ?_⟩⟩
    · intro hm
      rcases List.mem_append.mp hm with hm | hm
      · obtain ⟨p, hp, e'⟩ := List.mem_map.mp hm
        obtain ⟨x, t, e1⟩ := flat_addr v _ p hp
        rw [e1] at e'
        have := congrArg List.length e'
        simp at this
      · obtain ⟨p, hp, e'⟩ := List.mem_map.mp hm
        obtain ⟨k', t, hk', e1⟩ := flatEntries_addr mg r ad p hp
        rw [e1] at e'
        have := List.append_cancel_left e'
        simp only [List.cons.injEq, SRef.key.injEq] at this
        exact hd.1 (this.1 ▸ hk')
    · intro a ha b hb hab
      obtain ⟨p, hp, e'⟩ := List.mem_map.mp ha
      obtain ⟨q, hq, e''⟩ := List.mem_map.mp hb
      obtain ⟨x, t, e1⟩ := flat_addr v _ p hp
      obtain ⟨k', t', hk', e2⟩ := flatEntries_addr mg r ad q hq
      rw [← e', ← e'', e1, e2, List.append_assoc] at hab
      have := List.append_cancel_left hab
      simp only [List.cons_append, List.nil_append, List.cons.injEq, SRef.key.injEq] at this
      exact hd.1 (this.1 ▸ hk')
end

/-- what the search pass reports over the positions of a well-formed document is duplicate-free -/
theorem scan_flat_nodup (c : Ctx) (d : SNode) (h : wfKeys d = true) (seen : List Str) :
    (scan c seen 0 (flat d [])).Nodup :=
  (flat_nodup d [] h).sublist (by simpa only [List.drop_zero] using scan_sublist c (flat d []) seen 0)

theorem found_nodup (c : Ctx) (d : SNode) (h : wfKeys d = true) : (found c d).Nodup := by
  cases d with
  | scalar _ v => simp only [found]; split <;> simp
  | seq _ _ => exact scan_flat_nodup c _ h []
  | map _ _ _ _ => exact scan_flat_nodup c _ h []
  | set _ _ => exact scan_flat_nodup c _ h []

end Ypv.Search.Nd
