import Ypv.Drv.Codec
/-! Driver handler for C05 (stub: replaced by the module that models C05) -/
namespace Ypv.Drv.C05
open Lean (Json)

def handle (_op : String) (_j : Json) : Except String Json := throw "C05: driver not implemented yet"

end Ypv.Drv.C05
