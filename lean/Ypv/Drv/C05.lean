import Ypv.Drv.Codec
import Ypv.Model.Merge
/-! Driver handler for C05 (two-document merge) — JSON codecs for policies and outcomes.

* `C05.merge` `{"l": doc, "r": doc, "cfg": CFG}` ↦ `{"ok": doc}` | `{"err": class}`
* `C05.eq` `{"a": doc, "b": doc}` ↦ `{"eq": bool}` (Python `==` on document values)
* `C05.mode` `{"r": doc, "addr": addr, "cfg": CFG}` ↦ the four modes (and the node rule) the
  configuration answers for the right-hand node at `addr`

`CFG = {"hash","array","aoh","set"` (command line), `"dhash","darray","daoh","dset"` (`[defaults]`)`:
name|null, "rules": [[addr, name]], "keys": [[addr, text]], "tv": [[text, scalar]]}`.
-/
namespace Ypv.Drv.C05
open Lean (Json)
open Ypv Ypv.Drv Ypv.Merge

def optName (j : Json) (k : String) : Option String :=
  match j.getObjValAs? String k with
  | .ok s => some s.toLower
  | .error _ => none

def hashOf : String → Except String HashOpt
  | "deep" => pure .deep | "left" => pure .left | "right" => pure .right
  | s => throw s!"hash option {s}"
def arrayOf : String → Except String ArrayOpt
  | "all" => pure .all | "left" => pure .left | "right" => pure .right | "unique" => pure .unique
  | s => throw s!"array option {s}"
def aohOf : String → Except String AohOpt
  | "all" => pure .all | "deep" => pure .deep | "left" => pure .left | "right" => pure .right
  | "unique" => pure .unique
  | s => throw s!"aoh option {s}"
def setOf : String → Except String SetOpt
  | "left" => pure .left | "right" => pure .right | "unique" => pure .unique
  | s => throw s!"set option {s}"
def ruleNameOf (s : String) : RuleName :=
  match s.toLower with
  | "all" => .all | "deep" => .deep | "left" => .left | "right" => .right | "unique" => .unique
  | _ => .other

def optWith {α : Type} (j : Json) (k : String) (f : String → Except String α) : Except String (Option α) :=
  match optName j k with
  | some s => (f s).map some
  | none => pure none

def lookupTv (tbl : List (Str × Scalar)) (s : Str) : Scalar :=
  match tbl.find? (fun p => p.1 == s) with
  | some p => p.2
  | none => .str s

def cfgOfJson (j : Json) : Except String Config := do
  let rules ← match j.getObjVal? "rules" with
    | .ok (.arr xs) => xs.toList.mapM (fun e => do
        match e with
        | .arr #[a, .str n] => pure (← addrOfJson a, ruleNameOf n)
        | _ => throw "rule: [addr, name] expected")
    | _ => pure []
  let keys ← match j.getObjVal? "keys" with
    | .ok (.arr xs) => xs.toList.mapM (fun e => do
        match e with
        | .arr #[a, .str k] => pure (← addrOfJson a, s2l k)
        | _ => throw "key rule: [addr, text] expected")
    | _ => pure []
  let tv ← match j.getObjVal? "tv" with
    | .ok (.arr xs) => xs.toList.mapM (fun e => do
        match e with
        | .arr #[.str t, sj] => pure (s2l t, ← scalarOfJson sj)
        | _ => throw "tv: [text, scalar] expected")
    | _ => pure []
  pure { hashCli := ← optWith j "hash" hashOf, arrayCli := ← optWith j "array" arrayOf,
         aohCli := ← optWith j "aoh" aohOf, setCli := ← optWith j "set" setOf,
         hashDef := ← optWith j "dhash" hashOf, arrayDef := ← optWith j "darray" arrayOf,
         aohDef := ← optWith j "daoh" aohOf, setDef := ← optWith j "dset" setOf,
         rules := rules, keys := keys, tv := lookupTv tv }

def merrToJson : MErr → Json
  | .merge => "merge"
  | .config => "config"
  | .outOfModel => "outOfModel"
  | .crash k => errToJson (.crash k)

def outToJson : Except MErr Node → Json
  | .ok n => Json.mkObj [("ok", nodeToJson n)]
  | .error e => Json.mkObj [("err", merrToJson e)]

def getCfg (j : Json) : Except String Config :=
  match j.getObjVal? "cfg" with
  | .ok c => cfgOfJson c
  | .error _ => pure {}

def hashName : HashOpt → String | .deep => "deep" | .left => "left" | .right => "right"
def arrayName : ArrayOpt → String | .all => "all" | .left => "left" | .right => "right" | .unique => "unique"
def aohName : AohOpt → String
  | .all => "all" | .deep => "deep" | .left => "left" | .right => "right" | .unique => "unique"
def setName : SetOpt → String | .left => "left" | .right => "right" | .unique => "unique"

def modeJson {α : Type} (f : α → String) : Except MErr α → Json
  | .ok v => Json.str (f v)
  | .error e => Json.mkObj [("err", merrToJson e)]

def handle (op : String) (j : Json) : Except String Json := do
  match op with
  | "merge" =>
    let l ← nodeOfJson (← j.getObjVal? "l")
    let r ← nodeOfJson (← j.getObjVal? "r")
    let cfg ← getCfg j
    pure (outToJson (mergeWith cfg l r))
  | "eq" =>
    let a ← nodeOfJson (← j.getObjVal? "a")
    let b ← nodeOfJson (← j.getObjVal? "b")
    pure (Json.mkObj [("eq", .bool (pyEq a b))])
  | "mode" =>
    let r ← nodeOfJson (← j.getObjVal? "r")
    let addr ← addrOfJson (← j.getObjVal? "addr")
    let cfg ← getCfg j
    let env := prepare cfg r
    match resolve r addr with
    | none => pure (Json.mkObj [("unresolved", .bool true)])
    | some c =>
      pure (Json.mkObj [("hash", modeJson hashName (hashMode env c)),
                        ("array", modeJson arrayName (arrayMode env c)),
                        ("aoh", modeJson aohName (aohMode env c)),
                        ("set", modeJson setName (setMode env c)),
                        ("rule", modeJson (fun o => match o with | some m => aohName m | none => "none")
                                   (nodeRule env c))])
  | _ => throw s!"C05: unknown op {op}"

end Ypv.Drv.C05
