import Ypv.Drv.C01
/-! Driver handler for C02: the evaluator model is served by the C01 handler (`C02.eval` = `C01.eval`). -/
namespace Ypv.Drv.C02
open Lean (Json)

def handle (op : String) (j : Json) : Except String Json := Ypv.Drv.C01.handle op j

end Ypv.Drv.C02
