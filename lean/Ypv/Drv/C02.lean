import Ypv.Drv.Codec
/-! Driver handler for C02 (stub: replaced by the module that models C02) -/
namespace Ypv.Drv.C02
open Lean (Json)

def handle (_op : String) (_j : Json) : Except String Json := throw "C02: driver not implemented yet"

end Ypv.Drv.C02
