import Ypv.Drv.C04
import Ypv.Model.Alias
/-! Driver handler for C03 (set / rename / histories / value typing tables). -/
namespace Ypv.Drv.C03
open Lean (Json)
open Ypv Ypv.Drv Ypv.Drv.C04

def typedToJson : ETyped → Json
  | .bool b => Json.mkObj [("k", "bool"), ("v", .bool b)]
  | .none => Json.mkObj [("k", "null")]
  | .int i => Json.mkObj [("k", "int"), ("v", toString i)]
  | .float m e => Json.mkObj [("k", "float"), ("m", toString m), ("e", Json.num (Lean.JsonNumber.fromInt e))]
  | .str => Json.mkObj [("k", "str")]
  | .unmodelled => Json.mkObj [("k", "unmodelled")]

def scalarOut : Except Err Scalar → Json
  | .ok s => Json.mkObj [("ok", scalarToJson s)]
  | .error e => Json.mkObj [("err", errToJson e)]

def keyOf (j : Json) : Except String Key := do keyOfJson (← j.getObjVal? "key")

def opOf (j : Json) : Except String Op := do
  match ← getStr j "o" with
  | "set" => pure (.set (← addrsOf j "addrs") (← scalarOfJson (← j.getObjVal? "v")) (← fmtOfName (← getStr j "fmt")))
  | "delete" => pure (.delete (← addrsOf j "addrs"))
  | "create" => pure (.create (← psegsOf j "segs") (← scalarOfJson (← j.getObjVal? "v")) (← fmtOfName (← getStr j "fmt")))
  | s => throw s!"history op {s}"

/-- the specification of one `set`: defined when the new scalar is defined for every target -/
def specSet (d : Node) (addrs : List Addr) (v : Scalar) (fmt : Fmt) : Json :=
  match newScalar false v fmt with
  | .ok s => Json.mkObj [("ok", nodeToJson (setSpec d addrs s))]
  | .error e => Json.mkObj [("err", errToJson e)]

def handle (op : String) (j : Json) : Except String Json := do
  match op with
  | "set" =>
    let d ← docOf j
    let addrs ← addrsOf j "addrs"
    let v ← scalarOfJson (← j.getObjVal? "v")
    let fmt ← fmtOfName (← getStr j "fmt")
    pure (Json.mkObj [("model", outToJson (setValue v fmt d addrs)), ("spec", specSet d addrs v fmt)])
  | "rename" =>
    let d ← docOf j
    let addrs ← addrsOf j "addrs"
    pure (Json.mkObj [("model", outToJson (renameKeys (← keyOf j) d addrs))])
  | "typed" =>
    -- `.str` = "the new node holds the supplied text"; for the two literal classes the answer also says what
    -- `ast.literal_eval` makes of the text, so that the harness can compare `Nodes.typed_value` itself
    let t := s2l (← getStr j "t")
    if isQuotedLit t then
      pure (Json.mkObj [("k", "str"), ("v", Json.str (String.ofList (quotedBody t)))])
    else if isIntLookalike t then
      pure (Json.mkObj [("k", "str"), ("lit", "int-lookalike")])
    else pure (typedToJson (eTypedValue t))
  | "newscalar" =>
    let v ← scalarOfJson (← j.getObjVal? "v")
    let fmt ← fmtOfName (← getStr j "fmt")
    pure (Json.mkObj [("plain", scalarOut (newScalar false v fmt)), ("anchored", scalarOut (newScalar true v fmt)),
      ("wrap", scalarOut (wrapType v))])
  | "history" =>
    let d ← docOf j
    let ops ← (← getArr j "ops").toList.mapM opOf
    let rec go (d : Node) : List Op → List Json
      | [] => []
      | o :: os => match o.apply d with
        | .ok d' => Json.mkObj [("ok", nodeToJson d')] :: go d' os
        | .error e => Json.mkObj [("err", errToJson e)] :: go d os
    pure (Json.mkObj [("steps", Json.arr (go d ops).toArray), ("plain", nodeToJson (runOps d ops).plain)])
  | "alias" =>
    -- {"doc", "src": addr, "addrs": [addr…], "name": text|null, "fresh": text}: `alias_nodes` in the value model
    let d ← docOf j
    let src ← addrOfJson (← j.getObjVal? "src")
    let addrs ← addrsOf j "addrs"
    let given : Option Str := match j.getObjVal? "name" with
      | .ok (.str s) => some (s2l s)
      | _ => none
    let fresh := s2l ((getStr j "fresh").toOption.getD "id")
    match Ypv.Alias.aliasNodes d src given fresh addrs with
    | .ok (d', an) => pure (Json.mkObj [("ok", nodeToJson d'), ("anchor", nodeToJson an)])
    | .error .nameTaken => pure (Json.mkObj [("err", "name-taken")])
    | .error .noSource => pure (Json.mkObj [("err", "no-source")])
  | _ => throw s!"C03: unknown op {op}"

end Ypv.Drv.C03
