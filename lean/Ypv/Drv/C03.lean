import Ypv.Drv.Codec
/-! Driver handler for C03 (stub: replaced by the module that models C03) -/
namespace Ypv.Drv.C03
open Lean (Json)

def handle (_op : String) (_j : Json) : Except String Json := throw "C03: driver not implemented yet"

end Ypv.Drv.C03
