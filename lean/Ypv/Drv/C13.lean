import Ypv.Drv.Codec
/-! Driver handler for C13 (stub: replaced by the module that models C13) -/
namespace Ypv.Drv.C13
open Lean (Json)

def handle (_op : String) (_j : Json) : Except String Json := throw "C13: driver not implemented yet"

end Ypv.Drv.C13
