import Ypv.Drv.Codec
import Ypv.Model.Keyword
/-! Driver handler for C13: keyword searches at a node of a document, the parameter splitter. -/
namespace Ypv.Drv.C13
open Lean (Json)
open Ypv Ypv.Drv

def outToJson : Except Err KwOut → Json
  | .ok (.nodes as) => Json.mkObj [("nodes", Json.arr (as.map addrToJson).toArray)]
  | .ok (.name r) => Json.mkObj [("name", match r with | some r => refToJson r | none => Json.null)]
  | .error e => Json.mkObj [("err", errToJson e)]

def handle (op : String) (j : Json) : Except String Json := do
  match op with
  | "kw" =>
    -- {"doc": node, "at": addr, "inv": bool, "kw": KEYWORD, "params": raw text}
    let doc ← nodeOfJson (← j.getObjVal? "doc")
    let at_ ← addrOfJson (← j.getObjVal? "at")
    let inv ← getBool j "inv"
    let kw ← keywordOfName (← getStr j "kw")
    let params := s2l (← getStr j "params")
    match doc.get? at_ with
    | none => throw "C13.kw: address not in document"
    | some data => pure (Json.mkObj [("model", outToJson (kwSearch data at_ inv kw params))])
  | "split" =>
    let params := s2l (← getStr j "params")
    match splitParams params with
    | .ok ps => pure (Json.mkObj [("ok", Json.arr (ps.map (fun p => Json.str (l2s p))).toArray)])
    | .error e => pure (Json.mkObj [("err", errToJson e)])
  | _ => throw s!"C13: unknown op {op}"

end Ypv.Drv.C13
