import Ypv.Drv.Codec
/-! Driver handler for C06 (stub: replaced by the module that models C06) -/
namespace Ypv.Drv.C06
open Lean (Json)

def handle (_op : String) (_j : Json) : Except String Json := throw "C06: driver not implemented yet"

end Ypv.Drv.C06
