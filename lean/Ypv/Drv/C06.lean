import Ypv.Drv.Codec
import Ypv.Model.Diff
import Ypv.Spec.Diff
import Ypv.Model.DiffRules
/-! Driver handler for C06: the Differ model and its specification

* `{"op":"C06.diff","l":doc,"r":doc,"arr":"position"|"value","aoh":"position"|…}` ↦
  `{"rep":[entry…],"void":bool,"exit":0|1,"dataEq":bool,"eqv":bool,"keyed":bool,"strictClean":bool}`
  with `entry = {"a":"same"|"change"|"add"|"delete","p":addr,"l":doc|null,"r":doc|null}`;
  `void` says that the strict report differs from the real one (finding C06-K1's input class).
* `{"op":"C06.sync","how":"value"|"key","xs":[doc…],"ys":[doc…]}` ↦ `{"pairs":[[li|null,ri|null]…]}`
* `{"op":"C06.mode","ruleA":…,"cliA":…,"dfltA":…,"ruleH":…,"cliH":…,"dfltH":…}` ↦ `{"arr":…,"aoh":…}`
* `{"op":"C06.tables"}` ↦ enum name tables.
* `{"op":"C06.diffRules","l":doc,"r":doc,"arr":…,"aoh":…,"rules":[[addr,text]…],"keys":[[addr,text]…]}` ↦
  `{"rep":[entry…]}` | `{"crash":"nameError"|"keyError"}` — the per-path model (`Model/DiffRules.lean`); the addresses
  are those of the nodes of `r` that `DifferConfig.prepare` matched, in the order of its dictionaries.
-/
namespace Ypv.Drv.C06
open Lean (Json)
open Ypv Ypv.Drv Ypv.Diff

def actionName : Action → String
  | .same => "same" | .change => "change" | .add => "add" | .delete => "delete"

def arrOfName : String → Except String ArrayMode
  | "position" => pure .position | "value" => pure .value
  | s => throw s!"array mode {s}"

def aohOfName : String → Except String AoHMode
  | "deep" => pure .deep | "dpos" => pure .dpos | "key" => pure .key
  | "position" => pure .position | "value" => pure .value
  | s => throw s!"aoh mode {s}"

def arrName : ArrayMode → String
  | .position => "position" | .value => "value"

def aohName : AoHMode → String
  | .deep => "deep" | .dpos => "dpos" | .key => "key" | .position => "position" | .value => "value"

def optNode : Option Node → Json
  | some n => nodeToJson n
  | none => Json.null

def entryToJson (e : Entry) : Json :=
  Json.mkObj [("a", actionName e.action), ("p", addrToJson e.path), ("l", optNode e.lhs), ("r", optNode e.rhs)]

def optIdx : Option (Nat × Node) → Json
  | some (i, _) => Json.num (Lean.JsonNumber.fromNat i)
  | none => Json.null

def optMode {α : Type} (f : String → Except String α) (j : Json) (k : String) : Except String (Option α) :=
  match j.getObjValAs? String k with
  | .ok s => do pure (some (← f s))
  | .error _ => pure none

def ruleList (j : Json) (k : String) : Except String (List (Addr × Str)) := do
  (← getArr j k).toList.mapM fun e => do
    match e with
    | .arr #[a, t] => pure (← addrOfJson a, s2l (← t.getStr?))
    | _ => throw "rule entry"

def handle (op : String) (j : Json) : Except String Json := do
  match op with
  | "diffRules" =>
    let l ← nodeOfJson (← j.getObjVal? "l")
    let r ← nodeOfJson (← j.getObjVal? "r")
    let c : Cfg := ⟨← arrOfName (← getStr j "arr"), ← aohOfName (← getStr j "aoh")⟩
    match Rules.report c (← ruleList j "rules") (← ruleList j "keys") l r with
    | .ok rep => pure (Json.mkObj [("rep", Json.arr (rep.map entryToJson).toArray)])
    | .error .nameError => pure (Json.mkObj [("crash", "nameError")])
    | .error .keyError => pure (Json.mkObj [("crash", "keyError")])
  | "diff" =>
    let l ← nodeOfJson (← j.getObjVal? "l")
    let r ← nodeOfJson (← j.getObjVal? "r")
    let c : Cfg := ⟨← arrOfName (← getStr j "arr"), ← aohOfName (← getStr j "aoh")⟩
    let rep := report c l r
    let srep := diff true c l r
    pure (Json.mkObj [
      ("rep", Json.arr (rep.map entryToJson).toArray),
      ("void", .bool (rep != srep)),
      ("exit", Json.num (Lean.JsonNumber.fromNat (exitStatus rep))),
      ("strictClean", .bool (clean srep)),
      ("dataEq", .bool (dataEq c l r)),
      ("eqv", .bool (eqv l r)),
      ("keyed", .bool (keyed c l && keyed c r)),
      ("wf", .bool (wf l && wf r))])
  | "sync" =>
    let xs ← (← getArr j "xs").toList.mapM nodeOfJson
    let ys ← (← getArr j "ys").toList.mapM nodeOfJson
    let pairs := if (← getStr j "how") = "key" then syncByKey xs ys else syncByValue xs ys
    pure (Json.mkObj [("pairs", Json.arr (pairs.map (fun p => Json.arr #[optIdx p.l, optIdx p.r])).toArray)])
  | "mode" =>
    let c := resolveCfg (← optMode arrOfName j "ruleA") (← optMode arrOfName j "cliA") (← optMode arrOfName j "dfltA")
               (← optMode aohOfName j "ruleH") (← optMode aohOfName j "cliH") (← optMode aohOfName j "dfltH")
    pure (Json.mkObj [("arr", arrName c.arr), ("aoh", aohName c.aoh)])
  | "tables" =>
    pure (Json.mkObj [
      ("arrays", Json.arr (arrayModeNames.map (fun x => Json.str (l2s x.1))).toArray),
      ("aoh", Json.arr (aohModeNames.map (fun x => Json.str (l2s x.1))).toArray),
      ("actions", Json.arr (actionNames.map (fun x => Json.str (l2s x.1))).toArray)])
  | _ => throw s!"C06: unknown op {op}"

end Ypv.Drv.C06
