import Ypv.Drv.Codec
import Ypv.Model.Anchors
/-! Driver handler for C10: anchor-conflict resolution -/
namespace Ypv.Drv.C10
open Lean (Json)
open Ypv Ypv.Drv Ypv.Anchors

partial def anodeOfJson (j : Json) : Except String ANode := do
  let k ← getStr j "k"
  match k with
  | "seq" => pure (.seq (← (← getArr j "i").toList.mapM anodeOfJson))
  | "map" =>
    let es ← (← getArr j "e").toList.mapM (fun e => do
      match e with
      | .arr #[kj, vj] => pure (← keyOfJson kj, ← anodeOfJson vj)
      | _ => throw "map entry: [key, node] expected")
    pure (.map es)
  | _ =>
    let v ← scalarOfJson j
    match optStr j "a" with
    | some n => pure (.scalar (some { name := n, oid := (← j.getObjValAs? Nat "o") }) v)
    | none => pure (.scalar none v)

partial def anodeToJson : ANode → Json
  | .scalar t v =>
    match t with
    | some t => ((scalarToJson v).setObjVal! "a" (Json.str (l2s t.name))).setObjVal! "o" (Json.num (Lean.JsonNumber.fromNat t.oid))
    | none => scalarToJson v
  | .seq items => Json.mkObj [("k", "seq"), ("i", Json.arr (items.map anodeToJson).toArray)]
  | .map es => Json.mkObj [("k", "map"),
      ("e", Json.arr (es.map (fun (k, n) => Json.arr #[keyToJson k, anodeToJson n])).toArray)]

def modeOf : String → Except String Mode
  | "stop" => pure .stop | "left" => pure .left | "right" => pure .right | "rename" => pure .rename
  | s => throw s!"mode {s}"

def handle (op : String) (j : Json) : Except String Json := do
  match op with
  | "resolve" =>
    let mode ← modeOf (← getStr j "mode")
    let l ← anodeOfJson (← j.getObjVal? "l")
    let r ← anodeOfJson (← j.getObjVal? "r")
    match resolve mode l r with
    | .ok (l', r') => pure (Json.mkObj [("ok", Json.arr #[anodeToJson l', anodeToJson r']),
        ("defs", Json.arr #[Json.arr ((emittedDefs l').map (fun s => Json.str (l2s s))).toArray,
                            Json.arr ((emittedDefs r').map (fun s => Json.str (l2s s))).toArray])])
    | .error e => pure (Json.mkObj [("err", errToJson e)])
  | "unique" =>
    let a := s2l (← getStr j "anchor")
    let known := (← getArr j "known").toList.filterMap (fun x => match x with | .str s => some (s2l s) | _ => none)
    match calcUnique a known with
    | some f => pure (Json.mkObj [("ok", Json.str (l2s f))])
    | none => pure (Json.mkObj [("err", "fuel")])
  | _ => throw s!"C10: unknown op {op}"

end Ypv.Drv.C10
