import Ypv.Drv.Codec
/-! Driver handler for C10 (stub: replaced by the module that models C10) -/
namespace Ypv.Drv.C10
open Lean (Json)

def handle (_op : String) (_j : Json) : Except String Json := throw "C10: driver not implemented yet"

end Ypv.Drv.C10
