import Ypv.Drv.Codec
/-! Driver handler for C15 (stub: replaced by the module that models C15) -/
namespace Ypv.Drv.C15
open Lean (Json)

def handle (_op : String) (_j : Json) : Except String Json := throw "C15: driver not implemented yet"

end Ypv.Drv.C15
