import Ypv.Drv.Codec
/-! Driver handler for C19 (stub: replaced by the module that models C19) -/
namespace Ypv.Drv.C19
open Lean (Json)

def handle (_op : String) (_j : Json) : Except String Json := throw "C19: driver not implemented yet"

end Ypv.Drv.C19
