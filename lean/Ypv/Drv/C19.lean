import Ypv.Drv.Codec
import Ypv.Model.Rotate
import Ypv.Model.Save
/-! Driver handler for C19: key rotation over a document with the stand-in cipher, marker rule. -/
namespace Ypv.Drv.C19
open Lean (Json)
open Ypv Ypv.Drv Ypv.Rotate

def handle (op : String) (j : Json) : Except String Json := do
  match op with
  | "rotate" =>
    let d ← nodeOfJson (← j.getObjVal? "doc")
    let old := s2l (← getStr j "old")
    let new := s2l (← getStr j "new")
    let r := rotate fakeCipher old new d
    pure (Json.mkObj [("doc", nodeToJson r.1), ("failed", Json.bool r.2.failed), ("changed", Json.bool r.2.changed),
      ("exit", Json.num (Lean.JsonNumber.fromNat (exitOf r.2))),
      ("encs", Json.num (Lean.JsonNumber.fromNat r.2.nonce)), ("decs", Json.num (Lean.JsonNumber.fromNat r.2.decs)),
      ("noSecret", Json.bool (noSecret d))])
  | "marker" =>
    let s := s2l (← getStr j "s")
    pure (Json.mkObj [("is", Json.bool (isEyaml s)), ("clean", Json.str (l2s (clean s)))])
  | "cipher" =>
    -- the stand-in cipher itself (checked against harness/tools/fake_eyaml)
    let k := s2l (← getStr j "k")
    let p := s2l (← getStr j "p")
    let c := fakeEnc k 0 p
    pure (Json.mkObj [("enc", Json.str (l2s c)),
      ("dec", match fakeDec k c with | some x => Json.str (l2s x) | none => Json.null),
      ("decOther", match fakeDec (k ++ ['x']) c with | some x => Json.str (l2s x) | none => Json.null)])
  | _ => throw s!"C19: unknown op {op}"

end Ypv.Drv.C19
