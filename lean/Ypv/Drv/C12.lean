import Ypv.Drv.Codec
import Ypv.Model.Compare
/-! Driver handler for C12: typed values, `str()`, `search_matches`, the inversion scan. -/
namespace Ypv.Drv.C12
open Lean (Json)
open Ypv Ypv.Drv

def typedToJson : Typed → Json
  | .null => Json.mkObj [("k", "null")]
  | .bool b => Json.mkObj [("k", "bool"), ("v", .bool b)]
  | .int i => Json.mkObj [("k", "int"), ("v", toString i)]
  | .float m e => Json.mkObj [("k", "float"), ("m", toString m), ("e", Json.num (Lean.JsonNumber.fromInt e))]
  | .text s => Json.mkObj [("k", "text"), ("v", l2s s)]
  | .unmodelled => Json.mkObj [("k", "unmodelled")]

def kindName : Typed → String
  | .null => "null" | .bool _ => "bool" | .int _ => "int" | .float .. => "float"
  | .text _ => "text" | .unmodelled => "unmodelled"

/-- The regex oracle from a table `[[pattern, text, true|false|null], …]`; a pair that is not in
the table is a protocol error (reported through `missing`). -/
def rxTable (j : Json) : List (Str × Str × Option Bool) :=
  match j.getObjVal? "rx" with
  | .ok (.arr rows) => rows.toList.filterMap (fun r =>
      match r with
      | .arr #[.str p, .str t, .bool b] => some (s2l p, s2l t, some b)
      | .arr #[.str p, .str t, .null] => some (s2l p, s2l t, none)
      | _ => none)
  | _ => []

def rxOf (tbl : List (Str × Str × Option Bool)) (p t : Str) : Option Bool :=
  match tbl.find? (fun r => r.1 = p && r.2.1 = t) with
  | some r => r.2.2
  | none => none

def rxHas (tbl : List (Str × Str × Option Bool)) (p t : Str) : Bool :=
  (tbl.find? (fun r => r.1 = p && r.2.1 = t)).isSome

def outToJson : Except Err Bool → Json
  | .ok b => Json.mkObj [("ok", .bool b)]
  | .error e => Json.mkObj [("err", errToJson e)]

def specToJson : Option Bool → Json
  | some b => Json.mkObj [("ok", .bool b)]
  | none => Json.mkObj [("none", .bool true)]

def natsToJson (l : List Nat) : Json := Json.arr (l.map (fun n => Json.num (Lean.JsonNumber.fromNat n))).toArray

def scalarsOf (j : Json) (k : String) : Except String (List Scalar) := do
  (← getArr j k).toList.mapM scalarOfJson

def handle (op : String) (j : Json) : Except String Json := do
  match op with
  | "typed" =>
    -- {"t": text} ↦ typed_value(text) and its str()
    let t := s2l (← getStr j "t")
    let ty := typedValue t
    pure (Json.mkObj [("typed", typedToJson ty), ("str", l2s ty.pyStr)])
  | "text" =>
    -- {"h": scalar} ↦ str(typed_value(h)) (the text the regex / prefix tests act on), str(h)
    let h ← scalarOfJson (← j.getObjVal? "h")
    let ty := typedOfScalar h
    pure (Json.mkObj [("typed", typedToJson ty), ("text", l2s (pyStr h))])
  | "match" =>
    -- {"m": METHOD, "h": scalar, "t": term, "rx": table} ↦ model and specification answers
    let m ← methodOfName (← getStr j "m")
    let h ← scalarOfJson (← j.getObjVal? "h")
    let t := s2l (← getStr j "t")
    let tbl := rxTable j
    if m = .regex && !(rxHas tbl t (pyStr h)) && (typedOfScalar h) ≠ .unmodelled
        && typedValue t ≠ .unmodelled then
      throw s!"regex oracle has no answer for pattern {l2s t} on text {l2s (pyStr h)}"
    pure (Json.mkObj [("model", outToJson (searchMatches (rxOf tbl) m h t)),
                      ("spec", specToJson (Spec.matches (rxOf tbl) m h t)),
                      ("hk", kindName (typedOfScalar h)), ("tk", kindName (typedValue t))])
  | "match2" =>
    -- scalar needle, as the keyword searches call it
    let m ← methodOfName (← getStr j "m")
    let h ← scalarOfJson (← j.getObjVal? "h")
    let n ← scalarOfJson (← j.getObjVal? "n")
    pure (Json.mkObj [("model", outToJson (searchMatchesScalar (rxOf (rxTable j)) m h n))])
  | "scan" =>
    -- {"site": "list"|"seq", "inv", "m", "t", "c": [scalar…], "rx"} ↦ yielded positions + error
    let m ← methodOfName (← getStr j "m")
    let inv ← getBool j "inv"
    let t := s2l (← getStr j "t")
    let cs ← scalarsOf j "c"
    let tbl := rxTable j
    let site ← getStr j "site"
    let (hits, err) := if site = "list" then searchListSite (rxOf tbl) inv m t cs
                       else searchScan (rxOf tbl) inv m t cs 0
    pure (Json.mkObj [("hits", natsToJson hits),
                      ("err", match err with | some e => errToJson e | none => Json.null)])
  | "attrscan" =>
    -- {"inv", "m", "t", "c": [scalar | null …], "rx"} ↦ positions yielded by a named-attribute search over a list of
    -- records; a JSON null candidate is a record with no value at the attribute
    let m ← methodOfName (← getStr j "m")
    let inv ← getBool j "inv"
    let t := s2l (← getStr j "t")
    let cs ← (← getArr j "c").toList.mapM (fun c => match c with
      | .null => pure none
      | c => do pure (some (← scalarOfJson c)))
    let (hits, err) := searchAttrScan (rxOf (rxTable j)) inv m t cs 0
    pure (Json.mkObj [("hits", natsToJson hits),
                      ("err", match err with | some e => errToJson e | none => Json.null)])
  | _ => throw s!"C12: unknown op {op}"

end Ypv.Drv.C12
