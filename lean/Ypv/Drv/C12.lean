import Ypv.Drv.Codec
/-! Driver handler for C12 (stub: replaced by the module that models C12) -/
namespace Ypv.Drv.C12
open Lean (Json)

def handle (_op : String) (_j : Json) : Except String Json := throw "C12: driver not implemented yet"

end Ypv.Drv.C12
