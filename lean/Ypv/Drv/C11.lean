import Ypv.Drv.Codec
/-! Driver handler for C11 (stub: replaced by the module that models C11) -/
namespace Ypv.Drv.C11
open Lean (Json)

def handle (_op : String) (_j : Json) : Except String Json := throw "C11: driver not implemented yet"

end Ypv.Drv.C11
