import Ypv.Drv.Codec
import Ypv.Drv.C04
import Ypv.Drv.C05
import Ypv.Model.MergeAt
/-! Driver handler for C11 (a merge aimed at a YAML Path).

* `C11.mergeat` `{"l": doc, "r": doc, "cfg": CFG, "plan": {"targets": [addr…]} | {"segs": [pseg…]},
  "at": [key…]?, "lrules": [[[key…], name]]?, "lkeys": [[[key…], text]]?}` ↦
  `{"model": {"ok": doc} | {"err": class},
    "targets": [{"addr": addr, "fresh": bool, "c05": {"ok": doc} | {"err": class} | null}]}`
  — `model` is `mergeAt`; `targets` lists, for every target of the plan, what the C05 root merge
  `mergeWith` makes of the node that stood there in `l` and `r` (null when nothing stood there).
  `CFG` as in `Drv/C05.lean`; `lrules` / `lkeys` are rule paths written against the LEFT document
  as lists of plain key names, re-based on the merge path `at` by the model (`rebaseRules`).
* `C11.rebase` `{"path": [key…], "at": [key…]}` ↦ `{"keys": [key…]}` (`stripPrefix`).
-/
namespace Ypv.Drv.C11
open Lean (Json)
open Ypv Ypv.Drv Ypv.Merge Ypv.MergeAt

def aerrToJson : AErr → Json
  | .merge => "merge"
  | .config => "config"
  | .ypath k => errToJson (.ypath k)
  | .crash k => errToJson (.crash k)
  | .outOfModel => "outOfModel"

def outToJson : Except AErr Node → Json
  | .ok n => Json.mkObj [("ok", nodeToJson n)]
  | .error e => Json.mkObj [("err", aerrToJson e)]

def strsOf (j : Json) : Except String (List Str) := do
  match j with
  | .arr xs => xs.toList.mapM (fun e => match e with
      | .str s => pure (s2l s)
      | _ => throw "key name expected")
  | _ => throw "list of key names expected"

def optStrs (j : Json) (k : String) : Except String (List Str) :=
  match j.getObjVal? k with
  | .ok v => strsOf v
  | .error _ => pure []

def planOf (j : Json) : Except String Plan := do
  let p ← j.getObjVal? "plan"
  match p.getObjVal? "targets" with
  | .ok _ => pure (.existing (← C04.addrsOf p "targets"))
  | .error _ => pure (.create (← C04.psegsOf p "segs"))

def cfgOf (j : Json) : Except String Config := do
  let cfg ← C05.getCfg j
  let at_ ← optStrs j "at"
  let lrules ← match j.getObjVal? "lrules" with
    | .ok (.arr xs) => xs.toList.mapM (fun e => do
        match e with
        | .arr #[p, .str n] => pure (← strsOf p, C05.ruleNameOf n)
        | _ => throw "lrule: [[key…], name] expected")
    | _ => pure []
  let lkeys ← match j.getObjVal? "lkeys" with
    | .ok (.arr xs) => xs.toList.mapM (fun e => do
        match e with
        | .arr #[p, .str k] => pure (← strsOf p, s2l k)
        | _ => throw "lkey: [[key…], text] expected")
    | _ => pure []
  pure { cfg with rules := rebaseRules at_ lrules ++ cfg.rules,
                  keys := rebaseRules at_ lkeys ++ cfg.keys }

def c05Json (cfg : Config) (l r : Node) (a : Addr) (fresh : Bool) : Json :=
  Json.mkObj [("addr", addrToJson a), ("fresh", .bool fresh),
    ("c05", match l.get? a with
      | some old => C05.outToJson (mergeWith cfg old r)
      | none => Json.null)]

def targetsJson (cfg : Config) (l r : Node) : Plan → Json
  | .existing ts => Json.arr (ts.map (fun a => c05Json cfg l r a false)).toArray
  | .create segs =>
    let start := if isNull l then buildNextN segs r else l
    match createPathN r start segs with
    | .ok c => Json.arr #[c05Json cfg l r c.addr c.fresh]
    | .error _ => Json.arr #[]

def handle (op : String) (j : Json) : Except String Json := do
  match op with
  | "mergeat" =>
    let l ← nodeOfJson (← j.getObjVal? "l")
    let r ← nodeOfJson (← j.getObjVal? "r")
    let cfg ← cfgOf j
    let plan ← planOf j
    pure (Json.mkObj [("model", outToJson (mergeAt cfg l plan r)),
                      ("targets", targetsJson cfg l r plan)])
  | "rebase" =>
    let p ← strsOf (← j.getObjVal? "path")
    let a ← strsOf (← j.getObjVal? "at")
    pure (Json.mkObj [("keys", Json.arr ((stripPrefix p a).map (fun k => Json.str (l2s k))).toArray)])
  | _ => throw s!"C11: unknown op {op}"

end Ypv.Drv.C11
