import Ypv.Drv.Codec
import Ypv.Model.Parser
/-! Driver handler: parser model (C14, C08) -/
namespace Ypv.Drv.C14
open Lean (Json)
open Ypv Ypv.Drv

def outToJson : Except PErr (List Seg) → Json
  | .ok ss => Json.mkObj [("ok", segsToJson ss)]
  | .error (.ypath c) => Json.mkObj [("ypath", Json.num (Lean.JsonNumber.fromNat c))]
  | .error (.crash c) => Json.mkObj [("crash", Json.num (Lean.JsonNumber.fromNat c))]

/-- `{"op":"parse","t":text,"sep":"auto"|"dot"|"fslash"}` ↦ escaped and unescaped parse outcomes. -/
def handle (j : Json) : Except String Json := do
  let t := s2l (← getStr j "t")
  let sep := (getStr j "sep").toOption.getD "auto"
  let f := fun strip => match sep with
    | "dot" => parseWith false strip t
    | "fslash" => parseWith true strip t
    | _ => parse strip t
  pure (Json.mkObj [("esc", outToJson (f true)), ("unesc", outToJson (f false))])

end Ypv.Drv.C14
