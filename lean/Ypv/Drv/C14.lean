import Ypv.Drv.Codec
import Ypv.Model.Parser
/-! Driver handler: parser model (C14, C08) -/
namespace Ypv.Drv.C14
open Lean (Json)
open Ypv Ypv.Drv

def outToJson : Except PErr (List Seg) → Json
  | .ok ss => Json.mkObj [("ok", segsToJson ss)]
  | .error (.ypath c) => Json.mkObj [("ypath", Json.num (Lean.JsonNumber.fromNat c))]
  | .error (.crash c) => Json.mkObj [("crash", Json.num (Lean.JsonNumber.fromNat c))]

/-- The segment id with edge white-space removed and ASCII letters lower-cased: an id that is a keyword
name only up to padding or letter case is its own class of the state cover (the real parser decides at
`(` whether the id names a keyword, so the cover must reach `(` from such ids too). -/
def nearKeyword (s : Str) : Str :=
  (stripWs s).map (fun c => if 'A' ≤ c ∧ c ≤ 'Z' then Char.ofNat (c.toNat + 32) else c)

def segIdClass (s : Str) : String :=
  if s = [] then "e"
  else if s = ['-'] then "-"
  else if (pyInt? s).isSome then "i"
  else if s.contains ':' then ":"
  else if (keywordOf? s).isSome then "k"
  else if (keywordOf? (nearKeyword s)).isSome then (if stripWs s = s then "K" else "P")
  else if s.contains '*' then "*"
  else if s.head? = some '\'' ∨ s.head? = some '"' then "q"
  else "o"

/-- Abstract view of the parser state after consuming a text (used by the harness to build a
state cover of the model: one representative text per abstract state). -/
def abstractState (fslash strip : Bool) (t : Str) : String :=
  let cs := normOriginal t
  let sep := if fslash then '/' else '.'
  let firstAnchorPos := if fslash ∧ cs.length > 1 then 1 else 0
  let st0 : PState := { seekingAnchorMark := cs[firstAnchorPos]? = some '&' }
  match run sep strip st0 cs with
  | .error _ => "ERR"
  | .ok st =>
    let b := fun (x : Bool) => if x then "1" else "0"
    String.intercalate "|" [
      String.ofList (st.stack.take 3), toString (min st.stack.length 4),
      toString (st.count - st.stack.length), b st.escapeNext,
      (match st.segType with | some t => segTypeName t | none => "-"),
      b st.searchInverted, (match st.searchMethod with | some m => methodName m | none => "-"),
      b st.searchKeyword.isSome, b st.seekingRegexDelim, b st.capturingRegex,
      toString (min st.collectorLevel 2), collOpName st.collectorOp, b st.seekingCollectorOp,
      (match st.nextCharMustBe with | some c => String.singleton c | none => "-"),
      b st.seekingAnchorMark, segIdClass st.segId, b (st.searchAttr = []), b (st.segs = [])]

/-- `{"op":"parse","t":text,"sep":"auto"|"dot"|"fslash"}` ↦ escaped and unescaped parse outcomes. -/
def handle (j : Json) : Except String Json := do
  let t := s2l (← getStr j "t")
  if (getStr j "op").toOption = some "C14.state" then
    return Json.mkObj [("s", Json.str (abstractState (inferFslash t) true t))]
  let sep := (getStr j "sep").toOption.getD "auto"
  let f := fun strip => match sep with
    | "dot" => parseWith false strip t
    | "fslash" => parseWith true strip t
    | _ => parse strip t
  pure (Json.mkObj [("esc", outToJson (f true)), ("unesc", outToJson (f false))])

end Ypv.Drv.C14
