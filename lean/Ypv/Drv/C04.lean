import Ypv.Drv.Codec
/-! Driver handler for C04 (stub: replaced by the module that models C04) -/
namespace Ypv.Drv.C04
open Lean (Json)

def handle (_op : String) (_j : Json) : Except String Json := throw "C04: driver not implemented yet"

end Ypv.Drv.C04
