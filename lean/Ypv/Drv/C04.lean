import Ypv.Drv.Codec
import Ypv.Model.Edit
import Ypv.Spec.Edit
/-! Driver handler for C04 (delete) and JSON helpers shared with the C03 / C09 handlers. -/
namespace Ypv.Drv.C04
open Lean (Json)
open Ypv Ypv.Drv

def addrsOf (j : Json) (k : String) : Except String (List Addr) := do
  (← getArr j k).toList.mapM addrOfJson

def docOf (j : Json) : Except String Node := do
  nodeOfJson (← j.getObjVal? "doc")

def outToJson : Except Err Node → Json
  | .ok d => Json.mkObj [("ok", nodeToJson d)]
  | .error e => Json.mkObj [("err", errToJson e)]

def fmtOfName : String → Except String Fmt
  | "DEFAULT" => pure .default | "BARE" => pure .bare | "DQUOTE" => pure .dquote
  | "SQUOTE" => pure .squote | "FOLDED" => pure .folded | "LITERAL" => pure .literal
  | "BOOLEAN" => pure .boolean | "FLOAT" => pure .float | "INT" => pure .int
  | s => throw s!"format {s}"

def psegOf (j : Json) : Except String PSeg := do
  match j with
  | .arr #[.str "k", .str s] => pure (.key (s2l s))
  | .arr #[.str "i", ij] => match ij.getInt? with
    | .ok i => pure (.index i)
    | .error e => throw e
  | _ => throw "pseg expected"

def psegsOf (j : Json) (k : String) : Except String (List PSeg) := do
  (← getArr j k).toList.mapM psegOf

/-- `{"op":"C04.delete","doc":…,"addrs":[…]}` ↦ repaired model, specification, pinned loop. -/
def handle (op : String) (j : Json) : Except String Json := do
  match op with
  | "delete" =>
    let d ← docOf j
    let addrs ← addrsOf j "addrs"
    let (pd, pe) := deletePinned d addrs
    pure (Json.mkObj [("model", outToJson (delete d addrs)), ("spec", outToJson (deleteSpec d addrs)),
      ("pinned", Json.mkObj [("doc", nodeToJson pd),
        ("err", match pe with | some e => errToJson e | none => Json.null)])])
  | _ => throw s!"C04: unknown op {op}"

end Ypv.Drv.C04
