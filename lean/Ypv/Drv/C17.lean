import Ypv.Drv.Codec
/-! Driver handler for C17 (stub: replaced by the module that models C17) -/
namespace Ypv.Drv.C17
open Lean (Json)

def handle (_op : String) (_j : Json) : Except String Json := throw "C17: driver not implemented yet"

end Ypv.Drv.C17
