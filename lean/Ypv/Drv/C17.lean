import Ypv.Drv.Codec
import Ypv.Model.Save
/-! Driver handler for C17: save sequences, phases, abstract file system.

Bytes travel as lower-case hex strings.  Steps travel as `{"k":"S|R|U|W|A|M|C","p":path,"d":hex?}`
(stat, openRead, unlink, creatTrunc, append, setMeta, close). -/
namespace Ypv.Drv.C17
open Lean (Json)
open Ypv Ypv.Drv Ypv.Save

def hexVal (c : Char) : Option Nat :=
  if '0' ≤ c ∧ c ≤ '9' then some (c.toNat - '0'.toNat)
  else if 'a' ≤ c ∧ c ≤ 'f' then some (c.toNat - 'a'.toNat + 10)
  else none

def unhex : List Char → Except String Bytes
  | [] => pure []
  | [_] => throw "odd hex"
  | a :: b :: r => do
    match hexVal a, hexVal b with
    | some x, some y => pure (UInt8.ofNat (x * 16 + y) :: (← unhex r))
    | _, _ => throw "bad hex"

def hexDigit (n : Nat) : Char := if n < 10 then Char.ofNat (n + 48) else Char.ofNat (n + 87)

def hex (b : Bytes) : String :=
  String.ofList (b.flatMap fun x => [hexDigit (x.toNat / 16), hexDigit (x.toNat % 16)])

def getHex (j : Json) (k : String) : Except String Bytes := do unhex (← getStr j k).toList

def getChunks (j : Json) (k : String) : Except String (List Bytes) := do
  match j.getObjVal? k with
  | .ok (.arr a) => a.toList.mapM (fun x => match x with
      | .str s => unhex s.toList
      | _ => throw "chunk: hex string expected")
  | _ => pure []

def getBoolD (j : Json) (k : String) (d : Bool) : Bool := (getBool j k).toOption.getD d
def getNatD (j : Json) (k : String) (d : Nat) : Nat :=
  match j.getObjValAs? Nat k with
  | .ok n => n
  | .error _ => d

/-- `{"path": hex | null, …}` -/
def fsOfJson (j : Json) : Except String (List (Str × Option Bytes)) := do
  match j with
  | .obj kvs => kvs.toList.mapM (fun (k, v) => do
      match v with
      | .null => pure (s2l k, none)
      | .str s => pure (s2l k, some (← unhex s.toList))
      | _ => throw "fs: hex or null expected")
  | _ => throw "fs: object expected"

def fsOfList (l : List (Str × Option Bytes)) : FS := fun p => (l.lookup p).join

def stepToJson : Step → Json
  | .stat p => Json.mkObj [("k", "S"), ("p", l2s p)]
  | .openRead p => Json.mkObj [("k", "R"), ("p", l2s p)]
  | .unlink p => Json.mkObj [("k", "U"), ("p", l2s p)]
  | .creatTrunc p => Json.mkObj [("k", "W"), ("p", l2s p)]
  | .append p c => Json.mkObj [("k", "A"), ("p", l2s p), ("n", Json.num (Lean.JsonNumber.fromNat c.length)), ("d", hex c)]
  | .setMeta p => Json.mkObj [("k", "M"), ("p", l2s p)]
  | .close p => Json.mkObj [("k", "C"), ("p", l2s p)]

def stepOfJson (j : Json) : Except String Step := do
  let k ← getStr j "k"
  let p := s2l (← getStr j "p")
  match k with
  | "S" => pure (.stat p)
  | "R" => pure (.openRead p)
  | "U" => pure (.unlink p)
  | "W" => pure (.creatTrunc p)
  | "A" => pure (.append p (← getHex j "d"))
  | "M" => pure (.setMeta p)
  | "C" => pure (.close p)
  | _ => throw s!"step kind {k}"

def stepsOfJson (j : Json) (k : String) : Except String (List Step) := do
  match j.getObjVal? k with
  | .ok (.arr a) => a.toList.mapM stepOfJson
  | _ => pure []

def phaseName : Phase → String
  | .parseArgs => "parseArgs" | .validate => "validate" | .load => "load" | .query => "query"
  | .check => "check" | .apply => "apply" | .render => "render" | .save => "save" | .done => "done"

def oracleOfJson (j : Json) : Oracle :=
  let o := (j.getObjVal? "oracle").toOption.getD (Json.mkObj [])
  { argsOk := getBoolD o "argsOk" true, validOk := getBoolD o "validOk" true,
    loadOk := getBoolD o "loadOk" true, queryOk := getBoolD o "queryOk" true,
    checkOk := getBoolD o "checkOk" true, applyOk := getBoolD o "applyOk" true,
    renderOk := getBoolD o "renderOk" true, dumpOk := getBoolD o "dumpOk" true,
    statOk := getBoolD o "statOk" true }

def fsToJson (fs : FS) (paths : List Str) : Json :=
  Json.mkObj (paths.map fun p => (l2s p, match fs p with
    | none => Json.null
    | some b => Json.str (hex b)))

def outcomeToJson (fs : FS) (paths : List Str) (r : Outcome) : Json :=
  Json.mkObj [("exit", Json.num (Lean.JsonNumber.fromNat r.exit)), ("phase", phaseName r.phase),
    ("trace", Json.arr (r.trace.map stepToJson).toArray),
    ("after", fsToJson (run fs r.trace) paths)]

def handle (op : String) (j : Json) : Except String Json := do
  let fsl ← fsOfJson ((j.getObjVal? "fs").toOption.getD (Json.mkObj []))
  let fs := fsOfList fsl
  let paths := fsl.map (·.1)
  match op with
  | "set" =>
    -- yaml-set on file "t"
    let t := s2l (← getStr j "t")
    let r := runSet (oracleOfJson j) fs (getBoolD j "json" false) (getBoolD j "backup" false) t
      (← getChunks j "oc") (← getChunks j "nc") (← getChunks j "rc")
    pure (outcomeToJson fs paths r)
  | "merge" =>
    let dest ← match (← getStr j "dest") with
      | "stdout" => pure Dest.stdout
      | "output" => pure (Dest.output (s2l (← getStr j "t")))
      | "overwrite" => pure (Dest.overwrite (s2l (← getStr j "t")) (getBoolD j "backup" false))
      | d => throw s!"dest {d}"
    let ins := ((← getArr j "ins").toList.filterMap fun x => match x with
      | .str s => some (s2l s)
      | _ => none)
    let r := runMerge (oracleOfJson j) fs dest ins (getNatD j "mergeExit" 0)
      (← getChunks j "oc") (← getChunks j "nc")
    pure (outcomeToJson fs paths r)
  | "rotate" =>
    let t := s2l (← getStr j "t")
    let tr := runRotateFile ((oracleOfJson j).statOk && (fs (bakOf t)).isSome) (getBoolD j "isFile" true) (getBoolD j "loadOk" true)
      (getBoolD j "changed" true) (getBoolD j "backup" false) t (← getChunks j "oc") (← getChunks j "nc")
    pure (Json.mkObj [("trace", Json.arr (tr.map stepToJson).toArray), ("after", fsToJson (run fs tr) paths)])
  | "exec" =>
    -- the file-system semantics applied to an observed step list
    let steps ← stepsOfJson j "steps"
    pure (Json.mkObj [("after", fsToJson (run fs steps) paths),
      ("openW", Json.arr ((openW steps).map (fun p => Json.str (l2s p))).toArray)])
  | "fault" =>
    -- model state after a fault at step k of a `--backup` save followed by the cleanup `cl`
    let t := s2l (← getStr j "t")
    let w ← match (← getStr j "writer") with
      | "setYaml" => pure Writer.setYaml
      | "setJson" => pure Writer.setJson
      | "mergeOverwrite" => pure Writer.mergeOverwrite
      | "rotate" => pure Writer.rotate
      | x => throw s!"writer {x}"
    let steps := saveSteps ((oracleOfJson j).statOk && (fs (bakOf t)).isSome) w (getBoolD j "backup" true) t (← getChunks j "oc") (← getChunks j "nc")
    let k := getNatD j "k" 0
    let cl ← stepsOfJson j "cl"
    let ok : Bool := decide (Cleanup (steps.take k) cl)
    pure (Json.mkObj [("n", Json.num (Lean.JsonNumber.fromNat steps.length)), ("cleanupOk", Json.bool ok),
      ("after", fsToJson (runFault fs steps k cl) (paths ++ [t, bakOf t]))])
  | _ => throw s!"C17: unknown op {op}"

end Ypv.Drv.C17
