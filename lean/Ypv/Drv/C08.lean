import Ypv.Drv.Codec
import Ypv.Model.Parser
import Ypv.Model.Render
import Ypv.Spec.Write
/-! Driver handler for C08: stringifier / `YAMLPath` object model and the specification writer -/
namespace Ypv.Drv.C08
open Lean (Json)
open Ypv Ypv.Drv

def errJson : PErr → Json
  | .ypath c => Json.mkObj [("ypath", Json.num (Lean.JsonNumber.fromNat c))]
  | .crash c => Json.mkObj [("crash", Json.num (Lean.JsonNumber.fromNat c))]

def outJson {α : Type} (f : α → Json) : Except PErr α → Json
  | .ok v => Json.mkObj [("ok", f v)]
  | .error e => errJson e

def strJson (s : Str) : Json := Json.str (l2s s)

def sepOf : String → SepOpt
  | "dot" => .dot
  | "fslash" => .fslash
  | _ => .auto

/-- `str(p)` of a fresh `YAMLPath(t)` after `p.separator = to` (no assignment for `auto`). -/
def strTo (t : Str) (to : SepOpt) : Except PErr Str :=
  let p := PathObj.new t
  match (if to = .auto then .ok p else p.setSep to) with
  | .error e => .error e
  | .ok p => match p.str with
    | .error e => .error e
    | .ok (s, _) => .ok s

def bind2 {α β : Type} (x : Except PErr α) (f : α → Except PErr β) : Except PErr β :=
  match x with
  | .ok v => f v
  | .error e => .error e

/-- everything the check observes about one path text -/
def textRecord (t : Str) : Json :=
  let s0 := strTo t .auto
  let sd := strTo t .dot
  let sf := strTo t .fslash
  let re (s : Except PErr Str) : Json := outJson segsToJson (bind2 s (fun x => parse true x))
  let fx (s : Except PErr Str) : Json := outJson strJson (bind2 s (fun x => strTo x .auto))
  let eq (a b : Except PErr Str) : Json :=
    outJson Json.bool (bind2 a (fun x => bind2 b (fun y => eqModel x y)))
  Json.mkObj [
    ("esc", outJson segsToJson (parse true t)),
    ("unesc", outJson segsToJson (parse false t)),
    ("wf", Json.bool (match parse true t with | .ok ss => wfSegs ss | .error _ => false)),
    ("str", outJson strJson s0), ("sd", outJson strJson sd), ("sf", outJson strJson sf),
    ("re", Json.arr #[re s0, re sd, re sf]),
    ("fix", Json.arr #[fx s0, fx sd, fx sf]),
    ("eq", Json.arr #[eq (.ok t) sd, eq (.ok t) sf, eq sd sf])]

def objJson (p : PathObj) : Json :=
  Json.mkObj [("original", strJson p.original)]

def handle (op : String) (j : Json) : Except String Json := do
  match op with
  | "text" =>
    let t := s2l (← getStr j "t")
    pure (textRecord t)
  | "segs" =>
    let ss ← segsOfJson (← j.getObjVal? "segs")
    let wd := write false ss
    let wf := write true ss
    pure (Json.mkObj [
      ("wf", Json.bool (wfSegs ss)), ("dotx", Json.bool (dotExpressible ss)),
      ("wd", strJson wd), ("wf_", strJson wf),
      ("rd", outJson strJson (strTo wd .auto)), ("rf", outJson strJson (strTo wf .auto)),
      ("pd", outJson segsToJson (parseWith false true wd)),
      ("pf", outJson segsToJson (parseWith true true wf))])
  | "eq" =>
    let a := s2l (← getStr j "a")
    let b := s2l (← getStr j "b")
    pure (outJson Json.bool (eqModel a b))
  | "appendpop" =>
    let t := s2l (← getStr j "t")
    let sg := s2l (← getStr j "seg")
    let viaAdd := (getBool j "add").toOption.getD false
    let p0 := PathObj.new t
    let p1 := if viaAdd then p0.add sg else p0.append sg
    let esc1 := (p1.escaped).map (·.1)
    let popped := p1.pop
    pure (Json.mkObj [
      ("app", strJson p1.original),
      ("app_esc", outJson segsToJson esc1),
      ("pop", outJson (fun (x : Seg × PathObj) => Json.mkObj
          [("seg", segToJson x.1), ("after", strJson x.2.original),
           ("after_esc", outJson segsToJson ((x.2.escaped).map (·.1)))]) popped)])
  | "pop" =>
    let t := s2l (← getStr j "t")
    let to := sepOf ((getStr j "to").toOption.getD "auto")
    let p := PathObj.new t
    let r : Except PErr (Seg × PathObj) :=
      bind2 (if to = .auto then .ok p else p.setSep to) (fun p => p.pop)
    pure (outJson (fun (x : Seg × PathObj) => Json.mkObj
          [("seg", segToJson x.1), ("after", strJson x.2.original)]) r)
  | "escape" =>
    let v := s2l (← getStr j "v")
    let sep : Char := if (← getStr j "sep") = "fslash" then '/' else '.'
    pure (Json.mkObj [("section", strJson (escapePathSection sep v)),
                      ("key", strJson (ensureEscaped (keySyms sep) v)),
                      ("spec", strJson (escText sep v))])
  | "strip" =>
    let t := s2l (← getStr j "t")
    let pre := s2l (← getStr j "pre")
    let r := stripPathPrefix (PathObj.new t) (PathObj.new pre)
    pure (outJson (fun (x : PathObj × PathObj × PathObj) => Json.mkObj
      [("original", strJson x.1.original),
       ("str", outJson strJson ((x.1.str).map (·.1)))]) r)
  | "tables" =>
    let ms : List Method := [.contains, .endsWith, .equals, .startsWith, .gt, .lt, .ge, .le, .regex]
    let cs : List CollOp := [.none, .add, .sub, .inter]
    let ks : List Keyword := [.distinct, .hasChild, .name, .max, .min, .parent, .unique]
    pure (Json.mkObj [
      ("methods", Json.mkObj (ms.map (fun m => (methodName m, strJson m.text)))),
      ("collops", Json.mkObj (cs.map (fun m => (collOpName m, strJson m.text)))),
      ("keywords", Json.mkObj (ks.map (fun m => (keywordName m, strJson m.text)))),
      ("keysyms", strJson (keySyms '.')), ("sectionsyms", strJson (sectionSyms '.')),
      ("special", strJson ((sectionSyms '.').filter (special '.'))),
      ("delims", strJson regexDelims), ("wdelims", strJson writeDelims)])
  | _ => throw s!"C08: unknown op {op}"

end Ypv.Drv.C08
