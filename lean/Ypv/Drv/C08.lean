import Ypv.Drv.Codec
/-! Driver handler for C08 (stub: replaced by the module that models C08) -/
namespace Ypv.Drv.C08
open Lean (Json)

def handle (_op : String) (_j : Json) : Except String Json := throw "C08: driver not implemented yet"

end Ypv.Drv.C08
