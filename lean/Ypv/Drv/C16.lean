import Ypv.Drv.Codec
import Ypv.Drv.C04
import Ypv.Drv.C05
import Ypv.Drv.C18
import Ypv.Model.Cli
/-! Driver handler for C16 (the command-line tools).

Requests (`null` stands for "absent"; documents in the canonical JSON of `Codec.lean`):
* `C16.get`      `{"args":{"file","nostdin","priv","pub"},"tty":b,"ld":doc|null,"q":{"nodes":[doc],"err":null|"ypath"|"eyaml"}}`
* `C16.set`      `{"args":{…},"tty":b,"ld":null|{"doc":doc|null},"g":{"addrs":[addr],"failed":b},"segs":[pseg]|null}`
* `C16.merge`    `{"args":{…},"tty":b,"loads":[[doc]|null],"stdin":[doc]|null,"cfg":CFG}`
* `C16.diff`     `{"args":{…},"l":[doc]|null,"r":[doc]|null,"report":[b]|null}` (`report`: is-SAME flag of every entry of the library's report)
* `C16.validate` `{"args":{…},"tty":b,"loads":[[b]],"stdin":[b]}`
* `C16.paths`    `{"args":{…},"tty":b,"loads":[[doc|null]],"stdin":[doc|null],"valid":[[expr,b]],"find":[[doc,expr,[path]]]}`
-/
namespace Ypv.Drv.C16
open Lean (Json)
open Ypv Ypv.Drv Ypv.Cli

def nat (n : Nat) : Json := Json.num (Lean.JsonNumber.fromNat n)

def fileArgOf : Json → Except String FileArg
  | .str "dash" => pure .dash
  | .str "path" => pure .path
  | _ => throw "file argument: dash|path"

def optFileOf (j : Json) (k : String) : Except String (Option FileArg) :=
  match j.getObjVal? k with
  | .ok .null => pure none
  | .ok v => (fileArgOf v).map some
  | .error _ => pure none

def filesOf (j : Json) : Except String (List FileArg) := do
  (← getArr j "files").toList.mapM fileArgOf

def opt3Of (j : Json) (k : String) : Except String Opt3 :=
  match j.getObjVal? k with
  | .ok (.str "good") => pure .good
  | .ok (.str "bad") => pure .bad
  | .ok (.str "unset") | .ok .null | .error _ => pure .unset
  | _ => throw s!"{k}: unset|good|bad"

def flag (j : Json) (k : String) : Bool :=
  match j.getObjValAs? Bool k with
  | .ok b => b
  | .error _ => false

def optStrOf (j : Json) (k : String) : Option Str :=
  match j.getObjVal? k with
  | .ok (.str s) => some (s2l s)
  | _ => none

def optIntOf (j : Json) (k : String) : Option Int :=
  match j.getObjVal? k with
  | .ok v => match v.getInt? with
    | .ok i => some i
    | .error _ => none
  | .error _ => none

def docsOf (j : Json) : Except String (List Node) :=
  match j with
  | .arr xs => xs.toList.mapM nodeOfJson
  | _ => throw "document list expected"

def optDocsOf (j : Json) (k : String) : Except String (Option (List Node)) :=
  match j.getObjVal? k with
  | .ok .null | .error _ => pure none
  | .ok v => (docsOf v).map some

def optDocOf (j : Json) : Except String (Option Node) :=
  match j with
  | .null => pure none
  | v => (nodeOfJson v).map some

def boolsOf (j : Json) : Except String (List Bool) :=
  match j with
  | .arr xs => xs.toList.mapM (fun b => match b with | .bool v => pure v | _ => throw "bool expected")
  | _ => throw "flag list expected"

def strsOf (j : Json) (k : String) : Except String (List Str) := do
  (← getArr j k).toList.mapM (fun s => match s with | .str v => pure (s2l v) | _ => throw "string expected")

/-! ### yaml-get -/

def itemToJson : Item → Json
  | .json n => Json.mkObj [("json", nodeToJson n)]
  | .text s => Json.mkObj [("text", l2s s)]

def handleGet (j : Json) : Except String Json := do
  let aj ← j.getObjVal? "args"
  let a : GetArgs := ⟨← optFileOf aj "file", flag aj "nostdin", ← opt3Of aj "priv", ← opt3Of aj "pub"⟩
  let ld ← optDocOf (← j.getObjVal? "ld")
  let qj ← j.getObjVal? "q"
  let nodes ← docsOf (← qj.getObjVal? "nodes")
  let err ← match qj.getObjVal? "err" with
    | .ok (.str "ypath") => pure (some QErr.ypath)
    | .ok (.str "eyaml") => pure (some QErr.eyaml)
    | .ok .null | .error _ => pure none
    | _ => throw "q.err"
  let o := get (fun _ => ⟨nodes, err⟩) a (flag j "tty") ld
  pure (Json.mkObj [("out", Json.arr (o.out.map itemToJson).toArray), ("exit", nat o.exit),
    ("errors", nat (getErrors a (flag j "tty")).length)])

/-! ### yaml-set -/

def srcOf (j : Json) : Except String Src := do
  match ← getStr j "k" with
  | "none" => pure .none
  | "value" => pure (.value (s2l (← getStr j "v")))
  | "stdin" => pure (.stdin (s2l (← getStr j "v")))
  | "file" => pure (.file (s2l (← getStr j "v")))
  | "null" => pure .null
  | "random" => pure (.random (← j.getObjValAs? Nat "n"))
  | "delete" => pure .delete
  | "aliasof" => pure .aliasof
  | "mergekey" => pure .mergekey
  | s => throw s!"src {s}"

def anchorOf (j : Json) : Except String AnchorArg :=
  match j.getObjVal? "anchor" with
  | .ok (.str "name") => pure .name
  | .ok (.str "symbols") => pure .symbolsOnly
  | .ok (.str "unset") | .ok .null | .error _ => pure .unset
  | _ => throw "anchor: unset|symbols|name"

def setArgsOf (aj : Json) : Except String SetArgs := do
  let fmt ← match aj.getObjVal? "fmt" with
    | .ok (.str s) => C04.fmtOfName s
    | _ => pure Fmt.default
  pure { file := ← optFileOf aj "file", nostdin := flag aj "nostdin", src := ← srcOf (← aj.getObjVal? "src"),
         anchor := ← anchorOf aj, tag := flag aj "tag", backup := flag aj "backup",
         change := s2l (← getStr aj "change"), saveto := optStrOf aj "saveto", mustexist := flag aj "mustexist",
         check := optStrOf aj "check", fmt := fmt, eyamlcrypt := flag aj "eyamlcrypt",
         randomFromShort := flag aj "randomFromShort", priv := ← opt3Of aj "priv", pub := ← opt3Of aj "pub" }

def setOutToJson : Option SetOut → Json
  | none => Json.mkObj [("unmodelled", .bool true)]
  | some o => Json.mkObj [("exit", nat o.exit),
      ("written", match o.written with
        | some (dst, d) => Json.mkObj [("dest", match dst with | .file => "file" | .stdout => "stdout"),
                                       ("doc", nodeToJson d)]
        | none => Json.null),
      ("backup", match o.backup with | some d => nodeToJson d | none => Json.null)]

def handleSet (j : Json) : Except String Json := do
  let a ← setArgsOf (← j.getObjVal? "args")
  let ld : Option (Option Node) ← match j.getObjVal? "ld" with
    | .ok .null | .error _ => pure none
    | .ok o => (optDocOf (← o.getObjVal? "doc")).map some
  let gj ← j.getObjVal? "g"
  let g : Gather := ⟨← C04.addrsOf gj "addrs", flag gj "failed"⟩
  let segs ← match j.getObjVal? "segs" with
    | .ok .null | .error _ => pure none
    | .ok _ => (C04.psegsOf j "segs").map some
  let tty := flag j "tty"
  pure ((setOutToJson (set (fun _ => g) a tty ld segs)).setObjVal! "errors" (nat (setErrors a tty).length))

/-! ### yaml-merge -/

def outArgOf (aj : Json) : Except String OutArg :=
  match aj.getObjVal? "out" with
  | .ok .null | .error _ => pure .stdout
  | .ok o => do
    match ← getStr o "k" with
    | "stdout" => pure .stdout
    | "output" => pure (.output (flag o "exists"))
    | "overwrite" => pure (.overwrite (flag o "exists"))
    | s => throw s!"out {s}"

def loadsOf (j : Json) (k : String) : Except String (List (Option (List Node))) := do
  (← getArr j k).toList.mapM (fun f => match f with
    | .null => pure none
    | v => (docsOf v).map some)

def handleMerge (j : Json) : Except String Json := do
  let aj ← j.getObjVal? "args"
  let a : MergeArgs := { files := ← filesOf aj, nostdin := flag aj "nostdin", config := ← opt3Of aj "config",
                         out := ← outArgOf aj, backup := flag aj "backup", mode := ← C18.modeOf (← getStr aj "mode") }
  let cfg ← C05.getCfg j
  let tty := flag j "tty"
  let r := merge (Merge.mergeWith cfg) C18.clsOf a tty (← loadsOf j "loads") (← optDocsOf j "stdin")
  let errs := nat (mergeErrors a tty).length
  pure (match r with
    | none => Json.mkObj [("crash", "IndexError"), ("errors", errs)]
    | some (.error e) => Json.mkObj [("err", C05.merrToJson e), ("errors", errs)]
    | some (.ok o) => Json.mkObj [("exit", nat o.exit),
        ("docs", match o.docs with | some ds => Json.arr (ds.map nodeToJson).toArray | none => Json.null),
        ("toFile", .bool o.toFile), ("backup", .bool o.backup), ("errors", errs)])

/-! ### yaml-diff -/

def handleDiff (j : Json) : Except String Json := do
  let aj ← j.getObjVal? "args"
  let a : DiffArgs := { lhs := ← fileArgOf (← aj.getObjVal? "lhs"), rhs := ← fileArgOf (← aj.getObjVal? "rhs"),
                        quiet := flag aj "quiet", same := flag aj "same", onlysame := flag aj "onlysame",
                        config := ← opt3Of aj "config", priv := ← opt3Of aj "priv", pub := ← opt3Of aj "pub",
                        lidx := optIntOf aj "lidx", ridx := optIntOf aj "ridx" }
  let rep : Option (List (Nat × Bool)) ← match j.getObjVal? "report" with
    | .ok .null | .error _ => pure none
    | .ok v => do
      let bs ← boolsOf v
      pure (some ((List.range bs.length).zip bs))
  let errs := nat (diffErrors a).length
  pure (match diff (E := Nat × Bool) (·.2) (fun _ _ => rep) a (← optDocsOf j "l") (← optDocsOf j "r") with
    | none => Json.mkObj [("crash", "IndexError"), ("errors", errs)]
    | some o => Json.mkObj [("printed", Json.arr (o.printed.map (fun e => nat e.1)).toArray),
                            ("exit", nat o.exit), ("errors", errs)])

/-! ### yaml-validate -/

def handleValidate (j : Json) : Except String Json := do
  let aj ← j.getObjVal? "args"
  let a : ValArgs := ⟨← filesOf aj, flag aj "nostdin", flag aj "quiet", flag aj "verbose"⟩
  let loads ← (← getArr j "loads").toList.mapM boolsOf
  let stdin ← boolsOf (← j.getObjVal? "stdin")
  let tty := flag j "tty"
  let o := validate a tty loads stdin
  pure (Json.mkObj [("lines", Json.arr (o.lines.map (fun (f, i, ok) => Json.arr #[nat f, nat i, .bool ok])).toArray),
    ("exit", nat o.exit), ("errors", nat (valErrors a tty).length)])

/-! ### yaml-paths -/

def optDocsListOf (j : Json) : Except String (List (Option Node)) :=
  match j with
  | .arr xs => xs.toList.mapM optDocOf
  | _ => throw "list of documents/null expected"

def handlePaths (j : Json) : Except String Json := do
  let aj ← j.getObjVal? "args"
  let a : PathsArgs := { search := ← strsOf aj "search", exc := ← strsOf aj "exc", files := ← filesOf aj,
                         nostdin := flag aj "nostdin", priv := ← opt3Of aj "priv", pub := ← opt3Of aj "pub" }
  let validTab ← (← getArr j "valid").toList.mapM (fun e => match e with
    | .arr #[.str s, .bool b] => pure (s2l s, b)
    | _ => throw "valid: [expr, bool]")
  let findTab ← (← getArr j "find").toList.mapM (fun e => match e with
    | .arr #[dj, .str s, .arr ps] => do
      let d ← nodeOfJson dj
      let ps ← ps.toList.mapM (fun p => match p with | .str v => pure (s2l v) | _ => throw "path text")
      pure (d, s2l s, ps)
    | _ => throw "find: [doc, expr, [path]]")
  let valid : Str → Bool := fun e => (validTab.lookup e).getD false
  let find : Node → Str → List Str := fun d e =>
    match findTab.find? (fun (d', e', _) => d' == d && e' == e) with
    | some (_, _, ps) => ps
    | none => []
  let loads ← (← getArr j "loads").toList.mapM optDocsListOf
  let stdin ← optDocsListOf (← j.getObjVal? "stdin")
  let tty := flag j "tty"
  let o := paths valid find a tty loads stdin
  pure (Json.mkObj [("lines", Json.arr (o.lines.map (fun (f, i, e, p) =>
      Json.arr #[nat f, nat i, Json.str (l2s e), Json.str (l2s p)])).toArray),
    ("exit", nat o.exit), ("errors", nat (pathsErrors a tty).length)])

def handle (op : String) (j : Json) : Except String Json :=
  match op with
  | "get" => handleGet j
  | "set" => handleSet j
  | "merge" => handleMerge j
  | "diff" => handleDiff j
  | "validate" => handleValidate j
  | "paths" => handlePaths j
  | _ => throw s!"C16: unknown op {op}"

end Ypv.Drv.C16
