import Ypv.Drv.Codec
/-! Driver handler for C16 (stub: replaced by the module that models C16) -/
namespace Ypv.Drv.C16
open Lean (Json)

def handle (_op : String) (_j : Json) : Except String Json := throw "C16: driver not implemented yet"

end Ypv.Drv.C16
