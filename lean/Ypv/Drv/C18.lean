import Ypv.Drv.Codec
/-! Driver handler for C18 (stub: replaced by the module that models C18) -/
namespace Ypv.Drv.C18
open Lean (Json)

def handle (_op : String) (_j : Json) : Except String Json := throw "C18: driver not implemented yet"

end Ypv.Drv.C18
