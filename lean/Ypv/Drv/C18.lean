import Ypv.Drv.C05
import Ypv.Model.MultiDoc
/-! Driver handler for C18 (multi-document merges), the pairwise merge being C05's `mergeWith cfg`.

* `C18.docs` `{"mode": "condense_all"|"merge_across"|"matrix_merge", "lhs": [doc], "rhs": [doc]|null, "cfg": CFG}`
* `C18.main` `{"mode": …, "files": [[doc]], "cfg": CFG}`

answer `{"docs": [doc], "state": n}` | `{"err": class}` (an exception the functions do not catch) |
`{"err": "crash:IndexError"}` (empty left-hand stream under CONDENSE_ALL).
-/
namespace Ypv.Drv.C18
open Lean (Json)
open Ypv Ypv.Drv Ypv.Merge Ypv.MultiDoc

def clsOf : MErr → Cls
  | .merge => .merge
  | _ => .other

def modeOf : String → Except String Mode
  | "condense_all" => pure .condenseAll
  | "merge_across" => pure .mergeAcross
  | "matrix_merge" => pure .matrixMerge
  | s => throw s!"mode {s}"

def docsOf (j : Json) : Except String (List Node) :=
  match j with
  | .arr xs => xs.toList.mapM nodeOfJson
  | _ => throw "document list expected"

def outJson : Option (Except MErr Out) → Json
  | none => Json.mkObj [("err", "crash:IndexError")]
  | some (.error e) => Json.mkObj [("err", Ypv.Drv.C05.merrToJson e)]
  | some (.ok o) => Json.mkObj [("docs", Json.arr (o.docs.map nodeToJson).toArray),
                                ("state", Json.num (Lean.JsonNumber.fromNat o.state))]

def handle (op : String) (j : Json) : Except String Json := do
  let mode ← modeOf (← getStr j "mode")
  let cfg ← Ypv.Drv.C05.getCfg j
  match op with
  | "docs" =>
    let lhs ← docsOf (← j.getObjVal? "lhs")
    let rhs ← match j.getObjVal? "rhs" with
      | .ok .null => pure none
      | .ok r => (docsOf r).map some
      | .error e => throw e
    pure (outJson (mergeDocs (mergeWith cfg) clsOf mode lhs rhs))
  | "main" =>
    let files ← match j.getObjVal? "files" with
      | .ok (.arr xs) => xs.toList.mapM docsOf
      | _ => throw "files: list of document lists expected"
    pure (outJson (mainRun (mergeWith cfg) clsOf mode files))
  | _ => throw s!"C18: unknown op {op}"

end Ypv.Drv.C18
