import Lean.Data.Json
import Ypv.Model.Basic
import Ypv.Model.Path
/-!
# JSON line-protocol codecs shared by all driver modules (not part of the model)
-/
namespace Ypv.Drv
open Lean (Json)

def s2l (s : String) : Str := s.toList
def l2s (l : Str) : String := String.ofList l

def getStr (j : Json) (k : String) : Except String String := j.getObjValAs? String k
def getInt (j : Json) (k : String) : Except String Int := j.getObjValAs? Int k
def getBool (j : Json) (k : String) : Except String Bool := j.getObjValAs? Bool k
def getArr (j : Json) (k : String) : Except String (Array Json) := do
  match j.getObjVal? k with
  | .ok (.arr a) => pure a
  | _ => throw s!"field {k}: array expected"

def optStr (j : Json) (k : String) : Option Str :=
  match j.getObjValAs? String k with
  | .ok s => some (s2l s)
  | .error _ => none

def intOfString (s : String) : Except String Int :=
  match s.toInt? with
  | some i => pure i
  | none => throw s!"bad int {s}"

def keyOfJson (j : Json) : Except String Key := do
  match j with
  | .str s => pure (.str (s2l s))
  | .num _ => match j.getInt? with
    | .ok i => pure (.int i)
    | .error e => throw e
  | _ => throw "key: string or int expected"

def keyToJson : Key → Json
  | .str s => .str (l2s s)
  | .int i => Json.num (Lean.JsonNumber.fromInt i)

def scalarOfJson (j : Json) : Except String Scalar := do
  let k ← getStr j "k"
  match k with
  | "null" => pure .null
  | "bool" => pure (.bool (← getBool j "v"))
  | "int" => pure (.int (← intOfString (← getStr j "v")))
  | "float" => pure (.float (← intOfString (← getStr j "m")) (← getInt j "e"))
  | "str" => pure (.str (s2l (← getStr j "v")))
  | "opaque" => pure (.opaque (s2l (← getStr j "v")))
  | _ => throw s!"scalar kind {k}"

def scalarToJson : Scalar → Json
  | .null => Json.mkObj [("k", "null")]
  | .bool b => Json.mkObj [("k", "bool"), ("v", .bool b)]
  | .int i => Json.mkObj [("k", "int"), ("v", toString i)]
  | .float m e => Json.mkObj [("k", "float"), ("m", toString m), ("e", Json.num (Lean.JsonNumber.fromInt e))]
  | .str s => Json.mkObj [("k", "str"), ("v", l2s s)]
  | .opaque s => Json.mkObj [("k", "opaque"), ("v", l2s s)]

partial def nodeOfJson (j : Json) : Except String Node := do
  let k ← getStr j "k"
  let a := optStr j "a"
  match k with
  | "seq" =>
    let items ← (← getArr j "i").toList.mapM nodeOfJson
    pure (.seq a items)
  | "map" =>
    let es ← (← getArr j "e").toList.mapM (fun e => do
      match e with
      | .arr #[kj, vj] => pure (← keyOfJson kj, ← nodeOfJson vj)
      | _ => throw "map entry: [key, node] expected")
    pure (.map a es)
  | "set" =>
    let ms ← (← getArr j "m").toList.mapM keyOfJson
    pure (.set a ms)
  | _ => pure (.scalar a (← scalarOfJson j))

def withAnchor (a : Option Str) (fields : List (String × Json)) : Json :=
  match a with
  | some n => Json.mkObj (fields ++ [("a", Json.str (l2s n))])
  | none => Json.mkObj fields

partial def nodeToJson : Node → Json
  | .scalar a v =>
    match scalarToJson v with
    | .obj _ => match a with
      | some n => (scalarToJson v).setObjVal! "a" (Json.str (l2s n))
      | none => scalarToJson v
    | j => j
  | .seq a items => withAnchor a [("k", "seq"), ("i", Json.arr (items.map nodeToJson).toArray)]
  | .map a es => withAnchor a [("k", "map"),
      ("e", Json.arr (es.map (fun (k, n) => Json.arr #[keyToJson k, nodeToJson n])).toArray)]
  | .set a ms => withAnchor a [("k", "set"), ("m", Json.arr (ms.map keyToJson).toArray)]

def refToJson : Ref → Json
  | .key k => Json.arr #["k", keyToJson k]
  | .idx i => Json.arr #["i", Json.num (Lean.JsonNumber.fromNat i)]
  | .member k => Json.arr #["m", keyToJson k]

def refOfJson (j : Json) : Except String Ref := do
  match j with
  | .arr #[.str "k", kj] => pure (.key (← keyOfJson kj))
  | .arr #[.str "m", kj] => pure (.member (← keyOfJson kj))
  | .arr #[.str "i", ij] => match ij.getNat? with
    | .ok n => pure (.idx n)
    | .error e => throw e
  | _ => throw "ref expected"

def addrToJson (a : Addr) : Json := Json.arr (a.map refToJson).toArray
def addrOfJson (j : Json) : Except String Addr := do
  match j with
  | .arr xs => xs.toList.mapM refOfJson
  | _ => throw "addr: array expected"

def segTypeName : SegType → String
  | .anchor => "ANCHOR" | .collector => "COLLECTOR" | .index => "INDEX" | .key => "KEY"
  | .search => "SEARCH" | .traverse => "TRAVERSE" | .keywordSearch => "KEYWORD_SEARCH"
  | .matchAll => "MATCH_ALL"

def segTypeOfName : String → Except String SegType
  | "ANCHOR" => pure .anchor | "COLLECTOR" => pure .collector | "INDEX" => pure .index
  | "KEY" => pure .key | "SEARCH" => pure .search | "TRAVERSE" => pure .traverse
  | "KEYWORD_SEARCH" => pure .keywordSearch | "MATCH_ALL" => pure .matchAll
  | s => throw s!"segment type {s}"

def methodName : Method → String
  | .contains => "CONTAINS" | .endsWith => "ENDS_WITH" | .equals => "EQUALS"
  | .startsWith => "STARTS_WITH" | .gt => "GREATER_THAN" | .lt => "LESS_THAN"
  | .ge => "GREATER_THAN_OR_EQUAL" | .le => "LESS_THAN_OR_EQUAL" | .regex => "REGEX"

def methodOfName : String → Except String Method
  | "CONTAINS" => pure .contains | "ENDS_WITH" => pure .endsWith | "EQUALS" => pure .equals
  | "STARTS_WITH" => pure .startsWith | "GREATER_THAN" => pure .gt | "LESS_THAN" => pure .lt
  | "GREATER_THAN_OR_EQUAL" => pure .ge | "LESS_THAN_OR_EQUAL" => pure .le | "REGEX" => pure .regex
  | s => throw s!"method {s}"

def keywordName : Keyword → String
  | .distinct => "DISTINCT" | .hasChild => "HAS_CHILD" | .name => "NAME" | .max => "MAX"
  | .min => "MIN" | .parent => "PARENT" | .unique => "UNIQUE"

def keywordOfName : String → Except String Keyword
  | "DISTINCT" => pure .distinct | "HAS_CHILD" => pure .hasChild | "NAME" => pure .name
  | "MAX" => pure .max | "MIN" => pure .min | "PARENT" => pure .parent | "UNIQUE" => pure .unique
  | s => throw s!"keyword {s}"

def collOpName : CollOp → String
  | .none => "NONE" | .add => "ADDITION" | .sub => "SUBTRACTION" | .inter => "INTERSECTION"

def collOpOfName : String → Except String CollOp
  | "NONE" => pure .none | "ADDITION" => pure .add | "SUBTRACTION" => pure .sub
  | "INTERSECTION" => pure .inter
  | s => throw s!"collector operator {s}"

/-- A segment as `[type, attrs]`; attrs: string | {"int": "…"} | {"search": …} | … | null. -/
def segToJson : Seg → Json
  | (t, a) =>
    let aj : Json := match a with
      | .str s => Json.str (l2s s)
      | .int i => Json.mkObj [("int", toString i)]
      | .search inv m attr term => Json.mkObj [("search", Json.mkObj
          [("inv", .bool inv), ("m", methodName m), ("attr", l2s attr), ("term", l2s term)])]
      | .keyword inv k p => Json.mkObj [("keyword", Json.mkObj
          [("inv", .bool inv), ("kw", keywordName k), ("params", l2s p)])]
      | .collector e op => Json.mkObj [("collector", Json.mkObj
          [("expr", l2s e), ("op", collOpName op)])]
      | .none => Json.null
    Json.arr #[segTypeName t, aj]

def segOfJson (j : Json) : Except String Seg := do
  match j with
  | .arr #[.str t, aj] =>
    let ty ← segTypeOfName t
    match aj with
    | .str s => pure (ty, .str (s2l s))
    | .null => pure (ty, .none)
    | _ =>
      match aj.getObjVal? "int" with
      | .ok (.str s) => pure (ty, .int (← intOfString s))
      | _ =>
      match aj.getObjVal? "search" with
      | .ok o => pure (ty, .search (← getBool o "inv") (← methodOfName (← getStr o "m"))
                        (s2l (← getStr o "attr")) (s2l (← getStr o "term")))
      | _ =>
      match aj.getObjVal? "keyword" with
      | .ok o => pure (ty, .keyword (← getBool o "inv") (← keywordOfName (← getStr o "kw"))
                        (s2l (← getStr o "params")))
      | _ =>
      match aj.getObjVal? "collector" with
      | .ok o => pure (ty, .collector (s2l (← getStr o "expr")) (← collOpOfName (← getStr o "op")))
      | _ => throw "segment attrs"
  | _ => throw "segment: [type, attrs] expected"

def segsToJson (ss : List Seg) : Json := Json.arr (ss.map segToJson).toArray
def segsOfJson (j : Json) : Except String (List Seg) := do
  match j with
  | .arr xs => xs.toList.mapM segOfJson
  | _ => throw "segments: array expected"

def errToJson : Err → Json
  | .ypath k => Json.str ("ypath:" ++ (match k with
      | .generic => "generic" | .unmatched => "unmatched" | .typeMismatch => "typeMismatch"
      | .recursion => "recursion" | .noDocument => "noDocument" | .duplicateKey => "duplicateKey"))
  | .merge => "merge"
  | .eyaml => "eyaml"
  | .crash k => Json.str ("crash:" ++ (match k with
      | .indexError => "IndexError" | .typeError => "TypeError" | .keyError => "KeyError"
      | .attributeError => "AttributeError" | .valueError => "ValueError" | .reError => "error"
      | .recursionError => "RecursionError" | .other => "other"))
  | .outOfModel => "outOfModel"

end Ypv.Drv
