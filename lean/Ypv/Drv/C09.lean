import Ypv.Drv.Codec
/-! Driver handler for C09 (stub: replaced by the module that models C09) -/
namespace Ypv.Drv.C09
open Lean (Json)

def handle (_op : String) (_j : Json) : Except String Json := throw "C09: driver not implemented yet"

end Ypv.Drv.C09
