import Ypv.Drv.C04
/-! Driver handler for C09 (creation of a missing straight-line path). -/
namespace Ypv.Drv.C09
open Lean (Json)
open Ypv Ypv.Drv Ypv.Drv.C04

/-- `{"op":"C09.create","doc":…,"segs":[["k","a"],["i",2]],"v":scalar,"fmt":"DEFAULT","mode":"get"|"set"}` -/
def handle (op : String) (j : Json) : Except String Json := do
  match op with
  | "create" =>
    let d ← docOf j
    let segs ← psegsOf j "segs"
    let v ← scalarOfJson (← j.getObjVal? "v")
    let mode ← getStr j "mode"
    if mode = "get" then
      match getOrCreate d segs v with
      | .ok r => pure (Json.mkObj [("ok", nodeToJson r.doc), ("addr", addrToJson r.addr)])
      | .error e => pure (Json.mkObj [("err", errToJson e)])
    else
      let fmt ← fmtOfName (← getStr j "fmt")
      pure (outToJson (setOrCreate d segs v fmt))
  | _ => throw s!"C09: unknown op {op}"

end Ypv.Drv.C09
