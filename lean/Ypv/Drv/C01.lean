import Ypv.Drv.Codec
/-! Driver handler for C01 (stub: replaced by the module that models C01) -/
namespace Ypv.Drv.C01
open Lean (Json)

def handle (_op : String) (_j : Json) : Except String Json := throw "C01: driver not implemented yet"

end Ypv.Drv.C01
