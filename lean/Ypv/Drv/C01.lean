import Ypv.Drv.Codec
import Ypv.Drv.C12
import Ypv.Model.Eval
import Ypv.Spec.Select
import Ypv.Model.Collector
/-! Driver handler: the evaluator model and its specification (C01, C02, C15).

`{"op":"C01.eval","doc":D,"segs":[…],"rx":[[pattern,text,true|false|null],…],
  "mt":[[method,haystack,term,answer],…],"attrs":[[text,segs|{"err":e}],…]}`
answers `{"req":G,"opt":G,"exists":…,"spec":G,"get":G}` with `G = {"res":[R…],"err":null|class}`.
The matcher is `W1.mtCompare rx orc`: scalar haystacks are compared by the model of
`Model/Compare.lean` with the regex oracle `rx` (as C12/C07), the table `mt` (real
`Searches.search_matches` answers) is the oracle `orc` for container haystacks and for the literal
classes that model fences; a pair that is in neither is out of model.  The reading of search
attributes as paths comes from the real parser (`attrs`).  KEYWORD_SEARCH segments are evaluated by
the model (`kwStep`); `"oracle":"table"` switches back to the pure table matcher. -/
namespace Ypv.Drv.C01
open Lean (Json)
open Ypv Ypv.Drv

def errOfString (s : String) : Except String Err :=
  match s with
  | "ypath" => pure (.ypath .generic)
  | "outOfModel" => pure .outOfModel
  | "crash:IndexError" => pure (.crash .indexError)
  | "crash:TypeError" => pure (.crash .typeError)
  | "crash:KeyError" => pure (.crash .keyError)
  | "crash:AttributeError" => pure (.crash .attributeError)
  | "crash:ValueError" => pure (.crash .valueError)
  | "crash:error" => pure (.crash .reError)
  | "crash:RecursionError" => pure (.crash .recursionError)
  | _ => if s.startsWith "crash:" then pure (.crash .other) else throw s!"error class {s}"

/-- Marker for "the request's matcher table has no entry" (never produced by the model). -/
def missMarker : Err := .eyaml

abbrev MtTable := List (Method × Node × Str × Except Err Bool)

def mtOfTable (t : MtTable) (miss : Err := missMarker) : Matcher := fun m n term =>
  match t.find? (fun e => e.1 == m && e.2.2.1 == term && e.2.1 == n) with
  | some e => e.2.2.2
  | none => .error miss

def mtEntryOfJson (j : Json) : Except String (Method × Node × Str × Except Err Bool) := do
  match j with
  | .arr #[.str m, h, .str t, a] =>
    let ans : Except Err Bool ← match a with
      | .bool b => pure (.ok b)
      | .str s => pure (.error (← errOfString s))
      | _ => throw "matcher answer"
    pure (← methodOfName m, ← nodeOfJson h, s2l t, ans)
  | _ => throw "matcher entry: [method, haystack, term, answer] expected"

def esegs (j : Json) : Except String (List ESeg) := do
  pure ((← segsOfJson j).map ESeg.ofSeg)

def attrEntryOfJson (j : Json) : Except String (Str × Except Err (List ESeg)) := do
  match j with
  | .arr #[.str a, v] =>
    match v with
    | .arr _ => pure (s2l a, .ok (← esegs v))
    | _ => pure (s2l a, .error (← errOfString (← getStr v "err")))
  | _ => throw "attr entry"

def parseAttrOfTable (t : List (Str × Except Err (List ESeg))) : Str → Except Err (List ESeg) :=
  fun a => match t.lookup a with
    | some r => r
    | none => .error missMarker

def prefToJson : PRef → Json
  | .key k => Json.arr #["k", keyToJson k]
  | .idx i => Json.arr #["i", Json.num (Lean.JsonNumber.fromInt i)]
  | .member k => Json.arr #["m", keyToJson k]

def ncToJson (nc : NC) : Json :=
  let c := nc.2
  Json.mkObj [("a", addrToJson c.addr),
    ("p", match c.parent with | some p => addrToJson p | none => Json.null),
    ("r", match c.pref with | some r => prefToJson r | none => Json.null),
    ("anc", Json.arr (c.anc.map (fun e => Json.arr #[addrToJson e.1, prefToJson e.2])).toArray),
    ("path", Json.arr (c.path.map (fun s => Json.str (l2s s))).toArray)]

def resToJson : Res → Json
  | .real nc => ncToJson nc
  | .virt items => Json.mkObj [("v", Json.arr (items.map ncToJson).toArray)]

def genToJson (g : Gen Res) : Except String Json := do
  if g.2 = some missMarker then throw "matcher/attribute table miss"
  pure (Json.mkObj [("res", Json.arr (g.1.map resToJson).toArray),
    ("err", match g.2 with | some e => errToJson e | none => Json.null)])

def handle (op : String) (j : Json) : Except String Json := do
  match op with
  | "eval" =>
    let d ← nodeOfJson (← j.getObjVal? "doc")
    let segs ← esegs (← j.getObjVal? "segs")
    let mtT ← (← getArr j "mt").toList.mapM mtEntryOfJson
    let atT ← (← getArr j "attrs").toList.mapM attrEntryOfJson
    let pureTable := match j.getObjVal? "oracle" with
      | .ok (.str "table") => true
      | _ => false
    let mt : Matcher := if pureTable then mtOfTable mtT
      else W1.mtCompare (C12.rxOf (C12.rxTable j)) (mtOfTable mtT .outOfModel)
    let dsc := Desc.ofParser mt d (parseAttrOfTable atT)
    let req := Eval.required mt dsc d segs (.real (d, Ctx.root))
    let ex : Json ← match Eval.existsQ mt dsc segs d with
      | .ok b => pure (Json.mkObj [("ok", .bool b)])
      | .error e => if e = missMarker then throw "table miss" else pure (Json.mkObj [("err", errToJson e)])
    pure (Json.mkObj [
      ("req", ← genToJson req),
      ("get", ← genToJson (Eval.getRequired mt dsc segs d)),
      ("opt", ← genToJson (Eval.getOptional mt dsc segs d)),
      ("exists", ex),
      ("spec", ← genToJson (Spec.select mt dsc d segs (.real (d, Ctx.root))))])
  | "coll" =>
    -- `{"op":"C01.coll","doc":D,"path":text}`: collector paths, evaluated from the TEXT by the parser model and
    -- `W3.requiredM`; answers the flattened results (node value, address, reported parent / parentref),
    -- the error class, the document after the query, and the same for `exists`.
    let d ← nodeOfJson (← j.getObjVal? "doc")
    let text := s2l (← getStr j "path")
    let mt : Matcher := W1.mtCompare (C12.rxOf (C12.rxTable j)) W1.noOracle
    let dsc : Node → Desc := fun rt => Desc.ofParser mt rt W3.segsOf
    let leafToJson : NC → Json := fun nc =>
      Json.mkObj [("n", nodeToJson nc.1), ("a", addrToJson nc.2.addr),
        ("p", match nc.2.parent with | some p => addrToJson p | none => Json.null),
        ("r", match nc.2.pref with | some r => prefToJson r | none => Json.null)]
    let q := W3.queryM mt dsc text d
    let ex : Except Err Bool × W3.St :=
      if d.evIsNull then (.ok false, W3.St.init d) else
      match W3.segsOf text with
      | .error e => (.error e, W3.St.init d)
      | .ok segs => W3.existsM mt dsc (text.length + 1) segs d
    pure (Json.mkObj [
      ("res", Json.arr (q.1.1.map (fun r => Json.arr (r.leaves.map leafToJson).toArray)).toArray),
      ("err", match q.1.2 with | some e => errToJson e | none => Json.null),
      ("doc", nodeToJson q.2.doc),
      ("hashSub", .bool q.2.hashSub),
      ("ndels", Json.num (Lean.JsonNumber.fromNat q.2.dels.length)),
      ("exists", match ex.1 with
        | .ok b => Json.mkObj [("ok", .bool b)]
        | .error e => Json.mkObj [("err", errToJson e)]),
      ("exdoc", nodeToJson ex.2.doc)])
  | _ => throw s!"C01: unknown op {op}"

end Ypv.Drv.C01
