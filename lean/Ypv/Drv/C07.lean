import Ypv.Drv.Codec
/-! Driver handler for C07 (stub: replaced by the module that models C07) -/
namespace Ypv.Drv.C07
open Lean (Json)

def handle (_op : String) (_j : Json) : Except String Json := throw "C07: driver not implemented yet"

end Ypv.Drv.C07
