import Ypv.Drv.Codec
import Ypv.Drv.C12
import Ypv.Model.Search
import Ypv.Spec.Search
/-! Driver handler for C07: the `yaml-paths` search model and its specification.

Documents (`SNode`): the common document JSON, with
* map entries `[key, node]` or `[key, node, keyAnchor]`, inherited entries under `"me"`, the anchor
  names of the merge references under `"refs"`;
* set members `key` or `[key, anchor]`. -/
namespace Ypv.Drv.C07
open Lean (Json)
open Ypv Ypv.Drv Ypv.Search

def akeyOfJson (j : Json) : Except String AKey := do
  match j with
  | .arr #[kj, .str a] => pure ⟨some (s2l a), ← keyOfJson kj⟩
  | .arr #[kj, .null] => pure ⟨none, ← keyOfJson kj⟩
  | _ => pure ⟨none, ← keyOfJson j⟩

partial def snodeOfJson (j : Json) : Except String SNode := do
  let k ← getStr j "k"
  let a := optStr j "a"
  let entries (field : String) : Except String (List (AKey × SNode)) := do
    match j.getObjVal? field with
    | .ok (.arr es) => es.toList.mapM (fun e => do
        match e with
        | .arr #[kj, vj] => pure (⟨none, ← keyOfJson kj⟩, ← snodeOfJson vj)
        | .arr #[kj, vj, .str ka] => pure (⟨some (s2l ka), ← keyOfJson kj⟩, ← snodeOfJson vj)
        | .arr #[kj, vj, .null] => pure (⟨none, ← keyOfJson kj⟩, ← snodeOfJson vj)
        | _ => throw "map entry: [key, node(, keyAnchor)] expected")
    | _ => pure []
  match k with
  | "seq" => pure (.seq a (← (← getArr j "i").toList.mapM snodeOfJson))
  | "map" =>
    let refs := match j.getObjVal? "refs" with
      | .ok (.arr rs) => rs.toList.filterMap (fun r => match r with | .str s => some (s2l s) | _ => none)
      | _ => []
    pure (.map a (← entries "e") (← entries "me") refs)
  | "set" => pure (.set a (← (← getArr j "m").toList.mapM akeyOfJson))
  | _ => pure (.scalar a (← scalarOfJson j))

def srefToJson : SRef → Json
  | .key k => Json.arr #["k", keyToJson k]
  | .idx i => Json.arr #["i", Json.num (Lean.JsonNumber.fromNat i)]
  | .member k => Json.arr #["m", keyToJson k]
  | .mref j => Json.arr #["r", Json.num (Lean.JsonNumber.fromNat j)]

def saddrToJson (a : SAddr) : Json := Json.arr (a.map srefToJson).toArray

def sepOfName : String → Except String Sep
  | "auto" => pure .auto
  | "dot" => pure .dot
  | "fslash" => pure .fslash
  | x => throw s!"C07: unknown separator {x}"

def optsOfJsonBool (j : Json) : Except String Opts := do
  pure { searchValues := ← getBool j "sv", searchKeys := ← getBool j "sk",
         searchAnchors := ← getBool j "sa", inclKeyAliases := ← getBool j "ika",
         inclValueAliases := ← getBool j "iva", expand := ← getBool j "expand",
         fslash := ← getBool j "fslash" }

/-- `"sep": "auto" | "dot" | "fslash"` (the `PathSeparators` member handed to the search) when present,
else the older `"fslash": Bool` -/
def optsOfJson (j : Json) : Except String Opts := do
  let o ← optsOfJsonBool j
  match j.getObjVal? "sep" with
  | .ok (.str n) => pure (o.withSep (← sepOfName n))
  | _ => pure o

mutual
/-- every scalar the search may hand to `search_matches`: values, keys, anchor names -/
partial def haystacks : SNode → List Scalar
  | .scalar a v => v :: anc a
  | .seq a items => anc a ++ items.flatMap haystacks
  | .map a own merged refs =>
    anc a ++ (own ++ merged).flatMap (fun (k, v) => keyScalar k.key :: (anc k.anchor ++ haystacks v))
      ++ refs.map (fun r => Scalar.str r)
  | .set a ms => anc a ++ ms.flatMap (fun k => keyScalar k.key :: anc k.anchor)
partial def anc : Option Str → List Scalar
  | some n => [.str n]
  | none => []
end

def strsJson (l : List Str) : Json := Json.arr (l.map (fun s => Json.str (l2s s))).toArray

def printedJson (t : Str) : Json :=
  match printed t with
  | .ok r => Json.str (l2s r)
  | .error _ => Json.null

def handle (op : String) (j : Json) : Except String Json := do
  match op with
  | "texts" =>
    -- {"doc"} ↦ the texts `str(haystack)` a regular expression would be run on
    let d ← snodeOfJson (← j.getObjVal? "doc")
    pure (Json.mkObj [("texts", strsJson ((haystacks d).map pyStr).eraseDups)])
  | "term" =>
    -- {"x": expression} ↦ get_search_term
    let x := s2l (← getStr j "x")
    match getSearchTerm x with
    | .error e => pure (Json.mkObj [("err", errToJson e)])
    | .ok none => pure (Json.mkObj [("none", .bool true)])
    | .ok (some t) => pure (Json.mkObj [("inv", .bool t.inv), ("m", methodName t.m), ("term", l2s t.term)])
  | "search" =>
    let d ← snodeOfJson (← j.getObjVal? "doc")
    let o ← optsOfJson (← j.getObjVal? "opts")
    let tj ← j.getObjVal? "term"
    let t : Term := ⟨← getBool tj "inv", ← methodOfName (← getStr tj "m"), s2l (← getStr tj "term")⟩
    let tbl := C12.rxTable j
    let rx := C12.rxOf tbl
    if (haystacks d).any (fun v => (matchOf rx t v).isNone) then
      pure (Json.mkObj [("oom", .bool true)])
    else
      let c := Ctx.ofTerm o rx t
      let hits := search c d
      let prs := hits.map (fun h => printed h.path)
      let texts := prs.filterMap (fun p => match p with | .ok r => some r | .error _ => none)
      pure (Json.mkObj [
        ("hits", Json.arr (hits.map (fun h => Json.mkObj [("tmp", l2s h.path), ("addr", saddrToJson h.addr),
                                                           ("printed", printedJson h.path)])).toArray),
        ("dedup", strsJson (dedup texts [])),
        ("spec", Json.arr ((Spec.found c d).map saddrToJson).toArray)])
  | _ => throw s!"C07: unknown op {op}"

end Ypv.Drv.C07
