import Ypv.Model.Path
import Ypv.Model.Py
/-!
# Specification side of C08: an independent writer of YAML Paths

`write fslash segs` writes a list of segments as path text from the documented syntax
(README "Segments of a YAML Path"): keys separated by the separator, `[n]` / `[a:b]` for
indexes and slices, `[&name]` for anchors, `[attr OP term]` with optional `!` for searches,
`[!keyword(params)]` for keyword searches, `OP(expr)` for collectors, `*` and `**` for the wildcard
and traversal segments; inside key, anchor, attribute, term, parameter and collector text every
character with a special meaning (the list of `escape_path_section`) is written behind a backslash.
It shares no code with `Model/Render.lean` (the model of the library's own stringifier).

`WFSeg` / `WFSegs` say which segment lists are meant: those the notation can express.
-/
namespace Ypv

/-- characters with a special meaning in path text: written behind a backslash -/
def special (sep c : Char) : Bool :=
  c = '\\' || c = sep || c = '(' || c = ')' || c = '[' || c = ']' || c = '^' || c = '$' || c = '%' ||
  c = ' ' || c = '\'' || c = '"'

def escChar (sep c : Char) : Str := if special sep c then ['\\', c] else [c]

/-- text with every special character escaped -/
def escText (sep : Char) (k : Str) : Str := k.flatMap (escChar sep)

/-- preferred regular-expression delimiters; the writer takes the first one not in the term -/
def writeDelims : List Char := ['/', '|', '#', '@', ',', ';', ':', '_', '-']

def pickDelim (term : Str) : Option Char := writeDelims.find? (fun d => !term.contains d)

/-- The written form of one segment. `lead` says whether a separator has to precede a key-like
segment (always, except for the very first segment in dot notation). Combinations of type and
attributes that no path denotes are written as nothing (they are excluded by `WFSeg`). -/
def writeSeg (sep : Char) (lead : Bool) : Seg → Str
  | (.key, .str k) => (if lead then [sep] else []) ++ escText sep k
  | (.matchAll, .none) => (if lead then [sep] else []) ++ ['*']
  | (.traverse, .none) => (if lead then [sep] else []) ++ ['*', '*']
  | (.index, .int i) => '[' :: (pyStrInt i ++ [']'])
  | (.index, .str sl) => '[' :: (sl ++ [']'])
  | (.anchor, .str a) => '[' :: '&' :: (escText sep a ++ [']'])
  | (.search, .search inv m attr term) =>
    '[' :: (escText sep attr ++ (if inv then ['!'] else []) ++ m.text ++
      (if m = .regex then
        match pickDelim term with
        | some d => d :: (term ++ [d])
        | none => []
       else escText sep term) ++ [']'])
  | (.keywordSearch, .keyword inv kw params) =>
    '[' :: ((if inv then ['!'] else []) ++ kw.text ++ ['('] ++ escText sep params ++ [')', ']'])
  | (.collector, .collector expr op) => op.text ++ ['('] ++ escText sep expr ++ [')']
  | _ => []

def writeFrom (sep : Char) : Bool → List Seg → Str
  | _, [] => []
  | lead, s :: r => writeSeg sep lead s ++ writeFrom sep true r

/-- The path text of a segment list in forward-slash (`fslash = true`) or dot notation. -/
def write (fslash : Bool) (segs : List Seg) : Str :=
  if fslash then '/' :: writeFrom '/' false segs else writeFrom '.' false segs

/-! ## Well-formed segments -/

/-- white space other than the blank (never escaped by the notation; `str.strip()` and `int()`
remove it) -/
def isCtlWs (c : Char) : Bool := isPyWs c && c ≠ ' '

/-- text of a key: not empty, no wildcard, not starting with the anchor mark, and at least one
character that is not bare white space -/
def wfKeyText (k : Str) : Bool :=
  k ≠ [] && !k.contains '*' && k.head? ≠ some '&' && !k.all isCtlWs

/-- characters that act as search operators directly inside `[ ]` -/
def opChar (c : Char) : Bool :=
  c = '=' || c = '!' || c = '>' || c = '<' || c = '~'

/-- slice text: `a:b` with optionally signed decimal bounds (each may be empty) -/
def sliceChar (c : Char) : Bool := isDigit c || c = '-' || c = ':'
def wfSlice (s : Str) : Bool := s.contains ':' && s.all sliceChar

/-- a search term the parser would mistake for a demarcated one (it strips such quotes even when
they were written escaped) -/
def quoteWrapped (t : Str) : Bool :=
  match t with
  | q :: _ => (q = '\'' || q = '"') && t.getLast? = some q
  | [] => false

/-- One segment is expressible in the notation.  `afterColl`: the segment follows a collector
(a `+`, `-` or `&` there would be read as a collector operator). -/
def wfSeg (afterColl : Bool) : Seg → Bool
  | (.key, .str k) => wfKeyText k && !(afterColl && (k.head? = some '+' || k.head? = some '-'))
  | (.matchAll, .none) => true
  | (.traverse, .none) => true
  | (.index, .int _) => true
  | (.index, .str sl) => wfSlice sl
  | (.anchor, .str a) => a ≠ [] && !a.contains '*' && !a.any opChar
  | (.search, .search _ m attr term) =>
    attr ≠ [] && attr.head? ≠ some '&' && !attr.any opChar &&
    !quoteWrapped term &&
    (if m = .regex then (pickDelim term).isSome else !term.any opChar)
  | (.keywordSearch, .keyword _ _ _) => true
  | (.collector, .collector _ op) => afterColl || op = .none
  | _ => false

def isColl : Seg → Bool
  | (.collector, _) => true
  | _ => false

def wfFrom : Bool → List Seg → Bool
  | _, [] => true
  | ac, s :: r => wfSeg ac s && wfFrom (isColl s) r

/-- the segment list is expressible in the notation -/
def wfSegs (segs : List Seg) : Bool := wfFrom false segs

/-- What `YAMLPath(text).unescaped` holds for a written list: the same segments with their texts *as
written* (escapes kept; a regular expression is written raw, so it is kept as it is). -/
def keepEsc (sep : Char) : Seg → Seg
  | (.key, .str k) => (.key, .str (escText sep k))
  | (.anchor, .str a) => (.anchor, .str (escText sep a))
  | (.search, .search inv m attr term) =>
    (.search, .search inv m (escText sep attr) (if m = .regex then term else escText sep term))
  | (.keywordSearch, .keyword inv kw ps) => (.keywordSearch, .keyword inv kw (escText sep ps))
  | (.collector, .collector e op) => (.collector, .collector (escText sep e) op)
  | s => s

def isInterColl : Seg → Bool
  | (.collector, .collector _ .inter) => true
  | _ => false

/-- the last segment of the list is a collector (`ac` for the empty list) -/
def lastIsColl : Bool → List Seg → Bool
  | ac, [] => ac
  | _, s :: r => lastIsColl (isColl s) r

/-- Segments whose canonical text can be appended behind a separator (`YAMLPath.append`).  By the
documented syntax an `&` right after a separator IS an anchor mark, so the text `&(…)` of an
intersection collector appended there does not denote that collector (a genuine fact of the notation,
not a defect: collector operators are written directly behind the preceding collector, without a
separator); and directly after a collector an anchor whose name starts with `+`, `-` or `&`
(appended as `&+x`) is read as a collector operator. -/
def appendable (afterColl : Bool) : Seg → Bool
  | (.collector, .collector _ .inter) => false
  | (.anchor, .str a) =>
    !(afterColl && (a.head? = some '+' || a.head? = some '-' || a.head? = some '&'))
  | _ => true

/-- In dot notation a path whose text starts with `/` is, by the notation's own definition, a
forward-slash path; such lists are outside dot notation. -/
def dotExpressible (segs : List Seg) : Bool := (write false segs).head? ≠ some '/'

end Ypv
