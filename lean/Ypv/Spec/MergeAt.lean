import Ypv.Model.MergeAt
/-!
# What C11 demands of a merge aimed at a path (declarative)

* `Apart a b` — neither address lies under the other ("outside the matched subtree").
* `c05 cfg old r` — the policy-defined merge of a target's old content with the right-hand
  document: the C05 root merge `Ypv.Merge.mergeWith` (proved against `Spec/Merge.lean` in
  `Props/C05.lean`).
* `Meets cfg l targets r d'` — the statement of C11 for existing targets: every target holds the
  C05 merge of what it held, every address apart from all targets holds what it held.
* `Retyped` — the input class of the known finding `scalar-rhs-retyped`: a Scalar target below the
  root is overwritten through `set_value`, which re-types text that reads as a number or boolean.
-/
namespace Ypv.MergeAt
open Ypv Ypv.Merge

/-- Two addresses neither of which lies under the other. -/
def Apart (a b : Addr) : Prop := ¬ a <+: b ∧ ¬ b <+: a

/-- The policy-defined merge of `old` with the right-hand document `r`. -/
def c05 (cfg : Config) (old r : Node) : Except AErr Node := liftM (mergeWith cfg old r)

/-- The finding class: a Scalar right-hand document lands on a Scalar target that is not the root
and `set_value` does not store it as it is (or the target carries another anchor name). -/
def Retyped (isRoot : Bool) (l r : Node) : Bool :=
  match l, r with
  | .scalar la _, .scalar ra v =>
    !isRoot && !(decide (la = ra) && decide (newScalar la.isSome v .default = .ok v))
  | _, _ => false

/-- C11 for a merge path matching existing nodes. -/
structure Meets (cfg : Config) (l : Node) (targets : List Addr) (r d' : Node) : Prop where
  merged : ∀ t ∈ targets, ∃ old m, l.get? t = some old ∧ c05 cfg old r = .ok m ∧ d'.get? t = some m
  frame : ∀ b, (∀ t ∈ targets, Apart t b) → d'.get? b = l.get? b

/-- What a container keeps when something below it is merged: its kind, anchor, and key list /
length (a Scalar or a Set: everything). -/
inductive Shape
  | scalar (a : Option Str) (v : Scalar)
  | seq (a : Option Str) (len : Nat)
  | map (a : Option Str) (keys : List Key)
  | set (a : Option Str) (members : List Key)
  deriving DecidableEq, Repr

def shape : Node → Shape
  | .scalar a v => .scalar a v
  | .seq a items => .seq a items.length
  | .map a es => .map a (es.map Prod.fst)
  | .set a ms => .set a ms

end Ypv.MergeAt
