import Ypv.Model.Search
import Ypv.Spec.Write
/-!
# What "the printed path resolves to the matched node" means (C07 `search_paths_reresolve`)

`resolve` is a deliberately simple resolver of KEY / INDEX / ANCHOR segments over the search
module's documents `SNode` (the fragment of `Processor.get_nodes` the printed search results need:
`_get_nodes_by_key` on mappings and sets, `_get_nodes_by_index`, `_get_nodes_by_anchor` on sequences
and on mappings with merge references).  `okAddr` says, for one address, that none of the recorded
finding classes lies on the way to it — every clause is decidable and local to the parents on the way.
-/
namespace Ypv.Search.Rr
open Ypv Ypv.Search

/-- no two adjacent backslashes (with them `escape_path_section` takes the pair for an escaped
backslash and leaves it as it is: finding C07-K6) -/
def noDbl : Str → Bool
  | a :: b :: r => !(a = '\\' && b = '\\') && noDbl (b :: r)
  | _ => true

/-- a key text the notation can express (C08's `wfKeyText`: not empty, no `*`, not starting with `&`,
not only control white space — finding C07-K2) and `escape_path_section` escapes faithfully (K6) -/
def okKeyText (t : Str) : Bool := wfKeyText t && noDbl t

/-- an anchor name the notation can express inside `[&…]` (C08's rule for ANCHOR segments) -/
def okName (a : Str) : Bool := a ≠ [] && !a.contains '*' && !a.any opChar && noDbl a

/-! ## The resolver -/

/-- one candidate of a segment: the step and the child node (none below set members and merge
references) -/
abbrev Cand := SRef × Option SNode

/-- `_get_nodes_by_anchor` on a list: every element carrying the anchor -/
def ancItems (a : Str) : List SNode → Nat → List Cand
  | [], _ => []
  | e :: r, i => (if e.anchor == some a then [(.idx i, some e)] else []) ++ ancItems a r (i + 1)

/-- `_get_nodes_by_key` on a mapping: the entries written `s` (`data[s]`, or the integer key with
these digits) -/
def keyEntries (s : Str) (es : List (AKey × SNode)) : List Cand :=
  es.filterMap fun e => if keyText e.1.key == s then some (.key e.1.key, some e.2) else none

/-- `_get_nodes_by_anchor` on a mapping, second loop: entries whose key or value carries the anchor -/
def ancEntries (a : Str) (es : List (AKey × SNode)) : List Cand :=
  es.filterMap fun e =>
    if e.1.anchor == some a || e.2.anchor == some a then some (.key e.1.key, some e.2) else none

/-- `_get_nodes_by_anchor` on a mapping, first loop: the first merge reference known by that name -/
def refIdx (a : Str) : List Str → Nat → List Cand
  | [], _ => []
  | n :: r, j => if n == a then [(.mref j, none)] else refIdx a r (j + 1)

def memberCands (s : Str) (ms : List AKey) : List Cand :=
  ms.filterMap fun k => if keyText k.key == s then some (.member k.key, none) else none

/-- the candidates of one segment below one node.  `live a`: `all_anchors` has a node named `a` and
that node is not `None` (`if compare_node is not None:`; see `liveIn`). -/
def children (live : Str → Bool) : SNode → Seg → List Cand
  | .seq _ items, (.index, .int i) =>
    if i < 0 then [] else
    match items[i.toNat]? with
    | some e => [(.idx i.toNat, some e)]
    | none => []
  | .seq _ items, (.anchor, .str a) => ancItems a items 0
  | .map _ own merged _, (.key, .str s) => keyEntries s (own ++ merged)
  | .map _ own merged refs, (.anchor, .str a) =>
    (if live a then refIdx a refs 0 else []) ++ ancEntries a (own ++ merged)
  | .set _ ms, (.key, .str s) => memberCands s ms
  | _, _ => []

/-- all addresses the segments lead to from node `n` -/
def resolve (live : Str → Bool) : SNode → List Seg → List SAddr
  | _, [] => [[]]
  | n, s :: r => (children live n s).flatMap fun x =>
    match x.2 with
    | some m => (resolve live m r).map (x.1 :: ·)
    | none => if r = [] then [[x.1]] else []

/-! ## Merge sources -/

/-- `all_anchors` has a node named `a` (`compare_node is not None`).  A merge reference always names an
anchored mapping of the same document, so for the references of a loaded document this holds; before fix
87356f5 the test was the truthiness of that node and an empty merge source was not found (C07-K5). -/
def liveIn (_d : SNode) (_a : Str) : Bool := true

/-! ## The exclusions, along one address -/

/-- None of the recorded finding classes lies on the way to this address:
* every key written on the way is expressible (K2) and without adjacent backslashes (K6), and no other
  key of its mapping / member of its set is written the same (K1: `1` next to `'1'`);
* an anchored sequence element is the only element of its sequence with that anchor name (an aliased
  repeat in the same sequence is the same Python object: `[&a]` denotes both positions), the name is
  expressible;
* a merge reference is known under an expressible name carried by no other reference, key or value of
  the mapping. -/
def okAddr (live : Str → Bool) : SNode → SAddr → Bool
  | _, [] => true
  | .seq _ items, .idx i :: r =>
    match items[i]? with
    | none => false
    | some e =>
      (match e.anchor with
       | none => true
       | some a => okName a && items.countP (fun x => x.anchor == some a) == 1) && okAddr live e r
  | .map _ own merged _, .key k :: r =>
    okKeyText (keyText k) &&
    (own ++ merged).countP (fun e => keyText e.1.key == keyText k) == 1 &&
    match (own ++ merged).find? (fun e => e.1.key == k) with
    | none => false
    | some e => okAddr live e.2 r
  | .map _ own merged refs, [.mref j] =>
    match refs[j]? with
    | none => false
    | some n => okName n && live n && refs.countP (fun x => x == n) == 1 &&
        (own ++ merged).all (fun e => !(e.1.anchor == some n || e.2.anchor == some n))
  | .set _ ms, [.member k] =>
    okKeyText (keyText k) && ms.countP (fun m => keyText m.key == keyText k) == 1
  | _, _ => false

end Ypv.Search.Rr
