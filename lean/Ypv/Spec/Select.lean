import Ypv.Model.Eval
/-!
# `Spec.select` — the documented segment semantics, read compositionally

`select segs r` is the list of nodes the README's segment list selects, with no probing of
following segments, no `traverse_lists` flag, no early `break`s: a path is its first segment's
children, each continued with the remaining segments.

* step segments (`key`, `[n]`, `[a:b]`, `[&x]`, `[attr OP term]`): `children` of the node, continued;
* `*`: every immediate child (the members of a set only when `*` is the last segment), continued;
* `**` last: the leaves of the subtree in document order (scalars, also null; the members of sets);
* `**` followed by more: every node of the subtree in document order (through dicts and lists) at
  which the next segment applies *directly* (a list is not entered by a key pass-through or an
  element search — its elements are visited by `**` themselves), continued with the remaining
  segments;
* `**` directly followed by `**` is refused (recursion error).

Where the README is silent the per-kind `children` record the pinned implementation's behaviour
(these completions are the handler functions of `Model/Eval.lean`, shared with the evaluator):

| segment on … | completion |
|---|---|
| KEY on a dict | the entry with that string key, else the entry whose integer key is `int(text)` |
| KEY on a list | `int(text)` is a Python index (negative from the end; nothing when out of range); other texts pass through to every element (recursively through nested lists) |
| KEY on a set | the member equal to the text |
| `[n]` on a set | YAML Path error; on a dict or scalar: nothing |
| `[a:b]` on a list | one *virtual list* of the elements Python's `data[a:b]` selects (`a = b` in range: that one element); non-integer bounds: YAML Path error |
| `[a:b]` on a dict / set | the entries / members whose `str(key)` lies between the bounds (code point order) |
| `[&x]` | the immediate children of a dict or list carrying anchor `x` |
| `[. OP t]` on a list | the elements satisfying the comparison; in a list of dicts (nulls allowed) also every dict having the key `t` |
| `[attr OP t]` on a list | elements that are dicts having `attr`: compare its value; other elements: compare the first node the path `attr` selects below the element (none: no match) |
| `[. OP t]` on a dict / set | the values whose key name / the members that satisfy the comparison |
| `[attr OP t]` on a dict | the attribute's value when it satisfies the comparison; when `attr` is not a key: the dict itself when some node selected by the path `attr` satisfies it (no node selected: when inverted) |
| `[attr OP t]` on a scalar | the scalar itself when it satisfies the comparison |
| a segment applied to the virtual list of a slice | only the key pass-through into its members is modelled |
| `[keyword(params)]` | what `kwSearch` of `Model/Keyword.lean` selects (its specification is `Spec` of C13, `Props/C13.lean`): the node itself, some of its children, or — `[parent(n)]` — its `n`-th ancestor, found at its address below the document root `rt`; `[name()]` yields the node's own key / index as a scalar with the node's coordinates |
-/
namespace Ypv.Spec
open Ypv.Eval

/-- The nodes of a subtree in document order (pre-order through dicts and lists; a set is a node,
its members are not visited). -/
def preorder : Node → Ctx → List NC
  | .scalar a v, c => [(.scalar a v, c)]
  | .set a ms, c => [(.set a ms, c)]
  | .seq a items, c => (.seq a items, c) :: preSeq c items 0
  | .map a es, c => (.map a es, c) :: preMap c es
where
  preSeq (c : Ctx) : List Node → Nat → List NC
    | [], _ => []
    | n :: ns, i => preorder n (c.child (.idx i) (.idx i) (idxSection i)) ++ preSeq c ns (i + 1)
  preMap (c : Ctx) : List (Key × Node) → List NC
    | [] => []
    | (k, n) :: es => preorder n (c.child (.key k) (.key k) (escSection k.text)) ++ preMap c es

/-- The leaves of a subtree in document order: scalars (also null) and the members of sets. -/
def leaves (n : Node) (c : Ctx) : Gen Res :=
  (Gen.bindList (fun x => leafAt x.1 x.2) (preorder n c)).map Res.real

/-- Does the segment apply to the node *directly* (not by entering a list)? -/
def direct (nxt : ESeg) (n : Node) : Bool :=
  match n, nxt with
  | .seq .., .key k => (pyInt? k).isSome
  | .seq .., .search .. => false
  | _, _ => true

variable (mt : Matcher) (dsc : Desc) (rt : Node)

/-- The children a step segment selects at a node. -/
def children (s : ESeg) (n : Node) (c : Ctx) : Gen Res :=
  match s with
  | .key k => (keyStep k true n c).map Res.real
  | .index i => (indexStep i n c).map Res.real
  | .slice lo hi => sliceStep lo hi n c
  | .anchor a => (anchorStep a n c).map Res.real
  | .search inv m attr term => (searchStep mt dsc inv m attr term true n c).map Res.real
  | .keyword inv k p => (kwStep rt inv k p n c).map Res.real
  | _ => Gen.fail .outOfModel

def select : List ESeg → Res → Gen Res
  | [], r => Gen.one r
  | s :: rest, .virt items => Gen.bind (stepVirt s items) (select rest)
  | .matchAll :: [], .real (n, c) => reals (kids n c)
  | .matchAll :: nxt :: rest, .real (n, c) => Gen.bind (reals (deepKids n c)) (select (nxt :: rest))
  | .traverse :: [], .real (n, c) => leaves n c
  | .traverse :: nxt :: rest, .real (n, c) =>
      if nxt.isTraverse then Gen.fail (.ypath .recursion)
      else Gen.bindList (fun x => if direct nxt x.1 then select (nxt :: rest) (.real x) else Gen.nil)
        (preorder n c)
  | s :: rest, .real (n, c) => Gen.bind (children mt dsc rt s n c) (select rest)
termination_by segs => segs.length

end Ypv.Spec
