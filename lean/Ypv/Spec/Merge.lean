import Ypv.Model.Merge
/-!
# Declarative reading of the merge policies (the option docstrings of `merger/enums/*.py`)

What the merged value is, by kind pair and policy: arrays and sets as functions (`arrayMerge`,
`setMerge`), deep hash merges per key (`Merged`), Array-of-Hashes DEEP merges per right-hand record
(`AohStep` / `AohDeep`, `KeysGrow`).  Key order of merged mappings is specified separately
(`OrderOK`), and only as far as the property statement goes.
-/
namespace Ypv.Merge.Spec

/-- A structurally impossible merge at the document root: Array into Hash or Scalar, Hash into Set
or Scalar, Scalar into Hash, Set into Scalar, Array holding containers into Set. -/
def Impossible (l r : Node) : Prop :=
  match l, r with
  | .map .., .seq .. => True
  | .scalar _ v, .seq .. => v ≠ .null
  | .set .., .map .. => True
  | .scalar _ v, .map .. => v ≠ .null
  | .map .., .scalar _ v => v ≠ .null
  | .scalar _ v, .set .. => v ≠ .null
  | .set .., .seq _ items => ∃ x ∈ items, x.isScalar = false
  | _, _ => False

/-- `ArrayMergeOpts` as data: ALL appends, LEFT keeps, RIGHT replaces, UNIQUE appends the right-hand
elements that equal no element already there (an equal left-hand element is replaced by the
right-hand one). -/
def arrayMerge (mode : ArrayOpt) (l r : List Node) : List Node :=
  match mode with
  | .all => l ++ r
  | .left => l
  | .right => r
  | .unique => (r.foldl uniqueStep (l, l)).1

/-- `SetMergeOpts` as data. -/
def setMerge (mode : SetOpt) (l r : List Key) : List Key :=
  match mode with
  | .left => l
  | .right => r
  | .unique => setUnion l r

def keys (es : List (Key × Node)) : List Key := es.map (·.1)

/-- Key order demanded of a merged mapping `m` of `l` and `r`: the keys of `l` appear in `m` in
their original relative order, and the keys only in `r` appear in `m` in `r`'s relative order. -/
def OrderOK (l r m : List (Key × Node)) : Prop :=
  (keys m).filter (fun k => (keys l).contains k) = keys l ∧
  (keys m).filter (fun k => !(keys l).contains k) = (keys r).filter (fun k => !(keys l).contains k)

/-- What a DEEP hash merge of a right-hand mapping (`par`, consulted for per-node rules) leaves under
the key `k`, as a relation between `l.get(k)`, the right-hand value `rv = r[k]` and `m.get(k)`:

* a key only in `r` gets `r`'s value;
* a key in both: the policy of the right-hand value's own kind (or a rule registered for that node)
  decides — LEFT keeps the left-hand value, RIGHT takes the right-hand value, otherwise the value is
  the recursive merge `mergeVal` of the two values (which must succeed).

Keys that `r` does not name are covered by `lookupKey k m = lookupKey k l` in the theorems. -/
inductive Merged (env : Env) (par : Node) (k : Key) : Option Node → Node → Option Node → Prop
  | rightOnly (rv : Node) : Merged env par k none rv (some rv)
  | keepLeft (lv rv : Node) : shortCircuit env ⟨rv, some par, some (.key k)⟩ = .ok .keepLeft →
      Merged env par k (some lv) rv (some lv)
  | takeRight (lv rv : Node) : shortCircuit env ⟨rv, some par, some (.key k)⟩ = .ok .takeRight →
      Merged env par k (some lv) rv (some rv)
  | deep (lv rv m : Node) : shortCircuit env ⟨rv, some par, some (.key k)⟩ = .ok .goDeep →
      mergeVal env lv ⟨rv, some par, some (.key k)⟩ rv = .ok m →
      Merged env par k (some lv) rv (some m)

/-- One right-hand record `{es}` under AoH DEEP with identity key `idKey`, as a relation between the
left-hand list before and after: the record must carry the identity key; when no left-hand element
carries the same identity (`recordMatches`: `==` after `typed_value`) the record is appended;
otherwise the **first** such element `lh` is replaced, in place, by the deep hash merge of the record
into it (`mergeDicts`, characterised per key by `merge_content_eq_spec`), which must succeed. -/
inductive AohStep (env : Env) (idKey : Key) (litems : List Node) (a : Option Str)
    (es : List (Key × Node)) : List Node → Prop
  | append (idv : Node) : lookupKey idKey es = some idv →
      (∀ x ∈ litems, recordMatches env idKey (typedNode env idv) x = false) →
      AohStep env idKey litems a es (litems ++ [.map a es])
  | merge (idv : Node) (pre : List Node) (lh : Node) (post : List Node) (m : Node) :
      lookupKey idKey es = some idv → litems = pre ++ lh :: post →
      (∀ x ∈ pre, recordMatches env idKey (typedNode env idv) x = false) →
      recordMatches env idKey (typedNode env idv) lh = true →
      mergeDicts env lh (.map a es) es = .ok m →
      AohStep env idKey litems a es (pre ++ m :: post)

/-- AoH DEEP: the right-hand records are taken one after the other (`AohStep`), each against the
list as the previous ones left it. -/
inductive AohDeep (env : Env) (idKey : Key) : List Node → List Node → List Node → Prop
  | nil (l : List Node) : AohDeep env idKey l [] l
  | cons (l l1 out : List Node) (a : Option Str) (es : List (Key × Node)) (rest : List Node) :
      AohStep env idKey l a es l1 → AohDeep env idKey l1 rest out →
      AohDeep env idKey l (.map a es :: rest) out

/-- `y` is `x`, or both are Hashes (same annotation) and `y` has at least `x`'s keys. -/
inductive KeysGrow : Node → Node → Prop
  | same (x : Node) : KeysGrow x x
  | grown (a : Option Str) (es es' : List (Key × Node)) : (∀ k ∈ keys es, k ∈ keys es') →
      KeysGrow (.map a es) (.map a es')
end Ypv.Merge.Spec
