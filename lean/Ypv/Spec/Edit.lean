import Ypv.Model.Edit
/-!
# Declarative specifications of the edits (C04, C03, C09)

* `Node.removeAll d S` — the document without the nodes whose address is in `S` (as a set);
  removing an ancestor subsumes its descendants.
* `setSpec d addrs s` — every node whose address is matched, or which carries the anchor name of
  a matched node, holds `s` (its own anchor kept); nothing else is entered or changed.
* `Node.graftAt d q g` — the document in which only the node at address `q` is changed, by `g`.
-/
namespace Ypv

mutual
def Node.removeAll : Node → List Addr → Node
  | .seq a items, S => .seq a (removeAllList items 0 S)
  | .map a es, S => .map a (removeAllEntries es S)
  | .set a ms, S => .set a (ms.filter (fun m => !(S.contains [.member m])))
  | .scalar a v, _ => .scalar a v
def removeAllList : List Node → Nat → List Addr → List Node
  | [], _, _ => []
  | c :: cs, i, S =>
    if S.contains [.idx i] then removeAllList cs (i + 1) S
    else c.removeAll (subAddrs (.idx i) S) :: removeAllList cs (i + 1) S
def removeAllEntries : List (Key × Node) → List Addr → List (Key × Node)
  | [], _ => []
  | (k, c) :: es, S =>
    if S.contains [.key k] then removeAllEntries es S
    else (k, c.removeAll (subAddrs (.key k) S)) :: removeAllEntries es S
end

/-- C04 specification: the root can not be removed; otherwise exactly the matched set goes. -/
def deleteSpec (d : Node) (addrs : List Addr) : Except Err Node :=
  if [] ∈ addrs then .error (.ypath .noDocument) else .ok (d.removeAll addrs)

/-- The anchor names carried by the matched nodes. -/
def matchedAnchors (d : Node) (addrs : List Addr) : List Str :=
  addrs.filterMap (fun a => (d.get? a).bind Node.anchor)

/-- C03 target predicate: the address is matched, or the node carries a matched anchor name. -/
def isTarget (d : Node) (addrs : List Addr) : Addr → Node → Bool :=
  fun y n => addrs.contains y || (match n.anchor with
    | some x => (matchedAnchors d addrs).contains x
    | none => false)

/-- C03 specification (one shot, on the original document). -/
def setSpec (d : Node) (addrs : List Addr) (s : Scalar) : Node :=
  d.mapAt (isTarget d addrs) (putScalar s)

/-- Only scalars carry anchors (below the root): the documents of the C03 model class
(anchored containers with aliases are out of model). -/
def ScalarAnchors (d : Node) : Prop :=
  ∀ y n, y ≠ [] → d.get? y = some n → n.anchor.isSome = true → n.isScalar = true

/-- The matched addresses lie below the root, are not set members, and lead to scalars of `d`. -/
def MatchedScalars (d : Node) (addrs : List Addr) : Prop :=
  ∀ a ∈ addrs, a ≠ [] ∧ lastIsMember a = false ∧ ∃ n, d.get? a = some n ∧ n.isScalar = true

/-- Anchor well-formedness: all nodes (below the root) that carry one anchor name are equal —
an anchor together with its aliases, in the alias-expanded document. -/
def AnchorWF (d : Node) : Prop :=
  ∀ y y' n n', y ≠ [] → y' ≠ [] → d.get? y = some n → d.get? y' = some n' →
    n.anchor.isSome = true → n.anchor = n'.anchor → n = n'

mutual
/-- Change exactly the node at address `q` by `g` (nothing if `q` leads nowhere). -/
def Node.graftAt (g : Node → Node) : Node → Addr → Node
  | n, [] => g n
  | .seq a items, r :: rest =>
    match r with
    | .idx i => .seq a (graftList g items i rest)
    | _ => .seq a items
  | .map a es, r :: rest =>
    match r with
    | .key k => .map a (graftEntries g es k rest)
    | _ => .map a es
  | .set a ms, _ :: _ => .set a ms
  | .scalar a v, _ :: _ => .scalar a v
def graftList (g : Node → Node) : List Node → Nat → Addr → List Node
  | [], _, _ => []
  | c :: cs, 0, rest => c.graftAt g rest :: cs
  | c :: cs, i + 1, rest => c :: graftList g cs i rest
def graftEntries (g : Node → Node) : List (Key × Node) → Key → Addr → List (Key × Node)
  | [], _, _ => []
  | (k', c) :: es, k, rest =>
    if k' = k then (k', c.graftAt g rest) :: es else (k', c) :: graftEntries g es k rest
end

/-! ## C09: what a creation does -/

/-- The reference under which `createHere n seg …` places the new element. -/
def createdRef (n : Node) (seg : PSeg) : Ref :=
  match n with
  | .seq _ _ => .idx (match intOfSeg seg with | some i => i.toNat | none => 0)
  | _ => .key (match seg with | .key s => .str s | .index _ => .int 0)

/-- `Follows d segs q n`: every segment of `segs` resolves to an existing child (`lookSeg … = found`),
one after the other from `d`, none of the children entered is `null`; the walk ends at address `q`,
node `n`. -/
inductive Follows : Node → List PSeg → Addr → Node → Prop
  | here (d : Node) : Follows d [] [] d
  | step {d : Node} {seg : PSeg} {ref : Ref} {c : Node} {segs : List PSeg} {q : Addr} {n : Node} :
      lookSeg d seg = .found ref → d.child? ref = some c → c ≠ .scalar none .null →
      Follows c segs q n → Follows d (seg :: segs) (ref :: q) n

/-- The three things a successful `_get_optional_nodes` over a straight-line path can have done. -/
inductive CreateOutcome (leaf : Scalar) (d : Node) (segs : List PSeg) (r : Created) : Prop
  /-- the whole path exists: nothing changes, the node at its end is handed out -/
  | present (n : Node) : Follows d segs r.addr n → r.doc = d → CreateOutcome leaf d segs r
  /-- a `null` on the way is handed out whatever segments remain; nothing changes (finding C09-F2) -/
  | nullRelay (pre : List PSeg) (seg : PSeg) (rest : List PSeg) (q : Addr) (n : Node) (ref : Ref) :
      segs = pre ++ seg :: rest → Follows d pre q n → lookSeg n seg = .found ref →
      n.child? ref = some (.scalar none .null) → r.doc = d → r.addr = q ++ [ref] →
      CreateOutcome leaf d segs r
  /-- `pre` exists and ends at the node `n` (address `q`) in which `seg` is missing: the document is
  the original with exactly that node replaced by `createHere n seg rest` -/
  | created (pre : List PSeg) (seg : PSeg) (rest : List PSeg) (q : Addr) (n n' : Node) :
      segs = pre ++ seg :: rest → Follows d pre q n → lookSeg n seg = .missing →
      createHere n seg rest leaf = .ok n' → r.doc = d.graftAt (fun _ => n') q →
      r.addr = q ++ createdRef n seg :: fillAddr rest → CreateOutcome leaf d segs r

/-! Plain data: the document with every anchor name erased (aliases are already expanded in
`Node`). -/
mutual
def Node.plain : Node → Node
  | .scalar _ v => .scalar none v
  | .seq _ items => .seq none (plainList items)
  | .map _ es => .map none (plainEntries es)
  | .set _ ms => .set none ms
def plainList : List Node → List Node
  | [] => []
  | c :: cs => c.plain :: plainList cs
def plainEntries : List (Key × Node) → List (Key × Node)
  | [] => []
  | (k, c) :: es => (k, c.plain) :: plainEntries es
end

/-! ## Histories on plain data (C03 `history_refines`)

The plain-data model knows three elementary edits; none of them looks at an anchor. -/

inductive POp
  /-- every node whose address satisfies `T` becomes the scalar `s` -/
  | put (T : Addr → Bool) (s : Scalar)
  /-- the nodes at the addresses `S` are removed -/
  | remove (S : List Addr)
  /-- the node at address `q` is replaced by `sub` -/
  | graft (q : Addr) (sub : Node)

def POp.apply (pd : Node) : POp → Node
  | .put T s => pd.mapAt (fun y _ => T y) (putScalar s)
  | .remove S => pd.removeAll S
  | .graft q sub => pd.graftAt (fun _ => sub) q

def runPlain : Node → List POp → Node
  | pd, [] => pd
  | pd, o :: os => runPlain (o.apply pd) os

/-- Mapping keys are pairwise different, everywhere in the document (true of every loaded YAML
document; it makes every node reachable by its address). -/
def keysDistinct : List Key → Bool
  | [] => true
  | k :: ks => !ks.contains k && keysDistinct ks

mutual
def Node.keysNodup : Node → Bool
  | .seq _ items => keysNodupList items
  | .map _ es => keysDistinct (es.map Prod.fst) && keysNodupEntries es
  | .set _ _ => true
  | .scalar _ _ => true
def keysNodupList : List Node → Bool
  | [] => true
  | c :: cs => c.keysNodup && keysNodupList cs
def keysNodupEntries : List (Key × Node) → Bool
  | [] => true
  | (_, c) :: es => c.keysNodup && keysNodupEntries es
end

/-- The addresses of the nodes of `d` that satisfy `p` — as a predicate on addresses alone. -/
def targetsAt (d : Node) (p : Addr → Node → Bool) : Addr → Bool :=
  fun y => match d.get? y with
    | some n => p y n
    | none => false

/-- The plain-data reading of one `_update_node` call for the matched address `a` in the document
`d`: the node at `a` and the nodes carrying its anchor name (its aliases) become `s`. -/
def stepAbs (d : Node) (a : Addr) (s : Scalar) : POp :=
  .put (fun y => !(a == []) && targetsAt d (isRef a ((d.get? a).bind Node.anchor)) y) s

/-- the scalar `make_new_node` writes in the step for `a` (`null` when the step writes nothing) -/
def stepScalar (v : Scalar) (fmt : Fmt) (d : Node) (a : Addr) : Scalar :=
  match d.get? a with
  | some n => (match newScalar n.anchor.isSome v fmt with
    | .ok s => s
    | .error _ => .null)
  | none => .null

/-- the plain-data reading of a whole `set_value`: one `put` per matched address, in order -/
def setAbs (v : Scalar) (fmt : Fmt) : Node → List Addr → List POp
  | _, [] => []
  | d, a :: rest => stepAbs d a (stepScalar v fmt d a) ::
      (match setStep v fmt d a with
       | .ok d' => setAbs v fmt d' rest
       | .error _ => [])

/-- the document after one operation of a history (a failing operation changes nothing) -/
def Op.step (d : Node) (op : Op) : Node :=
  match op.apply d with
  | .ok d' => d'
  | .error _ => d

/-- `OpAbs d op pops`: on plain data, the operation `op` performed in the (anchored) document `d`
is the sequence `pops` of elementary edits. -/
inductive OpAbs : Node → Op → List POp → Prop
  | failed {d : Node} {op : Op} {e : Err} : op.apply d = .error e → OpAbs d op []
  | set {d d' : Node} {addrs : List Addr} {v : Scalar} {fmt : Fmt} :
      setValue v fmt d addrs = .ok d' → OpAbs d (.set addrs v fmt) (setAbs v fmt d addrs)
  | delete {d : Node} {addrs : List Addr} : [] ∉ addrs → OpAbs d (.delete addrs) [.remove addrs]
  | createNone {d d' : Node} {segs : List PSeg} {v : Scalar} {fmt : Fmt} {leaf : Scalar} {r : Created} :
      wrapType v = .ok leaf → d.createPath leaf segs = .ok r → r.doc = d →
      setStep v fmt d r.addr = .ok d' →
      OpAbs d (.create segs v fmt) [stepAbs d r.addr (stepScalar v fmt d r.addr)]
  | created {d d' : Node} {segs : List PSeg} {v : Scalar} {fmt : Fmt} {leaf : Scalar} {r : Created}
      {pre : List PSeg} {seg : PSeg} {rest : List PSeg} {q : Addr} {n n' : Node} :
      wrapType v = .ok leaf → d.createPath leaf segs = .ok r → segs = pre ++ seg :: rest →
      Follows d pre q n → lookSeg n seg = .missing → createHere n seg rest leaf = .ok n' →
      r.doc = d.graftAt (fun _ => n') q → setStep v fmt r.doc r.addr = .ok d' →
      OpAbs d (.create segs v fmt)
        [.graft q n'.plain, stepAbs r.doc r.addr (stepScalar v fmt r.doc r.addr)]

/-- the plain-data reading of a history, operation by operation along the run -/
inductive HistAbs : Node → List Op → List POp → Prop
  | nil (d : Node) : HistAbs d [] []
  | cons {d : Node} {op : Op} {ops : List Op} {pops pops' : List POp} :
      OpAbs d op pops → HistAbs (op.step d) ops pops' → HistAbs d (op :: ops) (pops ++ pops')

end Ypv
