import Ypv.Model.DiffRules
import Ypv.Spec.Diff
/-!
# Specification side of the per-path comparison modes (C06)

`posReach pc par pref l r`: following the recursion of `_diff_between` over `l` and `r` — mapping entries
with the same key, list elements at the same position — every pair of lists that is reached resolves,
under the per-path configuration `pc` (`[rules]` > command line > `[defaults]` > POSITION, the `[rules]`
entry found the way `_get_config_for` finds it), to a positional comparison and no mode lookup crashes.
Decidable; with no `[rules]` it is `Positional pc.glob` (`posReach_plain`).
-/
namespace Ypv.Diff.Rules
open Ypv Ypv.Diff

mutual
def posReach (pc : PCfg) (par : Option Node) (pref : Option Key) (l r : Node) : Bool :=
  match l, r with
  | .map _ es, .map b fs => posReachEntries pc (.map b fs) es fs
  | .seq _ xs, .seq b ys =>
    match listModeAt pc ⟨.seq b ys, par, pref⟩ xs ys with
    | .ok .nothing => true
    | .ok .posShallow => true
    | .ok .posDeep => posReachPos pc (.seq b ys) 0 xs ys
    | _ => false
  | _, _ => true
termination_by structural l
def posReachEntries (pc : PCfg) (par : Node) (es0 fs : List (Key × Node)) : Bool :=
  match es0 with
  | [] => true
  | (k, v) :: es =>
    (match fs.lookup k with
     | some w => posReach pc (some par) (some k) v w
     | none => true) && posReachEntries pc par es fs
termination_by structural es0
def posReachPos (pc : PCfg) (par : Node) (i : Nat) (xs0 ys0 : List Node) : Bool :=
  match xs0, ys0 with
  | x :: xs, y :: ys => posReach pc (some par) (some (.int (i + 1))) x y && posReachPos pc par (i + 1) xs ys
  | _, _ => true
termination_by structural xs0
end

end Ypv.Diff.Rules
