import Ypv.Model.Diff
/-!
# Specification side of C06: what a diff report has to say

* `clean rep` — the report shows no difference (only SAME entries);
* `dataEq c l r` — the two documents are equal *as data* under the comparison modes `c`:
  scalars by Python `==`, mappings key by key, sets member by member, sequences
  - position by position (array mode `position`, AoH modes `position`/`dpos`),
  - as multisets of elements equal under Python `==` (value synchronisation, and identity-key
    synchronisation `key`, where records are compared as whole units),
  - as multisets of records that are again `dataEq` (identity-key synchronisation `deep`);
* `leaves n` — the addresses of the scalar nodes / set members of a document;
* `WF n` — mapping keys and set members are pairwise distinct (what Python containers guarantee);
* `Keyed c n` — under the identity-key modes every list treated as an Array-of-Hashes consists of
  hashes that all carry the identity key (first key of the first record).
-/
namespace Ypv.Diff
open Ypv

def clean (rep : List Entry) : Bool := rep.all (fun e => e.action == .same)

/-- the first element satisfying `f` removed -/
def removeFirstNode (f : Node → Bool) : List Node → Option (List Node)
  | [] => none
  | y :: ys => if f y then some ys else (removeFirstNode f ys).map (fun zs => y :: zs)

/-- multiset equality of two lists up to `R`, decided greedily (for an equivalence `R` this is
`∃ ys', ys' ~ ys ∧ Forall₂ R xs ys'`: lemma `msEq_iff_perm`) -/
def msEq (R : Node → Node → Bool) : List Node → List Node → Bool
  | [], ys => ys.isEmpty
  | x :: xs, ys =>
    match removeFirstNode (R x) ys with
    | some ys' => msEq R xs ys'
    | none => false

mutual
def dataEq (c : Cfg) : Node → Node → Bool
  | .scalar _ a, .scalar _ b => skey a == skey b
  | .map _ es, .map _ fs => dataEqEntries c es fs && fs.all (fun kv => hasKey es kv.1)
  | .set _ ms, .set _ ns => ms.all (fun k => ns.contains k) && ns.all (fun k => ms.contains k)
  | .seq _ xs, .seq _ ys =>
    match listMode c xs ys with
    | .nothing => true
    | .posShallow => eqvList xs ys
    | .posDeep => dataEqPos c xs ys
    | .value => msEq (fun x y => eqv y x) xs ys
    | .key => msEq (fun x y => eqv x y) xs ys
    | .deep => dataEqMs c xs ys
  | .scalar .., .seq .. | .scalar .., .map .. | .scalar .., .set ..
  | .seq .., .scalar .. | .seq .., .map .. | .seq .., .set ..
  | .map .., .scalar .. | .map .., .seq .. | .map .., .set ..
  | .set .., .scalar .. | .set .., .seq .. | .set .., .map .. => false
def dataEqEntries (c : Cfg) : List (Key × Node) → List (Key × Node) → Bool
  | [], _ => true
  | (k, v) :: es, fs =>
    (match fs.lookup k with
     | some w => dataEq c v w
     | none => false) && dataEqEntries c es fs
def dataEqPos (c : Cfg) : List Node → List Node → Bool
  | [], [] => true
  | x :: xs, y :: ys => dataEq c x y && dataEqPos c xs ys
  | [], _ :: _ | _ :: _, [] => false
def dataEqMs (c : Cfg) : List Node → List Node → Bool
  | [], ys => ys.isEmpty
  | x :: xs, ys =>
    match removeFirstNode (fun y => dataEq c x y) ys with
    | some ys' => dataEqMs c xs ys'
    | none => false
end

/-! ## leaves -/

mutual
def leaves : Node → List Addr
  | .scalar .. => [[]]
  | .seq _ xs => leavesSeq 0 xs
  | .map _ es => leavesMap es
  | .set _ ms => ms.map (fun k => [Ref.member k])
def leavesSeq : Nat → List Node → List Addr
  | _, [] => []
  | i, x :: xs => (leaves x).map (fun a => Ref.idx i :: a) ++ leavesSeq (i + 1) xs
def leavesMap : List (Key × Node) → List Addr
  | [] => []
  | (k, v) :: es => (leaves v).map (fun a => Ref.key k :: a) ++ leavesMap es
end

/-! ## well-formedness -/

def distinctKeys : List (Key × Node) → Bool
  | [] => true
  | (k, _) :: es => !(hasKey es k) && distinctKeys es

def distinctMembers : List Key → Bool
  | [] => true
  | k :: ks => !(ks.contains k) && distinctMembers ks

mutual
def wf : Node → Bool
  | .scalar .. => true
  | .seq _ xs => wfList xs
  | .map _ es => distinctKeys es && wfEntries es
  | .set _ ms => distinctMembers ms
def wfList : List Node → Bool
  | [] => true
  | x :: xs => wf x && wfList xs
def wfEntries : List (Key × Node) → Bool
  | [] => true
  | (_, v) :: es => wf v && wfEntries es
end

/-! ## identity keys -/

def usesKeySync (c : Cfg) (xs : List Node) : Bool :=
  match listMode c xs xs with
  | .key | .deep => true
  | _ => false

def hasIdentity (ka : Key) (x : Node) : Bool := (keyVal ka x).isSome

mutual
/-- every list of `n` that the identity-key modes synchronise consists of records carrying the
identity key (no condition under the other modes) -/
def keyed (c : Cfg) : Node → Bool
  | .scalar .. => true
  | .set .. => true
  | .seq _ xs => (!(usesKeySync c xs) || xs.all (hasIdentity (keyAttr xs))) && keyedList c xs
  | .map _ es => keyedEntries c es
def keyedList (c : Cfg) : List Node → Bool
  | [] => true
  | x :: xs => keyed c x && keyedList c xs
def keyedEntries (c : Cfg) : List (Key × Node) → Bool
  | [] => true
  | (_, v) :: es => keyed c v && keyedEntries c es
end

/-! ## identity keys, pair by pair (document level of `--aoh key`) -/

/-- no two records of the list share an identity value -/
def noIdClash (ka : Key) : List Node → Bool
  | [] => true
  | y :: ys => ys.all (fun z => !(keyMatch ka y z)) && noIdClash ka ys

/-- the record carries the identity key and its identity value is a scalar -/
def hasScalarIdentity (ka : Key) (x : Node) : Bool :=
  match keyVal ka x with
  | some (.scalar _ _) => true
  | _ => false

mutual
/-- **Unique identity keys, at every pair of record lists the comparison of `l` with `r` can reach**:
following the recursion of `_diff_between` — mapping entries with the same key, list elements at the
same position, under value synchronisation every pair of `==`-equal elements, under `deep` every pair
of records with equal identity values —, wherever two lists are synchronised by identity key every
left record carries the identity key (first key of the first right record; under `deep` with a scalar
identity value) and no two right records share an identity value.
Decidable; its negation is the class of finding C06-K2. -/
def idOk (c : Cfg) : Node → Node → Bool
  | .map _ es, .map _ fs => idOkEntries c es fs
  | .seq _ xs, .seq _ ys =>
    match listMode c xs ys with
    | .posDeep => idOkPos c xs ys
    | .key => xs.all (hasIdentity (keyAttr ys)) && noIdClash (keyAttr ys) ys
    | .value => idOkVal c xs ys
    | .deep => (xs.all (hasScalarIdentity (keyAttr ys)) && noIdClash (keyAttr ys) ys) && idOkDeep c (keyAttr ys) xs ys
    | _ => true
  | _, _ => true
def idOkEntries (c : Cfg) : List (Key × Node) → List (Key × Node) → Bool
  | [], _ => true
  | (k, v) :: es, fs =>
    (match fs.lookup k with
     | some w => idOk c v w
     | none => true) && idOkEntries c es fs
def idOkPos (c : Cfg) : List Node → List Node → Bool
  | x :: xs, y :: ys => idOk c x y && idOkPos c xs ys
  | _, _ => true
/-- value synchronisation: every pair the synchroniser can match (`==`-equal elements) -/
def idOkVal (c : Cfg) : List Node → List Node → Bool
  | [], _ => true
  | x :: xs, ys => ys.all (fun y => !(eqv y x) || idOk c x y) && idOkVal c xs ys
/-- `deep`: every pair of records with equal identity values -/
def idOkDeep (c : Cfg) (ka : Key) : List Node → List Node → Bool
  | [], _ => true
  | x :: xs, ys => ys.all (fun y => !(keyMatch ka x y) || idOk c x y) && idOkDeep c ka xs ys
end

/-- `a` is `p` or lies below `p` -/
def covers (p a : Addr) : Prop := ∃ q, a = p ++ q

/-! ## definitions used in the statements of `Props/C06.lean` -/

/-- what the report makes of one tuple under the identity-key modes -/
def keyPairEntries (s : Bool) (c : Cfg) (p : Addr) (deep : Bool) : Pair → List Entry
  | ⟨some (i, x), some (j, y)⟩ =>
    if deep then diffBetween s c (p ++ [.idx j]) x y else [scalarEntry (p ++ [.idx i]) x y]
  | ⟨some (i, x), none⟩ => [mkDel (p ++ [.idx i]) x]
  | ⟨none, some (j, y)⟩ => [mkAdd (p ++ [.idx j]) y]
  | ⟨none, none⟩ => []

/-- what `_diff_synced_lists` makes of a matched pair / a lone left element -/
def valuePairEntries (s : Bool) (c : Cfg) (p : Addr) : Pair → List Entry
  | ⟨some (i, x), some (_, y)⟩ => diffBetween s c (p ++ [.idx i]) x y
  | ⟨some (i, x), none⟩ => [mkDel (p ++ [.idx i]) x]
  | _ => []

/-- positional comparison: array mode `position` and AoH mode `position` (the defaults) or `dpos` -/
def Positional (c : Cfg) : Prop := c.arr = .position ∧ (c.aoh = .position ∨ c.aoh = .dpos)

instance (c : Cfg) : Decidable (Positional c) := by unfold Positional; exact inferInstance

/-- no identity-key synchronisation -/
def NoKeySync (c : Cfg) : Prop := c.aoh ≠ .key ∧ c.aoh ≠ .deep

instance (c : Cfg) : Decidable (NoKeySync c) := by unfold NoKeySync; exact inferInstance

/-- how many elements of `xs` equal `z` -/
def cnt (z : Node) (xs : List Node) : Nat := xs.countP (fun x => eqv z x)

/-- the same number of elements of every `==`-class -/
def Balanced (xs ys : List Node) : Prop := ∀ z, wf z = true → cnt z xs = cnt z ys

end Ypv.Diff
