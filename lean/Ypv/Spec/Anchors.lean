import Ypv.Model.Anchors
/-!
# What the anchor policies define (C10), occurrence by occurrence

`ls` / `rs` are the name → node dictionaries of the left and right document.  A name is *shared*
when both have it; a shared name is a *conflict* when the two values are not Python-equal.
-/
namespace Ypv.Anchors
open Ypv

abbrev Dict := List (Str × Anchored)

/-- What becomes of an anchored scalar of the LEFT document:
* shared name, equal values — it is replaced by the right-hand object (one object per name);
* conflict under `right` — it is replaced by the right-hand node (reads the right value);
* otherwise (other policies, unshared names) — untouched. -/
def finalL (mode : Mode) (ls rs : Dict) (a : Anchored) : Anchored :=
  match ls.lookup a.1.name, rs.lookup a.1.name with
  | some la, some ra => if pyEq la.2 ra.2 then ra else if mode = .right then ra else a
  | _, _ => a

/-- What becomes of an anchored scalar of the RIGHT document:
* conflict under `left` — replaced by the left-hand node (reads the left value);
* conflict under `rename` — keeps its object and value, its name becomes the fresh name;
* otherwise — untouched. -/
def finalR (mode : Mode) (known : List Str) (ls rs : Dict) (a : Anchored) : Anchored :=
  match ls.lookup a.1.name, rs.lookup a.1.name with
  | some la, some ra =>
    if pyEq la.2 ra.2 then a else
      match mode with
      | .left => la
      | .rename => match calcUnique a.1.name known with
        | some f => ({ a.1 with name := f }, a.2)
        | none => a
      | _ => a
  | _, _ => a

/-- Some shared name is a conflict. -/
def hasConflict (ls rs : Dict) : Bool :=
  rs.any (fun e => match ls.lookup e.1 with
    | some la => !pyEq la.2 e.2.2
    | none => false)

def isContainer : ANode → Bool
  | .scalar .. => false
  | _ => true

def knownOf (ls rs : Dict) : List Str :=
  ls.map (·.1) ++ (rs.map (·.1)).filter (fun n => !(ls.map (·.1)).contains n)

end Ypv.Anchors
