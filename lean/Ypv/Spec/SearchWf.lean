import Ypv.Spec.Search
/-!
# Well-formed search documents (C07 "each at most once")

A YAML mapping has pairwise different keys and a set pairwise different members; the entries a
mapping inherits through merge keys are those whose key is not one of its own (`items()` minus
`non_merged_items()`).  `wfKeys` says that of every mapping / set of an `SNode`, to any depth.
It is what makes the addresses of the positions of the document pairwise different.
-/
namespace Ypv.Search
namespace Spec

/-- pairwise different (Boolean, so that `decide +kernel` evaluates it) -/
def distinctKeys : List Key → Bool
  | [] => true
  | k :: r => !r.contains k && distinctKeys r

mutual
/-- every mapping of the document has pairwise different keys (own and inherited entries taken
together), every set pairwise different members -/
def wfKeys : SNode → Bool
  | .scalar _ _ => true
  | .seq _ items => wfKeysItems items
  | .map _ own merged _ =>
    distinctKeys (own.map (·.1.key) ++ merged.map (·.1.key)) && (wfKeysEntries own && wfKeysEntries merged)
  | .set _ ms => distinctKeys (ms.map (·.key))
def wfKeysItems : List SNode → Bool
  | [] => true
  | e :: r => wfKeys e && wfKeysItems r
def wfKeysEntries : List (AKey × SNode) → Bool
  | [] => true
  | (_, v) :: r => wfKeys v && wfKeysEntries r
end

end Spec
end Ypv.Search
