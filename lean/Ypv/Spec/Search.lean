import Ypv.Model.Search
/-!
# Specification of the `yaml-paths` search (C07)

The search is specified as **one pass over the positions of the document in document order**.
A *position* is an addressable place: a sequence element, a mapping entry (its key and its value
share one address), a set member, a merge reference of a mapping.  `flat d` lists all positions
strictly below the root in document order; every position knows how many positions lie below it
(`size`), so that "and nothing below it" is "skip the next `size` positions".

One rule (`rule`) says what happens at a position that is reached — the same rule for sequence
elements and mapping entries, where the model (like the Python) has one copy of the logic per
branch:

* the anchors of the value and (with key-name search) of the key are looked up in the anchors seen
  so far — a name seen before makes the occurrence an *aliased repeat*;
* the position **matches** when its key name satisfies the expression (key-name search on; an
  aliased key only when key aliases are asked for), or — with reference-name search — when the
  name of its key anchor or value anchor does; a matched position is reported and nothing below
  it is looked at (it is covered by the report), or, with expansion, its leaves are (`leaves`);
* an aliased repeat of an anchored value is passed over with everything below it unless value
  aliases are asked for;
* otherwise a scalar value is reported when values are searched and it satisfies the expression,
  and a container is entered;
* set members are keys without values; merge references are reported by name when value aliases
  are asked for and reference names are searched; inherited entries exist only when key or value
  aliases are asked for.

`found c d` is the list of reported addresses.  Nothing here builds path text or recurses over the
document; `Lemmas/Search.lean` proves `(search c d).map Hit.addr = found c d`.
-/
namespace Ypv.Search
namespace Spec

/-- what sits at a position -/
inductive Kind
  | scalar (v : Scalar)
  | container
  | member
  | mref (name : Str)
  deriving DecidableEq, Repr, Inhabited

structure Pos where
  addr : SAddr
  kind : Kind
  /-- key of a mapping entry / the set member -/
  key : Option AKey := none
  /-- an entry inherited through a merge key -/
  merged : Bool := false
  /-- anchor of the value -/
  anchor : Option Str := none
  /-- number of positions below this one -/
  size : Nat := 0
  deriving Repr, Inhabited

def kindOf : SNode → Kind
  | .scalar _ v => .scalar v
  | _ => .container

def flatMembers : List AKey → SAddr → List Pos
  | [], _ => []
  | k :: r, ad => { addr := ad ++ [.member k.key], kind := .member, key := some k } :: flatMembers r ad

def flatRefs : List Str → Nat → SAddr → List Pos
  | [], _, _ => []
  | n :: r, j, ad => { addr := ad ++ [.mref j], kind := .mref n } :: flatRefs r (j + 1) ad

mutual
/-- the positions strictly below the node at address `ad`, in document order -/
def flat : SNode → SAddr → List Pos
  | .scalar _ _, _ => []
  | .seq _ items, ad => flatItems items 0 ad
  | .map _ own merged refs, ad => flatEntries false own ad ++ (flatEntries true merged ad ++ flatRefs refs 0 ad)
  | .set _ ms, ad => flatMembers ms ad
def flatItems : List SNode → Nat → SAddr → List Pos
  | [], _, _ => []
  | e :: r, i, ad =>
    { addr := ad ++ [.idx i], kind := kindOf e, anchor := e.anchor, size := (flat e (ad ++ [.idx i])).length }
      :: (flat e (ad ++ [.idx i]) ++ flatItems r (i + 1) ad)
def flatEntries (mg : Bool) : List (AKey × SNode) → SAddr → List Pos
  | [], _ => []
  | (k, v) :: r, ad =>
    { addr := ad ++ [.key k.key], kind := kindOf v, key := some k, merged := mg, anchor := v.anchor,
      size := (flat v (ad ++ [.key k.key])).length }
      :: (flat v (ad ++ [.key k.key]) ++ flatEntries mg r ad)
end

/-! ## Expansion: the permissible leaves below a matched parent -/

/-- what the expansion does at a position -/
inductive YVerdict
  | leaf      -- list it
  | enter     -- a container: its children follow
  | pass      -- not listed, nothing below it is looked at
  deriving DecidableEq, Repr

/-- Expansion rule: an inherited entry exists only when aliases are asked for; an aliased key
(unless key aliases are asked for) or an aliased value (unless value aliases are) is passed over
with everything below it; merge references are not listed; every other scalar / member is a leaf. -/
def yrule (c : Ctx) (p : Pos) (seen : List Str) : YVerdict × List Str :=
  match p.kind with
  | .mref _ => (.pass, seen)
  | .member =>
    let kam := searchAnchor c (p.key.bind (·.anchor)) seen c.o.inclKeyAliases
    (if !c.o.inclKeyAliases && kam.1.unwantedAlias then .pass else .leaf, kam.2)
  | k =>
    if p.merged && !c.pooled then (.pass, seen) else
    let kam := searchAnchor c (p.key.bind (·.anchor)) seen c.o.inclKeyAliases
    let vam := searchAnchor c p.anchor kam.2 c.o.inclValueAliases
    if (!c.o.inclKeyAliases && kam.1.unwantedAlias) || (!c.o.inclValueAliases && vam.1.unwantedAlias)
    then (.pass, vam.2)
    else (if k = .container then .enter else .leaf, vam.2)

/-- the pass of the expansion over the positions below a matched parent; `skip` positions are
still to be passed over -/
def leaves (c : Ctx) : List Str → Nat → List Pos → List SAddr × List Str
  | seen, _, [] => ([], seen)
  | seen, skip + 1, _ :: rest => leaves c seen skip rest
  | seen, 0, p :: rest =>
    match yrule c p seen with
    | (.leaf, seen') => let r := leaves c seen' 0 rest; (p.addr :: r.1, r.2)
    | (.enter, seen') => leaves c seen' 0 rest
    | (.pass, seen') => leaves c seen' p.size rest

/-! ## The search -/

inductive Verdict
  | matched   -- reported (or expanded); nothing below it is searched
  | pass      -- not reported, nothing below it is searched
  | value (hit : Bool)  -- a scalar value: reported iff `hit`
  | enter     -- a container: its children follow
  deriving DecidableEq, Repr

/-- the key name counts: key aliases are asked for, or the key is no aliased repeat -/
def keyCounts (c : Ctx) (kam : AM) : Bool := c.o.inclKeyAliases || !kam.unwantedAlias

/-- an aliased repeat of a value that is not asked for -/
def valueRepeat (c : Ctx) (vam : AM) : Bool :=
  vam = .aliasExcluded || (vam = .unsearchableAlias && !c.o.inclValueAliases)

def rule (c : Ctx) (p : Pos) (seen : List Str) : Verdict × List Str :=
  match p.kind with
  | .mref name => (if c.o.inclValueAliases && c.o.searchAnchors && c.μ (.str name) then .matched else .pass, seen)
  | .member =>
    let kam := searchAnchor c (p.key.bind (·.anchor)) seen c.o.inclKeyAliases
    let keyHit := match p.key with
      | some k => kam.1.hit || (keyCounts c kam.1 && c.μ (keyScalar k.key))
      | none => false
    (if keyHit then .matched else .pass, kam.2)
  | k =>
    if p.merged && !c.pooled then (.pass, seen) else
    let vam := searchAnchor c p.anchor seen c.o.inclValueAliases
    let kam := if c.o.searchKeys then searchAnchor c (p.key.bind (·.anchor)) vam.2 c.o.inclKeyAliases
               else (AM.noAnchor, vam.2)
    let keyHit := match p.key with
      | some k => c.o.searchKeys && (kam.1.hit || (keyCounts c kam.1 && c.μ (keyScalar k.key)))
      | none => false
    (if keyHit then .matched
     else if valueRepeat c vam.1 then .pass
     else if vam.1.hit then .matched
     else match k with
       | .scalar v => .value (c.o.searchValues && c.μ v)
       | _ => .enter,
     kam.2)

/-- The pass of the search over the positions of the document. -/
def scan (c : Ctx) : List Str → Nat → List Pos → List SAddr
  | _, _, [] => []
  | seen, skip + 1, _ :: rest => scan c seen skip rest
  | seen, 0, p :: rest =>
    match rule c p seen with
    | (.matched, seen') =>
      if c.o.expand && p.kind = .container then
        let l := leaves c seen' 0 (rest.take p.size)
        l.1 ++ scan c l.2 p.size rest
      else p.addr :: scan c seen' p.size rest
    | (.pass, seen') => scan c seen' p.size rest
    | (.value hit, seen') => (if hit then [p.addr] else []) ++ scan c seen' 0 rest
    | (.enter, seen') => scan c seen' 0 rest

/-- The addresses the search has to report for document `d`, in order.  A scalar document has the
single position "root" (a null document is no document). -/
def found (c : Ctx) (d : SNode) : List SAddr :=
  match d with
  | .scalar _ v => if v ≠ .null ∧ (c.o.searchValues && c.μ v) = true then [[]] else []
  | _ => scan c [] 0 (flat d [])

end Spec
end Ypv.Search
