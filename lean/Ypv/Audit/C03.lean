import Ypv.Props.C03
#print axioms Ypv.C03.placeholder
