import Ypv.Props.C03
import Ypv.Props.C03Alias
#print axioms Ypv.C03.set_step_eq_spec
#print axioms Ypv.C03.set_eq_spec
#print axioms Ypv.C03.set_ok_eq_spec
#print axioms Ypv.C03.literal_text_kept
#print axioms Ypv.C03.set_frame
#print axioms Ypv.C03.set_keeps_anchors
#print axioms Ypv.C03.set_preserves_anchorWF
#print axioms Ypv.C03.set_preserves_anchorWF_model
#print axioms Ypv.C03.opAbs_total
#print axioms Ypv.C03.opAbs_sound
#print axioms Ypv.C03.history_refines
#print axioms Ypv.C03.history_refines_det
#print axioms Ypv.C03.alias_exact_partial
#print axioms Ypv.C03.alias_name_unique
