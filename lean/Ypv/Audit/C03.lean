import Ypv.Props.C03
