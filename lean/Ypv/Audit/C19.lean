import Ypv.Props.C19
#print axioms Ypv.C19.rotate_rekeys_partial
#print axioms Ypv.C19.rotate_frame
#print axioms Ypv.C19.rotate_once_and_shared
#print axioms Ypv.C19.alias_takes_recorded_image
#print axioms Ypv.C19.marker_iff
#print axioms Ypv.C19.no_secret_no_io
#print axioms Ypv.C19.good_secret
#print axioms Ypv.C19.good_plain
