import Ypv.Props.C19
