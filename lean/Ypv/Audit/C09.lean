import Ypv.Props.C09
