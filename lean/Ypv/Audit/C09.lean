import Ypv.Props.C09
#print axioms Ypv.C09.create_exact_partial_seq
#print axioms Ypv.C09.create_exact_partial_map
#print axioms Ypv.C09.fill_resolves
#print axioms Ypv.C09.create_nothing_when_present
