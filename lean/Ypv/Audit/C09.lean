import Ypv.Props.C09
#print axioms Ypv.C09.placeholder
