import Ypv.Props.C09
#print axioms Ypv.C09.create_exact
#print axioms Ypv.C09.create_resolves
#print axioms Ypv.C09.create_frame
#print axioms Ypv.C09.create_keeps_anchor
#print axioms Ypv.C09.create_exact_summary
#print axioms Ypv.C09.create_seq_growth
#print axioms Ypv.C09.create_map_growth
#print axioms Ypv.C09.fill_resolves
#print axioms Ypv.C09.create_nothing_when_present
#print axioms Ypv.C09.required_pure
#print axioms Ypv.C09.required_flag_monotone
#print axioms Ypv.C09.getRequired_pure
#print axioms Ypv.C09.exists_pure
#print axioms Ypv.C09.query_pure
