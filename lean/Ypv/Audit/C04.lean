import Ypv.Props.C04
#print axioms Ypv.C04.placeholder
