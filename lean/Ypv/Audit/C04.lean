import Ypv.Props.C04
