import Ypv.Props.C04
#print axioms Ypv.C04.delete_eq_spec
#print axioms Ypv.C04.delete_root_refused
#print axioms Ypv.C04.reverse_positional_eq_set_removal
#print axioms Ypv.C04.normalize_noDisturb
#print axioms Ypv.C04.delete_frame
