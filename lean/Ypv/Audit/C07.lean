import Ypv.Props.C07
#print axioms Ypv.C07.search_eq_found
#print axioms Ypv.C07.search_eq_found_node
#print axioms Ypv.C07.found_is_position
#print axioms Ypv.C07.expand_is_leaves
#print axioms Ypv.C07.expand_lists_leaves_only
#print axioms Ypv.C07.no_expand_is_self
#print axioms Ypv.C07.search_paths_reresolve
#print axioms Ypv.C07.search_paths_walk
#print axioms Ypv.C07.escapePathSection_is_escText
#print axioms Ypv.C07.search_in_document_order
#print axioms Ypv.C07.search_reports_once
#print axioms Ypv.C07.positions_distinct
#print axioms Ypv.C07.search_auto_is_dot
#print axioms Ypv.C07.search_paths_reresolve_sep
