import Ypv.Props.C07
