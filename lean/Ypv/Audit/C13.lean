import Ypv.Props.C13
