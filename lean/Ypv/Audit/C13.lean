import Ypv.Props.C13
#print axioms Ypv.C13.max_eq_spec
#print axioms Ypv.C13.min_eq_spec
#print axioms Ypv.C13.minmax_eq_spec
#print axioms Ypv.C13.scanOrder_ints_max
#print axioms Ypv.C13.scanOrder_ints_min
#print axioms Ypv.C13.members_of_list
#print axioms Ypv.C13.has_child_map_eq_spec
#print axioms Ypv.C13.has_child_aoh_eq_spec
#print axioms Ypv.C13.parent_eq_spec
#print axioms Ypv.C13.parent_default_eq_spec
#print axioms Ypv.C13.parent_zero_eq_spec
#print axioms Ypv.C13.parent_refuses_above_root
#print axioms Ypv.C13.name_eq_spec
#print axioms Ypv.C13.unique_distinct_scalar_partial
#print axioms Ypv.C13.distinct_groups_partial
