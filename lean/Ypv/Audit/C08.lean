import Ypv.Props.C08
