import Ypv.Props.C08
#print axioms Ypv.C08.parse_write_basic
#print axioms Ypv.C08.parse_write_basic_inferred
#print axioms Ypv.C08.parse_write_search_keyword_collector_partial
#print axioms Ypv.C08.eq_iff_segments
#print axioms Ypv.C08.eq_written
#print axioms Ypv.C08.append_pop_partial
#print axioms Ypv.C08.append_text
