import Ypv.Props.C08
#print axioms Ypv.C08.parse_write
#print axioms Ypv.C08.parse_write_unescaped
#print axioms Ypv.C08.parse_write_inferred
#print axioms Ypv.C08.parse_write_basic
#print axioms Ypv.C08.parse_write_basic_inferred
#print axioms Ypv.C08.eq_iff_segments
#print axioms Ypv.C08.eq_written
#print axioms Ypv.C08.render_fixed_point
#print axioms Ypv.C08.str_fixed_point
#print axioms Ypv.C08.pop_of_rendered
#print axioms Ypv.C08.append_text
#print axioms Ypv.C08.append_pop
#print axioms Ypv.C08.pop_respelled
#print axioms Ypv.C08.pop_respelled_reparses
