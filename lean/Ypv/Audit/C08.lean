import Ypv.Props.C08
#print axioms Ypv.C08.parse_write_basic
#print axioms Ypv.C08.parse_write_basic_inferred
#print axioms Ypv.C08.parse_write_dot
#print axioms Ypv.C08.parse_write_partial
#print axioms Ypv.C08.parse_write_unescaped_partial
#print axioms Ypv.C08.parse_write_inferred_partial
#print axioms Ypv.C08.eq_iff_segments
#print axioms Ypv.C08.eq_written
#print axioms Ypv.C08.render_fixed_point_partial
#print axioms Ypv.C08.str_fixed_point_partial
#print axioms Ypv.C08.pop_of_rendered
#print axioms Ypv.C08.append_text
#print axioms Ypv.C08.append_pop_partial
