import Ypv.Props.C16
