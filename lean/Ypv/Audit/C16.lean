import Ypv.Props.C16
#print axioms Ypv.Cli.get_exit_zero_iff_matched
#print axioms Ypv.Cli.get_lines_are_results
#print axioms Ypv.Cli.get_json_for_containers
#print axioms Ypv.Cli.get_args_decision
#print axioms Ypv.Cli.get_stdin_eq_file
#print axioms Ypv.Cli.diff_exit_zero_iff_clean
#print axioms Ypv.Cli.diff_prints_report
#print axioms Ypv.Cli.diff_exit_ignores_output_options
#print axioms Ypv.Cli.diff_args_decision
#print axioms Ypv.Cli.validate_exit_zero_iff_all_load
#print axioms Ypv.Cli.validate_args_decision
#print axioms Ypv.Cli.set_file_is_model_result
#print axioms Ypv.Cli.set_args_decision
#print axioms Ypv.Cli.paths_lines_are_found
#print axioms Ypv.Cli.paths_file_lines
