import Ypv.Props.C06
