import Ypv.Props.C06
#print axioms Ypv.C06.exit_zero_iff_clean
#print axioms Ypv.C06.sync_accounting
#print axioms Ypv.C06.sync_indices
#print axioms Ypv.C06.key_report_follows_sync
#print axioms Ypv.C06.value_report_follows_sync
#print axioms Ypv.C06.diff_refl
#print axioms Ypv.C06.keyed_of_no_key_sync
#print axioms Ypv.C06.diff_truthful
#print axioms Ypv.C06.diff_clean_iff_dataEq_strict
#print axioms Ypv.C06.diff_clean_of_eqv
#print axioms Ypv.C06.diff_clean_iff_dataEq_partial
#print axioms Ypv.C06.diff_complete_strict
#print axioms Ypv.C06.diff_complete_partial
#print axioms Ypv.C06.msEq_iff_balanced
#print axioms Ypv.C06.msEq_of_perm
#print axioms Ypv.C06.key_clean_iff_msEq
#print axioms Ypv.C06.diff_clean_iff_dataEq_key_root
