import Ypv.Props.C01
#print axioms Ypv.C01.required_eq_select
#print axioms Ypv.C01.getRequired_eq_select
#print axioms Ypv.C01.exists_iff_select_nonempty
#print axioms Ypv.C01.optional_eq_required_of_exists
#print axioms Ypv.C01.select_sorted_nodup
#print axioms Ypv.C01.keyword_selects_kwSearch
#print axioms Ypv.C01.keyword_results_at_addresses
