import Ypv.Props.C01
