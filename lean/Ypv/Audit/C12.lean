import Ypv.Props.C12
