import Ypv.Props.C12
#print axioms Ypv.C12.matches_eq_spec
#print axioms Ypv.C12.matches_total
#print axioms Ypv.C12.matches_never_crashes
#print axioms Ypv.C12.matches_error_only_invalid_regex
#print axioms Ypv.C12.plain_is_filter
#print axioms Ypv.C12.inverted_is_complement
#print axioms Ypv.C12.positions_partition
#print axioms Ypv.C12.inverted_list_site
#print axioms Ypv.C12.attr_plain_is_filter
#print axioms Ypv.C12.attr_inverted_is_complement
