import Ypv.Props.C17
