import Ypv.Props.C17
#print axioms Ypv.C17.prewrite_exit_has_no_io
#print axioms Ypv.C17.prewrite_exit_has_no_io_set
#print axioms Ypv.C17.prewrite_exit_has_no_io_merge
#print axioms Ypv.C17.set_nonzero_exit_phase
#print axioms Ypv.C17.output_never_replaces_existing
#print axioms Ypv.C17.backup_is_preimage
#print axioms Ypv.C17.single_fault_keeps_original
#print axioms Ypv.C17.single_fault_keeps_original_restore
