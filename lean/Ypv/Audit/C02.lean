import Ypv.Props.C02
#print axioms Ypv.C02.results_located
#print axioms Ypv.C02.coords_sound
#print axioms Ypv.C02.ancestry_is_chain
#print axioms Ypv.C02.coords_chain
#print axioms Ypv.C02.required_coords_chain
#print axioms Ypv.C02.kids_coords_chain
#print axioms Ypv.C02.coords_reresolve
#print axioms Ypv.C02.path_reresolves_partial
