import Ypv.Props.C02
