import Ypv.Props.C02
#print axioms Ypv.C02.results_located
#print axioms Ypv.C02.coords_sound
#print axioms Ypv.C02.ancestry_is_chain
#print axioms Ypv.C02.coords_chain
#print axioms Ypv.C02.required_coords_chain
#print axioms Ypv.C02.kids_coords_chain
#print axioms Ypv.C02.coords_reresolve
#print axioms Ypv.C02.canonical_path_reresolves
#print axioms Ypv.C02.results_pathed
#print axioms Ypv.C02.path_reresolves
#print axioms Ypv.C02.path_reresolves_as
#print axioms Ypv.C02.path_reresolves_aliased
#print axioms Ypv.C02.path_reresolves_query
#print axioms Ypv.C02.pop_is_ctxUp
#print axioms Ypv.Acc.parseWith_texts_join
#print axioms Ypv.Acc.accObj_eq
#print axioms Ypv.Acc.escSection_real
