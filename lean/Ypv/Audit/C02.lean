import Ypv.Props.C02
#print axioms Ypv.C02.coords_chain
#print axioms Ypv.C02.kids_coords_chain
