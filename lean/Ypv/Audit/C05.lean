import Ypv.Props.C05
