import Ypv.Props.C05
#print axioms Ypv.C05.merge_total
#print axioms Ypv.C05.policy_precedence
#print axioms Ypv.C05.modes_are_pick
#print axioms Ypv.C05.array_merge_eq_spec
#print axioms Ypv.C05.array_all_is_append
#print axioms Ypv.C05.set_merge_eq_spec
#print axioms Ypv.C05.rhs_scalar_overrides
#print axioms Ypv.C05.impossible_is_merge_error
#print axioms Ypv.C05.lhs_order_kept
#print axioms Ypv.C05.merge_order_ok
#print axioms Ypv.C05.hash_deep_keys
#print axioms Ypv.C05.lhs_only_content_preserved
#print axioms Ypv.C05.merge_content_eq_spec
#print axioms Ypv.C05.mergeVal_map_eq_mergeDicts
#print axioms Ypv.C05.root_hash_merge
#print axioms Ypv.C05.lhs_keys_kept
