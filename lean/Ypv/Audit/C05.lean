import Ypv.Props.C05
#print axioms Ypv.C05.merge_total
#print axioms Ypv.C05.policy_precedence
#print axioms Ypv.C05.modes_are_pick
#print axioms Ypv.C05.array_merge_eq_spec
#print axioms Ypv.C05.array_all_is_append
#print axioms Ypv.C05.set_merge_eq_spec
#print axioms Ypv.C05.rhs_scalar_overrides
#print axioms Ypv.C05.impossible_is_merge_error
#print axioms Ypv.C05.merge_order_ok_partial
#print axioms Ypv.C05.lhs_keys_kept
