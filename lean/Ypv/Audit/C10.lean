import Ypv.Props.C10
#print axioms Ypv.C10.unique_anchor_terminates_fresh
#print axioms Ypv.C10.stop_refuses
#print axioms Ypv.C10.accepted_unless_stop_conflict
#print axioms Ypv.C10.resolve_is_policy
#print axioms Ypv.C10.resolved_oneObj
#print axioms Ypv.C10.merged_no_duplicate_anchor
#print axioms Ypv.C10.left_reads_left
#print axioms Ypv.C10.right_reads_right
#print axioms Ypv.C10.rename_consistent
