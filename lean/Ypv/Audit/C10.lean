import Ypv.Props.C10
