import Ypv.Props.C10
#print axioms Ypv.C10.unique_anchor_terminates_fresh
#print axioms Ypv.C10.no_duplicate_anchor_of_oneObj
