import Ypv.Props.C18
#print axioms Ypv.C18.condense_is_fold
#print axioms Ypv.C18.condense_count
#print axioms Ypv.C18.across_is_zip
#print axioms Ypv.C18.matrix_is_product
#print axioms Ypv.C18.matrixRow_fold
#print axioms Ypv.C18.matrix_all_ok
#print axioms Ypv.C18.output_count
#print axioms Ypv.C18.exit_codes
