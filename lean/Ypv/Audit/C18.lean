import Ypv.Props.C18
