import Ypv.Props.C15
#print axioms Ypv.C15.required_errors_are_ypath
#print axioms Ypv.C15.queries_errors_are_ypath
