import Ypv.Props.C15
#print axioms Ypv.C15.required_errors_are_ypath_partial
#print axioms Ypv.C15.queries_errors_are_ypath_partial
#print axioms Ypv.C15.compare_matcher_safe
#print axioms Ypv.C15.compare_matcher_safe_noOracle
#print axioms Ypv.C15.keyword_crash_only_K1
#print axioms Ypv.C15.keyword_no_crash_outside_K1
#print axioms Ypv.C15.queries_errors_are_ypath_compare
#print axioms Ypv.C15.collector_crash_only_hashSub
#print axioms Ypv.C15.collector_errors_are_ypath_partial
#print axioms Ypv.C15.collector_queries_errors_are_ypath_compare
#print axioms Ypv.C15.subtraction_loop_outcomes
