import Ypv.Props.C15
