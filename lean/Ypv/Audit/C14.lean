import Ypv.Props.C14
#print axioms Ypv.C14.parse_total
#print axioms Ypv.C14.parseWith_total
