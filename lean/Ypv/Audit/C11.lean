import Ypv.Props.C11
