import Ypv.Props.C11
/-! C11 — obligations (one `#print axioms` per property theorem) -/
#print axioms Ypv.MergeAt.mergeat_frame
#print axioms Ypv.MergeAt.mergeat_frame_created
#print axioms Ypv.MergeAt.mergeat_targets_merged
#print axioms Ypv.MergeAt.mergeat_target_is_c05_merge_partial
#print axioms Ypv.MergeAt.mergeat_meets_spec_partial
#print axioms Ypv.MergeAt.mergeat_missing_created
#print axioms Ypv.MergeAt.mergeat_existing_path_is_target
#print axioms Ypv.MergeAt.mergeat_unmatched_is_error
#print axioms Ypv.MergeAt.mergeat_uncreatable_is_error
#print axioms Ypv.MergeAt.mergeat_null_rhs
#print axioms Ypv.MergeAt.mergeat_spine_kept
#print axioms Ypv.MergeAt.mergeat_missing_created_scalar
#print axioms Ypv.MergeAt.mergeat_creation_is_c09
#print axioms Ypv.MergeAt.mergeat_rules_rebased
#print axioms Ypv.MergeAt.mergeat_target_is_c05_merge
#print axioms Ypv.MergeAt.set_value_keeps_iff
#print axioms Ypv.MergeAt.retyped_iff
#print axioms Ypv.MergeAt.mergeat_creation_exact
