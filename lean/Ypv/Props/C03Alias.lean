import Ypv.Lemmas.EditCreate
import Ypv.Model.Alias
/-!
# C03 (histories that acquire anchors): `alias_nodes` changes exactly the matched nodes

C03 speaks about sets "after any sequence of such edits" on documents with anchors and aliases; a
document can ACQUIRE its anchors during the history (`Processor.alias_nodes`, what `yaml-set --aliasof`
calls).  These theorems say what one alias step does in the value model (`Model/Alias.lean`): the
source node and every matched node become the same anchored node, nothing else changes, and a name
the document already uses is refused.  They are the single-step semantics the history layer of
`harness/props/c03.py` compares the real `alias_nodes` with; after the step the document is an ordinary
anchored document and the set theorems of `Props/C03.lean` apply to it.
-/
namespace Ypv.C03
open Ypv Ypv.Alias

/-- neither address is on the way to the other -/
def Unrelated (a b : Addr) : Prop := ¬ a <+: b ∧ ¬ b <+: a

def NoMember (q : Addr) : Prop := ∀ r ∈ q, ∀ k, r ≠ Ref.member k

/-- at and below a grafted address the lookup continues in the new node -/
theorem get?_graftAt_below (g : Node → Node) : ∀ (q : Addr) (d n : Node) (z : Addr),
    d.get? q = some n → NoMember q → (d.graftAt g q).get? (q ++ z) = (g n).get? z
  | [], d, n, z, h, _ => by
    simp only [Node.get?, Option.some.injEq] at h; subst h; simp [graftAt_nil]
  | r :: q, d, n, z, h, hm => by
    rw [get?_cons] at h
    rw [List.cons_append, get?_cons, child?_graftAt_same g d r q (hm r (by simp))]
    cases hc : d.child? r with
    | none => simp [hc] at h
    | some c =>
      simp only [hc, Option.map_some] at h ⊢
      exact get?_graftAt_below g q c n z h (fun r' hr' => hm r' (by simp [hr']))

/-- an address unrelated to every grafted one sees the same node after the whole pass -/
theorem fold_frame (an : Node) : ∀ (ts : List Addr) (acc : Node) (y : Addr),
    (∀ t ∈ ts, Unrelated y t) →
    (ts.foldl (fun a t => a.graftAt (fun _ => an) t) acc).get? y = acc.get? y
  | [], _, _, _ => rfl
  | t :: ts, acc, y, h => by
    rw [List.foldl_cons, fold_frame an ts _ y (fun t' ht' => h t' (by simp [ht']))]
    exact get?_graftAt_frame _ t acc y (h t (by simp)).1 (h t (by simp)).2

/-- every grafted address holds the new node after the pass -/
theorem fold_targets (an : Node) : ∀ (ts : List Addr) (acc : Node),
    ts.Pairwise Unrelated → (∀ t ∈ ts, ∃ m, acc.get? t = some m) → (∀ t ∈ ts, NoMember t) →
    ∀ t ∈ ts, (ts.foldl (fun a t => a.graftAt (fun _ => an) t) acc).get? t = some an
  | [], _, _, _, _, t, ht => by simp at ht
  | t0 :: ts, acc, hp, hex, hnm, t, ht => by
    rw [List.pairwise_cons] at hp
    rw [List.foldl_cons]
    rcases List.mem_cons.mp ht with rfl | ht'
    · rw [fold_frame an ts _ t (fun t' ht' => hp.1 t' ht')]
      obtain ⟨m, hm⟩ := hex t (by simp)
      simpa [Node.get?] using get?_graftAt_below (fun _ => an) t acc m [] hm (hnm t (by simp))
    · refine fold_targets an ts _ hp.2 (fun t' ht'' => ?_) (fun t' ht'' => hnm t' (by simp [ht''])) t ht'
      obtain ⟨m, hm⟩ := hex t' (by simp [ht''])
      refine ⟨m, ?_⟩
      have hu : Unrelated t0 t' := hp.1 t' ht''
      rw [get?_graftAt_frame _ t0 acc t' hu.2 hu.1]; exact hm

/-- **alias_exact_partial.**  `alias_nodes` over the source address `src` and the matched addresses `targets`
(pairwise unrelated, none on the way to or below the source, none a set member, all present), for a
source node that carries no anchor yet or already carries the settled name (`hsrc`): when it goes
ahead the source node `n` has received the settled name and
* the source address and EVERY matched address hold that one anchored node (so all of them are the
  same node of the alias-expanded document: the matched nodes are now its aliases),
* the anchored node is `n` with the name set — its value is untouched,
* every address that is neither on the way to nor below the source or a matched address leads to the
  same node as before (nothing else changed).
PARTIAL — what is missing: a source that already carries a DIFFERENT anchor name.  Python renames the one
shared object, so every alias of the old name is renamed too; the model does that (`renameAnchor`,
compared with the real code on every run), the frame clause would then hold "up to that renaming" and
is not proved. -/
theorem alias_exact_partial (d : Node) (src : Addr) (given : Option Str) (fresh : Str) (targets : List Addr)
    (d' an : Node) (h : aliasNodes d src given fresh targets = .ok (d', an))
    (hp : (src :: targets).Pairwise Unrelated) (hex : ∀ t ∈ targets, ∃ m, d.get? t = some m)
    (hnm : ∀ t ∈ src :: targets, NoMember t)
    (hsrc : ∀ n name, d.get? src = some n → settleName d n given fresh = .ok name →
      n.anchor = none ∨ n.anchor = some name) :
    (∃ n name, d.get? src = some n ∧ settleName d n given fresh = .ok name ∧ an = withAnchor name n) ∧
    d'.get? src = some an ∧ (∀ t ∈ targets, d'.get? t = some an) ∧
    (∀ y, (∀ t ∈ src :: targets, Unrelated y t) → d'.get? y = d.get? y) := by
  unfold aliasNodes at h
  cases hs : d.get? src with
  | none => simp [hs] at h
  | some n =>
    simp only [hs] at h
    cases hn : settleName d n given fresh with
    | error e => simp [hn] at h
    | ok name =>
      simp only [hn, Except.ok.injEq, Prod.mk.injEq] at h
      obtain ⟨hd', han⟩ := h
      -- under `hsrc` nothing is renamed
      have han' : withAnchor name n = an := by
        rcases hsrc n name hs hn with h0 | h0 <;> simpa [h0] using han
      have hd'' : targets.foldl (fun acc t => acc.graftAt (fun _ => withAnchor name n) t)
          (d.graftAt (fun _ => withAnchor name n) src) = d' := by
        rcases hsrc n name hs hn with h0 | h0 <;> simpa [h0] using hd'
      clear han hd'
      have han := han'
      have hd' := hd''
      subst han
      rw [List.pairwise_cons] at hp
      have hsrc0 : (d.graftAt (fun _ => withAnchor name n) src).get? src = some (withAnchor name n) := by
        simpa [Node.get?] using get?_graftAt_below (fun _ => withAnchor name n) src d n [] hs (hnm src (by simp))
      have hex0 : ∀ t ∈ targets, ∃ m, (d.graftAt (fun _ => withAnchor name n) src).get? t = some m := by
        intro t ht
        obtain ⟨m, hm⟩ := hex t ht
        have hu := hp.1 t ht
        exact ⟨m, by rw [get?_graftAt_frame _ src d t hu.2 hu.1]; exact hm⟩
      refine ⟨⟨n, name, rfl, hn, rfl⟩, ?_, ?_, ?_⟩
      · rw [← hd', fold_frame _ targets _ src (fun t ht => hp.1 t ht)]; exact hsrc0
      · intro t ht
        rw [← hd']
        exact fold_targets _ targets _ hp.2 hex0 (fun t' ht' => hnm t' (by simp [ht'])) t ht
      · intro y hy
        rw [← hd', fold_frame _ targets _ y (fun t ht => hy t (by simp [ht]))]
        exact get?_graftAt_frame _ src d y (hy src (by simp)).1 (hy src (by simp)).2

/-- **alias_name_unique.**  A requested anchor name the document already uses is refused (the library's
`BadAliasYAMLPathException`) and nothing is changed; a node that has an anchor keeps it when no name is
asked for. -/
theorem alias_name_unique (d n : Node) (src : Addr) (a fresh : Str) (targets : List Addr)
    (hs : d.get? src = some n) (ha : a ∈ anchorsOf d) :
    aliasNodes d src (some a) fresh targets = .error .nameTaken := by
  simp [aliasNodes, hs, settleName, ha]

theorem alias_keeps_own_name (d n : Node) (fresh own : Str) (ho : n.anchor = some own) :
    settleName d n none fresh = .ok own := by
  simp [settleName, ho]

/-- the anchored node carries the settled name and the source node's content -/
theorem withAnchor_anchor (a : Str) (n : Node) : (withAnchor a n).anchor = some a := by
  cases n <;> rfl

/-! ### The hypotheses are met; a concrete step -/

/-- `{a: 1, b: [2, 3], c: 4}`; `alias_nodes("b[1]" and "c", anchor_path="a", anchor_name="x")` -/
def exDoc : Node := .map none [(.str ['a'], .scalar none (.int 1)),
  (.str ['b'], .seq none [.scalar none (.int 2), .scalar none (.int 3)]), (.str ['c'], .scalar none (.int 4))]
def exOut : Node := .map none [(.str ['a'], .scalar (some ['x']) (.int 1)),
  (.str ['b'], .seq none [.scalar none (.int 2), .scalar (some ['x']) (.int 1)]), (.str ['c'], .scalar (some ['x']) (.int 1))]
example : aliasNodes exDoc [.key (.str ['a'])] (some ['x']) ['i', 'd'] [[.key (.str ['b']), .idx 1], [.key (.str ['c'])]]
    = .ok (exOut, .scalar (some ['x']) (.int 1)) := by decide +kernel
example : aliasNodes exOut [.key (.str ['b']), .idx 0] (some ['x']) ['i', 'd'] [[.key (.str ['c'])]]
    = .error .nameTaken := by decide +kernel

/-- the missing case of `alias_exact_partial`, as the model (and the real code) behave: the source `b[0]`
already carries `x`, shared with `c`; asking for the name `y` renames the shared node everywhere -/
example : aliasNodes exOut [.key (.str ['a'])] (some ['y']) ['i', 'd'] []
    = .ok (.map none [(.str ['a'], .scalar (some ['y']) (.int 1)),
        (.str ['b'], .seq none [.scalar none (.int 2), .scalar (some ['y']) (.int 1)]), (.str ['c'], .scalar (some ['y']) (.int 1))],
      .scalar (some ['y']) (.int 1)) := by decide +kernel

end Ypv.C03
