import Ypv.Lemmas.Doc
import Ypv.Lemmas.EvalKwLoc
import Ypv.Lemmas.WriteSim
import Ypv.Lemmas.PathResolve
import Ypv.Lemmas.PathPop
import Ypv.Lemmas.PathDecode
/-!
# C02 — every result locates its node

Proved: for a well-formed document every real result of a query (and every member of a virtual
slice result) is a *located node* (`results_located`): its address resolves to the very node, the
reported parent address resolves to a node in which the reported parentref designates the last step
(`coords_sound`), the ancestry is the chain of (prefix, reference) pairs from the root, each
reference designating the next step inside the node the prefix resolves to (`ancestry_is_chain`),
and parent / parentref / ancestry / path sections have the chain structure of `coords_chain`.

`path_reresolves` (FULL, both notations): the text `str(result.path)` — the `YAMLPath` object the
evaluator accumulates section by section (`YAMLPath("") + section + …`, `Model/PathAcc.lean`),
stringified by the library's own `__str__` (C08 object model), also after `path.separator = FSLASH` —
parses, separator inferred, to segments which, evaluated from the document root, select exactly the
result's node, once, at its address.  Excluded classes, each an explicit decidable hypothesis with a
kernel-checked witness: twin keys `{1: x, '1': y}` (`W1.docClear`), key texts the notation cannot
write (empty, `*` inside, leading `&`, only control white space) and texts with two adjacent
backslashes, which `escape_path_section` copies unescaped (finding C07-K6) (`Sec.ok`), anchors borne by
several children of one parent (`aloneAlong`; for those `path_reresolves_aliased`: the path denotes
every bearer, in document order).  Keyword and collector segments are outside these theorems
(`plainKind`; `[parent()]` past an `[&anchor]` section keeps the section in the text — finding C02-K5,
a defect of `YAMLPath.pop`, C08's function — judged directly on the real code by the check).
-/
namespace Ypv.C02
open Ypv Ypv.Eval Gen

/-- Coordinates reachable from `c0` by child steps. -/
inductive From (c0 : Ctx) : Ctx → Prop
  | start : From c0 c0
  | child {c : Ctx} (r : Ref) (pr : PRef) (sec : Str) : From c0 c → From c0 (c.child r pr sec)

/-- Proper prefixes of an address, shortest first. -/
def prefixes : Addr → List Addr
  | [] => []
  | r :: rs => [] :: (prefixes rs).map (r :: ·)

theorem prefixes_append (a : Addr) (r : Ref) : prefixes (a ++ [r]) = prefixes a ++ [a] := by
  induction a with
  | nil => rfl
  | cons x xs ih => simp [prefixes, ih]

/-- **Chain structure of coordinates built from the root**: `parent` is the address without its last
reference, the ancestry lists exactly the proper prefixes of the address in order, `parentref` is
the reference recorded by the last ancestry entry, and the path has one section per reference. -/
theorem coords_chain (c : Ctx) (h : From Ctx.root c) :
    c.anc.map (·.1) = prefixes c.addr
    ∧ c.parent = (c.anc.getLast?).map (·.1)
    ∧ c.pref = (c.anc.getLast?).map (·.2)
    ∧ (c.addr = [] ↔ c.parent = none)
    ∧ (∀ p, c.parent = some p → p = c.addr.dropLast)
    ∧ c.path.length = c.addr.length := by
  induction h with
  | start => simp [Ctx.root, prefixes]
  | child r pr sec _ ih =>
    obtain ⟨h1, _, _, _, _, h6⟩ := ih
    simp [Ctx.child, prefixes_append, h1, h6]

/-- The coordinates the evaluator hands to the children of a node (`*`, and every handler that
enumerates members) are child steps of the node's coordinates. -/
theorem kids_coords_chain (c0 : Ctx) (n : Node) (c : Ctx) (h : From c0 c) : ∀ x ∈ kids n c, From c0 x.2 := by
  have hs : ∀ (items : List Node) (i : Nat), ∀ x ∈ seqKidsFrom c items i, From c0 x.2 := by
    intro items
    induction items with
    | nil => intro i x hx; simp [seqKidsFrom] at hx
    | cons m ms ih =>
      intro i x hx
      simp only [seqKidsFrom, List.mem_cons] at hx
      cases hx with
      | inl hx => subst hx; exact From.child _ _ _ h
      | inr hx => exact ih (i + 1) x hx
  intro x hx
  cases n with
  | scalar a v => simp [kids] at hx
  | seq a items => exact hs items 0 x hx
  | map a es =>
    simp only [kids, mapKids, List.mem_map] at hx
    obtain ⟨kv, _, rfl⟩ := hx
    exact From.child _ _ _ h
  | set a ms =>
    simp only [kids, setKids, List.mem_map] at hx
    obtain ⟨k, _, rfl⟩ := hx
    exact From.child _ _ _ h

theorem Loc.from {d n : Node} {c : Ctx} (h : Loc d n c) : From Ctx.root c := by
  induction h with
  | root => exact From.start
  | child r pr sec m _ _ _ ih => exact From.child r pr sec ih

variable {mt : Matcher} {dsc : Desc} {rt : Node}

/-- **Every result locates its node.**  For a well-formed document `d` (distinct keys), every real
result `(n, c)` of `_get_required_nodes` from the root — and every member of a virtual slice result —
is a *located node*: its coordinates were built from the root by steps each leading from the parent
node to the child node under the reported reference. -/
theorem results_located {d : Node} (hd : d.WF) (segs : List ESeg) (hk : ∀ s ∈ segs, s.isKeyword = false) :
    ∀ r ∈ (required mt dsc rt segs (.real (d, Ctx.root))).1, ResLoc d r :=
  allResLoc_required hd segs hk (.real (d, Ctx.root)) Loc.root

/-- **coords_sound**: the address of a located node resolves to that very node; it is the root
(no parent, no reference), or its reported parent address resolves to a node `P` in which the
reported `parentref` designates (Python indexing for lists, key lookup for dicts, membership for
sets) exactly the last step of the address, and that step leads from `P` to the node. -/
theorem coords_sound {d n : Node} {c : Ctx} (h : Loc d n c) :
    d.get? c.addr = some n ∧
    ((c.addr = [] ∧ c.parent = none ∧ c.pref = none ∧ n = d) ∨
     (∃ p r pr P, c.addr = p ++ [r] ∧ c.parent = some p ∧ c.pref = some pr ∧ d.get? p = some P
        ∧ prefOk P pr r ∧ P.child? r = some n)) := by
  refine ⟨h.get, ?_⟩
  cases h with
  | root => left; simp [Ctx.root]
  | child r pr sec m hl hc hp =>
    right
    exact ⟨_, r, pr, _, rfl, rfl, rfl, hl.get, hp, hc⟩

/-- **ancestry_is_chain**: the ancestry of a located node has one entry per step of its address; the
`i`-th entry names the prefix of length `i` of the address, which resolves to a node in which the
recorded reference designates the `i`-th step. -/
theorem ancestry_is_chain {d n : Node} {c : Ctx} (h : Loc d n c) :
    c.anc.length = c.addr.length ∧
    ∀ i (hi : i < c.addr.length), ∃ P pr, c.anc[i]? = some (c.addr.take i, pr)
      ∧ d.get? (c.addr.take i) = some P ∧ prefOk P pr c.addr[i] := by
  induction h with
  | root => simp [Ctx.root]
  | @child n0 c0 r pr sec m hl hc hp ih =>
    obtain ⟨hlen, hall⟩ := ih
    refine ⟨by simp [Ctx.child, hlen], ?_⟩
    intro i hi
    simp only [Ctx.child, List.length_append, List.length_cons, List.length_nil] at hi
    by_cases hlt : i < c0.addr.length
    · obtain ⟨P, pr', h1, h2, h3⟩ := hall i hlt
      refine ⟨P, pr', ?_, ?_, ?_⟩
      · simp only [Ctx.child]
        rw [List.getElem?_append_left (by omega), List.take_append_of_le_length (by omega)]
        exact h1
      · simp only [Ctx.child]
        rw [List.take_append_of_le_length (by omega)]
        exact h2
      · simp only [Ctx.child]
        rw [List.getElem_append_left hlt]
        exact h3
    · have hi' : i = c0.addr.length := by omega
      subst hi'
      refine ⟨n0, pr, ?_, ?_, ?_⟩
      · simp only [Ctx.child]
        rw [List.getElem?_append_right (by omega)]
        simp [hlen]
      · simp only [Ctx.child]
        simp [hl.get]
      · simp only [Ctx.child]
        simp [hp]

/-- The chain facts for the results of a query. -/
theorem required_coords_chain {d : Node} (hd : d.WF) (segs : List ESeg) (hk : ∀ s ∈ segs, s.isKeyword = false)
    (n : Node) (c : Ctx)
    (h : Res.real (n, c) ∈ (required mt dsc rt segs (.real (d, Ctx.root))).1) : From Ctx.root c :=
  Loc.from (results_located (mt := mt) (dsc := dsc) (rt := rt) hd segs hk _ h)

example : From Ctx.root (Ctx.root.child (.key (.str ['a'])) (.key (.str ['a'])) ['a']) := From.child _ _ _ From.start

/-- **Coordinates re-resolve.**  For a well-formed document without twin keys, every real result
`(n, c)` of a query (keyword segments aside): the segments naming its reported references — a key
or set member by its text, a list element by its index as reported (possibly negative) —, one per
ancestry entry, evaluated from the document root select exactly `n`, once, at the address `c.addr`. -/
theorem coords_reresolve {d : Node} (hd : d.WF) (hc : W1.docClear d = true) (segs : List ESeg)
    (hk : ∀ s ∈ segs, s.isKeyword = false) (n : Node) (c : Ctx)
    (h : Res.real (n, c) ∈ (required mt dsc rt segs (.real (d, Ctx.root))).1) (mt' : Matcher) (dsc' : Desc) :
    ∃ c', required mt' dsc' d (W1.pathSegs c) (.real (d, Ctx.root)) = Gen.one (.real (n, c')) ∧ c'.addr = c.addr :=
  W1.coords_reresolve_loc mt' dsc' d hd
    (W1.locClear_of_loc (results_located (mt := mt) (dsc := dsc) (rt := rt) hd segs hk _ h) hc)

/-- **The canonical path text re-resolves** (the statement about `str(result.path)` itself is
`path_reresolves` below).  For a located node of a
well-formed document without twin keys whose keys the notation can express (`wfSegs`: no empty key,
no `*` inside, no leading `&`), the dot-notation text `write false (W1.pathSegsS c)` parses to segments
which, evaluated from the root, select exactly that node at its address. -/
theorem canonical_path_reresolves {d n : Node} {c : Ctx} (hd : d.WF) (hc : W1.docClear d = true) (hl : Loc d n c)
    (hwf : wfSegs (W1.pathSegsS c) = true) (mt' : Matcher) (dsc' : Desc) :
    ∃ sg, parseWith false true (write false (W1.pathSegsS c)) = .ok sg ∧
      ∃ c', required mt' dsc' d (sg.map ESeg.ofSeg) (.real (d, Ctx.root)) = Gen.one (.real (n, c')) ∧ c'.addr = c.addr := by
  refine ⟨W1.pathSegsS c, ?_, ?_⟩
  · simpa using Sim.parseWith_write false true (W1.pathSegsS c) hwf
  · rw [W1.pathSegsS_eseg]
    exact W1.coords_reresolve_loc mt' dsc' d hd (W1.locClear_of_loc hl hc)

/-! ## The reported path text re-resolves -/

open Ypv.Acc in
/-- **Every result's path sections are those of its steps.**  For a well-formed document, every real
result `(n, c)` of a query (keyword and collector segments aside) is a located node whose path
sections `c.path` are, step by step, the sections `ss` naming the steps of its address inside their
parent nodes (`LocP`, `StepSec`): `[i]` for the reported index, the escaped text of the key (or of the
digits that found an integer key), `[&a]` for a child bearing the anchor `a`. -/
theorem results_pathed {d : Node} (hd : d.WF) (segs : List ESeg) (hk : ∀ s ∈ segs, plainKind s = true)
    (n : Node) (c : Ctx) (h : Res.real (n, c) ∈ (required mt dsc rt segs (.real (d, Ctx.root))).1) :
    ∃ ss, LocP d n c ss :=
  allResLocE_required (mt := mt) (dsc := dsc) (rt := rt) hd segs hk (.real (d, Ctx.root)) LocE.root _ h

open Ypv.Acc in
/-- **path_reresolves** (dot notation: what `str(result.path)` returns).  `d` well-formed without twin
keys; `(n, c)` located with path sections `ss`, all expressible (`Sec.ok`), every anchor they name borne
by one child of its parent (`aloneAlong`).  Then the sections ARE the library's
`escape_path_section` / `[i]` / `[&a]` texts; `str()` of the accumulated `YAMLPath` object succeeds;
and its text, parsed with the separator inferred (as `YAMLPath(text)` does) and evaluated from the
document root, selects exactly `n`, once, at the address `c.addr`. -/
theorem path_reresolves {d n : Node} {c : Ctx} {ss : List Sec} (hd : d.WF) (hc : W1.docClear d = true)
    (hl : LocP d n c ss) (hok : ss.all Sec.ok = true) (hal : aloneAlong d c.addr ss = true)
    (mt' : Matcher) (dsc' : Desc) :
    c.path = ss.map Sec.text ∧
    ∃ S sg c', reported c = .ok S ∧ parse true S = .ok sg ∧
      required mt' dsc' d (sg.map ESeg.ofSeg) (.real (d, Ctx.root)) = Gen.one (.real (n, c')) ∧
      c'.addr = c.addr := by
  have hok' : ∀ x ∈ ss, x.ok = true := by simpa using hok
  obtain ⟨h1, S, h2, h3⟩ := reported_steps c ss hl.path.1 hok'
  obtain ⟨c', h4, h5⟩ := resolve_steps mt' dsc' hd hc hl hal
  refine ⟨h1, S, _, c', h2, h3, ?_, h5⟩
  rw [List.map_map, ← h4]
  congr 1
  exact List.map_congr_left (fun x _ => eseg_ofSeg x)

open Ypv.Acc in
/-- **path_reresolves, either notation**: the same for the text `str(result.path)` returns after
`result.path.separator = FSLASH` (`f = true`) or `= DOT` (`f = false`). -/
theorem path_reresolves_as (f : Bool) {d n : Node} {c : Ctx} {ss : List Sec} (hd : d.WF)
    (hc : W1.docClear d = true) (hl : LocP d n c ss) (hok : ss.all Sec.ok = true)
    (hal : aloneAlong d c.addr ss = true) (mt' : Matcher) (dsc' : Desc) :
    ∃ S sg c', reportedAs f c = .ok S ∧ parse true S = .ok sg ∧
      required mt' dsc' d (sg.map ESeg.ofSeg) (.real (d, Ctx.root)) = Gen.one (.real (n, c')) ∧
      c'.addr = c.addr := by
  have hok' : ∀ x ∈ ss, x.ok = true := by simpa using hok
  obtain ⟨S, h2, h3⟩ := reportedAs_steps f c ss hl.path.1 hok'
  obtain ⟨c', h4, h5⟩ := resolve_steps mt' dsc' hd hc hl hal
  refine ⟨S, _, c', h2, h3, ?_, h5⟩
  rw [List.map_map, ← h4]
  congr 1
  exact List.map_congr_left (fun x _ => eseg_ofSeg x)

open Ypv.Acc in
/-- **path_reresolves, a path that names the node by an anchor several children bear** ("once per place
it is aliased").  The last step is named `[&a]`; the steps before it satisfy the hypotheses of
`path_reresolves`.  Then `str(result.path)`, parsed and evaluated from the root, selects exactly the
children of the parent that bear the anchor `a`, in document order — and the result's node, at its
address, is one of them. -/
theorem path_reresolves_aliased {d n0 n : Node} {c0 : Ctx} {ss0 : List Sec} {r : Ref} {pr : PRef} {a : Str}
    (hd : d.WF) (hc : W1.docClear d = true) (hl0 : LocP d n0 c0 ss0) (hch : n0.child? r = some n)
    (hp : prefOk n0 pr r) (hs : StepSec n0 n pr (.anc a)) (hok : (ss0 ++ [Sec.anc a]).all Sec.ok = true)
    (hal : aloneAlong d c0.addr ss0 = true) (mt' : Matcher) (dsc' : Desc) :
    ∃ S sg c1 c', reported (c0.child r pr (Sec.anc a).mtext) = .ok S ∧ parse true S = .ok sg ∧
      c1.addr = c0.addr ∧
      required mt' dsc' d (sg.map ESeg.ofSeg) (.real (d, Ctx.root)) =
        Gen.ofList (((anchorKids a n0 c1).filter (fun nc => nc.1.anchor == some a)).map Res.real) ∧
      (n, c') ∈ (anchorKids a n0 c1).filter (fun nc => nc.1.anchor == some a) ∧
      c'.addr = c0.addr ++ [r] := by
  have hl : LocP d n (c0.child r pr (Sec.anc a).mtext) (ss0 ++ [.anc a]) := LocP.child r pr _ n hl0 hch hp hs
  have hok' : ∀ x ∈ ss0 ++ [Sec.anc a], x.ok = true := List.all_eq_true.mp hok
  obtain ⟨_, S, h2, h3⟩ := reported_steps _ _ hl.path.1 hok'
  obtain ⟨c1, h4, h5⟩ := resolve_steps_aliased mt' dsc' hd hc hl0 hal a
  obtain ⟨c', h6, h7⟩ := bearer_mem c1 hch hp hs
  refine ⟨S, _, c1, c', h2, h3, h4, ?_, h6, by rw [h7, h4]⟩
  rw [List.map_map, ← h5]
  congr 1
  exact List.map_congr_left (fun x _ => eseg_ofSeg x)

open Ypv.Acc in
/-- **path_reresolves for the results of a query**: `str(result.path)` as it is, and after the
separator was set to either notation. -/
theorem path_reresolves_query {d : Node} (hd : d.WF) (hc : W1.docClear d = true) (segs : List ESeg)
    (hk : ∀ s ∈ segs, plainKind s = true) (n : Node) (c : Ctx)
    (h : Res.real (n, c) ∈ (required mt dsc rt segs (.real (d, Ctx.root))).1) :
    ∃ ss : List Sec, c.path = ss.map Sec.mtext ∧ ss.length = c.addr.length ∧
      (ss.all Sec.ok = true → aloneAlong d c.addr ss = true → ∀ (mt' : Matcher) (dsc' : Desc),
        (∃ S sg c', reported c = .ok S ∧ parse true S = .ok sg ∧
          required mt' dsc' d (sg.map ESeg.ofSeg) (.real (d, Ctx.root)) = Gen.one (.real (n, c')) ∧
          c'.addr = c.addr) ∧
        ∀ f : Bool, ∃ S sg c', reportedAs f c = .ok S ∧ parse true S = .ok sg ∧
          required mt' dsc' d (sg.map ESeg.ofSeg) (.real (d, Ctx.root)) = Gen.one (.real (n, c')) ∧
          c'.addr = c.addr) := by
  obtain ⟨ss, hl⟩ := results_pathed (mt := mt) (dsc := dsc) (rt := rt) hd segs hk n c h
  exact ⟨ss, hl.path.1, hl.path.2, fun hok hal mt' dsc' =>
    ⟨(path_reresolves hd hc hl hok hal mt' dsc').2, fun f => path_reresolves_as f hd hc hl hok hal mt' dsc'⟩⟩

open Ypv.Acc in
/-- **path_reresolves with hypotheses on the reported coordinates alone.**  `Sec.ofText` reads the step
back from a section text (`ofText_mtext`), so the excluded classes are decidable predicates of the
result `(n, c)` and the document: every real result of a query on a well-formed document without twin
keys whose path sections denote expressible steps, each named anchor borne by one sibling only, reports
a path whose `str()` — as it is, and in either notation after the separator was set — parses and
evaluates, from the root, to exactly that node at its address. -/
theorem path_reresolves_result {d : Node} (hd : d.WF) (hc : W1.docClear d = true) (segs : List ESeg)
    (hk : ∀ s ∈ segs, plainKind s = true) (n : Node) (c : Ctx)
    (h : Res.real (n, c) ∈ (required mt dsc rt segs (.real (d, Ctx.root))).1)
    (hok : (c.path.map Sec.ofText).all Sec.ok = true)
    (hal : aloneAlong d c.addr (c.path.map Sec.ofText) = true) (mt' : Matcher) (dsc' : Desc) :
    (∃ S sg c', reported c = .ok S ∧ parse true S = .ok sg ∧
      required mt' dsc' d (sg.map ESeg.ofSeg) (.real (d, Ctx.root)) = Gen.one (.real (n, c')) ∧
      c'.addr = c.addr) ∧
    ∀ f : Bool, ∃ S sg c', reportedAs f c = .ok S ∧ parse true S = .ok sg ∧
      required mt' dsc' d (sg.map ESeg.ofSeg) (.real (d, Ctx.root)) = Gen.one (.real (n, c')) ∧
      c'.addr = c.addr := by
  obtain ⟨ss, h1, _, h3⟩ := path_reresolves_query (mt := mt) (dsc := dsc) (rt := rt) hd hc segs hk n c h
  have hss : c.path.map Sec.ofText = ss := by rw [h1, ofText_map]
  rw [hss] at hok hal
  exact h3 hok hal mt' dsc'

open Ypv.Acc in
/-- **`[parent()]` and the reported path — key and index sections.**  The evaluator model's
`ctxUp c 1` (what `KeywordSearches.parent` leaves) drops the last path section; the library pops it
with `YAMLPath.pop()`.  For coordinates whose sections are those of the steps `s0 :: r ++ [s]` (all
expressible) and whose LAST section is not an anchor section, `pop()` on the accumulated object
returns the last segment and leaves exactly the text of the object accumulated for `ctxUp c 1`.
For an anchor section see `pop_anchor_is_ctxUp` below (before /repo 8d0a378 it did not: `a.[&x]`
stayed `a.[&x]`, finding C02-K5). -/
theorem pop_is_ctxUp (c : Ctx) (s0 : Sec) (r : List Sec) (s : Sec)
    (hpath : c.path = (s0 :: (r ++ [s])).map Sec.mtext)
    (hok : (s0 :: (r ++ [s])).all Sec.ok = true) (hna : s.isAnc = false) :
    C08.popView (accObj c.path) = .ok (s.lseg.seg false, (accObj (ctxUp c 1).path).original) := by
  have hok' : ∀ x ∈ s0 :: (r ++ [s]), x.ok = true := List.all_eq_true.mp hok
  have hna' : ∀ a, s ≠ .anc a := by intro a h; subst h; simp [Sec.isAnc] at hna
  have hup : (ctxUp c 1).path = (s0 :: r).map Sec.mtext := by
    simp [ctxUp, hpath]
  obtain ⟨hacc, hnt, _, _⟩ := raw_steps s0 r (fun x hx => hok' x (by
    simp only [List.mem_cons, List.mem_append] at hx ⊢
    rcases hx with h | h
    · exact Or.inl h
    · exact Or.inr (Or.inl h)))
  rw [hpath, pop_section s0 r s hok' hna', hup, hacc]
  simpa [PathObj.new, PathObj.setOriginal] using hnt.symm

open Ypv.Acc in
/-- **`[parent()]` past an anchor section — the former finding C02-K5, repaired by /repo 8d0a378.**  When
the LAST section of the coordinates is an anchor section `[&a]`, `pop()` on the accumulated object
returns the anchor segment and leaves (as the text of the object) the canonical string `S` of the path
accumulated for `ctxUp c 1` — `str()` of the parent's reported path — which parses to the segments
naming the steps before.  (`path_reresolves` says what `S` resolves to.)  Before the repair the text
stayed as it was: the parent was reported under a path that still named the anchor. -/
theorem pop_anchor_is_ctxUp (c : Ctx) (s0 : Sec) (r : List Sec) (a : Str)
    (hpath : c.path = (s0 :: (r ++ [Sec.anc a])).map Sec.mtext)
    (hok : (s0 :: (r ++ [Sec.anc a])).all Sec.ok = true) :
    ∃ S, reported (ctxUp c 1) = .ok S ∧
      C08.popView (accObj c.path) = .ok ((Sec.anc a).lseg.seg false, normOriginal S) ∧
      parse true S = .ok ((s0 :: r).map Sec.seg) := by
  have hok' : ∀ x ∈ s0 :: (r ++ [Sec.anc a]), x.ok = true := List.all_eq_true.mp hok
  have hokr : ∀ x ∈ s0 :: r, x.ok = true := fun x hx => hok' x (by
    simp only [List.mem_cons, List.mem_append] at hx ⊢
    rcases hx with h | h
    · exact Or.inl h
    · exact Or.inr (Or.inl h))
  have hup : (ctxUp c 1).path = (s0 :: r).map Sec.mtext := by
    simp [ctxUp, hpath]
  have hrep := reported_render (ctxUp c 1) s0 r hup hokr
  obtain ⟨_, S, hS, hparse⟩ := reported_steps (ctxUp c 1) (s0 :: r) hup hokr
  refine ⟨S, hS, ?_, hparse⟩
  have hSe : S = render false (((s0 :: r).map Sec.lseg).map (Sim.LSeg.seg false)) := by
    rw [hS] at hrep; exact Except.ok.inj hrep
  rw [hpath, pop_section_anc s0 r a hok', hSe]

/-! ### The hypotheses of `path_reresolves` are met, and each excluded class is a real failure -/

namespace Ex
open Ypv.Acc

/-- `{"a.b [c]": [1, &x {"/k": 2}]}` -/
def inner : Node := .map (some ['x']) [(.str "/k".toList, .scalar none (.int 2))]
def lst : Node := .seq none [.scalar none (.int 1), inner]
def doc : Node := .map none [(.str "a.b [c]".toList, lst)]
def ss : List Sec := [.key "a.b [c]".toList, .anc ['x'], .key "/k".toList]
def c1 : Ctx := Ctx.root.child (.key (.str "a.b [c]".toList)) (.key (.str "a.b [c]".toList)) (Sec.key "a.b [c]".toList).mtext
def c2 : Ctx := c1.child (.idx 1) (.idx 1) (Sec.anc ['x']).mtext
def c3 : Ctx := c2.child (.key (.str "/k".toList)) (.key (.str "/k".toList)) (Sec.key "/k".toList).mtext

/-- a located result three steps deep: a key full of punctuation, an anchored element named
by its anchor, a key starting with `/` -/
theorem located : LocP doc (.scalar none (.int 2)) c3 ss :=
  LocP.child (ss := [.key "a.b [c]".toList, .anc ['x']]) _ _ (.key "/k".toList) _
    (LocP.child (ss := [.key "a.b [c]".toList]) _ _ (.anc ['x']) inner
      (LocP.child (ss := []) _ _ (.key "a.b [c]".toList) lst LocP.root (by decide +kernel) (by simp [doc, prefOk])
        (.key _ _ rfl))
      (by decide +kernel) (by simp [lst, prefOk, inRange, normIdx]) (.ancIdx _ _ rfl))
    (by decide +kernel) (by simp [inner, prefOk]) (.key _ _ rfl)

example : ss.all Sec.ok = true := by decide +kernel
example : aloneAlong doc c3.addr ss = true := by decide +kernel
example : W1.docClear doc = true := by decide +kernel
/-- what `str(result.path)` is for it, and after `separator = FSLASH` -/
example : reported c3 = .ok "a\\.b\\ \\[c\\][&x].\\/k".toList := by decide +kernel
example : reportedAs true c3 = .ok "/a\\.b\\ \\[c\\][&x]/\\/k".toList := by decide +kernel

/-- the hypotheses of `path_reresolves_result` are computed from the coordinates -/
example : c3.path.map Sec.ofText = ss := by decide +kernel
/-- … and the coordinates are those of a query result -/
example : Res.real (.scalar none (.int 2), c3) ∈
    (required (fun _ _ _ => .ok true) Desc.none doc [.key "a.b [c]".toList, .anchor ['x'], .key "/k".toList]
      (.real (doc, Ctx.root))).1 := by decide +kernel

/-- **C07-K6**: two adjacent backslashes — the library's `escape_path_section` copies the pair, the
section reads back as the key `a\b`; excluded by `Sec.ok`. -/
example : Sec.ok (.key ['a', '\\', '\\', 'b']) = false := by decide +kernel
example : escapePathSection '.' ['a', '\\', '\\', 'b'] = ['a', '\\', '\\', 'b'] := by decide +kernel
example : parse true (escapePathSection '.' ['a', '\\', '\\', 'b']) = .ok [(.key, .str ['a', '\\', 'b'])] := by
  decide +kernel
/-- … while a single backslash is escaped and reads back -/
example : parse true (escapePathSection '.' ['a', '\\', 'b']) = .ok [(.key, .str ['a', '\\', 'b'])] := by
  decide +kernel
/-- keys the notation cannot write -/
example : Sec.ok (.key []) = false := by decide +kernel
example : Sec.ok (.key ['a', '*']) = false := by decide +kernel
example : Sec.ok (.key ['&', 'a']) = false := by decide +kernel
example : parse true (escapePathSection '.' ['a', '*']) = .ok [(.search, .search false .startsWith ['.'] ['a'])] := by
  decide +kernel
/-- an anchor borne by two elements: `[&x]` denotes both (`path_reresolves_aliased`) -/
def twins : Node := .seq none [.scalar (some ['x']) (.int 1), .scalar (some ['x']) (.int 1)]
example : aloneAlong twins [.idx 1] [.anc ['x']] = false := by decide +kernel
example : ((required (fun _ _ _ => .ok true) Desc.none twins [.anchor ['x']] (.real (twins, Ctx.root))).1.map
    (fun r => match r with | .real x => x.2.addr | .virt _ => [])) = [[.idx 0], [.idx 1]] := by decide +kernel

end Ex

/-! The excluded key classes, with witnesses: twin keys (`{1: x, '1': y}`: the path `1` finds the
string key), and the keys the notation cannot write. -/
example : W1.docClear (.map none [(.int 1, .scalar none .null), (.str ['1'], .scalar none .null)]) = false := by
  decide +kernel
example : (required (fun _ _ _ => .ok true) Desc.none (.scalar none .null) [.key ['1']]
    (.real (.map none [(.int 1, .scalar none (.int 7)), (.str ['1'], .scalar none (.int 8))], Ctx.root))).1.map
      (fun r => match r with | .real x => x.2.addr | .virt _ => [])
    = [[.key (.str ['1'])]] := by decide +kernel
example : W1.docClear (.set none [.int 1, .str ['1']]) = false := by decide +kernel
example : wfSegs [((.key, .str []) : Seg)] = false := by decide +kernel
example : wfSegs [((.key, .str ['a', '*']) : Seg)] = false := by decide +kernel
example : wfSegs [((.key, .str ['&', 'a']) : Seg)] = false := by decide +kernel
/-- … and the hypotheses are met by keys full of punctuation. -/
example : wfSegs [((.key, .str "a.b [c]".toList) : Seg), (.index, .int (-1))] = true := by decide +kernel
example : W1.docClear (.map none [(.int 1, .seq none [.scalar none .null]), (.str ['a'], .set none [.int 1, .str ['2']])]) = true := by
  decide +kernel

/-- The hypotheses are met: a well-formed document and a located result at depth 2. -/
example : (Node.map none [(.str ['a'], .seq none [.scalar none (.int 1)])]).WF := by
  simp [Node.WF, WFEntries, WFList]

end Ypv.C02
