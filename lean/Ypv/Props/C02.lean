/-! C02 — property theorems (stub; no obligations yet) -/
