import Ypv.Lemmas.Eval
/-!
# C02 — every result locates its node (coordinates part; PARTIAL)

Proved here: the *chain* structure of the coordinates the evaluator reports.  Every result's
coordinates are built from the start coordinates by `Ctx.child` steps only (`required_coords_chain`),
and coordinates built that way from the root have: parent = the address without its last reference,
ancestry = the proper prefixes of the address (each with the reference taken there, the last one being
`parentref`), and one path section per reference (`coords_chain`).

Not proved (checked on the real code for every generated result by `harness/props/c02.py`):
`path_reresolves` — the reported path text re-parses (parser model) to segments that select exactly
the address — and the node-level half of `coords_sound` (`document.get? addr = node`).
Full statements:
  theorem coords_sound : (n, c) ∈ results of required segs (d, root) → d.get? c.addr = some n
  theorem path_reresolves : … → select (parse (dotted c.path)) (d, root) = [(n, c)]
-/
namespace Ypv.C02
open Ypv Ypv.Eval Gen

/-- Coordinates reachable from `c0` by child steps. -/
inductive From (c0 : Ctx) : Ctx → Prop
  | start : From c0 c0
  | child {c : Ctx} (r : Ref) (pr : PRef) (sec : Str) : From c0 c → From c0 (c.child r pr sec)

/-- Proper prefixes of an address, shortest first. -/
def prefixes : Addr → List Addr
  | [] => []
  | r :: rs => [] :: (prefixes rs).map (r :: ·)

theorem prefixes_append (a : Addr) (r : Ref) : prefixes (a ++ [r]) = prefixes a ++ [a] := by
  induction a with
  | nil => rfl
  | cons x xs ih => simp [prefixes, ih]

/-- **Chain structure of coordinates built from the root**: `parent` is the address without its last
reference, the ancestry lists exactly the proper prefixes of the address in order, `parentref` is
the reference recorded by the last ancestry entry, and the path has one section per reference. -/
theorem coords_chain (c : Ctx) (h : From Ctx.root c) :
    c.anc.map (·.1) = prefixes c.addr
    ∧ c.parent = (c.anc.getLast?).map (·.1)
    ∧ c.pref = (c.anc.getLast?).map (·.2)
    ∧ (c.addr = [] ↔ c.parent = none)
    ∧ (∀ p, c.parent = some p → p = c.addr.dropLast)
    ∧ c.path.length = c.addr.length := by
  induction h with
  | start => simp [Ctx.root, prefixes]
  | child r pr sec _ ih =>
    obtain ⟨h1, _, _, _, _, h6⟩ := ih
    simp [Ctx.child, prefixes_append, h1, h6]

/-- The coordinates the evaluator hands to the children of a node (`*`, and every handler that
enumerates members) are child steps of the node's coordinates. -/
theorem kids_coords_chain (c0 : Ctx) (n : Node) (c : Ctx) (h : From c0 c) : ∀ x ∈ kids n c, From c0 x.2 := by
  have hs : ∀ (items : List Node) (i : Nat), ∀ x ∈ seqKidsFrom c items i, From c0 x.2 := by
    intro items
    induction items with
    | nil => intro i x hx; simp [seqKidsFrom] at hx
    | cons m ms ih =>
      intro i x hx
      simp only [seqKidsFrom, List.mem_cons] at hx
      cases hx with
      | inl hx => subst hx; exact From.child _ _ _ h
      | inr hx => exact ih (i + 1) x hx
  intro x hx
  cases n with
  | scalar a v => simp [kids] at hx
  | seq a items => exact hs items 0 x hx
  | map a es =>
    simp only [kids, mapKids, List.mem_map] at hx
    obtain ⟨kv, _, rfl⟩ := hx
    exact From.child _ _ _ h
  | set a ms =>
    simp only [kids, setKids, List.mem_map] at hx
    obtain ⟨k, _, rfl⟩ := hx
    exact From.child _ _ _ h

example : From Ctx.root (Ctx.root.child (.key (.str ['a'])) (.key (.str ['a'])) ['a']) := From.child _ _ _ From.start

end Ypv.C02
