import Ypv.Lemmas.Eval
/-!
# C01 — query results equal the documented segment semantics
-/
namespace Ypv.C01
open Ypv Ypv.Eval Ypv.Spec Gen

variable (mt : Matcher) (dsc : Desc)

/-- **The evaluator computes the specification.**  For every matcher, every reading of search
attributes, every segment list and every start (a document node with any coordinates, or a virtual
slice list), `_get_required_nodes` (with its probing of following segments, its early `break`s, its
`traverse_lists` flag) yields exactly what the compositional `Spec.select` yields: the same nodes with
the same coordinates, in the same order, with the same multiplicity, followed by the same exception
(if any). -/
theorem required_eq_select : ∀ (segs : List ESeg) (r : Res),
    required mt dsc segs r = select mt dsc segs r := by
  intro segs
  induction segs with
  | nil => intro r; simp [required, select]
  | cons s rest ih =>
    intro r
    have ihf : required mt dsc rest = select mt dsc rest := funext ih
    cases r with
    | virt items => simp [required, select, stepRes, ihf]
    | real nc =>
      obtain ⟨n, c⟩ := nc
      by_cases hm : s = .matchAll
      · subst hm
        cases rest with
        | nil => simp [required, select, stepRes, stepSeg, reals]
        | cons nxt rest' =>
          simp only [required, select, stepRes, stepSeg, reals, bind_map, bind_ofList]
          rw [filterFirst_bind]
          · rw [← ihf, bindList_map]
            apply bindList_congr
            intro x
            simp [required, stepRes]
          · intro x e hx
            simp [hx]
      · by_cases ht : s = .traverse
        · subst ht
          cases rest with
          | nil => simp [required, select, stepRes, stepSeg, leaves, walk_eq]
          | cons nxt rest' =>
            simp only [required, select, stepRes, stepSeg, bind_map, walk_eq, bindList_bind]
            by_cases hr : nxt.isTraverse = true
            · obtain ⟨t, ht⟩ := preorder_head n c
              simp [hr, ht, recursionGuard]
            · simp only [hr, recursionGuard, Bool.and_false, Bool.false_eq_true, if_false]
              apply bindList_congr
              intro x
              rw [stepSeg_tl_false]
              by_cases hd : direct nxt x.1 = true
              · simp only [hd, if_true]
                rw [← ihf]
                have : required mt dsc (nxt :: rest') (Res.real x)
                    = (stepSeg mt dsc nxt rest' true x.1 x.2).bind (required mt dsc rest') := by
                  simp [required, stepRes]
                rw [this]
                exact ifAny_bind _ _ _ (fun e he => by simp [he])
              · simp [hd]
        · simp only [required, select, stepRes]
          rw [stepSeg_children mt dsc s rest n c hm ht, ihf]
          cases s <;> simp_all [select]
