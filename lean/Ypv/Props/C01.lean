/-! C01 — property theorems (stub; no obligations yet) -/
