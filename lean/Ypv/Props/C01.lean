import Ypv.Lemmas.Order
import Ypv.Lemmas.EvalKwLoc
/-!
# C01 — query results equal the documented segment semantics
-/
namespace Ypv.C01
open Ypv Ypv.Eval Ypv.Spec Gen

variable (mt : Matcher) (dsc : Desc) (rt : Node)

/-- **The evaluator computes the specification.**  For every matcher, every reading of search
attributes, every segment list and every start (a document node with any coordinates, or a virtual
slice list), `_get_required_nodes` (with its probing of following segments, its early `break`s, its
`traverse_lists` flag) yields exactly what the compositional `Spec.select` yields: the same nodes with
the same coordinates, in the same order, with the same multiplicity, followed by the same exception
(if any). -/
theorem required_eq_select : ∀ (segs : List ESeg) (r : Res),
    required mt dsc rt segs r = select mt dsc rt segs r := by
  intro segs
  induction segs with
  | nil => intro r; simp [required, select]
  | cons s rest ih =>
    intro r
    have ihf : required mt dsc rt rest = select mt dsc rt rest := funext ih
    cases r with
    | virt items => simp [required, select, stepRes, ihf]
    | real nc =>
      obtain ⟨n, c⟩ := nc
      by_cases hm : s = .matchAll
      · subst hm
        cases rest with
        | nil => simp [required, select, stepRes, stepSeg, reals]
        | cons nxt rest' =>
          simp only [required, select, stepRes, stepSeg, reals, bind_map, bind_ofList]
          rw [filterFirst_bind]
          · rw [← ihf, bindList_map]
            apply bindList_congr
            intro x
            simp [required, stepRes]
          · intro x e hx
            simp [hx]
      · by_cases ht : s = .traverse
        · subst ht
          cases rest with
          | nil => simp [required, select, stepRes, stepSeg, leaves, walk_eq]
          | cons nxt rest' =>
            simp only [required, select, stepRes, stepSeg, bind_map, walk_eq, bindList_bind]
            by_cases hr : nxt.isTraverse = true
            · obtain ⟨t, ht⟩ := preorder_head n c
              simp [hr, ht, recursionGuard]
            · simp only [hr, recursionGuard, Bool.and_false, Bool.false_eq_true, if_false]
              apply bindList_congr
              intro x
              rw [stepSeg_tl_false]
              by_cases hd : direct nxt x.1 = true
              · simp only [hd, if_true]
                rw [← ihf]
                have : required mt dsc rt (nxt :: rest') (Res.real x)
                    = (stepSeg mt dsc rt nxt rest' true x.1 x.2).bind (required mt dsc rt rest') := by
                  simp [required, stepRes]
                rw [this]
                exact ifAny_bind _ _ _ (fun e he => by simp [he])
              · simp [hd]
        · simp only [required, stepRes]
          rw [stepSeg_children mt dsc rt s rest n c hm ht, ihf]
          cases s <;> simp_all [select]

/-- **A keyword segment selects what `kwSearch` says** (`KeywordSearches.search_matches`, whose
specification is `Spec` of C13 — `Props/C13.lean`: `max_eq_spec`, `unique_eq_spec`, `parent_eq_spec`, …):
it raises what `kwSearch` raises; `[name()]` yields the node's own reference as a scalar with the
node's coordinates; otherwise the results carry exactly the addresses `kwSearch` returns, in that
order (or the step is out of model: an address that is neither the node, a child nor an ancestor
below the root). -/
theorem keyword_selects_kwSearch (inv : Bool) (k : Keyword) (p : Str) (n : Node) (c : Ctx) :
    match kwSearch n c.addr inv k p with
    | .error e => children mt dsc rt (.keyword inv k p) n c = Gen.fail e
    | .ok (.name _) => children mt dsc rt (.keyword inv k p) n c = Gen.one (.real (prefNode c.pref, c))
    | .ok (.nodes as) =>
        children mt dsc rt (.keyword inv k p) n c = Gen.fail .outOfModel
        ∨ ((children mt dsc rt (.keyword inv k p) n c).2 = none
            ∧ (children mt dsc rt (.keyword inv k p) n c).1.map W1.resAddr = as) := by
  simp only [children, kwStep]
  cases hs : kwSearch n c.addr inv k p with
  | error e => rfl
  | ok o =>
    cases o with
    | name r => rfl
    | nodes as =>
      simp only []
      cases hr : kwResolveAll rt n c as with
      | none => left; rfl
      | some l =>
        right
        refine ⟨rfl, ?_⟩
        simp only [Gen.map, Gen.ofList, List.map_map]
        have := W1.kwResolveAll_addrs hr
        simpa [Function.comp_def, W1.resAddr] using this

/-- … and at a located node of the document the nodes returned are the very nodes at those
addresses (a child of the node, the node itself, or its ancestor). -/
theorem keyword_results_at_addresses {d n : Node} {c : Ctx} (hl : Loc d n c) (inv : Bool) (k : Keyword) (p : Str)
    (as : List Addr) (hs : kwSearch n c.addr inv k p = .ok (.nodes as)) :
    ∀ r ∈ (children mt dsc d (.keyword inv k p) n c).1, ∃ x, r = .real x ∧ d.get? x.2.addr = some x.1 := by
  intro r hr
  simp only [children, kwStep, hs] at hr
  cases hra : kwResolveAll d n c as with
  | none => rw [hra] at hr; simp [Gen.fail, Gen.map] at hr
  | some l =>
    rw [hra] at hr
    simp only [Gen.map, Gen.ofList, List.mem_map] at hr
    obtain ⟨x, hx, rfl⟩ := hr
    obtain ⟨a, _, ha⟩ := W1.kwResolveAll_mem hra x hx
    exact ⟨x, rfl, W1.kwResolve_get hl ha⟩

/-- `[parent()]` after a key: the model climbs to the hash (kernel-checked instance of the larger
fragment of `required_eq_select`). -/
example : (select (fun _ _ _ => .ok true) Desc.none
      (.map none [(.str ['a'], .map none [(.str ['b'], .scalar none (.int 1))])])
      [.key ['a'], .key ['b'], .keyword false .parent ['2']]
      (.real (.map none [(.str ['a'], .map none [(.str ['b'], .scalar none (.int 1))])], Ctx.root))).1.map W1.resAddr
    = [[]] := by decide +kernel

/-- `Processor.get_nodes(path, mustexist=True)` delivers `Spec.select` of the path on the document
(nothing for a null document), and raises "unmatched" after an empty selection. -/
theorem getRequired_eq_select (segs : List ESeg) (d : Node) :
    getRequired mt dsc segs d =
      if d.evIsNull then Gen.nil else
      Gen.append (select mt dsc d segs (.real (d, Ctx.root)))
        (if (select mt dsc d segs (.real (d, Ctx.root))).1.isEmpty then Gen.fail (.ypath .unmatched) else Gen.nil) := by
  simp [getRequired, required_eq_select]

/-- `Processor.exists(path)` is true exactly when the specification selects at least one node
(and raises exactly when the selection raises). -/
theorem exists_iff_select_nonempty (segs : List ESeg) (d : Node) :
    existsQ mt dsc segs d =
      if d.evIsNull then .ok false else
      match (select mt dsc d segs (.real (d, Ctx.root))).collapse with
      | .ok l => .ok (!l.isEmpty)
      | .error e => .error e := by
  simp only [existsQ, required_eq_select]
  split <;> rfl

/-- "A path that already exists": along the evaluation no creating segment (key, index, slice,
anchor) comes up empty, and no null node is selected before the last segment.  Decidable. -/
def allExist : List ESeg → Res → Bool
  | [], _ => true
  | s :: rest, r =>
    let g := stepRes mt dsc rt s rest r
    !(g.1.isEmpty && g.2.isNone && s.creates)
      && g.1.all (fun r' => (rest.isEmpty || !r'.isNullNode) && allExist rest r')

/-- An optional-match query on a path that already exists answers like the required-match query. -/
theorem optional_eq_required_of_exists : ∀ (segs : List ESeg) (r : Res),
    allExist mt dsc rt segs r = true → Eval.optional mt dsc rt segs r = required mt dsc rt segs r := by
  intro segs
  induction segs with
  | nil => intro r _; rfl
  | cons s rest ih =>
    intro r h
    simp only [allExist, Bool.and_eq_true, List.all_eq_true, Bool.or_eq_true, Bool.not_eq_true',
      Bool.not_eq_eq_eq_not, Bool.not_true] at h
    obtain ⟨h1, h2⟩ := h
    simp only [Eval.optional, required]
    have hb : (stepRes mt dsc rt s rest r).bind
          (fun r' => if r'.isNullNode = true then Gen.one r' else Eval.optional mt dsc rt rest r')
        = (stepRes mt dsc rt s rest r).bind (required mt dsc rt rest) := by
      apply bind_congr_mem
      intro x hx
      obtain ⟨hn, ha⟩ := h2 x hx
      rw [ih x ha]
      by_cases hx0 : x.isNullNode = true
      · simp only [hx0, if_true]
        cases hn with
        | inl he =>
          cases rest with
          | nil => rfl
          | cons _ _ => simp at he
        | inr hf => simp [hx0] at hf
      · simp [hx0]
    rw [hb]
    by_cases hc : ((stepRes mt dsc rt s rest r).1.isEmpty && s.creates) = true
    · simp only [hc, if_true]
      have hne : (stepRes mt dsc rt s rest r).2 ≠ none := by
        intro hnone
        simp only [Bool.and_eq_true] at hc
        simp [hc.1, hc.2, hnone] at h1
      obtain ⟨e, he⟩ := Option.ne_none_iff_exists'.mp hne
      have hemp : (stepRes mt dsc rt s rest r).1 = [] := by
        simp only [Bool.and_eq_true, List.isEmpty_iff] at hc
        exact hc.1
      have : stepRes mt dsc rt s rest r = ([], some e) := by
        rw [← hemp, ← he]
      rw [this]
      simp
      rfl
    · simp [hc]

example : allExist (fun _ _ _ => .ok true) Desc.none (.scalar none .null) [.key ['a'], .index 0]
    (.real (.map none [(.str ['a'], .seq none [.scalar none (.int 1)])], Ctx.root)) = true := by
  decide +kernel

/-- **Document order, none twice.**  For a well-formed document and a path without `**` and without
slices, the addresses of the selected nodes form a subsequence of the document's addresses in document
order (pre-order), and no address occurs twice.  (More is proved in `ord_required`: the subtrees of the
results are pairwise disjoint.) -/
theorem select_sorted_nodup {d : Node} (hd : d.WF) (segs : List ESeg) (hs : ∀ s ∈ segs, s.ordered = true) :
    ((flatR (select mt dsc rt segs (.real (d, Ctx.root))).1).map (·.2.addr)).Sublist (addrsAll d [])
    ∧ ((flatR (select mt dsc rt segs (.real (d, Ctx.root))).1).map (·.2.addr)).Nodup := by
  rw [← required_eq_select]
  have h := ord_required (mt := mt) (dsc := dsc) (rt := rt) segs hs d Ctx.root
  have hsub := List.Sublist.trans (addrs_sublist_flatMap_sub _) h
  exact ⟨hsub, List.Nodup.sublist hsub (addrsAll_nodup d hd [])⟩

/-- `select_traverse_nodup` does NOT hold, for the specification and for the implementation alike:
after `**` a scalar is selected once as the value of a matching key of its parent and once as a
matching scalar itself.  `**[.=x]` on `{x: x}` selects the node at `x` twice (reproduced on the real
code; recorded in notes/C01.md as a reading of "`**` matches every node for which the following
segments match"). -/
example :
    (flatR (select (fun _ n t => match n with | .scalar _ (.str s) => .ok (s == t) | _ => .ok false) Desc.none
      (.scalar none .null) [.traverse, .search false .equals ['.'] ['x']]
      (.real (.map none [(.str ['x'], .scalar none (.str ['x']))], Ctx.root))).1).map (·.2.addr)
    = [[.key (.str ['x'])], [.key (.str ['x'])]] := by decide +kernel

/-! ## What the per-kind children are (sanity of the table in `Spec/Select.lean`) -/

/-- `[n]` / a bare integer key on a list is Python indexing: the element at `n` (from the end when
negative) when `-len ≤ n < len`, nothing otherwise — never an exception. -/
theorem elemAt_spec (items : List Node) (i : Int) (c : Ctx) :
    elemAt items i c =
      if h : inRange items.length i = true then
        match items[normIdx items.length i]? with
        | some x => Gen.one (x, c.child (.idx (normIdx items.length i)) (.idx i) (idxSection i))
        | none => Gen.nil
      else Gen.nil := by
  unfold elemAt
  by_cases h : inRange items.length i = true
  · obtain ⟨x, hx⟩ := pyGetItem_inRange items i h
    have := pyGetItem_spec items i x h hx
    simp [h, hx, this]
  · simp [h]

/-- A non-integer key on a list passes through to every element, in order. -/
theorem keyStep_passThrough (k : Str) (a : Option Str) (items : List Node) (c : Ctx) (hk : pyInt? k = none) :
    keyStep k true (.seq a items) c
      = Gen.bindList (fun x => keyStep k true x.1 x.2) (seqKidsFrom c items 0) := by
  have : ∀ (l : List Node) (i : Nat), keyStep.passThrough k true c l i
      = Gen.bindList (fun x => keyStep k true x.1 x.2) (seqKidsFrom c l i) := by
    intro l
    induction l with
    | nil => intro i; rfl
    | cons n ns ih => intro i; simp [keyStep.passThrough, seqKidsFrom, ih]
  simp [keyStep, hk, this]

/-- The positions a list slice selects are those of Python's `data[lo:hi]`: consecutive, starting at the
clamped `lo`, ending before the clamped `hi`. -/
theorem sliceIndices_spec (len : Nat) (lo hi : Int) :
    sliceIndices len lo hi = (List.range (sliceStart len hi - sliceStart len lo)).map (· + sliceStart len lo)
    ∧ sliceStart len lo ≤ len ∧ sliceStart len hi ≤ len :=
  ⟨rfl, sliceStart_le len lo, sliceStart_le len hi⟩

example : sliceIndices 3 0 (-1) = [0, 1] := by decide +kernel
example : sliceIndices 2 1 9 = [1] := by decide +kernel
example : sliceIndices 4 (-3) (-1) = [1, 2] := by decide +kernel
