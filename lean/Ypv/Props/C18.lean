import Ypv.Model.MultiDoc
/-!
# C18 — multi-document merges combine documents as the selected mode defines

All theorems are about `Ypv.MultiDoc` (the model of `merge_condense_all`, `merge_across`,
`merge_matrix`, `merge_docs` in `yamlpath/commands/yaml_merge.py`) for an **arbitrary** pairwise
merge `m`, an arbitrary classification `cls` of its failures, and streams of arbitrary length.
-/
namespace Ypv.C18
open Ypv Ypv.MultiDoc

variable {ε : Type} (m : Node → Node → Except ε Node) (cls : ε → Cls)

/-- The left fold of the pairwise merge over a list of documents, failing at the first failure. -/
def foldMerge (p : Node) : List Node → Except ε Node
  | [] => .ok p
  | d :: ds => match m p d with
    | .ok q => foldMerge q ds
    | .error e => .error e

theorem foldMerge_append (p : Node) (xs ys : List Node) :
    foldMerge m p (xs ++ ys) = (match foldMerge m p xs with
      | .ok q => foldMerge m q ys
      | .error e => .error e) := by
  induction xs generalizing p with
  | nil => simp [foldMerge]
  | cons x xs ih =>
    simp only [List.cons_append, foldMerge]
    cases m p x with
    | ok q => simpa using ih q
    | error e => rfl

theorem condenseLoop_fold (base : Nat) (ds : List Node) (p d : Node) (st : Nat)
    (h : foldMerge m p ds = .ok d) : condenseLoop m cls base ds (p, st) = .ok (d, st) := by
  induction ds generalizing p with
  | nil => simp only [foldMerge] at h; cases h; rfl
  | cons x xs ih =>
    simp only [foldMerge] at h
    unfold condenseLoop
    cases hm : m p x with
    | ok q => rw [hm] at h; simpa using ih q h
    | error e => rw [hm] at h; cases h

/-- **condense_is_fold.**  CONDENSE_ALL yields exactly one document: when every pairwise merge
is defined, it is the left fold of every later document of the left-hand stream and then every
document of the right-hand stream, in order, into the first document — and the state is 0. -/
theorem condense_is_fold (l0 : Node) (ls rs : List Node) (d : Node)
    (h : foldMerge m l0 (ls ++ rs) = .ok d) :
    condenseAll m cls (l0 :: ls) rs = some (.ok ⟨[d], 0⟩) := by
  rw [foldMerge_append] at h
  cases h1 : foldMerge m l0 ls with
  | error e => rw [h1] at h; cases h
  | ok q =>
    rw [h1] at h
    simp only [condenseAll, condenseLoop_fold m cls 10 ls l0 q 0 h1,
      condenseLoop_fold m cls 12 rs q d 0 h]

/-- The loop state only ever is the initial one or one of the two codes of its phase. -/
theorem condenseLoop_state (base : Nat) (ds : List Node) (p : Node) (st : Nat) (q : Node) (st' : Nat)
    (h : condenseLoop m cls base ds (p, st) = .ok (q, st')) :
    st' = st ∨ st' = base + 1 ∨ st' = base + 2 := by
  induction ds generalizing p st with
  | nil => simp only [condenseLoop] at h; cases h; exact .inl rfl
  | cons x xs ih =>
    unfold condenseLoop at h
    cases hm : m p x with
    | ok p' => rw [hm] at h; exact ih p' st h
    | error e =>
      rw [hm] at h
      simp only [code] at h
      cases hc : cls e with
      | merge => rw [hc] at h; rcases ih p _ h with h' | h' | h' <;> simp [h']
      | ypath => rw [hc] at h; rcases ih p _ h with h' | h' | h' <;> simp [h']
      | other => rw [hc] at h; cases h

/-- CONDENSE_ALL always leaves exactly one document, whatever fails. -/
theorem condense_count (lhs rs : List Node) (o : Out)
    (h : condenseAll m cls lhs rs = some (.ok o)) : o.docs.length = 1 := by
  cases lhs with
  | nil => simp [condenseAll] at h
  | cons l0 ls =>
    simp only [condenseAll, Option.some.injEq] at h
    split at h
    · cases h
    · split at h
      · cases h
      · cases h; rfl

/-- A failure is reported for a left-hand position only if that pairwise merge fails. -/
theorem across_is_zip (ls rs : List Node) (o : Out) (h : across m cls ls rs = .ok o)
    (h0 : o.state = 0) :
    o.docs.length = max ls.length rs.length ∧
    (∀ (i : Nat) l r, ls[i]? = some l → rs[i]? = some r → ∃ d, m l r = .ok d ∧ o.docs[i]? = some d) ∧
    (∀ i : Nat, rs.length ≤ i → o.docs[i]? = ls[i]?) ∧
    (∀ i : Nat, ls.length ≤ i → o.docs[i]? = rs[i]?) := by
  induction ls generalizing rs o with
  | nil =>
    cases rs with
    | nil => simp only [across] at h; cases h; simp
    | cons r rs => simp only [across] at h; cases h; simp
  | cons l ls ih =>
    cases rs with
    | nil => simp only [across] at h; cases h; simp
    | cons r rs =>
      simp only [across] at h
      cases hm : m l r with
      | error e =>
        rw [hm] at h
        simp only [code] at h
        cases hc : cls e <;> rw [hc] at h <;> simp at h
        all_goals (cases h; simp at h0)
      | ok d =>
        rw [hm] at h
        cases hr : across m cls ls rs with
        | error e => rw [hr] at h; cases h
        | ok o' =>
          rw [hr] at h
          cases h
          obtain ⟨ih1, ih2, ih3, ih4⟩ := ih rs o' hr h0
          refine ⟨by simp [ih1], ?_, ?_, ?_⟩
          · intro i l' r' hl hr'
            cases i with
            | zero => simp at hl hr'; subst hl; subst hr'; exact ⟨d, hm, by simp⟩
            | succ i => simpa using ih2 i l' r' (by simpa using hl) (by simpa using hr')
          · intro i hi
            cases i with
            | zero => simp at hi
            | succ i => simpa using ih3 i (by simpa using hi)
          · intro i hi
            cases i with
            | zero => simp at hi
            | succ i => simpa using ih4 i (by simpa using hi)

/-- MERGE_ACROSS with status 0 leaves `max |L| |R|` documents. -/
theorem across_count (ls rs : List Node) (o : Out) (h : across m cls ls rs = .ok o)
    (h0 : o.state = 0) : o.docs.length = max ls.length rs.length :=
  (across_is_zip m cls ls rs o h h0).1

/-- The states MERGE_ACROSS can end in. -/
theorem across_state (ls rs : List Node) (o : Out) (h : across m cls ls rs = .ok o) :
    o.state = 0 ∨ o.state = 31 ∨ o.state = 32 := by
  induction ls generalizing rs o with
  | nil => cases rs <;> (simp only [across] at h; cases h; simp)
  | cons l ls ih =>
    cases rs with
    | nil => simp only [across] at h; cases h; simp
    | cons r rs =>
      simp only [across] at h
      cases hm : m l r with
      | error e =>
        rw [hm] at h
        simp only [code] at h
        cases hc : cls e <;> rw [hc] at h <;> simp at h
        all_goals (cases h; simp)
      | ok d =>
        rw [hm] at h
        cases hr : across m cls ls rs with
        | error e => rw [hr] at h; cases h
        | ok o' => rw [hr] at h; cases h; exact ih rs o' hr

/-- One row of MATRIX_MERGE is the left fold of the whole right-hand stream into the left-hand
document when every step is defined. -/
theorem matrixRow_fold (rs : List Node) (l d : Node) (h : foldMerge m l rs = .ok d) :
    matrixRow m cls rs l = .ok (d, none) := by
  induction rs generalizing l with
  | nil => simp only [foldMerge] at h; cases h; rfl
  | cons r rs ih =>
    simp only [foldMerge] at h
    unfold matrixRow
    cases hm : m l r with
    | ok q => rw [hm] at h; simpa using ih q h
    | error e => rw [hm] at h; cases h

/-- **matrix_is_product.**  MATRIX_MERGE keeps the number and order of the left-hand documents,
and the `i`-th result is the row of the `i`-th left-hand document: every right-hand document, in
order, merged into it (`matrixRow`; by `matrixRow_fold` the full left fold when all steps are
defined) — independently of the other left-hand documents. -/
theorem matrix_is_product (rs ls : List Node) (st : Nat) (o : Out)
    (h : matrix m cls rs ls st = .ok o) :
    o.docs.length = ls.length ∧
    ∀ (i : Nat) l, ls[i]? = some l → ∃ d c, matrixRow m cls rs l = .ok (d, c) ∧ o.docs[i]? = some d := by
  induction ls generalizing st o with
  | nil => simp only [matrix] at h; cases h; simp
  | cons l ls ih =>
    simp only [matrix] at h
    cases hrow : matrixRow m cls rs l with
    | error e => rw [hrow] at h; cases h
    | ok dc =>
      obtain ⟨d, c⟩ := dc
      rw [hrow] at h
      simp only at h
      cases hr : matrix m cls rs ls (c.getD st) with
      | error e => rw [hr] at h; cases h
      | ok o' =>
        rw [hr] at h
        cases h
        obtain ⟨ih1, ih2⟩ := ih _ o' hr
        refine ⟨by simp [ih1], ?_⟩
        intro i l' hl
        cases i with
        | zero => simp at hl; subst hl; exact ⟨d, c, hrow, by simp⟩
        | succ i => simpa using ih2 i l' (by simpa using hl)

/-- When every step of every row is defined the state stays what it was (0 from `merge_docs`). -/
theorem matrix_all_ok (rs ls : List Node) (st : Nat)
    (hall : ∀ l ∈ ls, ∃ d, foldMerge m l rs = .ok d) :
    ∃ ds, matrix m cls rs ls st = .ok ⟨ds, st⟩ ∧ ds.length = ls.length := by
  induction ls with
  | nil => exact ⟨[], rfl, rfl⟩
  | cons l ls ih =>
    obtain ⟨d, hd⟩ := hall l (by simp)
    obtain ⟨ds, hds, hlen⟩ := ih (fun l' hl' => hall l' (by simp [hl']))
    refine ⟨d :: ds, ?_, by simp [hlen]⟩
    simp only [matrix, matrixRow_fold m cls rs l d hd, Option.getD_none, hds]

theorem matrixRow_code (rs : List Node) (l d : Node) (c : Nat)
    (h : matrixRow m cls rs l = .ok (d, some c)) : c = 41 ∨ c = 42 := by
  induction rs generalizing l with
  | nil => simp [matrixRow] at h
  | cons r rs ih =>
    unfold matrixRow at h
    cases hm : m l r with
    | ok q => rw [hm] at h; exact ih q h
    | error e =>
      rw [hm] at h
      simp only [code] at h
      cases hc : cls e <;> rw [hc] at h <;> simp at h
      all_goals omega

/-- The states MATRIX_MERGE can end in. -/
theorem matrix_state (rs ls : List Node) (st : Nat) (o : Out)
    (h : matrix m cls rs ls st = .ok o) : o.state = st ∨ o.state = 41 ∨ o.state = 42 := by
  induction ls generalizing st o with
  | nil => simp only [matrix] at h; cases h; simp
  | cons l ls ih =>
    simp only [matrix] at h
    cases hrow : matrixRow m cls rs l with
    | error e => rw [hrow] at h; cases h
    | ok dc =>
      obtain ⟨d, c⟩ := dc
      rw [hrow] at h
      simp only at h
      cases hr : matrix m cls rs ls (c.getD st) with
      | error e => rw [hr] at h; cases h
      | ok o' =>
        rw [hr] at h
        cases h
        have := ih _ o' hr
        cases c with
        | none => simpa using this
        | some c =>
          rcases matrixRow_code m cls rs l d c hrow with hc | hc <;> subst hc <;>
            simp only [Option.getD_some] at this <;> rcases this with h' | h' | h' <;> simp [h']

/-- **output_count.**  With status 0 the number of documents `merge_docs` leaves is determined by
the mode and the two stream lengths alone: 1, `max |L| |R|`, `|L|`. -/
theorem output_count (mode : Mode) (lhs rs : List Node) (o : Out)
    (h : mergeDocs m cls mode lhs (some rs) = some (.ok o)) (h0 : o.state = 0) :
    o.docs.length = (match mode with
      | .condenseAll => 1
      | .mergeAcross => max lhs.length rs.length
      | .matrixMerge => lhs.length) := by
  cases mode with
  | condenseAll => exact condense_count m cls lhs rs o (by simpa [mergeDocs] using h)
  | mergeAcross =>
    have h' : across m cls lhs rs = .ok o := by simpa [mergeDocs] using h
    exact across_count m cls lhs rs o h' h0
  | matrixMerge =>
    have h' : matrix m cls rs lhs 0 = .ok o := by simpa [mergeDocs] using h
    exact (matrix_is_product m cls rs lhs 0 o h').1

/-- **exit_codes.**  The state `merge_docs` returns: 3 for an unreadable right-hand file, otherwise 0
or the code of a caught failure of the mode's own range (11–14 / 31–32 / 41–42). -/
theorem exit_codes (mode : Mode) (lhs : List Node) (rhs : Option (List Node)) (o : Out)
    (h : mergeDocs m cls mode lhs rhs = some (.ok o)) :
    (rhs = none ∧ o.state = 3) ∨
    (rhs ≠ none ∧ (o.state = 0 ∨ (match mode with
      | .condenseAll => o.state = 11 ∨ o.state = 12 ∨ o.state = 13 ∨ o.state = 14
      | .mergeAcross => o.state = 31 ∨ o.state = 32
      | .matrixMerge => o.state = 41 ∨ o.state = 42))) := by
  cases rhs with
  | none => simp only [mergeDocs, Option.some.injEq, Except.ok.injEq] at h; subst h; exact .inl ⟨rfl, rfl⟩
  | some rs =>
    refine .inr ⟨by simp, ?_⟩
    cases mode with
    | mergeAcross =>
      have h' : across m cls lhs rs = .ok o := by simpa [mergeDocs] using h
      rcases across_state m cls lhs rs o h' with h1 | h1 | h1 <;> simp [h1]
    | matrixMerge =>
      have h' : matrix m cls rs lhs 0 = .ok o := by simpa [mergeDocs] using h
      rcases matrix_state m cls rs lhs 0 o h' with h1 | h1 | h1 <;> simp [h1]
    | condenseAll =>
      cases lhs with
      | nil => simp [mergeDocs, condenseAll] at h
      | cons l0 ls =>
        simp only [mergeDocs, condenseAll, Option.some.injEq] at h
        cases h1 : condenseLoop m cls 10 ls (l0, 0) with
        | error e => rw [h1] at h; cases h
        | ok acc1 =>
          obtain ⟨p1, s1⟩ := acc1
          rw [h1] at h
          simp only at h
          cases h2 : condenseLoop m cls 12 rs (p1, s1) with
          | error e => rw [h2] at h; cases h
          | ok acc2 =>
            obtain ⟨p2, s2⟩ := acc2
            rw [h2] at h
            cases h
            have a1 := condenseLoop_state m cls 10 ls l0 0 p1 s1 h1
            have a2 := condenseLoop_state m cls 12 rs p1 s1 p2 s2 h2
            simp only at a1 a2 ⊢
            omega

/-! ## The hypotheses are met by concrete, non-trivial values -/

/-- A toy pairwise merge: concatenation of sequences, failure on anything else. -/
def catMerge : Node → Node → Except Unit Node
  | .seq a xs, .seq _ ys => .ok (.seq a (xs ++ ys))
  | _, _ => .error ()

def sq (n : Nat) : Node := .seq none [.scalar none (.int n)]

example : condenseAll catMerge (fun _ => .merge) [sq 1, sq 2] [sq 3, sq 4]
    = some (.ok ⟨[.seq none [.scalar none (.int 1), .scalar none (.int 2), .scalar none (.int 3),
        .scalar none (.int 4)]], 0⟩) := by decide +kernel

example : across catMerge (fun _ => .merge) [sq 1] [sq 2, sq 3]
    = .ok ⟨[.seq none [.scalar none (.int 1), .scalar none (.int 2)], sq 3], 0⟩ := by decide +kernel

example : (matrix catMerge (fun _ => .merge) [sq 8, sq 9] [sq 1, sq 2] 0).map (·.docs.length) = .ok 2 := by
  decide +kernel

example : across catMerge (fun _ => .merge) [sq 1, .scalar none .null] [sq 2, sq 3]
    = .ok ⟨[.seq none [.scalar none (.int 1), .scalar none (.int 2)], .scalar none .null], 31⟩ := by
  decide +kernel

end Ypv.C18
