/-! C18 — property theorems (stub; no obligations yet) -/
