import Ypv.Lemmas.EditCreate
import Ypv.Lemmas.Collector
/-!
# C09 — queries never modify the document; creation adds exactly the missing path

Purity of reads is checked DIRECTLY on the real code by the harness (deep snapshots around
`exists()` / `get_nodes()`); in this functional model a query has no document to return, so there
is nothing to prove about it.  The theorems below are about the creation block of
`_get_optional_nodes` (`Ypv.createPath` / `createHere` / `fill` / `buildNext` in `Model/Edit.lean`):
`create_exact` lifts the block through the existing prefix of the path to a graft at the deepest
existing node (`Node.graftAt`, `Follows`, `CreateOutcome` in `Spec/Edit.lean`), `create_resolves`,
`create_frame` and `create_seq_growth` / `create_map_growth` say what the graft is and leaves alone.
-/
namespace Ypv.C09
open Ypv

/-- **create_seq_growth.** Creating index `i ≥ len` in a sequence appends exactly
`i + 1 - len` elements: the padding defaults and, last, the filled spine; the sequence grows to
exactly `i + 1`; every element that existed keeps its position and content. -/
theorem create_seq_growth (a : Option Str) (items : List Node) (seg : PSeg) (rest : List PSeg)
    (leaf : Scalar) (i : Int) (c : Node)
    (hi : intOfSeg seg = some i) (h0 : 0 ≤ i) (hlen : items.length ≤ i.toNat) (hf : fill rest leaf = .ok c) :
    ∃ items', createHere (.seq a items) seg rest leaf = .ok (.seq a items')
      ∧ items'.length = i.toNat + 1
      ∧ (∀ j, j < items.length → items'[j]? = items[j]?)
      ∧ items'[i.toNat]? = some c := by
  refine ⟨items ++ List.replicate (i.toNat - items.length) (buildNext rest leaf) ++ [c], ?_, ?_, ?_, ?_⟩
  · have : ¬ i < 0 := by omega
    simp [createHere, hi, this, hf]
  · simp; omega
  · intro j hj
    rw [List.append_assoc, List.getElem?_append_left hj]
  · rw [List.getElem?_append_right (by simp; omega)]
    have : i.toNat - (items ++ List.replicate (i.toNat - items.length) (buildNext rest leaf)).length = 0 := by
      simp; omega
    rw [this]; rfl

/-- **create_map_growth.** Creating a missing key appends exactly one entry, keyed by
the segment text, holding the filled spine; every entry that existed is unchanged, in order. -/
theorem create_map_growth (a : Option Str) (es : List (Key × Node)) (s : Str) (rest : List PSeg)
    (leaf : Scalar) (c : Node) (hf : fill rest leaf = .ok c) :
    createHere (.map a es) (.key s) rest leaf = .ok (.map a (es ++ [(.str s, c)])) := by
  simp [createHere, hf]

/-- The filled spine resolves to the leaf: following `fillAddr rest` in `fill rest leaf` reaches
exactly the scalar `leaf` (the path now selects a node holding the value). -/
theorem fill_resolves : ∀ (rest : List PSeg) (leaf : Scalar) (c : Node), fill rest leaf = .ok c →
    c.get? (fillAddr rest) = some (.scalar none leaf)
  | [], leaf, c, h => by
    simp [fill] at h; subst h; simp [fillAddr, Node.get?]
  | .key s :: rest, leaf, c, h => by
    simp only [fill] at h
    cases hf : fill rest leaf with
    | error e => simp [hf, Except.map] at h
    | ok c' =>
      simp [hf, Except.map] at h; subst h
      have ih := fill_resolves rest leaf c' hf
      simp [fillAddr, Node.get?, Node.child?, List.lookup, ih]
  | .index i :: rest, leaf, c, h => by
    simp only [fill] at h
    by_cases hneg : i < 0
    · simp [hneg] at h
    · cases hf : fill rest leaf with
      | error e => simp [hneg, hf, Except.map] at h
      | ok c' =>
        simp [hneg, hf, Except.map] at h; subst h
        have ih := fill_resolves rest leaf c' hf
        simp [fillAddr, Node.get?, Node.child?, ih]

/-- A path that exists completely creates nothing: with no segments left the node is returned as is. -/
theorem create_nothing_when_present (leaf : Scalar) (n : Node) :
    n.createPath leaf [] = .ok ⟨n, []⟩ := by
  cases n <;> simp [Node.createPath]

/-- **create_exact.**  For every document and every straight-line key/index path, a successful
`_get_optional_nodes` did exactly one of three things (`CreateOutcome`):
* `present` — every segment resolved (`Follows`): the document is unchanged and the node at the end
  of the path is handed out;
* `nullRelay` — a `null` met on the way is handed out, the document is unchanged (finding C09-F2);
* `created` — the prefix `pre` resolves to the node `n` at address `q`, the next segment `seg` is missing
  in `n`, and the new document is the original with EXACTLY the node at `q` replaced by
  `createHere n seg rest` (`d.graftAt (fun _ => n') q`); the address handed out is
  `q ++ createdRef n seg :: fillAddr rest`. -/
theorem create_exact (leaf : Scalar) (d : Node) (segs : List PSeg) (r : Created)
    (h : d.createPath leaf segs = .ok r) : CreateOutcome leaf d segs r :=
  createPath_outcome leaf segs d r h

/-- **create_resolves.**  In the `created` outcome the path that did not exist before
(`q ++ [createdRef n seg]` led nowhere) now selects the node holding exactly the supplied value. -/
theorem create_resolves {leaf : Scalar} {d : Node} {pre : List PSeg} {seg : PSeg} {rest : List PSeg}
    {q : Addr} {n n' : Node} (hf : Follows d pre q n) (hl : lookSeg n seg = .missing)
    (hc : createHere n seg rest leaf = .ok n') :
    (d.graftAt (fun _ => n') q).get? (q ++ createdRef n seg :: fillAddr rest) = some (.scalar none leaf)
    ∧ ∀ z, d.get? (q ++ createdRef n seg :: z) = none := by
  obtain ⟨_, _, hfree, sp, hsp, hnew⟩ := createHere_spec hl hc
  constructor
  · rw [hf.get?_graftAt, get?_cons, hnew]
    exact fill_resolves rest leaf sp hsp
  · intro z
    rw [get?_append q d n _ hf.get?, get?_cons, hfree]

/-- **create_frame.**  In the `created` outcome every address that led to a node before and does not
lie on the way from the root to the grafted node `q` (the spine, whose nodes necessarily contain the
new content) leads to the SAME node afterwards: siblings, cousins, and everything that already
existed below `q` (earlier elements of a padded sequence, the other entries of a mapping). -/
theorem create_frame {leaf : Scalar} {d : Node} {pre : List PSeg} {seg : PSeg} {rest : List PSeg}
    {q : Addr} {n n' : Node} (hf : Follows d pre q n) (hl : lookSeg n seg = .missing)
    (hc : createHere n seg rest leaf = .ok n') (y : Addr) (m : Node) (hy : ¬ y <+: q)
    (hg : d.get? y = some m) : (d.graftAt (fun _ => n') q).get? y = some m := by
  by_cases hq : q <+: y
  · obtain ⟨z, rfl⟩ := hq
    have hz : z ≠ [] := by intro e; subst e; simp at hy
    rw [hf.get?_graftAt]
    rw [get?_append q d n z hf.get?] at hg
    exact createHere_get? hl hc z hz m hg
  · rw [get?_graftAt_frame _ q d y hy hq]; exact hg

/-- The spine keeps its anchors: the grafted node carries the anchor of the node it replaces. -/
theorem create_keeps_anchor {leaf : Scalar} {n n' : Node} {seg : PSeg} {rest : List PSeg}
    (hl : lookSeg n seg = .missing) (hc : createHere n seg rest leaf = .ok n') : n'.anchor = n.anchor :=
  (createHere_spec hl hc).1

/-- **create_exact_summary.**  All of it in one statement about `_get_optional_nodes`: either nothing
changed and the address handed out existed already; or there is an address `q` (the deepest existing
node) such that the path handed out lies below `q`, did not exist before, now selects the node
holding exactly the value, and every pre-existing address not on the way to `q` keeps its node. -/
theorem create_exact_summary (leaf : Scalar) (d : Node) (segs : List PSeg) (r : Created)
    (h : d.createPath leaf segs = .ok r) :
    (r.doc = d ∧ ∃ n, d.get? r.addr = some n)
    ∨ ∃ q, q <+: r.addr ∧ (d.get? q).isSome ∧ d.get? r.addr = none
        ∧ r.doc.get? r.addr = some (.scalar none leaf)
        ∧ ∀ y m, ¬ y <+: q → d.get? y = some m → r.doc.get? y = some m := by
  cases create_exact leaf d segs r h with
  | present n hf hd => exact Or.inl ⟨hd, n, hf.get?⟩
  | nullRelay pre seg rest q n ref _ hf _ hch hd ha =>
    refine Or.inl ⟨hd, .scalar none .null, ?_⟩
    rw [ha, get?_append q d n _ hf.get?, get?_cons, hch]; rfl
  | created pre seg rest q n n' _ hf hl hc hd ha =>
    right
    obtain ⟨h1, h2⟩ := create_resolves hf hl hc
    refine ⟨q, ⟨_, ha.symm⟩, by simp [hf.get?], by rw [ha]; exact h2 _, by rw [ha, hd]; exact h1, ?_⟩
    intro y m hy hg
    rw [hd]; exact create_frame hf hl hc y m hy hg

/-! ### Concrete witnesses -/

/-- `l: [1]`, create `l[2].k[1] = x`: padded with the defaults of the following segment -/
example : setOrCreate (.map none [(.str ['l'], .seq none [.scalar none (.int 1)])])
      [.key ['l'], .index 2, .key ['k'], .index 1] (.str ['x']) .default
    = .ok (.map none [(.str ['l'], .seq none [.scalar none (.int 1), .map none [],
        .map none [(.str ['k'], .seq none [.scalar none (.str ['x']), .scalar none (.str ['x'])])]])]) := by
  decide +kernel
/-- known finding C09-F2: a null on the way is relayed and overwritten; the tail is not created -/
example : setOrCreate (.map none [(.str ['a'], .scalar none .null)]) [.key ['a'], .key ['b'], .key ['c']] (.int 5) .default
    = .ok (.map none [(.str ['a'], .scalar none (.int 5))]) := by
  decide +kernel

/-- the hypotheses of `create_resolves` / `create_frame` on a concrete document: `l: [1]`, `m: 7`,
create `l[2].k`: the prefix `l` exists, index 2 is missing in `[1]`, the sequence is padded with one
default (`{}`) and the spine `{k: x}`; `m` and `l[0]` keep their nodes. -/
def docL : Node := .map none [(.str ['l'], .seq none [.scalar none (.int 1)]), (.str ['m'], .scalar none (.int 7))]
def seqL' : Node := .seq none [.scalar none (.int 1), .map none [], .map none [(.str ['k'], .scalar none (.str ['x']))]]
example : Follows docL [.key ['l']] [.key (.str ['l'])] (.seq none [.scalar none (.int 1)]) :=
  Follows.step (c := .seq none [.scalar none (.int 1)]) rfl rfl (by decide) (Follows.here _)
example : lookSeg (.seq none [.scalar none (.int 1)]) (.index 2) = .missing := rfl
example : createHere (.seq none [.scalar none (.int 1)]) (.index 2) [.key ['k']] (.str ['x']) = .ok seqL' := by
  decide +kernel
example : (docL.createPath (.str ['x']) [.key ['l'], .index 2, .key ['k']]).map (·.doc)
    = .ok (docL.graftAt (fun _ => seqL') [.key (.str ['l'])]) := by decide +kernel
example : (docL.graftAt (fun _ => seqL') [.key (.str ['l'])]).get? [.key (.str ['m'])] = docL.get? [.key (.str ['m'])] := by
  decide +kernel


/-! ## Purity of reads (wave w3): the evaluator with the document as explicit state

`W3.requiredM mt dsc fuel segs r st : Gen CRes × St` (`Model/Collector.lean`) is `_get_required_nodes`
with collectors; the state holds the document, the log of the `del node[key]` executed, and the flag
`hashSub` = "a subtraction collector met a hash among the results of its left operand".  That flag IS
the decidable input class of the known finding **C09-F1** (it is computed by the evaluation itself,
independently of whether anything was deleted): outside it every read is pure.
FULL STATEMENT (false for the pinned code, C09-F1): `(requiredM … st).2.doc = st.doc` for every path.
No hypothesis on the matcher, the attribute evaluation, the fuel, the start node or the segments. -/
section Purity
open Ypv.W3
variable (mt : Matcher) (dsc : Node → Desc)

/-- **C09 (required-match evaluation).**  Unless a subtraction collector met a hash on its left
(class of C09-F1), `_get_required_nodes` leaves the document exactly as it was and deletes nothing. -/
theorem required_pure (fuel : Nat) (segs : List ESeg) (r : CRes) (st : St)
    (h : (requiredM mt dsc fuel segs r st).2.hashSub = false) :
    (requiredM mt dsc fuel segs r st).2.doc = st.doc ∧ (requiredM mt dsc fuel segs r st).2.dels = st.dels :=
  (requiredM_pres fuel segs r st).2 h

/-- The flag only rises: once a subtraction met a hash the evaluation stays in the class. -/
theorem required_flag_monotone (fuel : Nat) (segs : List ESeg) (r : CRes) (st : St) (h : st.hashSub = true) :
    (requiredM mt dsc fuel segs r st).2.hashSub = true :=
  (requiredM_pres fuel segs r st).1 h

/-- **C09, `get_nodes(path, mustexist=True)`.** -/
theorem getRequired_pure (fuel : Nat) (segs : List ESeg) (d : Node)
    (h : (getRequiredM mt dsc fuel segs d).2.hashSub = false) : (getRequiredM mt dsc fuel segs d).2.doc = d := by
  unfold getRequiredM at h ⊢
  by_cases hn : d.evIsNull = true
  · rw [if_pos hn]; rfl
  · rw [if_neg hn] at h ⊢
    have hp := required_pure mt dsc fuel segs (.real d Ctx.root) (St.init d)
    rcases hq : requiredM mt dsc fuel segs (.real d Ctx.root) (St.init d) with ⟨g, st'⟩
    rw [hq] at h hp
    exact (hp h).1

/-- **C09, `exists(path)`.** -/
theorem exists_pure (fuel : Nat) (segs : List ESeg) (d : Node)
    (h : (existsM mt dsc fuel segs d).2.hashSub = false) : (existsM mt dsc fuel segs d).2.doc = d := by
  unfold existsM at h ⊢
  by_cases hn : d.evIsNull = true
  · rw [if_pos hn]; rfl
  · rw [if_neg hn] at h ⊢
    have hp := required_pure mt dsc fuel segs (.real d Ctx.root) (St.init d)
    rcases hq : requiredM mt dsc fuel segs (.real d Ctx.root) (St.init d) with ⟨g, st'⟩
    rw [hq] at h hp
    exact (hp h).1

/-- **C09, the query from the path text** (parsed by the parser model, nested collector texts too). -/
theorem query_pure (text : Str) (d : Node) (h : (queryM mt dsc text d).2.hashSub = false) :
    (queryM mt dsc text d).2.doc = d := by
  unfold queryM at h ⊢
  by_cases hn : d.evIsNull = true
  · rw [if_pos hn]; rfl
  · rw [if_neg hn] at h ⊢
    cases hs : segsOf text with
    | error e => rfl
    | ok segs =>
      rw [hs] at h
      exact getRequired_pure mt dsc _ _ d h

end Purity

/-- Witness of C09-F1 (kernel-checked): `(a)-(a.x)` over `a: {x: 1, y: 2}` is in the class, and the read
leaves `a: {y: 2}`; the hypothesis of `query_pure` is met by `(a)+(a.x)` and by `(a.x)-(a)` (the left
operand selects a scalar) on the same document. -/
def f1Doc : Node := .map none [(.str ['a'], .map none [(.str ['x'], .scalar none (.int 1)), (.str ['y'], .scalar none (.int 2))])]
def f1Mt : Matcher := fun _ _ _ => .ok true
example : (W3.queryM f1Mt (fun _ => Desc.none) "(a)-(a.x)".toList f1Doc).2.hashSub = true := by decide +kernel
example : (W3.queryM f1Mt (fun _ => Desc.none) "(a)-(a.x)".toList f1Doc).2.doc
    = .map none [(.str ['a'], .map none [(.str ['y'], .scalar none (.int 2))])] := by decide +kernel
example : (W3.queryM f1Mt (fun _ => Desc.none) "(a)-(a.x)".toList f1Doc).2.dels = [([.key (.str ['a'])], .str ['x'])] := by
  decide +kernel
example : (W3.queryM f1Mt (fun _ => Desc.none) "(a)+(a.x)".toList f1Doc).2.hashSub = false := by decide +kernel
example : (W3.queryM f1Mt (fun _ => Desc.none) "(a.x)-(a)".toList f1Doc).2.hashSub = false := by decide +kernel

end Ypv.C09
