import Ypv.Spec.Edit
/-!
# C09 — queries never modify the document; creation adds exactly the missing path

Purity of reads is checked DIRECTLY on the real code by the harness (deep snapshots around
`exists()` / `get_nodes()`); in this functional model a query has no document to return, so there
is nothing to prove about it.  The theorems below are about the creation block of
`_get_optional_nodes` (`Ypv.createHere` / `fill` / `buildNext` in `Model/Edit.lean`) at the node
where the first missing segment is created.
-/
namespace Ypv.C09
open Ypv

/-- FULL STATEMENT (not proved): `createPath leaf d segs = .ok ⟨d.graftAt (fun n => createHere n seg rest leaf) q, …⟩`
where `q` is the address of the deepest existing node and `seg :: rest` the missing tail.
**create_exact_partial (sequence).** Creating index `i ≥ len` in a sequence appends exactly
`i + 1 - len` elements: the padding defaults and, last, the filled spine; the sequence grows to
exactly `i + 1`; every element that existed keeps its position and content.
Missing for the full statement: lifting through the existing prefix (`createList`/`createEntries`
recursion = `graftAt`). -/
theorem create_exact_partial_seq (a : Option Str) (items : List Node) (seg : PSeg) (rest : List PSeg)
    (leaf : Scalar) (i : Int) (c : Node)
    (hi : intOfSeg seg = some i) (h0 : 0 ≤ i) (hlen : items.length ≤ i.toNat) (hf : fill rest leaf = .ok c) :
    ∃ items', createHere (.seq a items) seg rest leaf = .ok (.seq a items')
      ∧ items'.length = i.toNat + 1
      ∧ (∀ j, j < items.length → items'[j]? = items[j]?)
      ∧ items'[i.toNat]? = some c := by
  refine ⟨items ++ List.replicate (i.toNat - items.length) (buildNext rest leaf) ++ [c], ?_, ?_, ?_, ?_⟩
  · have : ¬ i < 0 := by omega
    simp [createHere, hi, this, hf]
  · simp; omega
  · intro j hj
    rw [List.append_assoc, List.getElem?_append_left hj]
  · rw [List.getElem?_append_right (by simp; omega)]
    have : i.toNat - (items ++ List.replicate (i.toNat - items.length) (buildNext rest leaf)).length = 0 := by
      simp; omega
    rw [this]; rfl

/-- **create_exact_partial (mapping).** Creating a missing key appends exactly one entry, keyed by
the segment text, holding the filled spine; every entry that existed is unchanged, in order. -/
theorem create_exact_partial_map (a : Option Str) (es : List (Key × Node)) (s : Str) (rest : List PSeg)
    (leaf : Scalar) (c : Node) (hf : fill rest leaf = .ok c) :
    createHere (.map a es) (.key s) rest leaf = .ok (.map a (es ++ [(.str s, c)])) := by
  simp [createHere, hf]

/-- The filled spine resolves to the leaf: following `fillAddr rest` in `fill rest leaf` reaches
exactly the scalar `leaf` (the path now selects a node holding the value). -/
theorem fill_resolves : ∀ (rest : List PSeg) (leaf : Scalar) (c : Node), fill rest leaf = .ok c →
    c.get? (fillAddr rest) = some (.scalar none leaf)
  | [], leaf, c, h => by
    simp [fill] at h; subst h; simp [fillAddr, Node.get?]
  | .key s :: rest, leaf, c, h => by
    simp only [fill] at h
    cases hf : fill rest leaf with
    | error e => simp [hf, Except.map] at h
    | ok c' =>
      simp [hf, Except.map] at h; subst h
      have ih := fill_resolves rest leaf c' hf
      simp [fillAddr, Node.get?, Node.child?, List.lookup, ih]
  | .index i :: rest, leaf, c, h => by
    simp only [fill] at h
    by_cases hneg : i < 0
    · simp [hneg] at h
    · cases hf : fill rest leaf with
      | error e => simp [hneg, hf, Except.map] at h
      | ok c' =>
        simp [hneg, hf, Except.map] at h; subst h
        have ih := fill_resolves rest leaf c' hf
        simp [fillAddr, Node.get?, Node.child?, ih]

/-- A path that exists completely creates nothing: with no segments left the node is returned as is. -/
theorem create_nothing_when_present (leaf : Scalar) (n : Node) :
    n.createPath leaf [] = .ok ⟨n, []⟩ := by
  cases n <;> simp [Node.createPath]

/-! ### Concrete witnesses -/

/-- `l: [1]`, create `l[2].k[1] = x`: padded with the defaults of the following segment -/
example : setOrCreate (.map none [(.str ['l'], .seq none [.scalar none (.int 1)])])
      [.key ['l'], .index 2, .key ['k'], .index 1] (.str ['x']) .default
    = .ok (.map none [(.str ['l'], .seq none [.scalar none (.int 1), .map none [],
        .map none [(.str ['k'], .seq none [.scalar none (.str ['x']), .scalar none (.str ['x'])])]])]) := by
  decide +kernel
/-- known finding C09-F2: a null on the way is relayed and overwritten; the tail is not created -/
example : setOrCreate (.map none [(.str ['a'], .scalar none .null)]) [.key ['a'], .key ['b'], .key ['c']] (.int 5) .default
    = .ok (.map none [(.str ['a'], .scalar none (.int 5))]) := by
  decide +kernel

end Ypv.C09
