import Ypv.Spec.Edit
/-! C09 — property theorems (under construction) -/
namespace Ypv.C09
theorem placeholder : deletePositional (.scalar none .null) [] = .scalar none .null := rfl
end Ypv.C09
