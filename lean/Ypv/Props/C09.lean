/-! C09 — property theorems (stub; no obligations yet) -/
