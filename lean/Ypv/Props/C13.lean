/-! C13 — property theorems (stub; no obligations yet) -/
