import Ypv.Lemmas.Keyword
/-!
# C13 — search keywords select by their definitions

The model is `kwSearch` (`Model/Keyword.lean`, a branch-for-branch mirror of `KeywordSearches`
after `fixes/C13-1.patch` and `fixes/C13-2.patch`).  Specifications are written here from the
property statement.

* `max_eq_spec` / `min_eq_spec` — on any collection whose comparable member values are ordered by a
  total, transitive `le` that the loop's two comparisons decide (`ScanOrder`), `max`/`min` return
  exactly the members whose value is `≥` (`≤`) every comparable member's, in document order, and
  inverted exactly the other members (a permutation of them); proved with the best-so-far
  invariant (`Lemmas/Keyword.lean`) for lists of any length.  `scanOrder_ints_max`,
  `scanOrder_ints_min`: lists of ints satisfy the
  hypothesis; `members_of_list`: the members of a plain list are its positions, nulls not comparable.
* `has_child_map_eq_spec`, `has_child_aoh_eq_spec` — exactly the hashes having (inverted: lacking)
  the key.
* `parent_eq_spec`, `parent_default_eq_spec`, `parent_zero_eq_spec`, `parent_refuses_above_root` —
  `parent(n)` is the address with `n` references dropped; more levels than the depth is refused.
* `name_eq_spec` — the last reference of the address.
* `scanOrder_same_kind_max/min`, `max_same_kind_eq_spec`, `min_same_kind_eq_spec` — the order
  hypothesis is discharged for every same-kind collection (ints, floats, Booleans, non-literal text).
* `members_of_aoh`, `members_of_map` — the members of an Array-of-Hashes / hash of hashes.
* `unique_eq_spec`, `distinct_eq_spec` — `unique` = the members whose value occurs once (inverted:
  more than once), `distinct` = the first member of each group of equal values, for lists,
  Arrays-of-Hashes and hashes of hashes of any length (`groups_eq_spec`: the table the code builds;
  `groups_of_list`: a list of scalars is always grouped); `unique_distinct_non_complex`.
-/
namespace Ypv.C13
open Ypv

/-! ## max / min -/

/-- `c`'s value is at least every comparable member's. -/
def isExtreme (le : Scalar → Scalar → Bool) (cs : List Cand) (c : Cand) : Bool :=
  match c.2 with
  | some x => (candVals cs).all (fun y => le y x)
  | none => false

/-- The members whose value is greatest (w.r.t. `le`), in document order. -/
def Spec.extremes (le : Scalar → Scalar → Bool) (cs : List Cand) : List Addr :=
  (cs.filter (isExtreme le cs)).map (·.1)

/-- All other members, in document order. -/
def Spec.others (le : Scalar → Scalar → Bool) (cs : List Cand) : List Addr :=
  (cs.filter (fun c => !isExtreme le cs c)).map (·.1)

theorem scan_eq_spec (better : Method) (le : Scalar → Scalar → Bool) (cs : List Cand)
    (ho : ScanOrder better le (candVals cs)) :
    ∃ st, mmScan better { best := none, hits := [], discards := [] } cs = .ok st ∧
      st.hits = Spec.extremes le cs ∧ List.Perm st.discards (Spec.others le cs) := by
  obtain ⟨st, hs, hi⟩ := mmScan_inv better le cs [] { best := none, hits := [], discards := [] }
    (by simpa using ho) (.inl ⟨rfl, rfl, rfl, rfl⟩)
  simp only [List.nil_append] at hi
  refine ⟨st, hs, ?_⟩
  rcases hi with ⟨_, h2, h3, h4⟩ | ⟨b, _, h2, h3, h4, h5⟩
  · have hnone : ∀ c ∈ cs, isExtreme le cs c = false := by
      intro c hc
      cases hv : c.2 with
      | none => simp [isExtreme, hv]
      | some x => have := mem_candVals hc hv; rw [h2] at this; cases this
    constructor
    · rw [h3]; unfold Spec.extremes
      rw [List.filter_eq_nil_iff.mpr (fun c hc => by simp [hnone c hc])]; rfl
    · rw [h4]; unfold Spec.others
      rw [List.filter_eq_self.mpr (fun c hc => by simp [hnone c hc])]
  · have hcongr : ∀ c ∈ cs, good le b c = isExtreme le cs c := by
      intro c hc
      cases hv : c.2 with
      | none => simp [good, isExtreme, hv]
      | some x =>
        have hx := mem_candVals hc hv
        simp only [good, isExtreme, hv]
        rw [Bool.eq_iff_iff, List.all_eq_true]
        constructor
        · intro hbx y hy; exact ho.trans y hy b h2 x hx (h3 y hy) hbx
        · intro h; exact h b h2
    constructor
    · rw [h4]; unfold Spec.extremes
      rw [List.filter_congr hcongr]
    · have e : cs.filter (fun c => !good le b c) = cs.filter (fun c => !isExtreme le cs c) :=
        List.filter_congr (fun c hc => by simp [hcongr c hc])
      unfold Spec.others
      rw [← e]
      exact h5

/-- **C13 max/min** (general form).  If `data` is a collection whose members are `cs`
(`mmCands`) and the comparable values are ordered by `le` as the loop's comparisons decide, then
the keyword returns exactly the extreme members in document order and, inverted, a permutation of
exactly the other members.  `better = .gt` is `max`, `better = .lt` is `min` (with `le` reversed). -/
theorem minmax_eq_spec (better : Method) (le : Scalar → Scalar → Bool) (data : Node) (a : Addr)
    (inv : Bool) (ps : List Str) (cs : List Cand) (hps : ps.length ≤ 1)
    (hc : mmCands data a ps.head? = .ok (some cs)) (ho : ScanOrder better le (candVals cs)) :
    ∃ out, kwMinMax better data a inv ps = .ok (.nodes out) ∧
      (inv = false → out = Spec.extremes le cs) ∧ (inv = true → List.Perm out (Spec.others le cs)) := by
  obtain ⟨st, hs, h1, h2⟩ := scan_eq_spec better le cs ho
  unfold kwMinMax
  have : ¬ ps.length > 1 := by omega
  simp only [this, if_false, hc, hs]
  cases inv
  · exact ⟨st.hits, rfl, fun _ => h1, fun h => (by cases h)⟩
  · exact ⟨st.discards, rfl, fun h => (by cases h), fun _ => h2⟩

/-- **C13 max**: members whose value is `≥` every other comparable member's; inverted: the others. -/
theorem max_eq_spec (le : Scalar → Scalar → Bool) (data : Node) (a : Addr) (inv : Bool) (raw : Str)
    (ps : List Str) (cs : List Cand) (hsplit : splitParams raw = .ok ps) (hps : ps.length ≤ 1)
    (hc : mmCands data a ps.head? = .ok (some cs)) (ho : ScanOrder .gt le (candVals cs)) :
    ∃ out, kwSearch data a inv .max raw = .ok (.nodes out) ∧
      (inv = false → out = Spec.extremes le cs) ∧ (inv = true → List.Perm out (Spec.others le cs)) := by
  unfold kwSearch; rw [hsplit]; exact minmax_eq_spec .gt le data a inv ps cs hps hc ho

/-- **C13 min**: the same with the order reversed (`le x y` = "`y` is at most `x`"). -/
theorem min_eq_spec (le : Scalar → Scalar → Bool) (data : Node) (a : Addr) (inv : Bool) (raw : Str)
    (ps : List Str) (cs : List Cand) (hsplit : splitParams raw = .ok ps) (hps : ps.length ≤ 1)
    (hc : mmCands data a ps.head? = .ok (some cs)) (ho : ScanOrder .lt le (candVals cs)) :
    ∃ out, kwSearch data a inv .min raw = .ok (.nodes out) ∧
      (inv = false → out = Spec.extremes le cs) ∧ (inv = true → List.Perm out (Spec.others le cs)) := by
  unfold kwSearch; rw [hsplit]; exact minmax_eq_spec .lt le data a inv ps cs hps hc ho

/-- `≤` on ints (anything else is not compared by the instances below). -/
def intLe : Scalar → Scalar → Bool
  | .int i, .int j => i ≤ j
  | _, _ => true

def intGe (x y : Scalar) : Bool := intLe y x

/-- Lists of ints meet the hypothesis of `max_eq_spec` with the usual order. -/
theorem scanOrder_ints_max (vals : List Scalar) (h : ∀ v ∈ vals, ∃ i, v = .int i) :
    ScanOrder .gt intLe vals := by
  refine ⟨?_, ?_, ?_, ?_⟩
  · intro x hx y hy
    obtain ⟨i, rfl⟩ := h x hx; obtain ⟨j, rfl⟩ := h y hy
    simp only [intLe, decide_eq_true_eq]; omega
  · intro x hx y hy z hz
    obtain ⟨i, rfl⟩ := h x hx; obtain ⟨j, rfl⟩ := h y hy; obtain ⟨k, rfl⟩ := h z hz
    simp only [intLe, decide_eq_true_eq]; omega
  · intro x hx b hb
    obtain ⟨i, rfl⟩ := h x hx; obtain ⟨j, rfl⟩ := h b hb
    simp [gt_int, intLe]
  · intro x hx b hb
    obtain ⟨i, rfl⟩ := h x hx; obtain ⟨j, rfl⟩ := h b hb
    simp [eq_int, intLe]

/-- … and of `min_eq_spec` with the reversed order. -/
theorem scanOrder_ints_min (vals : List Scalar) (h : ∀ v ∈ vals, ∃ i, v = .int i) :
    ScanOrder .lt intGe vals := by
  refine ⟨?_, ?_, ?_, ?_⟩
  · intro x hx y hy
    obtain ⟨i, rfl⟩ := h x hx; obtain ⟨j, rfl⟩ := h y hy
    simp only [intGe, intLe, decide_eq_true_eq]; omega
  · intro x hx y hy z hz
    obtain ⟨i, rfl⟩ := h x hx; obtain ⟨j, rfl⟩ := h y hy; obtain ⟨k, rfl⟩ := h z hz
    simp only [intGe, intLe, decide_eq_true_eq]; omega
  · intro x hx b hb
    obtain ⟨i, rfl⟩ := h x hx; obtain ⟨j, rfl⟩ := h b hb
    simp [lt_int, intGe, intLe]
  · intro x hx b hb
    obtain ⟨i, rfl⟩ := h x hx; obtain ⟨j, rfl⟩ := h b hb
    simp [eq_int, intGe, intLe, Bool.and_comm]

/-- Collections of one kind — all ints, all floats (exact decimals, `decCmp`), all Booleans, or all
non-literal text (`strLe`, by code point) — meet the order hypothesis of `max_eq_spec` with the one
order `valLe` (`Lemmas/Keyword.lean`): `decCmp` and `strLe` are total and transitive and the loop's
two comparisons decide them. -/
theorem scanOrder_same_kind_max (vals : List Scalar) (h : SameKind vals) : ScanOrder .gt valLe vals :=
  scanOrder_max_of_sameKind h

/-- … and of `min_eq_spec` with the reversed order `valGe`. -/
theorem scanOrder_same_kind_min (vals : List Scalar) (h : SameKind vals) : ScanOrder .lt valGe vals :=
  scanOrder_min_of_sameKind h

/-- **C13 max on every same-kind collection** (no order hypothesis left): the members whose value is
`≥` every comparable member's, in document order; inverted: a permutation of exactly the others. -/
theorem max_same_kind_eq_spec (data : Node) (a : Addr) (inv : Bool) (raw : Str)
    (ps : List Str) (cs : List Cand) (hsplit : splitParams raw = .ok ps) (hps : ps.length ≤ 1)
    (hc : mmCands data a ps.head? = .ok (some cs)) (hk : SameKind (candVals cs)) :
    ∃ out, kwSearch data a inv .max raw = .ok (.nodes out) ∧
      (inv = false → out = Spec.extremes valLe cs) ∧ (inv = true → List.Perm out (Spec.others valLe cs)) :=
  max_eq_spec valLe data a inv raw ps cs hsplit hps hc (scanOrder_max_of_sameKind hk)

/-- **C13 min on every same-kind collection**: the members whose value is `≤` every comparable
member's (`valGe x y` = "`y ≤ x`"), in document order; inverted: a permutation of the others. -/
theorem min_same_kind_eq_spec (data : Node) (a : Addr) (inv : Bool) (raw : Str)
    (ps : List Str) (cs : List Cand) (hsplit : splitParams raw = .ok ps) (hps : ps.length ≤ 1)
    (hc : mmCands data a ps.head? = .ok (some cs)) (hk : SameKind (candVals cs)) :
    ∃ out, kwSearch data a inv .min raw = .ok (.nodes out) ∧
      (inv = false → out = Spec.extremes valGe cs) ∧ (inv = true → List.Perm out (Spec.others valGe cs)) :=
  min_eq_spec valGe data a inv raw ps cs hsplit hps hc (scanOrder_min_of_sameKind hk)

/-- The members of a plain list are its positions; a null is not comparable, a scalar is its value. -/
theorem members_of_list (a : Addr) : ∀ (items : List Node) (i : Nat),
    (∀ n ∈ items, n.isScalar = true) →
    candsList a items i = .ok ((items.zipIdx i).map (fun (n, j) =>
      (a ++ [.idx j], match n with | .scalar _ .null => none | .scalar _ v => some v | _ => none)))
  | [], _, _ => rfl
  | n :: rest, i, h => by
    have ih := members_of_list a rest (i + 1) (fun n' hn' => h n' (by simp [hn']))
    have hn := h n (by simp)
    unfold candsList
    cases n with
    | scalar anc v =>
      rw [ih]
      cases v <;> simp [comparable, List.zipIdx_cons]
    | seq _ _ => simp [Node.isScalar] at hn
    | map _ _ => simp [Node.isScalar] at hn
    | set _ _ => simp [Node.isScalar] at hn

/-- The comparable value of a member under the attribute `name`: the attribute's non-null scalar
value; a member that is no hash, lacks the attribute or holds a null there is not comparable. -/
def Spec.memberValue (name : Str) (n : Node) : Option Scalar :=
  match n with
  | .map _ es =>
    match attrOf es name with
    | some (.scalar _ .null) => none
    | some (.scalar _ v) => some v
    | _ => none
  | _ => none

/-- Every attribute `name` held by a member hash is a scalar (containers there are out of model). -/
def AttrScalar (name : Str) (n : Node) : Prop :=
  ∀ anc es x, n = .map anc es → attrOf es name = some x → x.isScalar = true

/-- The members of an Array-of-Hashes under `max(name)`/`min(name)` are its positions; the
comparable value of a member is its non-null scalar attribute. -/
theorem members_of_aoh (name : Str) (a : Addr) : ∀ (items : List Node) (i : Nat),
    (∀ n ∈ items, AttrScalar name n) →
    candsAoh name a items i = .ok ((items.zipIdx i).map (fun (n, j) => (a ++ [.idx j], Spec.memberValue name n)))
  | [], _, _ => rfl
  | n :: rest, i, h => by
    have ih := members_of_aoh name a rest (i + 1) (fun n' hn' => h n' (by simp [hn']))
    have hn := h n (by simp)
    cases n with
    | map anc es =>
      unfold candsAoh
      simp only []
      rw [ih]
      cases ha : attrOf es name with
      | none => simp [Spec.memberValue, ha, List.zipIdx_cons]
      | some x =>
        have := hn anc es x rfl ha
        cases x with
        | scalar _ v => cases v <;> simp [Spec.memberValue, ha, comparable, List.zipIdx_cons]
        | seq _ _ => simp [Node.isScalar] at this
        | map _ _ => simp [Node.isScalar] at this
        | set _ _ => simp [Node.isScalar] at this
    | scalar _ _ => unfold candsAoh; simp only []; rw [ih]; simp [Spec.memberValue, List.zipIdx_cons]
    | seq _ _ => unfold candsAoh; simp only []; rw [ih]; simp [Spec.memberValue, List.zipIdx_cons]
    | set _ _ => unfold candsAoh; simp only []; rw [ih]; simp [Spec.memberValue, List.zipIdx_cons]

/-- The members of a hash of hashes are its keys, in order.  A child that is not a hash is not
comparable — unless the parameter names a key of the parent itself (`inData`), which the code
refuses with a YAML Path error (excluded here by `hkids`). -/
theorem members_of_map (name : Str) (inData : Bool) (a : Addr) : ∀ (es : List (Key × Node)),
    (∀ kn ∈ es, AttrScalar name kn.2) → (inData = true → ∀ kn ∈ es, kn.2.isMap = true) →
    candsMap name inData a es = .ok (es.map (fun (k, n) => (a ++ [.key k], Spec.memberValue name n)))
  | [], _, _ => rfl
  | (k, n) :: rest, h, hkids => by
    have ih := members_of_map name inData a rest (fun kn hkn => h kn (by simp [hkn]))
      (fun hi kn hkn => hkids hi kn (by simp [hkn]))
    have hn := h (k, n) (by simp)
    have hk := fun hi => hkids hi (k, n) (by simp)
    cases n with
    | map anc es' =>
      unfold candsMap
      simp only []
      rw [ih]
      cases ha : attrOf es' name with
      | none => simp [Spec.memberValue, ha]
      | some x =>
        have := hn anc es' x rfl ha
        cases x with
        | scalar _ v => cases v <;> simp [Spec.memberValue, ha, comparable]
        | seq _ _ => simp [Node.isScalar] at this
        | map _ _ => simp [Node.isScalar] at this
        | set _ _ => simp [Node.isScalar] at this
    | scalar _ _ =>
      cases inData
      · unfold candsMap; simp only []; rw [ih]; simp [Spec.memberValue]
      · simp [Node.isMap] at hk
    | seq _ _ =>
      cases inData
      · unfold candsMap; simp only []; rw [ih]; simp [Spec.memberValue]
      · simp [Node.isMap] at hk
    | set _ _ =>
      cases inData
      · unfold candsMap; simp only []; rw [ih]; simp [Spec.memberValue]
      · simp [Node.isMap] at hk

/-! ## has_child -/

/-- **C13 has_child** on a hash: the hash itself iff it has (inverted: lacks) the key. -/
theorem has_child_map_eq_spec (anc : Option Str) (es : List (Key × Node)) (a : Addr) (inv : Bool) (k : Str)
    (c : Char) (r : Str) (hk : k = c :: r) (hamp : c ≠ '&') :
    hasChild (.map anc es) a inv [k] =
      .ok (.nodes (if ((es.lookup (.str k)).isSome != inv) then [a] else [])) := by
  subst hk
  simp only [hasChild]
  split
  · rename_i h; cases h
  · rename_i h; simp only [List.cons.injEq] at h; exact absurd h.1 hamp
  · cases h : (List.lookup (Key.str (c :: r)) es).isSome <;> cases inv <;>
      simp [hasConcreteChild, hasChildMap, attrOf, Except.map, yieldIf, h]

/-- The members of an Array-of-Hashes that have (inverted: lack) the key, in document order. -/
def Spec.hashesWithKey (inv : Bool) (k : Str) (a : Addr) (items : List Node) (i : Nat) : List Addr :=
  (items.zipIdx i).filterMap (fun (n, j) =>
    match n with
    | .map _ es => if ((es.lookup (.str k)).isSome != inv) then some (a ++ [.idx j]) else none
    | _ => none)

/-- **C13 has_child** over an Array-of-Hashes: exactly the member hashes having (lacking) the key. -/
theorem has_child_aoh_eq_spec (inv : Bool) (k : Str) (a : Addr) : ∀ (items : List Node) (i : Nat),
    hasChildAoh inv k a items i = Spec.hashesWithKey inv k a items i
  | [], _ => rfl
  | n :: rest, i => by
    have ih := has_child_aoh_eq_spec inv k a rest (i + 1)
    unfold Spec.hashesWithKey at ih ⊢
    cases n with
    | map anc es =>
      unfold hasChildAoh
      rw [ih]
      cases h : (List.lookup (Key.str k) es).isSome <;> cases inv <;>
        simp [hasChildMap, attrOf, yieldIf, List.zipIdx_cons, h]
    | scalar _ _ => unfold hasChildAoh; rw [ih]; simp [List.zipIdx_cons]
    | seq _ _ => unfold hasChildAoh; rw [ih]; simp [List.zipIdx_cons]
    | set _ _ => unfold hasChildAoh; rw [ih]; simp [List.zipIdx_cons]

/-! ## parent, name -/

/-- The address with `n` references dropped from its end. -/
def Spec.ancestor (a : Addr) : Nat → Addr
  | 0 => a
  | n + 1 => (Spec.ancestor a n).dropLast

theorem ancestor_eq_take (a : Addr) : ∀ n, Spec.ancestor a n = a.take (a.length - n)
  | 0 => by simp [Spec.ancestor]
  | n + 1 => by
    rw [Spec.ancestor, ancestor_eq_take a n, List.dropLast_eq_take, List.length_take, List.take_take]
    congr 1; omega

/-- **C13 parent(n)**, `1 ≤ n ≤ depth`: the `n`-th ancestor of the current node. -/
theorem parent_eq_spec (a : Addr) (p : Str) (n : Nat) (hp : pyInt? p = some (n : Int)) (h1 : 1 ≤ n)
    (hn : n ≤ a.length) : kwParent a false [p] = .ok (.nodes [Spec.ancestor a n]) := by
  unfold kwParent
  have c1 : ¬ ((n : Int) > (a.length : Int)) := by omega
  have c2 : ¬ ((n : Int) < 1) := by omega
  simp [hp, c1, c2, ancestor_eq_take]

/-- `parent()` without a parameter climbs one level. -/
theorem parent_default_eq_spec (a : Addr) (hn : 1 ≤ a.length) :
    kwParent a false [] = .ok (.nodes [Spec.ancestor a 1]) := by
  unfold kwParent
  have c1 : ¬ ((1 : Int) > (a.length : Int)) := by omega
  simp [c1, ancestor_eq_take]

/-- `parent(0)` (and any `n < 1`) is the present node. -/
theorem parent_zero_eq_spec (a : Addr) (p : Str) (z : Int) (hp : pyInt? p = some z) (hz : z < 1) :
    kwParent a false [p] = .ok (.nodes [a]) := by
  unfold kwParent
  have c1 : ¬ (z > (a.length : Int)) := by omega
  simp [hp, c1, hz]

/-- **C13**: `parent(n)` refuses to climb above the root — a YAML Path error, never a result. -/
theorem parent_refuses_above_root (a : Addr) (p : Str) (z : Int) (hp : pyInt? p = some z)
    (hz : z > (a.length : Int)) : kwParent a false [p] = .error (.ypath .generic) := by
  unfold kwParent
  simp [hp, hz, ypathErr]

/-- **C13 name()**: the key or index under which the current node is held (none at the root). -/
theorem name_eq_spec (a : Addr) : kwName a false [] = .ok (.name a.getLast?) := rfl

/-! ## unique / distinct

The members are the positions (keys) holding a value: every scalar of a plain list, every hash of an
Array-of-Hashes / hash of hashes that has the attribute (`Spec.keyed`).  Equality of values is
Python's `==` (`pyEq`: `True == 1 == 1.0`), proved an equivalence relation (`pyEq_refl`,
`pyEq_symm`, `pyEq_trans` in `Lemmas/Keyword.lean`, from `decCmp` being the comparison of the
denoted decimals). -/

/-- The members `unique`/`distinct` group, with their values, in document order. -/
def Spec.keyed (data : Node) (a : Addr) (scan : Option Str) : List Keyed :=
  match data, scan with
  | .seq _ items, none => keyedList a items 0
  | .seq _ items, some name => keyedAoh name a items 0
  | .map _ es, some name => keyedMap name a es
  | _, _ => []

/-- The members whose value occurs exactly once, in document order. -/
def Spec.occurringOnce (ms : List Keyed) : List Addr :=
  (ms.filter (fun m => occurrences ms m.2 == 1)).map (·.1)

/-- The members whose value occurs more than once, in document order. -/
def Spec.occurringMore (ms : List Keyed) : List Addr :=
  (ms.filter (fun m => decide (1 < occurrences ms m.2))).map (·.1)

/-- The first member of each group of equal values: the members no predecessor of which has an
equal value, in document order. -/
def Spec.firstOfEach (ms : List Keyed) : List Addr := firstsFrom [] ms

/-- The table `seen_values` the code builds over a collection is the insertion of its members in
document order. -/
theorem groups_eq_spec (data : Node) (a : Addr) (scan : Option Str) (g : Groups)
    (h : kwGroups data a scan = .ok (some g)) : g = groupsOf [] (Spec.keyed data a scan) := by
  unfold kwGroups at h
  cases data with
  | scalar _ _ => simp at h
  | set _ _ => simp at h
  | map anc es =>
    cases scan with
    | none => simp at h
    | some name =>
      simp only [] at h
      cases hg : groupMap name (attrOf es name).isSome a [] es with
      | error e => simp [hg, Except.map] at h
      | ok g' =>
        simp only [hg, Except.map, Except.ok.injEq, Option.some.injEq] at h
        subst h
        exact groupMap_eq name _ a es [] g' hg
  | seq anc items =>
    simp only [] at h
    cases scan with
    | none =>
      cases hA : isAoh true items
      · simp only [hA, Bool.false_eq_true, if_false] at h
        cases hg : groupList a [] items 0 with
        | error e => simp [hg, Except.map] at h
        | ok g' =>
          simp only [hg, Except.map, Except.ok.injEq, Option.some.injEq] at h
          subst h
          exact groupList_eq a items 0 [] g' hg
      · simp [hA] at h
    | some name =>
      cases hA : isAoh true items
      · simp [hA] at h
      · simp only [hA, if_true] at h
        cases hg : groupAoh name a [] items 0 with
        | error e => simp [hg, Except.map] at h
        | ok g' =>
          simp only [hg, Except.map, Except.ok.injEq, Option.some.injEq] at h
          subst h
          exact groupAoh_eq name a items 0 [] g' hg

/-- A plain list of scalars (not all of them null) is grouped without error. -/
theorem groups_of_list (anc : Option Str) (items : List Node) (a : Addr)
    (hs : ∀ n ∈ items, n.isScalar = true) (hA : isAoh true items = false) :
    kwGroups (.seq anc items) a none = .ok (some (groupsOf [] (keyedList a items 0))) := by
  simp [kwGroups, hA, groupList_scalars a items 0 [] hs, Except.map]

/-- **C13 unique**: on any collection that the code can group (`hg`: no unhashable member, the
parameter fits the shape), `unique` returns exactly the members whose value occurs once, in
document order, and inverted exactly those whose value occurs more than once (a permutation of
them: the code yields them group by group). -/
theorem unique_eq_spec (data : Node) (a : Addr) (inv : Bool) (raw : Str) (ps : List Str) (g : Groups)
    (hsplit : splitParams raw = .ok ps) (hps : ps.length ≤ 1)
    (hg : kwGroups data a ps.head? = .ok (some g)) :
    ∃ out, kwSearch data a inv .unique raw = .ok (.nodes out) ∧
      (inv = false → out = Spec.occurringOnce (Spec.keyed data a ps.head?)) ∧
      (inv = true → List.Perm out (Spec.occurringMore (Spec.keyed data a ps.head?))) := by
  have hge := groups_eq_spec data a ps.head? g hg
  unfold kwSearch; rw [hsplit]
  unfold kwUnique
  have : ¬ ps.length > 1 := by omega
  simp only [this, if_false, hg]
  cases inv
  · refine ⟨_, rfl, fun _ => ?_, fun h => (by cases h)⟩
    have := groupSel_once _ (Spec.keyed data a ps.head?) (Nat.le_refl _)
    rw [← hge] at this
    unfold Spec.occurringOnce
    rw [← this]
    simp only [groupSel, if_false, Bool.false_eq_true]
    congr 2
  · refine ⟨_, rfl, fun h => (by cases h), fun _ => ?_⟩
    have := groupSel_perm (fun k => decide (1 < k)) _ (Spec.keyed data a ps.head?) (Nat.le_refl _)
    rw [← hge] at this
    unfold Spec.occurringMore
    simpa [groupSel] using this

/-- **C13 distinct**: on any collection that the code can group, `distinct` returns exactly the first
member of each group of equal values, in document order. -/
theorem distinct_eq_spec (data : Node) (a : Addr) (raw : Str) (ps : List Str) (g : Groups)
    (hsplit : splitParams raw = .ok ps) (hps : ps.length ≤ 1)
    (hg : kwGroups data a ps.head? = .ok (some g)) :
    kwSearch data a false .distinct raw = .ok (.nodes (Spec.firstOfEach (Spec.keyed data a ps.head?))) := by
  have hge := groups_eq_spec data a ps.head? g hg
  unfold kwSearch; rw [hsplit]
  unfold kwDistinct
  have : ¬ ps.length > 1 := by omega
  simp only [this, if_false, hg, Bool.false_eq_true]
  rw [hge, group_heads_nil]; rfl

/-- Non-complex data is always unique and distinct; inverted `unique` yields nothing. -/
theorem unique_distinct_non_complex (anc : Option Str) (v : Scalar) (a : Addr) (inv : Bool) :
    kwUnique (.scalar anc v) a inv [] = .ok (.nodes (if inv then [] else [a])) ∧
    kwDistinct (.scalar anc v) a false [] = .ok (.nodes [a]) := ⟨rfl, rfl⟩

/-! ## Witnesses -/

def ex1 : Node := .seq none [.scalar none (.int 2), .scalar none (.int 10), .scalar none .null,
  .scalar none (.int 9), .scalar none (.int 10)]

example : kwSearch ex1 [] false .max [] = .ok (.nodes [[.idx 1], [.idx 4]]) := by decide +kernel
example : kwSearch ex1 [] true .max [] = .ok (.nodes [[.idx 0], [.idx 2], [.idx 3]]) := by decide +kernel
example : kwSearch ex1 [] false .min [] = .ok (.nodes [[.idx 0]]) := by decide +kernel
example : kwSearch ex1 [] false .unique [] = .ok (.nodes [[.idx 0], [.idx 2], [.idx 3]]) := by decide +kernel
example : kwSearch ex1 [] true .unique [] = .ok (.nodes [[.idx 1], [.idx 4]]) := by decide +kernel
example : kwSearch ex1 [] false .distinct [] = .ok (.nodes [[.idx 0], [.idx 1], [.idx 2], [.idx 3]]) := by
  decide +kernel
example : candsList [] [.scalar none (.int 2), .scalar none .null] 0
    = .ok [([.idx 0], some (.int 2)), ([.idx 1], none)] := by decide +kernel
/-- the hypothesis of `max_eq_spec` is met by a concrete list of ints -/
example : ScanOrder .gt intLe [.int 2, .int 10, .int 9] :=
  scanOrder_ints_max _ (by intro v hv; simp at hv; rcases hv with rfl | rfl | rfl <;> exact ⟨_, rfl⟩)

def aoh : Node := .seq none [.map none [(.str ['a'], .scalar none (.int 5))],
  .map none [(.str ['a'], .scalar none .null)], .map none [(.str ['b'], .scalar none (.int 1))]]

/-- a null attribute is not comparable: the member is never the maximum (the pinned code returned
it: `fixes/C13-1.patch`) -/
example : kwSearch aoh [] false .max ['a'] = .ok (.nodes [[.idx 0]]) := by decide +kernel
example : kwSearch aoh [] true .max ['a'] = .ok (.nodes [[.idx 1], [.idx 2]]) := by decide +kernel
example : kwSearch aoh [] false .hasChild ['a'] = .ok (.nodes [[.idx 0], [.idx 1]]) := by decide +kernel
example : kwSearch aoh [] true .hasChild ['a'] = .ok (.nodes [[.idx 2]]) := by decide +kernel
example : kwSearch aoh [.key (.str ['l']), .idx 1] false .parent ['1'] = .ok (.nodes [[.key (.str ['l'])]]) := by
  decide +kernel
example : kwSearch aoh [.key (.str ['l'])] false .parent ['2'] = .error (.ypath .generic) := by decide +kernel
example : kwSearch aoh [.key (.str ['l']), .idx 1] false .name [] = .ok (.name (some (.idx 1))) := by decide +kernel
/-- the splitter's `ValueError` and a list holding a hash under `unique()` (C15's `TypeError`) -/
example : splitParams "'a".toList = .error (.crash .valueError) := by decide +kernel
example : kwSearch (.seq none [.scalar none (.str ['a']), .map none []]) [] false .unique []
    = .error (.crash .typeError) := by decide +kernel

/-! ### same-kind collections, unique/distinct, Array-of-Hashes members -/

def exF : Node := .seq none [.scalar none (.float 15 (-1)), .scalar none (.float 225 (-2)),
  .scalar none (.float 2250 (-3)), .scalar none (.float 1 1)]

/-- the hypothesis of `max_same_kind_eq_spec` is met by a list of floats (2.25 = 2.250 tie) and by a
list of non-literal strings -/
example : SameKind [.float 15 (-1), .float 225 (-2), .float 2250 (-3), .float 1 1] :=
  .floats (by intro v hv; simp at hv; rcases hv with rfl | rfl | rfl | rfl <;> exact ⟨_, _, rfl⟩)
example : SameKind [.str "ab".toList, .str "b".toList, .str "B a".toList] :=
  .texts (by intro v hv; simp at hv; rcases hv with rfl | rfl | rfl <;> (unfold IsText; decide +kernel))
example : kwSearch exF [] false .max [] = .ok (.nodes [[.idx 3]]) := by decide +kernel
example : kwSearch exF [] true .min [] = .ok (.nodes [[.idx 1], [.idx 2], [.idx 3]]) := by decide +kernel
example : Spec.extremes valGe [([.idx 0], some (.float 15 (-1))), ([.idx 1], none), ([.idx 2], some (.float 150 (-2)))]
    = [[.idx 0], [.idx 2]] := by decide +kernel

/-- `True == 1 == 1.0` under Python `==`: one group; the hypothesis `hg` of `unique_eq_spec` /
`distinct_eq_spec` is met and the specifications say what the code yields -/
def exU : Node := .seq none [.scalar none (.int 1), .scalar none (.bool true), .scalar none (.str ['x']),
  .scalar none (.float 10 (-1)), .scalar none .null, .scalar none (.str ['x']), .scalar none (.int 7)]

example : ∃ g, kwGroups exU [] none = .ok (some g) := ⟨_, groups_of_list none _ [] (by decide) (by decide)⟩
example : Spec.occurringOnce (Spec.keyed exU [] none) = [[.idx 4], [.idx 6]] := by decide +kernel
example : Spec.occurringMore (Spec.keyed exU [] none) = [[.idx 0], [.idx 1], [.idx 2], [.idx 3], [.idx 5]] := by
  decide +kernel
example : Spec.firstOfEach (Spec.keyed exU [] none) = [[.idx 0], [.idx 2], [.idx 4], [.idx 6]] := by decide +kernel
example : kwSearch exU [] false .unique [] = .ok (.nodes [[.idx 4], [.idx 6]]) := by decide +kernel
/-- inverted `unique` comes group by group — a permutation of the document order -/
example : kwSearch exU [] true .unique [] = .ok (.nodes [[.idx 0], [.idx 1], [.idx 3], [.idx 2], [.idx 5]]) := by
  decide +kernel
example : kwSearch exU [] false .distinct [] = .ok (.nodes [[.idx 0], [.idx 2], [.idx 4], [.idx 6]]) := by
  decide +kernel

/-- members of an Array-of-Hashes / hash of hashes: null and missing attributes are not comparable -/
example : candsAoh ['a'] [] [.map none [(.str ['a'], .scalar none (.int 5))],
      .map none [(.str ['a'], .scalar none .null)], .map none [(.str ['b'], .scalar none (.int 1))]] 0
    = .ok [([.idx 0], some (.int 5)), ([.idx 1], none), ([.idx 2], none)] := by decide +kernel
example : Spec.keyed aoh [] (some ['a']) = [([.idx 0], .int 5), ([.idx 1], .null)] := by decide +kernel
example : kwSearch aoh [] false .unique ['a'] = .ok (.nodes [[.idx 0], [.idx 1]]) := by decide +kernel

end Ypv.C13
