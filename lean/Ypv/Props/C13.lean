import Ypv.Lemmas.Keyword
/-!
# C13 — search keywords select by their definitions

The model is `kwSearch` (`Model/Keyword.lean`, a branch-for-branch mirror of `KeywordSearches`
after `fixes/C13-1.patch` and `fixes/C13-2.patch`).  Specifications are written here from the
property statement.

* `max_eq_spec` / `min_eq_spec` — on any collection whose comparable member values are ordered by a
  total, transitive `le` that the loop's two comparisons decide (`ScanOrder`), `max`/`min` return
  exactly the members whose value is `≥` (`≤`) every comparable member's, in document order, and
  inverted exactly the other members (a permutation of them); proved with the best-so-far
  invariant (`Lemmas/Keyword.lean`) for lists of any length.  `scanOrder_ints_max`,
  `scanOrder_ints_min`: lists of ints satisfy the
  hypothesis; `members_of_list`: the members of a plain list are its positions, nulls not comparable.
* `has_child_map_eq_spec`, `has_child_aoh_eq_spec` — exactly the hashes having (inverted: lacking)
  the key.
* `parent_eq_spec`, `parent_default_eq_spec`, `parent_zero_eq_spec`, `parent_refuses_above_root` —
  `parent(n)` is the address with `n` references dropped; more levels than the depth is refused.
* `name_eq_spec` — the last reference of the address.
* `unique_distinct_scalar_partial`, `distinct_groups_partial` — see the comments: the full
  `unique`/`distinct` = "value occurs once" / "first of each equality class" statement over lists
  is not proved in this round (what is missing is stated there).
-/
namespace Ypv.C13
open Ypv

/-! ## max / min -/

/-- `c`'s value is at least every comparable member's. -/
def isExtreme (le : Scalar → Scalar → Bool) (cs : List Cand) (c : Cand) : Bool :=
  match c.2 with
  | some x => (candVals cs).all (fun y => le y x)
  | none => false

/-- The members whose value is greatest (w.r.t. `le`), in document order. -/
def Spec.extremes (le : Scalar → Scalar → Bool) (cs : List Cand) : List Addr :=
  (cs.filter (isExtreme le cs)).map (·.1)

/-- All other members, in document order. -/
def Spec.others (le : Scalar → Scalar → Bool) (cs : List Cand) : List Addr :=
  (cs.filter (fun c => !isExtreme le cs c)).map (·.1)

theorem scan_eq_spec (better : Method) (le : Scalar → Scalar → Bool) (cs : List Cand)
    (ho : ScanOrder better le (candVals cs)) :
    ∃ st, mmScan better { best := none, hits := [], discards := [] } cs = .ok st ∧
      st.hits = Spec.extremes le cs ∧ List.Perm st.discards (Spec.others le cs) := by
  obtain ⟨st, hs, hi⟩ := mmScan_inv better le cs [] { best := none, hits := [], discards := [] }
    (by simpa using ho) (.inl ⟨rfl, rfl, rfl, rfl⟩)
  simp only [List.nil_append] at hi
  refine ⟨st, hs, ?_⟩
  rcases hi with ⟨_, h2, h3, h4⟩ | ⟨b, _, h2, h3, h4, h5⟩
  · have hnone : ∀ c ∈ cs, isExtreme le cs c = false := by
      intro c hc
      cases hv : c.2 with
      | none => simp [isExtreme, hv]
      | some x => have := mem_candVals hc hv; rw [h2] at this; cases this
    constructor
    · rw [h3]; unfold Spec.extremes
      rw [List.filter_eq_nil_iff.mpr (fun c hc => by simp [hnone c hc])]; rfl
    · rw [h4]; unfold Spec.others
      rw [List.filter_eq_self.mpr (fun c hc => by simp [hnone c hc])]
  · have hcongr : ∀ c ∈ cs, good le b c = isExtreme le cs c := by
      intro c hc
      cases hv : c.2 with
      | none => simp [good, isExtreme, hv]
      | some x =>
        have hx := mem_candVals hc hv
        simp only [good, isExtreme, hv]
        rw [Bool.eq_iff_iff, List.all_eq_true]
        constructor
        · intro hbx y hy; exact ho.trans y hy b h2 x hx (h3 y hy) hbx
        · intro h; exact h b h2
    constructor
    · rw [h4]; unfold Spec.extremes
      rw [List.filter_congr hcongr]
    · have e : cs.filter (fun c => !good le b c) = cs.filter (fun c => !isExtreme le cs c) :=
        List.filter_congr (fun c hc => by simp [hcongr c hc])
      unfold Spec.others
      rw [← e]
      exact h5

/-- **C13 max/min** (general form).  If `data` is a collection whose members are `cs`
(`mmCands`) and the comparable values are ordered by `le` as the loop's comparisons decide, then
the keyword returns exactly the extreme members in document order and, inverted, a permutation of
exactly the other members.  `better = .gt` is `max`, `better = .lt` is `min` (with `le` reversed). -/
theorem minmax_eq_spec (better : Method) (le : Scalar → Scalar → Bool) (data : Node) (a : Addr)
    (inv : Bool) (ps : List Str) (cs : List Cand) (hps : ps.length ≤ 1)
    (hc : mmCands data a ps.head? = .ok (some cs)) (ho : ScanOrder better le (candVals cs)) :
    ∃ out, kwMinMax better data a inv ps = .ok (.nodes out) ∧
      (inv = false → out = Spec.extremes le cs) ∧ (inv = true → List.Perm out (Spec.others le cs)) := by
  obtain ⟨st, hs, h1, h2⟩ := scan_eq_spec better le cs ho
  unfold kwMinMax
  have : ¬ ps.length > 1 := by omega
  simp only [this, if_false, hc, hs]
  cases inv
  · exact ⟨st.hits, rfl, fun _ => h1, fun h => (by cases h)⟩
  · exact ⟨st.discards, rfl, fun h => (by cases h), fun _ => h2⟩

/-- **C13 max**: members whose value is `≥` every other comparable member's; inverted: the others. -/
theorem max_eq_spec (le : Scalar → Scalar → Bool) (data : Node) (a : Addr) (inv : Bool) (raw : Str)
    (ps : List Str) (cs : List Cand) (hsplit : splitParams raw = .ok ps) (hps : ps.length ≤ 1)
    (hc : mmCands data a ps.head? = .ok (some cs)) (ho : ScanOrder .gt le (candVals cs)) :
    ∃ out, kwSearch data a inv .max raw = .ok (.nodes out) ∧
      (inv = false → out = Spec.extremes le cs) ∧ (inv = true → List.Perm out (Spec.others le cs)) := by
  unfold kwSearch; rw [hsplit]; exact minmax_eq_spec .gt le data a inv ps cs hps hc ho

/-- **C13 min**: the same with the order reversed (`le x y` = "`y` is at most `x`"). -/
theorem min_eq_spec (le : Scalar → Scalar → Bool) (data : Node) (a : Addr) (inv : Bool) (raw : Str)
    (ps : List Str) (cs : List Cand) (hsplit : splitParams raw = .ok ps) (hps : ps.length ≤ 1)
    (hc : mmCands data a ps.head? = .ok (some cs)) (ho : ScanOrder .lt le (candVals cs)) :
    ∃ out, kwSearch data a inv .min raw = .ok (.nodes out) ∧
      (inv = false → out = Spec.extremes le cs) ∧ (inv = true → List.Perm out (Spec.others le cs)) := by
  unfold kwSearch; rw [hsplit]; exact minmax_eq_spec .lt le data a inv ps cs hps hc ho

/-- `≤` on ints (anything else is not compared by the instances below). -/
def intLe : Scalar → Scalar → Bool
  | .int i, .int j => i ≤ j
  | _, _ => true

def intGe (x y : Scalar) : Bool := intLe y x

/-- Lists of ints meet the hypothesis of `max_eq_spec` with the usual order. -/
theorem scanOrder_ints_max (vals : List Scalar) (h : ∀ v ∈ vals, ∃ i, v = .int i) :
    ScanOrder .gt intLe vals := by
  refine ⟨?_, ?_, ?_, ?_⟩
  · intro x hx y hy
    obtain ⟨i, rfl⟩ := h x hx; obtain ⟨j, rfl⟩ := h y hy
    simp only [intLe, decide_eq_true_eq]; omega
  · intro x hx y hy z hz
    obtain ⟨i, rfl⟩ := h x hx; obtain ⟨j, rfl⟩ := h y hy; obtain ⟨k, rfl⟩ := h z hz
    simp only [intLe, decide_eq_true_eq]; omega
  · intro x hx b hb
    obtain ⟨i, rfl⟩ := h x hx; obtain ⟨j, rfl⟩ := h b hb
    simp [gt_int, intLe]
  · intro x hx b hb
    obtain ⟨i, rfl⟩ := h x hx; obtain ⟨j, rfl⟩ := h b hb
    simp [eq_int, intLe]

/-- … and of `min_eq_spec` with the reversed order. -/
theorem scanOrder_ints_min (vals : List Scalar) (h : ∀ v ∈ vals, ∃ i, v = .int i) :
    ScanOrder .lt intGe vals := by
  refine ⟨?_, ?_, ?_, ?_⟩
  · intro x hx y hy
    obtain ⟨i, rfl⟩ := h x hx; obtain ⟨j, rfl⟩ := h y hy
    simp only [intGe, intLe, decide_eq_true_eq]; omega
  · intro x hx y hy z hz
    obtain ⟨i, rfl⟩ := h x hx; obtain ⟨j, rfl⟩ := h y hy; obtain ⟨k, rfl⟩ := h z hz
    simp only [intGe, intLe, decide_eq_true_eq]; omega
  · intro x hx b hb
    obtain ⟨i, rfl⟩ := h x hx; obtain ⟨j, rfl⟩ := h b hb
    simp [lt_int, intGe, intLe]
  · intro x hx b hb
    obtain ⟨i, rfl⟩ := h x hx; obtain ⟨j, rfl⟩ := h b hb
    simp [eq_int, intGe, intLe, Bool.and_comm]

/-- The members of a plain list are its positions; a null is not comparable, a scalar is its value. -/
theorem members_of_list (a : Addr) : ∀ (items : List Node) (i : Nat),
    (∀ n ∈ items, n.isScalar = true) →
    candsList a items i = .ok ((items.zipIdx i).map (fun (n, j) =>
      (a ++ [.idx j], match n with | .scalar _ .null => none | .scalar _ v => some v | _ => none)))
  | [], _, _ => rfl
  | n :: rest, i, h => by
    have ih := members_of_list a rest (i + 1) (fun n' hn' => h n' (by simp [hn']))
    have hn := h n (by simp)
    unfold candsList
    cases n with
    | scalar anc v =>
      rw [ih]
      cases v <;> simp [comparable, List.zipIdx_cons]
    | seq _ _ => simp [Node.isScalar] at hn
    | map _ _ => simp [Node.isScalar] at hn
    | set _ _ => simp [Node.isScalar] at hn

/-! ## has_child -/

/-- **C13 has_child** on a hash: the hash itself iff it has (inverted: lacks) the key. -/
theorem has_child_map_eq_spec (anc : Option Str) (es : List (Key × Node)) (a : Addr) (inv : Bool) (k : Str)
    (c : Char) (r : Str) (hk : k = c :: r) (hamp : c ≠ '&') :
    hasChild (.map anc es) a inv [k] =
      .ok (.nodes (if ((es.lookup (.str k)).isSome != inv) then [a] else [])) := by
  subst hk
  simp only [hasChild]
  split
  · rename_i h; cases h
  · rename_i h; simp only [List.cons.injEq] at h; exact absurd h.1 hamp
  · cases h : (List.lookup (Key.str (c :: r)) es).isSome <;> cases inv <;>
      simp [hasConcreteChild, hasChildMap, attrOf, Except.map, yieldIf, h]

/-- The members of an Array-of-Hashes that have (inverted: lack) the key, in document order. -/
def Spec.hashesWithKey (inv : Bool) (k : Str) (a : Addr) (items : List Node) (i : Nat) : List Addr :=
  (items.zipIdx i).filterMap (fun (n, j) =>
    match n with
    | .map _ es => if ((es.lookup (.str k)).isSome != inv) then some (a ++ [.idx j]) else none
    | _ => none)

/-- **C13 has_child** over an Array-of-Hashes: exactly the member hashes having (lacking) the key. -/
theorem has_child_aoh_eq_spec (inv : Bool) (k : Str) (a : Addr) : ∀ (items : List Node) (i : Nat),
    hasChildAoh inv k a items i = Spec.hashesWithKey inv k a items i
  | [], _ => rfl
  | n :: rest, i => by
    have ih := has_child_aoh_eq_spec inv k a rest (i + 1)
    unfold Spec.hashesWithKey at ih ⊢
    cases n with
    | map anc es =>
      unfold hasChildAoh
      rw [ih]
      cases h : (List.lookup (Key.str k) es).isSome <;> cases inv <;>
        simp [hasChildMap, attrOf, yieldIf, List.zipIdx_cons, h]
    | scalar _ _ => unfold hasChildAoh; rw [ih]; simp [List.zipIdx_cons]
    | seq _ _ => unfold hasChildAoh; rw [ih]; simp [List.zipIdx_cons]
    | set _ _ => unfold hasChildAoh; rw [ih]; simp [List.zipIdx_cons]

/-! ## parent, name -/

/-- The address with `n` references dropped from its end. -/
def Spec.ancestor (a : Addr) : Nat → Addr
  | 0 => a
  | n + 1 => (Spec.ancestor a n).dropLast

theorem ancestor_eq_take (a : Addr) : ∀ n, Spec.ancestor a n = a.take (a.length - n)
  | 0 => by simp [Spec.ancestor]
  | n + 1 => by
    rw [Spec.ancestor, ancestor_eq_take a n, List.dropLast_eq_take, List.length_take, List.take_take]
    congr 1; omega

/-- **C13 parent(n)**, `1 ≤ n ≤ depth`: the `n`-th ancestor of the current node. -/
theorem parent_eq_spec (a : Addr) (p : Str) (n : Nat) (hp : pyInt? p = some (n : Int)) (h1 : 1 ≤ n)
    (hn : n ≤ a.length) : kwParent a false [p] = .ok (.nodes [Spec.ancestor a n]) := by
  unfold kwParent
  have c1 : ¬ ((n : Int) > (a.length : Int)) := by omega
  have c2 : ¬ ((n : Int) < 1) := by omega
  simp [hp, c1, c2, ancestor_eq_take]

/-- `parent()` without a parameter climbs one level. -/
theorem parent_default_eq_spec (a : Addr) (hn : 1 ≤ a.length) :
    kwParent a false [] = .ok (.nodes [Spec.ancestor a 1]) := by
  unfold kwParent
  have c1 : ¬ ((1 : Int) > (a.length : Int)) := by omega
  simp [c1, ancestor_eq_take]

/-- `parent(0)` (and any `n < 1`) is the present node. -/
theorem parent_zero_eq_spec (a : Addr) (p : Str) (z : Int) (hp : pyInt? p = some z) (hz : z < 1) :
    kwParent a false [p] = .ok (.nodes [a]) := by
  unfold kwParent
  have c1 : ¬ (z > (a.length : Int)) := by omega
  simp [hp, c1, hz]

/-- **C13**: `parent(n)` refuses to climb above the root — a YAML Path error, never a result. -/
theorem parent_refuses_above_root (a : Addr) (p : Str) (z : Int) (hp : pyInt? p = some z)
    (hz : z > (a.length : Int)) : kwParent a false [p] = .error (.ypath .generic) := by
  unfold kwParent
  simp [hp, hz, ypathErr]

/-- **C13 name()**: the key or index under which the current node is held (none at the root). -/
theorem name_eq_spec (a : Addr) : kwName a false [] = .ok (.name a.getLast?) := rfl

/-! ## unique / distinct

Full statement (not proved in this round):
`unique_eq_spec : kwUnique (.seq anc items) a inv [] = .ok (.nodes (positions whose value occurs
exactly once (inverted: more than once) among the items under Python ==))` and
`distinct_eq_spec : … = positions of the first member of each ==-class`, for lists, Array-of-Hashes
and hashes of hashes of any length.  Missing: the invariant of `groupInsert` (keys pairwise
non-equal, each group = the members equal to its key, in order), which needs `pyEq` to be an
equivalence on the member values (transitivity of `decCmp` across int/float/bool).  What is proved:
the non-complex case and the group-insertion step. -/

/-- Non-complex data is always unique and distinct; inverted `unique` yields nothing. -/
theorem unique_distinct_scalar_partial (anc : Option Str) (v : Scalar) (a : Addr) (inv : Bool) :
    kwUnique (.scalar anc v) a inv [] = .ok (.nodes (if inv then [] else [a])) ∧
    kwDistinct (.scalar anc v) a false [] = .ok (.nodes [a]) := ⟨rfl, rfl⟩

/-- One insertion: the first group whose key equals the value (Python `==`) receives the member
at its end; if there is none, a new group is opened at the end.  Group order never changes. -/
theorem distinct_groups_partial (v : Scalar) (a : Addr) : ∀ (g : Groups),
    (groupInsert g v a).map (·.1) = (if g.any (fun grp => pyEq grp.1 v) then g.map (·.1) else g.map (·.1) ++ [v])
  | [] => rfl
  | (k, as) :: rest => by
    unfold groupInsert
    cases h : pyEq k v
    · simp only [Bool.false_eq_true, if_false, List.map_cons, List.any_cons, h, Bool.false_or]
      rw [distinct_groups_partial v a rest]
      split <;> simp
    · simp [h]

/-! ## Witnesses -/

def ex1 : Node := .seq none [.scalar none (.int 2), .scalar none (.int 10), .scalar none .null,
  .scalar none (.int 9), .scalar none (.int 10)]

example : kwSearch ex1 [] false .max [] = .ok (.nodes [[.idx 1], [.idx 4]]) := by decide +kernel
example : kwSearch ex1 [] true .max [] = .ok (.nodes [[.idx 0], [.idx 2], [.idx 3]]) := by decide +kernel
example : kwSearch ex1 [] false .min [] = .ok (.nodes [[.idx 0]]) := by decide +kernel
example : kwSearch ex1 [] false .unique [] = .ok (.nodes [[.idx 0], [.idx 2], [.idx 3]]) := by decide +kernel
example : kwSearch ex1 [] true .unique [] = .ok (.nodes [[.idx 1], [.idx 4]]) := by decide +kernel
example : kwSearch ex1 [] false .distinct [] = .ok (.nodes [[.idx 0], [.idx 1], [.idx 2], [.idx 3]]) := by
  decide +kernel
example : candsList [] [.scalar none (.int 2), .scalar none .null] 0
    = .ok [([.idx 0], some (.int 2)), ([.idx 1], none)] := by decide +kernel
/-- the hypothesis of `max_eq_spec` is met by a concrete list of ints -/
example : ScanOrder .gt intLe [.int 2, .int 10, .int 9] :=
  scanOrder_ints_max _ (by intro v hv; simp at hv; rcases hv with rfl | rfl | rfl <;> exact ⟨_, rfl⟩)

def aoh : Node := .seq none [.map none [(.str ['a'], .scalar none (.int 5))],
  .map none [(.str ['a'], .scalar none .null)], .map none [(.str ['b'], .scalar none (.int 1))]]

/-- a null attribute is not comparable: the member is never the maximum (the pinned code returned
it: `fixes/C13-1.patch`) -/
example : kwSearch aoh [] false .max ['a'] = .ok (.nodes [[.idx 0]]) := by decide +kernel
example : kwSearch aoh [] true .max ['a'] = .ok (.nodes [[.idx 1], [.idx 2]]) := by decide +kernel
example : kwSearch aoh [] false .hasChild ['a'] = .ok (.nodes [[.idx 0], [.idx 1]]) := by decide +kernel
example : kwSearch aoh [] true .hasChild ['a'] = .ok (.nodes [[.idx 2]]) := by decide +kernel
example : kwSearch aoh [.key (.str ['l']), .idx 1] false .parent ['1'] = .ok (.nodes [[.key (.str ['l'])]]) := by
  decide +kernel
example : kwSearch aoh [.key (.str ['l'])] false .parent ['2'] = .error (.ypath .generic) := by decide +kernel
example : kwSearch aoh [.key (.str ['l']), .idx 1] false .name [] = .ok (.name (some (.idx 1))) := by decide +kernel
/-- the splitter's `ValueError` and a list holding a hash under `unique()` (C15's `TypeError`) -/
example : splitParams "'a".toList = .error (.crash .valueError) := by decide +kernel
example : kwSearch (.seq none [.scalar none (.str ['a']), .map none []]) [] false .unique []
    = .error (.crash .typeError) := by decide +kernel

end Ypv.C13
