/-! C06 — property theorems (stub; no obligations yet) -/
