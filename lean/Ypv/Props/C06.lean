import Ypv.Lemmas.Diff
import Ypv.Lemmas.DiffKey
import Ypv.Lemmas.DiffAll
import Ypv.Lemmas.DiffRules
/-!
# C06 — a diff is truthful and complete; it is empty of changes iff the data are equal

The property theorems about the model `Ypv.Diff` (`Model/Diff.lean`) of `yamlpath.differ`.
The definitions the statements use (`clean`, `dataEq`, `msEq`, `Balanced`, `leaves`, `covers`, `wf`,
`keyed`, `Positional`, `NoKeySync`, `keyPairEntries`, `valuePairEntries`) are in `Spec/Diff.lean`;
the proofs are in `Lemmas/Diff.lean` (namespace `Ypv.Diff.Proofs`) and are only referred to here.

`s : Bool` is the `strict` flag of the model: `s = false` is the code (`report c l r = diff false c l r`),
`s = true` the variant that reports a null / an empty container at its own path (finding C06-K1).
-/
namespace Ypv.C06
open Ypv Ypv.Diff

/-! ## Truthfulness and completeness under positional comparison -/

/-- **Under positional comparison every entry of a diff is true of the two documents.**
For every entry `e` of the report (`s = false`: the code; also for the strict variant):
a SAME/CHANGE/DELETE entry's left value is what the left document holds at `e.path`,
a SAME/CHANGE/ADD entry's right value is what the right document holds there, SAME values are
equal, CHANGE values differ, an ADD has no left and a DELETE no right value. -/
theorem diff_truthful (s : Bool) (c : Cfg) (hc : Positional c) (l r : Node)
    (hl : wf l = true) (hr : wf r = true) (e : Entry) (he : e ∈ diff s c l r) :
    (e.action ≠ .add → e.lhs.isSome ∧ e.lhs = l.get? e.path)
    ∧ (e.action ≠ .delete → e.rhs.isSome ∧ e.rhs = r.get? e.path)
    ∧ (e.action = .add → e.lhs = none) ∧ (e.action = .delete → e.rhs = none)
    ∧ (e.action = .same → ∃ a b, e.lhs = some a ∧ e.rhs = some b ∧ eqv a b = true)
    ∧ (e.action = .change → ∃ a b, e.lhs = some a ∧ e.rhs = some b ∧ eqv a b = false) := by
  first
    | exact Ypv.Diff.Proofs.diff_truthful ..
    | (apply Ypv.Diff.Proofs.diff_truthful <;> assumption)

/-- **Under positional comparison every leaf of either document is covered by an entry at its
path or at an ancestor path** — a left leaf by a SAME/CHANGE/DELETE entry, a right leaf by a
SAME/CHANGE/ADD entry — in the strict report. -/
theorem diff_complete_strict (c : Cfg) (hc : Positional c) (l r : Node) (hl : wf l = true) (hr : wf r = true) :
    (∀ a ∈ leaves l, ∃ e ∈ diff true c l r, e.action ≠ .add ∧ covers e.path a)
    ∧ (∀ a ∈ leaves r, ∃ e ∈ diff true c l r, e.action ≠ .delete ∧ covers e.path a) := by
  first
    | exact Ypv.Diff.Proofs.diff_complete_strict ..
    | (apply Ypv.Diff.Proofs.diff_complete_strict <;> assumption)

/-- (`_partial`: the class of finding C06-K1 is excluded by the decidable hypothesis `hv`; the full
statement — without `hv` — is false for the code, witness below, and is `diff_complete_strict` for
the strict variant.)
**Completeness of the code's report**, on every pair of documents outside the class of finding
C06-K1 (`report c l r = diff true c l r`, decidable). -/
theorem diff_complete_partial (c : Cfg) (hc : Positional c) (l r : Node) (hl : wf l = true) (hr : wf r = true)
    (hv : report c l r = diff true c l r) :
    (∀ a ∈ leaves l, ∃ e ∈ report c l r, e.action ≠ .add ∧ covers e.path a)
    ∧ (∀ a ∈ leaves r, ∃ e ∈ report c l r, e.action ≠ .delete ∧ covers e.path a) := by
  first
    | exact Ypv.Diff.Proofs.diff_complete_partial ..
    | (apply Ypv.Diff.Proofs.diff_complete_partial <;> assumption)

/-! ## Clean ⇔ equal as data -/

/-- **The strict report is clean exactly when the two documents are equal as data** (`dataEq`), in
every array mode and the AoH modes `position`, `dpos` and `value`: position by position, or — under
value synchronisation — as multisets of `==`-equal elements (`msEq_iff_balanced`). -/
theorem diff_clean_iff_dataEq_strict (c : Cfg) (hc : NoKeySync c) (l r : Node)
    (hl : wf l = true) (hr : wf r = true) : clean (diff true c l r) = true ↔ dataEq c l r = true := by
  first
    | exact Ypv.Diff.Proofs.diff_clean_iff_dataEq_strict ..
    | (apply Ypv.Diff.Proofs.diff_clean_iff_dataEq_strict <;> assumption)

/- FULL STATEMENT
     theorem diff_clean_iff_dataEq (c : Cfg) (l r : Node) (hl : wf l) (hr : wf r)
         (hu : UniqueIdentityKeys c l r)   -- only a condition for c.aoh ∈ {key, deep}
         (hv : report c l r = diff true c l r) :
         clean (report c l r) = true ↔ dataEq c l r = true
   for every array mode and AoH mode: PROVED as `diff_clean_iff_dataEq_all_partial` below (section "Every array
   mode × every AoH mode"), with `UniqueIdentityKeys := idOk` (Spec/Diff.lean, decidable; finding C06-K2's class
   is its negation) and `hv` excluding finding C06-K1's class.  The theorems of this section are its instances
   for the modes without identity-key synchronisation (`idOk_of_noKeySync`: `idOk` holds of every pair there). -/

/-- (`_partial`: AoH modes `key`/`deep` not covered; the class of finding C06-K1 is excluded by the
decidable hypothesis `hv`.)  **The report of the code is clean exactly when the documents are
equal as data.** -/
theorem diff_clean_iff_dataEq_partial (c : Cfg) (hc : NoKeySync c) (l r : Node)
    (hl : wf l = true) (hr : wf r = true) (hv : report c l r = diff true c l r) :
    clean (report c l r) = true ↔ dataEq c l r = true := by
  first
    | exact Ypv.Diff.Proofs.diff_clean_iff_dataEq_partial ..
    | (apply Ypv.Diff.Proofs.diff_clean_iff_dataEq_partial <;> assumption)

/-- **Documents that are equal under Python `==` give a clean report** in every array mode and the
AoH modes `position`, `dpos`, `value` (for the code and for the strict variant): under value
synchronisation the greedy first-match pairing leaves no element unpaired, because `==` is an
equivalence on well-formed documents (`eqv_symm`, `eqv_trans`, `syncLoop_balanced`). -/
theorem diff_clean_of_eqv (s : Bool) (c : Cfg) (hc : NoKeySync c) (l r : Node)
    (hl : wf l = true) (hr : wf r = true) (h : eqv r l = true) : clean (diff s c l r) = true := by
  first
    | exact Ypv.Diff.Proofs.diff_clean_of_eqv ..
    | (apply Ypv.Diff.Proofs.diff_clean_of_eqv <;> assumption)

/-- **Meaning of the value-synchronised comparison of the specification**: the greedy `msEq` succeeds
exactly when the two lists hold the same number of elements of every `==`-class (multiset equality
up to Python `==`). -/
theorem msEq_iff_balanced : ∀ (xs ys : List Node), (∀ x ∈ xs, wf x = true) → (∀ y ∈ ys, wf y = true) →
    (msEq (fun x y => eqv y x) xs ys = true ↔ Balanced xs ys) := by
  first
    | exact Ypv.Diff.Proofs.msEq_iff_balanced ..
    | (apply Ypv.Diff.Proofs.msEq_iff_balanced <;> assumption)

/-- a reordering of a list is equal to it as data under value synchronisation -/
theorem msEq_of_perm (xs ys : List Node) (hwx : ∀ x ∈ xs, wf x = true) (hp : xs.Perm ys) :
    msEq (fun x y => eqv y x) xs ys = true := by
  first
    | exact Ypv.Diff.Proofs.msEq_of_perm ..
    | (apply Ypv.Diff.Proofs.msEq_of_perm <;> assumption)

/-- **One list level of `--aoh key`**: when every left record carries the identity key and no two
right records share an identity value, the KEY report of the two record lists is clean exactly when
the lists are equal as multisets of `==`-equal records (the specification's `dataEq` for this mode).
Without the hypotheses the statement fails on the code (finding C06-K2). -/
theorem key_clean_iff_msEq (s : Bool) (c : Cfg) (q : Addr) (ka : Key) : ∀ (xs : List Node) (i : Nat) (rem : List (Nat × Node)),
    (∀ x ∈ xs, wf x = true) → (∀ y ∈ rem, wf y.2 = true) → (∀ x ∈ xs, hasIdentity ka x = true) →
    (rem.map (fun p => p.2)).Pairwise (fun a b => keyMatch ka a b = false) →
    clean (diffKey s c q false ka i xs rem) = msEq (fun x y => eqv x y) xs (rem.map (fun p => p.2)) := by
  first
    | exact Ypv.Diff.Proofs.key_clean_iff_msEq ..
    | (apply Ypv.Diff.Proofs.key_clean_iff_msEq <;> assumption)

/-- `key_clean_iff_msEq` at the root of two documents that are record lists compared under
`--aoh key`: the report (of the code and of the strict variant) is clean exactly when the two
lists are equal as data. -/
theorem diff_clean_iff_dataEq_key_root (s : Bool) (c : Cfg) (a b : Option Str) (xs ys : List Node)
    (hm : listMode c xs ys = .key) (hl : wf (.seq a xs) = true) (hr : wf (.seq b ys) = true)
    (hid : ∀ x ∈ xs, hasIdentity (keyAttr ys) x = true)
    (hpw : ys.Pairwise (fun u v => keyMatch (keyAttr ys) u v = false)) :
    clean (diff s c (.seq a xs) (.seq b ys)) = dataEq c (.seq a xs) (.seq b ys) := by
  first
    | exact Ypv.Diff.Proofs.diff_clean_iff_dataEq_key_root ..
    | (apply Ypv.Diff.Proofs.diff_clean_iff_dataEq_key_root <;> assumption)

/-! ## A document compared with itself -/

/-- **A document compared with itself shows no difference** — in every array mode and every
Array-of-Hashes mode, for the code as it is (`s = false`) and for the strict variant.
`wf`: mapping keys / set members are distinct (Python guarantees it).  `keyed c l`: under the
identity-key modes (`key`, `deep`) every record of a synchronised list carries the identity key
(no condition in the other modes; without it the code reports the key-less record as deleted and
added: finding C06-K2, witness below). -/
theorem diff_refl (s : Bool) (c : Cfg) (l : Node) (hw : wf l = true) (hk : keyed c l = true) :
    clean (diff s c l l) = true := by
  first
    | exact Ypv.Diff.Proofs.diff_refl ..
    | (apply Ypv.Diff.Proofs.diff_refl <;> assumption)

/-- in the modes without identity keys `keyed` holds for every document -/
theorem keyed_of_no_key_sync (c : Cfg) (h : c.aoh ≠ .key ∧ c.aoh ≠ .deep) : ∀ (l : Node), keyed c l = true := by
  first
    | exact Ypv.Diff.Proofs.keyed_of_no_key_sync ..
    | (apply Ypv.Diff.Proofs.keyed_of_no_key_sync <;> assumption)

/-! ## Accounting of a synchronisation -/

/-- Each left element appears exactly once (in order, with its own index) among the tuples of a
synchronisation, each right element exactly once (the right sides of the tuples are a permutation
of the indexed right list), every tuple is a matched pair for which the matcher holds, a lone left
element, or a lone right element.  Holds for every matcher, hence for
`synchronize_lists_by_value` and `synchronize_lods_by_key`.  Proved by induction over the loop
with the list of remaining right elements (`rhs_reduced`) as the invariant. -/
theorem sync_accounting (m : Node → Node → Bool) (xs ys : List Node) :
    (sync m xs ys).filterMap (fun p => p.l) = enumFrom 0 xs
    ∧ ((sync m xs ys).filterMap (fun p => p.r)).Perm (enumFrom 0 ys)
    ∧ (∀ p ∈ sync m xs ys,
        (∃ a b, p = ⟨some a, some b⟩ ∧ m a.2 b.2 = true) ∨ (∃ a, p = ⟨some a, none⟩) ∨ (∃ b, p = ⟨none, some b⟩)) := by
  first
    | exact Ypv.Diff.Proofs.sync_accounting ..
    | (apply Ypv.Diff.Proofs.sync_accounting <;> assumption)

/-- the indices on the two sides: `0 … len-1`, each once -/
theorem sync_indices (m : Node → Node → Bool) (xs ys : List Node) :
    ((sync m xs ys).filterMap (fun p => p.l)).map (fun a => a.1) = List.range' 0 xs.length
    ∧ (((sync m xs ys).filterMap (fun p => p.r)).map (fun a => a.1)).Perm (List.range' 0 ys.length) := by
  first
    | exact Ypv.Diff.Proofs.sync_indices ..
    | (apply Ypv.Diff.Proofs.sync_indices <;> assumption)

/-- The KEY/DEEP report of two record lists is, tuple by tuple, what the synchronisation says:
a matched pair is compared (one SAME/CHANGE entry, or the pair's own diff), a lone left record is
one DELETE, a lone right record one ADD.  With `sync_accounting`: every left record is accounted
for exactly once as same/changed/deleted and every right record exactly once as same/changed/added. -/
theorem key_report_follows_sync (s : Bool) (c : Cfg) (p : Addr) (deep : Bool) (ka : Key) :
    ∀ (xs : List Node) (i : Nat) (rem : List (Nat × Node)),
    diffKey s c p deep ka i xs rem = (syncLoop (keyMatch ka) i xs rem).flatMap (keyPairEntries s c p deep) := by
  first
    | exact Ypv.Diff.Proofs.key_report_follows_sync ..
    | (apply Ypv.Diff.Proofs.key_report_follows_sync <;> assumption)

/-- The value-synchronised report, before the pending ADDs are merged with DELETEs at the same
path: the entries of the matched and lone left elements follow the tuples of
`synchronize_lists_by_value`, and the elements still to be added are exactly its lone right elements. -/
theorem value_report_follows_sync (s : Bool) (c : Cfg) (p : Addr) :
    ∀ (xs : List Node) (i : Nat) (rem : List (Nat × Node)),
    (diffValue s c p i xs rem).1 = (syncLoop (fun x y => eqv y x) i xs rem).flatMap (valuePairEntries s c p)
    ∧ (diffValue s c p i xs rem).2
        = (syncLoop (fun x y => eqv y x) i xs rem).filterMap (fun q => match q with | ⟨none, some b⟩ => some b | _ => none) := by
  first
    | exact Ypv.Diff.Proofs.value_report_follows_sync ..
    | (apply Ypv.Diff.Proofs.value_report_follows_sync <;> assumption)

/-! ## Exit status -/

/-- `yaml-diff` exits with 0 exactly when the report has no entry other than SAME
(`print_report`'s `changes_found` flag, `exit_state = 1 if … else 0`). -/
theorem exit_zero_iff_clean (rep : List Entry) : exitStatus rep = 0 ↔ clean rep = true := by
  first
    | exact Ypv.Diff.Proofs.exit_zero_iff_clean ..
    | (apply Ypv.Diff.Proofs.exit_zero_iff_clean <;> assumption)

/-- (`_partial`: same restrictions as `diff_clean_iff_dataEq_partial`.)  **`yaml-diff` exits with 0
exactly when the two documents are equal as data** (used by C16). -/
theorem diff_exit_zero_iff_dataEq_partial (c : Cfg) (hc : NoKeySync c) (l r : Node)
    (hl : wf l = true) (hr : wf r = true) (hv : report c l r = diff true c l r) :
    exitStatus (report c l r) = 0 ↔ dataEq c l r = true := by
  first
    | exact Ypv.Diff.Proofs.diff_exit_zero_iff_dataEq_partial ..
    | (apply Ypv.Diff.Proofs.diff_exit_zero_iff_dataEq_partial <;> assumption)

/-! ## Document level of the identity-key mode `--aoh key` -/

open Ypv.Diff.KeyDoc in
/-- **`--aoh key` at DOCUMENT level (strict report).**  Array mode `position`, AoH mode `key`
(`KeyPos c`), any two well-formed documents: if at every pair of record lists the comparison reaches —
through mapping entries with the same key and list elements at the same position, to any depth — every
left record carries the identity key and no two right records share an identity value (`idOk c l r`,
decidable, Spec/Diff.lean; its negation is finding C06-K2's class), then the report is clean exactly when
the documents are equal as data: mappings key by key, plain lists position by position, record lists as
multisets of `==`-equal records.  (`key_clean_iff_msEq` threaded through the document recursion.) -/
theorem diff_clean_iff_dataEq_key_strict (c : Cfg) (hc : KeyPos c) (l r : Node)
    (hl : wf l = true) (hr : wf r = true) (hid : idOk c l r = true) :
    clean (diff true c l r) = true ↔ dataEq c l r = true :=
  Ypv.Diff.KeyDoc.diff_clean_iff_dataEq_key_strict c hc l r hl hr hid

open Ypv.Diff.KeyDoc in
/-- (`_partial`: the classes of findings C06-K1 — `hv` — and C06-K2 — `hid` — are excluded by decidable
hypotheses; array mode `position` — `diff_clean_iff_dataEq_all_partial` below covers every array and AoH mode.)
**The report of the code under `--aoh key` is clean exactly when the documents are equal as data.** -/
theorem diff_clean_iff_dataEq_key_partial (c : Cfg) (hc : KeyPos c) (l r : Node)
    (hl : wf l = true) (hr : wf r = true) (hid : idOk c l r = true)
    (hv : report c l r = diff true c l r) :
    clean (report c l r) = true ↔ dataEq c l r = true := by
  rw [hv]; exact Ypv.Diff.KeyDoc.diff_clean_iff_dataEq_key_strict c hc l r hl hr hid

open Ypv.Diff.KeyDoc in
/-- … and `yaml-diff --aoh key` exits with 0 exactly then -/
theorem diff_exit_zero_iff_dataEq_key_partial (c : Cfg) (hc : KeyPos c) (l r : Node)
    (hl : wf l = true) (hr : wf r = true) (hid : idOk c l r = true)
    (hv : report c l r = diff true c l r) :
    exitStatus (report c l r) = 0 ↔ dataEq c l r = true :=
  (Ypv.Diff.Proofs.exit_zero_iff_clean _).trans (diff_clean_iff_dataEq_key_partial c hc l r hl hr hid hv)

/-- `{a: [{id: 1, v: x}, {id: 2}], b: [[{id: 1}]]}` against the same with the records of `a` swapped and
then with `v` changed: the hypotheses hold (nested record lists included), equal / different as data -/
def keyL : Node := .map none
  [(.str ['a'], .seq none [.map none [(.str "id".toList, .scalar none (.int 1)), (.str ['v'], .scalar none (.str ['x']))],
                          .map none [(.str "id".toList, .scalar none (.int 2))]]),
   (.str ['b'], .seq none [.seq none [.map none [(.str "id".toList, .scalar none (.int 1))]]])]
def keyR (v : Char) : Node := .map none
  [(.str ['a'], .seq none [.map none [(.str "id".toList, .scalar none (.int 2))],
                          .map none [(.str "id".toList, .scalar none (.int 1)), (.str ['v'], .scalar none (.str [v]))]]),
   (.str ['b'], .seq none [.seq none [.map none [(.str "id".toList, .scalar none (.int 1))]]])]
example : Ypv.Diff.KeyDoc.KeyPos ⟨.position, .key⟩ ∧ wf keyL = true ∧ wf (keyR 'x') = true ∧
    idOk ⟨.position, .key⟩ keyL (keyR 'x') = true ∧ idOk ⟨.position, .key⟩ keyL (keyR 'y') = true ∧
    report ⟨.position, .key⟩ keyL (keyR 'x') = diff true ⟨.position, .key⟩ keyL (keyR 'x') ∧
    clean (report ⟨.position, .key⟩ keyL (keyR 'x')) = true ∧ dataEq ⟨.position, .key⟩ keyL (keyR 'x') = true ∧
    clean (report ⟨.position, .key⟩ keyL (keyR 'y')) = false ∧ dataEq ⟨.position, .key⟩ keyL (keyR 'y') = false := by
  decide +kernel
/-- finding C06-K2 below a mapping key: `{a: [{x: 1}, {y: 2}]}` against itself — `idOk` fails (the
second record has no identity key `x`), the report is not clean although the documents are equal -/
example :
    let d : Node := .map none [(.str ['a'], .seq none [.map none [(.str ['x'], .scalar none (.int 1))],
                                                       .map none [(.str ['y'], .scalar none (.int 2))]])]
    idOk ⟨.position, .key⟩ d d = false ∧ clean (report ⟨.position, .key⟩ d d) = false ∧
      dataEq ⟨.position, .key⟩ d d = true := by decide +kernel

/-! ## Every array mode × every AoH mode (`--aoh key` with `--arrays value`, `--aoh deep`) -/

/-- **Clean ⇔ equal as data, every array mode × every AoH mode (strict report).**  Any two well-formed
documents, any `c`: if `idOk c l r` — at every pair of lists the comparison can reach (mapping entries with
the same key, list elements at the same position, under value synchronisation every pair of `==`-equal
elements, under `deep` every pair of records with equal identity values; to any depth) that is synchronised
by identity key, every left record carries the identity key (under `deep`: with a scalar identity value) and
no two right records share an identity value (decidable, Spec/Diff.lean; its negation is finding C06-K2's
class) — then the report is clean exactly when the documents are equal as data (`dataEq`): mappings key by
key, sets member by member, lists position by position / as multisets of `==`-equal elements (value, key) /
as multisets of records that are again equal as data (`deep`, the recursive `dataEqMs`).
Proof (`Lemmas/DiffAll.lean`): `keysync_clean_iff` — the lockstep induction over `synchronize_lods_by_key`
for a pair relation that implies "same identity value" (`keyMatch_of_dataEq`), the pair's own diff in place
of the whole-record comparison; `dataEq_of_eqv_node` — `==`-equal documents are equal as data in every mode,
so that the second comparison of a value-matched pair is clean. -/
theorem diff_clean_iff_dataEq_all_strict (c : Cfg) (l r : Node)
    (hl : wf l = true) (hr : wf r = true) (hid : idOk c l r = true) :
    clean (diff true c l r) = true ↔ dataEq c l r = true :=
  Ypv.Diff.AllModes.diff_clean_iff_dataEq_all_strict c l r hl hr hid

/-- (`_partial`: the classes of findings C06-K1 — `hv` — and C06-K2 — `hid` — are excluded by decidable
hypotheses; nothing else is.)  **The report of the code is clean exactly when the documents are equal as
data — every array mode, every AoH mode.** -/
theorem diff_clean_iff_dataEq_all_partial (c : Cfg) (l r : Node)
    (hl : wf l = true) (hr : wf r = true) (hid : idOk c l r = true)
    (hv : report c l r = diff true c l r) :
    clean (report c l r) = true ↔ dataEq c l r = true := by
  rw [hv]; exact Ypv.Diff.AllModes.diff_clean_iff_dataEq_all_strict c l r hl hr hid

/-- … and `yaml-diff` exits with 0 exactly then -/
theorem diff_exit_zero_iff_dataEq_all_partial (c : Cfg) (l r : Node)
    (hl : wf l = true) (hr : wf r = true) (hid : idOk c l r = true)
    (hv : report c l r = diff true c l r) :
    exitStatus (report c l r) = 0 ↔ dataEq c l r = true :=
  (Ypv.Diff.Proofs.exit_zero_iff_clean _).trans (diff_clean_iff_dataEq_all_partial c l r hl hr hid hv)

/-- `idOk` is no condition in the modes without identity-key synchronisation (so the two theorems above
contain `diff_clean_iff_dataEq_strict` / `_partial`) -/
theorem idOk_of_noKeySync (c : Cfg) (hc : NoKeySync c) (l r : Node) : idOk c l r = true :=
  Ypv.Diff.AllModes.idOk_of_noKeySync c hc l r

/-- **Documents equal under Python `==` are equal as data** in every mode (under `idOk`) -/
theorem dataEq_of_eqv (c : Cfg) (l r : Node) (hl : wf l = true) (hr : wf r = true)
    (h : eqv r l = true) (hid : idOk c l r = true) : dataEq c l r = true :=
  Ypv.Diff.AllModes.dataEq_of_eqv_node c l r hl hr h hid

/-- `--aoh deep --arrays value`: `[{id: 1, items: [{id: a, v: 1}, {id: b, v: 2}], tags: [x, y]}, {id: 2}]`
against the same with the records swapped at both levels and the tags reordered (`v` of record `b` = `w`) -/
def deepL : Node := .seq none
  [.map none [(.str "id".toList, .scalar none (.int 1)),
              (.str "items".toList, .seq none [.map none [(.str "id".toList, .scalar none (.str ['a'])), (.str ['v'], .scalar none (.int 1))],
                                               .map none [(.str "id".toList, .scalar none (.str ['b'])), (.str ['v'], .scalar none (.int 2))]]),
              (.str "tags".toList, .seq none [.scalar none (.str ['x']), .scalar none (.str ['y'])])],
   .map none [(.str "id".toList, .scalar none (.int 2))]]
def deepR (w : Int) : Node := .seq none
  [.map none [(.str "id".toList, .scalar none (.int 2))],
   .map none [(.str "id".toList, .scalar none (.int 1)),
              (.str "items".toList, .seq none [.map none [(.str "id".toList, .scalar none (.str ['b'])), (.str ['v'], .scalar none (.int w))],
                                               .map none [(.str "id".toList, .scalar none (.str ['a'])), (.str ['v'], .scalar none (.int 1))]]),
              (.str "tags".toList, .seq none [.scalar none (.str ['y']), .scalar none (.str ['x'])])]]
example : wf deepL = true ∧ wf (deepR 2) = true ∧
    idOk ⟨.value, .deep⟩ deepL (deepR 2) = true ∧ idOk ⟨.value, .deep⟩ deepL (deepR 3) = true ∧
    report ⟨.value, .deep⟩ deepL (deepR 2) = diff true ⟨.value, .deep⟩ deepL (deepR 2) ∧
    clean (report ⟨.value, .deep⟩ deepL (deepR 2)) = true ∧ dataEq ⟨.value, .deep⟩ deepL (deepR 2) = true ∧
    eqv (deepR 2) deepL = false ∧
    clean (report ⟨.value, .deep⟩ deepL (deepR 3)) = false ∧ dataEq ⟨.value, .deep⟩ deepL (deepR 3) = false := by
  decide +kernel
/-- `--aoh key --arrays value`: `[[{id: 1}, {id: 2}], 7]` against `[7, [{id: 1}, {id: 2}]]` — the value-matched
inner record lists are compared again by identity key; hypotheses met, clean and equal as data -/
example :
    let l : Node := .seq none [.seq none [.map none [(.str "id".toList, .scalar none (.int 1))],
                                          .map none [(.str "id".toList, .scalar none (.int 2))]], .scalar none (.int 7)]
    let r : Node := .seq none [.scalar none (.int 7),
                               .seq none [.map none [(.str "id".toList, .scalar none (.int 1))],
                                          .map none [(.str "id".toList, .scalar none (.int 2))]]]
    idOk ⟨.value, .key⟩ l r = true ∧ report ⟨.value, .key⟩ l r = diff true ⟨.value, .key⟩ l r ∧
      clean (report ⟨.value, .key⟩ l r) = true ∧ dataEq ⟨.value, .key⟩ l r = true := by decide +kernel
/-- finding C06-K2 inside a value-matched pair: `[[{x: 1}, {y: 2}]]` against itself under
`--aoh key --arrays value` — `idOk` fails, the report is not clean although the documents are equal -/
example :
    let d : Node := .seq none [.seq none [.map none [(.str ['x'], .scalar none (.int 1))],
                                          .map none [(.str ['y'], .scalar none (.int 2))]]]
    idOk ⟨.value, .key⟩ d d = false ∧ clean (report ⟨.value, .key⟩ d d) = false ∧
      dataEq ⟨.value, .key⟩ d d = true := by decide +kernel
/-- finding C06-K2 under `--aoh deep`: a container identity value — `[{id: [1, 2]}]` against `[{id: [2, 1]}]`
with `--arrays value` is equal as data, the identity values are not `==`: DELETE + ADD; `idOk` fails.
Likewise two right records sharing an identity value. -/
example :
    let l : Node := .seq none [.map none [(.str "id".toList, .seq none [.scalar none (.int 1), .scalar none (.int 2)])]]
    let r : Node := .seq none [.map none [(.str "id".toList, .seq none [.scalar none (.int 2), .scalar none (.int 1)])]]
    let d : Node := .seq none [.map none [(.str "id".toList, .scalar none (.int 1))], .map none [(.str "id".toList, .scalar none (.int 1))]]
    idOk ⟨.value, .deep⟩ l r = false ∧ clean (report ⟨.value, .deep⟩ l r) = false ∧ dataEq ⟨.value, .deep⟩ l r = true ∧
      idOk ⟨.position, .deep⟩ d d = false := by decide +kernel

/-! ## Per-path comparison modes: the `[rules]` / `[keys]` sections of the configuration file

`Model/DiffRules.lean` (namespace `Ypv.Diff.Rules`): the comparers with the coordinate (node, parent, parentref) of
the right-hand node threaded through, `_get_config_for`, `array_diff_mode` / `aoh_diff_mode` / `aoh_diff_key` with the
precedence `[rules]` > command line > `[defaults]` > POSITION; `Rules.report glob rules keys l r` takes the addresses
of the nodes of `r` that `DifferConfig.prepare` matched.  Outcome: a report or a `Crash`. -/

/-- **`_get_config_for` returns the text of the FIRST stored entry whose node, parent and parentref are `==`
(Python equality, not identity) to those of the node asked about** — `""` when there is none. -/
theorem get_config_for_first_match (es : List Rules.RuleEntry) (q : Rules.Coord) :
    Rules.getConfigFor es q = match es.find? (fun e => Rules.coordMatch e.nc q) with
      | some e => e.text
      | none => [] :=
  Rules.getConfigFor_eq_find es q

/-- **Without a configuration file the per-path model is the model of the global modes**: same report, no crash —
for every document pair, both `strict` values, every array × AoH mode.  (So every theorem above is a theorem
about `Rules.diff` at `PCfg.plain c`.) -/
theorem rules_plain_is_global (s : Bool) (c : Cfg) (l r : Node) :
    Rules.diff s (Rules.PCfg.plain c) l r = .ok (diff s c l r) :=
  Rules.plain_node s c l r [] none none

/-- **`diff_truthful` under per-path modes.**  Any configuration `pc` (global modes, `[rules]`, `[keys]` entries as
`DifferConfig.prepare` stores them), any two well-formed documents: if every pair of lists the comparison reaches —
through mapping entries with the same key and list elements at the same position — resolves to a positional
comparison under `pc` (`Rules.posReach`, decidable, Spec/DiffRules.lean: the `[rules]` entry found the way
`_get_config_for` finds it, else the command line, else `[defaults]`, else POSITION; no mode text that makes
`from_str` raise), then `compare_to` returns a report and every entry of it is true of the two documents: a
SAME/CHANGE/DELETE entry's left value is what the left document holds at `e.path`, a SAME/CHANGE/ADD entry's right
value is what the right document holds there, SAME values are equal, CHANGE values differ, an ADD has no left and a
DELETE no right value.  Contains `diff_truthful` (`posReach_plain` + `rules_plain_is_global`); a `[rules]` entry
`position` restores truthfulness for its list under `--arrays value` (witness below); where an entry is captured
by an equal list elsewhere (finding C06-K3) `posReach` fails and so does truthfulness (witness below). -/
theorem diff_truthful_rules (s : Bool) (pc : Rules.PCfg) (l r : Node)
    (hl : wf l = true) (hr : wf r = true) (hp : Rules.posReach pc none none l r = true) :
    ∃ rep, Rules.diff s pc l r = .ok rep ∧ ∀ e ∈ rep,
      (e.action ≠ .add → e.lhs.isSome ∧ e.lhs = l.get? e.path)
      ∧ (e.action ≠ .delete → e.rhs.isSome ∧ e.rhs = r.get? e.path)
      ∧ (e.action = .add → e.lhs = none) ∧ (e.action = .delete → e.rhs = none)
      ∧ (e.action = .same → ∃ a b, e.lhs = some a ∧ e.rhs = some b ∧ eqv a b = true)
      ∧ (e.action = .change → ∃ a b, e.lhs = some a ∧ e.rhs = some b ∧ eqv a b = false) := by
  obtain ⟨rep, h1, h2⟩ := Rules.truthful_node s pc l r [] none none hl hr hp
  refine ⟨rep, h1, ?_⟩
  intro e he
  cases h2 e he with
  | same q a b h1 h2 h3 => simp [h1, h2, h3]
  | change q a b h1 h2 h3 => simp [h1, h2, h3]
  | delete q a h1 => simp [h1]
  | add q b h2 => simp [h2]

/-- with no `[rules]` the hypothesis of `diff_truthful_rules` is `Positional` of the global modes -/
theorem posReach_plain (c : Cfg) (hc : Positional c) (l r : Node) :
    Rules.posReach (Rules.PCfg.plain c) none none l r = true :=
  Rules.posReach_plain c hc l r none none

/-- `{a: [1, 2]}` against `{a: [2, 1]}` with `--arrays value` and the rule `/a = position`: the hypothesis holds and
the list is compared by position (two CHANGE entries); without the rule it is synchronised by value (clean) -/
example :
    let l : Node := .map none [(.str ['a'], .seq none [.scalar none (.int 1), .scalar none (.int 2)])]
    let r : Node := .map none [(.str ['a'], .seq none [.scalar none (.int 2), .scalar none (.int 1)])]
    let pc := Rules.prepare ⟨.value, .position⟩ r [([.key (.str ['a'])], "position".toList)] []
    Rules.posReach pc none none l r = true ∧
    Rules.diff false pc l r = .ok [⟨.change, [.key (.str ['a']), .idx 0], some (.scalar none (.int 1)), some (.scalar none (.int 2))⟩,
                                   ⟨.change, [.key (.str ['a']), .idx 1], some (.scalar none (.int 2)), some (.scalar none (.int 1))⟩] ∧
    Rules.posReach (Rules.PCfg.plain ⟨.value, .position⟩) none none l r = false ∧
    clean (report ⟨.value, .position⟩ l r) = true := by decide +kernel

/-- finding C06-K3 on the model: rule `/a/p = value`, right document `{a: {p: [1, 2]}, b: [{p: [1, 2]}]}`, left
`b[0].p = [2, 1]`, `--aoh dpos`.  The entry stored for `a.p` is found for `b[0].p` too (equal list, equal parent, same
key): that list is synchronised by value, `posReach` fails, and the report says `SAME b[0].p[0] 2 2` although the
right document holds `1` there. -/
example :
    let p12 : Node := .seq none [.scalar none (.int 1), .scalar none (.int 2)]
    let p21 : Node := .seq none [.scalar none (.int 2), .scalar none (.int 1)]
    let l : Node := .map none [(.str ['a'], .map none [(.str ['p'], p12)]), (.str ['b'], .seq none [.map none [(.str ['p'], p21)]])]
    let r : Node := .map none [(.str ['a'], .map none [(.str ['p'], p12)]), (.str ['b'], .seq none [.map none [(.str ['p'], p12)]])]
    let pc := Rules.prepare ⟨.position, .dpos⟩ r [([.key (.str ['a']), .key (.str ['p'])], "value".toList)] []
    let bp0 : Addr := [.key (.str ['b']), .idx 0, .key (.str ['p']), .idx 0]
    Rules.getConfigFor pc.rules ⟨p12, some (.map none [(.str ['p'], p12)]), some (.str ['p'])⟩ = "value".toList ∧
    Rules.posReach pc none none l r = false ∧
    (match Rules.diff false pc l r with
     | .ok rep => rep.any (fun e => e == ⟨.same, bp0, some (.scalar none (.int 2)), some (.scalar none (.int 2))⟩)
     | .error _ => false) = true ∧
    r.get? bp0 = some (.scalar none (.int 1)) := by decide +kernel

/-- findings C06-K4 / C06-K5 on the model: the rule `dpos` for a record list dies in `ArrayDiffOpts.from_str`
(`NameError`); a `[keys]` entry `n` for the single record `a[1]` dies in `lhs_ele[use_key]` (`KeyError`) when the
left record has the inferred identity key `id` but no `n` -/
example :
    let rec1 : Node := .map none [(.str "id".toList, .scalar none (.int 1))]
    let rec2 : Node := .map none [(.str "id".toList, .scalar none (.int 2))]
    let rec2n : Node := .map none [(.str "id".toList, .scalar none (.int 2)), (.str ['n'], .scalar none (.str ['x']))]
    let l : Node := .map none [(.str ['a'], .seq none [rec1, rec2])]
    let r : Node := .map none [(.str ['a'], .seq none [rec1, rec2n])]
    Rules.report ⟨.position, .position⟩ [([.key (.str ['a'])], "dpos".toList)] [] l l = .error .nameError ∧
    Rules.report ⟨.position, .key⟩ [] [([.key (.str ['a']), .idx 1], ['n'])] l r = .error .keyError := by decide +kernel

/-! ## Witnesses: the hypotheses are met by non-trivial values; the findings on the model -/

example : Positional ⟨.position, .position⟩ ∧ Positional ⟨.position, .dpos⟩ ∧ NoKeySync ⟨.value, .value⟩ := by decide

example : exitStatus (report ⟨.position, .position⟩ (.seq none [.scalar none (.int 1)]) (.seq none [])) = 1 := by
  decide +kernel

example : syncByValue [.scalar none (.int 1), .scalar none (.int 2), .scalar none (.int 3)]
    [.scalar none (.int 3), .scalar none (.int 1), .scalar none (.int 4)]
    = [⟨some (0, .scalar none (.int 1)), some (1, .scalar none (.int 1))⟩,
       ⟨some (1, .scalar none (.int 2)), none⟩,
       ⟨some (2, .scalar none (.int 3)), some (0, .scalar none (.int 3))⟩,
       ⟨none, some (2, .scalar none (.int 4))⟩] := by decide +kernel

/-- `[a, null]` compared with itself (the design-time suspicion) is clean in the repaired model -/
example : report ⟨.position, .position⟩ (.seq none [.scalar none (.str ['a']), .scalar none .null])
      (.seq none [.scalar none (.str ['a']), .scalar none .null])
    = [⟨.same, [.idx 0], some (.scalar none (.str ['a'])), some (.scalar none (.str ['a']))⟩,
       ⟨.same, [.idx 1], some (.scalar none .null), some (.scalar none .null)⟩] := by decide +kernel

/-- `[1, 2]` against `[]` deletes both elements in the repaired model -/
example : report ⟨.position, .position⟩ (.seq none [.scalar none (.int 1), .scalar none (.int 2)]) (.seq none [])
    = [mkDel [.idx 0] (.scalar none (.int 1)), mkDel [.idx 1] (.scalar none (.int 2))] := by decide +kernel

/-- value synchronisation: `[1, 2, 2]` and `[2, 1, 2]` are equal as data, `[1, 2, 2]` and `[1, 1, 2]` are not -/
example : dataEq ⟨.value, .position⟩ (.seq none [.scalar none (.int 1), .scalar none (.int 2), .scalar none (.int 2)])
      (.seq none [.scalar none (.int 2), .scalar none (.int 1), .scalar none (.int 2)]) = true
    ∧ dataEq ⟨.value, .position⟩ (.seq none [.scalar none (.int 1), .scalar none (.int 2), .scalar none (.int 2)])
      (.seq none [.scalar none (.int 1), .scalar none (.int 1), .scalar none (.int 2)]) = false := by
  decide +kernel

/-- finding C06-K1 on the model: `{}` against `[]` gives an empty (hence clean) report although the
data differ, and the hypothesis `report c l r = diff true c l r` of the `…_partial` theorems fails -/
example : clean (report ⟨.position, .position⟩ (.map none []) (.seq none [])) = true
    ∧ dataEq ⟨.position, .position⟩ (.map none []) (.seq none []) = false
    ∧ report ⟨.position, .position⟩ (.map none []) (.seq none []) ≠ diff true ⟨.position, .position⟩ (.map none []) (.seq none []) := by
  decide +kernel

/-- finding C06-K1 on the model: `null` against `[1]` — the left leaf (the root) has no entry -/
example : report ⟨.position, .position⟩ (.scalar none .null) (.seq none [.scalar none (.int 1)])
    = [mkAdd [.idx 0] (.scalar none (.int 1))] := by decide +kernel

/-- the hypothesis `report c l r = diff true c l r` is met by documents with nulls and empty containers -/
example : report ⟨.position, .position⟩ (.seq none [.scalar none .null, .seq none []]) (.seq none [.scalar none .null, .seq none [], .map none []])
    = diff true ⟨.position, .position⟩ (.seq none [.scalar none .null, .seq none []]) (.seq none [.scalar none .null, .seq none [], .map none []]) := by
  decide +kernel

/-- finding C06-K2 on the model: `[{a: 1}, {b: 2}]` compared with itself under `--aoh key` is not
clean; `keyed` (the hypothesis of `diff_refl`) fails for it and holds for `[{a: 1}, {a: 2}]` -/
example : clean (report ⟨.position, .key⟩
      (.seq none [.map none [(.str ['a'], .scalar none (.int 1))], .map none [(.str ['b'], .scalar none (.int 2))]])
      (.seq none [.map none [(.str ['a'], .scalar none (.int 1))], .map none [(.str ['b'], .scalar none (.int 2))]])) = false
    ∧ keyed ⟨.position, .key⟩
      (.seq none [.map none [(.str ['a'], .scalar none (.int 1))], .map none [(.str ['b'], .scalar none (.int 2))]]) = false
    ∧ keyed ⟨.position, .key⟩
      (.seq none [.map none [(.str ['a'], .scalar none (.int 1))], .map none [(.str ['a'], .scalar none (.int 2))]]) = true := by
  decide +kernel

/-- the hypotheses of `diff_clean_iff_dataEq_key_root` on `[{a: 1, b: x}, {a: 2}]` vs `[{a: 2}, {a: 1, b: y}]` -/
example :
    let xs := [Node.map none [(.str ['a'], .scalar none (.int 1)), (.str ['b'], .scalar none (.str ['x']))],
               Node.map none [(.str ['a'], .scalar none (.int 2))]]
    let ys := [Node.map none [(.str ['a'], .scalar none (.int 2))],
               Node.map none [(.str ['a'], .scalar none (.int 1)), (.str ['b'], .scalar none (.str ['y']))]]
    listMode ⟨.position, .key⟩ xs ys = .key ∧ xs.all (hasIdentity (keyAttr ys)) = true
      ∧ keyMatch (keyAttr ys) ys[0]! ys[1]! = false
      ∧ clean (report ⟨.position, .key⟩ (.seq none xs) (.seq none ys)) = false
      ∧ dataEq ⟨.position, .key⟩ (.seq none xs) (.seq none ys) = false := by
  decide +kernel

end Ypv.C06
