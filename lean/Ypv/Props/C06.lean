import Ypv.Lemmas.Diff
/-!
# C06 — a diff is truthful and complete; it is empty of changes iff the data are equal

Theorems about the model `Ypv.Diff` (`Model/Diff.lean`) of `yamlpath.differ`; the definitions
the statements use (`clean`, `dataEq`, `leaves`, `wf`, `keyed`) are in `Spec/Diff.lean`.
-/
namespace Ypv.C06
open Ypv Ypv.Diff

/-! ## exit status -/

theorem changesFound_iff (rep : List Entry) : changesFound rep = true ↔ ∃ e ∈ rep, e.action ≠ .same := by
  induction rep with
  | nil => simp [changesFound]
  | cons e es ih =>
    unfold changesFound
    by_cases h : e.action = .same
    · simp [h, ih]
    · simp [h]

/-- `yaml-diff` exits with 0 exactly when the report has no entry other than SAME
(`print_report`'s `changes_found` flag, `exit_state = 1 if … else 0`). -/
theorem exit_zero_iff_clean (rep : List Entry) : exitStatus rep = 0 ↔ clean rep = true := by
  unfold exitStatus clean
  induction rep with
  | nil => simp [changesFound]
  | cons e es ih =>
    unfold changesFound
    by_cases h : e.action = .same
    · simpa [h] using ih
    · simp [h]

example : exitStatus (report ⟨.position, .position⟩ (.seq none [.scalar none (.int 1)]) (.seq none [])) = 1 := by
  decide +kernel

/-! ## accounting of a synchronisation -/

/-- Each left element appears exactly once (in order, with its own index) among the tuples of a
synchronisation, each right element exactly once (the right sides of the tuples are a permutation
of the indexed right list), every tuple is a matched pair for which the matcher holds, a lone left
element, or a lone right element.  Holds for every matcher, hence for
`synchronize_lists_by_value` and `synchronize_lods_by_key`.  Proved by induction over the loop
with the list of remaining right elements (`rhs_reduced`) as the invariant. -/
theorem sync_accounting (m : Node → Node → Bool) (xs ys : List Node) :
    (sync m xs ys).filterMap (fun p => p.l) = enumFrom 0 xs
    ∧ ((sync m xs ys).filterMap (fun p => p.r)).Perm (enumFrom 0 ys)
    ∧ (∀ p ∈ sync m xs ys,
        (∃ a b, p = ⟨some a, some b⟩ ∧ m a.2 b.2 = true) ∨ (∃ a, p = ⟨some a, none⟩) ∨ (∃ b, p = ⟨none, some b⟩)) :=
  ⟨syncLoop_left m xs 0 _, syncLoop_right m xs 0 _, syncLoop_shape m xs 0 _⟩

/-- the indices on the two sides: `0 … len-1`, each once -/
theorem sync_indices (m : Node → Node → Bool) (xs ys : List Node) :
    ((sync m xs ys).filterMap (fun p => p.l)).map (fun a => a.1) = List.range' 0 xs.length
    ∧ (((sync m xs ys).filterMap (fun p => p.r)).map (fun a => a.1)).Perm (List.range' 0 ys.length) := by
  obtain ⟨h1, h2, _⟩ := sync_accounting m xs ys
  refine ⟨by rw [h1, enumFrom_fst], ?_⟩
  have := h2.map (fun a => a.1)
  rwa [enumFrom_fst] at this

example : syncByValue [.scalar none (.int 1), .scalar none (.int 2), .scalar none (.int 3)]
    [.scalar none (.int 3), .scalar none (.int 1), .scalar none (.int 4)]
    = [⟨some (0, .scalar none (.int 1)), some (1, .scalar none (.int 1))⟩,
       ⟨some (1, .scalar none (.int 2)), none⟩,
       ⟨some (2, .scalar none (.int 3)), some (0, .scalar none (.int 3))⟩,
       ⟨none, some (2, .scalar none (.int 4))⟩] := by decide +kernel

/-- what the report makes of one tuple under the identity-key modes -/
def keyPairEntries (s : Bool) (c : Cfg) (p : Addr) (deep : Bool) : Pair → List Entry
  | ⟨some (i, x), some (j, y)⟩ =>
    if deep then diffBetween s c (p ++ [.idx j]) x y else [scalarEntry (p ++ [.idx i]) x y]
  | ⟨some (i, x), none⟩ => [mkDel (p ++ [.idx i]) x]
  | ⟨none, some (j, y)⟩ => [mkAdd (p ++ [.idx j]) y]
  | ⟨none, none⟩ => []

/-- The KEY/DEEP report of two record lists is, tuple by tuple, what the synchronisation says:
a matched pair is compared (one SAME/CHANGE entry, or the pair's own diff), a lone left record is
one DELETE, a lone right record one ADD.  With `sync_accounting`: every left record is accounted
for exactly once as same/changed/deleted and every right record exactly once as same/changed/added. -/
theorem key_report_follows_sync (s : Bool) (c : Cfg) (p : Addr) (deep : Bool) (ka : Key) :
    ∀ (xs : List Node) (i : Nat) (rem : List (Nat × Node)),
    diffKey s c p deep ka i xs rem = (syncLoop (keyMatch ka) i xs rem).flatMap (keyPairEntries s c p deep) := by
  intro xs
  induction xs with
  | nil =>
    intro i rem
    simp only [diffKey, syncLoop]
    induction rem with
    | nil => rfl
    | cons y ys ih => simp [List.flatMap_cons, keyPairEntries, ih]
  | cons x xs ih =>
    intro i rem
    unfold diffKey syncLoop
    split
    · rename_i y rem' heq
      simp only [List.flatMap_cons, keyPairEntries, ih]
    · rename_i heq
      simp only [List.flatMap_cons, keyPairEntries, ih, List.singleton_append]

/-- what `_diff_synced_lists` makes of a matched pair / a lone left element -/
def valuePairEntries (s : Bool) (c : Cfg) (p : Addr) : Pair → List Entry
  | ⟨some (i, x), some (_, y)⟩ => diffBetween s c (p ++ [.idx i]) x y
  | ⟨some (i, x), none⟩ => [mkDel (p ++ [.idx i]) x]
  | _ => []

/-- The value-synchronised report, before the pending ADDs are merged with DELETEs at the same
path: the entries of the matched and lone left elements follow the tuples of
`synchronize_lists_by_value`, and the elements still to be added are exactly its lone right elements. -/
theorem value_report_follows_sync (s : Bool) (c : Cfg) (p : Addr) :
    ∀ (xs : List Node) (i : Nat) (rem : List (Nat × Node)),
    (diffValue s c p i xs rem).1 = (syncLoop (fun x y => eqv y x) i xs rem).flatMap (valuePairEntries s c p)
    ∧ (diffValue s c p i xs rem).2
        = (syncLoop (fun x y => eqv y x) i xs rem).filterMap (fun q => match q with | ⟨none, some b⟩ => some b | _ => none) := by
  intro xs
  induction xs with
  | nil =>
    intro i rem
    simp only [diffValue, syncLoop]
    induction rem with
    | nil => exact ⟨rfl, rfl⟩
    | cons y ys ih =>
      obtain ⟨h1, h2⟩ := ih
      refine ⟨?_, ?_⟩
      · simpa [List.flatMap_cons, valuePairEntries] using h1
      · simp only [List.map_cons, List.filterMap_cons]
        rw [← h2]
  | cons x xs ih =>
    intro i rem
    unfold diffValue syncLoop
    split
    · rename_i y rem' heq
      obtain ⟨h1, h2⟩ := ih (i + 1) rem'
      simp only [List.flatMap_cons, valuePairEntries, List.filterMap_cons]
      exact ⟨by rw [h1], h2⟩
    · rename_i heq
      obtain ⟨h1, h2⟩ := ih (i + 1) rem
      simp only [List.flatMap_cons, valuePairEntries, List.filterMap_cons, List.singleton_append]
      exact ⟨by rw [h1], h2⟩

end Ypv.C06
