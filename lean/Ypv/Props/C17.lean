import Ypv.Lemmas.Save
/-!
# C17 — a failing or interrupted tool run never loses the user's file

The model (`Ypv/Model/Save.lean`) describes yaml-set, yaml-merge and eyaml-rotate-keys as phases
(parse arguments → validate → load → query → check → apply → render → save) and the save as a list of
primitive file-system steps over an abstract file system `path ↦ optional bytes`.

* `prewrite_exit_has_no_io` — every run of yaml-set / yaml-merge that ends with a non-zero status in
  a phase before the save has performed read-only steps only; the file system afterwards is the
  file system before (target byte-for-byte unchanged, no output file, no backup file).
* `output_never_replaces_existing` — yaml-merge `--output o` with `o` present exits non-zero
  without a single writing step.
* `backup_is_preimage` — after a successful `--backup` save the `.bak` file holds exactly the
  bytes the target held before and the target holds the new text; whatever the `.bak` path held
  before (stale backup or nothing).
* `single_fault_keeps_original` — cut the `--backup` save at *any* step `k` (that step fails, having
  no effect), let the unwinding flush anything to, and close, the files then open for writing:
  the target or the backup holds the complete original bytes.  For every writer (yaml-set YAML,
  yaml-set JSON, yaml-merge --overwrite, eyaml-rotate-keys), every chunking of the backup copy and
  of the new text (so writes of arbitrary length, split arbitrarily — a short write followed by an
  error is one of those splittings), every previous state of the `.bak` path.
* `single_fault_keeps_original_restore` — the same for yaml-set's `except AssertionError` path
  (dump interrupted, temporary copy written back, backup removed).

Limits: a crash of the interpreter or a power loss in the middle of a `write` (torn pages,
unflushed directory entries) is below the system-call abstraction of the model.
-/
namespace Ypv.C17
open Ypv Ypv.Save

/-- Every run of yaml-set ending non-zero before the save phase has made read-only steps only, and
the file system is unchanged. -/
theorem prewrite_exit_has_no_io_set (o : Oracle) (fs : FS) (json backup : Bool) (t : Str)
    (oc nc rc : List Bytes) :
    let r := runSet o fs json backup t oc nc rc
    r.exit ≠ 0 → r.phase.beforeSave = true →
      (∀ s ∈ r.trace, s.writes = none) ∧ run fs r.trace = fs := by
  intro r hne hph
  have key : ∀ s ∈ r.trace, s.writes = none := by
    revert hne hph
    show (runSet o fs json backup t oc nc rc).exit ≠ 0 → (runSet o fs json backup t oc nc rc).phase.beforeSave = true →
      ∀ s ∈ (runSet o fs json backup t oc nc rc).trace, s.writes = none
    rcases o with ⟨a1, a2, a3, a4, a5, a6, a7, a8, a9⟩
    cases a1 <;> cases a2 <;> cases a3 <;> cases a4 <;> cases a5 <;> cases a6 <;> cases a8 <;> cases json <;>
      simp [runSet, Phase.beforeSave, Step.writes]
  exact ⟨key, run_readOnly _ _ key⟩

/-- yaml-set: a non-zero exit happens before the save, or is the restore exit (status 3). -/
theorem set_nonzero_exit_phase (o : Oracle) (fs : FS) (json backup : Bool) (t : Str)
    (oc nc rc : List Bytes) :
    let r := runSet o fs json backup t oc nc rc
    r.exit ≠ 0 → r.phase.beforeSave = true ∨ (r.exit = 3 ∧ r.phase = .save ∧ json = false) := by
  show (runSet o fs json backup t oc nc rc).exit ≠ 0 →
    (runSet o fs json backup t oc nc rc).phase.beforeSave = true ∨
    ((runSet o fs json backup t oc nc rc).exit = 3 ∧ (runSet o fs json backup t oc nc rc).phase = .save ∧ json = false)
  rcases o with ⟨a1, a2, a3, a4, a5, a6, a7, a8, a9⟩
  cases a1 <;> cases a2 <;> cases a3 <;> cases a4 <;> cases a5 <;> cases a6 <;> cases a8 <;> cases json <;>
    simp [runSet, Phase.beforeSave]

/-- Every run of yaml-merge ending non-zero has made read-only steps only, and the file system
is unchanged (every non-zero exit of yaml-merge precedes the save). -/
theorem prewrite_exit_has_no_io_merge (o : Oracle) (fs : FS) (dest : Dest) (ins : List Str)
    (mergeExit : Nat) (oc nc : List Bytes) :
    let r := runMerge o fs dest ins mergeExit oc nc
    r.exit ≠ 0 → r.phase.beforeSave = true ∧
      (∀ s ∈ r.trace, s.writes = none) ∧ run fs r.trace = fs := by
  intro r hne
  have key : r.phase.beforeSave = true ∧ ∀ s ∈ r.trace, s.writes = none := by
    revert hne
    show (runMerge o fs dest ins mergeExit oc nc).exit ≠ 0 →
      (runMerge o fs dest ins mergeExit oc nc).phase.beforeSave = true ∧
      ∀ s ∈ (runMerge o fs dest ins mergeExit oc nc).trace, s.writes = none
    rcases o with ⟨a1, a2, a3, a4, a5, a6, a7, a8, a9⟩
    cases dest with
    | stdout =>
      cases a1 <;> cases a2 <;> cases a3 <;> cases a6 <;> cases a7 <;>
        simp [runMerge, mergeValidateSteps, Phase.beforeSave, Step.writes] <;>
        (try (intro s x _ h; rcases h with rfl | rfl <;> rfl))
    | output out =>
      cases hx : (fs out).isSome <;>
      cases a1 <;> cases a2 <;> cases a3 <;> cases a6 <;> cases a7 <;>
        simp [runMerge, mergeValidateSteps, Phase.beforeSave, Step.writes, hx] <;>
        (try (intro s x _ h; rcases h with rfl | rfl <;> rfl))
    | overwrite t b =>
      cases a1 <;> cases a2 <;> cases a3 <;> cases a6 <;> cases a7 <;>
        simp [runMerge, mergeValidateSteps, Phase.beforeSave, Step.writes] <;>
        (try (intro s x _ h; rcases h with rfl | rfl <;> rfl))
  exact ⟨key.1, key.2, run_readOnly _ _ key.2⟩

/-- C17, first sentence: a yaml-set or yaml-merge run that ends non-zero before writing has
changed nothing — not the target, not an output file, not a backup file. -/
theorem prewrite_exit_has_no_io :
    (∀ (o : Oracle) (fs : FS) (json backup : Bool) (t : Str) (oc nc rc : List Bytes),
      (runSet o fs json backup t oc nc rc).exit ≠ 0 →
      (runSet o fs json backup t oc nc rc).phase.beforeSave = true →
      run fs (runSet o fs json backup t oc nc rc).trace = fs) ∧
    (∀ (o : Oracle) (fs : FS) (dest : Dest) (ins : List Str) (me : Nat) (oc nc : List Bytes),
      (runMerge o fs dest ins me oc nc).exit ≠ 0 →
      run fs (runMerge o fs dest ins me oc nc).trace = fs) :=
  ⟨fun o fs json backup t oc nc rc h1 h2 => (prewrite_exit_has_no_io_set o fs json backup t oc nc rc h1 h2).2,
   fun o fs dest ins me oc nc h => (prewrite_exit_has_no_io_merge o fs dest ins me oc nc h).2.2⟩

/-- yaml-merge `--output out` never replaces an existing file: with `out` present the run ends
non-zero and the file system is unchanged — whatever the other inputs decide. -/
theorem output_never_replaces_existing (o : Oracle) (fs : FS) (out : Str) (ins : List Str)
    (me : Nat) (oc nc : List Bytes) (x : Bytes) (hx : fs out = some x) :
    let r := runMerge o fs (.output out) ins me oc nc
    r.exit ≠ 0 ∧ run fs r.trace = fs ∧ run fs r.trace out = some x := by
  intro r
  have hne : r.exit ≠ 0 := by
    show (runMerge o fs (.output out) ins me oc nc).exit ≠ 0
    rcases o with ⟨a1, a2, a3, a4, a5, a6, a7, a8, a9⟩
    cases a1 <;> cases a2 <;> simp [runMerge, mergeValidateSteps, hx]
  have h := (prewrite_exit_has_no_io_merge o fs (.output out) ins me oc nc hne).2.2
  exact ⟨hne, h, by rw [h]; exact hx⟩

/-- After a successful `--backup` save the backup holds the pre-image and the target the new
text, for every writer and whatever the `.bak` path held before. -/
theorem backup_is_preimage (fs : FS) (saw : Bool) (w : Writer) (t : Str) (orig : Bytes) (oc nc : List Bytes)
    (_ht : fs t = some orig) (hoc : oc.flatten = orig) :
    run fs (saveSteps saw w true t oc nc) (bakOf t) = some orig ∧
    run fs (saveSteps saw w true t oc nc) t = some nc.flatten := by
  simp only [saveSteps, if_true]
  rw [run_append]
  constructor
  · rw [run_frame (bakOf t) _ _ (fun s hs => by
      rcases writePart_writes w t nc s hs with h | h
      · rw [h]; simp
      · rw [h]; intro e; exact bakOf_ne t (Option.some.inj e))]
    rw [run_backupSteps, hoc]
  · exact run_writePart _ _ _ _

/-- C17, last sentence.  `runFault fs steps k cl`: steps `0 … k-1` succeed, step `k` fails, then
the unwinding performs `cl` (flushes to / closes of files open for writing at that moment).
No bound on `k`, on the sizes or on the number of chunks. -/
theorem single_fault_keeps_original (fs : FS) (saw : Bool) (w : Writer) (t : Str) (orig : Bytes)
    (oc nc : List Bytes) (ht : fs t = some orig) (hoc : oc.flatten = orig)
    (k : Nat) (cl : List Step)
    (hcl : Cleanup ((saveSteps saw w true t oc nc).take k) cl) :
    runFault fs (saveSteps saw w true t oc nc) k cl t = some orig ∨
    runFault fs (saveSteps saw w true t oc nc) k cl (bakOf t) = some orig := by
  simp only [saveSteps, if_true] at *
  exact two_phase fs t (bakOf t) orig _ _ (bakOf_ne t) ht (backupSteps_writes saw t oc)
    (writePart_writes w t nc) (openW_backupSteps saw t oc) (by rw [run_backupSteps, hoc]) k cl hcl

/-- The same for yaml-set's restore path (`except AssertionError`): dump interrupted after the
chunks `nc`, the temporary copy (chunks `rc`) written back, then the backup removed. -/
theorem single_fault_keeps_original_restore (fs : FS) (saw : Bool) (t : Str) (orig : Bytes)
    (oc nc rc : List Bytes) (ht : fs t = some orig) (hoc : oc.flatten = orig) (hrc : rc.flatten = orig)
    (k : Nat) (cl : List Step)
    (hcl : Cleanup ((restoreSteps saw true t oc nc rc).take k) cl) :
    runFault fs (restoreSteps saw true t oc nc rc) k cl t = some orig ∨
    runFault fs (restoreSteps saw true t oc nc rc) k cl (bakOf t) = some orig := by
  simp only [restoreSteps, if_true] at *
  generalize hR : ([Step.openRead t, .creatTrunc t] ++ nc.map (.append t) ++ [.close t] ++ writeSteps t rc) = R at *
  have hRw : ∀ s ∈ R, s.writes = none ∨ s.writes = some t := by
    subst hR
    intro s hs
    simp only [List.mem_append, List.mem_cons, List.mem_map, List.not_mem_nil, or_false] at hs
    rcases hs with (((rfl | rfl) | ⟨c, _, rfl⟩) | rfl) | hs
    · simp [Step.writes]
    · simp [Step.writes]
    · simp [Step.writes]
    · simp [Step.writes]
    · exact writeSteps_writes _ _ _ hs
  by_cases hk : k ≤ (backupSteps saw t oc ++ R).length
  · -- the fault precedes the final `unlink bak`
    have hpre : (backupSteps saw t oc ++ R ++ [Step.unlink (bakOf t)]).take k = (backupSteps saw t oc ++ R).take k := by
      rw [List.take_append]
      have : k - (backupSteps saw t oc ++ R).length = 0 := by omega
      rw [this]; simp
    unfold runFault
    rw [hpre] at hcl ⊢
    exact two_phase fs t (bakOf t) orig _ _ (bakOf_ne t) ht (backupSteps_writes saw t oc) hRw
      (openW_backupSteps saw t oc) (by rw [run_backupSteps, hoc]) k cl hcl
  · -- everything ran: the target has been restored
    left
    have hpre : (backupSteps saw t oc ++ R ++ [Step.unlink (bakOf t)]).take k = backupSteps saw t oc ++ R ++ [Step.unlink (bakOf t)] := by
      apply List.take_of_length_le
      simp only [List.length_append, List.length_cons, List.length_nil] at hk ⊢
      omega
    unfold runFault
    rw [hpre] at hcl ⊢
    have hopen : openW (backupSteps saw t oc ++ R ++ [Step.unlink (bakOf t)]) = [] := by
      unfold openW
      rw [openWFrom_append, openWFrom_append]
      have h1 : openWFrom [] (backupSteps saw t oc) = [] := openW_backupSteps saw t oc
      rw [h1]; subst hR
      simp [openWFrom_append, openWFrom, openWFrom_appends, openW_writeSteps]
    rw [cleanup_nil_of_closed _ _ hcl hopen, run_nil, run_append, run_append]
    rw [run_frame t [Step.unlink (bakOf t)] _ (by
      intro s hs; simp at hs; subst hs; simp [Step.writes]; exact fun e => bakOf_ne t e.symm)]
    subst hR
    rw [run_append, run_writeSteps, hrc]

/-! ## The hypotheses are met, and the conclusions are not vacuous -/

private def T : Str := "f.yaml".toList
private def fs0 : FS := fun p => if p = T then some [1, 2, 3] else if p = bakOf T then some [9] else none

/-- A concrete `--backup` save over a stale `.bak`, backup copied in two chunks, new text in two. -/
example : (saveSteps true .setYaml true T [[1], [2, 3]] [[7], [8]]).length = 14 := by decide +kernel

/-- cut after the target has been truncated and one chunk written, the rest flushed on unwinding:
the target is lost, the backup holds the original. -/
example : runFault fs0 (saveSteps true .setYaml true T [[1], [2, 3]] [[7], [8]]) 12 [.append T [8]] T = some [7, 8]
    ∧ runFault fs0 (saveSteps true .setYaml true T [[1], [2, 3]] [[7], [8]]) 12 [.append T [8]] (bakOf T) = some [1, 2, 3] := by
  decide +kernel

/-- cut in the middle of the backup copy: the backup is incomplete, the target intact. -/
example : runFault fs0 (saveSteps true .setYaml true T [[1], [2, 3]] [[7], [8]]) 5 [] T = some [1, 2, 3]
    ∧ runFault fs0 (saveSteps true .setYaml true T [[1], [2, 3]] [[7], [8]]) 5 [] (bakOf T) = some [1] := by
  decide +kernel

/-- Without `--backup` the guarantee does not hold (the property does not claim it):
a fault after the truncation loses the file. -/
example : runFault fs0 (saveSteps true .setJson false T [] [[7], [8]]) 1 [] T = some []
    ∧ runFault fs0 (saveSteps true .setJson false T [] [[7], [8]]) 1 [] (bakOf T) = some [9] := by
  decide +kernel

/-- What goes wrong if the backup were taken *after* the target is opened for writing (the
mutation `copy2` after `open(…, 'w')`): a fault between the two loses the original. -/
example : let bad := [Step.creatTrunc T] ++ backupSteps true T [[]] ++ [Step.append T [7], .close T]
    runFault fs0 bad 1 [] T = some [] ∧ runFault fs0 bad 1 [] (bakOf T) = some [9] := by
  decide +kernel

/-- a pre-write exit: `--check` fails (status 20) after the document was read. -/
example : (runSet ⟨true, true, true, true, false, true, true, true, true⟩ fs0 false true T [[1, 2, 3]] [[7]] []) =
    ⟨20, .check, [.openRead T]⟩ := by decide +kernel

end Ypv.C17
