/-! C17 — property theorems (stub; no obligations yet) -/
