import Ypv.Lemmas.Compare
/-!
# C12 — search operators compare values by the documented typed rules

The model is `searchMatches` (`Model/Compare.lean`, a branch-for-branch mirror of
`Searches.search_matches` after `fixes/C12-1.patch`); the specification is `Spec.matches`, written
from the property statement.  Regular expressions are an oracle parameter `rx` of both.

* `matches_eq_spec` — for every operator, every scalar value and every term the model answers
  exactly what the specification demands (an answer on one side iff on the other).
* `matches_total` — for a well-formed term (`WellFormed`: both sides inside the modelled literal
  classes, and for `=~` the pattern compiles) the comparison returns a Boolean; and whatever the
  input, no crash outcome is reachable (`matches_never_crashes`); the only YAML Path error is the
  one for an invalid pattern (`matches_error_only_invalid_regex`).
* `inverted_is_complement` — at the segment, over any sequence of scalar candidates, the plain
  search yields exactly the positions whose candidate matches and the inverted search exactly the
  others, both in document order (`plain_is_filter`, `inverted_is_complement`,
  `inverted_list_site`).
-/
namespace Ypv.C12
open Ypv

/-- The Boolean answer of an outcome, if it is one. -/
def answer : Except Err Bool → Option Bool
  | .ok b => some b
  | .error _ => none

theorem ladder_eq_spec (m : Method) (ok : Ordering → Bool) (txt : Str → Str → Bool)
    (h1 : ∀ o, ok o = Spec.accepts m o) (h2 : ∀ a b, txt a b = Spec.accepts m (Spec.textCmp a b))
    (th tn : Typed) (hay t : Str) :
    orderLadder ok txt th tn hay t =
      (match th.ordNum?, tn.ordNum? with
       | some (m1, e1), some (m2, e2) => Spec.accepts m (decCmp m1 e1 m2 e2)
       | some _, none => false
       | none, _ => Spec.accepts m (Spec.textCmp hay t)) := by
  cases th <;> cases tn <;> simp [orderLadder, Typed.ordNum?, h1, h2]

theorem accepts_gt (o : Ordering) : (o == .gt) = Spec.accepts .gt o := by cases o <;> rfl
theorem accepts_lt (o : Ordering) : (o == .lt) = Spec.accepts .lt o := by cases o <;> rfl
theorem accepts_ge (o : Ordering) : (o != .lt) = Spec.accepts .ge o := by cases o <;> rfl
theorem accepts_le (o : Ordering) : (o != .gt) = Spec.accepts .le o := by cases o <;> rfl

theorem txt_gt (a b : Str) : strLt b a = Spec.accepts .gt (Spec.textCmp a b) := by
  rw [textCmp_gt, accepts_gt]
theorem txt_lt (a b : Str) : strLt a b = Spec.accepts .lt (Spec.textCmp a b) := by
  rw [textCmp_lt, accepts_lt]
theorem txt_ge (a b : Str) : strLe b a = Spec.accepts .ge (Spec.textCmp a b) := by
  rw [textCmp_ge, accepts_ge]
theorem txt_le (a b : Str) : strLe a b = Spec.accepts .le (Spec.textCmp a b) := by
  rw [textCmp_le, accepts_le]

theorem beq_dec {α : Type} [BEq α] [LawfulBEq α] [DecidableEq α] (a b : α) : (a == b) = decide (a = b) := by
  by_cases h : a = b
  · subst h; simp
  · simp [h]

/-- **C12 (a)**.  The model of `search_matches` equals the specification: for every operator,
value and term, either both give the same Boolean or neither gives one. -/
theorem matches_eq_spec (rx : Str → Str → Option Bool) (m : Method) (value : Scalar) (term : Str) :
    answer (searchMatches rx m value term) = Spec.matches rx m value term := by
  unfold searchMatches searchTyped Spec.matches
  simp only []
  generalize typedOfScalar value = th
  generalize typedValue term = tn
  generalize pyStr value = hay
  by_cases hu : (th = Typed.unmodelled || tn = Typed.unmodelled) = true
  · simp [hu, answer]
  · simp only [hu, if_false, Bool.false_eq_true]
    cases m
    case equals =>
      simp only [Spec.isOrdering, Bool.false_eq_true, if_false]
      cases th <;> cases tn <;> simp [answer, beq_dec]
    case contains => simp [Spec.isOrdering, answer, pyContains_eq_spec]
    case endsWith => simp [Spec.isOrdering, answer, pyEndsWith_eq_spec]
    case startsWith => simp [Spec.isOrdering, answer, pyStartsWith_eq_spec]
    case regex =>
      simp only [Spec.isOrdering, Bool.false_eq_true, if_false]
      cases rx term hay <;> simp [answer]
    case gt =>
      simp only [Spec.isOrdering, if_true, answer]
      rw [ladder_eq_spec .gt _ _ accepts_gt txt_gt]
      cases th.ordNum? <;> cases tn.ordNum? <;> rfl
    case lt =>
      simp only [Spec.isOrdering, if_true, answer]
      rw [ladder_eq_spec .lt _ _ accepts_lt txt_lt]
      cases th.ordNum? <;> cases tn.ordNum? <;> rfl
    case ge =>
      simp only [Spec.isOrdering, if_true, answer]
      rw [ladder_eq_spec .ge _ _ accepts_ge txt_ge]
      cases th.ordNum? <;> cases tn.ordNum? <;> rfl
    case le =>
      simp only [Spec.isOrdering, if_true, answer]
      rw [ladder_eq_spec .le _ _ accepts_le txt_le]
      cases th.ordNum? <;> cases tn.ordNum? <;> rfl

/-- A term is well-formed for a value and an operator: both sides lie inside the modelled literal
classes and, for `=~`, the pattern compiles (the oracle has an answer). -/
def WellFormed (rx : Str → Str → Option Bool) (m : Method) (value : Scalar) (term : Str) : Bool :=
  typedOfScalar value != .unmodelled && typedValue term != .unmodelled &&
    (m != .regex || (rx term (pyStr value)).isSome)

/-- **C12 (b)**.  For a well-formed term the comparison returns a Boolean: never an error. -/
theorem matches_total (rx : Str → Str → Option Bool) (m : Method) (value : Scalar) (term : Str)
    (h : WellFormed rx m value term = true) : ∃ b, searchMatches rx m value term = .ok b := by
  unfold WellFormed at h
  simp only [Bool.and_eq_true, bne_iff_ne, ne_eq, Bool.or_eq_true] at h
  obtain ⟨⟨h1, h2⟩, h3⟩ := h
  unfold searchMatches searchTyped
  have hu : (typedOfScalar value = Typed.unmodelled || typedValue term = Typed.unmodelled) = false := by
    simp [h1, h2]
  simp only [hu, Bool.false_eq_true, if_false]
  cases m
  case regex =>
    have : (rx term (pyStr value)).isSome = true := by
      rcases h3 with h3 | h3
      · exact absurd rfl h3
      · exact h3
    cases hr : rx term (pyStr value) with
    | none => rw [hr] at this; cases this
    | some b => exact ⟨b, rfl⟩
  case equals =>
    cases typedOfScalar value <;> cases typedValue term <;> exact ⟨_, rfl⟩
  all_goals exact ⟨_, rfl⟩

/-- Whatever the input, the comparison never ends in a crash outcome (any Python exception outside
the library's own family): since fix 149bd27 an invalid regular expression is a YAML Path error. -/
theorem matches_never_crashes (rx : Str → Str → Option Bool) (m : Method) (value : Scalar)
    (term : Str) (k : CrashKind) : searchMatches rx m value term ≠ .error (.crash k) := by
  intro h
  unfold searchMatches searchTyped at h
  split at h
  · cases h
  · cases m
    case regex =>
      cases hr : rx term (pyStr value) with
      | none => rw [hr] at h; cases h
      | some b => rw [hr] at h; cases h
    case equals =>
      revert h
      cases typedOfScalar value <;> cases typedValue term <;> intro h <;> cases h
    all_goals cases h

/-- The only YAML Path error the comparison raises is the one for a regular expression that does
not compile. -/
theorem matches_error_only_invalid_regex (rx : Str → Str → Option Bool) (m : Method) (value : Scalar)
    (term : Str) (y : YKind) (h : searchMatches rx m value term = .error (.ypath y)) :
    y = .generic ∧ m = .regex ∧ rx term (pyStr value) = none := by
  unfold searchMatches searchTyped at h
  split at h
  · cases h
  · cases m
    case regex =>
      cases hr : rx term (pyStr value) with
      | none => rw [hr] at h; cases h; exact ⟨rfl, rfl, rfl⟩
      | some b => rw [hr] at h; cases h
    case equals =>
      revert h
      cases typedOfScalar value <;> cases typedValue term <;> intro h <;> cases h
    all_goals cases h

/-! ## Inversion at the segment -/

/-- "The candidate matches". -/
def hit (rx : Str → Str → Option Bool) (m : Method) (term : Str) (c : Scalar) : Bool :=
  searchMatches rx m c term == .ok true

/-- The positions `i, i+1, …` of the candidates that satisfy `p`. -/
def positions {α : Type} (p : α → Bool) : List α → Nat → List Nat
  | [], _ => []
  | c :: cs, i => if p c then i :: positions p cs (i + 1) else positions p cs (i + 1)

theorem scan_eq (rx : Str → Str → Option Bool) (inv : Bool) (m : Method) (term : Str) :
    ∀ (cs : List Scalar) (i : Nat), (∀ c ∈ cs, WellFormed rx m c term = true) →
      searchScan rx inv m term cs i = (positions (fun c => hit rx m term c != inv) cs i, none)
  | [], _, _ => rfl
  | c :: cs, i, h => by
    obtain ⟨b, hb⟩ := matches_total rx m c term (h c (by simp))
    have ih := scan_eq rx inv m term cs (i + 1) (fun c' hc' => h c' (by simp [hc']))
    unfold searchScan positions
    rw [hb, ih]
    simp only [hit, hb]
    cases b <;> cases inv <;> simp [yieldIf]

/-- **C12 (c₁)**.  The plain search over a sequence of candidates with a well-formed term
yields exactly the positions of the matching candidates, in order, and ends normally. -/
theorem plain_is_filter (rx : Str → Str → Option Bool) (m : Method) (term : Str) (cs : List Scalar)
    (h : ∀ c ∈ cs, WellFormed rx m c term = true) :
    searchScan rx false m term cs 0 = (positions (fun c => hit rx m term c) cs 0, none) := by
  rw [scan_eq rx false m term cs 0 h]
  congr 2; funext c; cases hit rx m term c <;> rfl

/-- **C12 (c₂)**.  The inverted search yields exactly the positions of the candidates the plain
search does not yield (`¬ matches`), in order. -/
theorem inverted_is_complement (rx : Str → Str → Option Bool) (m : Method) (term : Str) (cs : List Scalar)
    (h : ∀ c ∈ cs, WellFormed rx m c term = true) :
    searchScan rx true m term cs 0 = (positions (fun c => !hit rx m term c) cs 0, none) := by
  rw [scan_eq rx true m term cs 0 h]
  congr 2; funext c; cases hit rx m term c <;> rfl

/-- Positions are a partition: every position is yielded by exactly one of the two searches. -/
theorem positions_partition {α : Type} (p : α → Bool) : ∀ (cs : List α) (i j : Nat),
    i ≤ j → j < i + cs.length →
      ((j ∈ positions p cs i ∧ j ∉ positions (fun c => !p c) cs i) ∨
       (j ∉ positions p cs i ∧ j ∈ positions (fun c => !p c) cs i))
  | [], i, j, h1, h2 => by simp at h2; omega
  | c :: cs, i, j, h1, h2 => by
    have lower : ∀ (q : α → Bool) (cs : List α) (k : Nat), ∀ x ∈ positions q cs k, k ≤ x := by
      intro q cs
      induction cs with
      | nil => intro k x hx; simp [positions] at hx
      | cons d ds ih =>
        intro k x hx
        unfold positions at hx
        split at hx
        · rcases List.mem_cons.mp hx with e | e
          · omega
          · have := ih (k + 1) x e; omega
        · have := ih (k + 1) x hx; omega
    by_cases e : j = i
    · subst e
      have n1 : j ∉ positions p cs (j + 1) := fun hx => by have := lower p cs (j + 1) j hx; omega
      have n2 : j ∉ positions (fun c => !p c) cs (j + 1) := fun hx => by
        have := lower (fun c => !p c) cs (j + 1) j hx; omega
      unfold positions
      cases hp : p c <;> simp [n1, n2]
    · have ih := positions_partition p cs (i + 1) j (by omega) (by simp at h2; omega)
      unfold positions
      cases hp : p c <;> simp [e, ih]

/-- The list site (`[.<op>term]` over a list): unless the list consists of nulls only (where the
code raises on `term in None`, a matter of C15), it is the same scan. -/
theorem inverted_list_site (rx : Str → Str → Option Bool) (inv : Bool) (m : Method) (term : Str)
    (cs : List Scalar) (hn : (!cs.isEmpty && cs.all (· = .null)) = false)
    (h : ∀ c ∈ cs, WellFormed rx m c term = true) :
    searchListSite rx inv m term cs = (positions (fun c => hit rx m term c != inv) cs 0, none) := by
  unfold searchListSite
  simp only [hn, Bool.false_eq_true, if_false]
  exact scan_eq rx inv m term cs 0 h

/-! ## The named-attribute site over a list of records -/

/-- "The record matches": it has a value at the attribute and that value matches.  A record with no
value at the attribute (`none`) matches no plain search, whatever the operator and the term. -/
def hitOpt (rx : Str → Str → Option Bool) (m : Method) (term : Str) : Option Scalar → Bool
  | none => false
  | some c => hit rx m term c

theorem attr_scan_eq (rx : Str → Str → Option Bool) (inv : Bool) (m : Method) (term : Str) :
    ∀ (cs : List (Option Scalar)) (i : Nat), (∀ c, some c ∈ cs → WellFormed rx m c term = true) →
      searchAttrScan rx inv m term cs i = (positions (fun o => hitOpt rx m term o != inv) cs i, none)
  | [], _, _ => rfl
  | none :: cs, i, h => by
    have ih := attr_scan_eq rx inv m term cs (i + 1) (fun c' hc' => h c' (by simp [hc']))
    unfold searchAttrScan positions
    rw [ih]
    cases inv <;> simp [yieldIf, hitOpt]
  | some c :: cs, i, h => by
    obtain ⟨b, hb⟩ := matches_total rx m c term (h c (by simp))
    have ih := attr_scan_eq rx inv m term cs (i + 1) (fun c' hc' => h c' (by simp [hc']))
    unfold searchAttrScan positions
    rw [hb, ih]
    simp only [hitOpt, hit, hb]
    cases b <;> cases inv <;> simp [yieldIf]

/-- **C12 (c₃)**.  A plain search on a named attribute over a list of records yields exactly the
positions of the records that HAVE a value at the attribute and whose own value matches, in order:
each record is answered from its own value, a record without the attribute is never selected. -/
theorem attr_plain_is_filter (rx : Str → Str → Option Bool) (m : Method) (term : Str)
    (cs : List (Option Scalar)) (h : ∀ c, some c ∈ cs → WellFormed rx m c term = true) :
    searchAttrScan rx false m term cs 0 = (positions (fun o => hitOpt rx m term o) cs 0, none) := by
  rw [attr_scan_eq rx false m term cs 0 h]
  congr 2; funext o; cases hitOpt rx m term o <;> rfl

/-- **C12 (c₄)**.  The inverted search on a named attribute yields exactly the records the plain
search does not yield - those whose own value does not match and those with no value there
(`positions_partition` says the two results partition the list). -/
theorem attr_inverted_is_complement (rx : Str → Str → Option Bool) (m : Method) (term : Str)
    (cs : List (Option Scalar)) (h : ∀ c, some c ∈ cs → WellFormed rx m c term = true) :
    searchAttrScan rx true m term cs 0 = (positions (fun o => !hitOpt rx m term o) cs 0, none) := by
  rw [attr_scan_eq rx true m term cs 0 h]
  congr 2; funext o; cases hitOpt rx m term o <;> rfl

/-! ## Witnesses: the hypotheses are met, and the typed rules are the intended ones -/

def noRegex : Str → Str → Option Bool := fun _ _ => none

example : searchMatches noRegex .equals (.int 5) "5".toList = .ok true := by decide +kernel
example : searchMatches noRegex .equals (.int 5) "5.0".toList = .ok false := by decide +kernel
example : searchMatches noRegex .equals (.float 5 0) "5.0".toList = .ok true := by decide +kernel
example : searchMatches noRegex .equals (.float 15 (-1)) "1.50".toList = .ok true := by decide +kernel
example : searchMatches noRegex .equals (.bool true) "tRuE".toList = .ok true := by decide +kernel
/-- a Boolean does not equal a number (the pinned code answered `true`: `fixes/C12-1.patch`) -/
example : searchMatches noRegex .equals (.bool true) "1".toList = .ok false := by decide +kernel
example : searchMatches noRegex .gt (.int 10) "9".toList = .ok true := by decide +kernel
example : searchMatches noRegex .gt (.str "10".toList) "9".toList = .ok true := by decide +kernel
example : searchMatches noRegex .gt (.str "b".toList) "ab".toList = .ok true := by decide +kernel
example : searchMatches noRegex .gt (.int 10) "abc".toList = .ok false := by decide +kernel
example : searchMatches noRegex .le (.float 25 (-1)) "3".toList = .ok true := by decide +kernel
/-- the text tests act on the value's own text (the pinned code answered `false`) -/
example : searchMatches noRegex .startsWith (.str "1.50".toList) "1.50".toList = .ok true := by decide +kernel
example : searchMatches noRegex .endsWith (.float 15 (-1)) ".5".toList = .ok true := by decide +kernel
example : searchMatches noRegex .contains .null "on".toList = .ok true := by decide +kernel
example : searchMatches noRegex .regex (.int 5) "*".toList = .error (.ypath .generic) := by decide +kernel
example : WellFormed noRegex .equals (.str "abc".toList) "1e5".toList = true := by decide +kernel
example : WellFormed noRegex .regex (.int 5) "*".toList = false := by decide +kernel
example : searchScan noRegex true .gt "4".toList [.int 5, .int 3, .str "x".toList, .float 45 (-1)] 0
    = ([1], none) := by decide +kernel
example : searchScan noRegex false .gt "4".toList [.int 5, .int 3, .str "x".toList, .float 45 (-1)] 0
    = ([0, 2, 3], none) := by decide +kernel
example : pyStr (.float 1 16) = "1e+16".toList := by decide +kernel
example : pyStr (.float 15 (-6)) = "1.5e-05".toList := by decide +kernel
example : typedValue "1_0.50e1".toList = .float 105 0 := by decide +kernel

/-- the record without the attribute is not selected although it follows a matching record; it belongs to the inverted result -/
example : searchAttrScan noRegex false .equals "8080".toList [some (.int 8080), none, some (.int 9090), some (.int 8080), none] 0
    = ([0, 3], none) := by decide +kernel
example : searchAttrScan noRegex true .equals "8080".toList [some (.int 8080), none, some (.int 9090), some (.int 8080), none] 0
    = ([1, 2, 4], none) := by decide +kernel

end Ypv.C12
