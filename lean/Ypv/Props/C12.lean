/-! C12 — property theorems (stub; no obligations yet) -/
